/-
Helper lemmas for the closest-node iteration (`Model/Closest.lean`), used by `Props/C08.lean`:
* closed form of `bucketOrder` (the `ClosestBucketsIter` state machine run to exhaustion),
  which is a permutation of `range 256` ordered by the relation `Before`;
* the XOR-metric ordering lemma: buckets visited earlier hold strictly closer nodes;
* the fold of `Table.closest` (invariant: visited buckets are final, the output is the
  concatenation of the sorted visited buckets) and the `_aux` forms of the C08 theorems, which take
  "`applyAt` preserves `TInv`" (`Proofs/KBucketLemmas.lean: applyAt_inv`) as the hypothesis `hA`;
* `nodes_by_distances`: the collection loop is `take`, the application loop preserves `TInv`.
-/
import Mathlib.Data.Nat.Bitwise
import Discv5Model.Model.KBucketSpec
namespace Discv5.KB

/-! ### closed form of the bucket order -/

def zin (d i : Nat) : List Nat := (List.range i).reverse.filter (fun j => d.testBit j)
def zout (d i : Nat) : List Nat :=
  (List.range' (i + 1) (256 - (i + 1))).filter (fun j => !d.testBit j)
def ztail (d : Nat) : List Nat := if (d.testBit 0 || d = 0) then zout d 0 else 0 :: zout d 0
def startIdx (d : Nat) : Nat := if d = 0 then 0 else d.log2
def closedOrder (d : Nat) : List Nat := startIdx d :: (zin d (startIdx d) ++ ztail d)

theorem find_range'_some (p : Nat → Bool) : ∀ k a j, (List.range' a k).find? p = some j →
    a ≤ j ∧ j < a + k ∧
      (List.range' a k).filter p = j :: (List.range' (j + 1) (a + k - (j + 1))).filter p := by
  intro k
  induction k with
  | zero => intro a j h; simp at h
  | succ k ih =>
    intro a j h
    rw [List.range'_succ] at h ⊢
    by_cases hp : p a = true
    · rw [List.find?_cons_of_pos hp] at h
      injection h with h
      subst h
      refine ⟨Nat.le_refl _, by omega, ?_⟩
      rw [List.filter_cons_of_pos hp]
      have : a + (k + 1) - (a + 1) = k := by omega
      rw [this]
    · rw [List.find?_cons_of_neg hp] at h
      obtain ⟨h1, h2, h3⟩ := ih (a + 1) j h
      refine ⟨by omega, by omega, ?_⟩
      rw [List.filter_cons_of_neg hp, h3]
      have : a + 1 + k - (j + 1) = a + (k + 1) - (j + 1) := by omega
      rw [this]

theorem find_none_filter (p : α → Bool) (l : List α) (h : l.find? p = none) : l.filter p = [] := by
  rw [List.find?_eq_none] at h
  rw [List.filter_eq_nil_iff]
  exact h

theorem find_revrange_some (p : Nat → Bool) : ∀ i j, (List.range i).reverse.find? p = some j →
    j < i ∧ (List.range i).reverse.filter p = j :: (List.range j).reverse.filter p := by
  intro i
  induction i with
  | zero => intro j h; simp at h
  | succ i ih =>
    intro j h
    rw [List.range_succ, List.reverse_append] at h ⊢
    simp only [List.reverse_cons, List.reverse_nil, List.nil_append, List.cons_append] at h ⊢
    by_cases hp : p i = true
    · rw [List.find?_cons_of_pos hp] at h
      injection h with h
      subst h
      exact ⟨Nat.lt_succ_self _, by rw [List.filter_cons_of_pos hp]⟩
    · rw [List.find?_cons_of_neg hp] at h
      obtain ⟨h1, h2⟩ := ih j h
      exact ⟨by omega, by rw [List.filter_cons_of_neg hp, h2]⟩

theorem cRun_some (d fuel : Nat) (s s' : CState) (i : Nat) (h : cNext d s = (some i, s')) :
    cRun d (fuel + 1) s = i :: cRun d fuel s' := by
  simp only [cRun, h]

theorem cRun_none (d fuel : Nat) (s s' : CState) (h : cNext d s = (none, s')) :
    cRun d (fuel + 1) s = [] := by
  simp only [cRun, h]

theorem cRun_zoomOut (d : Nat) : ∀ fuel i, (zout d i).length + 1 ≤ fuel →
    cRun d fuel (.zoomOut i) = zout d i := by
  intro fuel
  induction fuel with
  | zero => intro i h; omega
  | succ fuel ih =>
    intro i h
    cases hn : nextOut d i with
    | none =>
      rw [cRun_none d fuel _ .done (by simp only [cNext, hn])]
      unfold nextOut at hn
      simp only [numBuckets, Consts.NUM_BUCKETS] at hn
      exact (find_none_filter _ _ hn).symm
    | some j =>
      rw [cRun_some d fuel _ (.zoomOut j) j (by simp only [cNext, hn])]
      unfold nextOut at hn
      simp only [numBuckets, Consts.NUM_BUCKETS] at hn
      obtain ⟨h1, h2, h3⟩ := find_range'_some _ _ _ _ hn
      have e : i + 1 + (256 - (i + 1)) = 256 := by omega
      rw [e] at h3
      have hz : zout d i = j :: zout d j := h3
      rw [hz] at h ⊢
      rw [ih j (by simpa using h)]

theorem cRun_zoomIn (d : Nat) : ∀ fuel i, (zin d i ++ ztail d).length + 1 ≤ fuel →
    cRun d fuel (.zoomIn i) = zin d i ++ ztail d := by
  intro fuel
  induction fuel with
  | zero => intro i h; omega
  | succ fuel ih =>
    intro i h
    cases hn : nextIn d i with
    | some j =>
      rw [cRun_some d fuel _ (.zoomIn j) j (by simp only [cNext, hn])]
      unfold nextIn at hn
      obtain ⟨h1, h2⟩ := find_revrange_some _ _ _ hn
      have hz : zin d i = j :: zin d j := h2
      rw [hz] at h ⊢
      rw [ih j (by simpa using h)]
      rfl
    | none =>
      have hz : zin d i = [] := by
        unfold nextIn at hn
        exact find_none_filter _ _ hn
      rw [hz] at h ⊢
      simp only [List.nil_append] at h ⊢
      by_cases hc : (d.testBit 0 || decide (d = 0)) = true
      · have ht : ztail d = zout d 0 := by unfold ztail; rw [if_pos hc]
        rw [ht] at h ⊢
        rw [← cRun_zoomOut d (fuel + 1) 0 h]
        have e : cNext d (.zoomIn i) = cNext d (.zoomOut 0) := by
          simp only [cNext, hn, if_pos hc]
        simp only [cRun, e]
      · have ht : ztail d = 0 :: zout d 0 := by unfold ztail; rw [if_neg hc]
        rw [ht] at h ⊢
        rw [cRun_some d fuel _ (.zoomOut 0) 0 (by simp only [cNext, hn, if_neg hc])]
        rw [cRun_zoomOut d fuel 0 (by simpa using h)]

theorem bucketOrder_closed (d : Nat) (h : (closedOrder d).length ≤ 256) :
    bucketOrder d = closedOrder d := by
  unfold bucketOrder cInit
  simp only [numBuckets, Consts.NUM_BUCKETS]
  rw [cRun_some _ _ _ (.zoomIn (if d = 0 then 0 else d.log2)) (if d = 0 then 0 else d.log2) rfl]
  unfold closedOrder at h ⊢
  unfold startIdx at h ⊢
  rw [cRun_zoomIn d _ _ (by simp at h ⊢; omega)]


/-! ### the closed form is a permutation of `range 256`, ordered by `Before` -/

/-- `i` is visited before `j` for distance `d`: either the decisive bit is `i` (set in `d`, `j`
below) or it is `j` (clear in `d`, `i` below). -/
def Before (d i j : Nat) : Prop := (j < i ∧ d.testBit i = true) ∨ (i < j ∧ d.testBit j = false)

theorem mem_zin {d i j : Nat} : j ∈ zin d i ↔ j < i ∧ d.testBit j = true := by
  simp [zin]

theorem mem_zout {d i j : Nat} : j ∈ zout d i ↔ i < j ∧ j < 256 ∧ d.testBit j = false := by
  simp only [zout, List.mem_filter, List.mem_range'_1, Bool.not_eq_true']
  constructor
  · rintro ⟨⟨h1, h2⟩, h3⟩
    exact ⟨by omega, by omega, h3⟩
  · rintro ⟨h1, h2, h3⟩
    exact ⟨⟨by omega, by omega⟩, h3⟩

theorem mem_ztail {d j : Nat} :
    j ∈ ztail d ↔ j < 256 ∧ d.testBit j = false ∧ ¬(d = 0 ∧ j = 0) := by
  unfold ztail
  by_cases hc : (d.testBit 0 || decide (d = 0)) = true
  · rw [if_pos hc, mem_zout]
    simp only [Bool.or_eq_true, decide_eq_true_eq] at hc
    constructor
    · rintro ⟨h1, h2, h3⟩
      exact ⟨h2, h3, by omega⟩
    · rintro ⟨h1, h2, h3⟩
      refine ⟨?_, h1, h2⟩
      rcases Nat.eq_zero_or_pos j with hj | hj
      · subst hj
        rcases hc with hc | hc
        · rw [hc] at h2; cases h2
        · exact absurd ⟨hc, rfl⟩ h3
      · exact hj
  · rw [if_neg hc, List.mem_cons, mem_zout]
    simp only [Bool.or_eq_true, decide_eq_true_eq, not_or, Bool.not_eq_true] at hc
    constructor
    · rintro (h | ⟨h1, h2, h3⟩)
      · subst h; exact ⟨by omega, hc.1, fun h => hc.2 h.1⟩
      · exact ⟨h2, h3, by omega⟩
    · rintro ⟨h1, h2, _⟩
      rcases Nat.eq_zero_or_pos j with hj | hj
      · exact Or.inl hj
      · exact Or.inr ⟨hj, h1, h2⟩

theorem zin_pairwise (d i : Nat) : (zin d i).Pairwise (fun a b => b < a) := by
  unfold zin
  apply List.Pairwise.filter
  rw [List.pairwise_reverse]
  exact List.pairwise_lt_range

theorem zout_pairwise (d i : Nat) : (zout d i).Pairwise (fun a b => a < b) := by
  unfold zout
  apply List.Pairwise.filter
  exact List.pairwise_lt_range'

theorem ztail_pairwise (d : Nat) : (ztail d).Pairwise (fun a b => a < b) := by
  unfold ztail
  split
  · exact zout_pairwise d 0
  · rw [List.pairwise_cons]
    exact ⟨fun j hj => (mem_zout.1 hj).1, zout_pairwise d 0⟩

theorem testBit_lt_256 {d j : Nat} (h : d < 2 ^ 256) (hb : d.testBit j = true) : j < 256 := by
  apply Decidable.byContradiction
  intro hj
  have : d < 2 ^ j := Nat.lt_of_lt_of_le h (Nat.pow_le_pow_right (by omega) (by omega))
  rw [Nat.testBit_lt_two_pow this] at hb
  cases hb

theorem testBit_le_log2 {d j : Nat} (hb : d.testBit j = true) : j ≤ d.log2 := by
  apply Decidable.byContradiction
  intro hj
  have hd : d ≠ 0 := by
    intro h; subst h; simp at hb
  have : d < 2 ^ j := (Nat.log2_lt hd).1 (by omega)
  rw [Nat.testBit_lt_two_pow this] at hb
  cases hb

theorem closedOrder_pairwise (d : Nat) : (closedOrder d).Pairwise (Before d) := by
  unfold closedOrder
  rw [List.pairwise_cons, List.pairwise_append]
  refine ⟨?_, ?_, ?_, ?_⟩
  · intro j hj
    rw [List.mem_append, mem_zin, mem_ztail] at hj
    unfold startIdx at hj ⊢
    by_cases hd : d = 0
    · rw [if_pos hd] at hj ⊢
      rcases hj with ⟨h, _⟩ | ⟨h1, h2, h3⟩
      · omega
      · exact Or.inr ⟨by omega, h2⟩
    · rw [if_neg hd] at hj ⊢
      rcases hj with ⟨h, _⟩ | ⟨h1, h2, h3⟩
      · exact Or.inl ⟨h, Nat.testBit_log2 hd⟩
      · have hs := Nat.testBit_log2 hd
        have hne : j ≠ d.log2 := by
          intro e; rw [e, hs] at h2; cases h2
        rcases Nat.lt_or_gt_of_ne hne with h | h
        · exact Or.inl ⟨h, hs⟩
        · exact Or.inr ⟨h, h2⟩
  · apply (zin_pairwise d _).imp_of_mem
    intro a b ha _ hab
    exact Or.inl ⟨hab, (mem_zin.1 ha).2⟩
  · apply (ztail_pairwise d).imp_of_mem
    intro a b _ hb hab
    exact Or.inr ⟨hab, (mem_ztail.1 hb).2.1⟩
  · intro a ha b hb
    have ha := (mem_zin.1 ha).2
    have hb := (mem_ztail.1 hb).2.1
    have hne : a ≠ b := by
      intro e; rw [e, hb] at ha; cases ha
    rcases Nat.lt_or_gt_of_ne hne with h | h
    · exact Or.inr ⟨h, hb⟩
    · exact Or.inl ⟨h, ha⟩

theorem Before.ne {d i j : Nat} (h : Before d i j) : i ≠ j := by
  rcases h with ⟨h, _⟩ | ⟨h, _⟩ <;> omega

theorem closedOrder_nodup (d : Nat) : (closedOrder d).Nodup :=
  (closedOrder_pairwise d).imp Before.ne

theorem mem_closedOrder {d i : Nat} (h : d < 2 ^ 256) : i ∈ closedOrder d ↔ i < 256 := by
  unfold closedOrder
  rw [List.mem_cons, List.mem_append, mem_zin, mem_ztail]
  unfold startIdx
  by_cases hd : d = 0
  · rw [if_pos hd]
    subst hd
    simp only [Nat.zero_testBit, true_and]
    constructor
    · rintro (h | h | h)
      · omega
      · cases h.2
      · exact h.1
    · intro hi
      rcases Nat.eq_zero_or_pos i with h0 | h0
      · exact Or.inl h0
      · exact Or.inr (Or.inr ⟨hi, by omega⟩)
  · rw [if_neg hd]
    constructor
    · rintro (h1 | h1 | h1)
      · rw [h1]; exact (Nat.log2_lt hd).2 h
      · exact testBit_lt_256 h h1.2
      · exact h1.1
    · intro hi
      cases hb : d.testBit i with
      | true =>
        have := testBit_le_log2 hb
        rcases Nat.lt_or_eq_of_le this with h1 | h1
        · exact Or.inr (Or.inl ⟨h1, rfl⟩)
        · exact Or.inl h1
      | false =>
        exact Or.inr (Or.inr ⟨hi, rfl, fun h => hd h.1⟩)

theorem closedOrder_perm (d : Nat) (h : d < 2 ^ 256) : (closedOrder d).Perm (List.range 256) := by
  rw [List.perm_ext_iff_of_nodup (closedOrder_nodup d) List.nodup_range]
  intro i
  rw [mem_closedOrder h, List.mem_range]

theorem bucketOrder_eq_closed (d : Nat) (h : d < 2 ^ 256) : bucketOrder d = closedOrder d :=
  bucketOrder_closed d (Nat.le_of_eq ((closedOrder_perm d h).length_eq.trans List.length_range))


/-! ### XOR metric -/

def Msb (x i : Nat) : Prop := x.testBit i = true ∧ x < 2 ^ (i + 1)

theorem Msb.above {x i j : Nat} (h : Msb x i) (hj : i < j) : x.testBit j = false :=
  Nat.testBit_lt_two_pow (Nat.lt_of_lt_of_le h.2 (Nat.pow_le_pow_right (by omega) (by omega)))

theorem xor_lt_of_before {d i j x y : Nat} (hb : Before d i j) (hx : Msb x i) (hy : Msb y j) :
    x ^^^ d < y ^^^ d := by
  rcases hb with ⟨hji, hd⟩ | ⟨hij, hd⟩
  · apply Nat.lt_of_testBit i
    · simp [Nat.testBit_xor, hx.1, hd]
    · simp [Nat.testBit_xor, hy.above hji, hd]
    · intro k hk
      simp [Nat.testBit_xor, hx.above hk, hy.above (Nat.lt_trans hji hk)]
  · apply Nat.lt_of_testBit j
    · simp [Nat.testBit_xor, hx.above hij, hd]
    · simp [Nat.testBit_xor, hy.1, hd]
    · intro k hk
      simp [Nat.testBit_xor, hy.above hk, hx.above (Nat.lt_trans hij hk)]

theorem msb_of_bucketIndex {l k i : Nat} (h : bucketIndex l k = some i) : Msb (l ^^^ k) i := by
  unfold bucketIndex at h
  simp only [] at h
  by_cases hz : l ^^^ k = 0
  · rw [if_pos hz] at h; cases h
  · rw [if_neg hz] at h
    injection h with h
    subst h
    exact ⟨Nat.testBit_log2 hz, Nat.lt_log2_self⟩

theorem xor_xor_cancel (l a t : Nat) : (l ^^^ a) ^^^ (l ^^^ t) = a ^^^ t := by
  apply Nat.eq_of_testBit_eq
  intro i
  simp only [Nat.testBit_xor]
  cases l.testBit i <;> cases a.testBit i <;> cases t.testBit i <;> rfl

theorem xor_cancel_right {a b t : Nat} (h : a ^^^ t = b ^^^ t) : a = b := by
  have := congrArg (· ^^^ t) h
  simpa [Nat.xor_assoc] using this

variable {V : Type}

/-! ### sorting one bucket -/

theorem sortByDist_perm (target : Nat) (ns : List (Node V)) : (sortByDist target ns).Perm ns :=
  List.mergeSort_perm _ _

theorem mem_sortByDist {target : Nat} {ns : List (Node V)} {n : Node V} :
    n ∈ sortByDist target ns ↔ n ∈ ns := (sortByDist_perm target ns).mem_iff

theorem sortByDist_le (target : Nat) (ns : List (Node V)) :
    (sortByDist target ns).Pairwise (fun a b => (a.key ^^^ target) ≤ (b.key ^^^ target)) := by
  have := List.pairwise_mergeSort
    (le := fun (a b : Node V) => decide ((a.key ^^^ target) ≤ (b.key ^^^ target)))
    (by intro a b c; simp only [decide_eq_true_eq]; exact Nat.le_trans)
    (by intro a b; simp only [Bool.or_eq_true, decide_eq_true_eq]; exact Nat.le_total _ _) ns
  exact this.imp (by intro a b; simp only [decide_eq_true_eq]; exact id)

theorem sortByDist_lt (target : Nat) (ns : List (Node V)) (hn : (ns.map (·.key)).Nodup) :
    (sortByDist target ns).Pairwise (fun a b => (a.key ^^^ target) < (b.key ^^^ target)) := by
  have h1 := sortByDist_le target ns
  have h2 : ((sortByDist target ns).map (·.key)).Nodup :=
    ((sortByDist_perm target ns).map _).nodup_iff.2 hn
  rw [List.nodup_iff_pairwise_ne, List.pairwise_map] at h2
  refine (h1.and h2).imp ?_
  rintro a b ⟨hle, hne⟩
  apply Nat.lt_of_le_of_ne hle
  intro e
  exact hne (xor_cancel_right e)

/-! ### basic facts about `applyAt` / `bump` -/

theorem bucket_setBucket_ne (t : Table V) (i j : Nat) (b : Bucket V) (h : j ≠ i) :
    (t.setBucket i b).bucket j = t.bucket j := by
  simp only [Table.bucket, Table.setBucket, List.getD_eq_getElem?_getD]
  rw [List.getElem?_set_ne (Ne.symm h)]

theorem applyAt_bucket_ne (c : Cfg V) (now : Nat) (t : Table V) (i j : Nat) (h : j ≠ i) :
    (Table.applyAt c now t i).bucket j = t.bucket j := by
  unfold Table.applyAt
  simp only []
  split <;> exact bucket_setBucket_ne t i j _ h

theorem applyAt_localKey (c : Cfg V) (now : Nat) (t : Table V) (i : Nat) :
    (Table.applyAt c now t i).localKey = t.localKey := by
  unfold Table.applyAt
  simp only []
  split <;> rfl

theorem allNodes_eq (t : Table V) (h : t.buckets.length = 256) :
    t.allNodes = (List.range 256).flatMap (fun i => (t.bucket i).nodes) := by
  have : t.buckets = (List.range 256).map (fun i => t.bucket i) := by
    apply List.ext_getElem
    · simp [h]
    · intro i h1 h2
      simp [Table.bucket, List.getD_eq_getElem?_getD, h1]
  unfold Table.allNodes
  conv => lhs; rw [this]
  rw [List.flatMap_map]

theorem perm_flatMap_left {α β : Type} (l : List α) (f g : α → List β) (h : ∀ a ∈ l, (f a).Perm (g a)) :
    (l.flatMap f).Perm (l.flatMap g) := by
  induction l with
  | nil => exact List.Perm.refl _
  | cons a l ih =>
    rw [List.flatMap_cons, List.flatMap_cons]
    exact (h a List.mem_cons_self).append (ih fun b hb => h b (List.mem_cons_of_mem _ hb))

/-! ### the fold of `Table.closest` -/

def cStep (c : Cfg V) (now target : Nat) (acc : Table V × List (Node V)) (i : Nat) :
    Table V × List (Node V) :=
  let t1 := Table.applyAt c now acc.1 i
  (t1, acc.2 ++ sortByDist target (t1.bucket i).nodes)

theorem closest_eq_fold (c : Cfg V) (now : Nat) (t : Table V) (target : Nat) :
    t.closest c now target =
      (bucketOrder (t.localKey ^^^ target)).foldl (cStep c now target) (t.bump, []) := rfl

theorem fold_spec (c : Cfg V) (now target : Nat)
    (hA : ∀ t i, TInv c t → TInv c (Table.applyAt c now t i)) :
    ∀ (l : List Nat) (t : Table V) (acc : List (Node V)), l.Nodup → TInv c t →
      TInv c (l.foldl (cStep c now target) (t, acc)).1 ∧
      (l.foldl (cStep c now target) (t, acc)).1.localKey = t.localKey ∧
      (∀ j, j ∉ l → (l.foldl (cStep c now target) (t, acc)).1.bucket j = t.bucket j) ∧
      (l.foldl (cStep c now target) (t, acc)).2 =
        acc ++ l.flatMap (fun i =>
          sortByDist target ((l.foldl (cStep c now target) (t, acc)).1.bucket i).nodes) := by
  intro l
  induction l with
  | nil =>
    intro t acc _ ht
    exact ⟨ht, rfl, fun _ _ => rfl, by simp⟩
  | cons i l ih =>
    intro t acc hnd ht
    rw [List.nodup_cons] at hnd
    rw [List.foldl_cons]
    have e : cStep c now target (t, acc) i =
        (Table.applyAt c now t i,
          acc ++ sortByDist target ((Table.applyAt c now t i).bucket i).nodes) := rfl
    rw [e]
    obtain ⟨h1, h2, h3, h4⟩ := ih (Table.applyAt c now t i)
      (acc ++ sortByDist target ((Table.applyAt c now t i).bucket i).nodes) hnd.2 (hA t i ht)
    refine ⟨h1, h2.trans (applyAt_localKey c now t i), ?_, ?_⟩
    · intro j hj
      rw [List.mem_cons, not_or] at hj
      rw [h3 j hj.2, applyAt_bucket_ne c now t i j hj.1]
    · rw [h4, List.flatMap_cons, h3 i hnd.1, List.append_assoc]


theorem binv_mono (c : Cfg V) {tick tick' : Nat} {b : Bucket V} (h : BInv c tick b)
    (hle : tick ≤ tick') : BInv c tick' b :=
  { h with stampsLe := fun n hn => Nat.le_trans (h.stampsLe n hn) hle }

theorem bump_tinv (c : Cfg V) (t : Table V) (h : TInv c t) : TInv c t.bump :=
  { nBuckets := h.nBuckets
    buckets := fun i hi => binv_mono c (h.buckets i hi) (Nat.le_succ _)
    placed := h.placed
    placedPending := h.placedPending }

/-- Everything the property theorems need about the fold, for an order that is duplicate-free. -/
theorem closest_core (c : Cfg V) (now : Nat) (t : Table V) (target : Nat)
    (hA : ∀ t i, TInv c t → TInv c (Table.applyAt c now t i))
    (h : TInv c t) (hnd : (bucketOrder (t.localKey ^^^ target)).Nodup) :
    TInv c (t.closest c now target).1 ∧ (t.closest c now target).1.localKey = t.localKey ∧
    (t.closest c now target).2 = (bucketOrder (t.localKey ^^^ target)).flatMap (fun i =>
      sortByDist target ((t.closest c now target).1.bucket i).nodes) := by
  rw [closest_eq_fold]
  obtain ⟨h1, h2, _, h4⟩ := fold_spec c now target hA _ t.bump [] hnd (bump_tinv c t h)
  exact ⟨h1, h2, by rw [h4]; rfl⟩

theorem xor_lt_256 {a b : Nat} (ha : a < 2 ^ 256) (hb : b < 2 ^ 256) : a ^^^ b < 2 ^ 256 :=
  Nat.xor_lt_two_pow ha hb

theorem closest_complete_aux (c : Cfg V) (now : Nat) (t : Table V) (target : Nat)
    (hA : ∀ t i, TInv c t → TInv c (Table.applyAt c now t i))
    (h : TInv c t) (hl : t.localKey < 2 ^ 256) (ht : target < 2 ^ 256) :
    (t.closest c now target).2.Perm (t.closest c now target).1.allNodes := by
  have hD := xor_lt_256 hl ht
  have hperm := closedOrder_perm _ hD
  rw [← bucketOrder_eq_closed _ hD] at hperm
  obtain ⟨h1, _, h3⟩ := closest_core c now t target hA h
    (hperm.nodup_iff.2 List.nodup_range)
  rw [allNodes_eq _ h1.nBuckets, h3]
  exact (perm_flatMap_left _ _ _ (fun i _ => sortByDist_perm target _)).trans
    (hperm.flatMap_right _)

theorem closest_sorted_aux (c : Cfg V) (now : Nat) (t : Table V) (target : Nat)
    (hA : ∀ t i, TInv c t → TInv c (Table.applyAt c now t i))
    (h : TInv c t) (hl : t.localKey < 2 ^ 256) (ht : target < 2 ^ 256) :
    (t.closest c now target).2.Pairwise
      (fun a b => (a.key ^^^ target) < (b.key ^^^ target)) := by
  have hD := xor_lt_256 hl ht
  have hord := closedOrder_pairwise (t.localKey ^^^ target)
  have hmem := fun i => @mem_closedOrder (t.localKey ^^^ target) i hD
  rw [← bucketOrder_eq_closed _ hD] at hord hmem
  obtain ⟨h1, h2, h3⟩ := closest_core c now t target hA h (hord.imp Before.ne)
  rw [h3, List.pairwise_flatMap]
  constructor
  · intro i hi
    exact sortByDist_lt target _ (h1.buckets i ((hmem i).1 hi)).keysNodup
  · refine hord.imp_of_mem ?_
    intro i j hi hj hb x hx y hy
    rw [mem_sortByDist] at hx hy
    have px := h1.placed i ((hmem i).1 hi) x hx
    have py := h1.placed j ((hmem j).1 hj) y hy
    rw [h2] at px py
    have := xor_lt_of_before hb (msb_of_bucketIndex px) (msb_of_bucketIndex py)
    rwa [xor_xor_cancel, xor_xor_cancel] at this

theorem closest_eq_sorted_scan_aux (c : Cfg V) (now : Nat) (t : Table V) (target : Nat)
    (hA : ∀ t i, TInv c t → TInv c (Table.applyAt c now t i))
    (h : TInv c t) (hl : t.localKey < 2 ^ 256) (ht : target < 2 ^ 256) :
    (t.closest c now target).2.map (·.key) =
      ((t.closest c now target).1.allNodes.map (·.key)).mergeSort
        (fun a b => decide ((a ^^^ target) ≤ (b ^^^ target))) := by
  have hs := closest_sorted_aux c now t target hA h hl ht
  have hp := closest_complete_aux c now t target hA h hl ht
  apply List.Perm.eq_of_pairwise (le := fun a b => (a ^^^ target) ≤ (b ^^^ target))
  · intro a b _ _ h1 h2
    exact xor_cancel_right (Nat.le_antisymm h1 h2)
  · rw [List.pairwise_map]
    exact hs.imp Nat.le_of_lt
  · have := List.pairwise_mergeSort
      (le := fun (a b : Nat) => decide ((a ^^^ target) ≤ (b ^^^ target)))
      (by intro a b c; simp only [decide_eq_true_eq]; exact Nat.le_trans)
      (by intro a b; simp only [Bool.or_eq_true, decide_eq_true_eq]; exact Nat.le_total _ _)
      ((t.closest c now target).1.allNodes.map (·.key))
    exact this.imp (by intro a b; simp only [decide_eq_true_eq]; exact id)
  · exact (hp.map _).trans (List.mergeSort_perm _ _).symm

theorem closestPred_snd (c : Cfg V) (now : Nat) (t : Table V) (target : Nat) (pred : V → Bool) :
    (t.closestPred c now target pred).2 =
      (t.closest c now target).2.map (fun n => (n, pred n.value)) := rfl


/-! ### `nodes_by_distances` -/

theorem collectUpTo_eq (m : Nat) : ∀ (l acc : List (Node V)), acc.length < m →
    collectUpTo m l acc = acc ++ l.take (m - acc.length) := by
  intro l
  induction l with
  | nil => intro acc _; simp [collectUpTo]
  | cons n ns ih =>
    intro acc h
    unfold collectUpTo
    simp only []
    by_cases hge : (acc ++ [n]).length ≥ m
    · rw [if_pos hge]
      simp only [List.length_append, List.length_cons, List.length_nil] at hge
      have : m - acc.length = 1 := by omega
      rw [this]
      simp
    · rw [if_neg hge, ih _ (by omega)]
      simp only [List.length_append, List.length_cons, List.length_nil] at hge ⊢
      have : m - acc.length = (m - (acc.length + 0 + 1)) + 1 := by omega
      rw [this, List.take_succ_cons]
      simp

theorem applyForDistances_spec (c : Cfg V) (now m : Nat)
    (hA : ∀ t i, TInv c t → TInv c (Table.applyAt c now t i)) :
    ∀ (ds : List Nat) (t : Table V) (count : Nat), TInv c t →
      TInv c (applyForDistances c now m ds t count) ∧
      (applyForDistances c now m ds t count).localKey = t.localKey := by
  intro ds
  induction ds with
  | nil => intro t count h; exact ⟨h, rfl⟩
  | cons d ds ih =>
    intro t count h
    have hinv := hA t (d - 1) h
    have hkey := applyAt_localKey c now t (d - 1)
    unfold Table.applyAt at hinv hkey
    unfold applyForDistances
    simp only [] at hinv hkey ⊢
    cases hp : ((t.bucket (d - 1)).applyPending c now t.tick) with
    | mk b a =>
      rw [hp] at hinv hkey
      cases a with
      | none =>
        simp only [] at hinv hkey ⊢
        obtain ⟨h1, h2⟩ := ih _ count hinv
        exact ⟨h1, h2.trans hkey⟩
      | some a =>
        simp only [] at hinv hkey ⊢
        split
        · exact ⟨hinv, hkey⟩
        · obtain ⟨h1, h2⟩ := ih _ (count + b.nodes.length) hinv
          exact ⟨h1, h2.trans hkey⟩

theorem validDistances_eq (ds : List Nat) :
    validDistances ds = ds.filter (fun d => decide (1 ≤ d ∧ d ≤ 256)) := by
  unfold validDistances
  apply List.filter_congr
  intro d _
  simp only [numBuckets, Consts.NUM_BUCKETS, gt_iff_lt, Bool.decide_and]
  rfl
  
theorem nodesByDistances_aux (c : Cfg V) (now : Nat) (t : Table V) (ds : List Nat) (maxNodes : Nat)
    (hA : ∀ t i, TInv c t → TInv c (Table.applyAt c now t i))
    (h : TInv c t) (hd : ds.Nodup) (hm : 1 ≤ maxNodes) :
    (∀ n ∈ (t.nodesByDistances c now ds maxNodes).2, ∃ d ∈ ds, 1 ≤ d ∧ d ≤ 256 ∧
        bucketIndex t.localKey n.key = some (d - 1)) ∧
    (t.nodesByDistances c now ds maxNodes).2 =
      ((ds.filter (fun d => 1 ≤ d ∧ d ≤ 256)).flatMap
        (fun d => ((t.nodesByDistances c now ds maxNodes).1.bucket (d - 1)).nodes)).take maxNodes ∧
    ((t.nodesByDistances c now ds maxNodes).2.map (·.key)).Nodup := by
  obtain ⟨hT, hK⟩ := applyForDistances_spec c now maxNodes hA (validDistances ds) t.bump 0
    (bump_tinv c t h)
  have e1 : (t.nodesByDistances c now ds maxNodes).1 =
      applyForDistances c now maxNodes (validDistances ds) t.bump 0 := rfl
  have e2 : (t.nodesByDistances c now ds maxNodes).2 =
      ((ds.filter (fun d => 1 ≤ d ∧ d ≤ 256)).flatMap
        (fun d => ((t.nodesByDistances c now ds maxNodes).1.bucket (d - 1)).nodes)).take
          maxNodes := by
    rw [e1, ← validDistances_eq]
    unfold Table.nodesByDistances
    simp only []
    rw [collectUpTo_eq _ _ _ (by simp only [List.length_nil]; omega)]
    simp
  rw [← e1] at hT hK
  have hK' : (t.nodesByDistances c now ds maxNodes).1.localKey = t.localKey := hK
  refine ⟨?_, e2, ?_⟩
  · intro n hn
    rw [e2] at hn
    have hn := List.mem_of_mem_take hn
    rw [List.mem_flatMap] at hn
    obtain ⟨d, hd1, hd2⟩ := hn
    rw [List.mem_filter, decide_eq_true_eq] at hd1
    refine ⟨d, hd1.1, hd1.2.1, hd1.2.2, ?_⟩
    rw [← hK']
    exact hT.placed (d - 1) (by omega) n hd2
  · rw [e2]
    refine List.Nodup.sublist ((List.take_sublist _ _).map _) ?_
    rw [List.map_flatMap, List.nodup_iff_pairwise_ne, List.pairwise_flatMap]
    constructor
    · intro d hd1
      rw [List.mem_filter, decide_eq_true_eq] at hd1
      exact (hT.buckets (d - 1) (by omega)).keysNodup
    · have hd' : (ds.filter (fun d => decide (1 ≤ d ∧ d ≤ 256))).Pairwise (· ≠ ·) :=
        List.Pairwise.filter _ hd
      refine hd'.imp_of_mem ?_
      intro d d' hd1 hd2 hne x hx y hy e
      rw [List.mem_filter, decide_eq_true_eq] at hd1 hd2
      rw [List.mem_map] at hx hy
      obtain ⟨nx, hnx, rfl⟩ := hx
      obtain ⟨ny, hny, rfl⟩ := hy
      have px := hT.placed (d - 1) (by omega) nx hnx
      have py := hT.placed (d' - 1) (by omega) ny hny
      rw [e, py] at px
      injection px with px
      omega

end Discv5.KB

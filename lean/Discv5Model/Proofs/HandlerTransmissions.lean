/-
Transmission bound (C04 extension): "a request is put on the wire at most 1+retries times per
session key".

In the model a `Call` carries its current packet `pkt` and a counter `retries` (1 when the call is
made, +1 on every retransmission in `handleRequestTimeout`, never above `request_retries` —
`retries_bounded`).  A call gets a *new* packet only from `handleChallenge` (the handshake packet
under new keys) and from `replayActiveRequests` (re-encryption under new keys); every new packet
carries a fresh nonce name.

This file proves the invariant `TI` that links the complete output log to the active list:
* every request (message / handshake) packet on the wire carries a nonce name drawn so far;
* for every active call: the number of `send` outputs of its current packet is ≤ its `retries`;
* different active calls carry packets with different nonces;
* no request packet whatsoever was sent more than `max 1 request_retries` times
along a walk through all handler functions (`Ho` / `ho_walk` of `Proofs/HandlerRequests.lean`).
-/
import Discv5Model.Proofs.HandlerRequests
import Discv5Model.Proofs.HandlerCrypto

namespace Discv5.H.TX
open Discv5.H.RQ

/-- The output `o` puts exactly the packet `p` on the wire (to whatever address). -/
def isSend (p : Pkt) : Out → Bool
  | .send _ q => q == p
  | _ => false

/-- How often the packet `p` was put on the wire in the output log `os`. -/
def sendCount (p : Pkt) (os : List Out) : Nat := (os.filter (isSend p)).length

/-- `p` is a message or handshake packet (the packets a `RequestCall` can carry). -/
def NotWru (p : Pkt) : Prop := ∀ n cd e, p ≠ .whoareyou n cd e

/-- `p` is a request packet whose nonce is one of the first `N` fresh nonce names of this node. -/
def Named (c : Cfg) (N : Nat) (p : Pkt) : Prop := NotWru p ∧ ∃ j, j ≤ N ∧ p.nonce = mkName c j

theorem sendCount_append (p : Pkt) (a b : List Out) :
    sendCount p (a ++ b) = sendCount p a + sendCount p b := by
  simp [sendCount, List.filter_append]

theorem sendCount_send_self (p : Pkt) (na : NA) : sendCount p [.send na p] = 1 := by
  simp [sendCount, isSend]

theorem sendCount_send_ne {p q : Pkt} (na : NA) (h : q ≠ p) : sendCount p [.send na q] = 0 := by
  simp [sendCount, isSend, h]

theorem sendCount_other {p : Pkt} {o : Out} (h : ∀ na q, o ≠ .send na q) : sendCount p [o] = 0 := by
  cases o with
  | send na q => exact absurd rfl (h na q)
  | _ => rfl

theorem mem_of_sendCount_pos {p : Pkt} {os : List Out} (h : 0 < sendCount p os) :
    ∃ na, Out.send na p ∈ os := by
  unfold sendCount at h
  obtain ⟨o, ho⟩ := List.exists_mem_of_length_pos h
  obtain ⟨hm, hp⟩ := List.mem_filter.1 ho
  cases o with
  | send na q =>
    have : q = p := by simpa [isSend] using hp
    exact ⟨na, this ▸ hm⟩
  | _ => simp [isSend] at hp

theorem Named.mono {c : Cfg} {N N' : Nat} {p : Pkt} (h : Named c N p) (hn : N ≤ N') : Named c N' p :=
  ⟨h.1, let ⟨j, hj, hp⟩ := h.2; ⟨j, Nat.le_trans hj hn, hp⟩⟩

theorem pairwise_symm_of_mem {α} {R : α → α → Prop} (hs : ∀ a b, R a b → R b a) {l : List α}
    (h : l.Pairwise R) {a b : α} (ha : a ∈ l) (hb : b ∈ l) (hne : a ≠ b) : R a b := by
  induction h with
  | nil => cases ha
  | @cons x l hx _ ih =>
    rcases List.mem_cons.1 ha with ha1 | ha1
    · rcases List.mem_cons.1 hb with hb1 | hb1
      · exact absurd (ha1.trans hb1.symm) hne
      · rw [ha1]; exact hx b hb1
    · rcases List.mem_cons.1 hb with hb1 | hb1
      · rw [hb1]; exact hs _ _ (hx a ha1)
      · exact ih ha1 hb1

/-! ## The invariant -/

/-- The invariant linking the output log (`pre` = outputs of the earlier steps, `st.2` = outputs
of the running step) to the list of active requests. -/
structure TI (c : Cfg) (pre : List Out) (st : St) : Prop where
  /-- every request packet on the wire carries a fresh-nonce name drawn so far -/
  log : ∀ na p, Out.send na p ∈ pre ++ st.2 → NotWru p →
    ∃ j, j ≤ st.1.fresh.nonce ∧ p.nonce = mkName c j
  /-- the packet of an active call is such a packet and was sent at most `retries` times -/
  calls : ∀ call ∈ st.1.active, Named c st.1.fresh.nonce call.pkt ∧ 1 ≤ call.retries ∧
    sendCount call.pkt (pre ++ st.2) ≤ call.retries
  /-- different active calls carry packets with different nonces -/
  nodup : st.1.active.Pairwise (fun a b => a.pkt.nonce ≠ b.pkt.nonce)
  /-- no request packet at all was sent more than `request_retries` times -/
  total : ∀ p, NotWru p → sendCount p (pre ++ st.2) ≤ max 1 c.requestRetries

/-- `p` was never sent, nor any other request packet with its nonce. -/
def Unsent (c : Cfg) (pre : List Out) (p : Pkt) (st : St) : Prop :=
  Named c st.1.fresh.nonce p ∧ ∀ na q, Out.send na q ∈ pre ++ st.2 → NotWru q → q.nonce ≠ p.nonce

/-- No active call carries a packet with the nonce of `p`. -/
def Inactive (p : Pkt) (st : St) : Prop := ∀ call ∈ st.1.active, call.pkt.nonce ≠ p.nonce

/-- A call taken out of the active list (packet `p`, retry counter `r`) that may be put back. -/
structure Hand (c : Cfg) (pre : List Out) (p : Pkt) (r : Nat) (st : St) : Prop where
  named : Named c st.1.fresh.nonce p
  pos : 1 ≤ r
  cnt : sendCount p (pre ++ st.2) ≤ r
  inact : Inactive p st

variable {c : Cfg} {pre : List Out}

theorem Unsent.count {p : Pkt} {st : St} (h : Unsent c pre p st) : sendCount p (pre ++ st.2) = 0 := by
  apply Nat.eq_zero_of_not_pos
  intro hpos
  obtain ⟨na, hm⟩ := mem_of_sendCount_pos hpos
  exact h.2 na p hm h.1.1 rfl

theorem ne_of_nonce_ne {p q : Pkt} (h : p.nonce ≠ q.nonce) : p ≠ q := fun hh => h (by rw [hh])

theorem TI.frame {st st' : St} (h : TI c pre st) (ha : st'.1.active = st.1.active)
    (hn : st.1.fresh.nonce ≤ st'.1.fresh.nonce) (ho : st'.2 = st.2) : TI c pre st' := by
  refine ⟨?_, ?_, ?_, ?_⟩
  · intro na p hm hw
    rw [ho] at hm
    obtain ⟨j, hj, hp⟩ := h.log na p hm hw
    exact ⟨j, Nat.le_trans hj hn, hp⟩
  · intro call hc
    rw [ha] at hc
    rw [ho]
    obtain ⟨h1, h2, h3⟩ := h.calls call hc
    exact ⟨h1.mono hn, h2, h3⟩
  · rw [ha]; exact h.nodup
  · rw [ho]; exact h.total

theorem Unsent.frame {p : Pkt} {st st' : St} (h : Unsent c pre p st)
    (hn : st.1.fresh.nonce ≤ st'.1.fresh.nonce) (ho : st'.2 = st.2) : Unsent c pre p st' :=
  ⟨h.1.mono hn, by rw [ho]; exact h.2⟩

theorem Inactive.frame {p : Pkt} {st st' : St} (h : Inactive p st) (ha : st'.1.active = st.1.active) :
    Inactive p st' := by unfold Inactive; rw [ha]; exact h

theorem Hand.frame {p : Pkt} {r : Nat} {st st' : St} (h : Hand c pre p r st) (ha : st'.1.active = st.1.active)
    (hn : st.1.fresh.nonce ≤ st'.1.fresh.nonce) (ho : st'.2 = st.2) : Hand c pre p r st' :=
  ⟨h.named.mono hn, h.pos, by rw [ho]; exact h.cnt, h.inact.frame ha⟩

/-- The active list shrinks. -/
theorem TI.sub {st : St} (h : TI c pre st) (l : List Call) (hl : l.Sublist st.1.active) :
    TI c pre ({ st.1 with active := l }, st.2) :=
  ⟨h.log, fun call hc => h.calls call (hl.subset hc), h.nodup.sublist hl, h.total⟩

theorem Hand.sub {p : Pkt} {r : Nat} {st : St} (h : Hand c pre p r st) (l : List Call)
    (hl : l.Sublist st.1.active) : Hand c pre p r ({ st.1 with active := l }, st.2) :=
  ⟨h.named, h.pos, h.cnt, fun call hc => h.inact call (hl.subset hc)⟩

/-- An output that is not a `send`. -/
theorem TI.emit_other {st : St} (h : TI c pre st) (o : Out) (ho : ∀ na q, o ≠ .send na q) :
    TI c pre (st.1, st.2 ++ [o]) := by
  have hc : ∀ p, sendCount p (pre ++ (st.2 ++ [o])) = sendCount p (pre ++ st.2) := by
    intro p; rw [← List.append_assoc, sendCount_append, sendCount_other ho]; rfl
  refine ⟨?_, ?_, h.nodup, ?_⟩
  · intro na p hm hw
    rw [← List.append_assoc] at hm
    rcases List.mem_append.1 hm with hm | hm
    · exact h.log na p hm hw
    · exact absurd (List.mem_singleton.1 hm).symm (ho na p)
  · intro call hcm
    show _ ∧ _ ∧ sendCount call.pkt (pre ++ (st.2 ++ [o])) ≤ _
    rw [hc]; exact h.calls call hcm
  · intro p hw
    show sendCount p (pre ++ (st.2 ++ [o])) ≤ _
    rw [hc]; exact h.total p hw

theorem Hand.emit_other {p : Pkt} {r : Nat} {st : St} (h : Hand c pre p r st) (o : Out)
    (ho : ∀ na q, o ≠ .send na q) : Hand c pre p r (st.1, st.2 ++ [o]) :=
  ⟨h.named, h.pos, by
    show sendCount p (pre ++ (st.2 ++ [o])) ≤ r
    rw [← List.append_assoc, sendCount_append, sendCount_other ho]; exact h.cnt, h.inact⟩

/-- A WHOAREYOU packet goes out: no request packet is concerned. -/
theorem TI.send_wru {st : St} (h : TI c pre st) (na : NA) (n cd e : Nat) :
    TI c pre (st.1, st.2 ++ [.send na (.whoareyou n cd e)]) := by
  have hc : ∀ p, NotWru p → sendCount p (pre ++ (st.2 ++ [.send na (.whoareyou n cd e)])) =
      sendCount p (pre ++ st.2) := by
    intro p hw
    rw [← List.append_assoc, sendCount_append, sendCount_send_ne na (fun hh => hw n cd e hh.symm)]; rfl
  refine ⟨?_, ?_, h.nodup, ?_⟩
  · intro na' p hm hw
    rw [← List.append_assoc] at hm
    rcases List.mem_append.1 hm with hm | hm
    · exact h.log na' p hm hw
    · have := List.mem_singleton.1 hm
      injection this with _ hp
      exact absurd hp (hw n cd e)
  · intro call hcm
    show _ ∧ _ ∧ sendCount call.pkt (pre ++ (st.2 ++ [_])) ≤ _
    rw [hc _ (h.calls call hcm).1.1]; exact h.calls call hcm
  · intro p hw
    show sendCount p (pre ++ (st.2 ++ [_])) ≤ _
    rw [hc p hw]; exact h.total p hw

/-- A request packet that was never sent goes out for the first time. -/
theorem TI.send_fresh {st : St} (h : TI c pre st) (na : NA) {p : Pkt} (hu : Unsent c pre p st) :
    TI c pre (st.1, st.2 ++ [.send na p]) := by
  have hc : ∀ q, q ≠ p → sendCount q (pre ++ (st.2 ++ [.send na p])) = sendCount q (pre ++ st.2) := by
    intro q hq
    rw [← List.append_assoc, sendCount_append, sendCount_send_ne na (fun hh => hq hh.symm)]; rfl
  have hp : sendCount p (pre ++ (st.2 ++ [.send na p])) = 1 := by
    rw [← List.append_assoc, sendCount_append, sendCount_send_self, hu.count]
  refine ⟨?_, ?_, h.nodup, ?_⟩
  · intro na' q hm hw
    rw [← List.append_assoc] at hm
    rcases List.mem_append.1 hm with hm | hm
    · exact h.log na' q hm hw
    · have := List.mem_singleton.1 hm
      injection this with _ hq
      rw [hq]; exact hu.1.2
  · intro call hcm
    obtain ⟨h1, h2, h3⟩ := h.calls call hcm
    refine ⟨h1, h2, ?_⟩
    show sendCount call.pkt (pre ++ (st.2 ++ [_])) ≤ _
    by_cases he : call.pkt = p
    · rw [he, hp]; exact h2
    · rw [hc _ he]; exact h3
  · intro q hw
    show sendCount q (pre ++ (st.2 ++ [_])) ≤ _
    by_cases he : q = p
    · rw [he, hp]; exact Nat.le_max_left _ _
    · rw [hc _ he]; exact h.total q hw

/-- After its first transmission a packet not carried by any active call is a call in hand with
retry counter 1. -/
theorem Hand.of_sent {st : St} (na : NA) {p : Pkt} (hu : Unsent c pre p st) (hi : Inactive p st) :
    Hand c pre p 1 (st.1, st.2 ++ [.send na p]) :=
  ⟨hu.1, Nat.le_refl _, by
    show sendCount p (pre ++ (st.2 ++ [_])) ≤ 1
    rw [← List.append_assoc, sendCount_append, sendCount_send_self, hu.count]; omega, hi⟩

/-- A retransmission of the packet of the call in hand (its retry counter is below the limit). -/
theorem TI.resend {st : St} (h : TI c pre st) (na : NA) {p : Pkt} {r : Nat} (hh : Hand c pre p r st)
    (hr : r < c.requestRetries) :
    TI c pre (st.1, st.2 ++ [.send na p]) ∧ Hand c pre p (r + 1) (st.1, st.2 ++ [.send na p]) := by
  have hc : ∀ q, q ≠ p → sendCount q (pre ++ (st.2 ++ [.send na p])) = sendCount q (pre ++ st.2) := by
    intro q hq
    rw [← List.append_assoc, sendCount_append, sendCount_send_ne na (fun hh => hq hh.symm)]; rfl
  have hp : sendCount p (pre ++ (st.2 ++ [.send na p])) = sendCount p (pre ++ st.2) + 1 := by
    rw [← List.append_assoc, sendCount_append, sendCount_send_self]
  refine ⟨⟨?_, ?_, h.nodup, ?_⟩, ⟨hh.named, Nat.le_add_left _ _, ?_, hh.inact⟩⟩
  · intro na' q hm hw
    rw [← List.append_assoc] at hm
    rcases List.mem_append.1 hm with hm | hm
    · exact h.log na' q hm hw
    · have := List.mem_singleton.1 hm
      injection this with _ hq
      rw [hq]; exact hh.named.2
  · intro call hcm
    obtain ⟨h1, h2, h3⟩ := h.calls call hcm
    refine ⟨h1, h2, ?_⟩
    show sendCount call.pkt (pre ++ (st.2 ++ [_])) ≤ _
    rw [hc _ (ne_of_nonce_ne (hh.inact call hcm))]; exact h3
  · intro q hw
    show sendCount q (pre ++ (st.2 ++ [_])) ≤ _
    by_cases he : q = p
    · rw [he, hp]
      have := hh.cnt
      have : r + 1 ≤ c.requestRetries := hr
      exact Nat.le_trans (by omega) (Nat.le_max_right _ _)
    · rw [hc _ he]; exact h.total q hw
  · show sendCount p (pre ++ (st.2 ++ [_])) ≤ r + 1
    rw [hp]; have := hh.cnt; omega

/-- The call in hand goes (back) into the active list. -/
theorem TI.insert {st : St} (h : TI c pre st) (call : Call) (hh : Hand c pre call.pkt call.retries st)
    (d q : Nat) (t : Nat) :
    TI c pre ({ st.1 with active := st.1.active ++ [{ call with deadline := d, tseq := q }], tctr := t }, st.2) := by
  refine ⟨h.log, ?_, ?_, h.total⟩
  · intro x hx
    rcases List.mem_append.1 hx with hx | hx
    · exact h.calls x hx
    · rw [List.mem_singleton.1 hx]; exact ⟨hh.named, hh.pos, hh.cnt⟩
  · show (st.1.active ++ [_]).Pairwise _
    rw [List.pairwise_append]
    refine ⟨h.nodup, List.pairwise_singleton _ _, ?_⟩
    intro a ha b hb
    rw [List.mem_singleton.1 hb]
    exact hh.inact a ha

/-- Taking a call out of the active list. -/
theorem TI.erase {st : St} (h : TI c pre st) {call : Call} (hm : call ∈ st.1.active) (f : HState → HState)
    (hf : (f st.1).active = st.1.active.erase call) (hn : (f st.1).fresh = st.1.fresh) :
    TI c pre (f st.1, st.2) ∧ Hand c pre call.pkt call.retries (f st.1, st.2) := by
  have hnd : st.1.active.Nodup := h.nodup.imp (fun hab he => hab (by rw [he]))
  have h1 : TI c pre ({ st.1 with active := st.1.active.erase call }, st.2) :=
    h.sub _ List.erase_sublist
  obtain ⟨hc1, hc2, hc3⟩ := h.calls call hm
  refine ⟨h1.frame hf (by rw [hn]; exact Nat.le_refl _) rfl, ?_⟩
  refine ⟨by rw [hn]; exact hc1, hc2, hc3, ?_⟩
  intro x hx
  rw [hf] at hx
  have hx' := (hnd.mem_erase_iff).1 hx
  exact pairwise_symm_of_mem (fun _ _ hab => Ne.symm hab) h.nodup hx'.2 hm hx'.1


/-! ## Walk X: the handler functions keep the invariant -/

abbrev X (c : Cfg) (pre : List Out) : St → Prop := TI c pre
/-- invariant + a call in hand -/
def XH (c : Cfg) (pre : List Out) (p : Pkt) (r : Nat) (st : St) : Prop := TI c pre st ∧ Hand c pre p r st
/-- invariant + a new packet that is neither sent nor active -/
def XU (c : Cfg) (pre : List Out) (p : Pkt) (st : St) : Prop :=
  TI c pre st ∧ Unsent c pre p st ∧ Inactive p st

theorem X_frame {α} {m : M α}
    (h : ∀ st, (m.run st).2.1.active = st.1.active ∧ st.1.fresh.nonce ≤ (m.run st).2.1.fresh.nonce ∧
      (m.run st).2.2 = st.2) : Ho (TI c pre) m (fun _ => TI c pre) :=
  ⟨fun st hp => hp.frame (h st).1 (h st).2.1 (h st).2.2⟩

theorem XU_frame {α} {p : Pkt} {m : M α}
    (h : ∀ st, (m.run st).2.1.active = st.1.active ∧ st.1.fresh.nonce ≤ (m.run st).2.1.fresh.nonce ∧
      (m.run st).2.2 = st.2) : Ho (XU c pre p) m (fun _ => XU c pre p) :=
  ⟨fun st hp => ⟨hp.1.frame (h st).1 (h st).2.1 (h st).2.2, hp.2.1.frame (h st).2.1 (h st).2.2,
    hp.2.2.frame (h st).1⟩⟩

theorem X_modS (f : HState → HState) (h : ∀ s, (f s).active = s.active ∧ (f s).fresh = s.fresh) :
    Ho (TI c pre) (modS f) (fun _ => TI c pre) :=
  X_frame (fun st => ⟨(h st.1).1, by show st.1.fresh.nonce ≤ (f st.1).fresh.nonce; rw [(h st.1).2]; exact Nat.le_refl _, rfl⟩)
theorem X_setS_pinned {s0 : HState} (s' : HState) (h1 : s'.active = s0.active) (h2 : s'.fresh = s0.fresh) :
    Ho (Pin s0 (TI c pre)) (setS s') (fun _ => TI c pre) :=
  Ho.setS _ (fun st hp => hp.2.frame (by show s'.active = _; rw [h1, ← hp.1])
    (by show _ ≤ s'.fresh.nonce; rw [h2, ← hp.1]; exact Nat.le_refl _) rfl)
theorem X_emit (o : Out) (ho : ∀ na q, o ≠ .send na q) : Ho (TI c pre) (emit o) (fun _ => TI c pre) :=
  ⟨fun _ hp => hp.emit_other o ho⟩
theorem X_send_wru (na : NA) (n cd e : Nat) :
    Ho (TI c pre) (send na (.whoareyou n cd e)) (fun _ => TI c pre) := ⟨fun _ hp => hp.send_wru na n cd e⟩
theorem X_freshCd : Ho (TI c pre) (freshCd c) (fun _ => TI c pre) := X_frame (fun _ => ⟨rfl, Nat.le_refl _, rfl⟩)
theorem X_freshEph : Ho (TI c pre) (freshEph c) (fun _ => TI c pre) := X_frame (fun _ => ⟨rfl, Nat.le_refl _, rfl⟩)
theorem X_freshRid : Ho (TI c pre) (freshRid c) (fun _ => TI c pre) := X_frame (fun _ => ⟨rfl, Nat.le_refl _, rfl⟩)
theorem X_addExpected (a) : Ho (TI c pre) (addExpected a) (fun _ => TI c pre) :=
  X_modS _ (fun s => by by_cases h : s.exempt.any (·.1 == a) <;> simp [h])
theorem X_removeExpected (a) : Ho (TI c pre) (removeExpected a) (fun _ => TI c pre) :=
  X_modS _ (fun _ => ⟨rfl, rfl⟩)
theorem X_sessPut (na s) : Ho (TI c pre) (sessPut na s) (fun _ => TI c pre) := X_modS _ (fun _ => ⟨rfl, rfl⟩)
theorem X_sessInsert (na s) : Ho (TI c pre) (sessInsert c na s) (fun _ => TI c pre) := X_modS _ (fun _ => ⟨rfl, rfl⟩)
theorem X_sessRemove (na) : Ho (TI c pre) (sessRemove na) (fun _ => TI c pre) := X_modS _ (fun _ => ⟨rfl, rfl⟩)
theorem X_sessGetMut (na) : Ho (TI c pre) (sessGetMut c na) (fun _ => TI c pre) :=
  sessGetMut_elim (fun _ hp => ⟨fun _ => hp, fun _ _ _ _ =>
    ⟨fun _ => hp.frame rfl (Nat.le_refl _) rfl, fun _ => hp.frame rfl (Nat.le_refl _) rfl⟩⟩)
theorem X_removeExpiredSessions : Ho (TI c pre) (removeExpiredSessions c) (fun _ => TI c pre) :=
  removeExpiredSessions_elim (fun st hp e r _ => by
    have hs : TI c pre ({ st.1 with sessions := r }, st.2) := hp.frame rfl (Nat.le_refl _) rfl
    by_cases he : e.isEmpty
    · simp only [he, if_true]; exact hs
    · simp only [he]; exact hs.emit_other _ (fun _ _ h => nomatch h))
theorem X_activeRemoveRequests (na) : Ho (TI c pre) (activeRemoveRequests na) (fun _ => TI c pre) :=
  ⟨fun _ hp => hp.sub _ List.filter_sublist⟩

/-- A fresh nonce: no request packet on the wire and no active call carries it. -/
def FreshN (c : Cfg) (pre : List Out) (n : Nat) (st : St) : Prop :=
  n = mkName c st.1.fresh.nonce ∧
  (∀ na q, Out.send na q ∈ pre ++ st.2 → NotWru q → q.nonce ≠ n) ∧
  ∀ call ∈ st.1.active, call.pkt.nonce ≠ n

theorem X_freshNonce : Ho (TI c pre) (freshNonce c) (fun n st => TI c pre st ∧ FreshN c pre n st) := by
  refine ⟨fun st hp => ?_⟩
  rw [freshNonce_run]
  refine ⟨hp.frame rfl (Nat.le_succ _) rfl, rfl, ?_, ?_⟩
  · intro na q hm hw hq
    obtain ⟨j, hj, hj'⟩ := hp.log na q hm hw
    rw [hj'] at hq
    have := Cr.mkName_inj hq
    omega
  · intro call hm hq
    obtain ⟨j, hj, hj'⟩ := (hp.calls call hm).1.2
    rw [hj'] at hq
    have := Cr.mkName_inj hq
    omega

theorem FreshN.unsent {n : Nat} {st : St} (h : FreshN c pre n st) {p : Pkt} (hw : NotWru p)
    (hp : p.nonce = n) : Unsent c pre p st ∧ Inactive p st :=
  ⟨⟨⟨hw, _, Nat.le_refl _, hp.trans h.1⟩, fun na q hm hq => by rw [hp]; exact h.2.1 na q hm hq⟩,
    fun call hm => by rw [hp]; exact h.2.2 call hm⟩

theorem X_freshNonceI : Ho (TI c pre) (freshNonce c) (fun _ => TI c pre) :=
  X_freshNonce.post (fun _ _ h => h.1)

theorem X_encryptMessage (sess : Session) (pt : Msg) :
    Ho (TI c pre) (encryptMessage c sess pt) (fun r st => XU c pre r.2 st) := by
  unfold encryptMessage
  refine Ho.bind X_freshNonce (fun n => Ho.pure _ (fun st hp => ?_))
  have := hp.2.unsent (p := Pkt.message c.localId n (.enc sess.keys.enc n (sess.counter + 1) pt true))
    (fun _ _ _ h => nomatch h) rfl
  exact ⟨hp.1, this.1, this.2⟩

theorem X_encryptMessageI (sess : Session) (pt : Msg) :
    Ho (TI c pre) (encryptMessage c sess pt) (fun _ => TI c pre) :=
  (X_encryptMessage sess pt).post (fun _ _ h => h.1)

/-- `ActiveRequests::insert` of the call in hand. -/
theorem X_activeInsert (call : Call) {p : Pkt} {r : Nat} (hp : call.pkt = p) (hr : call.retries = r) :
    Ho (XH c pre p r) (activeInsert c call) (fun _ => TI c pre) :=
  Ho.modS _ (fun st h => by subst hp; subst hr; exact h.1.insert call h.2 _ _ _)

theorem X_activeRemoveByNonce (n : Nat) : Ho (TI c pre) (activeRemoveByNonce n)
    (fun r st => TI c pre st ∧ ∀ call, r = some call → Hand c pre call.pkt call.retries st) :=
  activeRemoveByNonce_elim (fun st hp => ⟨fun _ => ⟨hp, fun _ h => nomatch h⟩, fun call hf => by
    have := hp.erase (List.mem_of_find?_eq_some hf) (fun s => { s with active := s.active.erase call }) rfl rfl
    exact ⟨this.1, fun x hx => by cases hx; exact this.2⟩⟩)

theorem X_activeRemoveRequest (na : NA) (rid : Nat) : Ho (TI c pre) (activeRemoveRequest na rid)
    (fun r st => TI c pre st ∧ ∀ call, r = some call → Hand c pre call.pkt call.retries st) :=
  activeRemoveRequest_elim (fun st hp => ⟨fun _ => ⟨hp, fun _ h => nomatch h⟩, fun call hf => by
    have := hp.erase (List.mem_of_find?_eq_some hf) (fun s => { s with active := s.active.erase call }) rfl rfl
    exact ⟨this.1, fun x hx => by cases hx; exact this.2⟩⟩)

theorem X_activeRemoveRequestI (na : NA) (rid : Nat) :
    Ho (TI c pre) (activeRemoveRequest na rid) (fun _ => TI c pre) :=
  (X_activeRemoveRequest na rid).post (fun _ _ h => h.1)

/-- With a call in hand that is not going to be put back, any invariant-keeping code may run. -/
theorem XH_drop {α} {p : Pkt} {r : Nat} {m : M α} {Q : α → St → Prop} (h : Ho (TI c pre) m Q) :
    Ho (XH c pre p r) m Q := h.pre (fun _ hp => hp.1)

syntax "x_leaf" : tactic
macro_rules | `(tactic| x_leaf) => `(tactic| first
  | with_reducible exact X_send_wru _ _ _ _ | with_reducible exact X_freshNonceI
  | with_reducible exact X_freshCd | with_reducible exact X_freshEph
  | with_reducible exact X_freshRid | with_reducible exact X_addExpected _
  | with_reducible exact X_removeExpected _ | with_reducible exact X_sessPut _ _
  | with_reducible exact X_sessInsert _ _ | with_reducible exact X_sessRemove _
  | with_reducible exact X_sessGetMut _ | with_reducible exact X_removeExpiredSessions
  | with_reducible exact X_encryptMessageI _ _ | with_reducible exact X_activeRemoveRequests _
  | with_reducible exact X_activeRemoveRequestI _ _
  | with_reducible exact X_setS_pinned _ rfl rfl
  | ((with_reducible apply X_emit); intro _ _ h; exact nomatch h)
  | (apply X_activeInsert <;> rfl)
  | exact X_modS _ (fun s => by first | exact ⟨rfl, rfl⟩ | (dsimp only; split <;> exact ⟨rfl, rfl⟩)))
macro_rules | `(tactic| ho_leaf) => `(tactic| first | x_leaf | (with_reducible apply XH_drop; x_leaf))

theorem X_isAwaitingSession (na) : Ho (TI c pre) (isAwaitingSession c na) (fun _ => TI c pre) := by
  unfold isAwaitingSession; ho_walk
macro_rules | `(tactic| x_leaf) => `(tactic| with_reducible exact X_isAwaitingSession _)

/-- The tail of `send_request`: first transmission of the new packet, then the call is filed. -/
theorem X_srFinish (ct : Contact) (rid : Nat) (i : Bool) (b : Nat) (p : Pkt) (ini : Bool) :
    Ho (XU c pre p) (Cr.srFinish c ct rid i b p ini) (fun _ => TI c pre) := by
  unfold Cr.srFinish
  refine Ho.bind (XU_frame (m := addExpected ct.na.addr) (fun st => ?_)) (fun _ => ?_)
  · show ((addExpected ct.na.addr).run st).2.1.active = _ ∧ _
    simp only [addExpected, run_modS]
    by_cases h : st.1.exempt.any (·.1 == ct.na.addr) <;> simp [h]
  refine Ho.bind (Q := fun _ => XH c pre p 1) ⟨fun st hp => ?_⟩ (fun _ => ?_)
  · exact ⟨hp.1.send_fresh ct.na hp.2.1, Hand.of_sent ct.na hp.2.1 hp.2.2⟩
  · exact Ho.bind (X_activeInsert _ rfl rfl) (fun _ => Ho.pureI _)

theorem X_srSend (ct : Contact) (rid : Nat) (i : Bool) (b : Nat) :
    Ho (TI c pre) (Cr.srSend c ct rid i b) (fun _ => TI c pre) := by
  unfold Cr.srSend
  refine Ho.bind (X_sessGetMut ct.na) (fun r => ?_)
  cases r with
  | some sess =>
    refine Ho.bind (X_encryptMessage sess _) (fun r => ?_)
    obtain ⟨sess', p⟩ := r
    exact Ho.bind (XU_frame (m := sessPut ct.na sess') (fun _ => ⟨rfl, Nat.le_refl _, rfl⟩))
      (fun _ => X_srFinish ..)
  | none =>
    refine Ho.bind X_freshNonce (fun n => Ho.pre (X_srFinish ..) (fun st hp => ?_))
    have := hp.2.unsent (p := Pkt.message c.localId n .garbage) (fun _ _ _ h => nomatch h) rfl
    exact ⟨hp.1, this.1, this.2⟩

theorem X_sendRequest (ct rid i b) : Ho (TI c pre) (sendRequest c ct rid i b) (fun _ => TI c pre) := by
  rw [Cr.sendRequest_eq]
  have hq : Ho (TI c pre) (Cr.srQueue ct rid i b) (fun _ => TI c pre) := by
    unfold Cr.srQueue; ho_walk
  refine Ho.ite (fun _ => Ho.pureI _) (fun _ => Ho.bindP Ho.getI (fun s0 => ?_))
  refine Ho.ite (fun _ => hq) (fun _ => Ho.bindP (X_isAwaitingSession ct.na) (fun aw => ?_))
  exact Ho.ite (fun _ => hq) (fun _ => X_srSend ..)

macro_rules | `(tactic| x_leaf) => `(tactic| with_reducible exact X_sendRequest _ _ _ _)

theorem X_sendPendingRequests (na) : Ho (TI c pre) (sendPendingRequests c na) (fun _ => TI c pre) := by
  unfold sendPendingRequests; ho_walk
theorem X_failSession (na e b) : Ho (TI c pre) (failSession c na e b) (fun _ => TI c pre) := by
  unfold failSession; ho_walk
macro_rules | `(tactic| x_leaf) => `(tactic| with_reducible first
  | exact X_sendPendingRequests _ | exact X_failSession _ _ _)
theorem X_failRequest (call e b) : Ho (TI c pre) (failRequest c call e b) (fun _ => TI c pre) := by
  unfold failRequest; ho_walk
macro_rules | `(tactic| x_leaf) => `(tactic| with_reducible exact X_failRequest _ _ _)

/-- `handle_request_timeout` for the call whose timer fired (it is in hand): either the call is
failed, or its packet is retransmitted — the retry counter is below `request_retries` — and the
call goes back with the counter incremented. -/
theorem X_handleRequestTimeout (call : Call) :
    Ho (XH c pre call.pkt call.retries) (handleRequestTimeout c call) (fun _ => TI c pre) := by
  unfold handleRequestTimeout
  refine Ho.ite (fun _ => ?_) (fun hlt => ?_)
  · ho_walk
  · refine Ho.bind (Q := fun _ => XH c pre call.pkt (call.retries + 1)) ⟨fun st hp => ?_⟩ (fun _ => ?_)
    · exact hp.1.resend _ hp.2 (by omega)
    · exact X_activeInsert _ rfl rfl

/-! ### `replay_active_requests` -/

/-- The re-encrypted packets not yet installed: all unsent, inactive, with pairwise different nonces. -/
def Acc (c : Cfg) (pre : List Out) (l : List (Nat × Pkt)) (st : St) : Prop :=
  (∀ x ∈ l, Unsent c pre x.2 st ∧ Inactive x.2 st) ∧ l.Pairwise (fun a b => a.2.nonce ≠ b.2.nonce)

theorem X_reencryptAll (calls : List Call) (sess : Session) (acc : List (Nat × Pkt)) :
    Ho (fun st => TI c pre st ∧ Acc c pre acc st) (reencryptAll c calls sess acc)
      (fun r st => TI c pre st ∧ Acc c pre r.2 st) := by
  induction calls generalizing sess acc with
  | nil => unfold reencryptAll; exact Ho.pure _ (fun _ hp => hp)
  | cons call rest ih =>
    unfold reencryptAll
    refine Ho.bind (Q := fun r st => TI c pre st ∧ Acc c pre (acc ++ [(call.pkt.nonce, r.2)]) st) ?_
      (fun r => ih _ _)
    unfold encryptMessage
    refine Ho.bind (Q := fun n st => (TI c pre st ∧ FreshN c pre n st) ∧ Acc c pre acc st ∧
        ∀ x ∈ acc, x.2.nonce ≠ n) ⟨fun st hp => ?_⟩
      (fun n => Ho.pure _ (fun st hp => ?_))
    · refine ⟨X_freshNonce.out st hp.1, ⟨?_, hp.2.2⟩, ?_⟩
      · rw [freshNonce_run]
        intro x hx
        exact ⟨(hp.2.1 x hx).1.frame (Nat.le_succ _) rfl, (hp.2.1 x hx).2⟩
      · rw [freshNonce_run]
        intro x hx hq
        obtain ⟨j, hj, hj'⟩ := (hp.2.1 x hx).1.1.2
        rw [hj'] at hq
        have := Cr.mkName_inj hq
        omega
    · obtain ⟨⟨h1, h2⟩, h3, h4⟩ := hp
      have hnew := h2.unsent (p := Pkt.message c.localId n (.enc sess.keys.enc n (sess.counter + 1)
        (.request call.rid call.body) true)) (fun _ _ _ h => nomatch h) rfl
      refine ⟨h1, ?_, ?_⟩
      · intro x hx
        rcases List.mem_append.1 hx with hx | hx
        · exact h3.1 x hx
        · rw [List.mem_singleton.1 hx]; exact hnew
      · rw [List.pairwise_append]
        refine ⟨h3.2, List.pairwise_singleton _ _, ?_⟩
        intro a ha b hb
        rw [List.mem_singleton.1 hb]
        exact h4 a ha

/-- `update_packet`: the call that carried the nonce `old` now carries the re-encrypted packet `p`
(never sent so far); its retry counter stays. -/
theorem X_replayUpd (old : Nat) (p : Pkt) (xs : List (Nat × Pkt)) :
    Ho (fun st => TI c pre st ∧ Acc c pre ((old, p) :: xs) st) (modS fun s =>
        let upd : Call → Call := fun call =>
          if call.pkt.nonce == old then
            { call with pkt := p, deadline := s.now + c.requestTimeout, tseq := s.tctr }
          else call
        { s with active := s.active.map upd, tctr := s.tctr + 1 })
      (fun _ st => TI c pre st ∧ Unsent c pre p st ∧ (∀ x ∈ xs, p.nonce ≠ x.2.nonce) ∧ Acc c pre xs st) := by
  refine Ho.modS _ (fun st hp => ?_)
  obtain ⟨hti, hacc, hpw⟩ := hp
  have hp0 := hacc (old, p) (List.mem_cons_self ..)
  have hpx : ∀ x ∈ xs, p.nonce ≠ x.2.nonce := (List.pairwise_cons.1 hpw).1
  refine ⟨⟨hti.log, ?_, ?_, hti.total⟩, hp0.1, hpx, ⟨?_, (List.pairwise_cons.1 hpw).2⟩⟩
  · intro x hx
    simp only [List.mem_map] at hx
    obtain ⟨y, hy, rfl⟩ := hx
    obtain ⟨h1, h2, h3⟩ := hti.calls y hy
    split
    · exact ⟨hp0.1.1, h2, by rw [hp0.1.count]; exact Nat.zero_le _⟩
    · exact ⟨h1, h2, h3⟩
  · show (List.map _ st.1.active).Pairwise _
    rw [List.pairwise_map]
    refine hti.nodup.imp_of_mem ?_
    intro a b ha hb hab
    by_cases h1 : (a.pkt.nonce == old) = true <;> by_cases h2 : (b.pkt.nonce == old) = true
    · exact absurd ((beq_iff_eq.1 h1).trans (beq_iff_eq.1 h2).symm) hab
    · simp only [h1, h2, if_true]
      exact fun hh => hp0.2 b hb hh.symm
    · simp only [h1, h2, if_true]
      exact hp0.2 a ha
    · simp only [h1, h2]
      exact hab
  · intro x hx
    have hx0 := hacc x (List.mem_cons_of_mem _ hx)
    refine ⟨hx0.1, ?_⟩
    intro call hc
    have hc' : call ∈ List.map _ st.1.active := hc
    simp only [List.mem_map] at hc'
    obtain ⟨y, hy, rfl⟩ := hc'
    split
    · exact hpx x hx
    · exact hx0.2 y hy

theorem X_replaySend (na : NA) (p : Pkt) (xs : List (Nat × Pkt)) :
    Ho (fun st => TI c pre st ∧ Unsent c pre p st ∧ (∀ x ∈ xs, p.nonce ≠ x.2.nonce) ∧ Acc c pre xs st)
      (send na p) (fun _ st => TI c pre st ∧ Acc c pre xs st) := by
  refine ⟨fun st hp => ?_⟩
  obtain ⟨hti, hu, hpx, hacc, hpw⟩ := hp
  refine ⟨hti.send_fresh na hu, ?_, hpw⟩
  intro x hx
  obtain ⟨⟨h1, h2⟩, h3⟩ := hacc x hx
  refine ⟨⟨h1, ?_⟩, h3⟩
  intro na' q hm hw
  have hm' : Out.send na' q ∈ pre ++ (st.2 ++ [.send na p]) := hm
  rw [← List.append_assoc] at hm'
  rcases List.mem_append.1 hm' with hm' | hm'
  · exact h2 na' q hm' hw
  · have := List.mem_singleton.1 hm'
    injection this with _ hq
    rw [hq]; exact hpx x hx

theorem X_replayActiveRequests (na sk) :
    Ho (TI c pre) (replayActiveRequests c na sk) (fun _ => TI c pre) := by
  unfold replayActiveRequests
  refine Ho.bind (X_sessGetMut na) (fun r => ?_)
  cases r with
  | none => exact Ho.pureI _
  | some sess0 =>
    refine Ho.bindP Ho.getI (fun s => ?_)
    refine Ho.bind (Ho.pre (X_reencryptAll _ sess0 [])
      (fun st hp => ⟨hp, (by intro x h; cases h), List.Pairwise.nil⟩)) (fun r => ?_)
    obtain ⟨sess, packets⟩ := r
    refine Ho.bind (Q := fun _ st => TI c pre st ∧ Acc c pre packets st) ⟨fun st hp => ?_⟩ (fun _ => ?_)
    · exact ⟨hp.1.frame rfl (Nat.le_refl _) rfl,
        fun x hx => ⟨(hp.2.1 x hx).1.frame (Nat.le_refl _) rfl, (hp.2.1 x hx).2⟩, hp.2.2⟩
    · refine Ho.post (Ho.forEach (fun rem st => TI c pre st ∧ Acc c pre rem st) packets _ (fun x xs => ?_))
        (fun _ _ h => h.1)
      obtain ⟨old, p⟩ := x
      exact Ho.bind (X_replayUpd old p xs) (fun _ => X_replaySend na p xs)

macro_rules | `(tactic| x_leaf) => `(tactic| with_reducible exact X_replayActiveRequests _ _)
theorem X_newSession (na s sk) : Ho (TI c pre) (newSession c na s sk) (fun _ => TI c pre) := by
  unfold newSession; ho_walk
theorem X_sendChallenge (na n k) : Ho (TI c pre) (sendChallenge c na n k) (fun _ => TI c pre) := by
  unfold sendChallenge; ho_walk
macro_rules | `(tactic| x_leaf) => `(tactic| with_reducible first
  | exact X_newSession _ _ _ | exact X_sendChallenge _ _ _)

/-- The handshake packet (fresh nonce `n`) replaces the packet of the call in hand, the call goes
back into the active list and the new packet is transmitted for the first time. -/
theorem X_insert_send_bind {β} (call : Call) (na : NA) (n : Nat) {k : Unit → M β} {Q : β → St → Prop}
    (hr : 1 ≤ call.retries) (hw : NotWru call.pkt) (hn : call.pkt.nonce = n)
    (hk : ∀ u, Ho (TI c pre) (k u) Q) :
    Ho (fun st => TI c pre st ∧ FreshN c pre n st)
      (activeInsert c call >>= fun _ => send na call.pkt >>= k) Q := by
  refine Ho.bind (Q := fun _ st => TI c pre st ∧ Unsent c pre call.pkt st) (Ho.modS _ (fun st hp => ?_))
    (fun _ => Ho.bind (Q := fun _ => TI c pre) ⟨fun st hp => hp.1.send_fresh na hp.2⟩ hk)
  have hu := hp.2.unsent hw hn
  exact ⟨hp.1.insert call ⟨hu.1.1, hr, by rw [hu.1.count]; exact Nat.zero_le _, hu.2⟩ _ _ _,
    hu.1.frame (Nat.le_refl _) rfl⟩

theorem X_handleChallenge (src n cd es) :
    Ho (TI c pre) (handleChallenge c src n cd es) (fun _ => TI c pre) := by
  unfold handleChallenge
  refine Ho.bind (X_activeRemoveByNonce n) (fun r => ?_)
  cases r with
  | none => exact Ho.pure _ (fun _ hp => hp.1)
  | some call0 =>
    refine Ho.pre (P' := XH c pre call0.pkt call0.retries) ?_ (fun st hp => ⟨hp.1, hp.2 _ rfl⟩)
    refine Ho.ite (fun _ => ?_) (fun _ => Ho.ite (fun _ => ?_) (fun _ => Ho.ite (fun _ => ?_) (fun _ => ?_)))
    · exact Ho.bind (X_activeInsert call0 rfl rfl) (fun _ => Ho.pureI _)
    · ho_walk
    · ho_walk
    · refine Ho.pre (P' := fun st => TI c pre st ∧ 1 ≤ call0.retries) ?_ (fun st hp => ⟨hp.1, hp.2.pos⟩)
      refine Ho.pre_pure' (fun hr => ?_)
      refine Ho.bindP X_freshEph (fun eph => ?_)
      refine Ho.bind X_freshNonce (fun hsNonce => ?_)
      dsimp only
      split
      · refine X_insert_send_bind _ _ hsNonce hr (fun _ _ _ h => nomatch h) rfl (fun _ => ?_)
        ho_walk
      · refine X_insert_send_bind _ _ hsNonce hr (fun _ _ _ h => nomatch h) rfl (fun _ => ?_)
        ho_walk

theorem X_handleResponse (na rid rb) :
    Ho (TI c pre) (handleResponse c na rid rb) (fun _ => TI c pre) := by
  unfold handleResponse
  refine Ho.bind (X_activeRemoveRequest na rid) (fun r => ?_)
  cases r with
  | none => exact Ho.pure _ (fun _ hp => hp.1)
  | some call =>
    refine Ho.pre (P' := XH c pre call.pkt call.retries) ?_ (fun st hp => ⟨hp.1, hp.2 _ rfl⟩)
    dsimp only
    ho_walk

macro_rules | `(tactic| x_leaf) => `(tactic| with_reducible first
  | exact X_handleChallenge _ _ _ _ | exact X_handleResponse _ _ _)
theorem X_handleMessage (na n ct) : Ho (TI c pre) (handleMessage c na n ct) (fun _ => TI c pre) := by
  unfold handleMessage; ho_walk
macro_rules | `(tactic| x_leaf) => `(tactic| with_reducible exact X_handleMessage _ _ _)
theorem X_handleAuthMessage (na n sig eph r ct) :
    Ho (TI c pre) (handleAuthMessage c na n sig eph r ct) (fun _ => TI c pre) := by
  unfold handleAuthMessage; ho_walk

theorem X_fireTimers (target fuel : Nat) : Ho (TI c pre) (fireTimers c target fuel) (fun _ => TI c pre) := by
  induction fuel with
  | zero => unfold fireTimers; exact Ho.pureI _
  | succ n ih =>
    unfold fireTimers
    refine Ho.getS_pin (fun s0 => ?_)
    split
    · ho_walk
    · rename_i d call hnd
      have hm := nextDue_inl_mem _ _ _ _ hnd
      refine Ho.bind (Q := fun _ => XH c pre call.pkt call.retries) (Ho.setS _ (fun st hp => ?_)) (fun _ => ?_)
      · obtain ⟨h0, hp⟩ := hp
        subst h0
        exact hp.erase hm (fun s => { s with active := s.active.erase call, now := max s.now d }) rfl rfl
      · exact Ho.bind (X_handleRequestTimeout call) (fun _ => ih)
    · ho_walk
      exact ih

macro_rules | `(tactic| x_leaf) => `(tactic| with_reducible first
  | exact X_handleAuthMessage _ _ _ _ _ _ | exact X_fireTimers _ _)

theorem X_stepM (e : Ev) : Ho (TI c pre) (stepM c e) (fun _ => TI c pre) := by
  cases e with
  | appResponse na rid rb =>
    simp only [stepM]
    refine Ho.bind (X_sessGetMut na) (fun r => ?_)
    cases r with
    | none => exact Ho.pureI _
    | some sess =>
      refine Ho.bind (X_encryptMessage sess _) (fun r => ?_)
      obtain ⟨sess', p⟩ := r
      refine Ho.bind (XU_frame (m := sessPut na sess') (fun _ => ⟨rfl, Nat.le_refl _, rfl⟩)) (fun _ => ?_)
      exact ⟨fun st hp => hp.1.send_fresh na hp.2.1⟩
  | dgram src p => simp only [stepM]; ho_walk
  | _ => simp only [stepM]; ho_walk

/-! ## From the walk to histories -/

theorem TI.shift {s : HState} {os : List Out} (h : TI c pre (s, os)) : TI c (pre ++ os) (s, []) := by
  refine ⟨?_, ?_, h.nodup, ?_⟩
  · intro na p hm hw
    rw [List.append_nil] at hm
    exact h.log na p hm hw
  · intro call hc
    rw [List.append_nil]
    exact h.calls call hc
  · intro p hw
    rw [List.append_nil]
    exact h.total p hw

/-- The invariant holds after every history, for the complete output log. -/
theorem run_TI (c : Cfg) (evs : List Ev) : TI c (outputs c evs) (run c evs, []) := by
  induction evs using snoc_induction with
  | h0 =>
    refine ⟨?_, ?_, List.Pairwise.nil, ?_⟩
    · intro na p hm; cases hm
    · intro call hc; cases hc
    · intro p _; exact Nat.zero_le _
  | h1 evs e ih =>
    rw [outputs_snoc, run_snoc, step_eq]
    exact ((X_stepM e).out (run c evs, []) ih).shift

end Discv5.H.TX

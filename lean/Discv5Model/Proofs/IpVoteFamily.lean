/-
A PONG touches the record's socket of the family it reports only (helper lemmas for
`Props/C17Family.lean`).
-/
import Discv5Model.Proofs.IpVoteLemmas
namespace Discv5.IpVote
variable {α : Type} [DecidableEq α]

theorem updateRecord_other4 (s : Svc α) (a : α) (m4 m6 : Option α) (ok : Bool) :
    (updateRecord s (.v6 a) m4 m6 ok).1.enr.ip4 = s.enr.ip4 := by
  unfold updateRecord
  simp only
  split
  · split <;> rfl
  · rfl

theorem updateRecord_other6 (s : Svc α) (a : α) (m4 m6 : Option α) (ok : Bool) :
    (updateRecord s (.v4 a) m4 m6 ok).1.enr.ip6 = s.enr.ip6 := by
  unfold updateRecord
  simp only
  split
  · split <;> rfl
  · rfl

/-- A PONG that reports an IPv6 socket leaves the IPv4 socket of the record alone, and vice versa. -/
theorem pongStep_other_family (thr : Nat → Nat) (s : Svc α) (p : Pong α) :
    (p.sock.isV6 = true → (pongStep thr s p).1.enr.ip4 = s.enr.ip4) ∧
    (p.sock.isV6 = false → (pongStep thr s p).1.enr.ip6 = s.enr.ip6) := by
  have he := requireMore_enr s p.tClear p.sock.isV6
  unfold pongStep
  split
  · exact ⟨fun _ => rfl, fun _ => rfl⟩
  · split
    · exact ⟨fun _ => rfl, fun _ => rfl⟩
    · simp only []
      split
      · exact ⟨fun _ => by rw [he], fun _ => by rw [he]⟩
      · split
        · exact ⟨fun _ => by rw [he], fun _ => by rw [he]⟩
        · rename_i v hv
          unfold countVote
          simp only
          cases hs : p.sock with
          | v4 a =>
            rw [hs] at he
            refine ⟨fun h => ?_, fun _ => ?_⟩
            · exact absurd h (by simp [Sock.isV6])
            · rw [updateRecord_other6]
              exact congrArg (·.ip6) he
          | v6 a =>
            rw [hs] at he
            refine ⟨fun _ => ?_, fun h => ?_⟩
            · rw [updateRecord_other4]
              exact congrArg (·.ip4) he
            · exact absurd h (by simp [Sock.isV6])

end Discv5.IpVote

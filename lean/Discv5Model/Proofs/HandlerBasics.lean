/-
Generic lemmas about the state-monad plumbing of the handler model (`Model/Handler.lean`):
`StateT.run` of the primitives and a small Hoare logic on the `HState` component (outputs ignored).
-/
import Discv5Model.Model.HandlerSpec

namespace Discv5.H

@[simp] theorem run_pure {α} (x : α) (st : HState × List Out) : (pure x : M α).run st = (x, st) := rfl
@[simp] theorem run_bind {α β} (m : M α) (f : α → M β) (st : HState × List Out) :
    (m >>= f).run st = (f (m.run st).1).run (m.run st).2 := rfl
@[simp] theorem run_getS (st : HState × List Out) : getS.run st = (st.1, st) := rfl
@[simp] theorem run_setS (s : HState) (st : HState × List Out) : (setS s).run st = ((), (s, st.2)) := rfl
@[simp] theorem run_modS (f : HState → HState) (st : HState × List Out) :
    (modS f).run st = ((), (f st.1, st.2)) := rfl
@[simp] theorem run_emit (o : Out) (st : HState × List Out) :
    (emit o).run st = ((), (st.1, st.2 ++ [o])) := rfl
@[simp] theorem run_send (na : NA) (p : Pkt) (st : HState × List Out) :
    (send na p).run st = ((), (st.1, st.2 ++ [.send na p])) := rfl
theorem run_ite {α} (b : Prop) [Decidable b] (m1 m2 : M α) (st : HState × List Out) :
    (if b then m1 else m2).run st = if b then m1.run st else m2.run st := by
  by_cases h : b <;> simp [h]

@[simp] theorem forEach_nil {α} (f : α → M Unit) : forEach [] f = pure () := rfl
@[simp] theorem forEach_cons {α} (x : α) (xs : List α) (f : α → M Unit) :
    forEach (x :: xs) f = (do f x; forEach xs f) := rfl

/-- Hoare triple on the handler-state component (outputs are ignored): from a state satisfying `P`
the computation returns `x` in a state satisfying `Q x`. -/
structure Tr {α} (P : HState → Prop) (m : M α) (Q : α → HState → Prop) : Prop where
  out : ∀ s os, P s → Q (m.run (s, os)).1 (m.run (s, os)).2.1

theorem Tr.ret {α} {P : HState → Prop} {Q : α → HState → Prop} (x : α) (h : ∀ s, P s → Q x s) :
    Tr P (pure x) Q := ⟨fun s _ hp => h s hp⟩

theorem Tr.bind {α β} {P : HState → Prop} {m : M α} {Q : α → HState → Prop} {f : α → M β}
    {R : β → HState → Prop} (h1 : Tr P m Q) (h2 : ∀ x, Tr (Q x) (f x) R) : Tr P (m >>= f) R := by
  constructor
  intro s os hp
  exact (h2 _).out _ _ (h1.out s os hp)

theorem Tr.conseq {α} {P P' : HState → Prop} {m : M α} {Q Q' : α → HState → Prop}
    (h : Tr P' m Q') (hpre : ∀ s, P s → P' s) (hpost : ∀ x s, Q' x s → Q x s) : Tr P m Q :=
  ⟨fun s os hp => hpost _ _ (h.out s os (hpre s hp))⟩

theorem Tr.pre {α} {P P' : HState → Prop} {m : M α} {Q : α → HState → Prop}
    (h : Tr P' m Q) (hpre : ∀ s, P s → P' s) : Tr P m Q := h.conseq hpre (fun _ _ h => h)

theorem Tr.post {α} {P : HState → Prop} {m : M α} {Q Q' : α → HState → Prop}
    (h : Tr P m Q') (hpost : ∀ x s, Q' x s → Q x s) : Tr P m Q := h.conseq (fun _ h => h) hpost

/-- A precondition that does not hold anywhere: anything follows. -/
theorem Tr.exfalso {α} {P : HState → Prop} {m : M α} {Q : α → HState → Prop}
    (h : ∀ s, ¬ P s) : Tr P m Q := ⟨fun s _ hp => absurd hp (h s)⟩

/-- Pull a state-independent fact out of the precondition. -/
theorem Tr.pre_and {α} {p : Prop} {P : HState → Prop} {m : M α} {Q : α → HState → Prop}
    (h : p → Tr P m Q) : Tr (fun s => p ∧ P s) m Q := ⟨fun s os hp => (h hp.1).out s os hp.2⟩

theorem Tr.ite {α} {P : HState → Prop} {b : Prop} [Decidable b] {m1 m2 : M α}
    {Q : α → HState → Prop} (h1 : b → Tr P m1 Q) (h2 : ¬ b → Tr P m2 Q) :
    Tr P (if b then m1 else m2) Q := by
  by_cases h : b
  · rw [if_pos h]; exact h1 h
  · rw [if_neg h]; exact h2 h

theorem Tr.get {P : HState → Prop} : Tr P getS (fun r s => r = s ∧ P s) :=
  ⟨fun _ _ hp => ⟨rfl, hp⟩⟩

/-- `let s ← getS; …`: the continuation is verified from the state pinned to `s`. -/
theorem Tr.get_bind {β} {P : HState → Prop} {f : HState → M β} {R : β → HState → Prop}
    (h : ∀ s0, P s0 → Tr (fun s => s = s0) (f s0) R) : Tr P (getS >>= f) R := by
  constructor
  intro s os hp
  exact (h s hp).out s os rfl

theorem Tr.set {P : HState → Prop} {Q : Unit → HState → Prop} (s' : HState)
    (h : ∀ s, P s → Q () s') : Tr P (setS s') Q := ⟨fun s _ hp => h s hp⟩

theorem Tr.mod {P : HState → Prop} {Q : Unit → HState → Prop} (f : HState → HState)
    (h : ∀ s, P s → Q () (f s)) : Tr P (modS f) Q := ⟨fun s _ hp => h s hp⟩

theorem Tr.emt {P : HState → Prop} (o : Out) : Tr P (emit o) (fun _ => P) := ⟨fun _ _ hp => hp⟩

theorem Tr.snd {P : HState → Prop} (na : NA) (p : Pkt) : Tr P (send na p) (fun _ => P) :=
  ⟨fun _ _ hp => hp⟩

/-- A loop whose body keeps `P` keeps `P`. -/
theorem Tr.each {α} {P : HState → Prop} (l : List α) (f : α → M Unit)
    (h : ∀ x ∈ l, Tr P (f x) (fun _ => P)) : Tr P (forEach l f) (fun _ => P) := by
  induction l with
  | nil => exact Tr.ret () (fun _ hp => hp)
  | cons x xs ih =>
    rw [forEach_cons]
    exact Tr.bind (h x (List.mem_cons_self ..))
      (fun _ => ih (fun y hy => h y (List.mem_cons_of_mem _ hy)))

/-- Sequencing where the first computation's result is ignored by the postcondition. -/
theorem Tr.seq {α β} {P Q : HState → Prop} {m : M α} {f : α → M β} {R : β → HState → Prop}
    (h1 : Tr P m (fun _ => Q)) (h2 : ∀ x, Tr Q (f x) R) : Tr P (m >>= f) R := Tr.bind h1 h2

end Discv5.H

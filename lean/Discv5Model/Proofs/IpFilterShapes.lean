/-
Helper lemmas for C16 (IP-diversity limits): the filter specification, per-bucket-operation
"shape" lemmas (what an operation can do to the node list and the pending slot), and counting
lemmas about (key, value) multisets of buckets and of the whole table.
-/
import Discv5Model.Model.KBucketSpec
namespace Discv5.KB.Ip

/-! ## the filter -/

theorem ipCountLoop_spec (limit : Nat) (v : Val) (s : Nat) (l : List Val) (cnt : Nat)
    (hc : cnt < limit) :
    ipCountLoop limit v s l cnt = decide (cnt + subnetCount s (l.filter (· ≠ v)) < limit) := by
  induction l generalizing cnt with
  | nil => simp [ipCountLoop, subnetCount, hc]
  | cons o rest ih =>
    unfold ipCountLoop
    by_cases hov : o = v
    · rw [if_pos hov, ih cnt hc]; simp [hov]
    · rw [if_neg hov]
      have hf : (o :: rest).filter (· ≠ v) = o :: rest.filter (· ≠ v) := by simp [hov]
      rw [hf]
      by_cases hs : o.subnet = some s
      · simp only [hs, if_true]
        by_cases hge : cnt + 1 ≥ limit
        · rw [if_pos hge]; simp [subnetCount, hs]; omega
        · rw [if_neg hge, ih (cnt + 1) (by omega)]
          simp [subnetCount, hs]; omega
      · simp only [hs, if_false]
        rw [if_neg (by omega), ih cnt hc]
        simp [subnetCount, hs]


/-! ## counting -/

/-- Predicates on (key, value) pairs. -/
abbrev KV := Nat → Val → Bool

def bit (b : Bool) : Nat := if b = true then 1 else 0

def W (p : KV) (l : List (Node Val)) : Nat := l.countP (fun n => p n.key n.value)

def PW (p : KV) : Option (Pending Val) → Nat
  | some q => bit (p q.node.key q.node.value)
  | none => 0

def A (p : KV) (b : Bucket Val) : Nat := W p b.nodes + PW p b.pending

@[simp] theorem W_nil (p : KV) : W p [] = 0 := rfl
theorem W_cons (p : KV) (x : Node Val) (l) : W p (x :: l) = W p l + bit (p x.key x.value) := by
  simp only [W, List.countP_cons, bit]
theorem W_append (p : KV) (l₁ l₂) : W p (l₁ ++ l₂) = W p l₁ + W p l₂ := by
  simp only [W, List.countP_append]
theorem W_insertAt (p : KV) (l : List (Node Val)) (i : Nat) (x : Node Val) :
    W p (insertAt l i x) = W p l + bit (p x.key x.value) := by
  unfold insertAt
  rw [W_append, W_cons]
  have := congrArg (W p) (List.take_append_drop i l)
  rw [W_append] at this
  omega
theorem W_removeAt (p : KV) (l : List (Node Val)) (i : Nat) (x : Node Val) (h : l[i]? = some x) :
    W p (removeAt l i) + bit (p x.key x.value) = W p l := by
  unfold removeAt
  have hi : i < l.length := by
    rcases Nat.lt_or_ge i l.length with h' | h'
    · exact h'
    · rw [List.getElem?_eq_none h'] at h; cases h
  have hx : l[i] = x := by
    rw [List.getElem?_eq_getElem hi] at h; exact Option.some.inj h
  have h1 : l = l.take i ++ x :: l.drop (i + 1) := by
    rw [← hx, List.getElem_cons_drop, List.take_append_drop]
  have := congrArg (W p) h1
  rw [W_append, W_cons] at this
  rw [W_append]; omega
theorem W_removeAt_le (p : KV) (l : List (Node Val)) (i : Nat) : W p (removeAt l i) ≤ W p l := by
  unfold removeAt
  have := congrArg (W p) (List.take_append_drop i l)
  rw [W_append] at this
  rw [W_append]
  have h2 : W p (l.drop (i+1)) ≤ W p (l.drop i) := by
    unfold W
    apply List.Sublist.countP_le
    rw [← List.drop_drop]  -- drop (i+1) = drop 1 (drop i)
    exact List.drop_sublist _ _
  omega
theorem mem_insertAt {α} (l : List α) (i : Nat) (x y : α) : y ∈ insertAt l i x ↔ y = x ∨ y ∈ l := by
  unfold insertAt
  have := List.take_append_drop i l
  constructor
  · intro h
    rw [List.mem_append, List.mem_cons] at h
    rcases h with h | h | h
    · exact Or.inr (List.mem_of_mem_take h)
    · exact Or.inl h
    · exact Or.inr (List.mem_of_mem_drop h)
  · intro h
    rw [List.mem_append, List.mem_cons]
    rcases h with h | h
    · exact Or.inr (Or.inl h)
    · rw [← this, List.mem_append] at h
      rcases h with h | h
      · exact Or.inl h
      · exact Or.inr (Or.inr h)
theorem mem_removeAt {α} (l : List α) (i : Nat) (y : α) (h : y ∈ removeAt l i) : y ∈ l := by
  unfold removeAt at h
  rw [List.mem_append] at h
  rcases h with h | h
  · exact List.mem_of_mem_take h
  · exact List.mem_of_mem_drop h

theorem W_eq_zero (p : KV) (l : List (Node Val)) : W p l = 0 ↔ ∀ n ∈ l, p n.key n.value = false := by
  simp [W, List.countP_eq_zero]

theorem W_mono (p q : KV) (l : List (Node Val)) (h : ∀ n ∈ l, p n.key n.value = true → q n.key n.value = true) :
    W p l ≤ W q l := by
  unfold W
  exact List.countP_mono_left (by simpa using h)

theorem W_pos_of_mem (p : KV) (l : List (Node Val)) (n) (hn : n ∈ l) (hp : p n.key n.value = true) : 1 ≤ W p l := by
  unfold W
  exact List.countP_pos_iff.mpr ⟨n, hn, hp⟩

/-- splitting a count along a second predicate -/
theorem W_split (p q : KV) (l : List (Node Val)) :
    W p l = W (fun k v => p k v && q k v) l + W (fun k v => p k v && !q k v) l := by
  induction l with
  | nil => rfl
  | cons x l ih =>
    rw [W_cons, W_cons, W_cons, ih]
    cases p x.key x.value <;> cases q x.key x.value <;> simp [bit]
    omega
    omega

/-! ## shapes of the bucket operations -/

theorem append_singleton_eq_insertAt {α} (l : List α) (x : α) : l ++ [x] = insertAt l l.length x := by
  simp [insertAt]

def InsShape (c : Cfg Val) (now : Nat) (b : Bucket Val) (node : Node Val) (b' : Bucket Val) : Prop :=
  b' = b ∨
    (c.bucketFilter node.value b.values = true ∧
      ((b'.nodes = b.nodes ∧ b'.pending = some ⟨node, now + c.pendingTimeout⟩) ∨
        ((∃ k, b'.nodes = insertAt b.nodes k node) ∧ (b'.pending = b.pending ∨ b'.pending = none))))

theorem insert_shape (c : Cfg Val) (now : Nat) (b : Bucket Val) (node : Node Val) :
    InsShape c now b node (b.insert c now node).1 := by
  unfold Bucket.insert
  by_cases h1 : (b.position node.key).isSome = true
  · rw [if_pos h1]; exact Or.inl rfl
  rw [if_neg h1]
  by_cases h2 : (!c.bucketFilter node.value b.values) = true
  · rw [if_pos h2]; exact Or.inl rfl
  rw [if_neg h2]
  have hf : c.bucketFilter node.value b.values = true := by simpa using h2
  have e1 := append_singleton_eq_insertAt b.nodes node
  simp only []
  repeat' split
  all_goals (unfold InsShape; simp_all)
  all_goals first | exact Or.inr ⟨_, rfl⟩ | exact Or.inr (Or.inr ⟨_, rfl⟩)

def ApShape (c : Cfg Val) (now tick : Nat) (b b' : Bucket Val) : Prop :=
  b' = b ∨ (b'.nodes = b.nodes ∧ b'.pending = none) ∨
  (∃ p n0 rest k, b.pending = some p ∧ b.nodes = n0 :: rest ∧
      c.bucketFilter p.node.value b.values = true ∧ b'.pending = none ∧
      b'.nodes = insertAt rest k { p.node with stamp := tick }) ∨
  (∃ p, b.pending = some p ∧
      b' = (Bucket.insert c now { b with pending := none } { p.node with stamp := tick }).1)


theorem applyPending_shape (c : Cfg Val) (now tick : Nat) (b : Bucket Val) :
    ApShape c now tick b (b.applyPending c now tick).1 := by
  unfold Bucket.applyPending
  simp only []
  repeat' split
  all_goals (unfold ApShape; simp_all [Bucket.values])
  all_goals first
    | exact Or.inr (Or.inr (Or.inl ⟨_, _, ⟨rfl, rfl⟩, _, append_singleton_eq_insertAt _ _⟩))
    | exact Or.inr (Or.inr (Or.inl ⟨_, _, ⟨rfl, rfl⟩, _, rfl⟩))

def UsShape (c : Cfg Val) (now tick : Nat) (b : Bucket Val) (key : Nat) (b' : Bucket Val) : Prop :=
  b' = b ∨
  (∃ p st', b.pending = some p ∧ p.node.key = key ∧ b'.nodes = b.nodes ∧
      b'.pending = some { p with node := { p.node with st := st' } }) ∨
  (∃ pos old st' fcp' pend', b.nodes[pos]? = some old ∧ (pend' = b.pending ∨ pend' = none) ∧
      b' = (Bucket.insert c now ⟨removeAt b.nodes pos, fcp', pend'⟩
              { old with st := st', stamp := tick }).1)

theorem updateStatus_shape (c : Cfg Val) (now tick : Nat) (b : Bucket Val) (key : Nat) (conn : Bool)
    (dir : Option Bool) :
    UsShape c now tick b key (b.updateStatus c now tick key conn dir).1 := by
  unfold Bucket.updateStatus
  simp only []
  repeat' split
  all_goals unfold UsShape
  all_goals first
    | exact Or.inl rfl
    | (refine Or.inr (Or.inr ⟨_, _, _, _, _, ‹b.nodes[_]? = some _›, ?_,
        (congrArg Prod.fst ‹Bucket.insert _ _ _ _ = _›).symm⟩)
       split <;> simp)
    | exact Or.inr (Or.inl ⟨_, _, ‹b.pending = some _›, (by simpa using ‹(_ == key) = true›), rfl, rfl⟩)
    | trace_state

def UvShape (c : Cfg Val) (b : Bucket Val) (key : Nat) (value : Val) (b' : Bucket Val) : Prop :=
  b' = b ∨
  (∃ pos node, b.position key = some pos ∧ b.nodes[pos]? = some node ∧ b'.pending = b.pending ∧
     (b'.nodes = removeAt b.nodes pos ∨
      (c.bucketFilter value ((removeAt b.nodes pos).map (·.value)) = true ∧
        b'.nodes = insertAt (removeAt b.nodes pos) pos { node with value := value }))) ∨
  (∃ p, b.pending = some p ∧ p.node.key = key ∧ b'.nodes = b.nodes ∧
      b'.pending = some { p with node := { p.node with value := value } })

theorem updateValue_shape (c : Cfg Val) (b : Bucket Val) (key : Nat) (value : Val) :
    UvShape c b key value (b.updateValue c key value).1 := by
  unfold Bucket.updateValue
  simp only []
  repeat' split
  all_goals unfold UvShape
  all_goals first
    | exact Or.inl rfl
    | exact Or.inr (Or.inl ⟨_, _, ‹b.position key = some _›, ‹b.nodes[_]? = some _›, rfl, Or.inl rfl⟩)
    | exact Or.inr (Or.inl ⟨_, _, ‹b.position key = some _›, ‹b.nodes[_]? = some _›, rfl,
        Or.inr ⟨by simpa using ‹¬ (!c.bucketFilter _ _) = true›, rfl⟩⟩)
    | exact Or.inr (Or.inr ⟨_, ‹b.pending = some _›, (by simpa using ‹(_ == key) = true›), rfl, rfl⟩)
    | trace_state

def RmShape (c : Cfg Val) (now tick : Nat) (b : Bucket Val) (key : Nat) (b' : Bucket Val) : Prop :=
  b' = b ∨ ∃ pos fcp', b.position key = some pos ∧
    b' = (Bucket.applyPending c now tick ⟨removeAt b.nodes pos, fcp', b.pending⟩).1

theorem remove_shape (c : Cfg Val) (now tick : Nat) (b : Bucket Val) (key : Nat) :
    RmShape c now tick b key (b.remove c now tick key).1 := by
  unfold Bucket.remove
  split
  · exact Or.inr ⟨_, _, ‹b.position key = some _›, rfl⟩
  · exact Or.inl rfl

theorem position_some (b : Bucket Val) (key pos : Nat) (h : b.position key = some pos) :
    ∃ x, b.nodes[pos]? = some x ∧ x.key = key := by
  unfold Bucket.position at h
  rw [List.findIdx?_eq_some_iff_getElem] at h
  obtain ⟨hlt, hk, _⟩ := h
  exact ⟨b.nodes[pos], List.getElem?_eq_getElem hlt, by simpa using hk⟩

theorem position_none (b : Bucket Val) (key : Nat) (h : b.position key = none) :
    ∀ n ∈ b.nodes, n.key ≠ key := by
  unfold Bucket.position at h
  rw [List.findIdx?_eq_none_iff] at h
  intro n hn; simpa using h n hn

end Discv5.KB.Ip

/- C16 helper lemmas, part 4: case analyses of the table operations. -/
import Discv5Model.Proofs.IpFilterTable
namespace Discv5.KB.Ip

theorem bump_passes (c : Cfg Val) (t0 : Table Val) (key : Nat) (v : Val) :
    Table.passesTableFilter c t0.bump key v = Table.passesTableFilter c t0 key v := rfl


theorem applyAt_buckets (c : Cfg Val) (now : Nat) (t : Table Val) (i : Nat) :
    (Table.applyAt c now t i).buckets = t.buckets.set i ((t.bucket i).applyPending c now t.tick).1 := by
  unfold Table.applyAt
  simp only []
  split <;> rfl

theorem applyAt_localKey (c : Cfg Val) (now : Nat) (t : Table Val) (i : Nat) :
    (Table.applyAt c now t i).localKey = t.localKey := by
  unfold Table.applyAt
  simp only []
  split <;> rfl

theorem applyAt_tick (c : Cfg Val) (now : Nat) (t : Table Val) (i : Nat) :
    (Table.applyAt c now t i).tick = t.tick := by
  unfold Table.applyAt
  simp only []
  split <;> rfl



theorem insertOrUpdate_cases (c : Cfg Val) (now : Nat) (t0 : Table Val) (key : Nat) (v : Val) (st : Status)
    (i : Nat) (hi : bucketIndex t0.localKey key = some i) :
    ∃ b', (t0.insertOrUpdate c now key v st).1 = (Table.applyAt c now t0.bump i).setBucket i b' ∧
      ((Table.passesTableFilter c t0 key v = false ∧
          b' = (((Table.applyAt c now t0.bump i).bucket i).remove c now (t0.tick + 1) key).1) ∨
       (Table.passesTableFilter c t0 key v = true ∧
          ((((Table.applyAt c now t0.bump i).bucket i).position key = none ∧
              b' = (((Table.applyAt c now t0.bump i).bucket i).insert c now
                      { key := key, value := v, st := st, stamp := t0.tick + 1 }).1) ∨
            b' = (((Table.applyAt c now t0.bump i).bucket i).updateStatus c now (t0.tick + 1) key
                      st.conn (some st.incoming)).1 ∨
            b' = ((((Table.applyAt c now t0.bump i).bucket i).updateStatus c now (t0.tick + 1) key
                      st.conn (some st.incoming)).1.updateValue c key v).1))) := by
  unfold Table.insertOrUpdate
  have hi' : bucketIndex t0.bump.localKey key = some i := hi
  simp only []
  rw [hi']
  simp only []
  rw [bump_passes]
  have htick : t0.bump.tick = t0.tick + 1 := rfl
  rw [htick]
  by_cases hpass : (!Table.passesTableFilter c t0 key v) = true
  · rw [if_pos hpass]
    exact ⟨_, rfl, Or.inl ⟨by simpa using hpass, rfl⟩⟩
  · rw [if_neg hpass]
    have hpass' : Table.passesTableFilter c t0 key v = true := by simpa using hpass
    split
    · exact ⟨_, rfl, Or.inr ⟨hpass', Or.inl ⟨Option.isNone_iff_eq_none.mp ‹_›, rfl⟩⟩⟩
    · split
      · exact ⟨_, rfl, Or.inr ⟨hpass', Or.inr (Or.inl rfl)⟩⟩
      · exact ⟨_, rfl, Or.inr ⟨hpass', Or.inr (Or.inr rfl)⟩⟩
theorem updateNode_cases (c : Cfg Val) (now : Nat) (t0 : Table Val) (key : Nat) (v : Val)
    (state : Option Bool) (i : Nat) (hi : bucketIndex t0.localKey key = some i) :
    ∃ b', (t0.updateNode c now key v state).1 = (Table.applyAt c now t0.bump i).setBucket i b' ∧
      ((Table.passesTableFilter c t0 key v = false ∧
          b' = (((Table.applyAt c now t0.bump i).bucket i).remove c now (t0.tick + 1) key).1) ∨
       (Table.passesTableFilter c t0 key v = true ∧
          (b' = (((Table.applyAt c now t0.bump i).bucket i).updateValue c key v).1 ∨
           ∃ s, b' = ((((Table.applyAt c now t0.bump i).bucket i).updateValue c key v).1.updateStatus
                        c now (t0.tick + 1) key s none).1))) := by
  unfold Table.updateNode
  have hi' : bucketIndex t0.bump.localKey key = some i := hi
  simp only []
  rw [hi']
  simp only []
  rw [bump_passes]
  have htick : t0.bump.tick = t0.tick + 1 := rfl
  rw [htick]
  by_cases hpass : (!Table.passesTableFilter c t0 key v) = true
  · rw [if_pos hpass]
    exact ⟨_, rfl, Or.inl ⟨by simpa using hpass, rfl⟩⟩
  · rw [if_neg hpass]
    have hpass' : Table.passesTableFilter c t0 key v = true := by simpa using hpass
    split
    · exact ⟨_, rfl, Or.inr ⟨hpass', Or.inl rfl⟩⟩
    · cases state with
      | none => exact ⟨_, rfl, Or.inr ⟨hpass', Or.inl rfl⟩⟩
      | some s => exact ⟨_, rfl, Or.inr ⟨hpass', Or.inr ⟨s, rfl⟩⟩⟩

theorem updateNodeStatus_cases (c : Cfg Val) (now : Nat) (t0 : Table Val) (key : Nat) (conn : Bool)
    (dir : Option Bool) (i : Nat) (hi : bucketIndex t0.localKey key = some i) :
    (t0.updateNodeStatus c now key conn dir).1 = (Table.applyAt c now t0.bump i).setBucket i
      (((Table.applyAt c now t0.bump i).bucket i).updateStatus c now (t0.tick + 1) key conn dir).1 := by
  unfold Table.updateNodeStatus
  have hi' : bucketIndex t0.bump.localKey key = some i := hi
  simp only []
  rw [hi']
  rfl

theorem remove_cases (c : Cfg Val) (now : Nat) (t0 : Table Val) (key : Nat)
    (i : Nat) (hi : bucketIndex t0.localKey key = some i) :
    (t0.remove c now key).1 = (Table.applyAt c now t0.bump i).setBucket i
      (((Table.applyAt c now t0.bump i).bucket i).remove c now (t0.tick + 1) key).1 := by
  unfold Table.remove
  have hi' : bucketIndex t0.bump.localKey key = some i := hi
  simp only []
  rw [hi']
  rfl

theorem insertOrUpdate_none (c : Cfg Val) (now : Nat) (t0 : Table Val) (key : Nat) (v : Val) (st : Status)
    (hi : bucketIndex t0.localKey key = none) : (t0.insertOrUpdate c now key v st).1 = t0.bump := by
  unfold Table.insertOrUpdate
  have hi' : bucketIndex t0.bump.localKey key = none := hi
  simp only []
  rw [hi']
theorem updateNode_none (c : Cfg Val) (now : Nat) (t0 : Table Val) (key : Nat) (v : Val) (s : Option Bool)
    (hi : bucketIndex t0.localKey key = none) : (t0.updateNode c now key v s).1 = t0.bump := by
  unfold Table.updateNode
  have hi' : bucketIndex t0.bump.localKey key = none := hi
  simp only []
  rw [hi']
theorem updateNodeStatus_none (c : Cfg Val) (now : Nat) (t0 : Table Val) (key : Nat) (conn : Bool)
    (dir : Option Bool)
    (hi : bucketIndex t0.localKey key = none) : (t0.updateNodeStatus c now key conn dir).1 = t0.bump := by
  unfold Table.updateNodeStatus
  have hi' : bucketIndex t0.bump.localKey key = none := hi
  simp only []
  rw [hi']
theorem remove_none (c : Cfg Val) (now : Nat) (t0 : Table Val) (key : Nat)
    (hi : bucketIndex t0.localKey key = none) : (t0.remove c now key).1 = t0.bump := by
  unfold Table.remove
  have hi' : bucketIndex t0.bump.localKey key = none := hi
  simp only []
  rw [hi']
theorem entryTouch_cases (c : Cfg Val) (now : Nat) (t0 : Table Val) (key : Nat) :
    t0.entryTouch c now key = t0.bump ∨ ∃ i, t0.entryTouch c now key = Table.applyAt c now t0.bump i := by
  unfold Table.entryTouch
  simp only []
  split
  · exact Or.inr ⟨_, rfl⟩
  · exact Or.inl rfl
end Discv5.KB.Ip

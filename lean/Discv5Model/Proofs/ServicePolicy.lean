/-
Service-level lemmas for C12 (routing-table admission and update policy): every function of
`Model/Service.lean` is a `Step`: it keeps the configuration, the local key of the table, the
table invariant, and any value predicate `P key value` that holds of the records it files.
-/
import Discv5Model.Model.Service
import Discv5Model.Proofs.ServiceVals

namespace Discv5.Svc
open Discv5.KB
open Svc

def OSane (id : Nat) (o : Oracle) : Prop := ∀ r a, o.newLocal = some (r, a) → r.id = id

structure Step (P : Nat → Rec → Prop) (o : Oracle) (s s' : Svc) : Prop where
  cfg : s'.cfg = s.cfg
  localKey : s'.table.localKey = s.table.localKey
  tinv : TInv s.cfg.kb s.table → TInv s.cfg.kb s'.table
  vals : TVals P s.table → TVals P s'.table
  localId : OSane s.localRec.id o → s'.localRec.id = s.localRec.id

variable {P : Nat → Rec → Prop} {o : Oracle} {s s1 s2 s' : Svc}

theorem Step.refl : Step P o s s := ⟨rfl, rfl, id, id, fun _ => rfl⟩

theorem Step.trans (h1 : Step P o s s1) (h2 : Step P o s1 s2) : Step P o s s2 :=
  ⟨h2.cfg.trans h1.cfg, h2.localKey.trans h1.localKey,
   fun h => by have := h2.tinv (by rw [h1.cfg]; exact h1.tinv h); rwa [h1.cfg] at this,
   fun h => h2.vals (h1.vals h),
   fun h => by rw [h2.localId (by rw [h1.localId h]; exact h), h1.localId h]⟩

theorem Step.of_eq (hc : s'.cfg = s.cfg) (ht : s'.table = s.table) (hl : s'.localRec = s.localRec) :
    Step P o s s' :=
  ⟨hc, by rw [ht], fun h => by rw [ht]; exact h, fun h => by rw [ht]; exact h, fun _ => by rw [hl]⟩

theorem Step.table (t : Table Rec) (hk : t.localKey = s.table.localKey)
    (hi : TInv s.cfg.kb s.table → TInv s.cfg.kb t) (hv : TVals P s.table → TVals P t) :
    Step P o s { s with table := t } := ⟨rfl, hk, hi, hv, fun _ => rfl⟩

theorem entry_step (s : Svc) (key : Nat) : Step P o s (s.entry key).1 :=
  Step.table _ entryTouch_localKey entryTouch_tinv entryTouch_vals

theorem entry_lookup (s : Svc) (key : Nat) : (s.entry key).2 = lookup (s.entry key).1.table key := rfl

theorem entryRemove_step (s : Svc) (key : Nat) : Step P o s (s.entryRemove key) := by
  unfold entryRemove
  cases hbi : bucketIndex s.table.localKey key with
  | none => exact Step.refl
  | some i =>
    simp only
    exact Step.table _ rfl
      (fun h => h.setBucket (remove_inv (h.binv i)) (remove_keys (h.bkeys i)))
      (fun h => h.setBucket (remove_vals (h.bucket i)))

theorem findEnr_step (s : Svc) (id : Nat) : Step P o s (s.findEnr id).1 := by
  have h := entry_step (P := P) (o := o) s id
  unfold findEnr
  generalize s.entry id = x at h ⊢
  obtain ⟨s1, l⟩ := x
  simp only
  cases l <;> simp only <;> first | exact h | (cases s1.query <;> exact h)

theorem sendRpcRequest_step (s : Svc) (peer : Nat) (addr : Addr) (body : ReqBody) (q : Option Nat)
    (cb : Bool) : Step P o s (s.sendRpcRequest peer addr body q cb).1 :=
  Step.of_eq rfl rfl rfl

theorem sendPing_step (s : Svc) (r : Rec) (cb : Bool) : Step P o s (s.sendPing r cb).1 := by
  unfold sendPing
  cases contactableAddr s.cfg.ipMode r with
  | none => exact Step.refl
  | some a => exact sendRpcRequest_step ..

theorem connectionUpdated_step (s : Svc) (nodeId : Nat) (cs : ConnStatus)
    (hv : ∀ r inc, cs = .connected r inc → nodeId ≠ s.table.localKey → P nodeId r) :
    Step P o s (s.connectionUpdated o nodeId cs).1 := by
  cases cs with
  | connected r incoming =>
    have h1 : Step P o s { s with table := (s.table.insertOrUpdate s.cfg.kb s.now nodeId r
        { conn := true, incoming := incoming }).1 } :=
      Step.table _ insertOrUpdate_localKey insertOrUpdate_tinv
        (fun h => insertOrUpdate_vals h (hv r incoming rfl))
    unfold connectionUpdated
    simp only
    generalize s.table.insertOrUpdate s.cfg.kb s.now nodeId r { conn := true, incoming := incoming } = x
      at h1 ⊢
    obtain ⟨t, res⟩ := x
    simp only at h1 ⊢
    cases res with
    | inserted =>
      simp only
      cases incoming
      · exact h1.trans (sendPing_step ..)
      · exact h1
    | pending d =>
      simp only
      have h2 := entry_step (P := P) (o := o) { s with table := t } d
      generalize Svc.entry { s with table := t } d = y at h2 ⊢
      obtain ⟨s2, l⟩ := y
      cases l <;> simp only <;> first | exact h1.trans h2 | exact (h1.trans h2).trans (sendPing_step ..)
    | failed f =>
      simp only
      split
      · exact h1.trans (sendPing_step ..)
      · exact h1
    | _ => exact h1
  | pongReceived =>
    unfold connectionUpdated
    simp only
    exact Step.table _ updateNodeStatus_localKey updateNodeStatus_tinv updateNodeStatus_vals
  | disconnected =>
    unfold connectionUpdated
    simp only
    exact Step.table _ updateNodeStatus_localKey updateNodeStatus_tinv updateNodeStatus_vals


theorem bucket_mem_or_empty (t : Table Rec) (i : Nat) : t.bucket i ∈ t.buckets ∨ t.bucket i = {} := by
  unfold Table.bucket
  rw [List.getD_eq_getElem?_getD]
  cases hi : t.buckets[i]? with
  | none => exact Or.inr rfl
  | some b => exact Or.inl (List.mem_of_getElem? hi)

theorem lookup_cases (t : Table Rec) (key : Nat) :
    (∀ v st, lookup t key = .present v st → HasPair t key v) ∧
    (∀ v st, lookup t key = .pending v st → HasPair t key v) := by
  unfold lookup
  cases hbi : bucketIndex t.localKey key with
  | none => simp
  | some i =>
    simp only
    rcases bucket_mem_or_empty t i with hm | he
    · cases hf : (t.bucket i).nodes.find? (fun n => n.key == key) with
      | some n =>
        simp only
        have hn := List.mem_of_find?_eq_some hf
        have hk := List.find?_some hf
        constructor
        · intro v st h
          cases h
          exact ⟨_, hm, Or.inl ⟨n, hn, beq_iff_eq.1 hk, rfl⟩⟩
        · intro v st h; cases h
      | none =>
        simp only
        cases hp : (t.bucket i).pending with
        | none => simp
        | some p =>
          simp only
          by_cases hk : (p.node.key == key) = true
          · rw [if_pos hk]
            constructor
            · intro v st h; cases h
            · intro v st h
              cases h
              exact ⟨_, hm, Or.inr ⟨p, hp, beq_iff_eq.1 hk, rfl⟩⟩
          · rw [if_neg hk]; simp
    · rw [he]; simp

theorem lookup_present {t : Table Rec} {key : Nat} {v : Rec} {st : Status}
    (h : lookup t key = .present v st) : HasPair t key v := (lookup_cases t key).1 v st h

theorem lookup_pending {t : Table Rec} {key : Nat} {v : Rec} {st : Status}
    (h : lookup t key = .pending v st) : HasPair t key v := (lookup_cases t key).2 v st h

theorem injectSessionEstablished_step (s : Svc) (r : Rec) (addr : Addr) (incoming : Bool)
    (hv : contactable s.cfg.ipMode r = true → r.passesFilter = true → r.id ≠ s.table.localKey → P r.id r) :
    Step P o s (s.injectSessionEstablished o r addr incoming).1 := by
  unfold injectSessionEstablished
  simp only
  by_cases hc : contactable s.cfg.ipMode r = true
  · by_cases hf : r.passesFilter = true
    · rw [if_neg (by simp [hc]), if_neg (by simp [hf])]
      exact connectionUpdated_step s r.id _ (fun r' inc e hne => by cases e; exact hv hc hf hne)
    · rw [if_neg (by simp [hc]), if_pos (by simp [hf])]
      exact Step.refl
  · rw [if_pos (by simp [hc])]
    exact Step.refl

/-- `P` is closed under the replacement of a value by a newer, admissible record of the same id. -/
def Upd (m : IpMode) (P : Nat → Rec → Prop) : Prop :=
  ∀ k v r, P k v → r.id = k → v.seq < r.seq → contactable m r = true → r.passesFilter = true → P k r

theorem discoveredOne_step (s : Svc) (source : Nat) (r : Rec)
    (hupd : ∀ v, P r.id v → v.seq < r.seq → contactable s.cfg.ipMode r = true →
      r.passesFilter = true → P r.id r) :
    Step P o s (s.discoveredOne source r).1 := by
  unfold discoveredOne
  by_cases hl : (r.id == s.localRec.id) = true
  · rw [if_pos hl]; exact Step.refl
  rw [if_neg hl]
  simp only
  have he := entry_step (P := P) (o := o) s r.id
  have hlk := entry_lookup s r.id
  have hcfg : (s.entry r.id).1.cfg = s.cfg := rfl
  generalize s.entry r.id = x at he hlk hcfg ⊢
  obtain ⟨s1, l⟩ := x
  simp only at he hlk hcfg ⊢
  have hup : ∀ v, HasPair s1.table r.id v → v.seq < r.seq → contactable s.cfg.ipMode r = true →
      r.passesFilter = true →
      Step P o s1 { s1 with table := (s1.table.updateNode s1.cfg.kb s1.now r.id r none).1 } :=
    fun v hp hlt hc hf => Step.table _ updateNode_localKey updateNode_tinv
      (fun h1 => updateNode_vals h1 (fun _ => hupd v (h1.of_hasPair hp) hlt hc hf))
  by_cases hok : (r.passesFilter && contactable s.cfg.ipMode r) = true
  · rw [if_pos hok]
    simp only [Bool.and_eq_true] at hok
    cases l with
    | present v st =>
      simp only
      by_cases hlt : v.seq < r.seq
      · rw [if_pos (decide_eq_true hlt)]
        have h2 := hup v (lookup_present hlk.symm) hlt hok.2 hok.1
        split <;> exact he.trans h2
      · rw [if_neg (by simpa using hlt)]
        exact he
    | pending v st =>
      simp only
      by_cases hlt : v.seq < r.seq
      · rw [if_pos (decide_eq_true hlt)]
        have h2 := hup v (lookup_pending hlk.symm) hlt hok.2 hok.1
        split <;> exact he.trans h2
      · rw [if_neg (by simpa using hlt)]
        exact he
    | absent => exact he
    | self => exact he
  · rw [if_neg hok]
    simp only
    cases l with
    | present v st =>
      simp only
      split
      · exact he.trans (entryRemove_step ..)
      · exact he
    | pending v st =>
      simp only
      split
      · exact he.trans (entryRemove_step ..)
      · exact he
    | absent => exact he
    | self => exact he

theorem discoveredLoop_step (m : IpMode) (hupd : Upd m P) (source : Nat) :
    ∀ (recs : List Rec) (s : Svc) (kept : List Rec) (outs : List Out), s.cfg.ipMode = m →
      Step P o s (discoveredLoop s source recs kept outs).1 := by
  intro recs
  induction recs with
  | nil => intro s kept outs _; unfold discoveredLoop; exact Step.refl
  | cons r rs ih =>
    intro s kept outs hm
    unfold discoveredLoop
    have h1 := discoveredOne_step (P := P) (o := o) s source r
      (fun v hp hlt hc hf => hupd r.id v r hp rfl hlt (hm ▸ hc) hf)
    generalize s.discoveredOne source r = x at h1 ⊢
    obtain ⟨s1, keep, o1⟩ := x
    simp only at h1 ⊢
    exact h1.trans (ih s1 _ _ (by rw [h1.cfg]; exact hm))

theorem discovered_step (s : Svc) (source : Nat) (recs : List Rec) (q : Option Nat)
    (hupd : Upd s.cfg.ipMode P) : Step P o s (s.discovered source recs q).1 := by
  unfold discovered
  have h1 := discoveredLoop_step (o := o) s.cfg.ipMode hupd source recs s [] [] rfl
  generalize discoveredLoop s source recs [] [] = x at h1 ⊢
  obtain ⟨s1, kept, outs⟩ := x
  simp only at h1 ⊢
  split
  · split
    · exact h1.trans (Step.of_eq rfl rfl rfl)
    · exact h1
  · exact h1

end Discv5.Svc

/-
Service-level lemmas for C12 (routing-table admission and update policy): every function of
`Model/Service.lean` is a `Step`: it keeps the configuration, the local key of the table, the
table invariant, and any value predicate `P key value` that holds of the records it files.
-/
import Discv5Model.Model.Service
import Discv5Model.Proofs.ServiceVals

namespace Discv5.Svc
open Discv5.KB
open Svc

def OSane (id : Nat) (o : Oracle) : Prop := ∀ r a, o.newLocal = some (r, a) → r.id = id

/-- A record the service may ask: contactable in the node's IP mode and accepted by the table filter. -/
def Adm (m : IpMode) (r : Rec) : Prop := contactable m r = true ∧ r.passesFilter = true

/-- Every untrusted record of the running lookup (the records `send_rpc_query` finds for the candidates
the lookup learned from answers and from the table it started on) is admissible. -/
def UOk (s : Svc) : Prop := ∀ q, s.query = some q → ∀ r ∈ q.untrusted, Adm s.cfg.ipMode r

structure Step (P : Nat → Rec → Prop) (o : Oracle) (s s' : Svc) : Prop where
  cfg : s'.cfg = s.cfg
  localKey : s'.table.localKey = s.table.localKey
  tinv : TInv s.cfg.kb s.table → TInv s.cfg.kb s'.table
  vals : TVals P s.table → TVals P s'.table
  localId : OSane s.localRec.id o → s'.localRec.id = s.localRec.id
  /-- when the value predicate implies admissibility: the untrusted records stay admissible -/
  untr : (∀ k v, P k v → Adm s.cfg.ipMode v) → TVals P s.table → UOk s → UOk s'

variable {P : Nat → Rec → Prop} {o : Oracle} {s s1 s2 s' : Svc}

theorem Step.refl : Step P o s s := ⟨rfl, rfl, id, id, fun _ => rfl, fun _ _ h => h⟩

theorem Step.trans (h1 : Step P o s s1) (h2 : Step P o s1 s2) : Step P o s s2 :=
  ⟨h2.cfg.trans h1.cfg, h2.localKey.trans h1.localKey,
   fun h => by have := h2.tinv (by rw [h1.cfg]; exact h1.tinv h); rwa [h1.cfg] at this,
   fun h => h2.vals (h1.vals h),
   fun h => by rw [h2.localId (by rw [h1.localId h]; exact h), h1.localId h],
   fun hp hv hu => h2.untr (by rw [h1.cfg]; exact hp) (h1.vals hv) (h1.untr hp hv hu)⟩

theorem UOk.of_eq (hu : UOk s) (hc : s'.cfg = s.cfg) (hq : s'.query = s.query) : UOk s' := by
  intro q hq' r hr
  rw [hc]
  exact hu q (by rw [← hq]; exact hq') r hr

theorem Step.of_eq (hc : s'.cfg = s.cfg) (ht : s'.table = s.table) (hl : s'.localRec = s.localRec)
    (hq : s'.query = s.query := by rfl) :
    Step P o s s' :=
  ⟨hc, by rw [ht], fun h => by rw [ht]; exact h, fun h => by rw [ht]; exact h, fun _ => by rw [hl],
   fun _ _ hu => hu.of_eq hc hq⟩

theorem Step.table (t : Table Rec) (hk : t.localKey = s.table.localKey)
    (hi : TInv s.cfg.kb s.table → TInv s.cfg.kb t) (hv : TVals P s.table → TVals P t) :
    Step P o s { s with table := t } := ⟨rfl, hk, hi, hv, fun _ => rfl, fun _ _ hu => hu.of_eq rfl rfl⟩

theorem entry_step (s : Svc) (key : Nat) : Step P o s (s.entry key).1 :=
  Step.table _ entryTouch_localKey entryTouch_tinv entryTouch_vals

theorem entry_lookup (s : Svc) (key : Nat) : (s.entry key).2 = lookup (s.entry key).1.table key := rfl

theorem entryRemove_step (s : Svc) (key : Nat) : Step P o s (s.entryRemove key) := by
  unfold entryRemove
  cases hbi : bucketIndex s.table.localKey key with
  | none => exact Step.refl
  | some i =>
    simp only
    exact Step.table _ rfl
      (fun h => h.setBucket (remove_inv (h.binv i)) (remove_keys (h.bkeys i)))
      (fun h => h.setBucket (remove_vals (h.bucket i)))

theorem findEnr_step (s : Svc) (id : Nat) : Step P o s (s.findEnr id).1 := by
  have h := entry_step (P := P) (o := o) s id
  unfold findEnr
  generalize s.entry id = x at h ⊢
  obtain ⟨s1, l⟩ := x
  simp only
  cases l <;> simp only <;> first | exact h | (cases s1.query <;> exact h)

theorem sendRpcRequest_step (s : Svc) (peer : Nat) (addr : Addr) (body : ReqBody) (q : Option Nat)
    (cb : Bool) : Step P o s (s.sendRpcRequest peer addr body q cb).1 :=
  Step.of_eq rfl rfl rfl

theorem sendPing_step (s : Svc) (r : Rec) (cb : Bool) : Step P o s (s.sendPing r cb).1 := by
  unfold sendPing
  cases contactableAddr s.cfg.ipMode r with
  | none => exact Step.refl
  | some a => exact sendRpcRequest_step ..

theorem connectionUpdated_step (s : Svc) (nodeId : Nat) (cs : ConnStatus)
    (hv : ∀ r inc, cs = .connected r inc → nodeId ≠ s.table.localKey → P nodeId r) :
    Step P o s (s.connectionUpdated o nodeId cs).1 := by
  cases cs with
  | connected r incoming =>
    have h1 : Step P o s { s with table := (s.table.insertOrUpdate s.cfg.kb s.now nodeId r
        { conn := true, incoming := incoming }).1 } :=
      Step.table _ insertOrUpdate_localKey insertOrUpdate_tinv
        (fun h => insertOrUpdate_vals h (hv r incoming rfl))
    unfold connectionUpdated
    simp only
    generalize s.table.insertOrUpdate s.cfg.kb s.now nodeId r { conn := true, incoming := incoming } = x
      at h1 ⊢
    obtain ⟨t, res⟩ := x
    simp only at h1 ⊢
    cases res with
    | inserted =>
      simp only
      cases incoming
      · exact h1.trans (sendPing_step ..)
      · exact h1
    | pending d =>
      simp only
      have h2 := entry_step (P := P) (o := o) { s with table := t } d
      generalize Svc.entry { s with table := t } d = y at h2 ⊢
      obtain ⟨s2, l⟩ := y
      cases l <;> simp only <;> first | exact h1.trans h2 | exact (h1.trans h2).trans (sendPing_step ..)
    | failed f =>
      simp only
      split
      · exact h1.trans (sendPing_step ..)
      · exact h1
    | _ => exact h1
  | pongReceived =>
    unfold connectionUpdated
    simp only
    exact Step.table _ updateNodeStatus_localKey updateNodeStatus_tinv updateNodeStatus_vals
  | disconnected =>
    unfold connectionUpdated
    simp only
    exact Step.table _ updateNodeStatus_localKey updateNodeStatus_tinv updateNodeStatus_vals


theorem bucket_mem_or_empty (t : Table Rec) (i : Nat) : t.bucket i ∈ t.buckets ∨ t.bucket i = {} := by
  unfold Table.bucket
  rw [List.getD_eq_getElem?_getD]
  cases hi : t.buckets[i]? with
  | none => exact Or.inr rfl
  | some b => exact Or.inl (List.mem_of_getElem? hi)

theorem lookup_cases (t : Table Rec) (key : Nat) :
    (∀ v st, lookup t key = .present v st → HasPair t key v) ∧
    (∀ v st, lookup t key = .pending v st → HasPair t key v) := by
  unfold lookup
  cases hbi : bucketIndex t.localKey key with
  | none => simp
  | some i =>
    simp only
    rcases bucket_mem_or_empty t i with hm | he
    · cases hf : (t.bucket i).nodes.find? (fun n => n.key == key) with
      | some n =>
        simp only
        have hn := List.mem_of_find?_eq_some hf
        have hk := List.find?_some hf
        constructor
        · intro v st h
          cases h
          exact ⟨_, hm, Or.inl ⟨n, hn, beq_iff_eq.1 hk, rfl⟩⟩
        · intro v st h; cases h
      | none =>
        simp only
        cases hp : (t.bucket i).pending with
        | none => simp
        | some p =>
          simp only
          by_cases hk : (p.node.key == key) = true
          · rw [if_pos hk]
            constructor
            · intro v st h; cases h
            · intro v st h
              cases h
              exact ⟨_, hm, Or.inr ⟨p, hp, beq_iff_eq.1 hk, rfl⟩⟩
          · rw [if_neg hk]; simp
    · rw [he]; simp

theorem lookup_present {t : Table Rec} {key : Nat} {v : Rec} {st : Status}
    (h : lookup t key = .present v st) : HasPair t key v := (lookup_cases t key).1 v st h

theorem lookup_pending {t : Table Rec} {key : Nat} {v : Rec} {st : Status}
    (h : lookup t key = .pending v st) : HasPair t key v := (lookup_cases t key).2 v st h

theorem injectSessionEstablished_step (s : Svc) (r : Rec) (addr : Addr) (incoming : Bool)
    (hv : contactable s.cfg.ipMode r = true → r.passesFilter = true → r.id ≠ s.table.localKey → P r.id r) :
    Step P o s (s.injectSessionEstablished o r addr incoming).1 := by
  unfold injectSessionEstablished
  simp only
  by_cases hc : contactable s.cfg.ipMode r = true
  · by_cases hf : r.passesFilter = true
    · rw [if_neg (by simp [hc]), if_neg (by simp [hf])]
      exact connectionUpdated_step s r.id _ (fun r' inc e hne => by cases e; exact hv hc hf hne)
    · rw [if_neg (by simp [hc]), if_pos (by simp [hf])]
      exact Step.refl
  · rw [if_pos (by simp [hc])]
    exact Step.refl

/-- `P` is closed under the replacement of a value by a newer, admissible record of the same id. -/
def Upd (m : IpMode) (P : Nat → Rec → Prop) : Prop :=
  ∀ k v r, P k v → r.id = k → v.seq < r.seq → contactable m r = true → r.passesFilter = true → P k r

theorem discoveredOne_step (s : Svc) (source : Nat) (r : Rec)
    (hupd : ∀ v, P r.id v → v.seq < r.seq → contactable s.cfg.ipMode r = true →
      r.passesFilter = true → P r.id r) :
    Step P o s (s.discoveredOne source r).1 := by
  unfold discoveredOne
  by_cases hl : (r.id == s.localRec.id) = true
  · rw [if_pos hl]; exact Step.refl
  rw [if_neg hl]
  simp only
  have he := entry_step (P := P) (o := o) s r.id
  have hlk := entry_lookup s r.id
  have hcfg : (s.entry r.id).1.cfg = s.cfg := rfl
  generalize s.entry r.id = x at he hlk hcfg ⊢
  obtain ⟨s1, l⟩ := x
  simp only at he hlk hcfg ⊢
  have hup : ∀ v, HasPair s1.table r.id v → v.seq < r.seq → contactable s.cfg.ipMode r = true →
      r.passesFilter = true →
      Step P o s1 { s1 with table := (s1.table.updateNode s1.cfg.kb s1.now r.id r none).1 } :=
    fun v hp hlt hc hf => Step.table _ updateNode_localKey updateNode_tinv
      (fun h1 => updateNode_vals h1 (fun _ => hupd v (h1.of_hasPair hp) hlt hc hf))
  by_cases hok : (r.passesFilter && contactable s.cfg.ipMode r) = true
  · rw [if_pos hok]
    simp only [Bool.and_eq_true] at hok
    cases l with
    | present v st =>
      simp only
      by_cases hlt : v.seq < r.seq
      · rw [if_pos (decide_eq_true hlt)]
        have h2 := hup v (lookup_present hlk.symm) hlt hok.2 hok.1
        split <;> exact he.trans h2
      · rw [if_neg (by simpa using hlt)]
        exact he
    | pending v st =>
      simp only
      by_cases hlt : v.seq < r.seq
      · rw [if_pos (decide_eq_true hlt)]
        have h2 := hup v (lookup_pending hlk.symm) hlt hok.2 hok.1
        split <;> exact he.trans h2
      · rw [if_neg (by simpa using hlt)]
        exact he
    | absent => exact he
    | self => exact he
  · rw [if_neg hok]
    simp only
    cases l with
    | present v st =>
      simp only
      split
      · exact he.trans (entryRemove_step ..)
      · exact he
    | pending v st =>
      simp only
      split
      · exact he.trans (entryRemove_step ..)
      · exact he
    | absent => exact he
    | self => exact he

theorem discoveredLoop_step (m : IpMode) (hupd : Upd m P) (source : Nat) :
    ∀ (recs : List Rec) (s : Svc) (kept : List Rec) (outs : List Out), s.cfg.ipMode = m →
      Step P o s (discoveredLoop s source recs kept outs).1 := by
  intro recs
  induction recs with
  | nil => intro s kept outs _; unfold discoveredLoop; exact Step.refl
  | cons r rs ih =>
    intro s kept outs hm
    unfold discoveredLoop
    have h1 := discoveredOne_step (P := P) (o := o) s source r
      (fun v hp hlt hc hf => hupd r.id v r hp rfl hlt (hm ▸ hc) hf)
    generalize s.discoveredOne source r = x at h1 ⊢
    obtain ⟨s1, keep, o1⟩ := x
    simp only at h1 ⊢
    exact h1.trans (ih s1 _ _ (by rw [h1.cfg]; exact hm))

/-- What one pass of the `retain` closure of `discovered` keeps is admissible. -/
theorem discoveredOne_keep_adm (s : Svc) (source : Nat) (r : Rec)
    (h : (s.discoveredOne source r).2.1 = true) : Adm s.cfg.ipMode r := by
  unfold discoveredOne at h
  by_cases hl : (r.id == s.localRec.id) = true
  · simp [hl] at h
  · by_cases hok : (r.passesFilter && contactable s.cfg.ipMode r) = true
    · have hp : r.passesFilter = true ∧ contactable s.cfg.ipMode r = true := by
        simpa [Bool.and_eq_true] using hok
      exact ⟨hp.2, hp.1⟩
    · simp [hl, hok] at h

theorem discoveredLoop_kept_adm (source : Nat) :
    ∀ (recs : List Rec) (s : Svc) (kept : List Rec) (outs : List Out),
      ∀ r ∈ (discoveredLoop s source recs kept outs).2.1, r ∈ kept ∨ Adm s.cfg.ipMode r := by
  intro recs
  induction recs with
  | nil => intro s kept outs r hr; unfold discoveredLoop at hr; exact Or.inl hr
  | cons x rs ih =>
    intro s kept outs r hr
    unfold discoveredLoop at hr
    have hcfg : (s.discoveredOne source x).1.cfg = s.cfg :=
      (discoveredOne_step (P := fun _ _ => True) (o := ({} : Oracle)) s source x
        (fun _ _ _ _ _ => trivial)).cfg
    have hkeep := discoveredOne_keep_adm s source x
    generalize s.discoveredOne source x = y at hr hcfg hkeep
    obtain ⟨s1, keep, o1⟩ := y
    simp only at hr hcfg hkeep
    rcases ih s1 _ _ r hr with hk | hadm
    · cases keep with
      | false => exact Or.inl (by simpa using hk)
      | true =>
        simp only [if_true] at hk
        rcases List.mem_append.mp hk with h | h
        · exact Or.inl h
        · have : r = x := by simpa using h
          subst this
          exact Or.inr (hkeep rfl)
    · rw [hcfg] at hadm; exact Or.inr hadm

/-- The `untrusted_enrs` update of `discovered` adds nothing but kept records. -/
theorem foldl_untrusted_mem (kept : List Rec) :
    ∀ (u : List Rec), ∀ r ∈ kept.foldl
        (fun (u : List Rec) r => if u.any (fun e => e.id == r.id) then u else u ++ [r]) u,
      r ∈ u ∨ r ∈ kept := by
  induction kept with
  | nil => intro u r hr; exact Or.inl hr
  | cons x xs ih =>
    intro u r hr
    rw [List.foldl_cons] at hr
    rcases ih _ r hr with h | h
    · split at h
      · exact Or.inl h
      · rcases List.mem_append.mp h with h | h
        · exact Or.inl h
        · exact Or.inr (by simp at h; simp [h])
    · exact Or.inr (List.mem_cons_of_mem _ h)

theorem discovered_step (s : Svc) (source : Nat) (recs : List Rec) (q : Option Nat)
    (hupd : Upd s.cfg.ipMode P) : Step P o s (s.discovered source recs q).1 := by
  unfold discovered
  have h1 := discoveredLoop_step (o := o) s.cfg.ipMode hupd source recs s [] [] rfl
  have hk := discoveredLoop_kept_adm source recs s [] []
  generalize discoveredLoop s source recs [] [] = x at h1 hk ⊢
  obtain ⟨s1, kept, outs⟩ := x
  simp only at h1 hk ⊢
  split
  · rename_i qid qq hqs
    split
    · refine h1.trans ⟨rfl, rfl, id, id, fun _ => rfl, ?_⟩
      intro _ _ hu q' hq' r hr
      simp only [Option.some.injEq] at hq'
      subst hq'
      simp only at hr
      rcases foldl_untrusted_mem kept qq.untrusted r hr with h | h
      · exact hu qq (by assumption) r h
      · rcases hk r h with h0 | h0
        · simp at h0
        · show Adm s1.cfg.ipMode r
          rw [h1.cfg]; exact h0
    · exact h1
  · exact h1


theorem nodesToSend_step (s : Svc) (requester : Nat) (ds : List Nat) :
    Step P o s (s.nodesToSend requester ds).1 := by
  unfold nodesToSend
  simp only
  split
  · split
    · exact Step.refl
    · exact Step.table _ nodesByDistances_localKey nodesByDistances_tinv nodesByDistances_vals
  · split
    · exact Step.refl
    · exact Step.table _ nodesByDistances_localKey nodesByDistances_tinv nodesByDistances_vals

theorem sendNodesResponse_step (s : Svc) (peer : Nat) (addr : Addr) (rid : Bytes) (ds : List Nat) :
    Step P o s (s.sendNodesResponse peer addr rid ds).1 := by
  unfold sendNodesResponse
  exact nodesToSend_step s peer ds

theorem handleRequest_step (s : Svc) (peer : Nat) (addr : Addr) (rid : Bytes) (body : ReqBody) :
    Step P o s (s.handleRequest peer addr rid body).1 := by
  cases body with
  | findNode ds => unfold handleRequest; exact sendNodesResponse_step ..
  | talk p q => unfold handleRequest; exact Step.refl
  | ping enrSeq =>
    unfold handleRequest
    simp only
    have he := entry_step (P := P) (o := o) s peer
    generalize s.entry peer = x at he ⊢
    obtain ⟨s1, l⟩ := x
    simp only at he ⊢
    have key : ∀ tr : Option Rec, Step P o s1 (match tr with
        | some v =>
          match contactableAddr s1.cfg.ipMode v with
          | some a => s1.sendRpcRequest v.id a (.findNode [Consts.ENR_REQUEST_DISTANCE]) none false
          | none => (s1, [])
        | none => (s1, [])).1 := by
      intro tr
      cases tr with
      | none => exact Step.refl
      | some v =>
        simp only
        cases contactableAddr s1.cfg.ipMode v with
        | none => exact Step.refl
        | some a => exact sendRpcRequest_step ..
    exact he.trans (key _)

theorem removeActive_step (s : Svc) (id : Nat) : Step P o s (s.removeActive id).1 := by
  unfold removeActive
  cases s.active.find? (fun a => a.id == id) with
  | none => exact Step.refl
  | some a => exact Step.of_eq rfl rfl rfl

theorem takeNodesResp_step (s : Svc) (id : Nat) : Step P o s (s.takeNodesResp id).1 := by
  unfold takeNodesResp
  cases s.nodesResp.find? (fun p => p.1 == id) with
  | none => exact Step.refl
  | some a => exact Step.of_eq rfl rfl rfl

theorem ipVote_step (s : Svc) (peer : Nat) : Step P o s (s.ipVote o peer).1 := by
  unfold ipVote
  split
  · exact Step.refl
  split
  · exact Step.refl
  simp only
  have he := entry_step (P := P) (o := o) s peer
  have hl : (s.entry peer).1.localRec = s.localRec := rfl
  generalize s.entry peer = x at he hl ⊢
  obtain ⟨s1, l⟩ := x
  simp only at he hl ⊢
  cases l <;> simp only
  all_goals
    split
    · exact he
    · cases hn : o.newLocal with
      | none => exact he
      | some ra =>
        obtain ⟨r, a⟩ := ra
        simp only
        refine he.trans ⟨rfl, rfl, id, id, ?_, fun _ _ hu => hu.of_eq rfl rfl⟩
        intro ho
        exact ho r a hn

theorem handleResponse_step (s : Svc) (peer : Nat) (addr : Addr) (id : Nat) (body : RespBody)
    (hupd : Upd s.cfg.ipMode P) : Step P o s (s.handleResponse o peer addr id body).1 := by
  unfold handleResponse
  have h0 := removeActive_step (P := P) (o := o) s id
  generalize s.removeActive id = x at h0 ⊢
  obtain ⟨s0, oreq⟩ := x
  cases oreq with
  | none => exact Step.refl
  | some req =>
    simp only at h0 ⊢
    split
    · exact h0
    split
    · exact h0
    cases body with
    | talk resp =>
      simp only
      split <;> exact h0
    | nodes total recs =>
      simp only
      split
      · exact h0
      have h1 : Step P o s0 (if total > 1 then s0.takeNodesResp id else (s0, none)).1 := by
        split
        · exact takeNodesResp_step ..
        · exact Step.refl
      generalize (if total > 1 then s0.takeNodesResp id else (s0, none)) = y at h1 ⊢
      obtain ⟨s1, cur⟩ := y
      simp only at h1 ⊢
      split
      · exact (h0.trans h1).trans (Step.of_eq rfl rfl rfl)
      · have h2 := takeNodesResp_step (P := P) (o := o) s1 id
        have h12 := (h0.trans h1).trans h2
        have hupd' : Upd (s1.takeNodesResp id).1.cfg.ipMode P := by rw [h12.cfg]; exact hupd
        exact h12.trans (discovered_step _ _ _ _ hupd')
    | pong enrSeq observed =>
      simp only
      split
      · exact h0
      have h1 := ipVote_step (P := P) (o := o) s0 peer
      generalize s0.ipVote o peer = y at h1 ⊢
      obtain ⟨s1, o1⟩ := y
      have h2 := findEnr_step (P := P) (o := o) s1 peer
      generalize s1.findEnr peer = z at h2 ⊢
      obtain ⟨s2, known⟩ := z
      simp only at h1 h2 ⊢
      have h012 := (h0.trans h1).trans h2
      cases known with
      | none => exact h012
      | some r =>
        simp only
        have h3 : Step P o s2 (if r.seq < enrSeq then
            s2.sendRpcRequest req.peer req.addr (.findNode [Consts.ENR_REQUEST_DISTANCE]) none false
            else (s2, [])).1 := by
          split
          · exact sendRpcRequest_step ..
          · exact Step.refl
        generalize (if r.seq < enrSeq then
            s2.sendRpcRequest req.peer req.addr (.findNode [Consts.ENR_REQUEST_DISTANCE]) none false
            else (s2, [])) = w at h3 ⊢
        obtain ⟨s3, o2⟩ := w
        simp only at h3 ⊢
        split
        · exact (h012.trans h3).trans
            (connectionUpdated_step s3 peer .pongReceived (fun r inc e => by cases e))
        · exact h012.trans h3

theorem rpcFailure_step (s : Svc) (id : Nat) (hupd : Upd s.cfg.ipMode P) :
    Step P o s (s.rpcFailure o id).1 := by
  unfold rpcFailure
  have h0 := removeActive_step (P := P) (o := o) s id
  generalize s.removeActive id = x at h0 ⊢
  obtain ⟨s0, oreq⟩ := x
  cases oreq with
  | none => exact Step.refl
  | some req =>
    simp only at h0 ⊢
    split
    · exact h0
    refine (h0.trans ?_).trans
      (connectionUpdated_step _ req.peer .disconnected (fun r inc e => by cases e))
    split
    · have h2 := takeNodesResp_step (P := P) (o := o) s0 id
      generalize s0.takeNodesResp id = y at h2 ⊢
      obtain ⟨s1, onr⟩ := y
      simp only at h2
      cases onr with
      | none => exact h2
      | some nr =>
        simp only
        split
        · have hupd' : Upd s1.cfg.ipMode P := by rw [h2.cfg, h0.cfg]; exact hupd
          exact h2.trans (discovered_step _ _ _ _ hupd')
        · exact h2
    · exact Step.refl

theorem unverifiable_step (s : Svc) (id : Nat) : Step P o s (s.unverifiable id).1 := by
  unfold unverifiable
  exact Step.table _ tremove_localKey remove_tinv tremove_vals

theorem whoAreYou_step (s : Svc) (peer : Nat) (addr : Addr) : Step P o s (s.whoAreYou peer addr).1 := by
  unfold whoAreYou
  exact findEnr_step s peer

theorem addEnr_step (s : Svc) (r : Rec)
    (hv : contactable s.cfg.ipMode r = true → r.passesFilter = true → r.id ≠ s.table.localKey → P r.id r) :
    Step P o s (s.addEnr r).1 := by
  unfold addEnr
  by_cases hc : contactable s.cfg.ipMode r = true
  · by_cases hf : r.passesFilter = true
    · rw [if_neg (by simp [hc]), if_neg (by simp [hf])]
      exact Step.table _ insertOrUpdate_localKey insertOrUpdate_tinv
        (fun h => insertOrUpdate_vals h (hv hc hf))
    · rw [if_neg (by simp [hc]), if_pos (by simp [hf])]
      exact Step.refl
  · rw [if_pos (by simp [hc])]
    exact Step.refl

theorem removeNode_step (s : Svc) (id : Nat) : Step P o s (s.removeNode id).1 := by
  unfold removeNode
  exact Step.table _ tremove_localKey remove_tinv tremove_vals

theorem startQuery_step (s : Svc) (target : Nat) : Step P o s (s.startQuery target) := by
  unfold startQuery
  have h1 : Step P o s { s with table := (s.table.closest s.cfg.kb s.now target).1 } :=
    Step.table _ closest_localKey closest_tinv closest_vals
  simp only
  split
  · exact h1
  · refine ⟨rfl, closest_localKey, closest_tinv, closest_vals, fun _ => rfl, ?_⟩
    intro hp hv _ q' hq' r hr
    simp only [Option.some.injEq] at hq'
    subst hq'
    simp only [List.mem_map] at hr
    obtain ⟨n, hn, rfl⟩ := hr
    -- (the values `closest_values` yields are values of the table)
    exact hp _ _ (closest_out_vals hv n hn)

theorem sendRpcQuery_step (s : Svc) (peer : Nat) : Step P o s (s.sendRpcQuery peer).1 := by
  unfold sendRpcQuery
  cases s.query with
  | none => exact Step.refl
  | some q =>
    simp only
    have h2 := findEnr_step (P := P) (o := o) s peer
    generalize s.findEnr peer = z at h2 ⊢
    obtain ⟨s2, known⟩ := z
    simp only at h2 ⊢
    cases known with
    | none => exact h2
    | some r =>
      simp only
      cases contactableAddr s2.cfg.ipMode r with
      | none => exact h2
      | some a => exact h2.trans (sendRpcRequest_step ..)

/-- The record an admitting input (established session, explicit add) is about. -/
def admRec : Svc.Input → Option Rec
  | .established r _ _ => some r
  | .addEnr r => some r
  | _ => none

/-- Every service step is a `Step`, for every `P` that holds of the record an admitting input
carries (if it is contactable, passes the filter and is not the local node) and is closed under
updates by newer admissible records. -/
theorem step_step (s : Svc) (i : Svc.Input)
    (hadm : ∀ r, admRec i = some r → contactable s.cfg.ipMode r = true → r.passesFilter = true →
      r.id ≠ s.table.localKey → P r.id r)
    (hupd : Upd s.cfg.ipMode P) : Step P o s (s.step o i).1 := by
  cases i with
  | established r addr incoming =>
    unfold step; exact injectSessionEstablished_step s r addr incoming (hadm r rfl)
  | request peer addr rid body => unfold step; exact handleRequest_step ..
  | response peer addr id body => unfold step; exact handleResponse_step _ _ _ _ _ hupd
  | requestFailed id => unfold step; exact rpcFailure_step _ _ hupd
  | unverifiable id => unfold step; exact unverifiable_step ..
  | whoAreYou peer addr => unfold step; exact whoAreYou_step ..
  | addEnr r => unfold step; exact addEnr_step s r (hadm r rfl)
  | removeNode id => unfold step; exact removeNode_step ..
  | apiPing r => unfold step; exact sendPing_step ..
  | apiFindNode r ds =>
    unfold step
    simp only
    cases contactableAddr s.cfg.ipMode r with
    | none => exact Step.refl
    | some a => exact sendRpcRequest_step ..
  | apiTalk r p q =>
    unfold step
    simp only
    cases contactableAddr s.cfg.ipMode r with
    | none => exact Step.refl
    | some a => exact sendRpcRequest_step ..
  | startQuery target => unfold step; exact startQuery_step ..
  | queryEmit peer => unfold step; exact sendRpcQuery_step ..
  | queryFinished =>
    unfold step
    exact ⟨rfl, rfl, id, id, fun _ => rfl, fun _ _ _ q hq => by cases hq⟩


/-- The value stored or pending under `key` (what `Entry::value()` would read). -/
def lookupVal (t : Table Rec) (key : Nat) : Option Rec :=
  match lookup t key with
  | .present v _ => some v
  | .pending v _ => some v
  | _ => none

theorem lookupVal_hasPair {t : Table Rec} {k : Nat} {v : Rec} (h : lookupVal t k = some v) :
    HasPair t k v := by
  unfold lookupVal at h
  cases hl : lookup t k with
  | present w st => rw [hl] at h; cases h; exact lookup_present hl
  | pending w st => rw [hl] at h; cases h; exact lookup_pending hl
  | absent => rw [hl] at h; cases h
  | self => rw [hl] at h; cases h

theorem eq_of_nodup_keys {l : List (Node Rec)} (h : (l.map (·.key)).Nodup) {a b : Node Rec}
    (ha : a ∈ l) (hb : b ∈ l) (e : a.key = b.key) : a = b := by
  induction l with
  | nil => cases ha
  | cons x xs ih =>
    simp only [List.map_cons, List.nodup_cons, List.mem_map, not_exists, not_and] at h
    rcases List.mem_cons.1 ha with rfl | ha' <;> rcases List.mem_cons.1 hb with rfl | hb'
    · rfl
    · exact absurd e.symm (h.1 b hb')
    · exact absurd e (h.1 a ha')
    · exact ih h.2 ha' hb'

/-- Under the table invariant a key occurs once, so a (key, value) of the table is what a lookup
of the key finds. -/
theorem hasPair_lookupVal {c : KB.Cfg Rec} {t : Table Rec} (ht : TInv c t) {k : Nat} {v : Rec}
    (hp : HasPair t k v) : lookupVal t k = some v := by
  obtain ⟨b, hb, h⟩ := hp
  obtain ⟨j, hj, rfl⟩ := List.mem_iff_getElem.1 hb
  rw [← bucket_eq_getElem t j hj] at h
  have hj' : j < 256 := by rw [← ht.nBuckets]; exact hj
  have hbinv := ht.buckets j hj'
  unfold lookupVal lookup
  rcases h with ⟨n, hn, hk, hv⟩ | ⟨p, hp, hk, hv⟩
  · have hidx := ht.placed j hj' n hn
    rw [hk] at hidx
    rw [hidx]
    simp only
    cases hf : (t.bucket j).nodes.find? (fun n => n.key == k) with
    | none =>
      have := List.find?_eq_none.1 hf n hn
      simp [hk] at this
    | some n' =>
      have hn' := List.mem_of_find?_eq_some hf
      have hk' : n'.key = k := by
        have := List.find?_some hf
        exact beq_iff_eq.1 this
      have : n' = n := eq_of_nodup_keys hbinv.keysNodup hn' hn (hk'.trans hk.symm)
      simp only [this, hv]
  · have hidx := ht.placedPending j hj' p hp
    rw [hk] at hidx
    rw [hidx]
    simp only
    have hfresh := hbinv.pendingFresh p hp
    cases hf : (t.bucket j).nodes.find? (fun n => n.key == k) with
    | some n' =>
      have hn' := List.mem_of_find?_eq_some hf
      have hk' : n'.key = k := by
        have := List.find?_some hf
        exact beq_iff_eq.1 this
      exact absurd (List.mem_map.2 ⟨n', hn', hk'.trans hk.symm⟩) hfresh
    | none =>
      simp only [hp]
      rw [if_pos (by simp [hk])]
      simp only [hv]

/-- **Admission.**  A key that is new in the table after a step is the id of the record carried by
an admitting input, and that record is contactable and passes the table filter. -/
theorem step_new_key (s : Svc) (o : Oracle) (i : Svc.Input) (k : Nat)
    (hnew : k ∈ (s.step o i).1.table.allKeys) (hold : k ∉ s.table.allKeys) :
    ∃ r, admRec i = some r ∧ r.id = k ∧ contactable s.cfg.ipMode r = true ∧ r.passesFilter = true := by
  let P : Nat → Rec → Prop := fun k' _ => k' ∈ s.table.allKeys ∨
    ∃ r, admRec i = some r ∧ r.id = k' ∧ contactable s.cfg.ipMode r = true ∧ r.passesFilter = true
  have h0 : TVals P s.table := (tvals_hasPair s.table).mono (fun k' v h => Or.inl (hasPair_key_mem h))
  have hs : Step P o s (s.step o i).1 :=
    step_step s i (fun r hr hc hf _ => Or.inr ⟨r, hr, rfl, hc, hf⟩)
      (fun k' v r h _ _ _ _ => h)
  obtain ⟨v, hv⟩ := mem_allKeys_hasPair hnew
  rcases (hs.vals h0).of_hasPair hv with h | h
  · exact absurd h hold
  · exact h

/-- **Update rule.**  In a step that carries no admitted record a value changes only to a record of
the same id with a strictly higher sequence number that is contactable and passes the filter. -/
theorem step_update (s : Svc) (o : Oracle) (i : Svc.Input) (ht : TInv s.cfg.kb s.table)
    (hnet : admRec i = none) (k : Nat) (v v' : Rec) (h1 : lookupVal s.table k = some v)
    (h2 : lookupVal (s.step o i).1.table k = some v') :
    v' = v ∨ (v'.id = k ∧ v.seq < v'.seq ∧ contactable s.cfg.ipMode v' = true ∧
      v'.passesFilter = true) := by
  let P : Nat → Rec → Prop := fun k' w => ∃ v0, HasPair s.table k' v0 ∧
    (w = v0 ∨ (w.id = k' ∧ v0.seq < w.seq ∧ contactable s.cfg.ipMode w = true ∧ w.passesFilter = true))
  have h0 : TVals P s.table := (tvals_hasPair s.table).mono (fun k' w h => ⟨w, h, Or.inl rfl⟩)
  have hs : Step P o s (s.step o i).1 := by
    refine step_step s i (fun r hr => by rw [hnet] at hr; cases hr) ?_
    intro k' w r ⟨v0, hp, hw⟩ hid hlt hc hf
    refine ⟨v0, hp, Or.inr ⟨hid, ?_, hc, hf⟩⟩
    rcases hw with rfl | ⟨_, hlt0, _⟩
    · exact hlt
    · exact Nat.lt_trans hlt0 hlt
  obtain ⟨v0, hp, hw⟩ := (hs.vals h0).of_hasPair (lookupVal_hasPair h2)
  have : v0 = v := by
    have := hasPair_lookupVal ht hp
    rw [h1] at this; cases this; rfl
  subst this
  exact hw

/-- The same on one iteration of the `discovered` loop. -/
theorem discoveredOne_update (s : Svc) (source : Nat) (r : Rec) (ht : TInv s.cfg.kb s.table)
    (k : Nat) (v v' : Rec) (h1 : lookupVal s.table k = some v)
    (h2 : lookupVal (s.discoveredOne source r).1.table k = some v') :
    v' = v ∨ (v' = r ∧ r.id = k ∧ v.seq < r.seq ∧ contactable s.cfg.ipMode r = true ∧
      r.passesFilter = true) := by
  let P : Nat → Rec → Prop := fun k' w => HasPair s.table k' w ∨
    (w = r ∧ ∃ v0, HasPair s.table k' v0 ∧ r.id = k' ∧ v0.seq < r.seq ∧
      contactable s.cfg.ipMode r = true ∧ r.passesFilter = true)
  have h0 : TVals P s.table := (tvals_hasPair s.table).mono (fun k' w h => Or.inl h)
  have hs : Step P ({} : Oracle) s (s.discoveredOne source r).1 := by
    refine discoveredOne_step s source r ?_
    intro w hw hlt hc hf
    rcases hw with hw | ⟨rfl, _⟩
    · exact Or.inr ⟨rfl, w, hw, rfl, hlt, hc, hf⟩
    · exact absurd hlt (Nat.lt_irrefl _)
  have huniq : ∀ v0, HasPair s.table k v0 → v0 = v := by
    intro v0 hp
    have := hasPair_lookupVal ht hp
    rw [h1] at this; cases this; rfl
  rcases (hs.vals h0).of_hasPair (lookupVal_hasPair h2) with hp | ⟨rfl, v0, hp, hid, hlt, hc, hf⟩
  · exact Or.inl (huniq _ hp)
  · rw [huniq v0 hp] at hlt
    exact Or.inr ⟨rfl, hid, hlt, hc, hf⟩

end Discv5.Svc

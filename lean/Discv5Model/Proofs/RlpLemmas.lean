/- Helper lemmas for the RLP model (used by C06). -/
import Discv5Model.Model.Rlp
import Discv5Model.Proofs.BytesLemmas

namespace Discv5

/-! ### `Res` -/

theorem Res.bind_eq_ok {ε α β} {x : Res ε α} {f : α → Res ε β} {b : β} :
    (x >>= f) = .ok b ↔ ∃ a, x = .ok a ∧ f a = .ok b := by
  cases x with
  | ok a => simp
  | err e => simp
  | panic => simp

theorem Res.bind_ne_panic {ε α β} {x : Res ε α} {f : α → Res ε β} (hx : x ≠ .panic)
    (hf : ∀ a, x = .ok a → f a ≠ .panic) : (x >>= f) ≠ .panic := by
  cases x with
  | ok a => simpa using hf a rfl
  | err e => simp
  | panic => exact absurd rfl hx

theorem Res.ok_ne_panic {ε α} (a : α) : (Res.ok a : Res ε α) ≠ .panic := fun h => nomatch h
theorem Res.err_ne_panic {ε α} (e : ε) : (Res.err e : Res ε α) ≠ .panic := fun h => nomatch h

/-! ### minimal big-endian encodings -/

theorem beMin_zero : beMin 0 = [] := by rw [beMin]; simp

theorem beMin_pos (n : Nat) (h : 0 < n) :
    beMin n = beMin (n / 256) ++ [UInt8.ofNat (n % 256)] := by
  rw [beMin]; simp [Nat.ne_of_gt h]

theorem ofNat_mod_toNat (n : Nat) : (UInt8.ofNat (n % 256)).toNat = n % 256 := by
  simp [UInt8.toNat_ofNat']

theorem ofNat_toNat_of_lt (n : Nat) (h : n < 256) : (UInt8.ofNat n).toNat = n := by
  simp [UInt8.toNat_ofNat']; omega

theorem beNat_beMin (n : Nat) : beNat (beMin n) = n := by
  induction n using Nat.strongRecOn with
  | _ n ih =>
    by_cases h : n = 0
    · subst h; rw [beMin_zero]; rfl
    · rw [beMin_pos n (by omega), beNat_append_singleton, ih (n / 256) (by omega), ofNat_mod_toNat]
      omega

theorem beMin_length_le (k n : Nat) (h : n < 256 ^ k) : (beMin n).length ≤ k := by
  induction k generalizing n with
  | zero =>
    have : n = 0 := by simpa using h
    subst this; rw [beMin_zero]; simp
  | succ k ih =>
    by_cases h0 : n = 0
    · subst h0; rw [beMin_zero]; simp
    · rw [beMin_pos n (by omega)]
      have : n / 256 < 256 ^ k := by
        rw [Nat.pow_succ] at h
        exact Nat.div_lt_of_lt_mul (by omega)
      have := ih _ this
      simp; omega

theorem beMin_length_pos (n : Nat) (h : 0 < n) : 0 < (beMin n).length := by
  rw [beMin_pos n h]; simp

theorem beMin_length_ge_two (n : Nat) (h : 256 ≤ n) : 2 ≤ (beMin n).length := by
  rw [beMin_pos n (by omega)]
  have := beMin_length_pos (n / 256) (by omega)
  simp; omega

theorem beMin_lt_256 (n : Nat) (h0 : 0 < n) (h : n < 256) : beMin n = [UInt8.ofNat n] := by
  rw [beMin_pos n h0, show n / 256 = 0 by omega, beMin_zero, show n % 256 = n by omega]; rfl

/-- The first byte of a minimal encoding is not zero. -/
theorem beMin_head (n : Nat) (h : 0 < n) : ∃ d tl, beMin n = d :: tl ∧ d ≠ 0 := by
  induction n using Nat.strongRecOn with
  | _ n ih =>
    by_cases hlt : n < 256
    · refine ⟨UInt8.ofNat n, [], beMin_lt_256 n h hlt, ?_⟩
      intro hz
      have := congrArg UInt8.toNat hz
      rw [ofNat_toNat_of_lt n hlt] at this
      simp at this; omega
    · obtain ⟨d, tl, he, hd⟩ := ih (n / 256) (by omega) (by omega)
      exact ⟨d, tl ++ [UInt8.ofNat (n % 256)], by rw [beMin_pos n h, he]; rfl, hd⟩

namespace Rlp

/-! ### primitive steps -/

@[simp] theorem getNextByte_nil : getNextByte [] = .err .inputTooShort := rfl
@[simp] theorem getNextByte_cons (b : UInt8) (tl : Bytes) : getNextByte (b :: tl) = .ok b := rfl

theorem advance_ok (buf : Bytes) (n : Nat) (h : n ≤ buf.length) :
    advance buf n = .ok (buf.drop n) := sliceFrom_ok _ _ h

@[simp] theorem advance_cons_one (b : UInt8) (tl : Bytes) : advance (b :: tl) 1 = .ok tl := by
  rw [advance_ok _ _ (by simp)]; rfl

/-- `static_left_pad` without the checked index. -/
theorem staticLeftPad_eq (n : Nat) (data : Bytes) :
    staticLeftPad n data =
      if data.length > n then .err .overflow else
      match data with
      | [] => .ok 0
      | d :: _ => if d = 0 then .err .leadingZero else .ok (beNat data) := by
  unfold staticLeftPad
  cases data with
  | nil => simp
  | cons d tl => simp [index]

theorem staticLeftPad_ne_panic (n : Nat) (data : Bytes) : staticLeftPad n data ≠ .panic := by
  rw [staticLeftPad_eq]
  split
  · simp
  · split
    · simp
    · split <;> simp

theorem staticLeftPad_beMin (k x : Nat) (h : x < 256 ^ k) : staticLeftPad k (beMin x) = .ok x := by
  rw [staticLeftPad_eq, if_neg (by have := beMin_length_le k x h; omega)]
  by_cases h0 : x = 0
  · subst h0; rw [beMin_zero]
  · obtain ⟨d, tl, he, hd⟩ := beMin_head x (by omega)
    have := beNat_beMin x
    rw [he] at this ⊢
    simp [hd, this]

/-- A value accepted by `static_left_pad::<k>` is below `256^k`. -/
theorem staticLeftPad_lt (k : Nat) (data : Bytes) (v : Nat) (h : staticLeftPad k data = .ok v) :
    v < 256 ^ k := by
  rw [staticLeftPad_eq] at h
  by_cases hl : data.length > k
  · rw [if_pos hl] at h; simp at h
  · rw [if_neg hl] at h
    cases data with
    | nil =>
      simp at h; subst h; exact Nat.pow_pos (by omega)
    | cons d tl =>
      simp only at h
      by_cases hd : d = 0
      · rw [if_pos hd] at h; simp at h
      · rw [if_neg hd] at h
        simp only [Res.ok.injEq] at h
        subst h
        have h1 := beNat_lt (d :: tl)
        have h2 : 256 ^ (d :: tl).length ≤ 256 ^ k := Nat.pow_le_pow_right (by omega) (by omega)
        omega

theorem Header.finish_ne_panic (h : Header) (buf : Bytes) : Header.finish h buf ≠ .panic := by
  unfold Header.finish; split <;> simp

theorem Header.finish_ok (h : Header) (buf : Bytes) (hfit : h.len ≤ buf.length) :
    Header.finish h buf = .ok (h, buf) := by
  unfold Header.finish; rw [if_neg (by omega)]

theorem Header.finish_inv (h : Header) (buf : Bytes) (x : Header × Bytes)
    (hx : Header.finish h buf = .ok x) : x = (h, buf) ∧ h.len ≤ buf.length := by
  unfold Header.finish at hx
  by_cases hl : buf.length < h.len
  · rw [if_pos hl] at hx; simp at hx
  · rw [if_neg hl] at hx
    simp only [Res.ok.injEq] at hx
    exact ⟨hx.symm, by omega⟩

/-! ### `Header::decode` without checked slices -/

/-- The long-form branch of `Header::decode`. -/
def longHeader (n : Nat) (tl : Bytes) : Res Err (Header × Bytes) :=
  let lenOfLen := n - (if 0xF8 ≤ n then 0xF7 else 0xB7)
  if tl.length < lenOfLen then .err .inputTooShort else
  match staticLeftPad 8 (tl.take lenOfLen) with
  | .ok pl => if pl < 56 then .err .nonCanonicalSize
              else Header.finish ⟨decide (0xF8 ≤ n), pl⟩ (tl.drop lenOfLen)
  | .err e => .err e
  | .panic => .panic

/-- The single-byte-string branch (`0x81`). -/
def oneHeader (tl : Bytes) : Res Err (Header × Bytes) :=
  match tl with
  | [] => .err .inputTooShort
  | nb :: _ => if nb.toNat < 0x80 then .err .nonCanonicalSingleByte else Header.finish ⟨false, 1⟩ tl

theorem Header.decode_nil : Header.decode [] = .err .inputTooShort := rfl

theorem Header.decode_cons (b : UInt8) (tl : Bytes) :
    Header.decode (b :: tl) =
      if b.toNat < 0x80 then Header.finish ⟨false, 1⟩ (b :: tl)
      else if b.toNat ≤ 0xB7 then
        (if b.toNat - 0x80 = 1 then oneHeader tl else Header.finish ⟨false, b.toNat - 0x80⟩ tl)
      else if b.toNat ≤ 0xBF ∨ 0xF8 ≤ b.toNat then longHeader b.toNat tl
      else Header.finish ⟨true, b.toNat - 0xC0⟩ tl := by
  unfold Header.decode
  simp only [getNextByte_cons, Res.ok_bind, advance_cons_one]
  by_cases h1 : b.toNat < 0x80
  · rw [if_pos h1, if_pos h1]
  · rw [if_neg h1, if_neg h1]
    by_cases h2 : b.toNat ≤ 0xB7
    · rw [if_pos h2, if_pos h2]
      by_cases h3 : b.toNat - 0x80 = 1
      · rw [if_pos h3, if_pos h3]
        cases tl with
        | nil => rfl
        | cons nb tl' =>
          simp only [getNextByte_cons, Res.ok_bind, oneHeader, h3]
      · rw [if_neg h3, if_neg h3]
    · rw [if_neg h2, if_neg h2]
      by_cases h3 : b.toNat ≤ 0xBF ∨ 0xF8 ≤ b.toNat
      · rw [if_pos h3, if_pos h3]
        unfold longHeader
        simp only []
        have hcode : (if decide (0xF8 ≤ b.toNat) = true then 0xF7 else 0xB7) =
            (if 0xF8 ≤ b.toNat then 0xF7 else 0xB7) := by
          by_cases h : 0xF8 ≤ b.toNat <;> simp [h]
        rw [hcode]
        generalize b.toNat - (if 0xF8 ≤ b.toNat then 0xF7 else 0xB7) = lol
        by_cases hl : tl.length < lol
        · rw [if_pos hl, if_pos hl]
        · rw [if_neg hl, if_neg hl]
          rw [slice_ok _ _ _ (by omega) (by omega), Res.ok_bind, advance_ok _ _ (by omega),
            Res.ok_bind]
          simp only [Nat.sub_zero, List.drop_zero]
          cases staticLeftPad 8 (List.take lol tl) with
          | ok pl => rfl
          | err e => rfl
          | panic => rfl
      · rw [if_neg h3, if_neg h3]

theorem oneHeader_ne_panic (tl : Bytes) : oneHeader tl ≠ .panic := by
  unfold oneHeader
  cases tl with
  | nil => simp
  | cons nb tl' =>
    simp only
    split
    · simp
    · exact Header.finish_ne_panic _ _

theorem longHeader_ne_panic (n : Nat) (tl : Bytes) : longHeader n tl ≠ .panic := by
  unfold longHeader
  simp only []
  generalize n - (if 0xF8 ≤ n then 0xF7 else 0xB7) = lol
  by_cases hl : tl.length < lol
  · rw [if_pos hl]; simp
  · rw [if_neg hl]
    have := staticLeftPad_ne_panic 8 (List.take lol tl)
    cases hs : staticLeftPad 8 (List.take lol tl) with
    | ok pl =>
      simp only
      split
      · simp
      · exact Header.finish_ne_panic _ _
    | err e => simp
    | panic => exact absurd hs this

/-- `Header::decode` never panics: the guards in front of the unchecked accesses suffice. -/
theorem Header.decode_ne_panic (buf : Bytes) : Header.decode buf ≠ .panic := by
  cases buf with
  | nil => rw [Header.decode_nil]; simp
  | cons b tl =>
    rw [Header.decode_cons]
    split
    · exact Header.finish_ne_panic _ _
    · split
      · split
        · exact oneHeader_ne_panic _
        · exact Header.finish_ne_panic _ _
      · split
        · exact longHeader_ne_panic _ _
        · exact Header.finish_ne_panic _ _

theorem oneHeader_inv (tl : Bytes) (x : Header × Bytes) (h : oneHeader tl = .ok x) :
    x = (⟨false, 1⟩, tl) ∧ 1 ≤ tl.length ∧ ∃ nb tl', tl = nb :: tl' ∧ 0x80 ≤ nb.toNat := by
  unfold oneHeader at h
  cases tl with
  | nil => simp at h
  | cons nb tl' =>
    simp only at h
    by_cases hn : nb.toNat < 0x80
    · rw [if_pos hn] at h; simp at h
    · rw [if_neg hn] at h
      obtain ⟨h1, h2⟩ := Header.finish_inv _ _ _ h
      exact ⟨h1, by simp, nb, tl', rfl, by omega⟩

theorem longHeader_inv (n : Nat) (tl : Bytes) (x : Header × Bytes) (h : longHeader n tl = .ok x) :
    let lol := n - (if 0xF8 ≤ n then 0xF7 else 0xB7)
    lol ≤ tl.length ∧ ∃ pl, staticLeftPad 8 (tl.take lol) = .ok pl ∧ 56 ≤ pl ∧
      x = (⟨decide (0xF8 ≤ n), pl⟩, tl.drop lol) ∧ pl ≤ (tl.drop lol).length := by
  unfold longHeader at h
  simp only [] at h ⊢
  generalize n - (if 0xF8 ≤ n then 0xF7 else 0xB7) = lol at h ⊢
  by_cases hl : tl.length < lol
  · rw [if_pos hl] at h; simp at h
  · rw [if_neg hl] at h
    refine ⟨by omega, ?_⟩
    cases hs : staticLeftPad 8 (List.take lol tl) with
    | ok pl =>
      rw [hs] at h
      simp only at h
      by_cases hp : pl < 56
      · rw [if_pos hp] at h; simp at h
      · rw [if_neg hp] at h
        obtain ⟨h1, h2⟩ := Header.finish_inv _ _ _ h
        exact ⟨pl, rfl, by omega, h1, h2⟩
    | err e => rw [hs] at h; simp at h
    | panic => rw [hs] at h; simp at h

/-- What an accepted header looks like: the rest is a suffix of the buffer, the payload fits,
and header plus payload are not empty. -/
theorem Header.decode_spec (buf : Bytes) (h : Header) (rest : Bytes)
    (hd : Header.decode buf = .ok (h, rest)) :
    h.len ≤ rest.length ∧ ∃ k, rest = buf.drop k ∧ k ≤ buf.length ∧ 0 < k + h.len := by
  cases buf with
  | nil => rw [Header.decode_nil] at hd; simp at hd
  | cons b tl =>
    rw [Header.decode_cons] at hd
    by_cases h1 : b.toNat < 0x80
    · rw [if_pos h1] at hd
      obtain ⟨hx, hf⟩ := Header.finish_inv _ _ _ hd
      simp only [Prod.mk.injEq] at hx
      obtain ⟨rfl, rfl⟩ := hx
      exact ⟨hf, 0, rfl, by simp, by simp⟩
    · rw [if_neg h1] at hd
      by_cases h2 : b.toNat ≤ 0xB7
      · rw [if_pos h2] at hd
        by_cases h3 : b.toNat - 0x80 = 1
        · rw [if_pos h3] at hd
          obtain ⟨hx, hf, _⟩ := oneHeader_inv _ _ hd
          simp only [Prod.mk.injEq] at hx
          obtain ⟨rfl, rfl⟩ := hx
          exact ⟨hf, 1, rfl, by simp, by omega⟩
        · rw [if_neg h3] at hd
          obtain ⟨hx, hf⟩ := Header.finish_inv _ _ _ hd
          simp only [Prod.mk.injEq] at hx
          obtain ⟨rfl, rfl⟩ := hx
          exact ⟨hf, 1, rfl, by simp, by omega⟩
      · rw [if_neg h2] at hd
        by_cases h3 : b.toNat ≤ 0xBF ∨ 0xF8 ≤ b.toNat
        · rw [if_pos h3] at hd
          obtain ⟨hl, pl, _, _, hx, hf⟩ := longHeader_inv _ _ _ hd
          simp only [Prod.mk.injEq] at hx
          obtain ⟨rfl, rfl⟩ := hx
          refine ⟨hf, (b.toNat - if 0xF8 ≤ b.toNat then 0xF7 else 0xB7) + 1, rfl, ?_, by omega⟩
          simp only [List.length_cons]; omega
        · rw [if_neg h3] at hd
          obtain ⟨hx, hf⟩ := Header.finish_inv _ _ _ hd
          simp only [Prod.mk.injEq] at hx
          obtain ⟨rfl, rfl⟩ := hx
          exact ⟨hf, 1, rfl, by simp, by omega⟩

/-- A list header consumes at least one byte. -/
theorem Header.decode_list_consumes (buf : Bytes) (h : Header) (rest : Bytes)
    (hd : Header.decode buf = .ok (h, rest)) (hl : h.list = true) : rest.length < buf.length := by
  cases buf with
  | nil => rw [Header.decode_nil] at hd; simp at hd
  | cons b tl =>
    rw [Header.decode_cons] at hd
    by_cases h1 : b.toNat < 0x80
    · rw [if_pos h1] at hd
      obtain ⟨hx, hf⟩ := Header.finish_inv _ _ _ hd
      simp only [Prod.mk.injEq] at hx
      obtain ⟨rfl, rfl⟩ := hx
      simp at hl
    · obtain ⟨_, k, hk, hk2, _⟩ := Header.decode_spec _ _ _ (by rw [Header.decode_cons]; exact hd)
      rw [if_neg h1] at hd
      by_cases h2 : b.toNat ≤ 0xB7
      · rw [if_pos h2] at hd
        by_cases h3 : b.toNat - 0x80 = 1
        · rw [if_pos h3] at hd
          obtain ⟨hx, _⟩ := oneHeader_inv _ _ hd
          simp only [Prod.mk.injEq] at hx
          obtain ⟨rfl, rfl⟩ := hx
          simp
        · rw [if_neg h3] at hd
          obtain ⟨hx, _⟩ := Header.finish_inv _ _ _ hd
          simp only [Prod.mk.injEq] at hx
          obtain ⟨rfl, rfl⟩ := hx
          simp
      · rw [if_neg h2] at hd
        by_cases h3 : b.toNat ≤ 0xBF ∨ 0xF8 ≤ b.toNat
        · rw [if_pos h3] at hd
          obtain ⟨_, pl, _, _, hx, _⟩ := longHeader_inv _ _ _ hd
          simp only [Prod.mk.injEq] at hx
          obtain ⟨rfl, rfl⟩ := hx
          simp; omega
        · rw [if_neg h3] at hd
          obtain ⟨hx, _⟩ := Header.finish_inv _ _ _ hd
          simp only [Prod.mk.injEq] at hx
          obtain ⟨rfl, rfl⟩ := hx
          simp

/-- Appending bytes behind an accepted header does not change the header. -/
theorem Header.decode_append (buf t : Bytes) (h : Header) (rest : Bytes)
    (hd : Header.decode buf = .ok (h, rest)) :
    Header.decode (buf ++ t) = .ok (h, rest ++ t) := by
  cases buf with
  | nil => rw [Header.decode_nil] at hd; simp at hd
  | cons b tl =>
    rw [Header.decode_cons] at hd
    rw [List.cons_append, Header.decode_cons]
    by_cases h1 : b.toNat < 0x80
    · rw [if_pos h1] at hd ⊢
      obtain ⟨hx, hf⟩ := Header.finish_inv _ _ _ hd
      simp only [Prod.mk.injEq] at hx
      obtain ⟨rfl, rfl⟩ := hx
      rw [Header.finish_ok _ _ (by simp)]; rfl
    · rw [if_neg h1] at hd ⊢
      by_cases h2 : b.toNat ≤ 0xB7
      · rw [if_pos h2] at hd ⊢
        by_cases h3 : b.toNat - 0x80 = 1
        · rw [if_pos h3] at hd ⊢
          obtain ⟨hx, hf, nb, tl', rfl, hnb⟩ := oneHeader_inv _ _ hd
          simp only [Prod.mk.injEq] at hx
          obtain ⟨rfl, rfl⟩ := hx
          simp only [oneHeader, List.cons_append]
          rw [if_neg (by omega), Header.finish_ok _ _ (by simp)]
        · rw [if_neg h3] at hd ⊢
          obtain ⟨hx, hf⟩ := Header.finish_inv _ _ _ hd
          simp only [Prod.mk.injEq] at hx
          obtain ⟨rfl, rfl⟩ := hx
          dsimp only at hf
          rw [Header.finish_ok _ _ (by simp; omega)]
      · rw [if_neg h2] at hd ⊢
        by_cases h3 : b.toNat ≤ 0xBF ∨ 0xF8 ≤ b.toNat
        · rw [if_pos h3] at hd ⊢
          obtain ⟨hl, pl, hs, hp, hx, hf⟩ := longHeader_inv _ _ _ hd
          simp only [Prod.mk.injEq] at hx
          obtain ⟨rfl, rfl⟩ := hx
          unfold longHeader
          simp only []
          generalize b.toNat - (if 0xF8 ≤ b.toNat then 0xF7 else 0xB7) = lol at *
          rw [List.length_drop] at hf
          rw [if_neg (by simp; omega), List.take_append_of_le_length hl, hs]
          simp only
          rw [if_neg (by omega), List.drop_append_of_le_length hl,
            Header.finish_ok _ _ (by simp; omega)]
        · rw [if_neg h3] at hd ⊢
          obtain ⟨hx, hf⟩ := Header.finish_inv _ _ _ hd
          simp only [Prod.mk.injEq] at hx
          obtain ⟨rfl, rfl⟩ := hx
          dsimp only at hf
          rw [Header.finish_ok _ _ (by simp; omega)]

/-! ### `Header::encode` / `length_of_length` -/

theorem encodeHeader_length (list : Bool) (len : Nat) :
    (encodeHeader list len).length = lengthOfLength len := by
  unfold encodeHeader lengthOfLength
  split <;> simp <;> omega

theorem encodeHeader_ne_nil (list : Bool) (len : Nat) : encodeHeader list len ≠ [] := by
  unfold encodeHeader; split <;> simp

/-- `Header::decode` inverts `Header::encode` (for a single-byte string the byte that follows must
not be below `0x80`: such a byte is encoded without a header). -/
theorem Header.decode_encodeHeader (list : Bool) (len : Nat) (rest : Bytes) (hlen : len < 2 ^ 64)
    (hfit : len ≤ rest.length)
    (h1 : list = false → len = 1 → ∃ x tl, rest = x :: tl ∧ 0x80 ≤ x.toNat) :
    Header.decode (encodeHeader list len ++ rest) = .ok (⟨list, len⟩, rest) := by
  unfold encodeHeader
  by_cases hs : len < 56
  · rw [if_pos hs]
    simp only [List.singleton_append]
    rw [Header.decode_cons]
    cases list with
    | true =>
      have hb : (UInt8.ofNat ((if true = true then 0xC0 else 0x80) + len)).toNat = 0xC0 + len := by
        simp only [if_true]; rw [ofNat_toNat_of_lt _ (by omega)]
      rw [hb, if_neg (by omega), if_neg (by omega), if_neg (by omega),
        show 0xC0 + len - 0xC0 = len by omega, Header.finish_ok _ _ hfit]
    | false =>
      have hb : (UInt8.ofNat ((if false = true then 0xC0 else 0x80) + len)).toNat = 0x80 + len := by
        simp only [Bool.false_eq_true, if_false]; rw [ofNat_toNat_of_lt _ (by omega)]
      rw [hb, if_neg (by omega), if_pos (by omega), show 0x80 + len - 0x80 = len by omega]
      by_cases hone : len = 1
      · rw [if_pos hone]
        obtain ⟨x, tl, rfl, hx⟩ := h1 rfl hone
        simp only [oneHeader]
        rw [if_neg (by omega), hone, Header.finish_ok _ _ (by simp)]
      · rw [if_neg hone, Header.finish_ok _ _ hfit]
  · rw [if_neg hs]
    simp only [List.cons_append]
    rw [Header.decode_cons]
    have hk1 : 0 < (beMin len).length := beMin_length_pos len (by omega)
    have hk8 : (beMin len).length ≤ 8 := beMin_length_le 8 len (by simpa using hlen)
    have hpad : staticLeftPad 8 (beMin len) = .ok len := staticLeftPad_beMin 8 len (by simpa using hlen)
    cases list with
    | true =>
      have hb : (UInt8.ofNat ((if true = true then 0xF7 else 0xB7) + (beMin len).length)).toNat =
          0xF7 + (beMin len).length := by
        simp only [if_true]; rw [ofNat_toNat_of_lt _ (by omega)]
      rw [hb, if_neg (by omega), if_neg (by omega), if_pos (by omega)]
      unfold longHeader
      simp only []
      have hif : (if 0xF8 ≤ 0xF7 + (beMin len).length then 0xF7 else 0xB7) = 0xF7 :=
        if_pos (by omega)
      have hdec : decide (0xF8 ≤ 0xF7 + (beMin len).length) = true := by simp; omega
      rw [hif, hdec, show 0xF7 + (beMin len).length - 0xF7 = (beMin len).length by omega,
        if_neg (by simp), List.take_left' rfl, hpad]
      simp only
      rw [if_neg hs, List.drop_left' rfl, Header.finish_ok _ _ hfit]
    | false =>
      have hb : (UInt8.ofNat ((if false = true then 0xF7 else 0xB7) + (beMin len).length)).toNat =
          0xB7 + (beMin len).length := by
        simp only [Bool.false_eq_true, if_false]; rw [ofNat_toNat_of_lt _ (by omega)]
      rw [hb, if_neg (by omega), if_neg (by omega), if_pos (by omega)]
      unfold longHeader
      simp only []
      have hif : (if 0xF8 ≤ 0xB7 + (beMin len).length then 0xF7 else 0xB7) = 0xB7 :=
        if_neg (by omega)
      have hdec : decide (0xF8 ≤ 0xB7 + (beMin len).length) = false := by simp; omega
      rw [hif, hdec, show 0xB7 + (beMin len).length - 0xB7 = (beMin len).length by omega,
        if_neg (by simp), List.take_left' rfl, hpad]
      simp only
      rw [if_neg hs, List.drop_left' rfl, Header.finish_ok _ _ hfit]

/-! ### byte strings -/

theorem decodeBytes_ne_panic (buf : Bytes) (isList : Bool) : decodeBytes buf isList ≠ .panic := by
  unfold decodeBytes
  apply Res.bind_ne_panic (Header.decode_ne_panic buf)
  rintro ⟨h, rest⟩ hd
  obtain ⟨hfit, _⟩ := Header.decode_spec _ _ _ hd
  simp only
  split
  · simp
  · rw [slice_ok _ _ _ (by omega) hfit, Res.ok_bind, advance_ok _ _ hfit, Res.ok_bind]
    simp

/-- `decode_bytes` without the checked slices. -/
theorem decodeBytes_inv (buf : Bytes) (isList : Bool) (bytes rest : Bytes)
    (hd : decodeBytes buf isList = .ok (bytes, rest)) :
    ∃ h r, Header.decode buf = .ok (h, r) ∧ h.list = isList ∧ h.len ≤ r.length ∧
      bytes = r.take h.len ∧ rest = r.drop h.len := by
  unfold decodeBytes at hd
  obtain ⟨⟨h, r⟩, hh, hd⟩ := Res.bind_eq_ok.mp hd
  obtain ⟨hfit, _⟩ := Header.decode_spec _ _ _ hh
  simp only at hd
  by_cases hl : h.list ≠ isList
  · rw [if_pos hl] at hd; simp at hd
  · rw [if_neg hl] at hd
    rw [slice_ok _ _ _ (by omega) hfit, Res.ok_bind, advance_ok _ _ hfit, Res.ok_bind] at hd
    simp only [Nat.sub_zero, List.drop_zero, Res.ok.injEq, Prod.mk.injEq] at hd
    exact ⟨h, r, hh, by simpa using hl, hfit, hd.1.symm, hd.2.symm⟩

theorem decodeBytes_of_header (buf : Bytes) (isList : Bool) (h : Header) (r : Bytes)
    (hh : Header.decode buf = .ok (h, r)) (hl : h.list = isList) :
    decodeBytes buf isList = .ok (r.take h.len, r.drop h.len) := by
  obtain ⟨hfit, _⟩ := Header.decode_spec _ _ _ hh
  unfold decodeBytes
  rw [hh, Res.ok_bind]
  simp only
  rw [if_neg (by simp [hl]), slice_ok _ _ _ (by omega) hfit, Res.ok_bind, advance_ok _ _ hfit,
    Res.ok_bind]
  simp

/-- Every decoded item consumes at least one byte (termination of the item loops). -/
theorem decodeBytes_consumes (buf : Bytes) (isList : Bool) (bytes rest : Bytes)
    (hd : decodeBytes buf isList = .ok (bytes, rest)) : rest.length < buf.length := by
  obtain ⟨h, r, hh, _, hfit, _, rfl⟩ := decodeBytes_inv _ _ _ _ hd
  obtain ⟨_, k, rfl, hk, hpos⟩ := Header.decode_spec _ _ _ hh
  simp only [List.length_drop] at hfit ⊢
  omega

theorem decodeBytes_append (buf t : Bytes) (isList : Bool) (bytes rest : Bytes)
    (hd : decodeBytes buf isList = .ok (bytes, rest)) :
    decodeBytes (buf ++ t) isList = .ok (bytes, rest ++ t) := by
  obtain ⟨h, r, hh, hl, hfit, rfl, rfl⟩ := decodeBytes_inv _ _ _ _ hd
  rw [decodeBytes_of_header _ _ _ _ (Header.decode_append _ t _ _ hh) hl,
    List.take_append_of_le_length hfit, List.drop_append_of_le_length hfit]

theorem encodeBytes_length_pos (b : Bytes) : 0 < (encodeBytes b).length := by
  unfold encodeBytes
  split
  · split <;> simp
  · have := encodeHeader_ne_nil false b.length
    have := List.length_pos_iff.mpr this
    simp; omega

theorem encodeBytes_length_ge (b : Bytes) : b.length ≤ (encodeBytes b).length := by
  unfold encodeBytes
  split
  · split <;> simp
  · simp

/-- The encoding of a byte string: a single byte below `0x80` is its own encoding, everything
else is `header(len) ‖ bytes`. -/
theorem encodeBytes_eq (b : Bytes) :
    encodeBytes b =
      if b.length = 1 ∧ (∀ x ∈ b, x.toNat < 0x80) then b else encodeHeader false b.length ++ b := by
  unfold encodeBytes
  split
  · rename_i x
    by_cases hx : x.toNat ≥ 0x80
    · rw [if_pos hx, if_neg (by simp; omega)]; rfl
    · rw [if_neg hx, if_pos (by simp; omega)]
  · rename_i hne
    rw [if_neg]
    rintro ⟨h1, _⟩
    match b, h1 with
    | [x], _ => exact hne x rfl

theorem decodeBytes_encodeBytes (b rest : Bytes) (hlen : b.length < 2 ^ 64) :
    decodeBytes (encodeBytes b ++ rest) false = .ok (b, rest) := by
  rw [encodeBytes_eq]
  by_cases h1 : b.length = 1 ∧ (∀ x ∈ b, x.toNat < 0x80)
  · rw [if_pos h1]
    obtain ⟨hl, hx⟩ := h1
    match b, hl with
    | [x], _ =>
      have hx : x.toNat < 0x80 := hx x (by simp)
      have : Header.decode ([x] ++ rest) = .ok (⟨false, 1⟩, x :: rest) := by
        simp only [List.singleton_append]
        rw [Header.decode_cons, if_pos hx, Header.finish_ok _ _ (by simp)]
      rw [decodeBytes_of_header _ _ _ _ this rfl]
      simp
  · rw [if_neg h1, List.append_assoc]
    have : Header.decode (encodeHeader false b.length ++ (b ++ rest)) =
        .ok (⟨false, b.length⟩, b ++ rest) := by
      apply Header.decode_encodeHeader _ _ _ hlen (by simp)
      intro _ hl
      match b, hl with
      | [x], _ =>
        refine ⟨x, rest, rfl, ?_⟩
        by_cases hx : 0x80 ≤ x.toNat
        · exact hx
        · exact absurd ⟨rfl, by simp; omega⟩ h1
    rw [decodeBytes_of_header _ _ _ _ this rfl]
    simp

/-- A list item `header(len) ‖ payload`. -/
theorem decodeBytes_list (payload rest : Bytes) (hlen : payload.length < 2 ^ 64) :
    decodeBytes (encodeHeader true payload.length ++ payload ++ rest) true = .ok (payload, rest) := by
  rw [List.append_assoc]
  have : Header.decode (encodeHeader true payload.length ++ (payload ++ rest)) =
      .ok (⟨true, payload.length⟩, payload ++ rest) :=
    Header.decode_encodeHeader _ _ _ hlen (by simp) (by simp)
  rw [decodeBytes_of_header _ _ _ _ this rfl]
  simp

/-! ### integers -/

theorem decodeUint_ne_panic (n : Nat) (buf : Bytes) : decodeUint n buf ≠ .panic := by
  unfold decodeUint
  apply Res.bind_ne_panic (decodeBytes_ne_panic buf false)
  rintro ⟨b, rest⟩ _
  simp only
  apply Res.bind_ne_panic (staticLeftPad_ne_panic n b)
  intro v _
  simp

theorem decodeUint_inv (n : Nat) (buf : Bytes) (v : Nat) (rest : Bytes)
    (hd : decodeUint n buf = .ok (v, rest)) :
    ∃ b, decodeBytes buf false = .ok (b, rest) ∧ staticLeftPad n b = .ok v := by
  unfold decodeUint at hd
  obtain ⟨⟨b, r⟩, hb, hd⟩ := Res.bind_eq_ok.mp hd
  simp only at hd
  obtain ⟨v', hv, hd⟩ := Res.bind_eq_ok.mp hd
  simp only [Res.ok.injEq, Prod.mk.injEq] at hd
  obtain ⟨rfl, rfl⟩ := hd
  exact ⟨b, hb, hv⟩

theorem decodeUint_consumes (n : Nat) (buf : Bytes) (v : Nat) (rest : Bytes)
    (hd : decodeUint n buf = .ok (v, rest)) : rest.length < buf.length := by
  obtain ⟨b, hb, _⟩ := decodeUint_inv _ _ _ _ hd
  exact decodeBytes_consumes _ _ _ _ hb

theorem decodeUint_lt (n : Nat) (buf : Bytes) (v : Nat) (rest : Bytes)
    (hd : decodeUint n buf = .ok (v, rest)) : v < 256 ^ n := by
  obtain ⟨b, _, hv⟩ := decodeUint_inv _ _ _ _ hd
  exact staticLeftPad_lt _ _ _ hv

/-- Integers are encoded as the byte string of their minimal big-endian representation. -/
theorem encodeUint_eq (x : Nat) (hx : x < 2 ^ 64) : encodeUint x = encodeBytes (beMin x) := by
  unfold encodeUint
  by_cases h0 : x = 0
  · subst h0; rw [if_pos rfl, beMin_zero]; rfl
  · rw [if_neg h0]
    by_cases h1 : x < 0x80
    · rw [if_pos h1, beMin_lt_256 x (by omega) (by omega)]
      unfold encodeBytes
      simp only
      rw [if_neg (by rw [ofNat_toNat_of_lt x (by omega)]; omega)]
    · rw [if_neg h1]
      simp only []
      have hk8 : (beMin x).length ≤ 8 := beMin_length_le 8 x (by simpa using hx)
      by_cases h2 : x < 256
      · rw [beMin_lt_256 x (by omega) h2]
        unfold encodeBytes
        simp only
        rw [if_pos (by rw [ofNat_toNat_of_lt x h2]; omega)]
        rfl
      · have h2' := beMin_length_ge_two x (by omega)
        rw [encodeBytes_eq, if_neg (by omega)]
        unfold encodeHeader
        rw [if_pos (by omega)]
        rfl

theorem decodeUint_encodeUint (n x : Nat) (rest : Bytes) (hn : n ≤ 8) (hx : x < 256 ^ n) :
    decodeUint n (encodeUint x ++ rest) = .ok (x, rest) := by
  have hx64 : x < 2 ^ 64 := by
    have : 256 ^ n ≤ 256 ^ 8 := Nat.pow_le_pow_right (by omega) hn
    have : (256 : Nat) ^ 8 = 2 ^ 64 := by decide
    omega
  have hk8 : (beMin x).length ≤ 8 := beMin_length_le 8 x (by simpa using hx64)
  unfold decodeUint
  rw [encodeUint_eq x hx64, decodeBytes_encodeBytes _ _ (by omega), Res.ok_bind]
  simp only
  rw [staticLeftPad_beMin n x hx, Res.ok_bind]

theorem uintLength_eq (x : Nat) : uintLength x = (encodeUint x).length := by
  unfold uintLength encodeUint
  by_cases h0 : x = 0
  · subst h0; simp
  · by_cases h1 : x < 0x80
    · rw [if_pos h1, if_neg h0, if_pos h1]; rfl
    · rw [if_neg h1, if_neg h0, if_neg h1]; simp; omega

theorem encodeUint_ne_nil (x : Nat) : encodeUint x ≠ [] := by
  unfold encodeUint
  split
  · simp
  · split <;> simp

/-! ### lists of integers -/

theorem decodeU64Items_ne_panic (fuel : Nat) (payload : Bytes) (h : payload.length ≤ fuel) :
    decodeU64Items fuel payload ≠ .panic := by
  induction fuel generalizing payload with
  | zero =>
    have : payload = [] := List.length_eq_zero_iff.mp (by omega)
    subst this
    unfold decodeU64Items; simp
  | succ fuel ih =>
    unfold decodeU64Items
    by_cases he : payload.isEmpty
    · rw [if_pos he]; simp
    · rw [if_neg he]
      simp only
      apply Res.bind_ne_panic (decodeUint_ne_panic 8 payload)
      rintro ⟨v, rest⟩ hd
      have := decodeUint_consumes _ _ _ _ hd
      simp only
      apply Res.bind_ne_panic (ih rest (by omega))
      intro vs _
      simp

theorem decodeU64List_ne_panic (buf : Bytes) : decodeU64List buf ≠ .panic := by
  unfold decodeU64List
  apply Res.bind_ne_panic (decodeBytes_ne_panic buf true)
  rintro ⟨payload, rest⟩ _
  simp only
  apply Res.bind_ne_panic (decodeU64Items_ne_panic _ _ (Nat.le_refl _))
  intro vs _
  simp

theorem flatten_encodeUint_length (xs : List Nat) :
    ((xs.map encodeUint).flatten).length = (xs.map uintLength).sum := by
  induction xs with
  | nil => rfl
  | cons x xs ih => simp [uintLength_eq, ih]

theorem decodeU64Items_encode (xs : List Nat) (fuel : Nat) (hx : ∀ x ∈ xs, x < 2 ^ 64)
    (hf : ((xs.map encodeUint).flatten).length ≤ fuel) :
    decodeU64Items fuel ((xs.map encodeUint).flatten) = .ok xs := by
  induction xs generalizing fuel with
  | nil => unfold decodeU64Items; simp
  | cons x xs ih =>
    simp only [List.map_cons, List.flatten_cons] at hf ⊢
    have hne := encodeUint_ne_nil x
    have hpos : 0 < (encodeUint x).length := List.length_pos_iff.mpr hne
    cases fuel with
    | zero => simp only [List.length_append] at hf; omega
    | succ fuel =>
      unfold decodeU64Items
      rw [if_neg (by simp [hne])]
      simp only
      have hx0 : x < 256 ^ 8 := by
        have := hx x (by simp)
        have h2 : (256 : Nat) ^ 8 = 2 ^ 64 := by decide
        omega
      rw [show decodeU64 = decodeUint 8 from rfl, decodeUint_encodeUint 8 x _ (by omega) hx0,
        Res.ok_bind]
      simp only
      rw [ih fuel (fun y hy => hx y (by simp [hy])) (by simp only [List.length_append] at hf; omega), Res.ok_bind]

theorem decodeU64List_encode (xs : List Nat) (rest : Bytes) (hx : ∀ x ∈ xs, x < 2 ^ 64)
    (hlen : ((xs.map encodeUint).flatten).length < 2 ^ 64) :
    decodeU64List (encodeU64List xs ++ rest) = .ok (xs, rest) := by
  unfold decodeU64List encodeU64List
  rw [← flatten_encodeUint_length, decodeBytes_list _ _ hlen, Res.ok_bind]
  simp only
  rw [decodeU64Items_encode xs _ hx (Nat.le_refl _), Res.ok_bind]

theorem decodeU64Items_inv_lt (fuel : Nat) (payload : Bytes) (vs : List Nat)
    (h : decodeU64Items fuel payload = .ok vs) : ∀ v ∈ vs, v < 2 ^ 64 := by
  induction fuel generalizing payload vs with
  | zero =>
    unfold decodeU64Items at h
    by_cases he : payload.isEmpty
    · rw [if_pos he] at h; simp at h; subst h; simp
    · rw [if_neg he] at h; simp at h
  | succ fuel ih =>
    unfold decodeU64Items at h
    by_cases he : payload.isEmpty
    · rw [if_pos he] at h; simp at h; subst h; simp
    · rw [if_neg he] at h
      simp only at h
      obtain ⟨⟨v, rest⟩, hv, h⟩ := Res.bind_eq_ok.mp h
      simp only at h
      obtain ⟨vs', hvs, h⟩ := Res.bind_eq_ok.mp h
      simp only [Res.ok.injEq] at h
      subst h
      intro w hw
      simp only [List.mem_cons] at hw
      rcases hw with rfl | hw
      · have := decodeUint_lt _ _ _ _ hv
        have h2 : (256 : Nat) ^ 8 = 2 ^ 64 := by decide
        omega
      · exact ih _ _ hvs w hw

end Rlp
end Discv5

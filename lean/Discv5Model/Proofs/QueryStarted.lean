/-
Lemmas for the pool's `started` field (`Query::started` in `query_pool.rs`): it is written by the
first `poll` that visits the query and by nothing else.
-/
import Discv5Model.Proofs.QueryLemmas

namespace Discv5.Query

/-- Every query of the pool with id `i` has `started = some s`. -/
def StartedAt (p : Pool) (i s : Nat) : Prop := ∀ x ∈ p.queries, x.id = i → x.started = some s

theorem startedAt_replaceQ {qs : List PQ} {i s : Nat} (h : ∀ x ∈ qs, x.id = i → x.started = some s)
    (x' : PQ) (hx' : x'.id = i → x'.started = some s) :
    ∀ y ∈ replaceQ x' qs, y.id = i → y.started = some s := by
  intro y hy hyi
  rcases mem_replaceQ hy with rfl | hy'
  · exact hx' hyi
  · exact h y hy' hyi

/-- The loop of `poll` never changes a `started` that is already set. -/
theorem pollLoop_started (timeout now i s : Nat) : ∀ (order : List Nat) (qs : List PQ),
    (∀ x ∈ qs, x.id = i → x.started = some s) →
    ∀ y ∈ (pollLoop timeout now order qs).1, y.id = i → y.started = some s
  | [], qs, h => by simpa [pollLoop] using h
  | j :: rest, qs, h => by
    unfold pollLoop
    cases hfind : qs.find? (fun x => x.id == j) with
    | none => exact pollLoop_started timeout now i s rest qs h
    | some x =>
      obtain ⟨hx, hxj⟩ := find_id hfind
      have hrep : ∀ y ∈ replaceQ { x with q := (next x.q now).1, started := some (x.started.getD now) } qs,
          y.id = i → y.started = some s := by
        apply startedAt_replaceQ h
        intro hid
        have hxs : x.started = some s := h x hx hid
        show some (x.started.getD now) = some s
        rw [hxs]; rfl
      simp only
      cases hst : (next x.q now).2 with
      | finished => exact hrep
      | waitingAtCapacity =>
        simp only
        by_cases hto : now - x.started.getD now ≥ timeout
        · rw [if_pos hto]; exact hrep
        · rw [if_neg hto]; exact pollLoop_started timeout now i s rest _ hrep
      | waiting o =>
        cases o with
        | some k => exact hrep
        | none =>
          simp only
          by_cases hto : now - x.started.getD now ≥ timeout
          · rw [if_pos hto]; exact hrep
          · rw [if_neg hto]; exact pollLoop_started timeout now i s rest _ hrep

theorem mem_removeQ {i : Nat} {qs : List PQ} {y : PQ} (h : y ∈ removeQ i qs) : y ∈ qs := by
  unfold removeQ at h
  exact (List.mem_filter.mp h).1

/-- What `poll` leaves in the pool is what its loop left, minus at most the query handed back. -/
theorem poll_queries_sub (p : Pool) (now : Nat) (order : List Nat) :
    ∀ y ∈ (p.poll now order).1.queries, y ∈ (pollLoop p.timeout now order p.queries).1 := by
  intro y hy
  unfold Pool.poll at hy
  dsimp only at hy
  split at hy
  · exact hy
  · split at hy
    · exact mem_removeQ hy
    · exact hy
  · split at hy
    · exact mem_removeQ hy
    · exact hy
  · exact hy

theorem poll_started (p : Pool) (now : Nat) (order : List Nat) (i s : Nat) (h : StartedAt p i s) :
    StartedAt (p.poll now order).1 i s := by
  intro y hy
  exact pollLoop_started p.timeout now i s order p.queries h y (poll_queries_sub p now order y hy)

theorem onSuccess_started (p : Pool) (id peer : Nat) (closer : List (Nat × Bool)) (i s : Nat)
    (h : StartedAt p i s) : StartedAt (p.onSuccess id peer closer) i s := by
  unfold Pool.onSuccess
  cases hg : p.get id with
  | none => exact h
  | some x =>
    obtain ⟨hx, _⟩ := find_id hg
    exact startedAt_replaceQ h _ (fun hid => h x hx hid)

theorem onFailure_started (p : Pool) (id peer : Nat) (i s : Nat)
    (h : StartedAt p i s) : StartedAt (p.onFailure id peer) i s := by
  unfold Pool.onFailure
  cases hg : p.get id with
  | none => exact h
  | some x =>
    obtain ⟨hx, _⟩ := find_id hg
    exact startedAt_replaceQ h _ (fun hid => h x hx hid)

/-- A new query gets a fresh id (`i < nextId` rules out that it takes over `i`). -/
theorem add_started (p : Pool) (q : Q) (i s : Nat) (hi : i < p.nextId) (h : StartedAt p i s) :
    StartedAt (p.add q).1 i s := by
  intro y hy hyi
  have hy' : y ∈ (⟨p.nextId, q, none⟩ : PQ) :: p.queries.filter (fun x => x.id != p.nextId) := hy
  rcases List.mem_cons.mp hy' with rfl | hy''
  · exfalso
    have : p.nextId = i := hyi
    omega
  · exact h y (List.mem_filter.mp hy'').1 hyi

theorem stepP_started (p : Pool) (ev : PEv) (i s : Nat) (hi : i < p.nextId) (h : StartedAt p i s) :
    StartedAt (stepP p ev).1 i s := by
  cases ev with
  | add v cfg t known => exact add_started p _ i s hi h
  | poll now order => exact poll_started p now order i s h
  | success id peer closer => exact onSuccess_started p id peer closer i s h
  | failure id peer => exact onFailure_started p id peer i s h

theorem stepP_timeout (p : Pool) (ev : PEv) : (stepP p ev).1.timeout = p.timeout := by
  cases ev with
  | add v cfg t known => rfl
  | poll now order =>
    show (p.poll now order).1.timeout = p.timeout
    unfold Pool.poll
    dsimp only
    split
    · rfl
    · split <;> rfl
    · split <;> rfl
    · rfl
  | success id peer closer =>
    show (p.onSuccess id peer closer).timeout = p.timeout
    unfold Pool.onSuccess; cases p.get id <;> rfl
  | failure id peer =>
    show (p.onFailure id peer).timeout = p.timeout
    unfold Pool.onFailure; cases p.get id <;> rfl

theorem runP_timeout : ∀ (evs : List PEv) (p : Pool), (runP p evs).timeout = p.timeout
  | [], _ => rfl
  | ev :: evs, p => by
    show (runP (stepP p ev).1 evs).timeout = p.timeout
    rw [runP_timeout evs, stepP_timeout]

/-- `started`, once set, survives every history of pool calls. -/
theorem runP_started : ∀ (evs : List PEv) (p : Pool), PoolInv p → NoWrap p evs → ∀ (i s : Nat),
    i < p.nextId → StartedAt p i s → StartedAt (runP p evs) i s
  | [], _, _, _, _, _, _, h => h
  | ev :: evs, p, hp, hw, i, s, hi, h => by
    have hsp := stepP_spec hp ev (noWrap_head hw)
    have hi' : i < (stepP p ev).1.nextId := by rw [hsp.2.1]; omega
    exact runP_started evs _ hsp.1 (noWrap_tail hp hw) i s hi' (stepP_started p ev i s hi h)

theorem eq_of_nodup_ids : ∀ {qs : List PQ}, (qs.map (·.id)).Nodup → ∀ {a b : PQ}, a ∈ qs → b ∈ qs →
    a.id = b.id → a = b
  | [], _, _, _, ha, _, _ => by cases ha
  | z :: zs, h, a, b, ha, hb, hab => by
    rw [List.map_cons, List.nodup_cons] at h
    rcases List.mem_cons.mp ha with rfl | ha' <;> rcases List.mem_cons.mp hb with rfl | hb'
    · rfl
    · exact absurd (List.mem_map.mpr ⟨b, hb', hab.symm⟩) h.1
    · exact absurd (List.mem_map.mpr ⟨a, ha', hab⟩) h.1
    · exact eq_of_nodup_ids h.2 ha' hb' hab

/-- The first `poll` that visits a query stamps it with that poll's time. -/
theorem poll_first_visit (p : Pool) (hp : PoolInv p) (now i : Nat) (rest : List Nat) (x : PQ)
    (hx : p.get i = some x) (hs : x.started = none) :
    StartedAt (p.poll now (i :: rest)).1 i now := by
  -- after visiting `i` the entry reads `some now`; the rest of the loop and the removal keep it
  have hfind : p.queries.find? (fun y => y.id == i) = some x := hx
  obtain ⟨hxm, hxi⟩ := find_id hfind
  have hnd : (p.queries.map (·.id)).Nodup := hp.nodup
  -- every entry with id `i` is `x` itself
  have huniq : ∀ y ∈ p.queries, y.id = i → y = x := by
    intro y hy hyi
    exact eq_of_nodup_ids hnd hy hxm (by rw [hyi, hxi])
  have hrep : ∀ q', ∀ y ∈ replaceQ ({ x with q := q', started := some (x.started.getD now) } : PQ) p.queries,
      y.id = i → y.started = some now := by
    intro q' y hy hyi
    rcases mem_replaceQ hy with rfl | hy'
    · show some (x.started.getD now) = some now
      rw [hs]; rfl
    · -- an untouched entry with id `i` would be `x`, which has been replaced
      exfalso
      unfold replaceQ at hy
      obtain ⟨z, hz, hzy⟩ := List.mem_map.mp hy
      by_cases hzi : z.id = x.id
      · rw [if_pos hzi] at hzy
        have : y.started = some (x.started.getD now) := by rw [← hzy]
        have hyx : y = x := huniq y hy' hyi
        rw [hyx, hs] at this
        cases this
      · rw [if_neg hzi] at hzy
        subst hzy
        exact hzi (by rw [hyi, hxi])
  have key : ∀ y ∈ (pollLoop p.timeout now (i :: rest) p.queries).1, y.id = i → y.started = some now := by
    unfold pollLoop
    rw [hfind]
    simp only
    cases hst : (next x.q now).2 with
    | finished => exact hrep _
    | waitingAtCapacity =>
      simp only
      by_cases hto : now - x.started.getD now ≥ p.timeout
      · rw [if_pos hto]; exact hrep _
      · rw [if_neg hto]; exact pollLoop_started p.timeout now i now rest _ (hrep _)
    | waiting o =>
      cases o with
      | some k => exact hrep _
      | none =>
        simp only
        by_cases hto : now - x.started.getD now ≥ p.timeout
        · rw [if_pos hto]; exact hrep _
        · rw [if_neg hto]; exact pollLoop_started p.timeout now i now rest _ (hrep _)
  intro y hy
  exact key y (poll_queries_sub p now (i :: rest) y hy)

end Discv5.Query

/- Helper lemmas about `Bytes`, `slice`, big-endian encodings and keystream xor. -/
import Discv5Model.Model.Bytes
namespace Discv5

@[simp] theorem xorStream_length (ks : Nat → UInt8) (off : Nat) (bs : Bytes) :
    (xorStream ks off bs).length = bs.length := by
  induction bs generalizing off with
  | nil => rfl
  | cons b bs ih => simp [xorStream, ih]

theorem xorStream_append (ks : Nat → UInt8) (off : Nat) (a b : Bytes) :
    xorStream ks off (a ++ b) = xorStream ks off a ++ xorStream ks (off + a.length) b := by
  induction a generalizing off with
  | nil => simp [xorStream]
  | cons x xs ih =>
    simp only [List.cons_append, xorStream, ih, List.length_cons]
    rw [show off + 1 + xs.length = off + (xs.length + 1) by omega]

@[simp] theorem xorStream_involutive (ks : Nat → UInt8) (off : Nat) (bs : Bytes) :
    xorStream ks off (xorStream ks off bs) = bs := by
  induction bs generalizing off with
  | nil => rfl
  | cons b bs ih => simp [xorStream, ih, UInt8.xor_assoc]

theorem xorStream_getElem? (ks : Nat → UInt8) (off : Nat) (bs : Bytes) (i : Nat) :
    (xorStream ks off bs)[i]? = bs[i]?.map (· ^^^ ks (off + i)) := by
  induction bs generalizing off i with
  | nil => simp [xorStream]
  | cons b bs ih =>
    cases i with
    | zero => simp [xorStream]
    | succ i =>
      simp only [xorStream, List.getElem?_cons_succ, ih]
      congr 2
      funext x; congr 2; omega

@[simp] theorem beBytes_length (k n : Nat) : (beBytes k n).length = k := by
  induction k generalizing n with
  | zero => rfl
  | succ k ih => simp [beBytes, ih]

theorem beNat_append_singleton (bs : Bytes) (b : UInt8) :
    beNat (bs ++ [b]) = beNat bs * 256 + b.toNat := by
  simp [beNat, List.foldl_append]

theorem beNat_beBytes (k n : Nat) (h : n < 256 ^ k) : beNat (beBytes k n) = n := by
  induction k generalizing n with
  | zero => simp at h; subst h; rfl
  | succ k ih =>
    have h1 : n / 256 < 256 ^ k := by
      rw [Nat.pow_succ] at h
      exact Nat.div_lt_of_lt_mul (by omega)
    rw [beBytes, beNat_append_singleton, ih _ h1]
    have : (UInt8.ofNat (n % 256)).toNat = n % 256 := by
      simp [UInt8.toNat_ofNat']
    rw [this]
    omega

theorem beNat_foldl_lt (bs : Bytes) (acc k : Nat) (h : acc < 256 ^ k) :
    bs.foldl (fun acc b => acc * 256 + b.toNat) acc < 256 ^ (k + bs.length) := by
  induction bs generalizing acc k with
  | nil => simpa using h
  | cons b bs ih =>
    simp only [List.foldl_cons, List.length_cons]
    have hb := b.toNat_lt
    have : acc * 256 + b.toNat < 256 ^ (k + 1) := by rw [Nat.pow_succ]; omega
    have := ih _ _ this
    rwa [show k + 1 + bs.length = k + (bs.length + 1) by omega] at this

theorem beNat_lt (bs : Bytes) : beNat bs < 256 ^ bs.length := by
  have := beNat_foldl_lt bs 0 0 (by simp)
  simpa [beNat] using this

theorem slice_ok {ε α} (l : List α) (a b : Nat) (h1 : a ≤ b) (h2 : b ≤ l.length) :
    (slice l a b : Res ε _) = .ok ((l.drop a).take (b - a)) := by
  simp [slice, h1, h2]

theorem sliceFrom_ok {ε α} (l : List α) (a : Nat) (h : a ≤ l.length) :
    (sliceFrom l a : Res ε _) = .ok (l.drop a) := by
  simp [sliceFrom, h]

theorem index_ok {ε α} (l : List α) (i : Nat) (h : i < l.length) :
    (index l i : Res ε _) = .ok l[i] := by
  simp [index, h]

theorem slice_ne_panic {ε α} (l : List α) (a b : Nat) (h1 : a ≤ b) (h2 : b ≤ l.length) :
    (slice l a b : Res ε _) ≠ .panic := by
  rw [slice_ok l a b h1 h2]; exact fun h => nomatch h

theorem xor_cancel_mid (a k k' : UInt8) (h : (a ^^^ k) ^^^ k' = a) : k' = k := by
  have : ((a ^^^ k) ^^^ k') ^^^ (a ^^^ k') = a ^^^ (a ^^^ k') := by rw [h]
  have e1 : ((a ^^^ k) ^^^ k') ^^^ (a ^^^ k') = k := by
    rw [UInt8.xor_assoc a k k', UInt8.xor_comm k k', ← UInt8.xor_assoc a k' k,
      UInt8.xor_comm (a ^^^ k') k, UInt8.xor_assoc k, UInt8.xor_self, UInt8.xor_zero]
  have e2 : a ^^^ (a ^^^ k') = k' := by
    rw [← UInt8.xor_assoc, UInt8.xor_self, UInt8.zero_xor]
  rw [e1, e2] at this
  exact this.symm


end Discv5

/- C16 helper lemmas, part 3: counting over the whole table. -/
import Discv5Model.Proofs.IpFilterBucket
namespace Discv5.KB.Ip

/-! ## table-level counting -/

def TW (p : KV) (t : Table Val) : Nat := (t.buckets.map (A p)).sum

def Good (keyOf : Val → Nat) (b : Bucket Val) : Prop := UB b ∧ VB keyOf b ∧ NB b

theorem A_empty (p : KV) : A p ({} : Bucket Val) = 0 := rfl

theorem sum_map_set {α} (f : α → Nat) (l : List α) (i : Nat) (x d : α) (hi : i < l.length) :
    ((l.set i x).map f).sum + f (l.getD i d) = (l.map f).sum + f x := by
  induction l generalizing i with
  | nil => simp at hi
  | cons y l ih =>
    cases i with
    | zero => simp; omega
    | succ i =>
      have := ih i (by simpa using hi)
      simp at this ⊢; omega

theorem sum_map_zero {α} (f : α → Nat) (l : List α) (h : ∀ x ∈ l, f x = 0) : (l.map f).sum = 0 := by
  induction l with
  | nil => rfl
  | cons y l ih =>
    simp [h y (by simp), ih (fun x hx => h x (by simp [hx]))]

theorem sum_map_single {α} (f : α → Nat) (l : List α) (j : Nat) (d : α)
    (h : ∀ i, i < l.length → i ≠ j → f (l.getD i d) = 0) : (l.map f).sum ≤ f (l.getD j d) := by
  induction l generalizing j with
  | nil => simp
  | cons y l ih =>
    cases j with
    | zero =>
      have : (l.map f).sum = 0 := by
        apply sum_map_zero
        intro x hx
        obtain ⟨i, hi, rfl⟩ := List.getElem_of_mem hx
        have := h (i + 1) (by simpa using hi) (by omega)
        simpa [hi] using this
      simp [this]
    | succ j =>
      have h0 := h 0 (by simp) (by omega)
      have := ih j (fun i hi hne => by
        have := h (i + 1) (by simpa using hi) (by omega)
        simpa using this)
      simp at h0 this ⊢; omega

theorem TW_set (p : KV) (t : Table Val) (i : Nat) (b' : Bucket Val) (hi : i < t.buckets.length) :
    TW p (t.setBucket i b') + A p (t.bucket i) = TW p t + A p b' :=
  sum_map_set (A p) t.buckets i b' {} hi

theorem setBucket_bucket_self (t : Table Val) (i : Nat) (b' : Bucket Val) (hi : i < t.buckets.length) :
    (t.setBucket i b').bucket i = b' := by
  simp [Table.setBucket, Table.bucket, hi]

theorem setBucket_bucket_ne (t : Table Val) (i j : Nat) (b' : Bucket Val) (hij : j ≠ i) :
    (t.setBucket i b').bucket j = t.bucket j := by
  simp only [Table.setBucket, Table.bucket, List.getD_eq_getElem?_getD]
  rw [List.getElem?_set_ne (Ne.symm hij)]

theorem A_split3 (p q r : KV) (h : ∀ k v, p k v = true → q k v = true ∨ r k v = true) (b : Bucket Val) :
    A p b ≤ A q b + A r b := by
  have hw : ∀ l : List (Node Val), W p l ≤ W q l + W r l := by
    intro l
    induction l with
    | nil => simp
    | cons x l ih =>
      rw [W_cons, W_cons, W_cons]
      have := h x.key x.value
      cases hp : p x.key x.value <;> cases hq : q x.key x.value <;> cases hr : r x.key x.value <;>
        simp_all [bit] <;> omega
  have hp : PW p b.pending ≤ PW q b.pending + PW r b.pending := by
    cases b.pending with
    | none => simp
    | some x =>
      have := h x.node.key x.node.value
      simp only [PW_some]
      cases hp : p x.node.key x.node.value <;> cases hq : q x.node.key x.node.value <;>
        cases hr : r x.node.key x.node.value <;> simp_all [bit]
  unfold A
  have := hw b.nodes
  omega

theorem TW_split3 (p q r : KV) (h : ∀ k v, p k v = true → q k v = true ∨ r k v = true) (t : Table Val) :
    TW p t ≤ TW q t + TW r t := by
  unfold TW
  induction t.buckets with
  | nil => simp
  | cons b l ih =>
    have := A_split3 p q r h b
    simp only [List.map_cons, List.sum_cons]; omega

/-- exact split of a table count along a second predicate -/
theorem A_split (p q : KV) (b : Bucket Val) :
    A p b = A (fun k v => p k v && q k v) b + A (fun k v => p k v && !q k v) b := by
  unfold A
  have := W_split p q b.nodes
  have hp : PW p b.pending = PW (fun k v => p k v && q k v) b.pending +
      PW (fun k v => p k v && !q k v) b.pending := by
    cases b.pending with
    | none => rfl
    | some x =>
      simp only [PW_some]
      cases p x.node.key x.node.value <;> cases q x.node.key x.node.value <;> simp [bit]
  omega

theorem TW_split (p q : KV) (t : Table Val) :
    TW p t = TW (fun k v => p k v && q k v) t + TW (fun k v => p k v && !q k v) t := by
  unfold TW
  induction t.buckets with
  | nil => rfl
  | cons b l ih =>
    have := A_split p q b
    simp only [List.map_cons, List.sum_cons]; omega

theorem A_mono_pred (p q : KV) (h : ∀ k v, p k v = true → q k v = true) (b : Bucket Val) :
    A p b ≤ A q b := by
  have := A_split3 p q (fun _ _ => false) (fun k v hp => Or.inl (h k v hp)) b
  have h0 : A (fun _ _ => false) b = 0 := by
    unfold A
    have : W (fun _ _ => false) b.nodes = 0 := by rw [W_eq_zero]; intros; rfl
    cases b.pending <;> simp [this, bit]
  omega

theorem TW_mono_pred (p q : KV) (h : ∀ k v, p k v = true → q k v = true) (t : Table Val) :
    TW p t ≤ TW q t := by
  unfold TW
  induction t.buckets with
  | nil => simp
  | cons b l ih =>
    have := A_mono_pred p q h b
    simp only [List.map_cons, List.sum_cons]; omega

/-! ### bridging to the specification predicates -/

theorem subnetCount_append (s : Nat) (l₁ l₂ : List Val) :
    subnetCount s (l₁ ++ l₂) = subnetCount s l₁ + subnetCount s l₂ := by
  simp [subnetCount]

theorem subnetCount_bucket_all (s : Nat) (b : Bucket Val) (pl : List Val)
    (hpl : subnetCount s pl = PW (inS s) b.pending) :
    subnetCount s (b.values ++ pl) = A (inS s) b := by
  rw [subnetCount_append, hpl]
  unfold A Bucket.values
  rw [subnetCount_values]

theorem subnetCount_tableValues (s : Nat) (t : Table Val) :
    subnetCount s t.tableValues = TW (inS s) t := by
  unfold Table.tableValues TW
  induction t.buckets with
  | nil => rfl
  | cons b l ih =>
    rw [List.flatMap_cons, subnetCount_append, ih, subnetCount_bucket_all]
    · simp only [List.map_cons, List.sum_cons]
    · cases b.pending with
      | none => rfl
      | some p =>
        by_cases h : p.node.value.subnet = some s <;> simp [subnetCount, inS, bit, h]

theorem ipInv_iff (t : Table Val) :
    IpInv t ↔ (∀ i, NB (t.bucket i)) ∧ (∀ s, TW (inS s) t ≤ 10) := by
  constructor
  · rintro ⟨h1, h2⟩
    refine ⟨fun i s => ?_, fun s => ?_⟩
    · have := h1 i s; rwa [Bucket.values, subnetCount_values] at this
    · have := h2 s; rwa [subnetCount_tableValues] at this
  · rintro ⟨h1, h2⟩
    refine ⟨fun i s => ?_, fun s => ?_⟩
    · rw [Bucket.values, subnetCount_values]; exact h1 i s
    · rw [subnetCount_tableValues]; exact h2 s

theorem vmk_iff (keyOf : Val → Nat) (t : Table Val) :
    ValuesMatchKeys keyOf t ↔ ∀ b ∈ t.buckets, VB keyOf b := by
  unfold ValuesMatchKeys
  constructor
  · intro h b hb; rw [VB_iff]; exact h b hb
  · intro h b hb; rw [← VB_iff]; exact h b hb

theorem bucket_mem_or_empty (t : Table Val) (i : Nat) : t.bucket i ∈ t.buckets ∨ t.bucket i = {} := by
  unfold Table.bucket
  by_cases hi : i < t.buckets.length
  · left; simp [hi]
  · right; simp [Nat.le_of_not_lt hi]

theorem VB_empty (keyOf : Val → Nat) : VB keyOf ({} : Bucket Val) := rfl

theorem vmk_bucket (keyOf : Val → Nat) (t : Table Val) (h : ValuesMatchKeys keyOf t) (i : Nat) :
    VB keyOf (t.bucket i) := by
  rcases bucket_mem_or_empty t i with h1 | h1
  · exact (vmk_iff keyOf t).mp h _ h1
  · rw [h1]; exact VB_empty keyOf

/-! ### uniqueness of keys and values from the structural invariant -/

theorem binv_UB (c : Cfg Val) (tick : Nat) (b : Bucket Val) (h : BInv c tick b) : UB b := by
  intro k
  unfold A
  have hc : W (keyIs k) b.nodes = (b.nodes.map (·.key)).count k := by
    unfold W List.count
    rw [List.countP_map]
    rfl
  have h1 := (List.nodup_iff_count.mp h.keysNodup) k
  cases hp : b.pending with
  | none => simp only [PW_none]; omega
  | some p =>
    simp only [PW_some]
    by_cases hk : p.node.key = k
    · have := h.pendingFresh p hp
      rw [hk] at this
      have := List.count_eq_zero.mpr this
      have := bit_le_one (keyIs k p.node.key p.node.value)
      omega
    · have : bit (keyIs k p.node.key p.node.value) = 0 := by simp [keyIs, bit, hk]
      omega

theorem UB_empty : UB ({} : Bucket Val) := fun _ => by simp [A_empty]
theorem NB_empty : NB ({} : Bucket Val) := fun _ => by simp

theorem bucket_out_of_range (t : Table Val) (i : Nat) (hi : t.buckets.length ≤ i) : t.bucket i = {} := by
  simp [Table.bucket, hi]

theorem tinv_UB (c : Cfg Val) (t : Table Val) (h : TInv c t) (i : Nat) : UB (t.bucket i) := by
  by_cases hi : i < 256
  · exact binv_UB c _ _ (h.buckets i hi)
  · rw [bucket_out_of_range t i (by rw [h.nBuckets]; omega)]; exact UB_empty

theorem tinv_TW_key (c : Cfg Val) (t : Table Val) (h : TInv c t) (k : Nat) : TW (keyIs k) t ≤ 1 := by
  have hs := sum_map_single (A (keyIs k)) t.buckets ((bucketIndex t.localKey k).getD 256) {} ?_
  · exact Nat.le_trans hs (tinv_UB c t h _ k)
  · intro i hi hne
    rw [h.nBuckets] at hi
    have hw : W (keyIs k) (t.bucket i).nodes = 0 := by
      rw [W_eq_zero]
      intro n hn
      have := h.placed i hi n hn
      by_cases hk : n.key = k
      · rw [hk] at this; rw [this] at hne; simp at hne
      · simp [keyIs, hk]
    have hp : PW (keyIs k) (t.bucket i).pending = 0 := by
      cases hpp : (t.bucket i).pending with
      | none => rfl
      | some p =>
        have := h.placedPending i hi p hpp
        by_cases hk : p.node.key = k
        · rw [hk] at this; rw [this] at hne; simp at hne
        · simp [keyIs, hk, bit]
    show A (keyIs k) (t.bucket i) = 0
    unfold A; omega

theorem TW_badKey (keyOf : Val → Nat) (t : Table Val) (h : ValuesMatchKeys keyOf t) :
    TW (badKey keyOf) t = 0 :=
  sum_map_zero _ _ (fun b hb => (vmk_iff keyOf t).mp h b hb)

theorem TW_val_le_one (keyOf : Val → Nat) (c : Cfg Val) (t : Table Val) (h : TInv c t)
    (hk : ValuesMatchKeys keyOf t) (v : Val) : TW (valIs v) t ≤ 1 := by
  have h1 := TW_split3 (valIs v) (keyIs (keyOf v)) (badKey keyOf) (fun k x hx => by
    simp only [valIs, decide_eq_true_eq] at hx
    subst hx
    by_cases hkk : k = keyOf x <;> simp [keyIs, badKey, hkk]) t
  have h2 := tinv_TW_key c t h (keyOf v)
  have h3 := TW_badKey keyOf t hk
  omega

end Discv5.KB.Ip

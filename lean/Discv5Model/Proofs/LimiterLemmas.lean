/-
Helper definitions and lemmas for C18 (GCRA limiter, two-stage filter).

Vocabulary.  A *history* `H : Hist` is the list of the accepted arrivals `(time, tokens)` of one
key, newest first.  `specTat t H` is the theoretical arrival time the code must hold for that
key, `sums H` pairs every accepted arrival with the number of tokens accepted from it up to the
newest one (`n − i + 1` when every arrival costs one token), `tokensIn H s W` counts the tokens
accepted in the window `[s, s + W]`.
-/
import Discv5Model.Model.Filter

set_option linter.unusedSectionVars false
set_option linter.unusedSimpArgs false
set_option linter.unusedVariables false

namespace Discv5.Limiter

variable {κ : Type} [DecidableEq κ]

/-! ### Histories -/

abbrev Hist := List (Nat × Nat)

/-- The TAT after the accepted arrivals `H` (newest first): `tat' = max(now, tat) + tokens·t`. -/
def specTat (t : Nat) : Hist → Nat
  | [] => 0
  | (a, k) :: r => max a (specTat t r) + k * t

/-- `(aᵢ, Sᵢ)`: arrival time and the tokens accepted from arrival `i` up to the newest one. -/
def sums : Hist → List (Nat × Nat)
  | [] => []
  | (a, k) :: r => (a, k) :: (sums r).map (fun p => (p.1, p.2 + k))

/-- Maximum of a list (0 for the empty list). -/
def maxL : List Nat → Nat
  | [] => 0
  | x :: xs => max x (maxL xs)

/-- Tokens accepted in the window `[s, s + W]`. -/
def tokensIn (H : Hist) (s W : Nat) : Nat :=
  ((H.filter (fun p => decide (s ≤ p.1 ∧ p.1 ≤ s + W))).map (·.2)).sum

/-- Every accepted arrival satisfied, when it came, the GCRA condition against all older ones, and
the times are sorted. -/
def Conf (tau t : Nat) : Hist → Prop
  | [] => True
  | (a, k) :: r =>
    (k * t ≤ tau ∧ ∀ p ∈ sums r, (p.2 + k) * t ≤ (a - p.1) + tau) ∧ (∀ p ∈ r, p.1 ≤ a) ∧ Conf tau t r

theorem maxL_le_iff (xs : List Nat) (B : Nat) : maxL xs ≤ B ↔ ∀ x ∈ xs, x ≤ B := by
  induction xs with
  | nil => simp [maxL]
  | cons x xs ih =>
    simp only [maxL, List.mem_cons, forall_eq_or_imp]
    rw [← ih]; omega

theorem specTat_le_iff (t : Nat) (H : Hist) (B : Nat) :
    specTat t H ≤ B ↔ ∀ p ∈ sums H, p.1 + p.2 * t ≤ B := by
  induction H generalizing B with
  | nil => simp [specTat, sums]
  | cons x r ih =>
    obtain ⟨a, k⟩ := x
    simp only [specTat, sums, List.mem_cons, List.mem_map, forall_eq_or_imp]
    constructor
    · intro h
      refine ⟨by omega, ?_⟩
      rintro p ⟨q, hq, rfl⟩
      have := (ih (specTat t r)).mp (Nat.le_refl _) q hq
      simp only [Nat.add_mul]
      omega
    · rintro ⟨h1, h2⟩
      have : specTat t r ≤ B - k * t := by
        apply (ih _).mpr
        intro q hq
        have := h2 (q.1, q.2 + k) ⟨q, hq, rfl⟩
        simp only [Nat.add_mul] at this
        omega
      omega

/-- Closed form: `tat = maxᵢ (aᵢ + Sᵢ·t)`. -/
theorem specTat_eq_max (t : Nat) (H : Hist) :
    specTat t H = maxL ((sums H).map (fun p => p.1 + p.2 * t)) := by
  apply Nat.le_antisymm
  · rw [specTat_le_iff]
    intro p hp
    exact (maxL_le_iff _ _).mp (Nat.le_refl _) _ (List.mem_map.mpr ⟨p, hp, rfl⟩)
  · rw [maxL_le_iff]
    intro x hx
    obtain ⟨p, hp, rfl⟩ := List.mem_map.mp hx
    exact (specTat_le_iff t H _).mp (Nat.le_refl _) p hp

theorem sums_length (H : Hist) : (sums H).length = H.length := by
  induction H with
  | nil => rfl
  | cons x r ih => obtain ⟨a, k⟩ := x; simp [sums, ih]

/-- The times in `sums H` are the times in `H`. -/
theorem sums_time_mem {H : Hist} {p : Nat × Nat} (hp : p ∈ sums H) : ∃ e ∈ H, e.1 = p.1 := by
  induction H generalizing p with
  | nil => simp [sums] at hp
  | cons x r ih =>
    obtain ⟨a, k⟩ := x
    simp only [sums, List.mem_cons, List.mem_map] at hp
    rcases hp with rfl | ⟨q, hq, rfl⟩
    · exact ⟨(a, k), by simp, rfl⟩
    · obtain ⟨e, he, h⟩ := ih hq
      exact ⟨e, List.mem_cons_of_mem _ he, h⟩

/-- With one token per arrival `Sⱼ = j + 1` (`j = 0` is the newest arrival). -/
theorem sums_getElem_unit (H : Hist) (h1 : ∀ p ∈ H, p.2 = 1) (j : Nat) (hj : j < H.length) :
    (sums H)[j]'(by rw [sums_length]; exact hj) = (H[j].1, j + 1) := by
  induction H generalizing j with
  | nil => simp at hj
  | cons x r ih =>
    obtain ⟨a, k⟩ := x
    have hk : k = 1 := h1 (a, k) (by simp)
    cases j with
    | zero => simp [sums, hk]
    | succ j =>
      simp only [sums, List.getElem_cons_succ, List.getElem_map]
      rw [ih (fun p hp => h1 p (List.mem_cons_of_mem _ hp)) j (by simpa using hj)]
      simp [hk]

theorem mem_sums_unit (H : Hist) (h1 : ∀ p ∈ H, p.2 = 1) (p : Nat × Nat) :
    p ∈ sums H ↔ ∃ j, ∃ hj : j < H.length, p = (H[j].1, j + 1) := by
  constructor
  · intro hp
    obtain ⟨j, hj, rfl⟩ := List.getElem_of_mem hp
    have hj' : j < H.length := by rw [sums_length] at hj; exact hj
    exact ⟨j, hj', sums_getElem_unit H h1 j hj'⟩
  · rintro ⟨j, hj, rfl⟩
    rw [← sums_getElem_unit H h1 j hj]
    exact List.getElem_mem _

/-! ### The step without machine arithmetic -/

/-- `Limiter::allows` over unbounded naturals. -/
def allowsI (l : Limiter κ) (now : Nat) (key : κ) (tokens : Nat) : Limiter κ × Verdict :=
  if l.t * tokens > l.tau then (l, .tooLarge)
  else if now + l.tau < (l.tat key).getD now + l.t * tokens then
    ({ l with tat := setTat l.tat key ((l.tat key).getD now) },
     .tooSoon ((l.tat key).getD now + l.t * tokens - l.tau - now))
  else
    ({ l with tat := setTat l.tat key (max now ((l.tat key).getD now) + l.t * tokens) }, .ok)

/-- Far from `u64` overflow the code computes `allowsI`. -/
theorem allows_eq_allowsI (l : Limiter κ) (now : Nat) (key : κ) (tokens : Nat)
    (hn : now + 2 * l.tau < U64) (hk : l.t * tokens < U64)
    (hv : ∀ v, l.tat key = some v → v ≤ now + l.tau) :
    l.allows now key tokens = allowsI l now key tokens := by
  have hnow : now % U64 = now := Nat.mod_eq_of_lt (by omega)
  have hadd : (l.t * tokens) % U64 = l.t * tokens := Nat.mod_eq_of_lt hk
  have htat : (l.tat key).getD now ≤ now + l.tau := by
    cases h : l.tat key with
    | none => simp
    | some v => simpa using hv v h
  unfold Limiter.allows allowsI
  simp only [hnow, hadd]
  by_cases hl : l.t * tokens > l.tau
  · rw [if_pos hl, if_pos hl]
  · rw [if_neg hl, if_neg hl]
    have h1 : ((l.tat key).getD now + l.t * tokens) % U64 = (l.tat key).getD now + l.t * tokens :=
      Nat.mod_eq_of_lt (by omega)
    have h2 : (max now ((l.tat key).getD now) + l.t * tokens) % U64
        = max now ((l.tat key).getD now) + l.t * tokens := Nat.mod_eq_of_lt (by omega)
    rw [h1, h2]
    by_cases hs : now + l.tau < (l.tat key).getD now + l.t * tokens
    · rw [if_pos (by omega), if_pos hs]
    · rw [if_neg (by omega), if_neg hs]

/-! ### Runs -/

/-- A limiter without entries. -/
def fresh (tau t : Nat) : Limiter κ := { tau := tau, t := t, tat := fun _ => none }

theorem fromQuota_eq {n p : Nat} {l : Limiter κ} (h : fromQuota n p = some l) :
    l = fresh p (p / n) ∧ 0 < n ∧ 0 < p ∧ p < U64 := by
  unfold fromQuota at h
  by_cases h0 : n = 0
  · simp [h0] at h
  · by_cases h1 : p = 0
    · simp [h0, h1] at h
    · by_cases h2 : p / n ≥ U64
      · simp [h0, h1, h2] at h
      · by_cases h3 : p ≥ U64
        · simp [h0, h1, h2, h3] at h
        · simp only [h0, h1, h2, h3, if_false] at h
          refine ⟨?_, by omega, by omega, by omega⟩
          injection h with h
          rw [← h]; rfl

/-- Hypotheses on a history: the times (arrivals and prune limits) never decrease, starting at
`lo`, and stay far from `u64` overflow: `now + 2·tau < 2^64`, `t·tokens < 2^64`. -/
def Timed (tau t : Nat) : Nat → List (Ev κ) → Prop
  | _, [] => True
  | lo, .arrive ns _ tokens :: es =>
    lo ≤ ns ∧ ns + 2 * tau < U64 ∧ t * tokens < U64 ∧ Timed tau t ns es
  | lo, .prune ns :: es => lo ≤ ns ∧ ns < U64 ∧ Timed tau t ns es

/-- The time of the last event (or `lo`). -/
def lastTime : Nat → List (Ev κ) → Nat
  | lo, [] => lo
  | _, .arrive ns _ _ :: es => lastTime ns es
  | _, .prune ns :: es => lastTime ns es

/-- The accepted arrivals of `key` (newest first) when `es` runs from `l`, pushed on `H`. -/
def accepted (key : κ) : Limiter κ → Hist → List (Ev κ) → Hist
  | _, H, [] => H
  | l, H, .arrive ns k tokens :: es =>
    accepted key (l.allows ns k tokens).1
      (if k = key ∧ (l.allows ns k tokens).2 = .ok then (ns, tokens) :: H else H) es
  | l, H, .prune ns :: es => accepted key (l.prune ns) H es

/-- All arrivals of `key` (newest first), accepted or not, pushed on `H`. -/
def offered (key : κ) : Hist → List (Ev κ) → Hist
  | H, [] => H
  | H, .arrive ns k tokens :: es => offered key (if k = key then (ns, tokens) :: H else H) es
  | H, .prune _ :: es => offered key H es

/-- The verdicts of the arrivals of `key`. -/
def verdictsOf (key : κ) : Limiter κ → List (Ev κ) → List Verdict
  | _, [] => []
  | l, .arrive ns k tokens :: es =>
    if k = key then (l.allows ns k tokens).2 :: verdictsOf key (l.allows ns k tokens).1 es
    else verdictsOf key (l.allows ns k tokens).1 es
  | l, .prune ns :: es => verdictsOf key (l.prune ns) es

/-- The history without its prune calls. -/
def stripPrune : List (Ev κ) → List (Ev κ)
  | [] => []
  | .arrive ns k tokens :: es => .arrive ns k tokens :: stripPrune es
  | .prune _ :: es => stripPrune es

theorem run_arrive (l : Limiter κ) (ns : Nat) (k : κ) (tokens : Nat) (es : List (Ev κ)) :
    run l (.arrive ns k tokens :: es)
      = ((run (l.allows ns k tokens).1 es).1, (l.allows ns k tokens).2 :: (run (l.allows ns k tokens).1 es).2) := rfl

theorem run_prune (l : Limiter κ) (ns : Nat) (es : List (Ev κ)) :
    run l (.prune ns :: es) = run (l.prune ns) es := rfl

theorem allows_tau (l : Limiter κ) (ns : Nat) (k : κ) (tokens : Nat) :
    (l.allows ns k tokens).1.tau = l.tau := by
  unfold Limiter.allows
  simp only []
  split
  · rfl
  · split <;> rfl

theorem allows_t (l : Limiter κ) (ns : Nat) (k : κ) (tokens : Nat) :
    (l.allows ns k tokens).1.t = l.t := by
  unfold Limiter.allows
  simp only []
  split
  · rfl
  · split <;> rfl

theorem allows_other (l : Limiter κ) (ns : Nat) (k key : κ) (tokens : Nat) (h : key ≠ k) :
    (l.allows ns k tokens).1.tat key = l.tat key := by
  unfold Limiter.allows
  simp only []
  split
  · rfl
  · split <;> simp [setTat, h]

theorem prune_tat (l : Limiter κ) (ns : Nat) (key : κ) :
    (l.prune ns).tat key = match l.tat key with
      | some v => if v ≥ ns % U64 then some v else none
      | none => none := rfl

/-- What the table and the accepted history of `key` have to do with each other. -/
structure Tracks (l : Limiter κ) (key : κ) (H : Hist) (hi : Nat) : Prop where
  some_eq : ∀ v, l.tat key = some v → v = specTat l.t H
  none_le : l.tat key = none → specTat l.t H ≤ hi
  times_le : ∀ p ∈ H, p.1 ≤ hi
  bound : specTat l.t H ≤ hi + l.tau
  conf : Conf l.tau l.t H

theorem Tracks.mono {l : Limiter κ} {key : κ} {H : Hist} {hi hi' : Nat}
    (h : Tracks l key H hi) (hh : hi ≤ hi') : Tracks l key H hi' :=
  ⟨h.some_eq, fun hn => Nat.le_trans (h.none_le hn) hh,
   fun p hp => Nat.le_trans (h.times_le p hp) hh, by have := h.bound; omega, h.conf⟩

theorem tracks_fresh (tau t : Nat) (key : κ) (lo : Nat) : Tracks (fresh tau t) key [] lo :=
  ⟨fun v h => by simp [fresh] at h, fun _ => by simp [specTat], by simp, by simp [specTat],
   by simp [Conf]⟩

theorem Tracks.entry_le {l : Limiter κ} {key : κ} {H : Hist} {hi now : Nat}
    (h : Tracks l key H hi) (hh : hi ≤ now) : ∀ v, l.tat key = some v → v ≤ now + l.tau := by
  intro v hv
  have := h.some_eq v hv
  have := h.bound
  omega

/-- The GCRA decision in terms of the accepted history. -/
theorem allowsI_ok_iff {l : Limiter κ} {key : κ} {H : Hist} {hi now k : Nat}
    (h : Tracks l key H hi) (hh : hi ≤ now) :
    (allowsI l now key k).2 = .ok ↔
      (k * l.t ≤ l.tau ∧ ∀ p ∈ sums H, (p.2 + k) * l.t ≤ (now - p.1) + l.tau) := by
  have hcomm : l.t * k = k * l.t := Nat.mul_comm _ _
  have htimes : ∀ p ∈ sums H, p.1 ≤ now := by
    intro p hp
    obtain ⟨e, he, hep⟩ := sums_time_mem hp
    have := h.times_le e he
    omega
  unfold allowsI
  by_cases hl : l.t * k > l.tau
  · rw [if_pos hl]
    constructor
    · intro hc; cases hc
    · intro hc; omega
  · rw [if_neg hl]
    cases htat : l.tat key with
    | some v =>
      have hv := h.some_eq v htat
      simp only [Option.getD_some]
      by_cases hs : now + l.tau < v + l.t * k
      · rw [if_pos hs]
        constructor
        · intro hc; cases hc
        · rintro ⟨_, hc⟩
          exfalso
          have : specTat l.t H ≤ now + l.tau - k * l.t := by
            apply (specTat_le_iff _ _ _).mpr
            intro p hp
            have h1 := hc p hp
            have h2 := htimes p hp
            simp only [Nat.add_mul] at h1
            omega
          omega
      · rw [if_neg hs]
        refine ⟨fun _ => ⟨by omega, ?_⟩, fun _ => rfl⟩
        intro p hp
        have h1 := (specTat_le_iff l.t H _).mp (Nat.le_refl _) p hp
        have h2 := htimes p hp
        simp only [Nat.add_mul]
        omega
    | none =>
      have hT := h.none_le htat
      simp only [Option.getD_none]
      rw [if_neg (by omega)]
      refine ⟨fun _ => ⟨by omega, ?_⟩, fun _ => rfl⟩
      intro p hp
      have h1 := (specTat_le_iff l.t H _).mp (Nat.le_refl _) p hp
      have h2 := htimes p hp
      simp only [Nat.add_mul]
      omega

/-- One arrival of the tracked key. -/
theorem tracks_step_key {l : Limiter κ} {key : κ} {H : Hist} {hi now k : Nat}
    (h : Tracks l key H hi) (hh : hi ≤ now) (hn : now + 2 * l.tau < U64) (hk : l.t * k < U64) :
    Tracks (l.allows now key k).1 key
      (if (l.allows now key k).2 = .ok then (now, k) :: H else H) now := by
  have hdec := allowsI_ok_iff (k := k) h hh
  rw [allows_eq_allowsI l now key k hn hk (h.entry_le hh)]
  have hcomm : l.t * k = k * l.t := Nat.mul_comm _ _
  unfold allowsI at hdec ⊢
  by_cases hl : l.t * k > l.tau
  · rw [if_pos hl]
    simp only [reduceCtorEq, if_false]
    exact h.mono hh
  · rw [if_neg hl] at hdec ⊢
    by_cases hs : now + l.tau < (l.tat key).getD now + l.t * k
    · rw [if_pos hs]
      simp only [reduceCtorEq, if_false]
      cases htat : l.tat key with
      | none => simp [htat] at hs; omega
      | some v =>
        have hm := h.mono hh
        refine ⟨?_, ?_, hm.times_le, hm.bound, hm.conf⟩
        · intro w hw
          simp [setTat, htat] at hw
          rw [← hw]; exact h.some_eq v htat
        · intro hw; simp [setTat] at hw
    · rw [if_neg hs] at hdec ⊢
      simp only [if_true]
      have hcond := hdec.mp rfl
      have hT : specTat l.t H ≤ now + l.tau ∧
          max now ((l.tat key).getD now) = max now (specTat l.t H) := by
        cases htat : l.tat key with
        | none =>
          have := h.none_le htat
          simp only [Option.getD_none]
          omega
        | some v =>
          have := h.some_eq v htat
          simp only [htat, Option.getD_some] at hs ⊢
          omega
      refine ⟨?_, ?_, ?_, ?_, ?_⟩
      · intro w hw
        simp [setTat] at hw
        simp only [specTat]
        omega
      · intro hw; simp [setTat] at hw
      · intro p hp
        rcases List.mem_cons.mp hp with rfl | hp
        · exact Nat.le_refl _
        · exact Nat.le_trans (h.times_le p hp) hh
      · simp only [specTat]
        cases htat : l.tat key with
        | none =>
          have := h.none_le htat
          omega
        | some v =>
          have := h.some_eq v htat
          simp only [htat, Option.getD_some] at hs
          omega
      · exact ⟨hcond, fun p hp => Nat.le_trans (h.times_le p hp) hh, h.conf⟩

/-- One arrival of another key. -/
theorem tracks_step_other {l : Limiter κ} {key k' : κ} {H : Hist} {hi now : Nat} (tokens : Nat)
    (h : Tracks l key H hi) (hh : hi ≤ now) (hne : key ≠ k') :
    Tracks (l.allows now k' tokens).1 key H now := by
  have hm := h.mono hh
  refine ⟨?_, ?_, hm.times_le, ?_, ?_⟩
  · rw [allows_other _ _ _ _ _ hne, allows_t]; exact hm.some_eq
  · rw [allows_other _ _ _ _ _ hne, allows_t]; exact hm.none_le
  · rw [allows_t, allows_tau]; exact hm.bound
  · rw [allows_t, allows_tau]; exact hm.conf

/-- One prune call. -/
theorem tracks_prune {l : Limiter κ} {key : κ} {H : Hist} {hi lim : Nat}
    (h : Tracks l key H hi) (hh : hi ≤ lim) (hl : lim < U64) :
    Tracks (l.prune lim) key H lim := by
  have hm := h.mono hh
  have hmod : lim % U64 = lim := Nat.mod_eq_of_lt hl
  refine ⟨?_, ?_, hm.times_le, hm.bound, hm.conf⟩
  · intro v hv
    rw [prune_tat, hmod] at hv
    cases htat : l.tat key with
    | none => simp [htat] at hv
    | some w =>
      simp only [htat] at hv
      by_cases hw : w ≥ lim
      · rw [if_pos hw] at hv
        injection hv with hv
        rw [← hv]; exact h.some_eq w htat
      · rw [if_neg hw] at hv; cases hv
  · intro hv
    rw [prune_tat, hmod] at hv
    cases htat : l.tat key with
    | none => exact hm.none_le htat
    | some w =>
      simp only [htat] at hv
      by_cases hw : w ≥ lim
      · rw [if_pos hw] at hv; cases hv
      · have := h.some_eq w htat
        show specTat l.t H ≤ lim
        omega

theorem prune_tau (l : Limiter κ) (ns : Nat) : (l.prune ns).tau = l.tau := rfl
theorem prune_t (l : Limiter κ) (ns : Nat) : (l.prune ns).t = l.t := rfl

theorem run_tau (l : Limiter κ) (es : List (Ev κ)) : (run l es).1.tau = l.tau := by
  induction es generalizing l with
  | nil => rfl
  | cons e es ih =>
    cases e with
    | arrive ns k tokens => rw [run_arrive]; simp only []; rw [ih, allows_tau]
    | prune ns => rw [run_prune, ih, prune_tau]

theorem run_t (l : Limiter κ) (es : List (Ev κ)) : (run l es).1.t = l.t := by
  induction es generalizing l with
  | nil => rfl
  | cons e es ih =>
    cases e with
    | arrive ns k tokens => rw [run_arrive]; simp only []; rw [ih, allows_t]
    | prune ns => rw [run_prune, ih, prune_t]

/-- The tracking relation holds along every timed run. -/
theorem tracks_run {l : Limiter κ} {key : κ} {H : Hist} {lo : Nat} (es : List (Ev κ))
    (h : Tracks l key H lo) (hT : Timed l.tau l.t lo es) :
    Tracks (run l es).1 key (accepted key l H es) (lastTime lo es) := by
  induction es generalizing l H lo with
  | nil => exact h
  | cons e es ih =>
    cases e with
    | arrive ns k tokens =>
      obtain ⟨h1, h2, h3, h4⟩ := hT
      rw [run_arrive]
      simp only [accepted, lastTime]
      have h4' : Timed (l.allows ns k tokens).1.tau (l.allows ns k tokens).1.t ns es := by
        rw [allows_tau, allows_t]; exact h4
      by_cases hk : k = key
      · subst hk
        have := tracks_step_key h h1 h2 h3
        simp only [true_and]
        exact ih this h4'
      · have hne : key ≠ k := fun hc => hk hc.symm
        simp only [hk, false_and, if_false]
        exact ih (tracks_step_other tokens h h1 hne) h4'
    | prune ns =>
      obtain ⟨h1, h2, h3⟩ := hT
      rw [run_prune]
      simp only [accepted, lastTime]
      exact ih (tracks_prune h h1 h2) h3

/-! ### Windows -/

/-- Tokens of the arrivals at or after `s`. -/
def tokLower (H : Hist) (s : Nat) : Nat :=
  ((H.filter (fun p => decide (s ≤ p.1))).map (·.2)).sum

theorem tokensIn_cons (a k : Nat) (r : Hist) (s W : Nat) :
    tokensIn ((a, k) :: r) s W
      = (if s ≤ a ∧ a ≤ s + W then k else 0) + tokensIn r s W := by
  unfold tokensIn
  by_cases h : s ≤ a ∧ a ≤ s + W
  · simp [List.filter_cons, h]
  · simp [List.filter_cons, h]

theorem tokLower_cons (a k : Nat) (r : Hist) (s : Nat) :
    tokLower ((a, k) :: r) s = (if s ≤ a then k else 0) + tokLower r s := by
  unfold tokLower
  by_cases h : s ≤ a
  · simp [List.filter_cons, h]
  · simp [List.filter_cons, h]

theorem tokLower_eq_zero (r : Hist) (s : Nat) (h : ∀ p ∈ r, p.1 < s) : tokLower r s = 0 := by
  induction r with
  | nil => rfl
  | cons x r ih =>
    obtain ⟨a, k⟩ := x
    rw [tokLower_cons, ih (fun p hp => h p (List.mem_cons_of_mem _ hp))]
    have := h (a, k) (by simp)
    simp only [] at this
    rw [if_neg (by omega)]

theorem tokensIn_eq_tokLower (r : Hist) (s W : Nat) (h : ∀ p ∈ r, p.1 ≤ s + W) :
    tokensIn r s W = tokLower r s := by
  induction r with
  | nil => rfl
  | cons x r ih =>
    obtain ⟨a, k⟩ := x
    rw [tokensIn_cons, tokLower_cons, ih (fun p hp => h p (List.mem_cons_of_mem _ hp))]
    have := h (a, k) (by simp)
    simp only [] at this
    by_cases hs : s ≤ a
    · rw [if_pos ⟨hs, this⟩, if_pos hs]
    · rw [if_neg (fun hc => hs hc.1), if_neg hs]

theorem tokensIn_append (X Y : Hist) (s W : Nat) :
    tokensIn (X ++ Y) s W = tokensIn X s W + tokensIn Y s W := by
  unfold tokensIn
  simp [List.filter_append, List.map_append, List.sum_append]

/-- In a conforming (hence sorted) history the tokens at or after `s` are one of the `Sᵢ`. -/
theorem tokLower_zero_or_mem {tau t : Nat} {r : Hist} (hc : Conf tau t r) (s : Nat) :
    tokLower r s = 0 ∨ ∃ p ∈ sums r, p.2 = tokLower r s ∧ s ≤ p.1 := by
  induction r with
  | nil => left; rfl
  | cons x r ih =>
    obtain ⟨b, kb⟩ := x
    obtain ⟨_, hsort, hr⟩ := hc
    rw [tokLower_cons]
    by_cases hb : s ≤ b
    · rw [if_pos hb]
      right
      rcases ih hr with h0 | ⟨q, hq, hq2, hq1⟩
      · exact ⟨(b, kb), by simp [sums], by simp [h0], hb⟩
      · refine ⟨(q.1, q.2 + kb), ?_, by simp only []; omega, hq1⟩
        simp only [sums, List.mem_cons, List.mem_map]
        exact Or.inr ⟨q, hq, rfl⟩
    · rw [if_neg hb]
      left
      rw [tokLower_eq_zero r s (fun p hp => by have := hsort p hp; omega)]

/-- The window bound of a conforming history: the tokens accepted in any window `[s, s + W]`,
times `t`, are at most `W + tau`. -/
theorem conf_window {tau t : Nat} {H : Hist} (hc : Conf tau t H) (s W : Nat) :
    tokensIn H s W * t ≤ W + tau := by
  induction H with
  | nil => simp [tokensIn]
  | cons x r ih =>
    obtain ⟨a, k⟩ := x
    obtain ⟨⟨hk, hcond⟩, hsort, hr⟩ := hc
    rw [tokensIn_cons]
    by_cases h1 : s ≤ a ∧ a ≤ s + W
    · rw [if_pos h1, tokensIn_eq_tokLower r s W (fun p hp => by have := hsort p hp; omega)]
      rcases tokLower_zero_or_mem hr s with h0 | ⟨p, hp, hp2, hp1⟩
      · rw [h0]; simp only [Nat.add_zero]; omega
      · have := hcond p hp
        rw [← hp2, Nat.add_comm k p.2]
        omega
    · rw [if_neg h1]
      simp only [Nat.zero_add]
      exact ih hr

/-- Every `Sᵢ` is at most the tokens of the window that starts at `aᵢ`. -/
theorem sums_le_tokensIn {tau t : Nat} {H : Hist} (hc : Conf tau t H) (hi : Nat)
    (hhi : ∀ e ∈ H, e.1 ≤ hi) {p : Nat × Nat} (hp : p ∈ sums H) :
    p.2 ≤ tokensIn H p.1 (hi - p.1) := by
  induction H generalizing p with
  | nil => simp [sums] at hp
  | cons x r ih =>
    obtain ⟨b, kb⟩ := x
    obtain ⟨_, hsort, hr⟩ := hc
    have hb : b ≤ hi := hhi (b, kb) (by simp)
    rw [tokensIn_cons]
    simp only [sums, List.mem_cons, List.mem_map] at hp
    rcases hp with rfl | ⟨q, hq, rfl⟩
    · simp only []
      rw [if_pos ⟨Nat.le_refl _, by omega⟩]
      omega
    · simp only []
      obtain ⟨e, he, heq⟩ := sums_time_mem hq
      have hqb : q.1 ≤ b := by have := hsort e he; omega
      rw [if_pos ⟨hqb, by omega⟩]
      have := ih hr (fun e he => hhi e (List.mem_cons_of_mem _ he)) hq
      omega

/-- In a conforming history, an arrival of `k` tokens that comes at least `k·t` (the time in which `k`
tokens are replenished) after every accepted arrival satisfies the GCRA condition against all of them. -/
theorem conf_after_replenish {tau t : Nat} {H : Hist} (hc : Conf tau t H) (a k : Nat)
    (hidle : ∀ e ∈ H, e.1 + k * t ≤ a) :
    ∀ p ∈ sums H, (p.2 + k) * t ≤ (a - p.1) + tau := by
  cases H with
  | nil => intro p hp; simp [sums] at hp
  | cons x r =>
    obtain ⟨b, kb⟩ := x
    obtain ⟨⟨hkb, hold⟩, hsort, _⟩ := hc
    have hb : b + k * t ≤ a := hidle (b, kb) (by simp)
    intro p hp
    simp only [sums, List.mem_cons, List.mem_map] at hp
    rcases hp with rfl | ⟨q, hq, rfl⟩
    · simp only []
      rw [Nat.add_mul]; omega
    · simp only []
      obtain ⟨e, he, heq⟩ := sums_time_mem hq
      have hqb : q.1 ≤ b := by have := hsort e he; omega
      have h1 := hold q hq
      have : (q.2 + kb + k) * t = (q.2 + kb) * t + k * t := Nat.add_mul _ _ _
      rw [this]; omega

theorem offered_suffix (key : κ) (H : Hist) (es : List (Ev κ)) :
    ∃ pre, offered key H es = pre ++ H := by
  induction es generalizing H with
  | nil => exact ⟨[], rfl⟩
  | cons e es ih =>
    cases e with
    | arrive ns k tokens =>
      simp only [offered]
      by_cases hk : k = key
      · rw [if_pos hk]
        obtain ⟨pre, hpre⟩ := ih ((ns, tokens) :: H)
        exact ⟨pre ++ [(ns, tokens)], by rw [hpre]; simp⟩
      · rw [if_neg hk]; exact ih H
    | prune ns => simp only [offered]; exact ih H

/-- Offered traffic whose every window respects the quota is accepted entirely. -/
theorem conforming_run {l : Limiter κ} {key : κ} {H : Hist} {lo : Nat} (es : List (Ev κ))
    (h : Tracks l key H lo) (hT : Timed l.tau l.t lo es)
    (hw : ∀ s W, tokensIn (offered key H es) s W * l.t ≤ W + l.tau) :
    (∀ v ∈ verdictsOf key l es, v = .ok) ∧ accepted key l H es = offered key H es := by
  induction es generalizing l H lo with
  | nil => exact ⟨by simp [verdictsOf], rfl⟩
  | cons e es ih =>
    cases e with
    | arrive ns k tokens =>
      obtain ⟨h1, h2, h3, h4⟩ := hT
      have h4' : Timed (l.allows ns k tokens).1.tau (l.allows ns k tokens).1.t ns es := by
        rw [allows_tau, allows_t]; exact h4
      simp only [verdictsOf, accepted, offered] at hw ⊢
      by_cases hk : k = key
      · subst hk
        simp only [if_true, true_and] at hw ⊢
        -- the arrival is accepted
        have hok : (l.allows ns k tokens).2 = .ok := by
          rw [allows_eq_allowsI l ns k tokens h2 h3 (h.entry_le h1)]
          apply (allowsI_ok_iff h h1).mpr
          obtain ⟨pre, hpre⟩ := offered_suffix k ((ns, tokens) :: H) es
          have hfull : ∀ s W, tokensIn ((ns, tokens) :: H) s W * l.t ≤ W + l.tau := by
            intro s W
            have := hw s W
            rw [hpre, tokensIn_append, Nat.add_mul] at this
            omega
          constructor
          · have := hfull ns 0
            rw [tokensIn_cons, if_pos ⟨Nat.le_refl _, by omega⟩, Nat.add_mul] at this
            omega
          · intro p hp
            obtain ⟨e, he, heq⟩ := sums_time_mem hp
            have hpt : p.1 ≤ ns := by have := h.times_le e he; omega
            have hB := sums_le_tokensIn h.conf ns
              (fun e he => Nat.le_trans (h.times_le e he) h1) hp
            have := hfull p.1 (ns - p.1)
            rw [tokensIn_cons, if_pos ⟨hpt, by omega⟩] at this
            have hmono : (p.2 + tokens) * l.t ≤ (tokens + tokensIn H p.1 (ns - p.1)) * l.t :=
              Nat.mul_le_mul_right _ (by omega)
            omega
        have hstep := tracks_step_key h h1 h2 h3
        rw [hok] at hstep ⊢
        simp only [if_true] at hstep ⊢
        have := ih hstep h4' (by rw [allows_tau, allows_t]; exact hw)
        refine ⟨?_, this.2⟩
        intro v hv
        rcases List.mem_cons.mp hv with rfl | hv
        · rfl
        · exact this.1 v hv
      · have hne : key ≠ k := fun hc => hk hc.symm
        simp only [hk, false_and, if_false] at hw ⊢
        exact ih (tracks_step_other tokens h h1 hne) h4' (by rw [allows_tau, allows_t]; exact hw)
    | prune ns =>
      obtain ⟨h1, h2, h3⟩ := hT
      simp only [verdictsOf, accepted, offered] at hw ⊢
      exact ih (tracks_prune h h1 h2) h3 hw

/-! ### Prune is transparent -/

/-- The part of `allowsI` that concerns the key's own entry `e`. -/
def stepKey (tau t : Nat) (e : Option Nat) (now tokens : Nat) : Option Nat × Verdict :=
  if t * tokens > tau then (e, .tooLarge)
  else if now + tau < e.getD now + t * tokens then
    (some (e.getD now), .tooSoon (e.getD now + t * tokens - tau - now))
  else (some (max now (e.getD now) + t * tokens), .ok)

theorem allowsI_verdict (l : Limiter κ) (now : Nat) (key : κ) (tokens : Nat) :
    (allowsI l now key tokens).2 = (stepKey l.tau l.t (l.tat key) now tokens).2 := by
  unfold allowsI stepKey
  split
  · rfl
  · split <;> rfl

theorem allowsI_tat (l : Limiter κ) (now : Nat) (key : κ) (tokens : Nat) (k : κ) :
    (allowsI l now key tokens).1.tat k
      = if k = key then (stepKey l.tau l.t (l.tat key) now tokens).1 else l.tat k := by
  unfold allowsI stepKey
  by_cases hk : k = key
  · subst hk
    simp only [if_true]
    split
    · rfl
    · split <;> simp [setTat]
  · simp only [hk, if_false]
    split
    · rfl
    · split <;> simp [setTat, hk]

theorem allowsI_tau (l : Limiter κ) (now : Nat) (key : κ) (tokens : Nat) :
    (allowsI l now key tokens).1.tau = l.tau := by
  unfold allowsI
  split
  · rfl
  · split <;> rfl

theorem allowsI_t (l : Limiter κ) (now : Nat) (key : κ) (tokens : Nat) :
    (allowsI l now key tokens).1.t = l.t := by
  unfold allowsI
  split
  · rfl
  · split <;> rfl

/-- A pruned entry (`none`) and an unpruned one whose bucket is full again (`v ≤ now`) behave
alike. -/
theorem stepKey_pruned (tau t v now tokens : Nat) (hv : v ≤ now) :
    (stepKey tau t none now tokens).2 = (stepKey tau t (some v) now tokens).2 ∧
    ((stepKey tau t none now tokens).1 = (stepKey tau t (some v) now tokens).1 ∨
     ((stepKey tau t none now tokens).1 = none ∧ (stepKey tau t (some v) now tokens).1 = some v)) := by
  unfold stepKey
  by_cases hl : t * tokens > tau
  · rw [if_pos hl, if_pos hl]; exact ⟨rfl, Or.inr ⟨rfl, rfl⟩⟩
  · rw [if_neg hl, if_neg hl]
    simp only [Option.getD_none, Option.getD_some]
    rw [if_neg (by omega), if_neg (by omega)]
    refine ⟨rfl, Or.inl ?_⟩
    have : max now now + t * tokens = max now v + t * tokens := by omega
    simp only [this]

theorem stepKey_bound (tau t : Nat) (e : Option Nat) (now tokens : Nat)
    (he : ∀ v, e = some v → v ≤ now + tau) :
    ∀ w, (stepKey tau t e now tokens).1 = some w → w ≤ now + tau := by
  have hget : e.getD now ≤ now + tau := by
    cases e with
    | none => simp
    | some v => simpa using he v rfl
  unfold stepKey
  intro w
  by_cases hl : t * tokens > tau
  · rw [if_pos hl]; exact he w
  · rw [if_neg hl]
    by_cases hs : now + tau < e.getD now + t * tokens
    · rw [if_pos hs]; intro hw; injection hw with hw; omega
    · rw [if_neg hs]; intro hw; injection hw with hw; omega

/-- `l` (pruned from time to time) against `l'` (never pruned). -/
structure PruneRel (l l' : Limiter κ) (hi : Nat) : Prop where
  tau_eq : l.tau = l'.tau
  t_eq : l.t = l'.t
  tat : ∀ k, l.tat k = l'.tat k ∨ (l.tat k = none ∧ ∃ v, l'.tat k = some v ∧ v ≤ hi)
  bound : ∀ k v, l'.tat k = some v → v ≤ hi + l'.tau

theorem PruneRel.bound_left {l l' : Limiter κ} {hi : Nat} (h : PruneRel l l' hi) :
    ∀ k v, l.tat k = some v → v ≤ hi + l.tau := by
  intro k v hv
  rcases h.tat k with he | ⟨hn, _⟩
  · rw [h.tau_eq]; exact h.bound k v (he ▸ hv)
  · rw [hn] at hv; cases hv

theorem pruneRel_arrive {l l' : Limiter κ} {hi now : Nat} (key : κ) (tokens : Nat)
    (h : PruneRel l l' hi) (hh : hi ≤ now) (hn : now + 2 * l.tau < U64) (hk : l.t * tokens < U64) :
    (l.allows now key tokens).2 = (l'.allows now key tokens).2 ∧
    PruneRel (l.allows now key tokens).1 (l'.allows now key tokens).1 now := by
  have hbl : ∀ v, l.tat key = some v → v ≤ now + l.tau := fun v hv => by
    have := h.bound_left key v hv; omega
  have hbr : ∀ v, l'.tat key = some v → v ≤ now + l'.tau := fun v hv => by
    have := h.bound key v hv; omega
  rw [allows_eq_allowsI l now key tokens hn hk hbl,
    allows_eq_allowsI l' now key tokens (by rw [← h.tau_eq]; exact hn) (by rw [← h.t_eq]; exact hk) hbr]
  rw [allowsI_verdict, allowsI_verdict, ← h.tau_eq, ← h.t_eq]
  have hkey : (stepKey l.tau l.t (l.tat key) now tokens).2 = (stepKey l.tau l.t (l'.tat key) now tokens).2 ∧
      ((stepKey l.tau l.t (l.tat key) now tokens).1 = (stepKey l.tau l.t (l'.tat key) now tokens).1 ∨
       ((stepKey l.tau l.t (l.tat key) now tokens).1 = none ∧
         ∃ v, (stepKey l.tau l.t (l'.tat key) now tokens).1 = some v ∧ v ≤ now)) := by
    rcases h.tat key with he | ⟨hnone, v, hv, hvle⟩
    · rw [he]; exact ⟨rfl, Or.inl rfl⟩
    · rw [hnone, hv]
      have := stepKey_pruned l.tau l.t v now tokens (by omega)
      refine ⟨this.1, ?_⟩
      rcases this.2 with h1 | ⟨h1, h2⟩
      · exact Or.inl h1
      · exact Or.inr ⟨h1, v, h2, by omega⟩
  refine ⟨hkey.1, ⟨?_, ?_, ?_, ?_⟩⟩
  · rw [allowsI_tau, allowsI_tau]; exact h.tau_eq
  · rw [allowsI_t, allowsI_t]; exact h.t_eq
  · intro k
    rw [allowsI_tat, allowsI_tat, ← h.tau_eq, ← h.t_eq]
    by_cases hkk : k = key
    · rw [if_pos hkk, if_pos hkk]; exact hkey.2
    · rw [if_neg hkk, if_neg hkk]
      rcases h.tat k with he | ⟨hnone, v, hv, hvle⟩
      · exact Or.inl he
      · exact Or.inr ⟨hnone, v, hv, by omega⟩
  · intro k v
    rw [allowsI_tat, allowsI_tau]
    by_cases hkk : k = key
    · rw [if_pos hkk]
      exact stepKey_bound l'.tau l'.t (l'.tat key) now tokens hbr v
    · rw [if_neg hkk]
      intro hv
      have := h.bound k v hv
      omega

theorem pruneRel_prune {l l' : Limiter κ} {hi lim : Nat}
    (h : PruneRel l l' hi) (hh : hi ≤ lim) (hl : lim < U64) : PruneRel (l.prune lim) l' lim := by
  have hmod : lim % U64 = lim := Nat.mod_eq_of_lt hl
  refine ⟨h.tau_eq, h.t_eq, ?_, ?_⟩
  · intro k
    rw [prune_tat, hmod]
    rcases h.tat k with he | ⟨hnone, v, hv, hvle⟩
    · cases hk : l.tat k with
      | none => left; rw [← he, hk]
      | some w =>
        simp only []
        by_cases hw : w ≥ lim
        · rw [if_pos hw]; left; rw [← he, hk]
        · rw [if_neg hw]; right
          exact ⟨rfl, w, by rw [← he, hk], by omega⟩
    · rw [hnone]; right
      exact ⟨rfl, v, hv, by omega⟩
  · intro k v hv
    have := h.bound k v hv
    omega

/-- Decisions with and without the prune calls coincide. -/
theorem pruneRel_run {l l' : Limiter κ} {hi : Nat} (es : List (Ev κ))
    (h : PruneRel l l' hi) (hT : Timed l.tau l.t hi es) :
    (run l es).2 = (run l' (stripPrune es)).2 := by
  induction es generalizing l l' hi with
  | nil => rfl
  | cons e es ih =>
    cases e with
    | arrive ns k tokens =>
      obtain ⟨h1, h2, h3, h4⟩ := hT
      have hs := pruneRel_arrive k tokens h h1 h2 h3
      simp only [stripPrune, run_arrive]
      rw [hs.1, ih hs.2 (by rw [allows_tau, allows_t]; exact h4)]
    | prune ns =>
      obtain ⟨h1, h2, h3⟩ := hT
      simp only [stripPrune, run_prune]
      exact ih (pruneRel_prune h h1 h2) h3

theorem pruneRel_refl (l : Limiter κ) (hi : Nat) (hb : ∀ k v, l.tat k = some v → v ≤ hi + l.tau) :
    PruneRel l l hi :=
  ⟨rfl, rfl, fun _ => Or.inl rfl, hb⟩

/-! ### One token per arrival -/

/-- Every arrival of the history costs one token (as in `RateLimiter::allows`). -/
def UnitTokens : List (Ev κ) → Prop
  | [] => True
  | .arrive _ _ tokens :: es => tokens = 1 ∧ UnitTokens es
  | .prune _ :: es => UnitTokens es

theorem accepted_unit (key : κ) (l : Limiter κ) (H : Hist) (es : List (Ev κ))
    (hH : ∀ p ∈ H, p.2 = 1) (hu : UnitTokens es) : ∀ p ∈ accepted key l H es, p.2 = 1 := by
  induction es generalizing l H with
  | nil => exact hH
  | cons e es ih =>
    cases e with
    | arrive ns k tokens =>
      obtain ⟨h1, h2⟩ := hu
      simp only [accepted]
      apply ih _ _ _ h2
      intro p hp
      split at hp
      · rcases List.mem_cons.mp hp with rfl | hp
        · exact h1
        · exact hH p hp
      · exact hH p hp
    | prune ns => exact ih _ _ hH hu

theorem tokensIn_unit (H : Hist) (h1 : ∀ p ∈ H, p.2 = 1) (s W : Nat) :
    tokensIn H s W = (H.filter (fun p => decide (s ≤ p.1 ∧ p.1 ≤ s + W))).length := by
  induction H with
  | nil => rfl
  | cons x r ih =>
    obtain ⟨a, k⟩ := x
    have hk : k = 1 := h1 (a, k) (by simp)
    rw [tokensIn_cons, ih (fun p hp => h1 p (List.mem_cons_of_mem _ hp))]
    by_cases h : s ≤ a ∧ a ≤ s + W
    · simp [List.filter_cons, h, hk]; omega
    · simp [List.filter_cons, h]

/-! ### The three-quota `RateLimiter` -/

theorem PruneRel.mono {l l' : Limiter κ} {hi hi' : Nat} (h : PruneRel l l' hi) (hh : hi ≤ hi') :
    PruneRel l l' hi' := by
  refine ⟨h.tau_eq, h.t_eq, ?_, ?_⟩
  · intro k
    rcases h.tat k with he | ⟨hn, v, hv, hle⟩
    · exact Or.inl he
    · exact Or.inr ⟨hn, v, hv, by omega⟩
  · intro k v hv
    have := h.bound k v hv
    omega

/-- One call on a `RateLimiter`. -/
inductive REv where
  | allow (ns : Nat) (kind : LimitKind)
  | prune (ns : Nat)

/-- Runs the calls; returns the final state and the verdicts of the `allows` calls. -/
def rrun (r : RateLimiter) : List REv → RateLimiter × List Verdict
  | [] => (r, [])
  | .allow ns kind :: es => ((rrun (r.allows ns kind).1 es).1, (r.allows ns kind).2 :: (rrun (r.allows ns kind).1 es).2)
  | .prune ns :: es => rrun (r.prune ns) es

def rstrip : List REv → List REv
  | [] => []
  | .allow ns kind :: es => .allow ns kind :: rstrip es
  | .prune _ :: es => rstrip es

/-- Times never decrease and stay far from `u64` overflow (`B` bounds every `tau`). -/
def RTimed (B : Nat) : Nat → List REv → Prop
  | _, [] => True
  | lo, .allow ns _ :: es => lo ≤ ns ∧ ns + 2 * B < U64 ∧ RTimed B ns es
  | lo, .prune ns :: es => lo ≤ ns ∧ ns < U64 ∧ RTimed B ns es

/-- `PruneRel` for an optional limiter, with `t ≤ tau ≤ B`. -/
def OptRel (B : Nat) (o o' : Option (Limiter Nat)) (hi : Nat) : Prop :=
  (o = none ∧ o' = none) ∨ ∃ l l', o = some l ∧ o' = some l' ∧ PruneRel l l' hi ∧ l.t ≤ l.tau ∧ l.tau ≤ B

structure RRel (B : Nat) (r r' : RateLimiter) (hi : Nat) : Prop where
  total : PruneRel r.total r'.total hi
  total_wf : r.total.t ≤ r.total.tau ∧ r.total.tau ≤ B
  node : OptRel B r.node r'.node hi
  ip : OptRel B r.ip r'.ip hi

theorem OptRel.mono {B : Nat} {o o' : Option (Limiter Nat)} {hi hi' : Nat} (h : OptRel B o o' hi)
    (hh : hi ≤ hi') : OptRel B o o' hi' := by
  rcases h with h | ⟨l, l', h1, h2, h3, h4⟩
  · exact Or.inl h
  · exact Or.inr ⟨l, l', h1, h2, h3.mono hh, h4⟩

theorem optRel_prune {B : Nat} {o o' : Option (Limiter Nat)} {hi lim : Nat} (h : OptRel B o o' hi)
    (hh : hi ≤ lim) (hl : lim < U64) : OptRel B (o.map (·.prune lim)) o' lim := by
  rcases h with ⟨rfl, rfl⟩ | ⟨l, l', rfl, rfl, h3, h4⟩
  · left; exact ⟨rfl, rfl⟩
  · right
    exact ⟨l.prune lim, l', rfl, rfl, pruneRel_prune h3 hh hl, h4⟩

/-- Verdict of an optional limiter (`None` lets everything pass). -/
def optVerdict (o : Option (Limiter Nat)) (now key : Nat) : Verdict :=
  match o with
  | some lim => (lim.allows now key 1).2
  | none => .ok

def optNext (o : Option (Limiter Nat)) (now key : Nat) : Option (Limiter Nat) :=
  o.map fun lim => (lim.allows now key 1).1

theorem allows_node (r : RateLimiter) (now id : Nat) :
    r.allows now (.nodeId id) = ({ r with node := optNext r.node now id }, optVerdict r.node now id) := by
  obtain ⟨tot, node, ipl⟩ := r
  unfold RateLimiter.allows optNext optVerdict
  cases node <;> rfl

theorem allows_ip (r : RateLimiter) (now ip : Nat) :
    r.allows now (.ip ip) = ({ r with ip := optNext r.ip now ip }, optVerdict r.ip now ip) := by
  obtain ⟨tot, node, ipl⟩ := r
  unfold RateLimiter.allows optNext optVerdict
  cases ipl <;> rfl

theorem optRel_allows {B : Nat} {o o' : Option (Limiter Nat)} {hi now : Nat} (key : Nat)
    (h : OptRel B o o' hi) (hh : hi ≤ now) (hn : now + 2 * B < U64) :
    optVerdict o now key = optVerdict o' now key ∧ OptRel B (optNext o now key) (optNext o' now key) now := by
  rcases h with ⟨rfl, rfl⟩ | ⟨l, l', rfl, rfl, h3, h4, h5⟩
  · exact ⟨rfl, Or.inl ⟨rfl, rfl⟩⟩
  · have := pruneRel_arrive key 1 h3 hh (by omega) (by omega)
    refine ⟨this.1, Or.inr ⟨_, _, rfl, rfl, this.2, ?_⟩⟩
    rw [allows_t, allows_tau]; exact ⟨h4, h5⟩

theorem rrel_allows {B : Nat} {r r' : RateLimiter} {hi now : Nat} (kind : LimitKind)
    (h : RRel B r r' hi) (hh : hi ≤ now) (hn : now + 2 * B < U64) :
    (r.allows now kind).2 = (r'.allows now kind).2 ∧ RRel B (r.allows now kind).1 (r'.allows now kind).1 now := by
  cases kind with
  | total =>
    have := pruneRel_arrive () 1 h.total hh (by have := h.total_wf; omega) (by have := h.total_wf; omega)
    refine ⟨this.1, ⟨this.2, ?_, h.node.mono hh, h.ip.mono hh⟩⟩
    show ((r.total.allows now () 1).1.t ≤ (r.total.allows now () 1).1.tau ∧ (r.total.allows now () 1).1.tau ≤ B)
    rw [allows_t, allows_tau]; exact h.total_wf
  | nodeId id =>
    have := optRel_allows id h.node hh hn
    rw [allows_node, allows_node]
    exact ⟨this.1, ⟨h.total.mono hh, h.total_wf, this.2, h.ip.mono hh⟩⟩
  | ip ipk =>
    have := optRel_allows ipk h.ip hh hn
    rw [allows_ip, allows_ip]
    exact ⟨this.1, ⟨h.total.mono hh, h.total_wf, h.node.mono hh, this.2⟩⟩

theorem rrel_prune {B : Nat} {r r' : RateLimiter} {hi lim : Nat} (h : RRel B r r' hi)
    (hh : hi ≤ lim) (hl : lim < U64) : RRel B (r.prune lim) r' lim :=
  ⟨pruneRel_prune h.total hh hl, h.total_wf, optRel_prune h.node hh hl, optRel_prune h.ip hh hl⟩

theorem rrel_run {B : Nat} {r r' : RateLimiter} {hi : Nat} (es : List REv)
    (h : RRel B r r' hi) (hT : RTimed B hi es) : (rrun r es).2 = (rrun r' (rstrip es)).2 := by
  induction es generalizing r r' hi with
  | nil => rfl
  | cons e es ih =>
    cases e with
    | allow ns kind =>
      obtain ⟨h1, h2, h3⟩ := hT
      have hs := rrel_allows kind h h1 h2
      simp only [rstrip, rrun]
      rw [hs.1, ih hs.2 h3]
    | prune ns =>
      obtain ⟨h1, h2, h3⟩ := hT
      simp only [rstrip, rrun]
      exact ih (rrel_prune h h1 h2) h3

theorem fromQuota_rel {α : Type} [DecidableEq α] {n p : Nat} {l : Limiter α} (lo : Nat)
    (hq : fromQuota n p = some l) : PruneRel l l lo ∧ l.t ≤ l.tau := by
  obtain ⟨rfl, hn, hp, _⟩ := fromQuota_eq hq
  exact ⟨pruneRel_refl _ lo (fun k v hv => by simp [fresh] at hv), Nat.div_le_self _ _⟩

theorem optFromQuota_rel {q : Option (Nat × Nat)} {o : Option (Limiter Nat)} (B lo : Nat)
    (hq : optFromQuota q = some o) (hB : ∀ l, o = some l → l.tau ≤ B) : OptRel B o o lo := by
  unfold optFromQuota at hq
  cases q with
  | none => simp at hq; subst hq; exact Or.inl ⟨rfl, rfl⟩
  | some q =>
    obtain ⟨n, p⟩ := q
    simp only [] at hq
    cases hf : (fromQuota n p : Option (Limiter Nat)) with
    | none => simp [hf] at hq
    | some l =>
      simp [hf] at hq
      subst hq
      exact Or.inr ⟨l, l, rfl, rfl, (fromQuota_rel lo hf).1, (fromQuota_rel lo hf).2, hB l rfl⟩

theorem rrel_build {total node ip : Option (Nat × Nat)} {r : RateLimiter}
    (h : RateLimiter.build total node ip = some r) (B : Nat) (hB : r.total.tau ≤ B)
    (hBn : ∀ l, r.node = some l → l.tau ≤ B) (hBi : ∀ l, r.ip = some l → l.tau ≤ B) (lo : Nat) :
    RRel B r r lo := by
  unfold RateLimiter.build at h
  cases total with
  | none => simp at h
  | some q =>
    obtain ⟨n, p⟩ := q
    simp only [] at h
    cases ht : (fromQuota n p : Option (Limiter Unit)) with
    | none => simp [ht] at h
    | some tl =>
      cases hn : optFromQuota node with
      | none => simp [ht, hn] at h
      | some nodeRl =>
        cases hi : optFromQuota ip with
        | none => simp [ht, hn, hi] at h
        | some ipRl =>
          simp only [ht, hn, hi] at h
          injection h with h
          subst h
          exact ⟨(fromQuota_rel lo ht).1, ⟨(fromQuota_rel lo ht).2, hB⟩,
            optFromQuota_rel B lo hn hBn, optFromQuota_rel B lo hi hBi⟩

end Discv5.Limiter

/-! ## The two-stage filter -/

namespace Discv5.Filter
open Discv5.Limiter

/-- One operation on the filter and the global lists. -/
inductive FOp where
  | initial (now : Nat) (ip : Ip)
  | final (now : Nat) (ip : Ip) (node : NodeId)
  | inbound (now : Nat) (permitted : Bool) (ip : Ip) (d : Decoded)
  | prune (now : Nat)
  | sweep (now : Nat)

def FOp.time : FOp → Nat
  | .initial now _ => now
  | .final now _ _ => now
  | .inbound now _ _ _ => now
  | .prune now => now
  | .sweep now => now

def FOp.isSweep : FOp → Bool
  | .sweep _ => true
  | _ => false

/-- Executes one operation. -/
def fstep (s : Filter × PermitBan) : FOp → Filter × PermitBan
  | .initial now ip => ((s.1.initialPass s.2 now ip).1, (s.1.initialPass s.2 now ip).2.1)
  | .final now ip node => ((s.1.finalPass s.2 now ip node).1, (s.1.finalPass s.2 now ip node).2.1)
  | .inbound now permitted ip d =>
    ((handleInbound s.1 s.2 now permitted ip d).1, (handleInbound s.1 s.2 now permitted ip d).2.1)
  | .prune now => (s.1.pruneLimiter now, s.2)
  | .sweep now => (s.1, s.2.sweep now)

def frun (s : Filter × PermitBan) : List FOp → Filter × PermitBan
  | [] => s
  | op :: ops => frun (fstep s op) ops

/-- A ban map changed at most by inserting `to` somewhere. -/
def BanStep (m m' : Nat → Option (Option Nat)) (to : Option Nat) : Prop :=
  ∀ k, m' k = m k ∨ m' k = some to

theorem BanStep.refl (m : Nat → Option (Option Nat)) (to : Option Nat) : BanStep m m to :=
  fun _ => Or.inl rfl

theorem banStep_insert (m : Nat → Option (Option Nat)) (key : Nat) (to : Option Nat) :
    BanStep m (banInsert m key to) to := by
  intro k
  unfold banInsert
  by_cases h : k = key
  · right; simp [h]
  · left; simp [h]

theorem BanStep.trans {m m' m'' : Nat → Option (Option Nat)} {to : Option Nat}
    (h1 : BanStep m m' to) (h2 : BanStep m' m'' to) : BanStep m m'' to := by
  intro k
  rcases h2 k with h | h
  · rw [h]; exact h1 k
  · exact Or.inr h

/-- What one call may do to the lists: permit sets untouched, ban maps only gain entries
`banTimeout now`, and the configured ban duration stays. -/
structure Effect (f : Filter) (pb : PermitBan) (now : Nat) (f' : Filter) (pb' : PermitBan) : Prop where
  dur : f'.banDuration = f.banDuration
  permitIps : pb'.permitIps = pb.permitIps
  permitNodes : pb'.permitNodes = pb.permitNodes
  ips : BanStep pb.banIps pb'.banIps (f.banTimeout now)
  nodes : BanStep pb.banNodes pb'.banNodes (f.banTimeout now)

theorem Effect.refl (f : Filter) (pb : PermitBan) (now : Nat) : Effect f pb now f pb :=
  ⟨rfl, rfl, rfl, BanStep.refl _ _, BanStep.refl _ _⟩

theorem Effect.trans {f f' f'' : Filter} {pb pb' pb'' : PermitBan} {now : Nat}
    (h1 : Effect f pb now f' pb') (h2 : Effect f' pb' now f'' pb'') : Effect f pb now f'' pb'' := by
  have hto : f'.banTimeout now = f.banTimeout now := by unfold Filter.banTimeout; rw [h1.dur]
  refine ⟨h2.dur.trans h1.dur, h2.permitIps.trans h1.permitIps, h2.permitNodes.trans h1.permitNodes,
    h1.ips.trans (hto ▸ h2.ips), h1.nodes.trans (hto ▸ h2.nodes)⟩

/-! ### `initial_pass` -/

theorem initialPass_permit (f : Filter) (pb : PermitBan) (now : Nat) (ip : Ip)
    (hp : pb.permitIps ip = true) : f.initialPass pb now ip = (f, pb, true) := by
  unfold Filter.initialPass; rw [if_pos hp]

theorem initialPass_banned (f : Filter) (pb : PermitBan) (now : Nat) (ip : Ip)
    (hp : pb.permitIps ip = false) (hb : (pb.banIps ip).isSome = true) :
    f.initialPass pb now ip = (f, pb, false) := by
  unfold Filter.initialPass; rw [if_neg (by simp [hp]), if_pos hb]

theorem initialPass_excess (f : Filter) (pb : PermitBan) (now : Nat) (ip : Ip) (rl : RateLimiter)
    (hp : pb.permitIps ip = false) (hb : (pb.banIps ip).isSome = false) (he : f.enabled = true)
    (hr : f.rateLimiter = some rl) (hx : (rl.allows now (.ip ip)).2.isOk = false) :
    f.initialPass pb now ip =
      ({ f with rateLimiter := some (rl.allows now (.ip ip)).1 },
       { pb with banIps := banInsert pb.banIps ip (f.banTimeout now) }, false) := by
  unfold Filter.initialPass
  rw [if_neg (by simp [hp]), if_neg (by simp [hb]), if_neg (by simp [he])]
  simp only [hr]
  rw [if_pos (by simp [hx])]

theorem initialPass_effect (f : Filter) (pb : PermitBan) (now : Nat) (ip : Ip) :
    Effect f pb now (f.initialPass pb now ip).1 (f.initialPass pb now ip).2.1 := by
  unfold Filter.initialPass
  by_cases hp : pb.permitIps ip = true
  · rw [if_pos hp]; exact Effect.refl _ _ _
  · rw [if_neg hp]
    by_cases hb : (pb.banIps ip).isSome = true
    · rw [if_pos hb]; exact Effect.refl _ _ _
    · rw [if_neg hb]
      by_cases he : (!f.enabled) = true
      · rw [if_pos he]; exact Effect.refl _ _ _
      · rw [if_neg he]
        cases hr : f.rateLimiter with
        | none => exact Effect.refl _ _ _
        | some rl =>
          simp only []
          by_cases hx : (!(rl.allows now (.ip ip)).2.isOk) = true
          · rw [if_pos hx]
            exact ⟨rfl, rfl, rfl, banStep_insert _ _ _, BanStep.refl _ _⟩
          · rw [if_neg hx]
            exact ⟨rfl, rfl, rfl, BanStep.refl _ _, BanStep.refl _ _⟩

/-! ### `final_pass` -/

theorem finalPass_permit (f : Filter) (pb : PermitBan) (now : Nat) (ip : Ip) (node : NodeId)
    (hp : pb.permitNodes node = true) : f.finalPass pb now ip node = (f, pb, true) := by
  unfold Filter.finalPass; rw [if_pos hp]

theorem finalPass_banned (f : Filter) (pb : PermitBan) (now : Nat) (ip : Ip) (node : NodeId)
    (hp : pb.permitNodes node = false) (hb : (pb.banNodes node).isSome = true) :
    f.finalPass pb now ip node = (f, pb, false) := by
  unfold Filter.finalPass; rw [if_neg (by simp [hp]), if_pos hb]

theorem countBan_effect (f : Filter) (pb : PermitBan) (now : Nat) (ip : Ip) (maxBans : Nat) :
    Effect f pb now (f.countBan pb now ip maxBans).1 (f.countBan pb now ip maxBans).2 ∧
    (f.countBan pb now ip maxBans).2.banNodes = pb.banNodes := by
  unfold Filter.countBan
  cases f.bannedNodes.find? ip with
  | none => exact ⟨Effect.refl _ _ _ |>.trans ⟨rfl, rfl, rfl, BanStep.refl _ _, BanStep.refl _ _⟩, rfl⟩
  | some count =>
    simp only []
    by_cases h : count + 1 ≥ maxBans
    · rw [if_pos h]
      exact ⟨⟨rfl, rfl, rfl, banStep_insert _ _ _, BanStep.refl _ _⟩, rfl⟩
    · rw [if_neg h]
      exact ⟨⟨rfl, rfl, rfl, BanStep.refl _ _, BanStep.refl _ _⟩, rfl⟩

theorem nodeExcess_spec (f : Filter) (pb : PermitBan) (now : Nat) (ip : Ip) (node : NodeId) :
    (f.nodeExcess pb now ip node).2.2 = false ∧
    (f.nodeExcess pb now ip node).2.1.banNodes = banInsert pb.banNodes node (f.banTimeout now) ∧
    Effect f pb now (f.nodeExcess pb now ip node).1 (f.nodeExcess pb now ip node).2.1 := by
  unfold Filter.nodeExcess
  have hstep : Effect f pb now f { pb with banNodes := banInsert pb.banNodes node (f.banTimeout now) } :=
    ⟨rfl, rfl, rfl, BanStep.refl _ _, banStep_insert _ _ _⟩
  cases f.maxBansPerIp with
  | none => exact ⟨rfl, rfl, hstep⟩
  | some maxBans =>
    have := countBan_effect f { pb with banNodes := banInsert pb.banNodes node (f.banTimeout now) }
      now ip maxBans
    exact ⟨rfl, this.2, hstep.trans this.1⟩

theorem nodesPerIp_effect (f : Filter) (pb : PermitBan) (now : Nat) (ip : Ip) (node : NodeId)
    (maxNodes : Nat) :
    Effect f pb now (f.nodesPerIp pb now ip node maxNodes).1 (f.nodesPerIp pb now ip node maxNodes).2.1 := by
  unfold Filter.nodesPerIp
  cases f.knownAddrs.find? ip with
  | none =>
    simp only []
    by_cases h : 1 ≥ maxNodes
    · rw [if_pos h]; exact ⟨rfl, rfl, rfl, banStep_insert _ _ _, BanStep.refl _ _⟩
    · rw [if_neg h]; exact ⟨rfl, rfl, rfl, BanStep.refl _ _, BanStep.refl _ _⟩
  | some ids =>
    simp only []
    by_cases h : (if ids.contains node = true then ids else ids ++ [node]).length ≥ maxNodes
    · rw [if_pos h]; exact ⟨rfl, rfl, rfl, banStep_insert _ _ _, BanStep.refl _ _⟩
    · rw [if_neg h]; exact ⟨rfl, rfl, rfl, BanStep.refl _ _, BanStep.refl _ _⟩

theorem finalTail_effect (f : Filter) (pb : PermitBan) (now : Nat) (ip : Ip) (node : NodeId) :
    Effect f pb now (f.finalTail pb now ip node).1 (f.finalTail pb now ip node).2.1 := by
  unfold Filter.finalTail
  cases f.maxNodesPerIp with
  | none => exact Effect.refl _ _ _
  | some maxNodes => exact nodesPerIp_effect f pb now ip node maxNodes

theorem finalPass_excess (f : Filter) (pb : PermitBan) (now : Nat) (ip : Ip) (node : NodeId)
    (rl : RateLimiter)
    (hp : pb.permitNodes node = false) (hb : (pb.banNodes node).isSome = false)
    (he : f.enabled = true) (hr : f.rateLimiter = some rl)
    (hx : (rl.allows now (.nodeId node)).2.isOk = false) :
    (f.finalPass pb now ip node).2.2 = false ∧
    (f.finalPass pb now ip node).2.1.banNodes node = some (f.banTimeout now) := by
  unfold Filter.finalPass
  rw [if_neg (by simp [hp]), if_neg (by simp [hb]), if_neg (by simp [he])]
  simp only [hr]
  rw [if_pos (by simp [hx])]
  have := nodeExcess_spec { f with rateLimiter := some (rl.allows now (.nodeId node)).1 } pb now ip node
  refine ⟨this.1, ?_⟩
  rw [this.2.1]
  simp [banInsert, Filter.banTimeout]

theorem finalPass_effect (f : Filter) (pb : PermitBan) (now : Nat) (ip : Ip) (node : NodeId) :
    Effect f pb now (f.finalPass pb now ip node).1 (f.finalPass pb now ip node).2.1 := by
  unfold Filter.finalPass
  by_cases hp : pb.permitNodes node = true
  · rw [if_pos hp]; exact Effect.refl _ _ _
  · rw [if_neg hp]
    by_cases hb : (pb.banNodes node).isSome = true
    · rw [if_pos hb]; exact Effect.refl _ _ _
    · rw [if_neg hb]
      by_cases he : (!f.enabled) = true
      · rw [if_pos he]; exact Effect.refl _ _ _
      · rw [if_neg he]
        cases hr : f.rateLimiter with
        | none => exact finalTail_effect f pb now ip node
        | some rl =>
          simp only []
          have h0 : Effect f pb now { f with rateLimiter := some (rl.allows now (.nodeId node)).1 } pb :=
            ⟨rfl, rfl, rfl, BanStep.refl _ _, BanStep.refl _ _⟩
          by_cases hx : (!(rl.allows now (.nodeId node)).2.isOk) = true
          · rw [if_pos hx]
            exact h0.trans (nodeExcess_spec _ pb now ip node).2.2
          · rw [if_neg hx]
            exact h0.trans (finalTail_effect _ pb now ip node)

/-! ### `handle_inbound` -/

theorem handleInbound_permitted (f : Filter) (pb : PermitBan) (now : Nat) (ip : Ip) (d : Decoded) :
    handleInbound f pb now true ip d =
      (f, pb, match d with | .garbage => Outcome.unrecognized | _ => Outcome.inbound) := by
  unfold handleInbound
  cases d <;> simp

theorem handleInbound_effect (f : Filter) (pb : PermitBan) (now : Nat) (permitted : Bool) (ip : Ip)
    (d : Decoded) :
    Effect f pb now (handleInbound f pb now permitted ip d).1 (handleInbound f pb now permitted ip d).2.1 := by
  cases permitted with
  | true => rw [handleInbound_permitted]; exact Effect.refl _ _ _
  | false =>
    unfold handleInbound
    simp only [Bool.false_eq_true, if_false]
    have h1 := initialPass_effect f pb now ip
    by_cases hok : (!(f.initialPass pb now ip).2.2) = true
    · rw [if_pos hok]; exact h1
    · rw [if_neg hok]
      cases d with
      | garbage => exact h1
      | noSrc => exact h1
      | src node =>
        simp only []
        have h2 := finalPass_effect (f.initialPass pb now ip).1 (f.initialPass pb now ip).2.1 now ip node
        by_cases hf : ((f.initialPass pb now ip).1.finalPass (f.initialPass pb now ip).2.1 now ip node).2.2 = true
        · rw [if_pos hf]; exact h1.trans h2
        · rw [if_neg hf]; exact h1.trans h2

/-! ### The ban sweep and the life time of a ban -/

theorem sweepMap_spec (m : Nat → Option (Option Nat)) (now k : Nat) :
    (sweepMap m now k = m k ∧ (∀ e, m k = some (some e) → now < e)) ∨
    (sweepMap m now k = none ∧ ∃ e, m k = some (some e) ∧ e ≤ now) := by
  unfold sweepMap
  cases h : m k with
  | none => left; simp
  | some o =>
    cases o with
    | none => left; simp
    | some e =>
      simp only []
      by_cases hn : now < e
      · rw [if_pos hn]; left; exact ⟨rfl, fun e' he' => by injection he' with he'; injection he' with he'; omega⟩
      · rw [if_neg hn]; right; exact ⟨rfl, e, rfl, by omega⟩

/-- `key` is banned in `m` at least until `D`. -/
def BannedUntil (m : Nat → Option (Option Nat)) (key D : Nat) : Prop :=
  ∃ e, m key = some e ∧ ∀ x, e = some x → D ≤ x

theorem bannedUntil_step {m m' : Nat → Option (Option Nat)} {to : Option Nat} {key D : Nat}
    (h : BannedUntil m key D) (hs : BanStep m m' to) (hto : ∀ x, to = some x → D ≤ x) :
    BannedUntil m' key D := by
  rcases hs key with h1 | h1
  · obtain ⟨e, he, hx⟩ := h; exact ⟨e, by rw [h1, he], hx⟩
  · exact ⟨to, h1, hto⟩

theorem bannedUntil_sweep {m : Nat → Option (Option Nat)} {key D now : Nat}
    (h : BannedUntil m key D) (hn : now < D) : BannedUntil (sweepMap m now) key D := by
  obtain ⟨e, he, hx⟩ := h
  rcases sweepMap_spec m now key with ⟨h1, _⟩ | ⟨_, e', he', hle⟩
  · exact ⟨e, by rw [h1, he], hx⟩
  · rw [he] at he'
    injection he' with he'
    have := hx e' he'
    omega

theorem fstep_effect (s : Filter × PermitBan) (op : FOp) (hs : op.isSweep = false) :
    Effect s.1 s.2 op.time (fstep s op).1 (fstep s op).2 := by
  cases op with
  | initial now ip => exact initialPass_effect _ _ _ _
  | final now ip node => exact finalPass_effect _ _ _ _ _
  | inbound now permitted ip d => exact handleInbound_effect _ _ _ _ _ _
  | prune now => exact ⟨rfl, rfl, rfl, BanStep.refl _ _, BanStep.refl _ _⟩
  | sweep now => simp [FOp.isSweep] at hs

theorem fstep_dur (s : Filter × PermitBan) (op : FOp) : (fstep s op).1.banDuration = s.1.banDuration := by
  cases h : op.isSweep with
  | false => exact (fstep_effect s op h).dur
  | true => cases op <;> simp [FOp.isSweep] at h; rfl

/-- Operations admissible while a ban that must last until `D` is in force: every operation
happens at a time `now` with `D ≤ now + ban_duration` (true for all `now ≥` the time the ban was
created when `D` = that time + `ban_duration`), sweeps happen before `D`. -/
def Before (dur : Option Nat) (D : Nat) : List FOp → Prop
  | [] => True
  | op :: ops => (∀ d, dur = some d → D ≤ op.time + d) ∧ (op.isSweep = true → op.time < D) ∧ Before dur D ops

theorem banned_ip_persists (s : Filter × PermitBan) (ip D : Nat) (ops : List FOp)
    (hb : BannedUntil s.2.banIps ip D) (ho : Before s.1.banDuration D ops) :
    BannedUntil (frun s ops).2.banIps ip D := by
  induction ops generalizing s with
  | nil => exact hb
  | cons op ops ih =>
    obtain ⟨h1, h2, h3⟩ := ho
    simp only [frun]
    apply ih
    · cases hsw : op.isSweep with
      | false =>
        have he := fstep_effect s op hsw
        refine bannedUntil_step hb he.ips ?_
        intro x hx
        unfold Filter.banTimeout at hx
        cases hd : s.1.banDuration with
        | none => simp [hd] at hx
        | some d => simp [hd] at hx; have := h1 d hd; omega
      | true =>
        cases op with
        | sweep now => exact bannedUntil_sweep hb (h2 hsw)
        | _ => simp [FOp.isSweep] at hsw
    · rw [fstep_dur]; exact h3

theorem banned_node_persists (s : Filter × PermitBan) (node D : Nat) (ops : List FOp)
    (hb : BannedUntil s.2.banNodes node D) (ho : Before s.1.banDuration D ops) :
    BannedUntil (frun s ops).2.banNodes node D := by
  induction ops generalizing s with
  | nil => exact hb
  | cons op ops ih =>
    obtain ⟨h1, h2, h3⟩ := ho
    simp only [frun]
    apply ih
    · cases hsw : op.isSweep with
      | false =>
        have he := fstep_effect s op hsw
        refine bannedUntil_step hb he.nodes ?_
        intro x hx
        unfold Filter.banTimeout at hx
        cases hd : s.1.banDuration with
        | none => simp [hd] at hx
        | some d => simp [hd] at hx; have := h1 d hd; omega
      | true =>
        cases op with
        | sweep now => exact bannedUntil_sweep hb (h2 hsw)
        | _ => simp [FOp.isSweep] at hsw
    · rw [fstep_dur]; exact h3

end Discv5.Filter

/-
Helper definitions and lemmas for C18 (GCRA limiter, two-stage filter).

Vocabulary.  A *history* `H : Hist` is the list of the accepted arrivals `(time, tokens)` of one
key, newest first.  `specTat t H` is the theoretical arrival time the code must hold for that
key, `sums H` pairs every accepted arrival with the number of tokens accepted from it up to the
newest one (`n − i + 1` when every arrival costs one token), `tokensIn H s W` counts the tokens
accepted in the window `[s, s + W]`.
-/
import Discv5Model.Model.Filter

namespace Discv5.Limiter

variable {κ : Type} [DecidableEq κ]

/-! ### Histories -/

abbrev Hist := List (Nat × Nat)

/-- The TAT after the accepted arrivals `H` (newest first): `tat' = max(now, tat) + tokens·t`. -/
def specTat (t : Nat) : Hist → Nat
  | [] => 0
  | (a, k) :: r => max a (specTat t r) + k * t

/-- `(aᵢ, Sᵢ)`: arrival time and the tokens accepted from arrival `i` up to the newest one. -/
def sums : Hist → List (Nat × Nat)
  | [] => []
  | (a, k) :: r => (a, k) :: (sums r).map (fun p => (p.1, p.2 + k))

/-- Maximum of a list (0 for the empty list). -/
def maxL : List Nat → Nat
  | [] => 0
  | x :: xs => max x (maxL xs)

/-- Tokens accepted in the window `[s, s + W]`. -/
def tokensIn (H : Hist) (s W : Nat) : Nat :=
  ((H.filter (fun p => decide (s ≤ p.1 ∧ p.1 ≤ s + W))).map (·.2)).sum

/-- Every accepted arrival satisfied, when it came, the GCRA condition against all older ones, and
the times are sorted. -/
def Conf (tau t : Nat) : Hist → Prop
  | [] => True
  | (a, k) :: r =>
    (k * t ≤ tau ∧ ∀ p ∈ sums r, (p.2 + k) * t ≤ (a - p.1) + tau) ∧ (∀ p ∈ r, p.1 ≤ a) ∧ Conf tau t r

theorem maxL_le_iff (xs : List Nat) (B : Nat) : maxL xs ≤ B ↔ ∀ x ∈ xs, x ≤ B := by
  induction xs with
  | nil => simp [maxL]
  | cons x xs ih =>
    simp only [maxL, List.mem_cons, forall_eq_or_imp]
    rw [← ih]; omega

theorem specTat_le_iff (t : Nat) (H : Hist) (B : Nat) :
    specTat t H ≤ B ↔ ∀ p ∈ sums H, p.1 + p.2 * t ≤ B := by
  induction H generalizing B with
  | nil => simp [specTat, sums]
  | cons x r ih =>
    obtain ⟨a, k⟩ := x
    simp only [specTat, sums, List.mem_cons, List.mem_map, forall_eq_or_imp]
    constructor
    · intro h
      refine ⟨by omega, ?_⟩
      rintro p ⟨q, hq, rfl⟩
      have := (ih (specTat t r)).mp (Nat.le_refl _) q hq
      simp only [Nat.add_mul]
      omega
    · rintro ⟨h1, h2⟩
      have : specTat t r ≤ B - k * t := by
        apply (ih _).mpr
        intro q hq
        have := h2 (q.1, q.2 + k) ⟨q, hq, rfl⟩
        simp only [Nat.add_mul] at this
        omega
      omega

/-- Closed form: `tat = maxᵢ (aᵢ + Sᵢ·t)`. -/
theorem specTat_eq_max (t : Nat) (H : Hist) :
    specTat t H = maxL ((sums H).map (fun p => p.1 + p.2 * t)) := by
  apply Nat.le_antisymm
  · rw [specTat_le_iff]
    intro p hp
    exact (maxL_le_iff _ _).mp (Nat.le_refl _) _ (List.mem_map.mpr ⟨p, hp, rfl⟩)
  · rw [maxL_le_iff]
    intro x hx
    obtain ⟨p, hp, rfl⟩ := List.mem_map.mp hx
    exact (specTat_le_iff t H _).mp (Nat.le_refl _) p hp

theorem sums_length (H : Hist) : (sums H).length = H.length := by
  induction H with
  | nil => rfl
  | cons x r ih => obtain ⟨a, k⟩ := x; simp [sums, ih]

/-- The times in `sums H` are the times in `H`. -/
theorem sums_time_mem {H : Hist} {p : Nat × Nat} (hp : p ∈ sums H) : ∃ e ∈ H, e.1 = p.1 := by
  induction H generalizing p with
  | nil => simp [sums] at hp
  | cons x r ih =>
    obtain ⟨a, k⟩ := x
    simp only [sums, List.mem_cons, List.mem_map] at hp
    rcases hp with rfl | ⟨q, hq, rfl⟩
    · exact ⟨(a, k), by simp, rfl⟩
    · obtain ⟨e, he, h⟩ := ih hq
      exact ⟨e, List.mem_cons_of_mem _ he, h⟩

/-- With one token per arrival `Sⱼ = j + 1` (`j = 0` is the newest arrival). -/
theorem sums_getElem_unit (H : Hist) (h1 : ∀ p ∈ H, p.2 = 1) (j : Nat) (hj : j < H.length) :
    (sums H)[j]'(by rw [sums_length]; exact hj) = (H[j].1, j + 1) := by
  induction H generalizing j with
  | nil => simp at hj
  | cons x r ih =>
    obtain ⟨a, k⟩ := x
    have hk : k = 1 := h1 (a, k) (by simp)
    cases j with
    | zero => simp [sums, hk]
    | succ j =>
      simp only [sums, List.getElem_cons_succ, List.getElem_map]
      rw [ih (fun p hp => h1 p (List.mem_cons_of_mem _ hp)) j (by simpa using hj)]
      simp [hk]

theorem mem_sums_unit (H : Hist) (h1 : ∀ p ∈ H, p.2 = 1) (p : Nat × Nat) :
    p ∈ sums H ↔ ∃ j, ∃ hj : j < H.length, p = (H[j].1, j + 1) := by
  constructor
  · intro hp
    obtain ⟨j, hj, rfl⟩ := List.getElem_of_mem hp
    have hj' : j < H.length := by rw [sums_length] at hj; exact hj
    exact ⟨j, hj', sums_getElem_unit H h1 j hj'⟩
  · rintro ⟨j, hj, rfl⟩
    rw [← sums_getElem_unit H h1 j hj]
    exact List.getElem_mem _

/-! ### The step without machine arithmetic -/

/-- `Limiter::allows` over unbounded naturals. -/
def allowsI (l : Limiter κ) (now : Nat) (key : κ) (tokens : Nat) : Limiter κ × Verdict :=
  if l.t * tokens > l.tau then (l, .tooLarge)
  else if now + l.tau < (l.tat key).getD now + l.t * tokens then
    ({ l with tat := setTat l.tat key ((l.tat key).getD now) },
     .tooSoon ((l.tat key).getD now + l.t * tokens - l.tau - now))
  else
    ({ l with tat := setTat l.tat key (max now ((l.tat key).getD now) + l.t * tokens) }, .ok)

/-- Far from `u64` overflow the code computes `allowsI`. -/
theorem allows_eq_allowsI (l : Limiter κ) (now : Nat) (key : κ) (tokens : Nat)
    (hn : now + 2 * l.tau < U64) (hk : l.t * tokens < U64)
    (hv : ∀ v, l.tat key = some v → v ≤ now + l.tau) :
    l.allows now key tokens = allowsI l now key tokens := by
  have hnow : now % U64 = now := Nat.mod_eq_of_lt (by omega)
  have hadd : (l.t * tokens) % U64 = l.t * tokens := Nat.mod_eq_of_lt hk
  have htat : (l.tat key).getD now ≤ now + l.tau := by
    cases h : l.tat key with
    | none => simp
    | some v => simpa using hv v h
  unfold Limiter.allows allowsI
  simp only [hnow, hadd]
  by_cases hl : l.t * tokens > l.tau
  · rw [if_pos hl, if_pos hl]
  · rw [if_neg hl, if_neg hl]
    have h1 : ((l.tat key).getD now + l.t * tokens) % U64 = (l.tat key).getD now + l.t * tokens :=
      Nat.mod_eq_of_lt (by omega)
    have h2 : (max now ((l.tat key).getD now) + l.t * tokens) % U64
        = max now ((l.tat key).getD now) + l.t * tokens := Nat.mod_eq_of_lt (by omega)
    rw [h1, h2]
    by_cases hs : now + l.tau < (l.tat key).getD now + l.t * tokens
    · rw [if_pos (by omega), if_pos hs]
    · rw [if_neg (by omega), if_neg hs]

/-! ### Runs -/

/-- A limiter without entries. -/
def fresh (tau t : Nat) : Limiter κ := { tau := tau, t := t, tat := fun _ => none }

theorem fromQuota_eq {n p : Nat} {l : Limiter κ} (h : fromQuota n p = some l) :
    l = fresh p (p / n) ∧ 0 < n ∧ 0 < p ∧ p < U64 := by
  unfold fromQuota at h
  by_cases h0 : n = 0
  · simp [h0] at h
  · by_cases h1 : p = 0
    · simp [h0, h1] at h
    · by_cases h2 : p / n ≥ U64
      · simp [h0, h1, h2] at h
      · by_cases h3 : p ≥ U64
        · simp [h0, h1, h2, h3] at h
        · simp only [h0, h1, h2, h3, if_false] at h
          refine ⟨?_, by omega, by omega, by omega⟩
          injection h with h
          rw [← h]; rfl

/-- Hypotheses on a history: the times (arrivals and prune limits) never decrease, starting at
`lo`, and stay far from `u64` overflow: `now + 2·tau < 2^64`, `t·tokens < 2^64`. -/
def Timed (tau t : Nat) : Nat → List (Ev κ) → Prop
  | _, [] => True
  | lo, .arrive ns _ tokens :: es =>
    lo ≤ ns ∧ ns + 2 * tau < U64 ∧ t * tokens < U64 ∧ Timed tau t ns es
  | lo, .prune ns :: es => lo ≤ ns ∧ ns < U64 ∧ Timed tau t ns es

/-- The time of the last event (or `lo`). -/
def lastTime : Nat → List (Ev κ) → Nat
  | lo, [] => lo
  | _, .arrive ns _ _ :: es => lastTime ns es
  | _, .prune ns :: es => lastTime ns es

/-- The accepted arrivals of `key` (newest first) when `es` runs from `l`, pushed on `H`. -/
def accepted (key : κ) : Limiter κ → Hist → List (Ev κ) → Hist
  | _, H, [] => H
  | l, H, .arrive ns k tokens :: es =>
    accepted key (l.allows ns k tokens).1
      (if k = key ∧ (l.allows ns k tokens).2 = .ok then (ns, tokens) :: H else H) es
  | l, H, .prune ns :: es => accepted key (l.prune ns) H es

/-- All arrivals of `key` (newest first), accepted or not, pushed on `H`. -/
def offered (key : κ) : Hist → List (Ev κ) → Hist
  | H, [] => H
  | H, .arrive ns k tokens :: es => offered key (if k = key then (ns, tokens) :: H else H) es
  | H, .prune _ :: es => offered key H es

/-- The verdicts of the arrivals of `key`. -/
def verdictsOf (key : κ) : Limiter κ → List (Ev κ) → List Verdict
  | _, [] => []
  | l, .arrive ns k tokens :: es =>
    if k = key then (l.allows ns k tokens).2 :: verdictsOf key (l.allows ns k tokens).1 es
    else verdictsOf key (l.allows ns k tokens).1 es
  | l, .prune ns :: es => verdictsOf key (l.prune ns) es

/-- The history without its prune calls. -/
def stripPrune : List (Ev κ) → List (Ev κ)
  | [] => []
  | .arrive ns k tokens :: es => .arrive ns k tokens :: stripPrune es
  | .prune _ :: es => stripPrune es

theorem run_arrive (l : Limiter κ) (ns : Nat) (k : κ) (tokens : Nat) (es : List (Ev κ)) :
    run l (.arrive ns k tokens :: es)
      = ((run (l.allows ns k tokens).1 es).1, (l.allows ns k tokens).2 :: (run (l.allows ns k tokens).1 es).2) := rfl

theorem run_prune (l : Limiter κ) (ns : Nat) (es : List (Ev κ)) :
    run l (.prune ns :: es) = run (l.prune ns) es := rfl

theorem allows_tau (l : Limiter κ) (ns : Nat) (k : κ) (tokens : Nat) :
    (l.allows ns k tokens).1.tau = l.tau := by
  unfold Limiter.allows
  simp only []
  split
  · rfl
  · split <;> rfl

theorem allows_t (l : Limiter κ) (ns : Nat) (k : κ) (tokens : Nat) :
    (l.allows ns k tokens).1.t = l.t := by
  unfold Limiter.allows
  simp only []
  split
  · rfl
  · split <;> rfl

theorem allows_other (l : Limiter κ) (ns : Nat) (k key : κ) (tokens : Nat) (h : key ≠ k) :
    (l.allows ns k tokens).1.tat key = l.tat key := by
  unfold Limiter.allows
  simp only []
  split
  · rfl
  · split <;> simp [setTat, h]

theorem prune_tat (l : Limiter κ) (ns : Nat) (key : κ) :
    (l.prune ns).tat key = match l.tat key with
      | some v => if v ≥ ns % U64 then some v else none
      | none => none := rfl

/-- What the table and the accepted history of `key` have to do with each other. -/
structure Tracks (l : Limiter κ) (key : κ) (H : Hist) (hi : Nat) : Prop where
  some_eq : ∀ v, l.tat key = some v → v = specTat l.t H
  none_le : l.tat key = none → specTat l.t H ≤ hi
  times_le : ∀ p ∈ H, p.1 ≤ hi
  bound : specTat l.t H ≤ hi + l.tau
  conf : Conf l.tau l.t H

theorem Tracks.mono {l : Limiter κ} {key : κ} {H : Hist} {hi hi' : Nat}
    (h : Tracks l key H hi) (hh : hi ≤ hi') : Tracks l key H hi' :=
  ⟨h.some_eq, fun hn => Nat.le_trans (h.none_le hn) hh,
   fun p hp => Nat.le_trans (h.times_le p hp) hh, by have := h.bound; omega, h.conf⟩

theorem tracks_fresh (tau t : Nat) (key : κ) (lo : Nat) : Tracks (fresh tau t) key [] lo :=
  ⟨fun v h => by simp [fresh] at h, fun _ => by simp [specTat], by simp, by simp [specTat],
   by simp [Conf]⟩

theorem Tracks.entry_le {l : Limiter κ} {key : κ} {H : Hist} {hi now : Nat}
    (h : Tracks l key H hi) (hh : hi ≤ now) : ∀ v, l.tat key = some v → v ≤ now + l.tau := by
  intro v hv
  have := h.some_eq v hv
  have := h.bound
  omega

/-- The GCRA decision in terms of the accepted history. -/
theorem allowsI_ok_iff {l : Limiter κ} {key : κ} {H : Hist} {hi now k : Nat}
    (h : Tracks l key H hi) (hh : hi ≤ now) :
    (allowsI l now key k).2 = .ok ↔
      (k * l.t ≤ l.tau ∧ ∀ p ∈ sums H, (p.2 + k) * l.t ≤ (now - p.1) + l.tau) := by
  have hcomm : l.t * k = k * l.t := Nat.mul_comm _ _
  have htimes : ∀ p ∈ sums H, p.1 ≤ now := by
    intro p hp
    obtain ⟨e, he, hep⟩ := sums_time_mem hp
    have := h.times_le e he
    omega
  unfold allowsI
  by_cases hl : l.t * k > l.tau
  · rw [if_pos hl]
    constructor
    · intro hc; cases hc
    · intro hc; omega
  · rw [if_neg hl]
    cases htat : l.tat key with
    | some v =>
      have hv := h.some_eq v htat
      simp only [Option.getD_some]
      by_cases hs : now + l.tau < v + l.t * k
      · rw [if_pos hs]
        constructor
        · intro hc; cases hc
        · rintro ⟨_, hc⟩
          exfalso
          have : specTat l.t H ≤ now + l.tau - k * l.t := by
            apply (specTat_le_iff _ _ _).mpr
            intro p hp
            have h1 := hc p hp
            have h2 := htimes p hp
            simp only [Nat.add_mul] at h1
            omega
          omega
      · rw [if_neg hs]
        refine ⟨fun _ => ⟨by omega, ?_⟩, fun _ => rfl⟩
        intro p hp
        have h1 := (specTat_le_iff l.t H _).mp (Nat.le_refl _) p hp
        have h2 := htimes p hp
        simp only [Nat.add_mul]
        omega
    | none =>
      have hT := h.none_le htat
      simp only [Option.getD_none]
      rw [if_neg (by omega)]
      refine ⟨fun _ => ⟨by omega, ?_⟩, fun _ => rfl⟩
      intro p hp
      have h1 := (specTat_le_iff l.t H _).mp (Nat.le_refl _) p hp
      have h2 := htimes p hp
      simp only [Nat.add_mul]
      omega

/-- One arrival of the tracked key. -/
theorem tracks_step_key {l : Limiter κ} {key : κ} {H : Hist} {hi now k : Nat}
    (h : Tracks l key H hi) (hh : hi ≤ now) (hn : now + 2 * l.tau < U64) (hk : l.t * k < U64) :
    Tracks (l.allows now key k).1 key
      (if (l.allows now key k).2 = .ok then (now, k) :: H else H) now := by
  have hdec := allowsI_ok_iff (k := k) h hh
  rw [allows_eq_allowsI l now key k hn hk (h.entry_le hh)]
  have hcomm : l.t * k = k * l.t := Nat.mul_comm _ _
  unfold allowsI at hdec ⊢
  by_cases hl : l.t * k > l.tau
  · rw [if_pos hl]
    simp only [reduceCtorEq, if_false]
    exact h.mono hh
  · rw [if_neg hl] at hdec ⊢
    by_cases hs : now + l.tau < (l.tat key).getD now + l.t * k
    · rw [if_pos hs]
      simp only [reduceCtorEq, if_false]
      cases htat : l.tat key with
      | none => simp [htat] at hs; omega
      | some v =>
        have hm := h.mono hh
        refine ⟨?_, ?_, hm.times_le, hm.bound, hm.conf⟩
        · intro w hw
          simp [setTat, htat] at hw
          rw [← hw]; exact h.some_eq v htat
        · intro hw; simp [setTat] at hw
    · rw [if_neg hs] at hdec ⊢
      simp only [if_true]
      have hcond := hdec.mp rfl
      have hT : specTat l.t H ≤ now + l.tau ∧
          max now ((l.tat key).getD now) = max now (specTat l.t H) := by
        cases htat : l.tat key with
        | none =>
          have := h.none_le htat
          simp only [Option.getD_none]
          omega
        | some v =>
          have := h.some_eq v htat
          simp only [htat, Option.getD_some] at hs ⊢
          omega
      refine ⟨?_, ?_, ?_, ?_, ?_⟩
      · intro w hw
        simp [setTat] at hw
        simp only [specTat]
        omega
      · intro hw; simp [setTat] at hw
      · intro p hp
        rcases List.mem_cons.mp hp with rfl | hp
        · exact Nat.le_refl _
        · exact Nat.le_trans (h.times_le p hp) hh
      · simp only [specTat]
        cases htat : l.tat key with
        | none =>
          have := h.none_le htat
          omega
        | some v =>
          have := h.some_eq v htat
          simp only [htat, Option.getD_some] at hs
          omega
      · exact ⟨hcond, fun p hp => Nat.le_trans (h.times_le p hp) hh, h.conf⟩

/-- One arrival of another key. -/
theorem tracks_step_other {l : Limiter κ} {key k' : κ} {H : Hist} {hi now : Nat} (tokens : Nat)
    (h : Tracks l key H hi) (hh : hi ≤ now) (hne : key ≠ k') :
    Tracks (l.allows now k' tokens).1 key H now := by
  have hm := h.mono hh
  refine ⟨?_, ?_, hm.times_le, ?_, ?_⟩
  · rw [allows_other _ _ _ _ _ hne, allows_t]; exact hm.some_eq
  · rw [allows_other _ _ _ _ _ hne, allows_t]; exact hm.none_le
  · rw [allows_t, allows_tau]; exact hm.bound
  · rw [allows_t, allows_tau]; exact hm.conf

/-- One prune call. -/
theorem tracks_prune {l : Limiter κ} {key : κ} {H : Hist} {hi lim : Nat}
    (h : Tracks l key H hi) (hh : hi ≤ lim) (hl : lim < U64) :
    Tracks (l.prune lim) key H lim := by
  have hm := h.mono hh
  have hmod : lim % U64 = lim := Nat.mod_eq_of_lt hl
  refine ⟨?_, ?_, hm.times_le, hm.bound, hm.conf⟩
  · intro v hv
    rw [prune_tat, hmod] at hv
    cases htat : l.tat key with
    | none => simp [htat] at hv
    | some w =>
      simp only [htat] at hv
      by_cases hw : w ≥ lim
      · rw [if_pos hw] at hv
        injection hv with hv
        rw [← hv]; exact h.some_eq w htat
      · rw [if_neg hw] at hv; cases hv
  · intro hv
    rw [prune_tat, hmod] at hv
    cases htat : l.tat key with
    | none => exact hm.none_le htat
    | some w =>
      simp only [htat] at hv
      by_cases hw : w ≥ lim
      · rw [if_pos hw] at hv; cases hv
      · have := h.some_eq w htat
        show specTat l.t H ≤ lim
        omega

theorem prune_tau (l : Limiter κ) (ns : Nat) : (l.prune ns).tau = l.tau := rfl
theorem prune_t (l : Limiter κ) (ns : Nat) : (l.prune ns).t = l.t := rfl

theorem run_tau (l : Limiter κ) (es : List (Ev κ)) : (run l es).1.tau = l.tau := by
  induction es generalizing l with
  | nil => rfl
  | cons e es ih =>
    cases e with
    | arrive ns k tokens => rw [run_arrive]; simp only []; rw [ih, allows_tau]
    | prune ns => rw [run_prune, ih, prune_tau]

theorem run_t (l : Limiter κ) (es : List (Ev κ)) : (run l es).1.t = l.t := by
  induction es generalizing l with
  | nil => rfl
  | cons e es ih =>
    cases e with
    | arrive ns k tokens => rw [run_arrive]; simp only []; rw [ih, allows_t]
    | prune ns => rw [run_prune, ih, prune_t]

/-- The tracking relation holds along every timed run. -/
theorem tracks_run {l : Limiter κ} {key : κ} {H : Hist} {lo : Nat} (es : List (Ev κ))
    (h : Tracks l key H lo) (hT : Timed l.tau l.t lo es) :
    Tracks (run l es).1 key (accepted key l H es) (lastTime lo es) := by
  induction es generalizing l H lo with
  | nil => exact h
  | cons e es ih =>
    cases e with
    | arrive ns k tokens =>
      obtain ⟨h1, h2, h3, h4⟩ := hT
      rw [run_arrive]
      simp only [accepted, lastTime]
      have h4' : Timed (l.allows ns k tokens).1.tau (l.allows ns k tokens).1.t ns es := by
        rw [allows_tau, allows_t]; exact h4
      by_cases hk : k = key
      · subst hk
        have := tracks_step_key h h1 h2 h3
        simp only [true_and]
        exact ih this h4'
      · have hne : key ≠ k := fun hc => hk hc.symm
        simp only [hk, false_and, if_false]
        exact ih (tracks_step_other tokens h h1 hne) h4'
    | prune ns =>
      obtain ⟨h1, h2, h3⟩ := hT
      rw [run_prune]
      simp only [accepted, lastTime]
      exact ih (tracks_prune h h1 h2) h3

end Discv5.Limiter

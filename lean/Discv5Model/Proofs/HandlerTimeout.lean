/-
Helper lemmas for C04, clause "a timeout is reported only if some request to that peer really went
unanswered for a full timeout period" (handler model; property theorems in `Props/C04Timeout.lean`).

The model has no send-time stamps, so the bookkeeping is done on the proof side ("ghost" facts):

* walk W (all handler functions, `Ho`/`ho_walk` of `Proofs/HandlerRequests.lean`): relative to the
  state `s0` at the start of the running step, every active call is either untouched or its timer was
  armed in this step — `s0.now + request_timeout ≤ deadline ≤ now + request_timeout` — right with a
  transmission of its packet to its peer (`send_request`, the retransmission in
  `handle_request_timeout`, the handshake packet in `handle_challenge`, the re-encrypted packet in
  `replay_active_requests`), or by re-arming a call of the same request to the same peer that was
  active at the start of the step (a NODES response that announces more, a WHOAREYOU arriving from
  another address) (`Prov`, `W`, `step_W`).  For `replay_active_requests` the nonce discipline of
  the transmission invariant `TI` (`Proofs/HandlerTransmissions.lean`) is needed: the packet map is
  keyed by nonce, and only because different calls carry different nonces the re-encrypted packet
  goes to the peer of the call it is stored in.
* walk K (all functions): a queued request sits under the address of its own contact
  (`pending_keyed`).
* walk B and walk E (timer path only): firing timers never moves the clock past the target of the
  `adv` event, no new requests appear, and every `failed _ timeout` output is justified by an expired
  call (`deadline ≤ target`) with a provenance, to whose peer the failed request was addressed
  (`E`, `step_E`).
* histories as lists of frames (`history`), the origin of every running timer (`Origin`,
  `origin_of_active`) by induction over the history, and from it the trace theorem
  (`timeout_justified'`) and its corollaries.
-/
import Discv5Model.Proofs.HandlerTransmissions

set_option linter.unusedVariables false

namespace Discv5.H.TJ
open Discv5.H.RQ Discv5.H.TX

/-! ## Provenance of the timers of the active requests within one step -/

/-- Where the timer of the active call `cl` comes from, relative to the state `s0` at the start of
the running step and the outputs `os` of the step so far: the call is untouched (`cl ∈ s0.active`),
or its timer was armed during this step (deadline at least `s0.now + request_timeout`), either right
with a transmission of its packet to its peer, or by re-arming a call of the same request to the
same peer that was already active at the start of the step. -/
def Prov (c : Cfg) (s0 : HState) (now : Nat) (os : List Out) (cl : Call) : Prop :=
  cl ∈ s0.active ∨ (s0.now + c.requestTimeout ≤ cl.deadline ∧ cl.deadline ≤ now + c.requestTimeout ∧
    (Out.send (callNA cl) cl.pkt ∈ os ∨ ∃ cl0 ∈ s0.active, cl0.rid = cl.rid ∧ callNA cl0 = callNA cl))

/-- What is known about a request (id, peer, packet) whose timer is about to be armed: its packet
went to the peer in this step (`keep` = outputs known to have been produced), or it continues a
call that was active at the start of the step. -/
def Arm (s0 : HState) (keep : List Out) (rid : Nat) (na : NA) (p : Pkt) : Prop :=
  Out.send na p ∈ keep ∨ ∃ cl0 ∈ s0.active, cl0.rid = rid ∧ callNA cl0 = na

/-- Walk invariant: the outputs in `keep` are still there, time has not run backwards, and every
active call has a provenance. -/
structure W (c : Cfg) (s0 : HState) (keep : List Out) (st : St) : Prop where
  keep : ∀ o ∈ keep, o ∈ st.2
  now : s0.now ≤ st.1.now
  prov : ∀ cl ∈ st.1.active, Prov c s0 st.1.now st.2 cl

variable {c : Cfg} {s0 : HState} {keep : List Out}

theorem Prov.mono {now now' : Nat} {os os' : List Out} {cl : Call} (h : Prov c s0 now os cl)
    (hn : now ≤ now') (ho : ∀ o ∈ os, o ∈ os') : Prov c s0 now' os' cl := by
  rcases h with h | ⟨h1, h3, h2 | h2⟩
  · exact Or.inl h
  · exact Or.inr ⟨h1, Nat.le_trans h3 (Nat.add_le_add_right hn _), Or.inl (ho _ h2)⟩
  · exact Or.inr ⟨h1, Nat.le_trans h3 (Nat.add_le_add_right hn _), Or.inr h2⟩

theorem Prov.arm {now : Nat} {os : List Out} {cl : Call} (h : Prov c s0 now os cl)
    (ho : ∀ o ∈ os, o ∈ keep) : Arm s0 keep cl.rid (callNA cl) cl.pkt := by
  rcases h with h | ⟨_, _, h2 | h2⟩
  · exact Or.inr ⟨cl, h, rfl, rfl⟩
  · exact Or.inl (ho _ h2)
  · exact Or.inr h2

/-- The state may lose active calls, let time pass and produce outputs. -/
theorem W.mono {st st' : St} (h : W c s0 keep st) (ha : ∀ x ∈ st'.1.active, x ∈ st.1.active)
    (hn : st.1.now ≤ st'.1.now) (ho : ∀ o ∈ st.2, o ∈ st'.2) : W c s0 keep st' :=
  ⟨fun o hk => ho o (h.keep o hk), Nat.le_trans h.now hn, fun cl hc => (h.prov cl (ha cl hc)).mono hn ho⟩

theorem W.frame {st st' : St} (h : W c s0 keep st) (ha : st'.1.active = st.1.active)
    (hn : st'.1.now = st.1.now) (ho : st'.2 = st.2) : W c s0 keep st' :=
  h.mono (fun x hx => ha ▸ hx) (Nat.le_of_eq hn.symm) (fun o hm => ho ▸ hm)

/-- Re-parameterise: everything produced so far is kept from now on. -/
theorem W.rekeep {st : St} (h : W c s0 keep st) : W c s0 st.2 st :=
  ⟨fun _ ho => ho, h.now, h.prov⟩

theorem W.unkeep {st : St} {keep' : List Out} (h : W c s0 keep st) (hk : ∀ o ∈ keep', o ∈ keep) :
    W c s0 keep' st :=
  ⟨fun o ho => h.keep o (hk o ho), h.now, h.prov⟩

/-- Pin the outputs produced so far. -/
theorem Ho.pin_outs {α} {P : St → Prop} {m : M α} {Q : α → St → Prop}
    (h : ∀ os1, Ho (fun st => st.2 = os1 ∧ P st) m Q) : Ho P m Q :=
  ⟨fun st hp => (h st.2).out st ⟨rfl, hp⟩⟩

/-! ### leaves -/

theorem W_frame {α} {m : M α}
    (h : ∀ st, (m.run st).2.1.active = st.1.active ∧ (m.run st).2.1.now = st.1.now ∧ (m.run st).2.2 = st.2) :
    Ho (W c s0 keep) m (fun _ => W c s0 keep) :=
  ⟨fun st hp => hp.frame (h st).1 (h st).2.1 (h st).2.2⟩

theorem W_modS (f : HState → HState) (h : ∀ s, (f s).active = s.active ∧ (f s).now = s.now) :
    Ho (W c s0 keep) (modS f) (fun _ => W c s0 keep) :=
  W_frame (fun st => ⟨(h st.1).1, (h st.1).2, rfl⟩)

theorem W_setS_pinned {s1 : HState} (s' : HState) (h1 : s'.active = s1.active) (h2 : s'.now = s1.now) :
    Ho (Pin s1 (W c s0 keep)) (setS s') (fun _ => W c s0 keep) :=
  Ho.setS _ (fun st hp => hp.2.frame (by rw [h1, ← hp.1]) (by rw [h2, ← hp.1]) rfl)

theorem W_emit (o : Out) : Ho (W c s0 keep) (emit o) (fun _ => W c s0 keep) :=
  ⟨fun st hp => hp.mono (fun _ hx => hx) (Nat.le_refl _) (fun _ hm => List.mem_append_left _ hm)⟩
theorem W_send (na : NA) (p : Pkt) : Ho (W c s0 keep) (send na p) (fun _ => W c s0 keep) := W_emit _
theorem W_freshNonce : Ho (W c s0 keep) (freshNonce c) (fun _ => W c s0 keep) := W_frame (fun _ => ⟨rfl, rfl, rfl⟩)
theorem W_freshCd : Ho (W c s0 keep) (freshCd c) (fun _ => W c s0 keep) := W_frame (fun _ => ⟨rfl, rfl, rfl⟩)
theorem W_freshEph : Ho (W c s0 keep) (freshEph c) (fun _ => W c s0 keep) := W_frame (fun _ => ⟨rfl, rfl, rfl⟩)
theorem W_freshRid : Ho (W c s0 keep) (freshRid c) (fun _ => W c s0 keep) := W_frame (fun _ => ⟨rfl, rfl, rfl⟩)
theorem W_addExpected (a) : Ho (W c s0 keep) (addExpected a) (fun _ => W c s0 keep) :=
  W_modS _ (fun s => by by_cases h : s.exempt.any (·.1 == a) <;> simp [h])
theorem W_removeExpected (a) : Ho (W c s0 keep) (removeExpected a) (fun _ => W c s0 keep) :=
  W_modS _ (fun _ => ⟨rfl, rfl⟩)
theorem W_sessPut (na s) : Ho (W c s0 keep) (sessPut na s) (fun _ => W c s0 keep) := W_modS _ (fun _ => ⟨rfl, rfl⟩)
theorem W_sessInsert (na s) : Ho (W c s0 keep) (sessInsert c na s) (fun _ => W c s0 keep) :=
  W_modS _ (fun _ => ⟨rfl, rfl⟩)
theorem W_sessRemove (na) : Ho (W c s0 keep) (sessRemove na) (fun _ => W c s0 keep) := W_modS _ (fun _ => ⟨rfl, rfl⟩)
theorem W_sessGetMut (na) : Ho (W c s0 keep) (sessGetMut c na) (fun _ => W c s0 keep) :=
  sessGetMut_elim (fun _ hp => ⟨fun _ => hp, fun _ _ _ _ =>
    ⟨fun _ => hp.frame rfl rfl rfl, fun _ => hp.frame rfl rfl rfl⟩⟩)
theorem W_removeExpiredSessions : Ho (W c s0 keep) (removeExpiredSessions c) (fun _ => W c s0 keep) :=
  removeExpiredSessions_elim (fun st hp e _ _ => hp.mono (fun _ hx => hx) (Nat.le_refl _) (fun o hm => by
    by_cases he : e.isEmpty
    · simp only [he, if_true]; exact hm
    · simp only [he]; exact List.mem_append_left _ hm))
theorem W_encryptMessage (s m) : Ho (W c s0 keep) (encryptMessage c s m) (fun _ => W c s0 keep) :=
  W_frame (fun _ => ⟨rfl, rfl, rfl⟩)

theorem W.erase {st : St} (hp : W c s0 keep st) (call : Call) :
    W c s0 keep ({ st.1 with active := st.1.active.erase call }, st.2) :=
  hp.mono (fun _ hx => List.mem_of_mem_erase hx) (Nat.le_refl _) (fun _ h => h)

/-- The removed call comes with its provenance. -/
theorem W_activeRemoveByNonce (n) : Ho (W c s0 keep) (activeRemoveByNonce n)
    (fun r st => W c s0 keep st ∧ ∀ call, r = some call → Prov c s0 st.1.now st.2 call) :=
  activeRemoveByNonce_elim (fun _ hp => ⟨fun _ => ⟨hp, fun _ h => nomatch h⟩,
    fun call hf => ⟨hp.erase call, fun x hx => by
      cases hx; exact hp.prov _ (List.mem_of_find?_eq_some hf)⟩⟩)
theorem W_activeRemoveRequest (na rid) : Ho (W c s0 keep) (activeRemoveRequest na rid)
    (fun r st => W c s0 keep st ∧ ∀ call, r = some call → Prov c s0 st.1.now st.2 call) :=
  activeRemoveRequest_elim (fun _ hp => ⟨fun _ => ⟨hp, fun _ h => nomatch h⟩,
    fun call hf => ⟨hp.erase call, fun x hx => by
      cases hx; exact hp.prov _ (List.mem_of_find?_eq_some hf)⟩⟩)
theorem W_activeRemoveRequestI (na rid) : Ho (W c s0 keep) (activeRemoveRequest na rid) (fun _ => W c s0 keep) :=
  (W_activeRemoveRequest na rid).post (fun _ _ h => h.1)
theorem W_activeRemoveRequests (na) : Ho (W c s0 keep) (activeRemoveRequests na) (fun _ => W c s0 keep) :=
  ⟨fun _ hp => hp.mono (fun _ hx => (List.mem_filter.1 hx).1) (Nat.le_refl _) (fun _ h => h)⟩

/-- Arming a timer for a request whose packet went out in this step, or which continues a call that
was active at the start of the step. -/
theorem W_activeInsert (call : Call) (h : Arm s0 keep call.rid (callNA call) call.pkt) :
    Ho (W c s0 keep) (activeInsert c call) (fun _ => W c s0 keep) := by
  refine Ho.modS _ (fun st hp => ⟨hp.keep, hp.now, fun x hx => ?_⟩)
  simp only [List.mem_append, List.mem_singleton] at hx
  rcases hx with hx | hx
  · exact hp.prov x hx
  · subst hx
    refine Or.inr ⟨Nat.add_le_add_right hp.now _, Nat.le_refl _, ?_⟩
    rcases h with h | h
    · exact Or.inl (hp.keep _ h)
    · exact Or.inr h

/-- `send` followed by arming the timer for the packet just sent. -/
theorem W_send_insert_bind {β} (na : NA) (p : Pkt) (call : Call) {k : Unit → M β} {Q : β → St → Prop}
    (hna : callNA call = na) (hp : call.pkt = p) (hk : ∀ u, Ho (W c s0 keep) (k u) Q) :
    Ho (W c s0 keep) (send na p >>= fun _ => activeInsert c call >>= k) Q := by
  refine ⟨fun st h => ?_⟩
  have h1 : W c s0 keep ((send na p).run st).2 := (W_send na p).out st h
  have h2 : Out.send na p ∈ ((send na p).run st).2.2 := List.mem_append_right _ (List.mem_singleton.2 rfl)
  have h3 := (W_activeInsert (c := c) (keep := ((send na p).run st).2.2) call
    (Or.inl (by rw [hna, hp]; exact h2))).out _ h1.rekeep
  exact (hk ()).out _ (h3.unkeep h1.keep)

/-- arming the timer (handshake packet), then `send` of that packet -/
theorem W_insert_send_bind {β} (na : NA) (p : Pkt) (call : Call) {k : Unit → M β} {Q : β → St → Prop}
    (hna : callNA call = na) (hp : call.pkt = p) (hk : ∀ u, Ho (W c s0 keep) (k u) Q) :
    Ho (W c s0 keep) (activeInsert c call >>= fun _ => send na p >>= k) Q := by
  refine ⟨fun st h => ?_⟩
  refine (hk ()).out _ ⟨fun o ho => List.mem_append_left _ (h.keep o ho), h.now, fun x hx => ?_⟩
  have hx' : x ∈ st.1.active ++ [{ call with deadline := st.1.now + c.requestTimeout, tseq := st.1.tctr }] := hx
  simp only [List.mem_append, List.mem_singleton] at hx'
  rcases hx' with hx' | hx'
  · exact (h.prov x hx').mono (Nat.le_refl _) (fun _ hm => List.mem_append_left _ hm)
  · subst hx'
    refine Or.inr ⟨Nat.add_le_add_right h.now _, Nat.le_refl _, Or.inl ?_⟩
    show Out.send (callNA call) call.pkt ∈ st.2 ++ [Out.send na p]
    rw [hna, hp]
    exact List.mem_append_right _ (List.mem_singleton.2 rfl)

syntax "w_leaf" : tactic
macro_rules | `(tactic| w_leaf) => `(tactic| first
  | with_reducible exact W_emit _ | with_reducible exact W_send _ _ | with_reducible exact W_freshNonce
  | with_reducible exact W_freshCd | with_reducible exact W_freshEph
  | with_reducible exact W_freshRid | with_reducible exact W_addExpected _
  | with_reducible exact W_removeExpected _ | with_reducible exact W_sessPut _ _
  | with_reducible exact W_sessInsert _ _ | with_reducible exact W_sessRemove _
  | with_reducible exact W_sessGetMut _ | with_reducible exact W_removeExpiredSessions
  | with_reducible exact W_encryptMessage _ _ | with_reducible exact W_activeRemoveRequests _
  | with_reducible exact W_activeRemoveRequestI _ _
  | with_reducible exact W_setS_pinned _ rfl rfl
  | with_reducible apply W_activeInsert
  | exact W_modS _ (fun s => by first | exact ⟨rfl, rfl⟩ | (dsimp only; split <;> exact ⟨rfl, rfl⟩)))
macro_rules | `(tactic| ho_leaf) => `(tactic| w_leaf)
macro_rules | `(tactic| ho_bindleaf) => `(tactic| first
  | ((with_reducible apply W_send_insert_bind); rfl; rfl; intro _)
  | ((with_reducible apply W_insert_send_bind); rfl; rfl; intro _))

theorem W_isAwaitingSession (na) : Ho (W c s0 keep) (isAwaitingSession c na) (fun _ => W c s0 keep) := by
  unfold isAwaitingSession; ho_walk
macro_rules | `(tactic| w_leaf) => `(tactic| with_reducible exact W_isAwaitingSession _)
theorem W_sendRequest (ct rid i b) : Ho (W c s0 keep) (sendRequest c ct rid i b) (fun _ => W c s0 keep) := by
  unfold sendRequest; ho_walk
macro_rules | `(tactic| w_leaf) => `(tactic| with_reducible exact W_sendRequest _ _ _ _)
theorem W_sendPendingRequests (na) : Ho (W c s0 keep) (sendPendingRequests c na) (fun _ => W c s0 keep) := by
  unfold sendPendingRequests; ho_walk
theorem W_failSession (na e b) : Ho (W c s0 keep) (failSession c na e b) (fun _ => W c s0 keep) := by
  unfold failSession; ho_walk
macro_rules | `(tactic| w_leaf) => `(tactic| with_reducible first
  | exact W_sendPendingRequests _ | exact W_failSession _ _ _)
theorem W_failRequest (call e b) : Ho (W c s0 keep) (failRequest c call e b) (fun _ => W c s0 keep) := by
  unfold failRequest; ho_walk
macro_rules | `(tactic| w_leaf) => `(tactic| with_reducible exact W_failRequest _ _ _)
theorem W_handleRequestTimeout (call : Call) :
    Ho (W c s0 keep) (handleRequestTimeout c call) (fun _ => W c s0 keep) := by
  unfold handleRequestTimeout
  refine Ho.ite (fun _ => ?_) (fun _ => ?_)
  · ho_walk
  · have := W_send_insert_bind (c := c) (s0 := s0) (keep := keep) (callNA call) call.pkt
      { call with retries := call.retries + 1 } (k := fun _ => pure ()) rfl rfl (fun _ => Ho.pureI _)
    exact ⟨fun st h => this.out st h⟩
theorem W_reencryptAll (l s acc) : Ho (W c s0 keep) (reencryptAll c l s acc) (fun _ => W c s0 keep) := by
  induction l generalizing s acc with
  | nil => unfold reencryptAll; ho_walk
  | cons x xs ih => unfold reencryptAll; ho_walk; exact ih _ _
theorem W_sendChallenge (na n k) : Ho (W c s0 keep) (sendChallenge c na n k) (fun _ => W c s0 keep) := by
  unfold sendChallenge; ho_walk

/-! ### `replay_active_requests`: the re-encrypted packets go to the peer of their calls -/

/-- Different active calls carry packets with different nonces (part of the transmission
invariant `TI`). -/
def NoDupN (st : St) : Prop := st.1.active.Pairwise (fun a b => a.pkt.nonce ≠ b.pkt.nonce)

/-- `W` together with the nonce discipline. -/
def NW (c : Cfg) (s0 : HState) (keep : List Out) (st : St) : Prop := NoDupN st ∧ W c s0 keep st

theorem N_sessGetMut (na) : Ho NoDupN (sessGetMut c na) (fun _ => NoDupN) :=
  sessGetMut_elim (fun _ hp => ⟨fun _ => hp, fun _ _ _ _ => ⟨fun _ => hp, fun _ => hp⟩⟩)
theorem N_removeExpiredSessions : Ho NoDupN (removeExpiredSessions c) (fun _ => NoDupN) :=
  removeExpiredSessions_elim (fun _ hp _ _ _ => hp)
theorem NW_sessGetMut (na) : Ho (NW c s0 keep) (sessGetMut c na) (fun _ => NW c s0 keep) :=
  Ho.conj (N_sessGetMut na) (W_sessGetMut na)
theorem NW_sessPut (na s) : Ho (NW c s0 keep) (sessPut na s) (fun _ => NW c s0 keep) :=
  Ho.conj ⟨fun _ hp => hp⟩ (W_sessPut na s)
theorem NW_removeExpiredSessions : Ho (NW c s0 keep) (removeExpiredSessions c) (fun _ => NW c s0 keep) :=
  Ho.conj N_removeExpiredSessions W_removeExpiredSessions

/-- Every call that carries one of the nonces still to be replaced is a call to `na`. -/
def OwnerU (na : NA) (rem : List (Nat × Pkt)) (st : St) : Prop :=
  ∀ x ∈ rem, ∀ y ∈ st.1.active, y.pkt.nonce = x.1 → callNA y = na

theorem reencryptAll_spec (A : List Call) (l : List Call) (sess : Session) (acc : List (Nat × Pkt)) :
    Ho (fun st => W c s0 keep st ∧ st.1.active = A) (reencryptAll c l sess acc)
      (fun r st => (W c s0 keep st ∧ st.1.active = A) ∧
        r.2.map Prod.fst = acc.map Prod.fst ++ l.map (·.pkt.nonce)) := by
  induction l generalizing sess acc with
  | nil => unfold reencryptAll; exact Ho.pure _ (fun _ hp => ⟨hp, by simp⟩)
  | cons call rest ih =>
    unfold reencryptAll
    refine Ho.bind (Q := fun _ st => W c s0 keep st ∧ st.1.active = A)
      ⟨fun st hp => ⟨(W_encryptMessage sess _).out st hp.1, hp.2⟩⟩ (fun r => ?_)
    exact Ho.post (ih _ _) (fun r' st h => ⟨h.1, by rw [h.2]; simp⟩)

/-- One round of the replay loop: the calls carrying the old nonce get the new packet and a fresh
timer, and the new packet is sent to `na`. -/
theorem W_replayRound (na : NA) (old : Nat) (p : Pkt) (xs : List (Nat × Pkt)) :
    Ho (fun st => W c s0 keep st ∧ OwnerU na ((old, p) :: xs) st)
      ((modS fun s =>
        let upd : Call → Call := fun call =>
          if call.pkt.nonce == old then
            { call with pkt := p, deadline := s.now + c.requestTimeout, tseq := s.tctr }
          else call
        { s with active := s.active.map upd, tctr := s.tctr + 1 }) >>= fun _ => send na p)
      (fun _ st => W c s0 keep st ∧ OwnerU na xs st) := by
  refine ⟨fun st hp => ?_⟩
  obtain ⟨hw, ho⟩ := hp
  refine ⟨⟨fun o hk => List.mem_append_left _ (hw.keep o hk), hw.now, fun x hx => ?_⟩, fun x hx y hy hn => ?_⟩
  · have hx' : x ∈ st.1.active.map _ := hx
    simp only [List.mem_map] at hx'
    obtain ⟨y, hy, rfl⟩ := hx'
    by_cases h1 : (y.pkt.nonce == old) = true
    · simp only [h1, if_true]
      refine Or.inr ⟨Nat.add_le_add_right hw.now _, Nat.le_refl _, Or.inl ?_⟩
      have hna : callNA y = na := ho (old, p) (List.mem_cons_self ..) y hy (beq_iff_eq.1 h1)
      show Out.send (callNA y) p ∈ st.2 ++ [Out.send na p]
      rw [hna]
      exact List.mem_append_right _ (List.mem_singleton.2 rfl)
    · simp only [h1]
      exact (hw.prov y hy).mono (Nat.le_refl _) (fun _ hm => List.mem_append_left _ hm)
  · have hy' : y ∈ st.1.active.map _ := hy
    simp only [List.mem_map] at hy'
    obtain ⟨z, hz, rfl⟩ := hy'
    by_cases h1 : (z.pkt.nonce == old) = true
    · simp only [h1, if_true]
      exact ho (old, p) (List.mem_cons_self ..) z hz (beq_iff_eq.1 h1)
    · simp only [h1] at hn ⊢
      exact ho x (List.mem_cons_of_mem _ hx) z hz hn

theorem OwnerU_init (na : NA) (f : Call → Bool) (s : HState) (packets : List (Nat × Pkt)) (st : St)
    (hnd : s.active.Pairwise (fun a b => a.pkt.nonce ≠ b.pkt.nonce)) (ha : st.1.active = s.active)
    (hp : packets.map Prod.fst = ((s.active.filter (fun call => callNA call == na)).filter f).map
      (·.pkt.nonce)) :
    OwnerU na packets st := by
  intro x hx y hy hn
  have : x.1 ∈ packets.map Prod.fst := List.mem_map_of_mem hx
  rw [hp] at this
  simp only [List.mem_map] at this
  obtain ⟨z, hz, hzx⟩ := this
  have hz1 := (List.mem_filter.1 (List.mem_filter.1 hz).1)
  rw [ha] at hy
  by_cases hyz : y = z
  · rw [hyz]; exact beq_iff_eq.1 hz1.2
  · exact absurd (hn.trans hzx.symm)
      (pairwise_symm_of_mem (fun _ _ hab => Ne.symm hab) hnd hy hz1.1 hyz)

theorem W_replayActiveRequests (na sk) :
    Ho (NW c s0 keep) (replayActiveRequests c na sk) (fun _ => W c s0 keep) := by
  unfold replayActiveRequests
  refine Ho.bind (NW_sessGetMut na) (fun r => ?_)
  cases r with
  | none => exact Ho.pure _ (fun _ hp => hp.2)
  | some sess0 =>
    refine Ho.getS_bind (fun s => ?_)
    refine Ho.pre (P' := fun st => s.active.Pairwise (fun a b => a.pkt.nonce ≠ b.pkt.nonce) ∧
      (W c s0 keep st ∧ st.1.active = s.active)) ?_ (fun st hp => ⟨hp.1 ▸ hp.2.1, hp.2.2, by rw [hp.1]⟩)
    refine Ho.pre_pure (fun hnd => ?_)
    refine Ho.bind (reencryptAll_spec s.active _ sess0 []) (fun r => ?_)
    obtain ⟨sess, packets⟩ := r
    refine Ho.pre_pure' (fun hpk => ?_)
    refine Ho.bind (Q := fun _ st => W c s0 keep st ∧ OwnerU na packets st) ⟨fun st hp => ?_⟩ (fun _ => ?_)
    · exact ⟨(W_sessPut na sess).out st hp.1, OwnerU_init na _ s packets _ hnd hp.2 hpk⟩
    · refine Ho.post (Ho.forEach (fun rem st => W c s0 keep st ∧ OwnerU na rem st) packets _ (fun x xs => ?_))
        (fun _ _ h => h.1)
      obtain ⟨old, p⟩ := x
      exact W_replayRound na old p xs

theorem W_newSession (na s sk) : Ho (NW c s0 keep) (newSession c na s sk) (fun _ => W c s0 keep) := by
  unfold newSession
  refine Ho.bind NW_removeExpiredSessions (fun _ => Ho.bind (NW_sessGetMut na) (fun r => ?_))
  cases r with
  | some cur =>
    exact Ho.bind (NW_sessPut na _) (fun _ => Ho.bind (W_replayActiveRequests na sk)
      (fun _ => W_sendPendingRequests na))
  | none =>
    exact Ho.pre (Ho.bind (W_sessInsert na s) (fun _ => W_sendPendingRequests na)) (fun _ h => h.2)

/-- A call taken out of the active list (with its provenance) may be put back: for the rest of the
function the outputs produced so far are the kept ones, so that the provenance is a fact that does
not depend on the state any more. -/
theorem W_hand {α} {Pt : St → Prop} {call : Call} {m : M α}
    (h : ∀ os1, Arm s0 os1 call.rid (callNA call) call.pkt →
      Ho (fun st => Pt st ∧ W c s0 os1 st) m (fun _ => W c s0 os1)) :
    Ho (fun st => Pt st ∧ W c s0 keep st ∧ Prov c s0 st.1.now st.2 call) m (fun _ => W c s0 keep) :=
  ⟨fun st hp => ((h st.2 (hp.2.2.arm (fun _ h => h))).out st ⟨hp.1, hp.2.1.rekeep⟩).unkeep hp.2.1.keep⟩

theorem W_handleResponse (na rid rb) :
    Ho (W c s0 keep) (handleResponse c na rid rb) (fun _ => W c s0 keep) := by
  unfold handleResponse
  refine Ho.bind (W_activeRemoveRequest na rid) (fun r => ?_)
  cases r with
  | none => exact Ho.pure _ (fun _ hp => hp.1)
  | some call =>
    refine Ho.pre (W_hand (Pt := fun _ => True) (call := call) (fun os1 harm => ?_))
      (fun st hp => ⟨trivial, hp.1, hp.2 _ rfl⟩)
    refine Ho.pre (P' := W c s0 os1) ?_ (fun _ h => h.2)
    dsimp only
    ho_walk
    all_goals exact harm

macro_rules | `(tactic| w_leaf) => `(tactic| with_reducible first
  | exact W_handleResponse _ _ _ | exact W_failRequest _ _ _)
theorem W_handleMessage (na n ct) : Ho (W c s0 keep) (handleMessage c na n ct) (fun _ => W c s0 keep) := by
  unfold handleMessage; ho_walk

theorem NW.frame {st st' : St} (h : NW c s0 keep st) (ha : st'.1.active = st.1.active)
    (hn : st'.1.now = st.1.now) (ho : st'.2 = st.2) : NW c s0 keep st' :=
  ⟨by unfold NoDupN; rw [ha]; exact h.1, h.2.frame ha hn ho⟩
theorem NW_emit (o : Out) : Ho (NW c s0 keep) (emit o) (fun _ => NW c s0 keep) :=
  Ho.conj ⟨fun _ hp => hp⟩ (W_emit o)
theorem NW_removeExpected (a) : Ho (NW c s0 keep) (removeExpected a) (fun _ => NW c s0 keep) :=
  Ho.conj ⟨fun _ hp => hp⟩ (W_removeExpected a)

theorem W_handleAuthMessage (na n sig eph r ct) :
    Ho (NW c s0 keep) (handleAuthMessage c na n sig eph r ct) (fun _ => W c s0 keep) := by
  unfold handleAuthMessage
  refine Ho.getS_pin (fun s => ?_)
  split
  · exact Ho.pure _ (fun _ hp => hp.2.2)
  · refine Ho.bind (Q := fun _ => NW c s0 keep)
      (Ho.setS _ (fun st hp => hp.2.frame (by rw [← hp.1]) (by rw [← hp.1]) rfl)) (fun _ => ?_)
    split
    · refine Ho.bind (NW_removeExpected _) (fun _ => ?_)
      rename_i sess r' _ _
      have hjp : ∀ u : Unit, Ho (NW c s0 keep) (do newSession c na sess none; handleMessage c na n ct)
          (fun _ => W c s0 keep) := fun _ => Ho.bind (W_newSession ..) (fun _ => W_handleMessage ..)
      exact Ho.ite (fun _ => Ho.bind (NW_emit _) hjp) (fun _ => Ho.bind (NW_emit _) hjp)
    · exact Ho.pre (W_modS _ (fun _ => ⟨rfl, rfl⟩)) (fun _ h => h.2)
    · exact Ho.pre (Ho.bind (W_removeExpected _) (fun _ => W_failSession ..)) (fun _ h => h.2)

/-! ### `handle_challenge`: the transmission invariant is needed up to the call of `new_session` -/

/-- The transmission invariant `TI` (for the nonce discipline) together with `W`. -/
def TW (c : Cfg) (pre : List Out) (s0 : HState) (keep : List Out) (st : St) : Prop :=
  TI c pre st ∧ W c s0 keep st

variable {pre : List Out}

theorem TW.nw {st : St} (h : TW c pre s0 keep st) : NW c s0 keep st := ⟨h.1.nodup, h.2⟩

theorem TW_both {α} {m : M α} (h1 : Ho (TI c pre) m (fun _ => TI c pre))
    (h2 : Ho (W c s0 keep) m (fun _ => W c s0 keep)) :
    Ho (TW c pre s0 keep) m (fun _ => TW c pre s0 keep) := Ho.conj h1 h2

theorem TW_newSession (na s sk) : Ho (TW c pre s0 keep) (newSession c na s sk) (fun _ => W c s0 keep) :=
  Ho.pre (W_newSession na s sk) (fun _ h => h.nw)

theorem TW_insert_send_bind {β} (call : Call) (na : NA) (n : Nat) {k : Unit → M β} {Q : β → St → Prop}
    (hr : 1 ≤ call.retries) (hw : NotWru call.pkt) (hn : call.pkt.nonce = n) (hna : callNA call = na)
    (hk : ∀ u, Ho (TW c pre s0 keep) (k u) Q) :
    Ho (fun st => (TI c pre st ∧ FreshN c pre n st) ∧ W c s0 keep st)
      (activeInsert c call >>= fun _ => send na call.pkt >>= k) Q := by
  refine ⟨fun st h => (hk ()).out _ ⟨?_, ?_⟩⟩
  · exact (X_insert_send_bind call na n hr hw hn (k := fun _ => pure ()) (Q := fun _ => TI c pre)
      (fun _ => Ho.pureI _)).out st h.1
  · exact (W_insert_send_bind (c := c) (s0 := s0) (keep := keep) na call.pkt call (k := fun _ => pure ())
      (Q := fun _ => W c s0 keep) hna rfl (fun _ => Ho.pureI _)).out st h.2

syntax "tw_leaf" : tactic
macro_rules | `(tactic| tw_leaf) => `(tactic| first
  | with_reducible exact TW_newSession _ _ _
  | ((with_reducible apply TW_both); x_leaf; w_leaf))
macro_rules | `(tactic| ho_leaf) => `(tactic| tw_leaf)

theorem W_handleChallenge (src n cd es) :
    Ho (TW c pre s0 keep) (handleChallenge c src n cd es) (fun _ => W c s0 keep) := by
  unfold handleChallenge
  refine Ho.bind (Ho.conj (X_activeRemoveByNonce n) (W_activeRemoveByNonce n)) (fun r => ?_)
  cases r with
  | none => exact Ho.pure _ (fun _ hp => hp.2.1)
  | some call0 =>
    refine Ho.pre (W_hand (Pt := XH c pre call0.pkt call0.retries) (call := call0) (fun os1 harm => ?_))
      (fun st hp => ⟨⟨hp.1.1, hp.1.2 _ rfl⟩, hp.2.1, hp.2.2 _ rfl⟩)
    refine Ho.ite (fun _ => ?_) (fun _ => Ho.ite (fun _ => ?_) (fun _ => Ho.ite (fun _ => ?_) (fun _ => ?_)))
    · exact Ho.pre (Ho.bind (W_activeInsert call0 harm) (fun _ => Ho.pureI _)) (fun _ h => h.2)
    · refine Ho.pre (P' := W c s0 os1) ?_ (fun _ h => h.2)
      ho_walk
    · refine Ho.pre (P' := W c s0 os1) ?_ (fun _ h => h.2)
      ho_walk
    · refine Ho.pre (P' := fun st => 1 ≤ call0.retries ∧ TW c pre s0 os1 st) ?_
        (fun st hp => ⟨hp.1.2.pos, hp.1.1, hp.2⟩)
      refine Ho.pre_pure (fun hr => ?_)
      refine Ho.bind (TW_both X_freshEph W_freshEph) (fun eph => ?_)
      refine Ho.bind (Q := fun hsNonce st => (TI c pre st ∧ FreshN c pre hsNonce st) ∧ W c s0 os1 st)
        (Ho.conj X_freshNonce W_freshNonce) (fun hsNonce => ?_)
      dsimp only
      split
      · refine TW_insert_send_bind _ _ hsNonce hr (fun _ _ _ h => nomatch h) rfl rfl (fun _ => ?_)
        ho_walk
      · refine TW_insert_send_bind _ _ hsNonce hr (fun _ _ _ h => nomatch h) rfl rfl (fun _ => ?_)
        ho_walk

/-! ### Walk B: the timer path does not move the clock past `target` -/

def NowLe (t : Nat) (st : St) : Prop := st.1.now ≤ t

theorem B_frame {α} {t : Nat} {m : M α} (h : ∀ st, (m.run st).2.1.now = st.1.now) :
    Ho (NowLe t) m (fun _ => NowLe t) := ⟨fun st hp => by unfold NowLe; rw [h st]; exact hp⟩
theorem B_modS {t : Nat} (f : HState → HState) (h : ∀ s, (f s).now = s.now) :
    Ho (NowLe t) (modS f) (fun _ => NowLe t) := B_frame (fun st => h st.1)
theorem B_setS_pinned {t : Nat} {s1 : HState} (s' : HState) (h : s'.now = s1.now) :
    Ho (Pin s1 (NowLe t)) (setS s') (fun _ => NowLe t) :=
  Ho.setS _ (fun st hp => by unfold NowLe; show s'.now ≤ t; rw [h, ← hp.1]; exact hp.2)
theorem B_addExpected {t : Nat} (a) : Ho (NowLe t) (addExpected a) (fun _ => NowLe t) :=
  B_modS _ (fun s => by by_cases h : s.exempt.any (·.1 == a) <;> simp [h])
theorem B_sessGetMut {t : Nat} (na) : Ho (NowLe t) (sessGetMut c na) (fun _ => NowLe t) :=
  sessGetMut_elim (fun _ hp => ⟨fun _ => hp, fun _ _ _ _ => ⟨fun _ => hp, fun _ => hp⟩⟩)
theorem B_removeExpiredSessions {t : Nat} : Ho (NowLe t) (removeExpiredSessions c) (fun _ => NowLe t) :=
  removeExpiredSessions_elim (fun _ hp _ _ _ => hp)

syntax "b_leaf" : tactic
macro_rules | `(tactic| b_leaf) => `(tactic| first
  | with_reducible exact B_addExpected _ | with_reducible exact B_sessGetMut _
  | with_reducible exact B_removeExpiredSessions
  | with_reducible exact B_setS_pinned _ rfl
  | exact B_frame (fun _ => rfl)
  | exact B_modS _ (fun s => by first | rfl | (dsimp only; split <;> rfl)))
macro_rules | `(tactic| ho_leaf) => `(tactic| b_leaf)

theorem B_isAwaitingSession {t : Nat} (na) : Ho (NowLe t) (isAwaitingSession c na) (fun _ => NowLe t) := by
  unfold isAwaitingSession; ho_walk
macro_rules | `(tactic| b_leaf) => `(tactic| with_reducible exact B_isAwaitingSession _)
theorem B_sendRequest {t : Nat} (ct rid i b) : Ho (NowLe t) (sendRequest c ct rid i b) (fun _ => NowLe t) := by
  unfold sendRequest; ho_walk
macro_rules | `(tactic| b_leaf) => `(tactic| with_reducible exact B_sendRequest _ _ _ _)
theorem B_sendPendingRequests {t : Nat} (na) : Ho (NowLe t) (sendPendingRequests c na) (fun _ => NowLe t) := by
  unfold sendPendingRequests; ho_walk
theorem B_failSession {t : Nat} (na e b) : Ho (NowLe t) (failSession c na e b) (fun _ => NowLe t) := by
  unfold failSession; ho_walk
macro_rules | `(tactic| b_leaf) => `(tactic| with_reducible first
  | exact B_sendPendingRequests _ | exact B_failSession _ _ _)
theorem B_failRequest {t : Nat} (call e b) : Ho (NowLe t) (failRequest c call e b) (fun _ => NowLe t) := by
  unfold failRequest; ho_walk
macro_rules | `(tactic| b_leaf) => `(tactic| with_reducible exact B_failRequest _ _ _)
theorem B_handleRequestTimeout {t : Nat} (call : Call) :
    Ho (NowLe t) (handleRequestTimeout c call) (fun _ => NowLe t) := by
  unfold handleRequestTimeout; ho_walk
macro_rules | `(tactic| b_leaf) => `(tactic| with_reducible exact B_handleRequestTimeout _)

theorem foldl_pick_mem' {α} {f : Option α → α → Option α} {l : List α} {r : α}
    (h : l.foldl f none = some r) (hf : ∀ m x, f m x = some x ∨ f m x = m) : r ∈ l :=
  (foldl_pick_mem f hf l none r h).resolve_left (fun h => nomatch h)

/-- The timer that fires next is due at or before `target`. -/
theorem nextDue_le (s : HState) (t d : Nat) (x : Sum Call NA)
    (h : nextDue s t = some (d, x)) : d ≤ t := by
  unfold nextDue at h
  simp only at h
  have kr : ∀ r : Call, r ∈ List.filter (fun x => decide (x.deadline ≤ t)) s.active → r.deadline ≤ t :=
    fun r hr => of_decide_eq_true (List.mem_filter.1 hr).2
  have kc : ∀ ch : NA × Challenge × Nat × Nat,
      ch ∈ List.filter (fun x => decide (x.2.2.1 ≤ t)) s.challenges → ch.2.2.1 ≤ t :=
    fun r hr => of_decide_eq_true (List.mem_filter.1 hr).2
  split at h
  · rename_i r ch hr hc
    split at h
    · cases h
      refine kc _ (foldl_pick_mem' hc ?_)
      intro m x; cases m with
      | none => exact Or.inl rfl
      | some b => dsimp only; split
                  · exact Or.inl rfl
                  · exact Or.inr rfl
    · cases h
      refine kr _ (foldl_pick_mem' hr ?_)
      intro m x; cases m with
      | none => exact Or.inl rfl
      | some b => dsimp only; split
                  · exact Or.inl rfl
                  · exact Or.inr rfl
  · rename_i r hr hc
    cases h
    refine kr _ (foldl_pick_mem' hr ?_)
    intro m x; cases m with
    | none => exact Or.inl rfl
    | some b => dsimp only; split
                · exact Or.inl rfl
                · exact Or.inr rfl
  · rename_i ch hr hc
    cases h
    refine kc _ (foldl_pick_mem' hc ?_)
    intro m x; cases m with
    | none => exact Or.inl rfl
    | some b => dsimp only; split
                · exact Or.inl rfl
                · exact Or.inr rfl
  · cases h

theorem B_fireTimers (target fuel : Nat) :
    Ho (NowLe target) (fireTimers c target fuel) (fun _ => NowLe target) := by
  induction fuel with
  | zero => unfold fireTimers; exact Ho.pureI _
  | succ n ih =>
    unfold fireTimers
    refine Ho.getS_pin (fun s1 => ?_)
    split
    · exact Ho.unpin (Ho.pureI _)
    · rename_i d call hnd
      refine Ho.bind (Q := fun _ => NowLe target) (Ho.setS _ (fun st hp => ?_))
        (fun _ => Ho.bind (B_handleRequestTimeout call) (fun _ => ih))
      exact Nat.max_le.2 ⟨hp.1 ▸ hp.2, nextDue_le _ _ _ _ hnd⟩
    · rename_i d na hnd
      refine Ho.bind (Q := fun _ => NowLe target) (Ho.setS _ (fun st hp => ?_)) (fun _ => ?_)
      · exact Nat.max_le.2 ⟨hp.1 ▸ hp.2, nextDue_le _ _ _ _ hnd⟩
      · exact Ho.bind (B_frame (fun _ => rfl)) (fun _ => Ho.bind (B_sendPendingRequests na) (fun _ => ih))

macro_rules | `(tactic| w_leaf) => `(tactic| with_reducible first
  | exact W_handleRequestTimeout _ | exact W_handleMessage _ _ _ | exact W_sendChallenge _ _ _)

theorem W_fireTimers (target fuel : Nat) :
    Ho (W c s0 keep) (fireTimers c target fuel) (fun _ => W c s0 keep) := by
  induction fuel with
  | zero => unfold fireTimers; exact Ho.pureI _
  | succ n ih =>
    unfold fireTimers
    refine Ho.getS_pin (fun s1 => ?_)
    split
    · ho_walk
    · rename_i d call hnd
      refine Ho.bind (Q := fun _ => W c s0 keep) (Ho.setS _ (fun st hp => ?_))
        (fun _ => Ho.bind (W_handleRequestTimeout call) (fun _ => ih))
      obtain ⟨h1, hp⟩ := hp
      subst h1
      exact hp.mono (fun _ hx => List.mem_of_mem_erase hx) (Nat.le_max_left _ _) (fun _ h => h)
    · rename_i d na hnd
      refine Ho.bind (Q := fun _ => W c s0 keep) (Ho.setS _ (fun st hp => ?_)) (fun _ => ?_)
      · obtain ⟨h1, hp⟩ := hp
        subst h1
        exact hp.mono (fun _ hx => hx) (Nat.le_max_left _ _) (fun _ h => h)
      · ho_walk
        exact ih

theorem W_stepM (e : Ev) : Ho (TW c pre s0 keep) (stepM c e) (fun _ => W c s0 keep) := by
  cases e with
  | dgram src p =>
    cases p with
    | whoareyou nonce cd enrSeq => exact W_handleChallenge ..
    | handshake srcId nonce sig eph record ct => exact Ho.pre (W_handleAuthMessage ..) (fun _ h => h.nw)
    | message srcId nonce ct => exact Ho.pre (W_handleMessage ..) (fun _ h => h.2)
  | adv dt =>
    refine Ho.pre (P' := W c s0 keep) ?_ (fun _ h => h.2)
    simp only [stepM]
    refine Ho.getS_bind (fun s1 => ?_)
    refine Ho.pre (P' := fun st => s0.now ≤ s1.now ∧ (W c s0 keep st ∧ NowLe (s1.now + dt) st)) ?_
      (fun st hp => ⟨hp.1 ▸ hp.2.now, hp.2, by unfold NowLe; rw [hp.1]; exact Nat.le_add_right _ _⟩)
    refine Ho.pre_pure (fun hn => ?_)
    refine Ho.bind (Ho.conj (W_fireTimers _ _) (B_fireTimers _ _)) (fun _ => Ho.modS _ (fun st hp => ?_))
    exact ⟨hp.1.keep, Nat.le_trans hn (Nat.le_add_right _ _), fun cl hc => (hp.1.prov cl hc).mono hp.2 (fun _ h => h)⟩
  | _ =>
    refine Ho.pre (P' := W c s0 keep) ?_ (fun _ h => h.2)
    simp only [stepM]; ho_walk

/-! ## Walk K: a queued request is queued under the address of its own contact -/

def PK (st : St) : Prop := ∀ e ∈ st.1.pending, ∀ pr ∈ e.2, pr.contact.na = e.1

theorem PK.sub {st st' : St} (h : PK st) (hs : ∀ e ∈ st'.1.pending, e ∈ st.1.pending) : PK st' :=
  fun e he => h e (hs e he)

theorem K_frame {α} {m : M α} (h : ∀ st, (m.run st).2.1.pending = st.1.pending) :
    Ho PK m (fun _ => PK) := ⟨fun st hp => hp.sub (fun e he => h st ▸ he)⟩
theorem K_modS (f : HState → HState) (h : ∀ s, (f s).pending = s.pending) :
    Ho PK (modS f) (fun _ => PK) := K_frame (fun st => h st.1)
theorem K_setS_sub {s1 : HState} (s' : HState) (h : ∀ e ∈ s'.pending, e ∈ s1.pending) :
    Ho (Pin s1 PK) (setS s') (fun _ => PK) :=
  Ho.setS _ (fun st hp => hp.2.sub (fun e he => hp.1 ▸ h e he))
theorem K_addExpected (a) : Ho PK (addExpected a) (fun _ => PK) :=
  K_modS _ (fun s => by by_cases h : s.exempt.any (·.1 == a) <;> simp [h])
theorem K_sessGetMut (na) : Ho PK (sessGetMut c na) (fun _ => PK) :=
  sessGetMut_elim (fun _ hp => ⟨fun _ => hp, fun _ _ _ _ => ⟨fun _ => hp, fun _ => hp⟩⟩)
theorem K_removeExpiredSessions : Ho PK (removeExpiredSessions c) (fun _ => PK) :=
  removeExpiredSessions_elim (fun _ hp _ _ _ => hp)
theorem K_activeRemoveByNonce (n) : Ho PK (activeRemoveByNonce n) (fun _ => PK) :=
  activeRemoveByNonce_elim (fun _ hp => ⟨fun _ => hp, fun _ _ => hp⟩)
theorem K_activeRemoveRequest (na rid) : Ho PK (activeRemoveRequest na rid) (fun _ => PK) :=
  activeRemoveRequest_elim (fun _ hp => ⟨fun _ => hp, fun _ _ => hp⟩)
theorem K_push (contact : Contact) (rid : Nat) (internal : Bool) (body : Nat) :
    Ho PK (modS fun s =>
      let pr : PendingReq := { contact := contact, rid := rid, internal := internal, body := body }
      if s.pending.any (·.1 == contact.na) then
        { s with pending := s.pending.map (fun e => if e.1 == contact.na then (e.1, e.2 ++ [pr]) else e) }
      else { s with pending := s.pending ++ [(contact.na, [pr])] }) (fun _ => PK) := by
  refine Ho.modS _ (fun st h => ?_)
  dsimp only
  split
  · intro e' he' pr hpr
    have he'' : e' ∈ st.1.pending.map _ := he'
    simp only [List.mem_map] at he''
    obtain ⟨e, he, rfl⟩ := he''
    by_cases hk : (e.1 == contact.na) = true
    · simp only [hk, if_true] at hpr ⊢
      rcases List.mem_append.1 hpr with hpr | hpr
      · exact h e he pr hpr
      · rw [List.mem_singleton.1 hpr]; exact (beq_iff_eq.1 hk).symm
    · simp only [hk] at hpr ⊢
      exact h e he pr hpr
  · intro e' he' pr hpr
    have he'' : e' ∈ st.1.pending ++ [(contact.na, [_])] := he'
    rcases List.mem_append.1 he'' with he'' | he''
    · exact h e' he'' pr hpr
    · rw [List.mem_singleton.1 he''] at hpr ⊢
      rw [List.mem_singleton.1 hpr]

syntax "k_leaf" : tactic
macro_rules | `(tactic| k_leaf) => `(tactic| first
  | with_reducible exact K_addExpected _ | with_reducible exact K_sessGetMut _
  | with_reducible exact K_removeExpiredSessions | with_reducible exact K_activeRemoveByNonce _
  | with_reducible exact K_activeRemoveRequest _ _
  | exact K_push _ _ _ _
  | exact K_setS_sub _ (fun e he => by first | exact he | exact (List.mem_filter.1 he).1)
  | exact K_frame (fun _ => rfl)
  | exact K_modS _ (fun s => by first | rfl | (dsimp only; split <;> rfl)))
macro_rules | `(tactic| ho_leaf) => `(tactic| k_leaf)

theorem K_isAwaitingSession (na) : Ho PK (isAwaitingSession c na) (fun _ => PK) := by
  unfold isAwaitingSession; ho_walk
macro_rules | `(tactic| k_leaf) => `(tactic| with_reducible exact K_isAwaitingSession _)
theorem K_sendRequest (ct rid i b) : Ho PK (sendRequest c ct rid i b) (fun _ => PK) := by
  unfold sendRequest; ho_walk
macro_rules | `(tactic| k_leaf) => `(tactic| with_reducible exact K_sendRequest _ _ _ _)
theorem K_sendPendingRequests (na) : Ho PK (sendPendingRequests c na) (fun _ => PK) := by
  unfold sendPendingRequests; ho_walk
theorem K_failSession (na e b) : Ho PK (failSession c na e b) (fun _ => PK) := by
  unfold failSession; ho_walk
macro_rules | `(tactic| k_leaf) => `(tactic| with_reducible first
  | exact K_sendPendingRequests _ | exact K_failSession _ _ _)
theorem K_failRequest (call e b) : Ho PK (failRequest c call e b) (fun _ => PK) := by
  unfold failRequest; ho_walk
macro_rules | `(tactic| k_leaf) => `(tactic| with_reducible exact K_failRequest _ _ _)
theorem K_handleRequestTimeout (call : Call) : Ho PK (handleRequestTimeout c call) (fun _ => PK) := by
  unfold handleRequestTimeout; ho_walk
theorem K_reencryptAll (l s acc) : Ho PK (reencryptAll c l s acc) (fun _ => PK) := by
  induction l generalizing s acc with
  | nil => unfold reencryptAll; ho_walk
  | cons x xs ih => unfold reencryptAll; ho_walk; exact ih _ _
macro_rules | `(tactic| k_leaf) => `(tactic| with_reducible first
  | exact K_reencryptAll _ _ _ | exact K_handleRequestTimeout _)
theorem K_replayActiveRequests (na sk) : Ho PK (replayActiveRequests c na sk) (fun _ => PK) := by
  unfold replayActiveRequests; ho_walk
macro_rules | `(tactic| k_leaf) => `(tactic| with_reducible exact K_replayActiveRequests _ _)
theorem K_newSession (na s sk) : Ho PK (newSession c na s sk) (fun _ => PK) := by
  unfold newSession; ho_walk
theorem K_sendChallenge (na n k) : Ho PK (sendChallenge c na n k) (fun _ => PK) := by
  unfold sendChallenge; ho_walk
macro_rules | `(tactic| k_leaf) => `(tactic| with_reducible first
  | exact K_newSession _ _ _ | exact K_sendChallenge _ _ _)
theorem K_handleChallenge (src n cd es) : Ho PK (handleChallenge c src n cd es) (fun _ => PK) := by
  unfold handleChallenge; ho_walk
theorem K_handleResponse (na rid rb) : Ho PK (handleResponse c na rid rb) (fun _ => PK) := by
  unfold handleResponse; ho_walk
macro_rules | `(tactic| k_leaf) => `(tactic| with_reducible first
  | exact K_handleChallenge _ _ _ _ | exact K_handleResponse _ _ _)
theorem K_handleMessage (na n ct) : Ho PK (handleMessage c na n ct) (fun _ => PK) := by
  unfold handleMessage; ho_walk
macro_rules | `(tactic| k_leaf) => `(tactic| with_reducible exact K_handleMessage _ _ _)
theorem K_handleAuthMessage (na n sig eph r ct) :
    Ho PK (handleAuthMessage c na n sig eph r ct) (fun _ => PK) := by
  unfold handleAuthMessage; ho_walk
theorem K_fireTimers (target fuel : Nat) : Ho PK (fireTimers c target fuel) (fun _ => PK) := by
  induction fuel with
  | zero => unfold fireTimers; exact Ho.pureI _
  | succ n ih =>
    unfold fireTimers
    refine Ho.getS_pin (fun s1 => ?_)
    split
    · ho_walk
    · ho_walk; exact ih
    · ho_walk; exact ih
macro_rules | `(tactic| k_leaf) => `(tactic| with_reducible first
  | exact K_handleAuthMessage _ _ _ _ _ _ | exact K_fireTimers _ _)
theorem K_stepM (e : Ev) : Ho PK (stepM c e) (fun _ => PK) := by
  cases e with
  | dgram src p => simp only [stepM]; ho_walk
  | _ => simp only [stepM]; ho_walk

theorem pending_keyed (c : Cfg) (evs : List Ev) :
    ∀ e ∈ (run c evs).pending, ∀ pr ∈ e.2, pr.contact.na = e.1 := by
  induction evs using snoc_induction with
  | h0 => intro e h; cases h
  | h1 evs e ih =>
    rw [run_snoc, step_eq]
    exact (K_stepM e).out (run c evs, []) ih

/-! ## Walk E (timer path): which requests fail with `timeout`, and why -/

/-- In state `s` the request `rid` is addressed to the peer `na`: it is the id of an active call to
`na`, or of a request queued for `na`. -/
def ReqTo (s : HState) (rid : Nat) (na : NA) : Prop :=
  (∃ x ∈ s.active, x.rid = rid ∧ callNA x = na) ∨ (∃ e ∈ s.pending, e.1 = na ∧ ∃ pr ∈ e.2, pr.rid = rid)

/-- A timeout failure of `rid` is justified: some call `cl` whose deadline has been reached (it is at
most `target`, the time this step advances to) has a provenance, and `rid` is addressed to the
peer of `cl`. -/
def Just (c : Cfg) (s0 : HState) (target : Nat) (os : List Out) (rid : Nat) : Prop :=
  ∃ cl : Call, cl.deadline ≤ target ∧ Prov c s0 target os cl ∧ ReqTo s0 rid (callNA cl)

theorem Just.mono {target : Nat} {os os' : List Out} {rid : Nat} (h : Just c s0 target os rid)
    (ho : ∀ o ∈ os, o ∈ os') : Just c s0 target os' rid :=
  let ⟨cl, h1, h2, h3⟩ := h; ⟨cl, h1, h2.mono (Nat.le_refl _) ho, h3⟩

/-- Invariant of the timer path: no new requests appear (every active or queued request was
addressed to the same peer at the start of the step), queued requests sit under their own
address, and every timeout failure reported so far is justified. -/
structure E (c : Cfg) (s0 : HState) (target : Nat) (keep : List Out) (st : St) : Prop where
  keep : ∀ o ∈ keep, o ∈ st.2
  act : ∀ x ∈ st.1.active, ReqTo s0 x.rid (callNA x)
  pend : ∀ e ∈ st.1.pending, ∀ pr ∈ e.2, pr.contact.na = e.1 ∧ ReqTo s0 pr.rid e.1
  tmo : ∀ rid, Out.failed rid .timeout ∈ st.2 → Just c s0 target st.2 rid

variable {target : Nat}

theorem E.mono {st st' : St} (h : E c s0 target keep st) (ha : ∀ x ∈ st'.1.active, x ∈ st.1.active)
    (hp : ∀ e ∈ st'.1.pending, e ∈ st.1.pending) (ho : st'.2 = st.2) : E c s0 target keep st' :=
  ⟨fun o hk => ho ▸ h.keep o hk, fun x hx => h.act x (ha x hx), fun e he => h.pend e (hp e he),
    fun rid hr => by rw [ho] at hr ⊢; exact h.tmo rid hr⟩

theorem E.unkeep {st : St} (h : E c s0 target keep st) : E c s0 target [] st :=
  ⟨fun _ ho => (nomatch ho), h.act, h.pend, h.tmo⟩
theorem E.rekeep {st : St} (h : E c s0 target keep st) : E c s0 target st.2 st :=
  ⟨fun _ ho => ho, h.act, h.pend, h.tmo⟩

theorem E_frame {α} {m : M α}
    (h : ∀ st, (m.run st).2.1.active = st.1.active ∧ (m.run st).2.1.pending = st.1.pending ∧
      (m.run st).2.2 = st.2) : Ho (E c s0 target keep) m (fun _ => E c s0 target keep) :=
  ⟨fun st hp => hp.mono (fun x hx => (h st).1 ▸ hx) (fun e he => (h st).2.1 ▸ he) (h st).2.2⟩
theorem E_modS (f : HState → HState) (h : ∀ s, (f s).active = s.active ∧ (f s).pending = s.pending) :
    Ho (E c s0 target keep) (modS f) (fun _ => E c s0 target keep) :=
  E_frame (fun st => ⟨(h st.1).1, (h st.1).2, rfl⟩)
theorem E_setS_pinned {s1 : HState} (s' : HState) (h1 : ∀ x ∈ s'.active, x ∈ s1.active)
    (h2 : ∀ e ∈ s'.pending, e ∈ s1.pending) :
    Ho (Pin s1 (E c s0 target keep)) (setS s') (fun _ => E c s0 target keep) :=
  Ho.setS _ (fun st hp => hp.2.mono (fun x hx => hp.1 ▸ h1 x hx) (fun e he => hp.1 ▸ h2 e he) rfl)

/-- An output is appended: a timeout failure needs a justification. -/
theorem E_emit (o : Out) (ho : ∀ rid, o = .failed rid .timeout → Just c s0 target keep rid) :
    Ho (E c s0 target keep) (emit o) (fun _ => E c s0 target keep) := by
  refine ⟨fun st hp => ⟨fun x hk => List.mem_append_left _ (hp.keep x hk), hp.act, hp.pend, fun rid hr => ?_⟩⟩
  have hr' : Out.failed rid .timeout ∈ st.2 ++ [o] := hr
  rcases List.mem_append.1 hr' with hr' | hr'
  · exact (hp.tmo rid hr').mono (fun _ hm => List.mem_append_left _ hm)
  · exact (ho rid (List.mem_singleton.1 hr').symm).mono (fun x hk => List.mem_append_left _ (hp.keep x hk))
theorem E_send (na : NA) (p : Pkt) : Ho (E c s0 target keep) (send na p) (fun _ => E c s0 target keep) :=
  E_emit _ (fun _ h => nomatch h)
theorem E_addExpected (a) : Ho (E c s0 target keep) (addExpected a) (fun _ => E c s0 target keep) :=
  E_modS _ (fun s => by by_cases h : s.exempt.any (·.1 == a) <;> simp [h])
theorem E_sessGetMut (na) : Ho (E c s0 target keep) (sessGetMut c na) (fun _ => E c s0 target keep) :=
  sessGetMut_elim (fun _ hp => ⟨fun _ => hp, fun _ _ _ _ =>
    ⟨fun _ => hp.mono (fun _ h => h) (fun _ h => h) rfl, fun _ => hp.mono (fun _ h => h) (fun _ h => h) rfl⟩⟩)
theorem E_activeInsert (call : Call) (h : ReqTo s0 call.rid (callNA call)) :
    Ho (E c s0 target keep) (activeInsert c call) (fun _ => E c s0 target keep) := by
  refine Ho.modS _ (fun st hp => ⟨hp.keep, fun x hx => ?_, hp.pend, hp.tmo⟩)
  simp only [List.mem_append, List.mem_singleton] at hx
  rcases hx with hx | hx
  · exact hp.act x hx
  · subst hx; exact h
theorem E_push (contact : Contact) (rid : Nat) (internal : Bool) (body : Nat)
    (hq : ReqTo s0 rid contact.na) :
    Ho (E c s0 target keep) (modS fun s =>
      let pr : PendingReq := { contact := contact, rid := rid, internal := internal, body := body }
      if s.pending.any (·.1 == contact.na) then
        { s with pending := s.pending.map (fun e => if e.1 == contact.na then (e.1, e.2 ++ [pr]) else e) }
      else { s with pending := s.pending ++ [(contact.na, [pr])] }) (fun _ => E c s0 target keep) := by
  refine Ho.modS _ (fun st h => ?_)
  dsimp only
  split
  · refine ⟨h.keep, h.act, ?_, h.tmo⟩
    intro e' he' pr hpr
    have he'' : e' ∈ st.1.pending.map _ := he'
    simp only [List.mem_map] at he''
    obtain ⟨e, he, rfl⟩ := he''
    by_cases hk : (e.1 == contact.na) = true
    · simp only [hk, if_true] at hpr ⊢
      rcases List.mem_append.1 hpr with hpr | hpr
      · exact h.pend e he pr hpr
      · rw [List.mem_singleton.1 hpr, beq_iff_eq.1 hk]; exact ⟨rfl, hq⟩
    · simp only [hk] at hpr ⊢
      exact h.pend e he pr hpr
  · refine ⟨h.keep, h.act, ?_, h.tmo⟩
    intro e' he' pr hpr
    have he'' : e' ∈ st.1.pending ++ [(contact.na, [_])] := he'
    rcases List.mem_append.1 he'' with he'' | he''
    · exact h.pend e' he'' pr hpr
    · rw [List.mem_singleton.1 he''] at hpr ⊢
      rw [List.mem_singleton.1 hpr]; exact ⟨rfl, hq⟩

syntax "e_leaf" : tactic
macro_rules | `(tactic| e_leaf) => `(tactic| first
  | with_reducible exact E_send _ _ | with_reducible exact E_addExpected _
  | with_reducible exact E_sessGetMut _
  | with_reducible apply E_activeInsert
  | with_reducible apply E_push
  | ((with_reducible apply E_emit); intro _ h; exact nomatch h)
  | exact E_frame (fun _ => ⟨rfl, rfl, rfl⟩)
  | exact E_modS _ (fun s => by first | exact ⟨rfl, rfl⟩ | (dsimp only; split <;> exact ⟨rfl, rfl⟩)))
macro_rules | `(tactic| ho_leaf) => `(tactic| e_leaf)

theorem E_isAwaitingSession (na) :
    Ho (E c s0 target keep) (isAwaitingSession c na) (fun _ => E c s0 target keep) := by
  unfold isAwaitingSession; ho_walk
macro_rules | `(tactic| e_leaf) => `(tactic| with_reducible exact E_isAwaitingSession _)

theorem E_sendRequest (ct : Contact) (rid i b) (hq : ReqTo s0 rid ct.na) :
    Ho (E c s0 target keep) (sendRequest c ct rid i b)
      (fun r st => E c s0 target keep st ∧ r ≠ some .timeout) := by
  unfold sendRequest; ho_walk
  all_goals first | exact hq | exact ⟨by assumption, by simp⟩

theorem Ho.forEachM {α} {P : St → Prop} (l : List α) (f : α → M Unit)
    (h : ∀ x ∈ l, Ho P (f x) (fun _ => P)) : Ho P (forEach l f) (fun _ => P) := by
  induction l with
  | nil => exact Ho.pureI ()
  | cons x xs ih =>
    rw [forEach_cons]
    exact Ho.bindP (h x (List.mem_cons_self ..)) (fun _ => ih (fun y hy => h y (List.mem_cons_of_mem _ hy)))

theorem E_removeExpiredSessions :
    Ho (E c s0 target keep) (removeExpiredSessions c) (fun _ => E c s0 target keep) :=
  removeExpiredSessions_elim (fun st hp e r _ => by
    have hs : E c s0 target keep ({ st.1 with sessions := r }, st.2) := hp.mono (fun _ h => h) (fun _ h => h) rfl
    by_cases he : e.isEmpty
    · simp only [he, if_true]; exact hs
    · simp only [he]; exact (E_emit (.expired e) (fun _ h => nomatch h)).out _ hs)

theorem E_sendPendingRequests (na : NA) :
    Ho (E c s0 target keep) (sendPendingRequests c na) (fun _ => E c s0 target keep) := by
  unfold sendPendingRequests
  refine Ho.getS_pin (fun s1 => ?_)
  refine Ho.pre (P' := fun st => (∀ e ∈ s1.pending, ∀ pr ∈ e.2, pr.contact.na = e.1 ∧ ReqTo s0 pr.rid e.1) ∧
    Pin s1 (E c s0 target keep) st) ?_ (fun st hp => ⟨hp.1 ▸ hp.2.pend, hp⟩)
  refine Ho.pre_pure (fun hpk => ?_)
  refine Ho.bind (E_setS_pinned _ (fun _ h => h) (fun _ h => (List.mem_filter.1 h).1)) (fun _ => ?_)
  refine Ho.forEachM _ _ (fun pr hpr => ?_)
  have hq : ReqTo s0 pr.rid pr.contact.na := by
    cases hf : s1.pending.find? (·.1 == na) with
    | none => rw [hf] at hpr; cases hpr
    | some e =>
      rw [hf] at hpr
      have := hpk e (List.mem_of_find?_eq_some hf) pr hpr
      rw [this.1]; exact this.2
  refine Ho.bind (E_sendRequest pr.contact pr.rid pr.internal pr.body hq) (fun r => Ho.pre_pure' (fun hr => ?_))
  cases r with
  | none => exact Ho.pureI _
  | some e =>
    refine Ho.iteI (E_emit _ ?_) (Ho.pureI _)
    intro _ h; cases h; exact absurd rfl hr

theorem E_activeRemoveRequests (na : NA) : Ho (E c s0 target keep) (activeRemoveRequests na)
    (fun r st => E c s0 target keep st ∧ ∀ x ∈ r, ReqTo s0 x.rid na) :=
  ⟨fun st hp => ⟨hp.mono (fun _ hx => (List.mem_filter.1 hx).1) (fun _ h => h) rfl, fun x hx => by
    have hx' : x ∈ st.1.active.filter (fun call => callNA call == na) := hx
    have := List.mem_filter.1 hx'
    rw [← beq_iff_eq.1 this.2]; exact hp.act x this.1⟩⟩

theorem E_failSession (na : NA) (e : Err) (b : Bool)
    (hj : e = .timeout → ∀ rid, ReqTo s0 rid na → Just c s0 target keep rid) :
    Ho (E c s0 target keep) (failSession c na e b) (fun _ => E c s0 target keep) := by
  have h2 : Ho (E c s0 target keep) (do
      let calls ← activeRemoveRequests na
      forEach calls fun call => do
        if !call.internal then emit (.failed call.rid e)
        removeExpected na.addr) (fun _ => E c s0 target keep) := by
    refine Ho.bind (E_activeRemoveRequests na) (fun calls => Ho.pre_pure' (fun hc => ?_))
    refine Ho.forEachM _ _ (fun call hcall => ?_)
    have hem : Ho (E c s0 target keep) (emit (.failed call.rid e)) (fun _ => E c s0 target keep) := by
      refine E_emit _ ?_
      intro rid h
      injection h with h1 h2
      exact hj h2 rid (h1 ▸ hc call hcall)
    exact Ho.ite (fun _ => Ho.bind hem (fun _ => E_frame (fun _ => ⟨rfl, rfl, rfl⟩)))
      (fun _ => E_frame (fun _ => ⟨rfl, rfl, rfl⟩))
  have h1 : Ho (E c s0 target keep) (do
      let s ← getS
      match s.pending.find? (·.1 == na) with
      | some ent =>
        setS { s with pending := s.pending.filter (·.1 != na) }
        forEach ent.2 fun pr => do
          if !pr.internal then emit (.failed pr.rid e)
      | none => pure ()
      let calls ← activeRemoveRequests na
      forEach calls fun call => do
        if !call.internal then emit (.failed call.rid e)
        removeExpected na.addr) (fun _ => E c s0 target keep) := by
    refine Ho.getS_pin (fun s1 => ?_)
    refine Ho.pre (P' := fun st => (∀ e ∈ s1.pending, ∀ pr ∈ e.2, pr.contact.na = e.1 ∧ ReqTo s0 pr.rid e.1) ∧
      Pin s1 (E c s0 target keep) st) ?_ (fun st hp => ⟨hp.1 ▸ hp.2.pend, hp⟩)
    refine Ho.pre_pure (fun hpk => ?_)
    split
    · rename_i ent hf
      refine Ho.bind (E_setS_pinned _ (fun _ h => h) (fun _ h => (List.mem_filter.1 h).1)) (fun _ => ?_)
      refine Ho.bind (Q := fun _ => E c s0 target keep) ?_ (fun _ => h2)
      refine Ho.forEachM _ _ (fun pr hpr => ?_)
      refine Ho.iteI (E_emit _ ?_) (Ho.pureI _)
      intro rid h
      injection h with h1 h2
      have hk : ent.1 = na := by have := List.find?_some hf; exact beq_iff_eq.1 this
      have := (hpk ent (List.mem_of_find?_eq_some hf) pr hpr).2
      rw [hk, h1] at this
      exact hj h2 rid this
    · exact Ho.unpin h2
  unfold failSession
  exact Ho.ite (fun _ => Ho.bind E_removeExpiredSessions
    (fun _ => Ho.bind (E_frame (fun _ => ⟨rfl, rfl, rfl⟩)) (fun _ => h1))) (fun _ => h1)

theorem E_failRequest (call : Call) (e : Err) (b : Bool)
    (hj : e = .timeout → ∀ rid, ReqTo s0 rid (callNA call) → Just c s0 target keep rid)
    (hq : ReqTo s0 call.rid (callNA call)) :
    Ho (E c s0 target keep) (failRequest c call e b) (fun _ => E c s0 target keep) := by
  unfold failRequest
  have hem : Ho (E c s0 target keep) (emit (.failed call.rid e)) (fun _ => E c s0 target keep) := by
    refine E_emit _ ?_
    intro rid h
    injection h with h1 h2
    exact hj h2 rid (h1 ▸ hq)
  exact Ho.ite (fun _ => Ho.bind hem (fun _ => E_failSession _ _ _ hj)) (fun _ => E_failSession _ _ _ hj)

/-- The timer of `call` fired: its deadline is reached, it has a provenance, and it is one of the
requests that were around at the start of the step. -/
theorem E_handleRequestTimeout (call : Call) (hd : call.deadline ≤ target) (hp : Prov c s0 target keep call)
    (hq : ReqTo s0 call.rid (callNA call)) :
    Ho (E c s0 target keep) (handleRequestTimeout c call) (fun _ => E c s0 target keep) := by
  unfold handleRequestTimeout
  have hj : ∀ rid, ReqTo s0 rid (callNA call) → Just c s0 target keep rid :=
    fun rid h => ⟨call, hd, hp, h⟩
  refine Ho.ite (fun _ => ?_) (fun _ => ?_)
  · exact Ho.bind (E_frame (fun _ => ⟨rfl, rfl, rfl⟩)) (fun _ => E_failRequest call _ _ (fun _ => hj) hq)
  · exact Ho.bind (E_send _ _) (fun _ => E_activeInsert _ hq)

theorem nextDue_inl_spec (s : HState) (t d : Nat) (call : Call)
    (h : nextDue s t = some (d, .inl call)) : call ∈ s.active ∧ call.deadline ≤ t := by
  unfold nextDue at h
  simp only at h
  have key : ∀ r, List.foldl (fun (m : Option Call) call => match m with
      | none => some call
      | some b => if (decide (call.deadline < b.deadline) || call.deadline == b.deadline && decide (call.tseq < b.tseq)) = true
          then some call else some b) none (List.filter (fun x => decide (x.deadline ≤ t)) s.active) = some r →
      r ∈ s.active ∧ r.deadline ≤ t := by
    intro r hr
    rcases foldl_pick_mem _ (by
      intro m x; cases m with
      | none => exact Or.inl rfl
      | some b => dsimp only; split
                  · exact Or.inl rfl
                  · exact Or.inr rfl) _ _ _ hr with h1 | h1
    · cases h1
    · have := List.mem_filter.1 h1
      exact ⟨this.1, of_decide_eq_true this.2⟩
  split at h
  · rename_i r ch hr hc
    split at h
    · cases h
    · cases h; exact key _ hr
  · rename_i r hr hc
    cases h; exact key _ hr
  · cases h
  · cases h

/-- `W` and `E` together (nothing kept): the invariant of the timer loop. -/
def D (c : Cfg) (s0 : HState) (target : Nat) (st : St) : Prop :=
  W c s0 [] st ∧ E c s0 target [] st ∧ NowLe target st

theorem D_fireTimers (fuel : Nat) :
    Ho (D c s0 target) (fireTimers c target fuel) (fun _ => D c s0 target) := by
  induction fuel with
  | zero => unfold fireTimers; exact Ho.pureI _
  | succ n ih =>
    unfold fireTimers
    refine Ho.getS_pin (fun s1 => ?_)
    split
    · exact Ho.unpin (Ho.pureI _)
    · rename_i d call hnd
      obtain ⟨hm, hd⟩ := nextDue_inl_spec _ _ _ _ hnd
      refine ⟨fun st hp => ?_⟩
      obtain ⟨h1, hw, he, hb⟩ := hp
      subst h1
      have hprov := (hw.prov call hm).mono hb (fun _ h => h)
      have hq := he.act call hm
      have hw1 := (hw.mono (st' := ({ st.1 with active := st.1.active.erase call, now := max st.1.now d }, st.2))
        (fun _ hx => List.mem_of_mem_erase hx) (Nat.le_max_left _ _) (fun _ h => h)).rekeep
      have he1 := (he.mono (st' := ({ st.1 with active := st.1.active.erase call, now := max st.1.now d }, st.2))
        (fun _ hx => List.mem_of_mem_erase hx) (fun _ h => h) rfl).rekeep
      have hw2 := (W_handleRequestTimeout call).out _ hw1
      have he2 := (E_handleRequestTimeout call hd hprov hq).out _ he1
      have hb2 := (B_handleRequestTimeout (c := c) (t := target) call).out
        ({ st.1 with active := st.1.active.erase call, now := max st.1.now d }, st.2)
        (Nat.max_le.2 ⟨hb, nextDue_le _ _ _ _ hnd⟩)
      exact ih.out _ ⟨hw2.unkeep (fun _ h => (nomatch h)), he2.unkeep, hb2⟩
    · rename_i d na hnd
      refine Ho.bind (Q := fun _ => D c s0 target) (Ho.setS _ (fun st hp => ?_)) (fun _ => ?_)
      · obtain ⟨h1, hw, he, hb⟩ := hp
        subst h1
        exact ⟨hw.mono (fun _ hx => hx) (Nat.le_max_left _ _) (fun _ h => h),
          he.mono (fun _ hx => hx) (fun _ h => h) rfl, Nat.max_le.2 ⟨hb, nextDue_le _ _ _ _ hnd⟩⟩
      · refine Ho.bind (Ho.conj (W_removeExpected _) (Ho.conj (E_frame (fun _ => ⟨rfl, rfl, rfl⟩))
          (B_frame (fun _ => rfl)))) (fun _ => ?_)
        exact Ho.bind (Ho.conj (W_sendPendingRequests na) (Ho.conj (E_sendPendingRequests na)
          (B_sendPendingRequests na))) (fun _ => ih)

/-! ## What one step does -/

/-- Every step keeps the provenance invariant (from a state satisfying the transmission invariant). -/
theorem step_W (c : Cfg) (pre : List Out) (s : HState) (e : Ev) (hti : TI c pre (s, [])) :
    W c s [] ((step c s e).1, (step c s e).2) := by
  have h0 : TW c pre s [] (s, []) :=
    ⟨hti, fun _ h => (nomatch h), Nat.le_refl _, fun cl hc => Or.inl hc⟩
  have := (W_stepM (c := c) (pre := pre) (s0 := s) (keep := []) e).out (s, []) h0
  rw [step_eq]; exact this

/-- A step that lets time pass: additionally the accounting of the timeout failures. -/
theorem step_E (c : Cfg) (s : HState) (dt : Nat)
    (hk : ∀ e ∈ s.pending, ∀ pr ∈ e.2, pr.contact.na = e.1) :
    E c s (s.now + dt) [] ((step c s (.adv dt)).1, (step c s (.adv dt)).2) ∧
      (step c s (.adv dt)).1.now = s.now + dt := by
  have h0 : D c s (s.now + dt) (s, []) :=
    ⟨⟨fun _ h => (nomatch h), Nat.le_refl _, fun cl hc => Or.inl hc⟩,
     ⟨fun _ h => (nomatch h), fun x hx => Or.inl ⟨x, hx, rfl, rfl⟩,
      fun e he pr hpr => ⟨hk e he pr hpr, Or.inr ⟨e, he, rfl, pr, hpr, rfl⟩⟩, fun _ h => (nomatch h)⟩,
     Nat.le_add_right _ _⟩
  have hs : Ho (fun st => st.1 = s ∧ D c s (s.now + dt) st) (stepM c (.adv dt))
      (fun _ st => E c s (s.now + dt) [] st ∧ st.1.now = s.now + dt) := by
    simp only [stepM]
    refine Ho.getS_bind (fun s1 => ?_)
    refine Ho.pre (P' := fun st => s1 = s ∧ D c s (s.now + dt) st) ?_ (fun st hp => ⟨hp.1 ▸ hp.2.1, hp.2.2⟩)
    refine Ho.pre_pure (fun hs => ?_)
    subst hs
    exact Ho.bind (D_fireTimers 10000) (fun _ => Ho.modS _ (fun st hp =>
      ⟨hp.2.1.mono (fun _ h => h) (fun _ h => h) rfl, rfl⟩))
  have := hs.out (s, []) ⟨rfl, h0⟩
  rw [step_eq]; exact this

/-! ## Histories as lists of frames -/

/-- One step of a history: the state before it, the event, the state after it and its outputs. -/
structure Frame where
  pre : HState
  ev : Ev
  post : HState
  outs : List Out

/-- The steps of the run of `evs` from the state `s`. -/
def frames (c : Cfg) : HState → List Ev → List Frame
  | _, [] => []
  | s, e :: rest => ⟨s, e, (step c s e).1, (step c s e).2⟩ :: frames c (step c s e).1 rest

/-- The steps of the run of `evs` from the initial state (the run of `run c evs`). -/
def history (c : Cfg) (evs : List Ev) : List Frame := frames c {} evs

theorem frames_snoc (c : Cfg) (s : HState) (evs : List Ev) (e : Ev) :
    frames c s (evs ++ [e]) = frames c s evs ++
      [⟨evs.foldl (fun s e => (step c s e).1) s, e,
        (step c (evs.foldl (fun s e => (step c s e).1) s) e).1,
        (step c (evs.foldl (fun s e => (step c s e).1) s) e).2⟩] := by
  induction evs generalizing s with
  | nil => rfl
  | cons x xs ih => simp only [List.cons_append, frames, List.foldl_cons, ih]

theorem history_snoc (c : Cfg) (evs : List Ev) (e : Ev) :
    history c (evs ++ [e]) = history c evs ++
      [⟨run c evs, e, (step c (run c evs) e).1, (step c (run c evs) e).2⟩] :=
  frames_snoc c {} evs e

theorem frames_length (c : Cfg) (s : HState) (evs : List Ev) : (frames c s evs).length = evs.length := by
  induction evs generalizing s with
  | nil => rfl
  | cons x xs ih => simp only [frames, List.length_cons, ih]

theorem history_length (c : Cfg) (evs : List Ev) : (history c evs).length = evs.length :=
  frames_length c {} evs

theorem frames_outs (c : Cfg) (s : HState) (evs : List Ev) :
    (frames c s evs).map (·.outs) = trace c s evs := by
  induction evs generalizing s with
  | nil => rfl
  | cons x xs ih => simp only [frames, trace, List.map_cons, ih]

theorem snoc_get {α} (h : List α) (f : α) (i : Nat) (x : α) :
    (h ++ [f])[i]? = some x ↔ (h[i]? = some x) ∨ (i = h.length ∧ x = f) := by
  by_cases hi : i < h.length
  · rw [List.getElem?_append_left hi]
    constructor
    · exact Or.inl
    · rintro (h1 | ⟨h1, _⟩)
      · exact h1
      · omega
  · rw [List.getElem?_append_right (Nat.le_of_not_lt hi)]
    have hn : h[i]? = none := List.getElem?_eq_none (Nat.le_of_not_lt hi)
    rw [hn]
    by_cases h0 : i = h.length
    · subst h0; simp [eq_comm]
    · have : i - h.length ≠ 0 := by omega
      obtain ⟨m, hm⟩ := Nat.exists_eq_succ_of_ne_zero this
      rw [hm]; simp [h0]

theorem lt_of_get {α} {h : List α} {i : Nat} {x : α} (hx : h[i]? = some x) : i < h.length := by
  rcases Nat.lt_or_ge i h.length with hl | hl
  · exact hl
  · rw [List.getElem?_eq_none hl] at hx; cases hx

/-! ## The origin of every running timer -/

/-- Where the timer of the active call `cl` comes from, in the history `h` (whose last frame ends in
the current state): in step `j0` the packet of a call `cl0` of the same request to the same peer was
put on the wire towards that peer (and `cl0` was active at the end of that step); since then a call
of this request to this peer has been active at the end of every step; in step `j ≥ j0` the timer of
`cl` was armed (its deadline is one timeout period after a moment within step `j`), and
`cl` itself has been active, unchanged, at the end of every step since. -/
def Origin (c : Cfg) (h : List Frame) (cl : Call) : Prop :=
  ∃ (j0 j : Nat) (f0 fj : Frame) (cl0 : Call),
    j0 ≤ j ∧ h[j0]? = some f0 ∧ h[j]? = some fj ∧
    cl0.rid = cl.rid ∧ callNA cl0 = callNA cl ∧
    Out.send (callNA cl0) cl0.pkt ∈ f0.outs ∧ cl0 ∈ f0.post.active ∧
    (∀ i fi, j0 ≤ i → h[i]? = some fi → ∃ x ∈ fi.post.active, x.rid = cl.rid ∧ callNA x = callNA cl) ∧
    fj.pre.now + c.requestTimeout ≤ cl.deadline ∧ cl.deadline ≤ fj.post.now + c.requestTimeout ∧
    (∀ i fi, j ≤ i → h[i]? = some fi → cl ∈ fi.post.active)

theorem Origin.extend {h : List Frame} {cl : Call} (ho : Origin c h cl) (f : Frame)
    (hf : cl ∈ f.post.active) : Origin c (h ++ [f]) cl := by
  obtain ⟨j0, j, f0, fj, cl0, h1, h2, h3, h4, h5, h6, h7, h8, h9, h9', h10⟩ := ho
  refine ⟨j0, j, f0, fj, cl0, h1, (snoc_get ..).2 (Or.inl h2), (snoc_get ..).2 (Or.inl h3), h4, h5, h6, h7,
    ?_, h9, h9', ?_⟩
  · intro i fi hi hfi
    rcases (snoc_get ..).1 hfi with hfi | ⟨_, rfl⟩
    · exact h8 i fi hi hfi
    · exact ⟨cl, hf, rfl, rfl⟩
  · intro i fi hi hfi
    rcases (snoc_get ..).1 hfi with hfi | ⟨_, rfl⟩
    · exact h10 i fi hi hfi
    · exact hf

/-- The timer of every active call has an origin in the history. -/
theorem origin_of_active (c : Cfg) (evs : List Ev) :
    ∀ cl ∈ (run c evs).active, Origin c (history c evs) cl := by
  induction evs using snoc_induction with
  | h0 => intro cl h; cases h
  | h1 evs e ih =>
    intro cl hcl
    rw [history_snoc]
    rw [run_snoc] at hcl
    have hw := step_W c (outputs c evs) (run c evs) e (run_TI c evs)
    have hl : ∀ x, (history c evs)[(history c evs).length]? = some x → False := fun x hx =>
      absurd (lt_of_get hx) (Nat.lt_irrefl _)
    rcases hw.prov cl hcl with hp | ⟨hd, hu, hp | ⟨clo, hclo, hr, hn⟩⟩
    · exact (ih cl hp).extend _ hcl
    · refine ⟨_, _, _, _, cl, Nat.le_refl _, (snoc_get ..).2 (Or.inr ⟨rfl, rfl⟩),
        (snoc_get ..).2 (Or.inr ⟨rfl, rfl⟩), rfl, rfl, hp, hcl, ?_, hd, hu, ?_⟩
      · intro i fi hi hfi
        rcases (snoc_get ..).1 hfi with hfi | ⟨_, rfl⟩
        · exact absurd (lt_of_get hfi) (Nat.not_lt.2 hi)
        · exact ⟨cl, hcl, rfl, rfl⟩
      · intro i fi hi hfi
        rcases (snoc_get ..).1 hfi with hfi | ⟨_, rfl⟩
        · exact absurd (lt_of_get hfi) (Nat.not_lt.2 hi)
        · exact hcl
    · obtain ⟨j0, j, f0, fj, cl0, h1, h2, h3, h4, h5, h6, h7, h8, h9, h9', h10⟩ := ih clo hclo
      refine ⟨j0, (history c evs).length, f0, _, cl0, Nat.le_of_lt (lt_of_get h2),
        (snoc_get ..).2 (Or.inl h2), (snoc_get ..).2 (Or.inr ⟨rfl, rfl⟩), h4.trans hr, h5.trans hn, h6, h7,
        ?_, hd, hu, ?_⟩
      · intro i fi hi hfi
        rcases (snoc_get ..).1 hfi with hfi | ⟨_, rfl⟩
        · obtain ⟨x, hx, hx1, hx2⟩ := h8 i fi hi hfi
          exact ⟨x, hx, hx1.trans hr, hx2.trans hn⟩
        · exact ⟨cl, hcl, rfl, rfl⟩
      · intro i fi hi hfi
        rcases (snoc_get ..).1 hfi with hfi | ⟨_, rfl⟩
        · exact absurd (lt_of_get hfi) (Nat.not_lt.2 hi)
        · exact hcl

/-! ## The trace theorem -/

/-- The justification of a timeout failure reported for request `rid` in step `k` (frame `fk`) of the
history `h`; see `Props/C04Timeout.lean` for the reading. -/
def TimeoutJustified (c : Cfg) (h : List Frame) (k : Nat) (fk : Frame) (rid : Nat) : Prop :=
  ∃ (cl cl0 : Call) (j0 j : Nat) (f0 fj : Frame),
    j0 ≤ j ∧ j ≤ k ∧ h[j0]? = some f0 ∧ h[j]? = some fj ∧
    ReqTo fk.pre rid (callNA cl) ∧
    cl0.rid = cl.rid ∧ callNA cl0 = callNA cl ∧
    Out.send (callNA cl0) cl0.pkt ∈ f0.outs ∧ (j0 < k → cl0 ∈ f0.post.active) ∧ (j0 = k → cl0 = cl) ∧
    (∀ i fi, j0 ≤ i → i < k → h[i]? = some fi →
      ∃ x ∈ fi.post.active, x.rid = cl.rid ∧ callNA x = callNA cl) ∧
    fj.pre.now + c.requestTimeout ≤ cl.deadline ∧ cl.deadline ≤ fj.post.now + c.requestTimeout ∧
    cl.deadline ≤ fk.post.now ∧
    (∀ i fi, j ≤ i → i < k → h[i]? = some fi → cl ∈ fi.post.active)

theorem TimeoutJustified.extend {h : List Frame} {k : Nat} {fk : Frame} {rid : Nat}
    (ht : TimeoutJustified c h k fk rid) (hk : k < h.length) (f : Frame) :
    TimeoutJustified c (h ++ [f]) k fk rid := by
  obtain ⟨cl, cl0, j0, j, f0, fj, h1, h2, h3, h4, h5, h6, h7, h8, h9, h10, h11, h12, h12', h13, h14⟩ := ht
  refine ⟨cl, cl0, j0, j, f0, fj, h1, h2, (snoc_get ..).2 (Or.inl h3), (snoc_get ..).2 (Or.inl h4), h5, h6, h7,
    h8, h9, h10, ?_, h12, h12', h13, ?_⟩
  · intro i fi hi hik hfi
    rcases (snoc_get ..).1 hfi with hfi | ⟨hh, _⟩
    · exact h11 i fi hi hik hfi
    · omega
  · intro i fi hi hik hfi
    rcases (snoc_get ..).1 hfi with hfi | ⟨hh, _⟩
    · exact h14 i fi hi hik hfi
    · omega

/-- The last step of a history. -/
theorem timeout_justified_last (c : Cfg) (evs : List Ev) (e : Ev) (rid : Nat)
    (hf : Out.failed rid .timeout ∈ (step c (run c evs) e).2) :
    TimeoutJustified c (history c (evs ++ [e])) evs.length
      ⟨run c evs, e, (step c (run c evs) e).1, (step c (run c evs) e).2⟩ rid := by
  obtain ⟨dt, rfl⟩ := timeout_only_from_timer' c _ e rid hf
  obtain ⟨he, hnow⟩ := step_E c (run c evs) dt (pending_keyed c evs)
  obtain ⟨cl, hd, hp, hq⟩ := he.tmo rid hf
  rw [history_snoc]
  have hlen := history_length c evs
  have hdl : cl.deadline ≤ (step c (run c evs) (.adv dt)).1.now := by rw [hnow]; exact hd
  rcases hp with hp | ⟨hdd, hu, hp | ⟨clo, hclo, hr, hn⟩⟩
  · obtain ⟨j0, j, f0, fj, cl0, h1, h2, h3, h4, h5, h6, h7, h8, h9, h9', h10⟩ := origin_of_active c evs cl hp
    have hj0 := lt_of_get h2
    have hj := lt_of_get h3
    refine ⟨cl, cl0, j0, j, f0, fj, h1, by omega, (snoc_get ..).2 (Or.inl h2), (snoc_get ..).2 (Or.inl h3),
      hq, h4, h5, h6, fun _ => h7, fun hh => by omega, ?_, h9, h9', hdl, ?_⟩
    · intro i fi hi hik hfi
      rcases (snoc_get ..).1 hfi with hfi | ⟨hh, _⟩
      · exact h8 i fi hi hfi
      · omega
    · intro i fi hi hik hfi
      rcases (snoc_get ..).1 hfi with hfi | ⟨hh, _⟩
      · exact h10 i fi hi hfi
      · omega
  · refine ⟨cl, cl, evs.length, evs.length, _, _, Nat.le_refl _, Nat.le_refl _,
      (snoc_get ..).2 (Or.inr ⟨hlen.symm, rfl⟩), (snoc_get ..).2 (Or.inr ⟨hlen.symm, rfl⟩),
      hq, rfl, rfl, hp, fun hh => absurd hh (Nat.lt_irrefl _), fun _ => rfl, ?_, hdd,
      (by show cl.deadline ≤ (step c (run c evs) (.adv dt)).1.now + c.requestTimeout; rw [hnow]; exact hu),
      hdl, ?_⟩
    · intro i fi hi hik; omega
    · intro i fi hi hik; omega
  · obtain ⟨j0, j, f0, fj, cl0, h1, h2, h3, h4, h5, h6, h7, h8, h9, h9', h10⟩ := origin_of_active c evs clo hclo
    have hj0 := lt_of_get h2
    refine ⟨cl, cl0, j0, evs.length, f0, _, by omega, Nat.le_refl _, (snoc_get ..).2 (Or.inl h2),
      (snoc_get ..).2 (Or.inr ⟨hlen.symm, rfl⟩), hq, h4.trans hr, h5.trans hn, h6, fun _ => h7,
      fun hh => by omega, ?_, hdd,
      (by show cl.deadline ≤ (step c (run c evs) (.adv dt)).1.now + c.requestTimeout; rw [hnow]; exact hu),
      hdl, ?_⟩
    · intro i fi hi hik hfi
      rcases (snoc_get ..).1 hfi with hfi | ⟨hh, _⟩
      · obtain ⟨x, hx, hx1, hx2⟩ := h8 i fi hi hfi
        exact ⟨x, hx, hx1.trans hr, hx2.trans hn⟩
      · omega
    · intro i fi hi hik; omega

theorem timeout_justified' (c : Cfg) (evs : List Ev) (k : Nat) (fk : Frame) (rid : Nat)
    (hk : (history c evs)[k]? = some fk) (hf : Out.failed rid .timeout ∈ fk.outs) :
    TimeoutJustified c (history c evs) k fk rid := by
  induction evs using snoc_induction with
  | h0 => cases hk
  | h1 evs e ih =>
    rw [history_snoc] at hk
    rcases (snoc_get ..).1 hk with hk' | ⟨hk1, hk2⟩
    · rw [history_snoc]
      exact (ih hk').extend (lt_of_get hk') _
    · rw [history_length] at hk1
      subst hk1; subst hk2
      exact timeout_justified_last c evs e rid hf

/-- Model time never runs backwards along a history. -/
theorem history_now_mono (c : Cfg) (evs : List Ev) :
    (∀ (i j : Nat) (fi fj : Frame), i ≤ j → (history c evs)[i]? = some fi → (history c evs)[j]? = some fj →
      fi.pre.now ≤ fj.pre.now) ∧
    (∀ (i : Nat) (fi : Frame), (history c evs)[i]? = some fi →
      fi.pre.now ≤ (run c evs).now ∧ fi.post.now ≤ (run c evs).now) := by
  induction evs using snoc_induction with
  | h0 => exact ⟨fun i j fi fj _ h => by simp [history, frames] at h, fun i fi h => by simp [history, frames] at h⟩
  | h1 evs e ih =>
    have hs : (run c evs).now ≤ (run c (evs ++ [e])).now := by
      rw [run_snoc]; exact (step_W c (outputs c evs) (run c evs) e (run_TI c evs)).now
    rw [history_snoc]
    refine ⟨fun i j fi fj hij hi hj => ?_, fun i fi hi => ?_⟩
    · rcases (snoc_get ..).1 hi with hi | ⟨hi1, hi2⟩ <;> rcases (snoc_get ..).1 hj with hj | ⟨hj1, hj2⟩
      · exact ih.1 i j fi fj hij hi hj
      · rw [hj2]; exact (ih.2 i fi hi).1
      · have := lt_of_get hj; omega
      · rw [hi2, hj2]; exact Nat.le_refl _
    · rcases (snoc_get ..).1 hi with hi | ⟨hi1, hi2⟩
      · exact ⟨Nat.le_trans (ih.2 i fi hi).1 hs, Nat.le_trans (ih.2 i fi hi).2 hs⟩
      · rw [hi2]; exact ⟨hs, by rw [run_snoc]; exact Nat.le_refl _⟩

theorem timeout_not_before_full_period' (c : Cfg) (evs : List Ev) (k : Nat) (fk : Frame) (rid : Nat)
    (hk : (history c evs)[k]? = some fk) (hf : Out.failed rid .timeout ∈ fk.outs) :
    ∃ (j : Nat) (fj : Frame) (na : NA) (p : Pkt), j ≤ k ∧ (history c evs)[j]? = some fj ∧
      ReqTo fk.pre rid na ∧ Out.send na p ∈ fj.outs ∧
      fj.pre.now + c.requestTimeout ≤ fk.post.now := by
  obtain ⟨cl, cl0, j0, j, f0, fj, h1, h2, h3, h4, h5, h6, h7, h8, h9, h10, h11, h12, h12', h13, h14⟩ :=
    timeout_justified' c evs k fk rid hk hf
  refine ⟨j0, f0, callNA cl, cl0.pkt, Nat.le_trans h1 h2, h3, h5, h7 ▸ h8, ?_⟩
  have := (history_now_mono c evs).1 j0 j f0 fj h1 h3 h4
  omega

/-- No running timer is set further ahead than one timeout period. -/
theorem deadline_le_now_add_timeout' (c : Cfg) (evs : List Ev) :
    ∀ cl ∈ (run c evs).active, cl.deadline ≤ (run c evs).now + c.requestTimeout := by
  intro cl hcl
  obtain ⟨j0, j, f0, fj, cl0, h1, h2, h3, h4, h5, h6, h7, h8, h9, h9', h10⟩ := origin_of_active c evs cl hcl
  have := ((history_now_mono c evs).2 j fj h3).2
  omega

/-- What the frames of a history are: frame `i` starts in the state reached by the first `i`
events, and is the step for event `i`. -/
theorem history_get (c : Cfg) (evs : List Ev) (i : Nat) (fi : Frame) :
    (history c evs)[i]? = some fi ↔ ∃ e, evs[i]? = some e ∧
      fi = ⟨run c (evs.take i), e, (step c (run c (evs.take i)) e).1, (step c (run c (evs.take i)) e).2⟩ := by
  induction evs using snoc_induction with
  | h0 => simp [history, frames]
  | h1 evs e ih =>
    rw [history_snoc, snoc_get, ih, history_length]
    constructor
    · rintro (⟨e', he', hfi⟩ | ⟨hi, hfi⟩)
      · have hlt := lt_of_get he'
        exact ⟨e', (snoc_get ..).2 (Or.inl he'),
          by rw [List.take_append_of_le_length (Nat.le_of_lt hlt)]; exact hfi⟩
      · subst hi
        refine ⟨e, (snoc_get ..).2 (Or.inr ⟨rfl, rfl⟩), ?_⟩
        rw [List.take_left' rfl]
        exact hfi
    · rintro ⟨e', he', hfi⟩
      rcases (snoc_get ..).1 he' with he' | ⟨hi, hee⟩
      · have hlt := lt_of_get he'
        rw [List.take_append_of_le_length (Nat.le_of_lt hlt)] at hfi
        exact Or.inl ⟨e', he', hfi⟩
      · subst hi; subst hee
        rw [List.take_left' rfl] at hfi
        exact Or.inr ⟨rfl, hfi⟩

/-- The outputs of the frames are the per-step outputs `trace` of `Model/HandlerSpec.lean`. -/
theorem history_outs (c : Cfg) (evs : List Ev) : (history c evs).map (·.outs) = trace c {} evs :=
  frames_outs c {} evs

end Discv5.H.TJ

/-
Helper lemmas for C04 (request accounting of the handler model): a Hoare logic over the full monad
state (handler state + output log), and one "walk" through the handler functions per invariant.
-/
import Discv5Model.Proofs.HandlerBasics

namespace Discv5.H

abbrev St := HState × List Out

/-- Hoare triple over the full monad state (handler state and output log). -/
structure Ho {α} (P : St → Prop) (m : M α) (Q : α → St → Prop) : Prop where
  out : ∀ st, P st → Q (m.run st).1 (m.run st).2

theorem Ho.pure {α} {P : St → Prop} {Q : α → St → Prop} (x : α) (h : ∀ st, P st → Q x st) :
    Ho P (Pure.pure x) Q := ⟨fun st hp => h st hp⟩

theorem Ho.bind {α β} {P : St → Prop} {m : M α} {Q : α → St → Prop} {f : α → M β}
    {R : β → St → Prop} (h1 : Ho P m Q) (h2 : ∀ x, Ho (Q x) (f x) R) : Ho P (m >>= f) R :=
  ⟨fun st hp => (h2 _).out _ (h1.out st hp)⟩

theorem Ho.conseq {α} {P P' : St → Prop} {m : M α} {Q Q' : α → St → Prop}
    (h : Ho P' m Q') (hpre : ∀ st, P st → P' st) (hpost : ∀ x st, Q' x st → Q x st) : Ho P m Q :=
  ⟨fun st hp => hpost _ _ (h.out st (hpre st hp))⟩

theorem Ho.pre {α} {P P' : St → Prop} {m : M α} {Q : α → St → Prop}
    (h : Ho P' m Q) (hpre : ∀ st, P st → P' st) : Ho P m Q := h.conseq hpre (fun _ _ h => h)

theorem Ho.post {α} {P : St → Prop} {m : M α} {Q Q' : α → St → Prop}
    (h : Ho P m Q') (hpost : ∀ x st, Q' x st → Q x st) : Ho P m Q := h.conseq (fun _ h => h) hpost

theorem Ho.ite {α} {P : St → Prop} {b : Prop} [Decidable b] {m1 m2 : M α}
    {Q : α → St → Prop} (h1 : b → Ho P m1 Q) (h2 : ¬ b → Ho P m2 Q) :
    Ho P (if b then m1 else m2) Q := by
  by_cases h : b
  · rw [if_pos h]; exact h1 h
  · rw [if_neg h]; exact h2 h

theorem Ho.conj {α} {P P' : St → Prop} {m : M α} {Q Q' : α → St → Prop}
    (h : Ho P m Q) (h' : Ho P' m Q') : Ho (fun st => P st ∧ P' st) m (fun x st => Q x st ∧ Q' x st) :=
  ⟨fun st hp => ⟨h.out st hp.1, h'.out st hp.2⟩⟩

/-- Pull a state-independent fact out of the precondition. -/
theorem Ho.pre_pure {α} {p : Prop} {P : St → Prop} {m : M α} {Q : α → St → Prop}
    (h : p → Ho P m Q) : Ho (fun st => p ∧ P st) m Q := ⟨fun st hp => (h hp.1).out st hp.2⟩

theorem Ho.pre_pure' {α} {p : Prop} {P : St → Prop} {m : M α} {Q : α → St → Prop}
    (h : p → Ho P m Q) : Ho (fun st => P st ∧ p) m Q := ⟨fun st hp => (h hp.2).out st hp.1⟩

theorem Ho.exfalso {α} {P : St → Prop} {m : M α} {Q : α → St → Prop}
    (h : ∀ st, ¬ P st) : Ho P m Q := ⟨fun st hp => absurd hp (h st)⟩

/-- `let s ← getS; …`: the continuation is verified from states whose handler component is `s`. -/
theorem Ho.getS_bind {β} {P : St → Prop} {f : HState → M β} {R : β → St → Prop}
    (h : ∀ s0, Ho (fun st => st.1 = s0 ∧ P st) (f s0) R) : Ho P (getS >>= f) R :=
  ⟨fun st hp => (h st.1).out st ⟨rfl, hp⟩⟩

theorem Ho.setS {P : St → Prop} {Q : Unit → St → Prop} (s' : HState)
    (h : ∀ st, P st → Q () (s', st.2)) : Ho P (setS s') Q := ⟨fun st hp => h st hp⟩

theorem Ho.modS {P : St → Prop} {Q : Unit → St → Prop} (f : HState → HState)
    (h : ∀ st, P st → Q () (f st.1, st.2)) : Ho P (modS f) Q := ⟨fun st hp => h st hp⟩

theorem Ho.emit {P : St → Prop} {Q : Unit → St → Prop} (o : Out)
    (h : ∀ st, P st → Q () (st.1, st.2 ++ [o])) : Ho P (emit o) Q := ⟨fun st hp => h st hp⟩

/-! Uniform-invariant forms (the shape the walker tactic applies). -/
theorem Ho.pureI {α} {P : St → Prop} (x : α) : Ho P (Pure.pure x) (fun _ => P) := ⟨fun _ hp => hp⟩
/-- prefix keeps the invariant, the rest establishes the postcondition -/
theorem Ho.bindP {α β} {P : St → Prop} {m : M α} {f : α → M β} {Q : β → St → Prop}
    (h1 : Ho P m (fun _ => P)) (h2 : ∀ x, Ho P (f x) Q) : Ho P (m >>= f) Q := Ho.bind h1 h2
theorem Ho.iteI {α} {P : St → Prop} {b : Prop} [Decidable b] {m1 m2 : M α}
    {Q : α → St → Prop} (h1 : Ho P m1 Q) (h2 : Ho P m2 Q) :
    Ho P (if b then m1 else m2) Q := Ho.ite (fun _ => h1) (fun _ => h2)
theorem Ho.getI {P : St → Prop} : Ho P getS (fun _ => P) := ⟨fun _ hp => hp⟩

theorem Ho.forEachI {α} {P : St → Prop} (l : List α) (f : α → M Unit)
    (h : ∀ x, Ho P (f x) (fun _ => P)) : Ho P (forEach l f) (fun _ => P) := by
  induction l with
  | nil => exact Ho.pureI ()
  | cons x xs ih => rw [forEach_cons]; exact Ho.bindP (h x) (fun _ => ih)

/-- A loop with an invariant indexed by the items still to be processed. -/
theorem Ho.forEach {α} (I : List α → St → Prop) (l : List α) (f : α → M Unit)
    (h : ∀ x xs, Ho (I (x :: xs)) (f x) (fun _ => I xs)) : Ho (I l) (forEach l f) (fun _ => I []) := by
  induction l with
  | nil => exact Ho.pureI ()
  | cons x xs ih => rw [forEach_cons]; exact Ho.bind (h x xs) (fun _ => ih)

/-- The precondition additionally pins the handler state to the value just read by `getS`. -/
def Pin (s0 : HState) (P : St → Prop) : St → Prop := fun st => st.1 = s0 ∧ P st

theorem Ho.unpin {α} {s0 : HState} {P : St → Prop} {m : M α} {Q : α → St → Prop}
    (h : Ho P m Q) : Ho (Pin s0 P) m Q := ⟨fun st hp => h.out st hp.2⟩

theorem Ho.getS_pin {β} {P : St → Prop} {f : HState → M β} {R : β → St → Prop}
    (h : ∀ s0, Ho (Pin s0 P) (f s0) R) : Ho P (getS >>= f) R :=
  ⟨fun st hp => (h st.1).out st ⟨rfl, hp⟩⟩

theorem Ho.pure_bind {α β} {P : St → Prop} {x : α} {f : α → M β} {R : β → St → Prop}
    (h : Ho P (f x) R) : Ho P (Pure.pure x >>= f) R := ⟨fun st hp => h.out st hp⟩

theorem Ho.bind_assoc {α β γ} {P : St → Prop} {m : M α} {f : α → M β} {g : β → M γ}
    {R : γ → St → Prop} (h : Ho P (m >>= fun x => f x >>= g) R) : Ho P ((m >>= f) >>= g) R :=
  ⟨fun st hp => h.out st hp⟩

theorem Ho.ite_bind {α β} {P : St → Prop} {b : Prop} [Decidable b] {m1 m2 : M α} {f : α → M β}
    {Q : β → St → Prop} (h1 : b → Ho P (m1 >>= f) Q) (h2 : ¬ b → Ho P (m2 >>= f) Q) :
    Ho P ((if b then m1 else m2) >>= f) Q := by
  by_cases h : b
  · rw [if_pos h]; exact h1 h
  · rw [if_neg h]; exact h2 h

/-- Generic forward walker.  `ho_leaf` closes `Ho P m ?Q` for calls of already-verified functions
and primitives (it may leave side goals); `ho_bindleaf` applies continuation-passing lemmas. -/
syntax "ho_leaf" : tactic
syntax "ho_bindleaf" : tactic
macro_rules | `(tactic| ho_leaf) => `(tactic| with_reducible first | exact Ho.getI | exact Ho.pureI _)
macro_rules | `(tactic| ho_bindleaf) => `(tactic| fail "no bind leaf")

macro "ho_step" : tactic => `(tactic| first
  | (with_reducible apply Ho.pure_bind)
  | (with_reducible apply Ho.bind_assoc)
  | ((with_reducible apply Ho.ite_bind) <;> intro _)
  | ((with_reducible apply Ho.getS_pin); intro _)
  | ho_bindleaf
  | ((with_reducible apply Ho.bind); (first | ho_leaf | ((with_reducible apply Ho.unpin); ho_leaf) | (with_reducible apply Ho.forEachI) | ((with_reducible apply Ho.unpin); (with_reducible apply Ho.forEachI))))
  | ((with_reducible apply Ho.ite) <;> intro _)
  | (with_reducible apply Ho.forEachI)
  | (show Ho _ _ _; split)
  | (intro _; show Ho _ _ _)
  | ho_leaf
  | ((with_reducible apply Ho.unpin); ho_leaf)
  | ((with_reducible apply Ho.pure); intro _ _)
  | ((with_reducible apply Ho.post); (first | ho_leaf | ((with_reducible apply Ho.unpin); ho_leaf))))

macro "ho_walk" : tactic => `(tactic| repeat' ho_step)

/-! ## Exact effects of the primitives that read the state -/

theorem freshNonce_run (c : Cfg) (st : St) : (freshNonce c).run st =
    (mkName c (st.1.fresh.nonce + 1),
      ({ st.1 with fresh := { st.1.fresh with nonce := st.1.fresh.nonce + 1 } }, st.2)) := rfl
theorem freshCd_run (c : Cfg) (st : St) : (freshCd c).run st =
    (mkName c (st.1.fresh.cd + 1),
      ({ st.1 with fresh := { st.1.fresh with cd := st.1.fresh.cd + 1 } }, st.2)) := rfl
theorem freshEph_run (c : Cfg) (st : St) : (freshEph c).run st =
    (mkName c (st.1.fresh.eph + 1),
      ({ st.1 with fresh := { st.1.fresh with eph := st.1.fresh.eph + 1 } }, st.2)) := rfl
theorem freshRid_run (c : Cfg) (st : St) : (freshRid c).run st =
    (mkName c (st.1.fresh.rid + 1),
      ({ st.1 with fresh := { st.1.fresh with rid := st.1.fresh.rid + 1 } }, st.2)) := rfl

theorem sessGetMut_elim {c : Cfg} {na : NA} {P : St → Prop} {Q : Option Session → St → Prop}
    (h : ∀ st, P st →
      (st.1.sessions.find? (·.1 == na) = none → Q none st) ∧
      (∀ k sess stamp, st.1.sessions.find? (·.1 == na) = some (k, sess, stamp) →
        (stamp + c.sessionTtl < st.1.rt →
          Q none ({ st.1 with sessions := st.1.sessions.filter (·.1 != na) }, st.2)) ∧
        (¬ stamp + c.sessionTtl < st.1.rt →
          Q (some sess) ({ st.1 with sessions := st.1.sessions.filter (·.1 != na) ++ [(na, sess, st.1.rt)] }, st.2)))) :
    Ho P (sessGetMut c na) Q := by
  refine ⟨fun st hp => ?_⟩
  obtain ⟨h1, h2⟩ := h st hp
  unfold sessGetMut
  simp only [run_bind, run_getS]
  cases hf : st.1.sessions.find? (·.1 == na) with
  | none => exact h1 hf
  | some e =>
    obtain ⟨k, sess, stamp⟩ := e
    obtain ⟨h3, h4⟩ := h2 k sess stamp hf
    by_cases hx : stamp + c.sessionTtl < st.1.rt
    · simp only [hx, if_true]; exact h3 hx
    · simp only [hx, if_false]; exact h4 hx

theorem removeExpiredSessions_elim {c : Cfg} {P : St → Prop} {Q : Unit → St → Prop}
    (h : ∀ st, P st → ∀ e r, popExpired c.sessionTtl st.1.rt st.1.sessions = (e, r) →
      Q () ({ st.1 with sessions := r }, if e.isEmpty then st.2 else st.2 ++ [.expired e])) :
    Ho P (removeExpiredSessions c) Q := by
  refine ⟨fun st hp => ?_⟩
  have := h st hp _ _ rfl
  unfold removeExpiredSessions
  simp only [run_bind, run_getS, run_setS]
  by_cases he : (popExpired c.sessionTtl st.1.rt st.1.sessions).1.isEmpty
  · simp only [he, if_true] at this; simp [he]; exact this
  · simp only [he] at this; simp [he]; exact this

theorem activeRemoveByNonce_elim {n : Nat} {P : St → Prop} {Q : Option Call → St → Prop}
    (h : ∀ st, P st →
      (st.1.active.find? (·.pkt.nonce == n) = none → Q none st) ∧
      (∀ call, st.1.active.find? (·.pkt.nonce == n) = some call →
        Q (some call) ({ st.1 with active := st.1.active.erase call }, st.2))) :
    Ho P (activeRemoveByNonce n) Q := by
  refine ⟨fun st hp => ?_⟩
  obtain ⟨h1, h2⟩ := h st hp
  unfold activeRemoveByNonce
  simp only [run_bind, run_getS]
  cases hf : st.1.active.find? (·.pkt.nonce == n) with
  | none => exact h1 hf
  | some call => exact h2 call hf

theorem activeRemoveRequest_elim {na : NA} {rid : Nat} {P : St → Prop} {Q : Option Call → St → Prop}
    (h : ∀ st, P st →
      (st.1.active.find? (fun call => callNA call == na && call.rid == rid) = none → Q none st) ∧
      (∀ call, st.1.active.find? (fun call => callNA call == na && call.rid == rid) = some call →
        Q (some call) ({ st.1 with active := st.1.active.erase call }, st.2))) :
    Ho P (activeRemoveRequest na rid) Q := by
  refine ⟨fun st hp => ?_⟩
  obtain ⟨h1, h2⟩ := h st hp
  unfold activeRemoveRequest
  simp only [run_bind, run_getS]
  cases hf : st.1.active.find? (fun call => callNA call == na && call.rid == rid) with
  | none => exact h1 hf
  | some call => exact h2 call hf

theorem activeRemoveRequests_run (na : NA) (st : St) : (activeRemoveRequests na).run st =
    (st.1.active.filter (fun call => callNA call == na),
      ({ st.1 with active := st.1.active.filter (fun call => callNA call != na) }, st.2)) := rfl

theorem encryptMessage_run (c : Cfg) (sess : Session) (pt : Msg) (st : St) :
    (encryptMessage c sess pt).run st =
    (({ sess with counter := sess.counter + 1 },
        Pkt.message c.localId (mkName c (st.1.fresh.nonce + 1))
          (.enc sess.keys.enc (mkName c (st.1.fresh.nonce + 1)) (sess.counter + 1) pt true)),
      ({ st.1 with fresh := { st.1.fresh with nonce := st.1.fresh.nonce + 1 } }, st.2)) := rfl

/-! ## Walk T: a timeout failure is only reported by the timer path -/

def NoTO (st : St) : Prop := ∀ rid, Out.failed rid .timeout ∉ st.2

theorem T_modS (f : HState → HState) : Ho NoTO (modS f) (fun _ => NoTO) := ⟨fun _ hp => hp⟩
theorem T_setS (s : HState) : Ho NoTO (setS s) (fun _ => NoTO) := ⟨fun _ hp => hp⟩
theorem T_emit (o : Out) (h : ∀ rid, o ≠ .failed rid .timeout) : Ho NoTO (emit o) (fun _ => NoTO) := by
  refine ⟨fun st hp rid hm => ?_⟩
  simp only [run_emit, List.mem_append, List.mem_singleton] at hm
  rcases hm with hm | hm
  · exact hp rid hm
  · exact h rid hm.symm

syntax "t_leaf" : tactic
macro_rules | `(tactic| t_leaf) => `(tactic| first
  | with_reducible exact T_modS _ | with_reducible exact T_setS _
  | ((with_reducible apply T_emit); intro _ h; cases h <;> contradiction))
macro_rules | `(tactic| ho_leaf) => `(tactic| t_leaf)

theorem T_freshNonce (c : Cfg) : Ho NoTO (freshNonce c) (fun _ => NoTO) := by unfold freshNonce; ho_walk
theorem T_freshCd (c : Cfg) : Ho NoTO (freshCd c) (fun _ => NoTO) := by unfold freshCd; ho_walk
theorem T_freshEph (c : Cfg) : Ho NoTO (freshEph c) (fun _ => NoTO) := by unfold freshEph; ho_walk
theorem T_freshRid (c : Cfg) : Ho NoTO (freshRid c) (fun _ => NoTO) := by unfold freshRid; ho_walk
theorem T_addExpected (a) : Ho NoTO (addExpected a) (fun _ => NoTO) := T_modS _
theorem T_removeExpected (a) : Ho NoTO (removeExpected a) (fun _ => NoTO) := T_modS _
theorem T_sessGetMut (c na) : Ho NoTO (sessGetMut c na) (fun _ => NoTO) := by unfold sessGetMut; ho_walk
theorem T_sessPut (na s) : Ho NoTO (sessPut na s) (fun _ => NoTO) := T_modS _
theorem T_sessInsert (c na s) : Ho NoTO (sessInsert c na s) (fun _ => NoTO) := T_modS _
theorem T_sessRemove (na) : Ho NoTO (sessRemove na) (fun _ => NoTO) := T_modS _
theorem T_removeExpiredSessions (c) : Ho NoTO (removeExpiredSessions c) (fun _ => NoTO) := by
  unfold removeExpiredSessions; ho_walk
theorem T_activeInsert (c call) : Ho NoTO (activeInsert c call) (fun _ => NoTO) := T_modS _
theorem T_activeRemoveByNonce (n) : Ho NoTO (activeRemoveByNonce n) (fun _ => NoTO) := by
  unfold activeRemoveByNonce; ho_walk
theorem T_activeRemoveRequest (na r) : Ho NoTO (activeRemoveRequest na r) (fun _ => NoTO) := by
  unfold activeRemoveRequest; ho_walk
theorem T_activeRemoveRequests (na) : Ho NoTO (activeRemoveRequests na) (fun _ => NoTO) := by
  unfold activeRemoveRequests; ho_walk
theorem T_send (na p) : Ho NoTO (send na p) (fun _ => NoTO) := by
  unfold send; exact T_emit _ (by intro _ h; cases h)
macro_rules | `(tactic| t_leaf) => `(tactic| with_reducible first
  | exact T_freshNonce _ | exact T_freshCd _ | exact T_freshEph _ | exact T_freshRid _
  | exact T_addExpected _ | exact T_removeExpected _ | exact T_sessGetMut _ _ | exact T_sessPut _ _
  | exact T_sessInsert _ _ _ | exact T_sessRemove _ | exact T_removeExpiredSessions _
  | exact T_activeInsert _ _ | exact T_activeRemoveByNonce _ | exact T_activeRemoveRequest _ _
  | exact T_activeRemoveRequests _ | exact T_send _ _)
theorem T_encryptMessage (c s m) : Ho NoTO (encryptMessage c s m) (fun _ => NoTO) := by
  unfold encryptMessage; ho_walk
theorem T_isAwaitingSession (c na) : Ho NoTO (isAwaitingSession c na) (fun _ => NoTO) := by
  unfold isAwaitingSession; ho_walk
macro_rules | `(tactic| t_leaf) => `(tactic| with_reducible first
  | exact T_encryptMessage _ _ _ | exact T_isAwaitingSession _ _)
theorem T_sendRequest (c ct rid i b) :
    Ho NoTO (sendRequest c ct rid i b) (fun r st => NoTO st ∧ r ≠ some .timeout) := by
  unfold sendRequest; ho_walk
  all_goals exact ⟨by assumption, by simp⟩
theorem T_sendRequestI (c ct rid i b) : Ho NoTO (sendRequest c ct rid i b) (fun _ => NoTO) :=
  (T_sendRequest c ct rid i b).post (fun _ _ h => h.1)
/-- `match ← sendRequest … with | some e => emit (failed rid e) | none => pure ()` -/
theorem T_sendRequest_then (c ct rid i b) (k : Option Err → M Unit)
    (hk : ∀ r, r ≠ some .timeout → Ho NoTO (k r) (fun _ => NoTO)) :
    Ho NoTO (sendRequest c ct rid i b >>= k) (fun _ => NoTO) :=
  Ho.bind (T_sendRequest c ct rid i b) (fun r => Ho.pre_pure' (hk r))
theorem T_sendPendingRequests (c na) : Ho NoTO (sendPendingRequests c na) (fun _ => NoTO) := by
  unfold sendPendingRequests
  refine Ho.bindP Ho.getI (fun s => Ho.bindP (T_setS _) (fun _ => Ho.forEachI _ _ (fun pr => ?_)))
  refine T_sendRequest_then _ _ _ _ _ _ (fun r hr => ?_)
  cases r with
  | none => exact Ho.pureI _
  | some e =>
    refine Ho.iteI (T_emit _ ?_) (Ho.pureI _)
    intro _ h; cases h; exact hr rfl
theorem T_failSession (c na e b) (he : e ≠ .timeout) : Ho NoTO (failSession c na e b) (fun _ => NoTO) := by
  unfold failSession; ho_walk
macro_rules | `(tactic| t_leaf) => `(tactic| with_reducible first
  | exact T_failSession _ _ _ _ (by first | assumption | simp))
theorem T_failRequest (c call e b) (he : e ≠ .timeout) : Ho NoTO (failRequest c call e b) (fun _ => NoTO) := by
  unfold failRequest; ho_walk
theorem T_reencryptAll (c l s acc) : Ho NoTO (reencryptAll c l s acc) (fun _ => NoTO) := by
  induction l generalizing s acc with
  | nil => unfold reencryptAll; ho_walk
  | cons x xs ih => unfold reencryptAll; ho_walk; exact ih _ _
macro_rules | `(tactic| t_leaf) => `(tactic| with_reducible first
  | exact T_sendRequestI _ _ _ _ _ | exact T_sendPendingRequests _ _ | exact T_reencryptAll _ _ _ _
  | exact T_failSession _ _ _ _ (by first | assumption | simp) | exact T_failRequest _ _ _ _ (by first | assumption | simp) )
theorem T_replayActiveRequests (c na sk) : Ho NoTO (replayActiveRequests c na sk) (fun _ => NoTO) := by
  unfold replayActiveRequests; ho_walk
macro_rules | `(tactic| t_leaf) => `(tactic| with_reducible exact T_replayActiveRequests _ _ _)
theorem T_newSession (c na s sk) : Ho NoTO (newSession c na s sk) (fun _ => NoTO) := by
  unfold newSession; ho_walk
theorem T_sendChallenge (c na n k) : Ho NoTO (sendChallenge c na n k) (fun _ => NoTO) := by
  unfold sendChallenge; ho_walk
macro_rules | `(tactic| t_leaf) => `(tactic| with_reducible first
  | exact T_replayActiveRequests _ _ _ | exact T_newSession _ _ _ _ | exact T_sendChallenge _ _ _ _)
theorem T_handleChallenge (c src n cd es) : Ho NoTO (handleChallenge c src n cd es) (fun _ => NoTO) := by
  unfold handleChallenge; ho_walk
theorem T_handleResponse (c na rid rb) : Ho NoTO (handleResponse c na rid rb) (fun _ => NoTO) := by
  unfold handleResponse; ho_walk
macro_rules | `(tactic| t_leaf) => `(tactic| with_reducible first
  | exact T_handleChallenge _ _ _ _ _ | exact T_handleResponse _ _ _ _)
theorem T_handleMessage (c na n ct) : Ho NoTO (handleMessage c na n ct) (fun _ => NoTO) := by
  unfold handleMessage; ho_walk
macro_rules | `(tactic| t_leaf) => `(tactic| with_reducible first
  | exact T_handleMessage _ _ _ _)
theorem T_handleAuthMessage (c na n sig eph r ct) : Ho NoTO (handleAuthMessage c na n sig eph r ct) (fun _ => NoTO) := by
  unfold handleAuthMessage; ho_walk
theorem T_stepM (c : Cfg) (e : Ev) (he : ∀ dt, e ≠ .adv dt) : Ho NoTO (stepM c e) (fun _ => NoTO) := by
  cases e with
  | adv dt => exact absurd rfl (he dt)
  | appRequest ct rid b =>
    simp only [stepM]
    refine T_sendRequest_then _ _ _ _ _ _ (fun r hr => ?_)
    cases r with
    | none => exact Ho.pureI _
    | some e => refine T_emit _ ?_; intro _ h; cases h; exact hr rfl
  | dgram src p => simp only [stepM]; ho_walk; exact T_handleAuthMessage ..
  | _ => simp only [stepM]; ho_walk

theorem step_eq (c : Cfg) (s : HState) (e : Ev) : step c s e = ((stepM c e).run (s, [])).2 := rfl

theorem timeout_only_from_timer' (c : Cfg) (s : HState) (e : Ev) (rid : Nat)
    (h : Out.failed rid .timeout ∈ (step c s e).2) : ∃ dt, e = .adv dt := by
  by_cases he : ∃ dt, e = .adv dt
  · exact he
  · have := (T_stepM c e (fun dt h => he ⟨dt, h⟩)).out (s, []) (by intro rid h; cases h)
    rw [step_eq] at h
    exact absurd h (this rid)

/-! ## Walk R: the retry counter of an active request never exceeds `request_retries` -/

def RB (c : Cfg) (st : St) : Prop := ∀ call ∈ st.1.active, call.retries ≤ c.requestRetries

/-- A primitive that leaves `active` alone keeps `RB`. -/
theorem R_frame {α} {c : Cfg} {m : M α} (h : ∀ st, (m.run st).2.1.active = st.1.active) :
    Ho (RB c) m (fun _ => RB c) := ⟨fun st hp => by unfold RB; rw [h st]; exact hp⟩

theorem R_modS {c : Cfg} (f : HState → HState) (h : ∀ s, (f s).active = s.active) :
    Ho (RB c) (modS f) (fun _ => RB c) := R_frame (fun st => h st.1)
theorem R_emit {c : Cfg} (o) : Ho (RB c) (emit o) (fun _ => RB c) := R_frame (fun _ => rfl)
theorem R_send {c : Cfg} (na p) : Ho (RB c) (send na p) (fun _ => RB c) := R_frame (fun _ => rfl)
theorem R_freshNonce (c : Cfg) : Ho (RB c) (freshNonce c) (fun _ => RB c) := R_frame (fun _ => rfl)
theorem R_freshCd (c : Cfg) : Ho (RB c) (freshCd c) (fun _ => RB c) := R_frame (fun _ => rfl)
theorem R_freshEph (c : Cfg) : Ho (RB c) (freshEph c) (fun _ => RB c) := R_frame (fun _ => rfl)
theorem R_freshRid (c : Cfg) : Ho (RB c) (freshRid c) (fun _ => RB c) := R_frame (fun _ => rfl)
theorem R_addExpected {c : Cfg} (a) : Ho (RB c) (addExpected a) (fun _ => RB c) :=
  R_modS _ (fun s => by by_cases h : s.exempt.any (·.1 == a) <;> simp [h])
theorem R_removeExpected {c : Cfg} (a) : Ho (RB c) (removeExpected a) (fun _ => RB c) := R_modS _ (fun _ => rfl)
theorem R_sessPut {c : Cfg} (na s) : Ho (RB c) (sessPut na s) (fun _ => RB c) := R_modS _ (fun _ => rfl)
theorem R_sessInsert {c : Cfg} (na s) : Ho (RB c) (sessInsert c na s) (fun _ => RB c) := R_modS _ (fun _ => rfl)
theorem R_sessRemove {c : Cfg} (na) : Ho (RB c) (sessRemove na) (fun _ => RB c) := R_modS _ (fun _ => rfl)
theorem R_sessGetMut {c : Cfg} (na) : Ho (RB c) (sessGetMut c na) (fun _ => RB c) :=
  sessGetMut_elim (fun _ hp => ⟨fun _ => hp, fun _ _ _ _ => ⟨fun _ => hp, fun _ => hp⟩⟩)
theorem R_removeExpiredSessions {c : Cfg} : Ho (RB c) (removeExpiredSessions c) (fun _ => RB c) :=
  removeExpiredSessions_elim (fun _ hp _ _ _ => hp)
theorem R_encryptMessage {c : Cfg} (s m) : Ho (RB c) (encryptMessage c s m) (fun _ => RB c) := R_frame (fun _ => rfl)

theorem R_activeInsert {c : Cfg} (call : Call) (h : call.retries ≤ c.requestRetries) :
    Ho (RB c) (activeInsert c call) (fun _ => RB c) := by
  refine Ho.modS _ (fun st hp x hx => ?_)
  simp only [List.mem_append, List.mem_singleton] at hx
  rcases hx with hx | hx
  · exact hp x hx
  · subst hx; exact h

theorem RB_erase {c : Cfg} {st : St} (hp : RB c st) (call : Call) :
    RB c ({ st.1 with active := st.1.active.erase call }, st.2) :=
  fun x hx => hp x (List.mem_of_mem_erase hx)

theorem R_activeRemoveByNonce {c : Cfg} (n) : Ho (RB c) (activeRemoveByNonce n)
    (fun r st => RB c st ∧ ∀ call, r = some call → call.retries ≤ c.requestRetries) :=
  activeRemoveByNonce_elim (fun _ hp => ⟨fun _ => ⟨hp, fun _ h => by cases h⟩,
    fun call hf => ⟨RB_erase hp call, fun x hx => by
      cases hx; exact hp _ (List.mem_of_find?_eq_some hf)⟩⟩)
theorem R_activeRemoveRequest {c : Cfg} (na rid) : Ho (RB c) (activeRemoveRequest na rid)
    (fun r st => RB c st ∧ ∀ call, r = some call → call.retries ≤ c.requestRetries) :=
  activeRemoveRequest_elim (fun _ hp => ⟨fun _ => ⟨hp, fun _ h => by cases h⟩,
    fun call hf => ⟨RB_erase hp call, fun x hx => by
      cases hx; exact hp _ (List.mem_of_find?_eq_some hf)⟩⟩)
theorem R_activeRemoveRequests {c : Cfg} (na) : Ho (RB c) (activeRemoveRequests na) (fun _ => RB c) :=
  ⟨fun st hp x hx => hp x (List.mem_filter.1 hx).1⟩


theorem R_setS_pinned {c : Cfg} {s0 : HState} (s' : HState) (h : s'.active = s0.active) :
    Ho (Pin s0 (RB c)) (setS s') (fun _ => RB c) :=
  Ho.setS _ (fun st hp => by unfold RB; rw [h, ← hp.1]; exact hp.2)
theorem R_replayUpd {c : Cfg} (oldNonce : Nat) (p : Pkt) : Ho (RB c) (modS fun s =>
        let upd : Call → Call := fun call =>
          if call.pkt.nonce == oldNonce then
            { call with pkt := p, deadline := s.now + c.requestTimeout, tseq := s.tctr }
          else call
        { s with active := s.active.map upd, tctr := s.tctr + 1 }) (fun _ => RB c) := by
  refine Ho.modS _ (fun st hp x hx => ?_)
  simp only [List.mem_map] at hx
  obtain ⟨y, hy, rfl⟩ := hx
  split
  · exact hp y hy
  · exact hp y hy

syntax "r_leaf" : tactic
macro_rules | `(tactic| r_leaf) => `(tactic| first
  | with_reducible exact R_emit _ | with_reducible exact R_send _ _ | with_reducible exact R_freshNonce _
  | with_reducible exact R_freshCd _ | with_reducible exact R_freshEph _
  | with_reducible exact R_freshRid _ | with_reducible exact R_addExpected _
  | with_reducible exact R_removeExpected _ | with_reducible exact R_sessPut _ _
  | with_reducible exact R_sessInsert _ _ | with_reducible exact R_sessRemove _
  | with_reducible exact R_sessGetMut _ | with_reducible exact R_removeExpiredSessions
  | with_reducible exact R_encryptMessage _ _ | with_reducible exact R_activeRemoveRequests _
  | with_reducible exact R_setS_pinned _ rfl
  | exact R_replayUpd _ _
  | with_reducible apply R_activeInsert
  | exact R_modS _ (fun s => by first | rfl | (dsimp only; split <;> rfl)))
macro_rules | `(tactic| ho_leaf) => `(tactic| r_leaf)

theorem R_isAwaitingSession {c : Cfg} (na) : Ho (RB c) (isAwaitingSession c na) (fun _ => RB c) := by
  unfold isAwaitingSession; ho_walk
macro_rules | `(tactic| r_leaf) => `(tactic| with_reducible exact R_isAwaitingSession _)
theorem R_sendRequest {c : Cfg} (hr : 1 ≤ c.requestRetries) (ct rid i b) :
    Ho (RB c) (sendRequest c ct rid i b) (fun _ => RB c) := by
  unfold sendRequest; ho_walk
  all_goals exact hr
macro_rules | `(tactic| r_leaf) => `(tactic| with_reducible exact R_sendRequest (by assumption) _ _ _ _)
theorem R_sendPendingRequests {c : Cfg} (hr : 1 ≤ c.requestRetries) (na) :
    Ho (RB c) (sendPendingRequests c na) (fun _ => RB c) := by
  unfold sendPendingRequests; ho_walk
theorem R_failSession {c : Cfg} (na e b) : Ho (RB c) (failSession c na e b) (fun _ => RB c) := by
  unfold failSession; ho_walk
macro_rules | `(tactic| r_leaf) => `(tactic| with_reducible first
  | exact R_sendPendingRequests (by assumption) _ | exact R_failSession _ _ _)
theorem R_failRequest {c : Cfg} (call e b) : Ho (RB c) (failRequest c call e b) (fun _ => RB c) := by
  unfold failRequest; ho_walk
macro_rules | `(tactic| r_leaf) => `(tactic| with_reducible exact R_failRequest _ _ _)
theorem R_handleRequestTimeout {c : Cfg} (call : Call) (h : call.retries ≤ c.requestRetries) :
    Ho (RB c) (handleRequestTimeout c call) (fun _ => RB c) := by
  unfold handleRequestTimeout; ho_walk
  simp only; omega
theorem R_reencryptAll {c : Cfg} (l s acc) : Ho (RB c) (reencryptAll c l s acc) (fun _ => RB c) := by
  induction l generalizing s acc with
  | nil => unfold reencryptAll; ho_walk
  | cons x xs ih => unfold reencryptAll; ho_walk; exact ih _ _
macro_rules | `(tactic| r_leaf) => `(tactic| with_reducible exact R_reencryptAll _ _ _)
theorem R_replayActiveRequests {c : Cfg} (na sk) : Ho (RB c) (replayActiveRequests c na sk) (fun _ => RB c) := by
  unfold replayActiveRequests; ho_walk
macro_rules | `(tactic| r_leaf) => `(tactic| with_reducible exact R_replayActiveRequests _ _)
theorem R_newSession {c : Cfg} (hr : 1 ≤ c.requestRetries) (na s sk) : Ho (RB c) (newSession c na s sk) (fun _ => RB c) := by
  unfold newSession; ho_walk
theorem R_sendChallenge {c : Cfg} (na n k) : Ho (RB c) (sendChallenge c na n k) (fun _ => RB c) := by
  unfold sendChallenge; ho_walk
macro_rules | `(tactic| r_leaf) => `(tactic| with_reducible first
  | exact R_newSession (by assumption) _ _ _ | exact R_sendChallenge _ _ _)
theorem R_handleChallenge {c : Cfg} (hr : 1 ≤ c.requestRetries) (src n cd es) :
    Ho (RB c) (handleChallenge c src n cd es) (fun _ => RB c) := by
  unfold handleChallenge
  refine Ho.bind (R_activeRemoveByNonce n) (fun r => Ho.pre_pure' (fun hc => ?_))
  ho_walk
  all_goals (have := hc _ rfl; exact this)
theorem R_handleResponse {c : Cfg} (na rid rb) : Ho (RB c) (handleResponse c na rid rb) (fun _ => RB c) := by
  unfold handleResponse
  refine Ho.bind (R_activeRemoveRequest na rid) (fun r => Ho.pre_pure' (fun hc => ?_))
  ho_walk
  all_goals (have := hc _ rfl; exact this)
macro_rules | `(tactic| r_leaf) => `(tactic| with_reducible first
  | exact R_handleChallenge (by assumption) _ _ _ _ | exact R_handleResponse _ _ _
  | exact (R_activeRemoveRequest _ _).post (fun _ _ h => h.1))
theorem R_handleMessage {c : Cfg} (na n ct) : Ho (RB c) (handleMessage c na n ct) (fun _ => RB c) := by
  unfold handleMessage; ho_walk
macro_rules | `(tactic| r_leaf) => `(tactic| with_reducible exact R_handleMessage _ _ _)
theorem R_handleAuthMessage {c : Cfg} (hr : 1 ≤ c.requestRetries) (na n sig eph r ct) :
    Ho (RB c) (handleAuthMessage c na n sig eph r ct) (fun _ => RB c) := by
  unfold handleAuthMessage; ho_walk
theorem foldl_pick_mem {α} (f : Option α → α → Option α) (hf : ∀ m x, f m x = some x ∨ f m x = m)
    (l : List α) (init : Option α) (r : α) (h : l.foldl f init = some r) :
    init = some r ∨ r ∈ l := by
  induction l generalizing init with
  | nil => exact Or.inl h
  | cons x xs ih =>
    rw [List.foldl_cons] at h
    rcases ih _ h with h1 | h1
    · rcases hf init x with h2 | h2
      · rw [h2] at h1; cases h1; exact Or.inr (List.mem_cons_self ..)
      · rw [h2] at h1; exact Or.inl h1
    · exact Or.inr (List.mem_cons_of_mem _ h1)

theorem nextDue_inl_mem (s : HState) (t d : Nat) (call : Call)
    (h : nextDue s t = some (d, .inl call)) : call ∈ s.active := by
  unfold nextDue at h
  simp only at h
  have key : ∀ r, List.foldl (fun (m : Option Call) call => match m with
      | none => some call
      | some b => if (decide (call.deadline < b.deadline) || call.deadline == b.deadline && decide (call.tseq < b.tseq)) = true
          then some call else some b) none (List.filter (fun x => decide (x.deadline ≤ t)) s.active) = some r →
      r ∈ s.active := by
    intro r hr
    rcases foldl_pick_mem _ (by
      intro m x; cases m with
      | none => exact Or.inl rfl
      | some b => dsimp only; split
                  · exact Or.inl rfl
                  · exact Or.inr rfl) _ _ _ hr with h1 | h1
    · cases h1
    · exact (List.mem_filter.1 h1).1
  split at h
  · rename_i r ch hr hc
    split at h
    · cases h
    · cases h; exact key _ hr
  · rename_i r hr hc
    cases h; exact key _ hr
  · cases h
  · cases h

macro_rules | `(tactic| r_leaf) => `(tactic| with_reducible first
  | exact R_handleAuthMessage (by assumption) _ _ _ _ _ _ | exact R_handleRequestTimeout _ (by assumption))
theorem R_fireTimers {c : Cfg} (hr : 1 ≤ c.requestRetries) (target fuel : Nat) :
    Ho (RB c) (fireTimers c target fuel) (fun _ => RB c) := by
  induction fuel with
  | zero => unfold fireTimers; exact Ho.pureI _
  | succ n ih =>
    unfold fireTimers
    refine Ho.getS_pin (fun s0 => ?_)
    split
    · ho_walk
    · rename_i d call hnd
      have hm := nextDue_inl_mem _ _ _ _ hnd
      refine Ho.bind (Q := fun _ st => RB c st ∧ call.retries ≤ c.requestRetries)
        (Ho.setS _ (fun st hp => ⟨fun x hx => hp.2 x (hp.1 ▸ List.mem_of_mem_erase hx), hp.2 _ (hp.1 ▸ hm)⟩))
        (fun _ => Ho.pre_pure' (fun hc => ?_))
      ho_walk
      exact ih
    · ho_walk
      exact ih
macro_rules | `(tactic| r_leaf) => `(tactic| with_reducible exact R_fireTimers (by assumption) _ _)
theorem R_stepM {c : Cfg} (hr : 1 ≤ c.requestRetries) (e : Ev) : Ho (RB c) (stepM c e) (fun _ => RB c) := by
  cases e with
  | dgram src p => simp only [stepM]; ho_walk
  | _ => simp only [stepM]; ho_walk

theorem snoc_induction {α} {P : List α → Prop} (h0 : P []) (h1 : ∀ l x, P l → P (l ++ [x])) :
    ∀ l, P l := by
  intro l
  rw [← List.reverse_reverse l]
  induction l.reverse with
  | nil => exact h0
  | cons x xs ih => rw [List.reverse_cons]; exact h1 _ _ ih

theorem run_snoc (c : Cfg) (evs : List Ev) (e : Ev) : run c (evs ++ [e]) = (step c (run c evs) e).1 := by
  simp [run, List.foldl_append]

theorem retries_bounded' (c : Cfg) (evs : List Ev) (hr : 1 ≤ c.requestRetries) :
    ∀ call ∈ (run c evs).active, call.retries ≤ c.requestRetries := by
  induction evs using snoc_induction with
  | h0 => intro call h; cases h
  | h1 evs e ih =>
    rw [run_snoc, step_eq]
    exact (R_stepM hr e).out (run c evs, []) ih

/-! ## Walk P: a queued request always has a releaser -/

/-- Address `k` has a releaser: an active challenge, or no session and an initiating call. -/
def Rel (s : HState) (k : NA) : Prop :=
  s.challenges.any (·.1 == k) = true ∨
    (s.sessions.all (·.1 != k) = true ∧
      s.active.any (fun call => call.contact.na == k && call.initiating) = true)

/-- `PendingHasReleaser` except for the addresses in `ex`. -/
def PX (ex : NA → Prop) (st : St) : Prop :=
  ∀ e ∈ st.1.pending, ¬ ex e.1 → e.2 ≠ [] → Rel st.1 e.1

theorem PX_iff (s : HState) (os : List Out) : PX (fun _ => False) (s, os) ↔ PendingHasReleaser s := by
  unfold PX PendingHasReleaser Rel
  constructor
  · intro h e he hne; exact h e he (fun h => h) hne
  · intro h e he _ hne; exact h e he hne

theorem Rel.mono {s s' : HState} {k : NA}
    (hc : s.challenges.any (·.1 == k) = true → s'.challenges.any (·.1 == k) = true)
    (hs : s.sessions.all (·.1 != k) = true → s'.sessions.all (·.1 != k) = true)
    (ha : s.active.any (fun call => call.contact.na == k && call.initiating) = true →
      s'.active.any (fun call => call.contact.na == k && call.initiating) = true)
    (h : Rel s k) : Rel s' k := by
  rcases h with h | ⟨h1, h2⟩
  · exact Or.inl (hc h)
  · exact Or.inr ⟨hs h1, ha h2⟩

/-- Pending untouched, releasers kept for the non-exempt addresses. -/
theorem PX.step {ex : NA → Prop} {st st' : St} (h : PX ex st) (hp : st'.1.pending = st.1.pending)
    (hr : ∀ k, ¬ ex k → Rel st.1 k → Rel st'.1 k) : PX ex st' := by
  intro e he hx hne
  rw [hp] at he
  exact hr _ hx (h e he hx hne)

theorem PX.weaken {ex ex' : NA → Prop} {st : St} (h : PX ex st) (hx : ∀ k, ex k → ex' k) : PX ex' st :=
  fun e he hn hne => h e he (fun h => hn (hx _ h)) hne

/-- Generic leaf: a `modS` that leaves `pending` alone and keeps releasers. -/
theorem P_modS {ex : NA → Prop} (f : HState → HState) (hp : ∀ s, (f s).pending = s.pending)
    (hr : ∀ s k, ¬ ex k → Rel s k → Rel (f s) k) : Ho (PX ex) (modS f) (fun _ => PX ex) :=
  Ho.modS _ (fun st h => h.step (hp st.1) (hr st.1))

theorem P_frame {α} {ex : NA → Prop} {m : M α}
    (h : ∀ st, (m.run st).2.1.pending = st.1.pending ∧ (m.run st).2.1.challenges = st.1.challenges ∧
      (m.run st).2.1.sessions = st.1.sessions ∧ (m.run st).2.1.active = st.1.active) :
    Ho (PX ex) m (fun _ => PX ex) :=
  ⟨fun st hp => hp.step (h st).1 (fun k _ hr => by
    obtain ⟨_, h2, h3, h4⟩ := h st
    unfold Rel; rw [h2, h3, h4]; exact hr)⟩

theorem P_emit {ex} (o) : Ho (PX ex) (emit o) (fun _ => PX ex) := P_frame (fun _ => ⟨rfl, rfl, rfl, rfl⟩)
theorem P_send {ex} (na p) : Ho (PX ex) (send na p) (fun _ => PX ex) := P_frame (fun _ => ⟨rfl, rfl, rfl, rfl⟩)
theorem P_freshNonce {ex} (c : Cfg) : Ho (PX ex) (freshNonce c) (fun _ => PX ex) := P_frame (fun _ => ⟨rfl, rfl, rfl, rfl⟩)
theorem P_freshCd {ex} (c : Cfg) : Ho (PX ex) (freshCd c) (fun _ => PX ex) := P_frame (fun _ => ⟨rfl, rfl, rfl, rfl⟩)
theorem P_freshEph {ex} (c : Cfg) : Ho (PX ex) (freshEph c) (fun _ => PX ex) := P_frame (fun _ => ⟨rfl, rfl, rfl, rfl⟩)
theorem P_freshRid {ex} (c : Cfg) : Ho (PX ex) (freshRid c) (fun _ => PX ex) := P_frame (fun _ => ⟨rfl, rfl, rfl, rfl⟩)
theorem P_encryptMessage {ex} (c : Cfg) (s m) : Ho (PX ex) (encryptMessage c s m) (fun _ => PX ex) :=
  P_frame (fun _ => ⟨rfl, rfl, rfl, rfl⟩)
theorem P_addExpected {ex} (a) : Ho (PX ex) (addExpected a) (fun _ => PX ex) :=
  P_frame (fun st => by
    show ((addExpected a).run st).2.1.pending = _ ∧ _
    simp only [addExpected, run_modS]
    by_cases h : st.1.exempt.any (·.1 == a) <;> simp [h])
theorem P_removeExpected {ex} (a) : Ho (PX ex) (removeExpected a) (fun _ => PX ex) :=
  P_frame (fun _ => ⟨rfl, rfl, rfl, rfl⟩)

/-! session operations: the key set only shrinks -/
theorem all_ne_of_sublist {l l' : List (NA × Session × Nat)} {k : NA}
    (h : ∀ x ∈ l', ∃ y ∈ l, y.1 = x.1) (ha : l.all (·.1 != k) = true) : l'.all (·.1 != k) = true := by
  rw [List.all_eq_true] at ha ⊢
  intro x hx
  obtain ⟨y, hy, hxy⟩ := h x hx
  rw [← hxy]; exact ha y hy

theorem PX.sess {ex : NA → Prop} {st : St} (h : PX ex st) (ss : List (NA × Session × Nat))
    (hk : ∀ x ∈ ss, ∃ y ∈ st.1.sessions, y.1 = x.1) : PX ex ({ st.1 with sessions := ss }, st.2) := by
  refine h.step rfl (fun k _ hr => ?_)
  refine Rel.mono ?_ ?_ ?_ hr
  · exact id
  · exact all_ne_of_sublist hk
  · exact id

theorem P_sessPut {ex} (na sess) : Ho (PX ex) (sessPut na sess) (fun _ => PX ex) :=
  Ho.modS _ (fun st h => h.sess _ (fun x hx => by
    simp only [List.mem_map] at hx
    obtain ⟨y, hy, rfl⟩ := hx
    refine ⟨y, hy, ?_⟩
    by_cases hyk : y.1 == na
    · simp only [hyk, if_true]; exact (beq_iff_eq.1 hyk)
    · simp only [hyk]; rfl))
theorem P_sessRemove {ex} (na) : Ho (PX ex) (sessRemove na) (fun _ => PX ex) :=
  Ho.modS _ (fun st h => h.sess _ (fun x hx => ⟨x, (List.mem_filter.1 hx).1, rfl⟩))

def HasSess (na : NA) (st : St) : Prop := st.1.sessions.any (·.1 == na) = true

theorem P_sessGetMut {ex} (c : Cfg) (na) : Ho (PX ex) (sessGetMut c na)
    (fun r st => PX ex st ∧ (r = none → st.1.sessions.all (·.1 != na) = true) ∧ (r ≠ none → HasSess na st)) := by
  refine sessGetMut_elim (fun st hp => ⟨fun hf => ⟨hp, fun _ => ?_, fun h => absurd rfl h⟩, fun k sess stamp hf => ⟨fun _ => ⟨?_, fun _ => ?_, fun h => absurd rfl h⟩, fun _ => ⟨?_, fun h => (nomatch h), fun _ => ?_⟩⟩⟩)
  · rw [List.find?_eq_none] at hf
    rw [List.all_eq_true]; intro x hx
    have := hf x hx
    simpa using this
  · exact hp.sess _ (fun x hx => ⟨x, (List.mem_filter.1 hx).1, rfl⟩)
  · simp [List.all_filter]
  · refine hp.sess _ (fun x hx => ?_)
    simp only [List.mem_append, List.mem_singleton] at hx
    rcases hx with hx | hx
    · exact ⟨x, (List.mem_filter.1 hx).1, rfl⟩
    · subst hx
      have hm := List.mem_of_find?_eq_some hf
      have hk := List.find?_some hf
      exact ⟨_, hm, by simpa using hk⟩
  · simp [HasSess]

theorem popExpired_suffix (ttl rt : Nat) (l : List (NA × Session × Nat)) :
    ∀ x ∈ (popExpired ttl rt l).2, x ∈ l := by
  induction l with
  | nil => intro x hx; simp [popExpired] at hx
  | cons a as ih =>
    obtain ⟨na, sess, stamp⟩ := a
    intro x hx
    unfold popExpired at hx
    by_cases h : stamp + ttl ≥ rt
    · simp only [h, if_true] at hx; exact hx
    · simp only [h, if_false] at hx; exact List.mem_cons_of_mem _ (ih x hx)

theorem P_removeExpiredSessions {ex} (c : Cfg) : Ho (PX ex) (removeExpiredSessions c) (fun _ => PX ex) :=
  removeExpiredSessions_elim (fun st hp e r her => by
    have hs : PX ex ({ st.1 with sessions := r }, st.2) :=
      hp.sess _ (fun x hx => ⟨x, by have := popExpired_suffix c.sessionTtl st.1.rt st.1.sessions x; rw [her] at this; exact this hx, rfl⟩)
    by_cases he : e.isEmpty
    · simp only [he, if_true]; exact hs
    · simp only [he]; exact hs)

theorem P_sessInsert {ex : NA → Prop} (c : Cfg) (na sess) (hx : ex na) :
    Ho (PX ex) (sessInsert c na sess) (fun _ => PX ex) :=
  Ho.modS _ (fun st h => h.step rfl (fun k hk hr => by
    refine Rel.mono ?_ ?_ ?_ hr
    · exact id
    · intro ha
      have hkn : k ≠ na := fun h => hk (h ▸ hx)
      have h1 : (st.1.sessions.filter (·.1 != na) ++ [(na, sess, st.1.rt)]).all (·.1 != k) = true := by
        rw [List.all_append]
        simp only [Bool.and_eq_true]
        refine ⟨all_ne_of_sublist (fun x hx => ⟨x, (List.mem_filter.1 hx).1, rfl⟩) ha, ?_⟩
        simp [Ne.symm hkn]
      show (if _ then _ else _ : List _).all _ = true
      split
      · exact all_ne_of_sublist (fun x hx => ⟨x, List.mem_of_mem_drop hx, rfl⟩) h1
      · exact h1
    · exact id))


end Discv5.H


/-
Helper lemmas for C04 (every request gets exactly one outcome; handler model).

* a Hoare logic `Ho P m Q` over the full monad state (handler state + output log) with a forward
  "walker" tactic (`ho_walk`) that steps through the `do`-blocks of `Model/Handler.lean`;
* exact-effect / eliminator lemmas for the primitives that read the state;
* one walk through all handler functions per invariant:
  - walk T: `failed _ timeout` is only emitted on the timer path        (`timeout_only_from_timer'`)
  - walk R: retry counters stay ≤ `request_retries`                      (`retries_bounded'`)
  - walk P: every non-empty pending queue has a releaser                 (`pending_has_releaser'`)
  - walk A: accounting of tracked requests against reported outcomes     (`step_spec`), from which
    `tracked_nodup'`, `untracked_silent'`, `failure_untracks'`, `at_most_one_failure'`,
    `nothing_after_failure'`, `every_request_accounted'`, `quiescent_complete'` follow.
-/
import Discv5Model.Proofs.HandlerBasics

namespace Discv5.H.RQ

abbrev St := HState × List Out

/-- Hoare triple over the full monad state (handler state and output log). -/
structure Ho {α} (P : St → Prop) (m : M α) (Q : α → St → Prop) : Prop where
  out : ∀ st, P st → Q (m.run st).1 (m.run st).2

theorem Ho.pure {α} {P : St → Prop} {Q : α → St → Prop} (x : α) (h : ∀ st, P st → Q x st) :
    Ho P (Pure.pure x) Q := ⟨fun st hp => h st hp⟩

theorem Ho.bind {α β} {P : St → Prop} {m : M α} {Q : α → St → Prop} {f : α → M β}
    {R : β → St → Prop} (h1 : Ho P m Q) (h2 : ∀ x, Ho (Q x) (f x) R) : Ho P (m >>= f) R :=
  ⟨fun st hp => (h2 _).out _ (h1.out st hp)⟩

theorem Ho.conseq {α} {P P' : St → Prop} {m : M α} {Q Q' : α → St → Prop}
    (h : Ho P' m Q') (hpre : ∀ st, P st → P' st) (hpost : ∀ x st, Q' x st → Q x st) : Ho P m Q :=
  ⟨fun st hp => hpost _ _ (h.out st (hpre st hp))⟩

theorem Ho.pre {α} {P P' : St → Prop} {m : M α} {Q : α → St → Prop}
    (h : Ho P' m Q) (hpre : ∀ st, P st → P' st) : Ho P m Q := h.conseq hpre (fun _ _ h => h)

theorem Ho.post {α} {P : St → Prop} {m : M α} {Q Q' : α → St → Prop}
    (h : Ho P m Q') (hpost : ∀ x st, Q' x st → Q x st) : Ho P m Q := h.conseq (fun _ h => h) hpost

theorem Ho.ite {α} {P : St → Prop} {b : Prop} [Decidable b] {m1 m2 : M α}
    {Q : α → St → Prop} (h1 : b → Ho P m1 Q) (h2 : ¬ b → Ho P m2 Q) :
    Ho P (if b then m1 else m2) Q := by
  by_cases h : b
  · rw [if_pos h]; exact h1 h
  · rw [if_neg h]; exact h2 h

theorem Ho.conj {α} {P P' : St → Prop} {m : M α} {Q Q' : α → St → Prop}
    (h : Ho P m Q) (h' : Ho P' m Q') : Ho (fun st => P st ∧ P' st) m (fun x st => Q x st ∧ Q' x st) :=
  ⟨fun st hp => ⟨h.out st hp.1, h'.out st hp.2⟩⟩

/-- Pull a state-independent fact out of the precondition. -/
theorem Ho.pre_pure {α} {p : Prop} {P : St → Prop} {m : M α} {Q : α → St → Prop}
    (h : p → Ho P m Q) : Ho (fun st => p ∧ P st) m Q := ⟨fun st hp => (h hp.1).out st hp.2⟩

theorem Ho.pre_pure' {α} {p : Prop} {P : St → Prop} {m : M α} {Q : α → St → Prop}
    (h : p → Ho P m Q) : Ho (fun st => P st ∧ p) m Q := ⟨fun st hp => (h hp.2).out st hp.1⟩

theorem Ho.exfalso {α} {P : St → Prop} {m : M α} {Q : α → St → Prop}
    (h : ∀ st, ¬ P st) : Ho P m Q := ⟨fun st hp => absurd hp (h st)⟩

/-- `let s ← getS; …`: the continuation is verified from states whose handler component is `s`. -/
theorem Ho.getS_bind {β} {P : St → Prop} {f : HState → M β} {R : β → St → Prop}
    (h : ∀ s0, Ho (fun st => st.1 = s0 ∧ P st) (f s0) R) : Ho P (getS >>= f) R :=
  ⟨fun st hp => (h st.1).out st ⟨rfl, hp⟩⟩

theorem Ho.setS {P : St → Prop} {Q : Unit → St → Prop} (s' : HState)
    (h : ∀ st, P st → Q () (s', st.2)) : Ho P (setS s') Q := ⟨fun st hp => h st hp⟩

theorem Ho.modS {P : St → Prop} {Q : Unit → St → Prop} (f : HState → HState)
    (h : ∀ st, P st → Q () (f st.1, st.2)) : Ho P (modS f) Q := ⟨fun st hp => h st hp⟩

theorem Ho.emit {P : St → Prop} {Q : Unit → St → Prop} (o : Out)
    (h : ∀ st, P st → Q () (st.1, st.2 ++ [o])) : Ho P (emit o) Q := ⟨fun st hp => h st hp⟩

/-! Uniform-invariant forms (the shape the walker tactic applies). -/
theorem Ho.pureI {α} {P : St → Prop} (x : α) : Ho P (Pure.pure x) (fun _ => P) := ⟨fun _ hp => hp⟩
/-- prefix keeps the invariant, the rest establishes the postcondition -/
theorem Ho.bindP {α β} {P : St → Prop} {m : M α} {f : α → M β} {Q : β → St → Prop}
    (h1 : Ho P m (fun _ => P)) (h2 : ∀ x, Ho P (f x) Q) : Ho P (m >>= f) Q := Ho.bind h1 h2
theorem Ho.iteI {α} {P : St → Prop} {b : Prop} [Decidable b] {m1 m2 : M α}
    {Q : α → St → Prop} (h1 : Ho P m1 Q) (h2 : Ho P m2 Q) :
    Ho P (if b then m1 else m2) Q := Ho.ite (fun _ => h1) (fun _ => h2)
theorem Ho.getI {P : St → Prop} : Ho P getS (fun _ => P) := ⟨fun _ hp => hp⟩

theorem Ho.forEachI {α} {P : St → Prop} (l : List α) (f : α → M Unit)
    (h : ∀ x, Ho P (f x) (fun _ => P)) : Ho P (forEach l f) (fun _ => P) := by
  induction l with
  | nil => exact Ho.pureI ()
  | cons x xs ih => rw [forEach_cons]; exact Ho.bindP (h x) (fun _ => ih)

/-- A loop with an invariant indexed by the items still to be processed. -/
theorem Ho.forEach {α} (I : List α → St → Prop) (l : List α) (f : α → M Unit)
    (h : ∀ x xs, Ho (I (x :: xs)) (f x) (fun _ => I xs)) : Ho (I l) (forEach l f) (fun _ => I []) := by
  induction l with
  | nil => exact Ho.pureI ()
  | cons x xs ih => rw [forEach_cons]; exact Ho.bind (h x xs) (fun _ => ih)

/-- The precondition additionally pins the handler state to the value just read by `getS`. -/
def Pin (s0 : HState) (P : St → Prop) : St → Prop := fun st => st.1 = s0 ∧ P st

theorem Ho.unpin {α} {s0 : HState} {P : St → Prop} {m : M α} {Q : α → St → Prop}
    (h : Ho P m Q) : Ho (Pin s0 P) m Q := ⟨fun st hp => h.out st hp.2⟩

theorem Ho.getS_pin {β} {P : St → Prop} {f : HState → M β} {R : β → St → Prop}
    (h : ∀ s0, Ho (Pin s0 P) (f s0) R) : Ho P (getS >>= f) R :=
  ⟨fun st hp => (h st.1).out st ⟨rfl, hp⟩⟩

theorem Ho.pure_bind {α β} {P : St → Prop} {x : α} {f : α → M β} {R : β → St → Prop}
    (h : Ho P (f x) R) : Ho P (Pure.pure x >>= f) R := ⟨fun st hp => h.out st hp⟩

theorem Ho.bind_assoc {α β γ} {P : St → Prop} {m : M α} {f : α → M β} {g : β → M γ}
    {R : γ → St → Prop} (h : Ho P (m >>= fun x => f x >>= g) R) : Ho P ((m >>= f) >>= g) R :=
  ⟨fun st hp => h.out st hp⟩

theorem Ho.ite_bind {α β} {P : St → Prop} {b : Prop} [Decidable b] {m1 m2 : M α} {f : α → M β}
    {Q : β → St → Prop} (h1 : b → Ho P (m1 >>= f) Q) (h2 : ¬ b → Ho P (m2 >>= f) Q) :
    Ho P ((if b then m1 else m2) >>= f) Q := by
  by_cases h : b
  · rw [if_pos h]; exact h1 h
  · rw [if_neg h]; exact h2 h

/-- Generic forward walker.  `ho_leaf` closes `Ho P m ?Q` for calls of already-verified functions
and primitives (it may leave side goals); `ho_bindleaf` applies continuation-passing lemmas. -/
syntax "ho_leaf" : tactic
syntax "ho_bindleaf" : tactic
macro_rules | `(tactic| ho_leaf) => `(tactic| with_reducible first | exact Ho.getI | exact Ho.pureI _)
macro_rules | `(tactic| ho_bindleaf) => `(tactic| fail "no bind leaf")

macro "ho_step" : tactic => `(tactic| first
  | (with_reducible apply Ho.pure_bind)
  | (with_reducible apply Ho.bind_assoc)
  | ((with_reducible apply Ho.ite_bind) <;> intro _)
  | ((with_reducible apply Ho.getS_pin); intro _)
  | ho_bindleaf
  | ((with_reducible apply Ho.unpin); ho_bindleaf)
  | ((with_reducible apply Ho.bind); (first | ho_leaf | ((with_reducible apply Ho.unpin); ho_leaf) | (with_reducible apply Ho.forEachI) | ((with_reducible apply Ho.unpin); (with_reducible apply Ho.forEachI))))
  | ((with_reducible apply Ho.ite) <;> intro _)
  | (with_reducible apply Ho.forEachI)
  | (show Ho _ _ _; split)
  | (intro _; show Ho _ _ _)
  | ho_leaf
  | ((with_reducible apply Ho.unpin); ho_leaf)
  | ((with_reducible apply Ho.pure); intro _ _)
  | ((with_reducible apply Ho.post); (first | ho_leaf | ((with_reducible apply Ho.unpin); ho_leaf))))

macro "ho_walk" : tactic => `(tactic| repeat' ho_step)

/-! ## Exact effects of the primitives that read the state -/

theorem freshNonce_run (c : Cfg) (st : St) : (freshNonce c).run st =
    (mkName c (st.1.fresh.nonce + 1),
      ({ st.1 with fresh := { st.1.fresh with nonce := st.1.fresh.nonce + 1 } }, st.2)) := rfl
theorem freshCd_run (c : Cfg) (st : St) : (freshCd c).run st =
    (mkName c (st.1.fresh.cd + 1),
      ({ st.1 with fresh := { st.1.fresh with cd := st.1.fresh.cd + 1 } }, st.2)) := rfl
theorem freshEph_run (c : Cfg) (st : St) : (freshEph c).run st =
    (mkName c (st.1.fresh.eph + 1),
      ({ st.1 with fresh := { st.1.fresh with eph := st.1.fresh.eph + 1 } }, st.2)) := rfl
theorem freshRid_run (c : Cfg) (st : St) : (freshRid c).run st =
    (mkName c (st.1.fresh.rid + 1),
      ({ st.1 with fresh := { st.1.fresh with rid := st.1.fresh.rid + 1 } }, st.2)) := rfl

theorem sessGetMut_elim {c : Cfg} {na : NA} {P : St → Prop} {Q : Option Session → St → Prop}
    (h : ∀ st, P st →
      (st.1.sessions.find? (·.1 == na) = none → Q none st) ∧
      (∀ k sess stamp, st.1.sessions.find? (·.1 == na) = some (k, sess, stamp) →
        (stamp + c.sessionTtl < st.1.rt →
          Q none ({ st.1 with sessions := st.1.sessions.filter (·.1 != na) }, st.2)) ∧
        (¬ stamp + c.sessionTtl < st.1.rt →
          Q (some sess) ({ st.1 with sessions := st.1.sessions.filter (·.1 != na) ++ [(na, sess, st.1.rt)] }, st.2)))) :
    Ho P (sessGetMut c na) Q := by
  refine ⟨fun st hp => ?_⟩
  obtain ⟨h1, h2⟩ := h st hp
  unfold sessGetMut
  simp only [run_bind, run_getS]
  cases hf : st.1.sessions.find? (·.1 == na) with
  | none => exact h1 hf
  | some e =>
    obtain ⟨k, sess, stamp⟩ := e
    obtain ⟨h3, h4⟩ := h2 k sess stamp hf
    by_cases hx : stamp + c.sessionTtl < st.1.rt
    · simp only [hx, if_true]; exact h3 hx
    · simp only [hx, if_false]; exact h4 hx

theorem removeExpiredSessions_elim {c : Cfg} {P : St → Prop} {Q : Unit → St → Prop}
    (h : ∀ st, P st → ∀ e r, popExpired c.sessionTtl st.1.rt st.1.sessions = (e, r) →
      Q () ({ st.1 with sessions := r }, if e.isEmpty then st.2 else st.2 ++ [.expired e])) :
    Ho P (removeExpiredSessions c) Q := by
  refine ⟨fun st hp => ?_⟩
  have := h st hp _ _ rfl
  unfold removeExpiredSessions
  simp only [run_bind, run_getS, run_setS]
  by_cases he : (popExpired c.sessionTtl st.1.rt st.1.sessions).1.isEmpty
  · simp only [he, if_true] at this; simp [he]; exact this
  · simp only [he] at this; simp [he]; exact this

theorem activeRemoveByNonce_elim {n : Nat} {P : St → Prop} {Q : Option Call → St → Prop}
    (h : ∀ st, P st →
      (st.1.active.find? (·.pkt.nonce == n) = none → Q none st) ∧
      (∀ call, st.1.active.find? (·.pkt.nonce == n) = some call →
        Q (some call) ({ st.1 with active := st.1.active.erase call }, st.2))) :
    Ho P (activeRemoveByNonce n) Q := by
  refine ⟨fun st hp => ?_⟩
  obtain ⟨h1, h2⟩ := h st hp
  unfold activeRemoveByNonce
  simp only [run_bind, run_getS]
  cases hf : st.1.active.find? (·.pkt.nonce == n) with
  | none => exact h1 hf
  | some call => exact h2 call hf

theorem activeRemoveRequest_elim {na : NA} {rid : Nat} {P : St → Prop} {Q : Option Call → St → Prop}
    (h : ∀ st, P st →
      (st.1.active.find? (fun call => callNA call == na && call.rid == rid) = none → Q none st) ∧
      (∀ call, st.1.active.find? (fun call => callNA call == na && call.rid == rid) = some call →
        Q (some call) ({ st.1 with active := st.1.active.erase call }, st.2))) :
    Ho P (activeRemoveRequest na rid) Q := by
  refine ⟨fun st hp => ?_⟩
  obtain ⟨h1, h2⟩ := h st hp
  unfold activeRemoveRequest
  simp only [run_bind, run_getS]
  cases hf : st.1.active.find? (fun call => callNA call == na && call.rid == rid) with
  | none => exact h1 hf
  | some call => exact h2 call hf

theorem activeRemoveRequests_run (na : NA) (st : St) : (activeRemoveRequests na).run st =
    (st.1.active.filter (fun call => callNA call == na),
      ({ st.1 with active := st.1.active.filter (fun call => callNA call != na) }, st.2)) := rfl

theorem encryptMessage_run (c : Cfg) (sess : Session) (pt : Msg) (st : St) :
    (encryptMessage c sess pt).run st =
    (({ sess with counter := sess.counter + 1 },
        Pkt.message c.localId (mkName c (st.1.fresh.nonce + 1))
          (.enc sess.keys.enc (mkName c (st.1.fresh.nonce + 1)) (sess.counter + 1) pt true)),
      ({ st.1 with fresh := { st.1.fresh with nonce := st.1.fresh.nonce + 1 } }, st.2)) := rfl

/-! ## Walk T: a timeout failure is only reported by the timer path -/

def NoTO (st : St) : Prop := ∀ rid, Out.failed rid .timeout ∉ st.2

theorem T_modS (f : HState → HState) : Ho NoTO (modS f) (fun _ => NoTO) := ⟨fun _ hp => hp⟩
theorem T_setS (s : HState) : Ho NoTO (setS s) (fun _ => NoTO) := ⟨fun _ hp => hp⟩
theorem T_emit (o : Out) (h : ∀ rid, o ≠ .failed rid .timeout) : Ho NoTO (emit o) (fun _ => NoTO) := by
  refine ⟨fun st hp rid hm => ?_⟩
  simp only [run_emit, List.mem_append, List.mem_singleton] at hm
  rcases hm with hm | hm
  · exact hp rid hm
  · exact h rid hm.symm

syntax "t_leaf" : tactic
macro_rules | `(tactic| t_leaf) => `(tactic| first
  | with_reducible exact T_modS _ | with_reducible exact T_setS _
  | ((with_reducible apply T_emit); intro _ h; cases h <;> contradiction))
macro_rules | `(tactic| ho_leaf) => `(tactic| t_leaf)

theorem T_freshNonce (c : Cfg) : Ho NoTO (freshNonce c) (fun _ => NoTO) := by unfold freshNonce; ho_walk
theorem T_freshCd (c : Cfg) : Ho NoTO (freshCd c) (fun _ => NoTO) := by unfold freshCd; ho_walk
theorem T_freshEph (c : Cfg) : Ho NoTO (freshEph c) (fun _ => NoTO) := by unfold freshEph; ho_walk
theorem T_freshRid (c : Cfg) : Ho NoTO (freshRid c) (fun _ => NoTO) := by unfold freshRid; ho_walk
theorem T_addExpected (a) : Ho NoTO (addExpected a) (fun _ => NoTO) := T_modS _
theorem T_removeExpected (a) : Ho NoTO (removeExpected a) (fun _ => NoTO) := T_modS _
theorem T_sessGetMut (c na) : Ho NoTO (sessGetMut c na) (fun _ => NoTO) := by unfold sessGetMut; ho_walk
theorem T_sessPut (na s) : Ho NoTO (sessPut na s) (fun _ => NoTO) := T_modS _
theorem T_sessInsert (c na s) : Ho NoTO (sessInsert c na s) (fun _ => NoTO) := T_modS _
theorem T_sessRemove (na) : Ho NoTO (sessRemove na) (fun _ => NoTO) := T_modS _
theorem T_removeExpiredSessions (c) : Ho NoTO (removeExpiredSessions c) (fun _ => NoTO) := by
  unfold removeExpiredSessions; ho_walk
theorem T_activeInsert (c call) : Ho NoTO (activeInsert c call) (fun _ => NoTO) := T_modS _
theorem T_activeRemoveByNonce (n) : Ho NoTO (activeRemoveByNonce n) (fun _ => NoTO) := by
  unfold activeRemoveByNonce; ho_walk
theorem T_activeRemoveRequest (na r) : Ho NoTO (activeRemoveRequest na r) (fun _ => NoTO) := by
  unfold activeRemoveRequest; ho_walk
theorem T_activeRemoveRequests (na) : Ho NoTO (activeRemoveRequests na) (fun _ => NoTO) := by
  unfold activeRemoveRequests; ho_walk
theorem T_send (na p) : Ho NoTO (send na p) (fun _ => NoTO) := by
  unfold send; exact T_emit _ (by intro _ h; cases h)
macro_rules | `(tactic| t_leaf) => `(tactic| with_reducible first
  | exact T_freshNonce _ | exact T_freshCd _ | exact T_freshEph _ | exact T_freshRid _
  | exact T_addExpected _ | exact T_removeExpected _ | exact T_sessGetMut _ _ | exact T_sessPut _ _
  | exact T_sessInsert _ _ _ | exact T_sessRemove _ | exact T_removeExpiredSessions _
  | exact T_activeInsert _ _ | exact T_activeRemoveByNonce _ | exact T_activeRemoveRequest _ _
  | exact T_activeRemoveRequests _ | exact T_send _ _)
theorem T_encryptMessage (c s m) : Ho NoTO (encryptMessage c s m) (fun _ => NoTO) := by
  unfold encryptMessage; ho_walk
theorem T_isAwaitingSession (c na) : Ho NoTO (isAwaitingSession c na) (fun _ => NoTO) := by
  unfold isAwaitingSession; ho_walk
macro_rules | `(tactic| t_leaf) => `(tactic| with_reducible first
  | exact T_encryptMessage _ _ _ | exact T_isAwaitingSession _ _)
theorem T_sendRequest (c ct rid i b) :
    Ho NoTO (sendRequest c ct rid i b) (fun r st => NoTO st ∧ r ≠ some .timeout) := by
  unfold sendRequest; ho_walk
  all_goals exact ⟨by assumption, by simp⟩
theorem T_sendRequestI (c ct rid i b) : Ho NoTO (sendRequest c ct rid i b) (fun _ => NoTO) :=
  (T_sendRequest c ct rid i b).post (fun _ _ h => h.1)
/-- `match ← sendRequest … with | some e => emit (failed rid e) | none => pure ()` -/
theorem T_sendRequest_then (c ct rid i b) (k : Option Err → M Unit)
    (hk : ∀ r, r ≠ some .timeout → Ho NoTO (k r) (fun _ => NoTO)) :
    Ho NoTO (sendRequest c ct rid i b >>= k) (fun _ => NoTO) :=
  Ho.bind (T_sendRequest c ct rid i b) (fun r => Ho.pre_pure' (hk r))
theorem T_sendPendingRequests (c na) : Ho NoTO (sendPendingRequests c na) (fun _ => NoTO) := by
  unfold sendPendingRequests
  refine Ho.bindP Ho.getI (fun s => Ho.bindP (T_setS _) (fun _ => Ho.forEachI _ _ (fun pr => ?_)))
  refine T_sendRequest_then _ _ _ _ _ _ (fun r hr => ?_)
  cases r with
  | none => exact Ho.pureI _
  | some e =>
    refine Ho.iteI (T_emit _ ?_) (Ho.pureI _)
    intro _ h; cases h; exact hr rfl
theorem T_failSession (c na e b) (he : e ≠ .timeout) : Ho NoTO (failSession c na e b) (fun _ => NoTO) := by
  unfold failSession; ho_walk
macro_rules | `(tactic| t_leaf) => `(tactic| with_reducible first
  | exact T_failSession _ _ _ _ (by first | assumption | simp))
theorem T_failRequest (c call e b) (he : e ≠ .timeout) : Ho NoTO (failRequest c call e b) (fun _ => NoTO) := by
  unfold failRequest; ho_walk
theorem T_reencryptAll (c l s acc) : Ho NoTO (reencryptAll c l s acc) (fun _ => NoTO) := by
  induction l generalizing s acc with
  | nil => unfold reencryptAll; ho_walk
  | cons x xs ih => unfold reencryptAll; ho_walk; exact ih _ _
macro_rules | `(tactic| t_leaf) => `(tactic| with_reducible first
  | exact T_sendRequestI _ _ _ _ _ | exact T_sendPendingRequests _ _ | exact T_reencryptAll _ _ _ _
  | exact T_failSession _ _ _ _ (by first | assumption | simp) | exact T_failRequest _ _ _ _ (by first | assumption | simp) )
theorem T_replayActiveRequests (c na sk) : Ho NoTO (replayActiveRequests c na sk) (fun _ => NoTO) := by
  unfold replayActiveRequests; ho_walk
macro_rules | `(tactic| t_leaf) => `(tactic| with_reducible exact T_replayActiveRequests _ _ _)
theorem T_newSession (c na s sk) : Ho NoTO (newSession c na s sk) (fun _ => NoTO) := by
  unfold newSession; ho_walk
theorem T_sendChallenge (c na n k) : Ho NoTO (sendChallenge c na n k) (fun _ => NoTO) := by
  unfold sendChallenge; ho_walk
macro_rules | `(tactic| t_leaf) => `(tactic| with_reducible first
  | exact T_replayActiveRequests _ _ _ | exact T_newSession _ _ _ _ | exact T_sendChallenge _ _ _ _)
theorem T_handleChallenge (c src n cd es) : Ho NoTO (handleChallenge c src n cd es) (fun _ => NoTO) := by
  unfold handleChallenge; ho_walk
theorem T_handleResponse (c na rid rb) : Ho NoTO (handleResponse c na rid rb) (fun _ => NoTO) := by
  unfold handleResponse; ho_walk
macro_rules | `(tactic| t_leaf) => `(tactic| with_reducible first
  | exact T_handleChallenge _ _ _ _ _ | exact T_handleResponse _ _ _ _)
theorem T_handleMessage (c na n ct) : Ho NoTO (handleMessage c na n ct) (fun _ => NoTO) := by
  unfold handleMessage; ho_walk
macro_rules | `(tactic| t_leaf) => `(tactic| with_reducible first
  | exact T_handleMessage _ _ _ _)
theorem T_handleAuthMessage (c na n sig eph r ct) : Ho NoTO (handleAuthMessage c na n sig eph r ct) (fun _ => NoTO) := by
  unfold handleAuthMessage; ho_walk
theorem T_stepM (c : Cfg) (e : Ev) (he : ∀ dt, e ≠ .adv dt) : Ho NoTO (stepM c e) (fun _ => NoTO) := by
  cases e with
  | adv dt => exact absurd rfl (he dt)
  | appRequest ct rid b =>
    simp only [stepM]
    refine T_sendRequest_then _ _ _ _ _ _ (fun r hr => ?_)
    cases r with
    | none => exact Ho.pureI _
    | some e => refine T_emit _ ?_; intro _ h; cases h; exact hr rfl
  | dgram src p => simp only [stepM]; ho_walk; exact T_handleAuthMessage ..
  | _ => simp only [stepM]; ho_walk

theorem step_eq (c : Cfg) (s : HState) (e : Ev) : step c s e = ((stepM c e).run (s, [])).2 := rfl

theorem timeout_only_from_timer' (c : Cfg) (s : HState) (e : Ev) (rid : Nat)
    (h : Out.failed rid .timeout ∈ (step c s e).2) : ∃ dt, e = .adv dt := by
  by_cases he : ∃ dt, e = .adv dt
  · exact he
  · have := (T_stepM c e (fun dt h => he ⟨dt, h⟩)).out (s, []) (by intro rid h; cases h)
    rw [step_eq] at h
    exact absurd h (this rid)

/-! ## Walk R: the retry counter of an active request never exceeds `request_retries` -/

def RB (c : Cfg) (st : St) : Prop := ∀ call ∈ st.1.active, call.retries ≤ c.requestRetries

/-- A primitive that leaves `active` alone keeps `RB`. -/
theorem R_frame {α} {c : Cfg} {m : M α} (h : ∀ st, (m.run st).2.1.active = st.1.active) :
    Ho (RB c) m (fun _ => RB c) := ⟨fun st hp => by unfold RB; rw [h st]; exact hp⟩

theorem R_modS {c : Cfg} (f : HState → HState) (h : ∀ s, (f s).active = s.active) :
    Ho (RB c) (modS f) (fun _ => RB c) := R_frame (fun st => h st.1)
theorem R_emit {c : Cfg} (o) : Ho (RB c) (emit o) (fun _ => RB c) := R_frame (fun _ => rfl)
theorem R_send {c : Cfg} (na p) : Ho (RB c) (send na p) (fun _ => RB c) := R_frame (fun _ => rfl)
theorem R_freshNonce (c : Cfg) : Ho (RB c) (freshNonce c) (fun _ => RB c) := R_frame (fun _ => rfl)
theorem R_freshCd (c : Cfg) : Ho (RB c) (freshCd c) (fun _ => RB c) := R_frame (fun _ => rfl)
theorem R_freshEph (c : Cfg) : Ho (RB c) (freshEph c) (fun _ => RB c) := R_frame (fun _ => rfl)
theorem R_freshRid (c : Cfg) : Ho (RB c) (freshRid c) (fun _ => RB c) := R_frame (fun _ => rfl)
theorem R_addExpected {c : Cfg} (a) : Ho (RB c) (addExpected a) (fun _ => RB c) :=
  R_modS _ (fun s => by by_cases h : s.exempt.any (·.1 == a) <;> simp [h])
theorem R_removeExpected {c : Cfg} (a) : Ho (RB c) (removeExpected a) (fun _ => RB c) := R_modS _ (fun _ => rfl)
theorem R_sessPut {c : Cfg} (na s) : Ho (RB c) (sessPut na s) (fun _ => RB c) := R_modS _ (fun _ => rfl)
theorem R_sessInsert {c : Cfg} (na s) : Ho (RB c) (sessInsert c na s) (fun _ => RB c) := R_modS _ (fun _ => rfl)
theorem R_sessRemove {c : Cfg} (na) : Ho (RB c) (sessRemove na) (fun _ => RB c) := R_modS _ (fun _ => rfl)
theorem R_sessGetMut {c : Cfg} (na) : Ho (RB c) (sessGetMut c na) (fun _ => RB c) :=
  sessGetMut_elim (fun _ hp => ⟨fun _ => hp, fun _ _ _ _ => ⟨fun _ => hp, fun _ => hp⟩⟩)
theorem R_removeExpiredSessions {c : Cfg} : Ho (RB c) (removeExpiredSessions c) (fun _ => RB c) :=
  removeExpiredSessions_elim (fun _ hp _ _ _ => hp)
theorem R_encryptMessage {c : Cfg} (s m) : Ho (RB c) (encryptMessage c s m) (fun _ => RB c) := R_frame (fun _ => rfl)

theorem R_activeInsert {c : Cfg} (call : Call) (h : call.retries ≤ c.requestRetries) :
    Ho (RB c) (activeInsert c call) (fun _ => RB c) := by
  refine Ho.modS _ (fun st hp x hx => ?_)
  simp only [List.mem_append, List.mem_singleton] at hx
  rcases hx with hx | hx
  · exact hp x hx
  · subst hx; exact h

theorem RB_erase {c : Cfg} {st : St} (hp : RB c st) (call : Call) :
    RB c ({ st.1 with active := st.1.active.erase call }, st.2) :=
  fun x hx => hp x (List.mem_of_mem_erase hx)

theorem R_activeRemoveByNonce {c : Cfg} (n) : Ho (RB c) (activeRemoveByNonce n)
    (fun r st => RB c st ∧ ∀ call, r = some call → call.retries ≤ c.requestRetries) :=
  activeRemoveByNonce_elim (fun _ hp => ⟨fun _ => ⟨hp, fun _ h => by cases h⟩,
    fun call hf => ⟨RB_erase hp call, fun x hx => by
      cases hx; exact hp _ (List.mem_of_find?_eq_some hf)⟩⟩)
theorem R_activeRemoveRequest {c : Cfg} (na rid) : Ho (RB c) (activeRemoveRequest na rid)
    (fun r st => RB c st ∧ ∀ call, r = some call → call.retries ≤ c.requestRetries) :=
  activeRemoveRequest_elim (fun _ hp => ⟨fun _ => ⟨hp, fun _ h => by cases h⟩,
    fun call hf => ⟨RB_erase hp call, fun x hx => by
      cases hx; exact hp _ (List.mem_of_find?_eq_some hf)⟩⟩)
theorem R_activeRemoveRequests {c : Cfg} (na) : Ho (RB c) (activeRemoveRequests na) (fun _ => RB c) :=
  ⟨fun _ hp x hx => hp x (List.mem_filter.1 hx).1⟩


theorem R_setS_pinned {c : Cfg} {s0 : HState} (s' : HState) (h : s'.active = s0.active) :
    Ho (Pin s0 (RB c)) (setS s') (fun _ => RB c) :=
  Ho.setS _ (fun st hp => by unfold RB; rw [h, ← hp.1]; exact hp.2)
theorem R_replayUpd {c : Cfg} (oldNonce : Nat) (p : Pkt) : Ho (RB c) (modS fun s =>
        let upd : Call → Call := fun call =>
          if call.pkt.nonce == oldNonce then
            { call with pkt := p, deadline := s.now + c.requestTimeout, tseq := s.tctr }
          else call
        { s with active := s.active.map upd, tctr := s.tctr + 1 }) (fun _ => RB c) := by
  refine Ho.modS _ (fun st hp x hx => ?_)
  simp only [List.mem_map] at hx
  obtain ⟨y, hy, rfl⟩ := hx
  split
  · exact hp y hy
  · exact hp y hy

syntax "r_leaf" : tactic
macro_rules | `(tactic| r_leaf) => `(tactic| first
  | with_reducible exact R_emit _ | with_reducible exact R_send _ _ | with_reducible exact R_freshNonce _
  | with_reducible exact R_freshCd _ | with_reducible exact R_freshEph _
  | with_reducible exact R_freshRid _ | with_reducible exact R_addExpected _
  | with_reducible exact R_removeExpected _ | with_reducible exact R_sessPut _ _
  | with_reducible exact R_sessInsert _ _ | with_reducible exact R_sessRemove _
  | with_reducible exact R_sessGetMut _ | with_reducible exact R_removeExpiredSessions
  | with_reducible exact R_encryptMessage _ _ | with_reducible exact R_activeRemoveRequests _
  | with_reducible exact R_setS_pinned _ rfl
  | exact R_replayUpd _ _
  | with_reducible apply R_activeInsert
  | exact R_modS _ (fun s => by first | rfl | (dsimp only; split <;> rfl)))
macro_rules | `(tactic| ho_leaf) => `(tactic| r_leaf)

theorem R_isAwaitingSession {c : Cfg} (na) : Ho (RB c) (isAwaitingSession c na) (fun _ => RB c) := by
  unfold isAwaitingSession; ho_walk
macro_rules | `(tactic| r_leaf) => `(tactic| with_reducible exact R_isAwaitingSession _)
theorem R_sendRequest {c : Cfg} (hr : 1 ≤ c.requestRetries) (ct rid i b) :
    Ho (RB c) (sendRequest c ct rid i b) (fun _ => RB c) := by
  unfold sendRequest; ho_walk
  all_goals exact hr
macro_rules | `(tactic| r_leaf) => `(tactic| with_reducible exact R_sendRequest (by assumption) _ _ _ _)
theorem R_sendPendingRequests {c : Cfg} (hr : 1 ≤ c.requestRetries) (na) :
    Ho (RB c) (sendPendingRequests c na) (fun _ => RB c) := by
  unfold sendPendingRequests; ho_walk
theorem R_failSession {c : Cfg} (na e b) : Ho (RB c) (failSession c na e b) (fun _ => RB c) := by
  unfold failSession; ho_walk
macro_rules | `(tactic| r_leaf) => `(tactic| with_reducible first
  | exact R_sendPendingRequests (by assumption) _ | exact R_failSession _ _ _)
theorem R_failRequest {c : Cfg} (call e b) : Ho (RB c) (failRequest c call e b) (fun _ => RB c) := by
  unfold failRequest; ho_walk
macro_rules | `(tactic| r_leaf) => `(tactic| with_reducible exact R_failRequest _ _ _)
theorem R_handleRequestTimeout {c : Cfg} (call : Call) (_h : call.retries ≤ c.requestRetries) :
    Ho (RB c) (handleRequestTimeout c call) (fun _ => RB c) := by
  unfold handleRequestTimeout; ho_walk
  simp only; omega
theorem R_reencryptAll {c : Cfg} (l s acc) : Ho (RB c) (reencryptAll c l s acc) (fun _ => RB c) := by
  induction l generalizing s acc with
  | nil => unfold reencryptAll; ho_walk
  | cons x xs ih => unfold reencryptAll; ho_walk; exact ih _ _
macro_rules | `(tactic| r_leaf) => `(tactic| with_reducible exact R_reencryptAll _ _ _)
theorem R_replayActiveRequests {c : Cfg} (na sk) : Ho (RB c) (replayActiveRequests c na sk) (fun _ => RB c) := by
  unfold replayActiveRequests; ho_walk
macro_rules | `(tactic| r_leaf) => `(tactic| with_reducible exact R_replayActiveRequests _ _)
theorem R_newSession {c : Cfg} (hr : 1 ≤ c.requestRetries) (na s sk) : Ho (RB c) (newSession c na s sk) (fun _ => RB c) := by
  unfold newSession; ho_walk
theorem R_sendChallenge {c : Cfg} (na n k) : Ho (RB c) (sendChallenge c na n k) (fun _ => RB c) := by
  unfold sendChallenge; ho_walk
macro_rules | `(tactic| r_leaf) => `(tactic| with_reducible first
  | exact R_newSession (by assumption) _ _ _ | exact R_sendChallenge _ _ _)
theorem R_handleChallenge {c : Cfg} (hr : 1 ≤ c.requestRetries) (src n cd es) :
    Ho (RB c) (handleChallenge c src n cd es) (fun _ => RB c) := by
  unfold handleChallenge
  refine Ho.bind (R_activeRemoveByNonce n) (fun r => Ho.pre_pure' (fun hc => ?_))
  ho_walk
  all_goals (have := hc _ rfl; exact this)
theorem R_handleResponse {c : Cfg} (na rid rb) : Ho (RB c) (handleResponse c na rid rb) (fun _ => RB c) := by
  unfold handleResponse
  refine Ho.bind (R_activeRemoveRequest na rid) (fun r => Ho.pre_pure' (fun hc => ?_))
  ho_walk
  all_goals (have := hc _ rfl; exact this)
macro_rules | `(tactic| r_leaf) => `(tactic| with_reducible first
  | exact R_handleChallenge (by assumption) _ _ _ _ | exact R_handleResponse _ _ _
  | exact (R_activeRemoveRequest _ _).post (fun _ _ h => h.1))
theorem R_handleMessage {c : Cfg} (na n ct) : Ho (RB c) (handleMessage c na n ct) (fun _ => RB c) := by
  unfold handleMessage; ho_walk
macro_rules | `(tactic| r_leaf) => `(tactic| with_reducible exact R_handleMessage _ _ _)
theorem R_handleAuthMessage {c : Cfg} (hr : 1 ≤ c.requestRetries) (na n sig eph r ct) :
    Ho (RB c) (handleAuthMessage c na n sig eph r ct) (fun _ => RB c) := by
  unfold handleAuthMessage; ho_walk
theorem foldl_pick_mem {α} (f : Option α → α → Option α) (hf : ∀ m x, f m x = some x ∨ f m x = m)
    (l : List α) (init : Option α) (r : α) (h : l.foldl f init = some r) :
    init = some r ∨ r ∈ l := by
  induction l generalizing init with
  | nil => exact Or.inl h
  | cons x xs ih =>
    rw [List.foldl_cons] at h
    rcases ih _ h with h1 | h1
    · rcases hf init x with h2 | h2
      · rw [h2] at h1; cases h1; exact Or.inr (List.mem_cons_self ..)
      · rw [h2] at h1; exact Or.inl h1
    · exact Or.inr (List.mem_cons_of_mem _ h1)

theorem nextDue_inl_mem (s : HState) (t d : Nat) (call : Call)
    (h : nextDue s t = some (d, .inl call)) : call ∈ s.active := by
  unfold nextDue at h
  simp only at h
  have key : ∀ r, List.foldl (fun (m : Option Call) call => match m with
      | none => some call
      | some b => if (decide (call.deadline < b.deadline) || call.deadline == b.deadline && decide (call.tseq < b.tseq)) = true
          then some call else some b) none (List.filter (fun x => decide (x.deadline ≤ t)) s.active) = some r →
      r ∈ s.active := by
    intro r hr
    rcases foldl_pick_mem _ (by
      intro m x; cases m with
      | none => exact Or.inl rfl
      | some b => dsimp only; split
                  · exact Or.inl rfl
                  · exact Or.inr rfl) _ _ _ hr with h1 | h1
    · cases h1
    · exact (List.mem_filter.1 h1).1
  split at h
  · rename_i r ch hr hc
    split at h
    · cases h
    · cases h; exact key _ hr
  · rename_i r hr hc
    cases h; exact key _ hr
  · cases h
  · cases h

macro_rules | `(tactic| r_leaf) => `(tactic| with_reducible first
  | exact R_handleAuthMessage (by assumption) _ _ _ _ _ _ | exact R_handleRequestTimeout _ (by assumption))
theorem R_fireTimers {c : Cfg} (hr : 1 ≤ c.requestRetries) (target fuel : Nat) :
    Ho (RB c) (fireTimers c target fuel) (fun _ => RB c) := by
  induction fuel with
  | zero => unfold fireTimers; exact Ho.pureI _
  | succ n ih =>
    unfold fireTimers
    refine Ho.getS_pin (fun s0 => ?_)
    split
    · ho_walk
    · rename_i d call hnd
      have hm := nextDue_inl_mem _ _ _ _ hnd
      refine Ho.bind (Q := fun _ st => RB c st ∧ call.retries ≤ c.requestRetries)
        (Ho.setS _ (fun st hp => ⟨fun x hx => hp.2 x (hp.1 ▸ List.mem_of_mem_erase hx), hp.2 _ (hp.1 ▸ hm)⟩))
        (fun _ => Ho.pre_pure' (fun hc => ?_))
      ho_walk
      exact ih
    · ho_walk
      exact ih
macro_rules | `(tactic| r_leaf) => `(tactic| with_reducible exact R_fireTimers (by assumption) _ _)
theorem R_stepM {c : Cfg} (hr : 1 ≤ c.requestRetries) (e : Ev) : Ho (RB c) (stepM c e) (fun _ => RB c) := by
  cases e with
  | dgram src p => simp only [stepM]; ho_walk
  | _ => simp only [stepM]; ho_walk

theorem snoc_induction {α} {P : List α → Prop} (h0 : P []) (h1 : ∀ l x, P l → P (l ++ [x])) :
    ∀ l, P l := by
  intro l
  rw [← List.reverse_reverse l]
  induction l.reverse with
  | nil => exact h0
  | cons x xs ih => rw [List.reverse_cons]; exact h1 _ _ ih

theorem run_snoc (c : Cfg) (evs : List Ev) (e : Ev) : run c (evs ++ [e]) = (step c (run c evs) e).1 := by
  simp [run, List.foldl_append]

theorem retries_bounded' (c : Cfg) (evs : List Ev) (hr : 1 ≤ c.requestRetries) :
    ∀ call ∈ (run c evs).active, call.retries ≤ c.requestRetries := by
  induction evs using snoc_induction with
  | h0 => intro call h; cases h
  | h1 evs e ih =>
    rw [run_snoc, step_eq]
    exact (R_stepM hr e).out (run c evs, []) ih

/-! ## Walk P: a queued request always has a releaser -/

/-- Address `k` has a releaser: an active challenge, or no session and an initiating call. -/
def Rel (s : HState) (k : NA) : Prop :=
  s.challenges.any (·.1 == k) = true ∨
    (s.sessions.all (·.1 != k) = true ∧
      s.active.any (fun call => call.contact.na == k && call.initiating) = true)

/-- `PendingHasReleaser` except for the addresses in `ex`. -/
def PX (ex : NA → Prop) (st : St) : Prop :=
  ∀ e ∈ st.1.pending, ¬ ex e.1 → e.2 ≠ [] → Rel st.1 e.1

theorem PX_iff (s : HState) (os : List Out) : PX (fun _ => False) (s, os) ↔ PendingHasReleaser s := by
  unfold PX PendingHasReleaser Rel
  constructor
  · intro h e he hne; exact h e he (fun h => h) hne
  · intro h e he _ hne; exact h e he hne

theorem Rel.mono {s s' : HState} {k : NA}
    (hc : s.challenges.any (·.1 == k) = true → s'.challenges.any (·.1 == k) = true)
    (hs : s.sessions.all (·.1 != k) = true → s'.sessions.all (·.1 != k) = true)
    (ha : s.active.any (fun call => call.contact.na == k && call.initiating) = true →
      s'.active.any (fun call => call.contact.na == k && call.initiating) = true)
    (h : Rel s k) : Rel s' k := by
  rcases h with h | ⟨h1, h2⟩
  · exact Or.inl (hc h)
  · exact Or.inr ⟨hs h1, ha h2⟩

/-- Pending untouched, releasers kept for the non-exempt addresses. -/
theorem PX.step {ex : NA → Prop} {st st' : St} (h : PX ex st) (hp : st'.1.pending = st.1.pending)
    (hr : ∀ k, ¬ ex k → Rel st.1 k → Rel st'.1 k) : PX ex st' := by
  intro e he hx hne
  rw [hp] at he
  exact hr _ hx (h e he hx hne)

theorem PX.weaken {ex ex' : NA → Prop} {st : St} (h : PX ex st) (hx : ∀ k, ex k → ex' k) : PX ex' st :=
  fun e he hn hne => h e he (fun h => hn (hx _ h)) hne

/-- Generic leaf: a `modS` that leaves `pending` alone and keeps releasers. -/
theorem P_modS {ex : NA → Prop} (f : HState → HState) (hp : ∀ s, (f s).pending = s.pending)
    (hr : ∀ s k, ¬ ex k → Rel s k → Rel (f s) k) : Ho (PX ex) (modS f) (fun _ => PX ex) :=
  Ho.modS _ (fun st h => h.step (hp st.1) (hr st.1))

theorem P_frame {α} {ex : NA → Prop} {m : M α}
    (h : ∀ st, (m.run st).2.1.pending = st.1.pending ∧ (m.run st).2.1.challenges = st.1.challenges ∧
      (m.run st).2.1.sessions = st.1.sessions ∧ (m.run st).2.1.active = st.1.active) :
    Ho (PX ex) m (fun _ => PX ex) :=
  ⟨fun st hp => hp.step (h st).1 (fun k _ hr => by
    obtain ⟨_, h2, h3, h4⟩ := h st
    unfold Rel; rw [h2, h3, h4]; exact hr)⟩

theorem P_emit {ex} (o) : Ho (PX ex) (emit o) (fun _ => PX ex) := P_frame (fun _ => ⟨rfl, rfl, rfl, rfl⟩)
theorem P_send {ex} (na p) : Ho (PX ex) (send na p) (fun _ => PX ex) := P_frame (fun _ => ⟨rfl, rfl, rfl, rfl⟩)
theorem P_freshNonce {ex} (c : Cfg) : Ho (PX ex) (freshNonce c) (fun _ => PX ex) := P_frame (fun _ => ⟨rfl, rfl, rfl, rfl⟩)
theorem P_freshCd {ex} (c : Cfg) : Ho (PX ex) (freshCd c) (fun _ => PX ex) := P_frame (fun _ => ⟨rfl, rfl, rfl, rfl⟩)
theorem P_freshEph {ex} (c : Cfg) : Ho (PX ex) (freshEph c) (fun _ => PX ex) := P_frame (fun _ => ⟨rfl, rfl, rfl, rfl⟩)
theorem P_freshRid {ex} (c : Cfg) : Ho (PX ex) (freshRid c) (fun _ => PX ex) := P_frame (fun _ => ⟨rfl, rfl, rfl, rfl⟩)
theorem P_encryptMessage {ex} (c : Cfg) (s m) : Ho (PX ex) (encryptMessage c s m) (fun _ => PX ex) :=
  P_frame (fun _ => ⟨rfl, rfl, rfl, rfl⟩)
theorem P_addExpected {ex} (a) : Ho (PX ex) (addExpected a) (fun _ => PX ex) :=
  P_frame (fun st => by
    show ((addExpected a).run st).2.1.pending = _ ∧ _
    simp only [addExpected, run_modS]
    by_cases h : st.1.exempt.any (·.1 == a) <;> simp [h])
theorem P_removeExpected {ex} (a) : Ho (PX ex) (removeExpected a) (fun _ => PX ex) :=
  P_frame (fun _ => ⟨rfl, rfl, rfl, rfl⟩)

/-! session operations: the key set only shrinks -/
theorem all_ne_of_sublist {l l' : List (NA × Session × Nat)} {k : NA}
    (h : ∀ x ∈ l', ∃ y ∈ l, y.1 = x.1) (ha : l.all (·.1 != k) = true) : l'.all (·.1 != k) = true := by
  rw [List.all_eq_true] at ha ⊢
  intro x hx
  obtain ⟨y, hy, hxy⟩ := h x hx
  rw [← hxy]; exact ha y hy

theorem PX.sess {ex : NA → Prop} {st : St} (h : PX ex st) (ss : List (NA × Session × Nat))
    (hk : ∀ x ∈ ss, ∃ y ∈ st.1.sessions, y.1 = x.1) : PX ex ({ st.1 with sessions := ss }, st.2) := by
  refine h.step rfl (fun k _ hr => ?_)
  refine Rel.mono ?_ ?_ ?_ hr
  · exact id
  · exact all_ne_of_sublist hk
  · exact id

theorem P_sessPut {ex} (na sess) : Ho (PX ex) (sessPut na sess) (fun _ => PX ex) :=
  Ho.modS _ (fun st h => h.sess _ (fun x hx => by
    simp only [List.mem_map] at hx
    obtain ⟨y, hy, rfl⟩ := hx
    refine ⟨y, hy, ?_⟩
    by_cases hyk : y.1 == na
    · simp only [hyk, if_true]; exact (beq_iff_eq.1 hyk)
    · simp only [hyk]; rfl))
theorem P_sessRemove {ex} (na) : Ho (PX ex) (sessRemove na) (fun _ => PX ex) :=
  Ho.modS _ (fun _ h => h.sess _ (fun x hx => ⟨x, (List.mem_filter.1 hx).1, rfl⟩))

def HasSess (na : NA) (st : St) : Prop := st.1.sessions.any (·.1 == na) = true

theorem P_sessGetMut {ex} (c : Cfg) (na) : Ho (PX ex) (sessGetMut c na)
    (fun r st => PX ex st ∧ (r = none → st.1.sessions.all (·.1 != na) = true) ∧ (r ≠ none → HasSess na st)) := by
  refine sessGetMut_elim (fun st hp => ⟨fun hf => ⟨hp, fun _ => ?_, fun h => absurd rfl h⟩, fun k sess stamp hf => ⟨fun _ => ⟨?_, fun _ => ?_, fun h => absurd rfl h⟩, fun _ => ⟨?_, fun h => (nomatch h), fun _ => ?_⟩⟩⟩)
  · rw [List.find?_eq_none] at hf
    rw [List.all_eq_true]; intro x hx
    have := hf x hx
    simpa using this
  · exact hp.sess _ (fun x hx => ⟨x, (List.mem_filter.1 hx).1, rfl⟩)
  · simp [List.all_filter]
  · refine hp.sess _ (fun x hx => ?_)
    simp only [List.mem_append, List.mem_singleton] at hx
    rcases hx with hx | hx
    · exact ⟨x, (List.mem_filter.1 hx).1, rfl⟩
    · subst hx
      have hm := List.mem_of_find?_eq_some hf
      have hk := List.find?_some hf
      exact ⟨_, hm, by simpa using hk⟩
  · simp [HasSess]

theorem popExpired_suffix (ttl rt : Nat) (l : List (NA × Session × Nat)) :
    ∀ x ∈ (popExpired ttl rt l).2, x ∈ l := by
  induction l with
  | nil => intro x hx; simp [popExpired] at hx
  | cons a as ih =>
    obtain ⟨na, sess, stamp⟩ := a
    intro x hx
    unfold popExpired at hx
    by_cases h : stamp + ttl ≥ rt
    · simp only [h, if_true] at hx; exact hx
    · simp only [h, if_false] at hx; exact List.mem_cons_of_mem _ (ih x hx)

theorem P_removeExpiredSessions {ex} (c : Cfg) : Ho (PX ex) (removeExpiredSessions c) (fun _ => PX ex) :=
  removeExpiredSessions_elim (fun st hp e r her => by
    have hs : PX ex ({ st.1 with sessions := r }, st.2) :=
      hp.sess _ (fun x hx => ⟨x, by have := popExpired_suffix c.sessionTtl st.1.rt st.1.sessions x; rw [her] at this; exact this hx, rfl⟩)
    by_cases he : e.isEmpty
    · simp only [he, if_true]; exact hs
    · simp only [he]; exact hs)

theorem P_sessInsert {ex : NA → Prop} (c : Cfg) (na sess) (hx : ex na) :
    Ho (PX ex) (sessInsert c na sess) (fun _ => PX ex) :=
  Ho.modS _ (fun st h => h.step rfl (fun k hk hr => by
    refine Rel.mono ?_ ?_ ?_ hr
    · exact id
    · intro ha
      have hkn : k ≠ na := fun h => hk (h ▸ hx)
      have h1 : (st.1.sessions.filter (·.1 != na) ++ [(na, sess, st.1.rt)]).all (·.1 != k) = true := by
        rw [List.all_append]
        simp only [Bool.and_eq_true]
        refine ⟨all_ne_of_sublist (fun x hx => ⟨x, (List.mem_filter.1 hx).1, rfl⟩) ha, ?_⟩
        simp [Ne.symm hkn]
      show (if _ then _ else _ : List _).all _ = true
      split
      · exact all_ne_of_sublist (fun x hx => ⟨x, List.mem_of_mem_drop hx, rfl⟩) h1
      · exact h1
    · exact id))


def exO (ex : NA → Prop) (na : NA) : NA → Prop := fun k => ex k ∨ k = na

/-- The state with an in-hand call put back (for `Rel` only membership in `active` matters). -/
def addCall (call : Call) (st : St) : St := ({ st.1 with active := call :: st.1.active }, st.2)

def NoPend (na : NA) (st : St) : Prop := ∀ e ∈ st.1.pending, e.1 ≠ na

theorem PX.dropEx {ex : NA → Prop} {na : NA} {st : St} (h : PX (exO ex na) st) (hn : NoPend na st) :
    PX ex st := fun e he hx hne => h e he (fun hh => hh.elim hx (hn e he)) hne

theorem P_activeInsert {ex} (c : Cfg) (call) : Ho (PX ex) (activeInsert c call) (fun _ => PX ex) :=
  Ho.modS _ (fun st h => h.step rfl (fun k _ hr => by
    refine Rel.mono ?_ ?_ ?_ hr
    · exact id
    · exact id
    · intro ha; show (List.any (_ ++ _) _) = true; rw [List.any_append, ha]; rfl))

theorem P_activeInsert_hand {ex} (c : Cfg) (call call' : Call)
    (hc : ∀ k, (call.contact.na == k && call.initiating) = true →
      (call'.contact.na == k && call'.initiating) = true) :
    Ho (fun st => PX ex (addCall call st)) (activeInsert c call') (fun _ => PX ex) :=
  Ho.modS _ (fun st h => PX.step (st := addCall call st) h rfl (fun k _ hr => by
    refine Rel.mono ?_ ?_ ?_ hr
    · exact id
    · exact id
    · intro ha
      show (List.any (_ ++ _) _) = true
      rw [List.any_append]
      simp only [addCall, List.any_cons, Bool.or_eq_true] at ha
      rcases ha with ha | ha
      · simp only [List.any_cons, List.any_nil, Bool.or_false, Bool.or_eq_true]
        exact Or.inr (hc k ha)
      · simp only [Bool.or_eq_true]; exact Or.inl ha))

theorem PX.addCall_of_mem {ex} {st : St} {call : Call} (h : PX ex st) (now : Nat) :
    PX ex (addCall call ({ st.1 with active := st.1.active.erase call, now := now }, st.2)) :=
  h.step rfl (fun k _ hr => by
    refine Rel.mono ?_ ?_ ?_ hr
    · exact id
    · exact id
    · intro ha
      rw [List.any_eq_true] at ha
      obtain ⟨x, hx, hpx⟩ := ha
      show List.any (call :: st.1.active.erase call) _ = true
      rw [List.any_eq_true]
      by_cases hxc : x = call
      · exact ⟨call, List.mem_cons_self .., hxc ▸ hpx⟩
      · exact ⟨x, List.mem_cons_of_mem _ ((List.mem_erase_of_ne hxc).2 hx), hpx⟩)

theorem PX.of_addCall {ex} {st : St} {call : Call} (h : PX ex (addCall call st)) :
    PX (exO ex call.contact.na) st :=
  fun e he hx hne => by
    have hr := h e he (fun hh => hx (Or.inl hh)) hne
    have hk : e.1 ≠ call.contact.na := fun hh => hx (Or.inr hh)
    refine Rel.mono ?_ ?_ ?_ hr
    · exact id
    · exact id
    · intro ha
      simp only [addCall, List.any_cons, Bool.or_eq_true] at ha
      rcases ha with ha | ha
      · simp only [Bool.and_eq_true, beq_iff_eq] at ha; exact absurd ha.1.symm hk
      · exact ha

theorem P_activeRemoveByNonce {ex} (n) : Ho (PX ex) (activeRemoveByNonce n)
    (fun r st => (r = none → PX ex st) ∧ ∀ call, r = some call → PX ex (addCall call st)) :=
  activeRemoveByNonce_elim (fun _ hp => ⟨fun _ => ⟨fun _ => hp, fun _ h => (nomatch h)⟩,
    fun call hf => ⟨fun h => (nomatch h), fun x hx => by
      cases hx; exact hp.addCall_of_mem _⟩⟩)

/-- Removing calls to an address that has a session entry never removes a releaser. -/
theorem P_activeRemoveRequest {ex} (na rid) :
    Ho (fun st => PX ex st ∧ HasSess na st) (activeRemoveRequest na rid)
      (fun _ st => PX ex st ∧ HasSess na st) :=
  activeRemoveRequest_elim (fun st hp => ⟨fun _ => hp, fun call hf => ⟨hp.1.step rfl (fun k _ hr => by
    have hcall := List.find?_some hf
    simp only [callNA, Bool.and_eq_true, beq_iff_eq] at hcall
    rcases hr with hr | ⟨h1, h2⟩
    · exact Or.inl hr
    · refine Or.inr ⟨h1, ?_⟩
      have hkn : k ≠ na := by
        intro hh; subst hh
        have := hp.2
        unfold HasSess at this
        rw [List.any_eq_true] at this
        obtain ⟨x, hx, hxk⟩ := this
        rw [List.all_eq_true] at h1
        have := h1 x hx
        simp_all
      rw [List.any_eq_true] at h2 ⊢
      obtain ⟨x, hx, hpx⟩ := h2
      have hxc : x ≠ call := by
        intro hh; subst hh
        simp only [Bool.and_eq_true, beq_iff_eq] at hpx
        exact hkn (hpx.1 ▸ hcall.1)
      exact ⟨x, (List.mem_erase_of_ne hxc).2 hx, hpx⟩), hp.2⟩⟩)

theorem P_activeRemoveRequests {ex} (na) :
    Ho (PX (exO ex na)) (activeRemoveRequests na) (fun _ => PX (exO ex na)) :=
  ⟨fun st hp => hp.step rfl (fun k hk hr => by
    have hkn : k ≠ na := fun hh => hk (Or.inr hh)
    refine Rel.mono ?_ ?_ ?_ hr
    · exact id
    · exact id
    · intro ha
      rw [List.any_eq_true] at ha
      obtain ⟨x, hx, hpx⟩ := ha
      show List.any (List.filter _ _) _ = true
      rw [List.any_eq_true]
      refine ⟨x, List.mem_filter.2 ⟨hx, ?_⟩, hpx⟩
      simp only [Bool.and_eq_true, beq_iff_eq] at hpx
      simp only [callNA, bne_iff_ne, ne_eq]
      exact fun hh => hkn (hpx.1 ▸ hh))⟩

theorem P_activeRemoveRequests_np {ex} (na) :
    Ho (fun st => PX (exO ex na) st ∧ NoPend na st) (activeRemoveRequests na)
      (fun _ st => PX (exO ex na) st ∧ NoPend na st) :=
  Ho.conj (P_activeRemoveRequests na) ⟨fun _ hp => hp⟩

theorem P_replayUpd {ex} {c : Cfg} (oldNonce : Nat) (p : Pkt) : Ho (PX ex) (modS fun s =>
        let upd : Call → Call := fun call =>
          if call.pkt.nonce == oldNonce then
            { call with pkt := p, deadline := s.now + c.requestTimeout, tseq := s.tctr }
          else call
        { s with active := s.active.map upd, tctr := s.tctr + 1 }) (fun _ => PX ex) :=
  Ho.modS _ (fun st h => h.step rfl (fun k _ hr => by
    refine Rel.mono ?_ ?_ ?_ hr
    · exact id
    · exact id
    · intro ha
      rw [List.any_eq_true] at ha
      obtain ⟨x, hx, hpx⟩ := ha
      show List.any (List.map _ _) _ = true
      rw [List.any_eq_true]
      refine ⟨_, List.mem_map_of_mem hx, ?_⟩
      by_cases hn : (x.pkt.nonce == oldNonce) = true
      · simp only [hn, if_true]; exact hpx
      · simp only [hn]; exact hpx))

/-! challenges -/
theorem P_addChallenge {ex} (f : HState → HState) (na : NA)
    (hf : ∀ s, ∃ x, x.1 = na ∧ f s = { s with challenges := s.challenges ++ [x], tctr := s.tctr + 1 }) :
    Ho (PX (exO ex na)) (modS f) (fun _ => PX ex) :=
  Ho.modS _ (fun st h e he hx hne => by
    obtain ⟨x, hx1, hfs⟩ := hf st.1
    simp only [hfs] at he ⊢
    by_cases hk : e.1 = na
    · refine Or.inl ?_
      show List.any (_ ++ _) _ = true
      rw [List.any_append]; simp [hx1, hk]
    · have := h e he (fun hh => hh.elim hx hk) hne
      refine Rel.mono ?_ ?_ ?_ this
      · intro ha; show List.any (_ ++ _) _ = true; rw [List.any_append, ha]; rfl
      · exact id
      · exact id)

theorem PX.filterChallenges {ex} {st : St} (h : PX ex st) (na : NA) (now : Nat) :
    PX (exO ex na) ({ st.1 with challenges := st.1.challenges.filter (·.1 != na), now := now }, st.2) :=
  (h.weaken (fun _ => Or.inl)).step rfl (fun k hk hr => by
    have hkn : k ≠ na := fun hh => hk (Or.inr hh)
    refine Rel.mono ?_ ?_ ?_ hr
    · intro ha
      rw [List.any_eq_true] at ha
      obtain ⟨x, hx, hpx⟩ := ha
      show List.any (List.filter _ _) _ = true
      rw [List.any_eq_true]
      refine ⟨x, List.mem_filter.2 ⟨hx, ?_⟩, hpx⟩
      simp only [beq_iff_eq] at hpx
      simp only [bne_iff_ne, ne_eq]
      exact fun hh => hkn (hpx ▸ hh)
    · exact id
    · exact id)

/-! pending -/
theorem P_push {ex} (contact : Contact) (rid : Nat) (internal : Bool) (body : Nat) :
    Ho (fun st => PX ex st ∧ (ex contact.na ∨ Rel st.1 contact.na)) (modS fun s =>
      let pr : PendingReq := { contact := contact, rid := rid, internal := internal, body := body }
      if s.pending.any (·.1 == contact.na) then
        { s with pending := s.pending.map (fun e => if e.1 == contact.na then (e.1, e.2 ++ [pr]) else e) }
      else { s with pending := s.pending ++ [(contact.na, [pr])] }) (fun _ => PX ex) :=
  Ho.modS _ (fun st ⟨h, hna⟩ => by
    have key : ∀ pend' : List (NA × List PendingReq),
        (∀ e' ∈ pend', e'.1 = contact.na ∨ e' ∈ st.1.pending) →
        PX ex ({ st.1 with pending := pend' }, st.2) := by
      intro pend' hp e' he' hx hne
      rcases hp e' he' with hk | hm
      · rw [hk] at hx ⊢
        exact hna.elim (fun hh => absurd hh hx) id
      · exact h e' hm hx hne
    dsimp only
    split
    · refine key _ (fun e' he' => ?_)
      simp only [List.mem_map] at he'
      obtain ⟨e, he, rfl⟩ := he'
      by_cases hk : e.1 == contact.na
      · simp only [hk, if_true]; exact Or.inl (beq_iff_eq.1 hk)
      · simp only [hk]; exact Or.inr he
    · refine key _ (fun e' he' => ?_)
      simp only [List.mem_append, List.mem_singleton] at he'
      rcases he' with he' | he'
      · exact Or.inr he'
      · exact Or.inl (by rw [he']))

theorem PX.takePending {ex} {st : St} {na : NA} (h : PX (exO ex na) st) :
    PX ex ({ st.1 with pending := st.1.pending.filter (·.1 != na) }, st.2) ∧
    NoPend na ({ st.1 with pending := st.1.pending.filter (·.1 != na) }, st.2) := by
  constructor
  · intro e he hx hne
    have hm := List.mem_filter.1 he
    have hk : e.1 ≠ na := by simpa using hm.2
    exact h e hm.1 (fun hh => hh.elim hx hk) hne
  · intro e he
    have hm := List.mem_filter.1 he
    simpa using hm.2


theorem P_sessGetMutI {ex} (c : Cfg) (na) : Ho (PX ex) (sessGetMut c na) (fun _ => PX ex) :=
  (P_sessGetMut c na).post (fun _ _ h => h.1)
theorem P_reencryptAll {ex} {c : Cfg} (l s acc) : Ho (PX ex) (reencryptAll c l s acc) (fun _ => PX ex) := by
  induction l generalizing s acc with
  | nil => unfold reencryptAll; exact Ho.pureI _
  | cons x xs ih => unfold reencryptAll; exact Ho.bind (P_encryptMessage ..) (fun _ => ih _ _)

syntax "p_leaf" : tactic
macro_rules | `(tactic| p_leaf) => `(tactic| first
  | with_reducible exact P_emit _ | with_reducible exact P_send _ _ | with_reducible exact P_freshNonce _
  | with_reducible exact P_freshCd _ | with_reducible exact P_freshEph _
  | with_reducible exact P_freshRid _ | with_reducible exact P_addExpected _
  | with_reducible exact P_removeExpected _ | with_reducible exact P_sessPut _ _
  | with_reducible exact P_sessRemove _ | with_reducible exact P_sessGetMutI _ _
  | with_reducible exact P_removeExpiredSessions _
  | with_reducible exact P_encryptMessage _ _ _ | with_reducible exact P_activeInsert _ _
  | with_reducible exact P_reencryptAll _ _ _
  | exact P_replayUpd _ _)
macro_rules | `(tactic| ho_leaf) => `(tactic| p_leaf)

theorem P_isAwaitingSession {ex} (c : Cfg) (na) : Ho (PX ex) (isAwaitingSession c na)
    (fun r st => PX ex st ∧ (r = true → Rel st.1 na)) := by
  unfold isAwaitingSession
  refine Ho.bind (P_sessGetMut c na) (fun r => ?_)
  cases r with
  | some _ => exact Ho.pure _ (fun st hp => ⟨hp.1, fun h => nomatch h⟩)
  | none =>
    refine Ho.getS_bind (fun s0 => Ho.pure _ (fun st hp => ?_))
    obtain ⟨h0, hp, h1, _⟩ := hp
    refine ⟨hp, fun hr => Or.inr ⟨h1 rfl, ?_⟩⟩
    rw [List.any_filter] at hr
    rw [h0]; exact hr

theorem P_sendRequest {ex} (c : Cfg) (ct rid i b) :
    Ho (PX ex) (sendRequest c ct rid i b) (fun _ => PX ex) := by
  unfold sendRequest
  refine Ho.ite (fun _ => Ho.pureI _) (fun _ => Ho.getS_pin (fun s0 => ?_))
  refine Ho.ite (fun hc => Ho.pure_bind ?_) (fun _ => Ho.unpin (Ho.bind (P_isAwaitingSession c ct.na) (fun r => ?_)))
  · refine Ho.ite (fun _ => ?_) (fun h => absurd rfl h)
    refine Ho.bind (Ho.pre (P_push ct rid i b) (fun st hp => ⟨hp.2, Or.inr (Or.inl (hp.1 ▸ hc))⟩)) (fun _ => Ho.pureI _)
  · refine Ho.ite (fun hr => ?_) (fun _ => ?_)
    · exact Ho.bind (Ho.pre (P_push ct rid i b) (fun st hp => ⟨hp.1, Or.inr (hp.2 hr)⟩)) (fun _ => Ho.pureI _)
    · refine Ho.pre ?_ (fun st hp => hp.1)
      ho_walk

macro_rules | `(tactic| p_leaf) => `(tactic| with_reducible exact P_sendRequest _ _ _ _ _)

theorem P_sendPendingRequests {ex} (c : Cfg) (na) :
    Ho (PX (exO ex na)) (sendPendingRequests c na) (fun _ => PX ex) := by
  unfold sendPendingRequests
  refine Ho.getS_bind (fun s0 => Ho.bind (Q := fun _ => PX ex)
    (Ho.setS _ (fun st hp => ?_)) (fun _ => ?_))
  · obtain ⟨h0, hp⟩ := hp
    subst h0
    exact hp.takePending.1
  · ho_walk

/-- invariant of the two failure loops of `failSession` -/
def PN (ex : NA → Prop) (na : NA) (st : St) : Prop := PX (exO ex na) st ∧ NoPend na st

theorem PN_frame {α} {ex : NA → Prop} {na : NA} {m : M α}
    (h : ∀ st, (m.run st).2.1.pending = st.1.pending ∧ (m.run st).2.1.challenges = st.1.challenges ∧
      (m.run st).2.1.sessions = st.1.sessions ∧ (m.run st).2.1.active = st.1.active) :
    Ho (PN ex na) m (fun _ => PN ex na) :=
  ⟨fun st hp => ⟨(P_frame h).out st hp.1, by unfold NoPend; rw [(h st).1]; exact hp.2⟩⟩

theorem PN_emit {ex na} (o) : Ho (PN ex na) (emit o) (fun _ => PN ex na) := PN_frame (fun _ => ⟨rfl, rfl, rfl, rfl⟩)
theorem PN_removeExpected {ex na} (a) : Ho (PN ex na) (removeExpected a) (fun _ => PN ex na) :=
  PN_frame (fun _ => ⟨rfl, rfl, rfl, rfl⟩)

theorem P_failSession {ex} (c : Cfg) (na e b) :
    Ho (PX (exO ex na)) (failSession c na e b) (fun _ => PX ex) := by
  have tail : Ho (PN ex na) (do
        let calls ← activeRemoveRequests na
        forEach calls fun call => do
          if !call.internal then emit (.failed call.rid e)
          removeExpected na.addr) (fun _ => PX ex) := by
    refine Ho.bind (P_activeRemoveRequests_np na) (fun calls => ?_)
    refine Ho.post (Ho.forEachI _ _ (fun call => ?_)) (fun _ st hp => hp.1.dropEx hp.2)
    refine Ho.ite (fun _ => Ho.bind (PN_emit _) (fun _ => PN_removeExpected _)) (fun _ => PN_removeExpected _)
  have mid : Ho (PX (exO ex na)) (do
        let s ← getS
        match s.pending.find? (·.1 == na) with
        | some ent =>
          setS { s with pending := s.pending.filter (·.1 != na) }
          forEach ent.2 fun pr => do
            if !pr.internal then emit (.failed pr.rid e)
        | none => pure ()
        let calls ← activeRemoveRequests na
        forEach calls fun call => do
          if !call.internal then emit (.failed call.rid e)
          removeExpected na.addr) (fun _ => PX ex) := by
    refine Ho.getS_bind (fun s0 => ?_)
    split
    · rename_i ent hf
      refine Ho.bind (Q := fun _ => PN ex na) (Ho.setS _ (fun st hp => ?_)) (fun _ => ?_)
      · obtain ⟨h0, hp⟩ := hp
        subst h0
        exact ⟨(hp.takePending.1).weaken (fun _ => Or.inl), hp.takePending.2⟩
      · refine Ho.bind (Ho.forEachI _ _ (fun pr => ?_)) (fun _ => tail)
        exact Ho.ite (fun _ => PN_emit _) (fun _ => Ho.pureI _)
    · rename_i hf
      refine Ho.pre tail (fun st hp => ?_)
      obtain ⟨h0, hp⟩ := hp
      subst h0
      refine ⟨hp, fun e he hk => ?_⟩
      rw [List.find?_eq_none] at hf
      have := hf e he
      simp [hk] at this
  unfold failSession
  refine Ho.ite (fun _ => ?_) (fun _ => mid)
  exact Ho.bind (P_removeExpiredSessions c) (fun _ => Ho.bind (P_sessRemove na) (fun _ => mid))

theorem P_failRequest {ex} (c : Cfg) (call e b) :
    Ho (PX (exO ex (callNA call))) (failRequest c call e b) (fun _ => PX ex) := by
  unfold failRequest
  exact Ho.ite (fun _ => Ho.bind (P_emit _) (fun _ => P_failSession ..)) (fun _ => P_failSession ..)

theorem P_handleRequestTimeout {ex} (c : Cfg) (call : Call) :
    Ho (fun st => PX ex (addCall call st)) (handleRequestTimeout c call) (fun _ => PX ex) := by
  unfold handleRequestTimeout
  refine Ho.ite (fun _ => ?_) (fun _ => ?_)
  · refine Ho.pre ?_ (fun st hp => hp.of_addCall)
    exact Ho.bind (P_removeExpected _) (fun _ => P_failRequest ..)
  · refine Ho.bind (Q := fun _ st => PX ex (addCall call st)) ⟨fun st hp => hp⟩ (fun _ => ?_)
    exact P_activeInsert_hand c call _ (fun _ h => h)

theorem P_replayActiveRequests {ex} (c : Cfg) (na sk) :
    Ho (PX ex) (replayActiveRequests c na sk) (fun _ => PX ex) := by
  unfold replayActiveRequests; ho_walk

macro_rules | `(tactic| p_leaf) => `(tactic| with_reducible exact P_replayActiveRequests _ _ _)

theorem P_newSession {ex} (c : Cfg) (na sess sk) :
    Ho (PX (exO ex na)) (newSession c na sess sk) (fun _ => PX ex) := by
  unfold newSession
  refine Ho.bind (P_removeExpiredSessions c) (fun _ => Ho.bind (P_sessGetMutI c na) (fun r => ?_))
  cases r with
  | some cur =>
    exact Ho.bind (P_sessPut ..) (fun _ => Ho.bind (P_replayActiveRequests ..) (fun _ => P_sendPendingRequests ..))
  | none =>
    exact Ho.bind (P_sessInsert c na sess (Or.inr rfl)) (fun _ => P_sendPendingRequests ..)

theorem P_sendChallenge {ex} (c : Cfg) (na n k) : Ho (PX ex) (sendChallenge c na n k) (fun _ => PX ex) := by
  unfold sendChallenge
  refine Ho.bindP Ho.getI (fun s => Ho.ite (fun _ => Ho.pureI _) (fun _ => ?_))
  refine Ho.bindP (P_freshCd c) (fun cd => Ho.bindP (P_addExpected _) (fun _ => Ho.bindP (P_send ..) (fun _ => ?_)))
  exact Ho.pre (P_addChallenge _ na (fun s => ⟨_, rfl, rfl⟩)) (fun st hp => hp.weaken (fun _ => Or.inl))

theorem P_handleChallenge {ex} (c : Cfg) (src n cd es) :
    Ho (PX ex) (handleChallenge c src n cd es) (fun _ => PX ex) := by
  unfold handleChallenge
  refine Ho.bind (P_activeRemoveByNonce n) (fun r => ?_)
  cases r with
  | none => exact Ho.pure _ (fun st hp => hp.1 rfl)
  | some call0 =>
    refine Ho.pre (P' := fun st => PX ex (addCall call0 st)) ?_ (fun st hp => hp.2 _ rfl)
    refine Ho.ite (fun _ => ?_) (fun _ => Ho.ite (fun _ => ?_) (fun _ => Ho.ite (fun _ => ?_) (fun _ => ?_)))
    · exact Ho.bind (P_activeInsert_hand c call0 call0 (fun _ h => h)) (fun _ => Ho.pureI _)
    · refine Ho.pre ?_ (fun st hp => hp.of_addCall)
      exact Ho.bind (P_removeExpected _) (fun _ => Ho.bind (P_failRequest ..) (fun _ => Ho.pureI _))
    · refine Ho.pre ?_ (fun st hp => hp.of_addCall)
      exact Ho.bind (P_removeExpected _) (fun _ => Ho.bind (P_failRequest ..) (fun _ => Ho.pureI _))
    · refine Ho.pre (P' := PX (exO ex (callNA call0))) ?_ (fun st hp => hp.of_addCall)
      ho_walk
      all_goals exact P_newSession ..

theorem P_failSessionI {ex} (c : Cfg) (na e b) : Ho (PX ex) (failSession c na e b) (fun _ => PX ex) :=
  Ho.pre (P_failSession c na e b) (fun _ hp => hp.weaken (fun _ => Or.inl))
macro_rules | `(tactic| p_leaf) => `(tactic| with_reducible first
  | exact P_failSessionI _ _ _ _ | exact P_sendChallenge _ _ _ _ | exact P_handleChallenge _ _ _ _ _)

/-- `PX` together with "a session entry for `na` exists" -/
def PH (ex : NA → Prop) (na : NA) (st : St) : Prop := PX ex st ∧ HasSess na st

theorem PH_sessPut {ex} (na sess) : Ho (PH ex na) (sessPut na sess) (fun _ => PH ex na) :=
  Ho.conj (P_sessPut na sess) (Ho.modS _ (fun st h => by
    unfold HasSess at h ⊢
    rw [List.any_eq_true] at h ⊢
    obtain ⟨x, hx, hk⟩ := h
    refine ⟨_, List.mem_map_of_mem hx, ?_⟩
    simp only [hk, if_true, beq_self_eq_true]))

theorem P_handleResponse {ex} (c : Cfg) (na rid rb) :
    Ho (PH ex na) (handleResponse c na rid rb) (fun _ => PX ex) := by
  unfold handleResponse
  refine Ho.bind (P_activeRemoveRequest na rid) (fun r => Ho.pre (P' := PX ex) ?_ (fun _ hp => hp.1))
  ho_walk

theorem P_handleMessage {ex} (c : Cfg) (na n ct) : Ho (PX ex) (handleMessage c na n ct) (fun _ => PX ex) := by
  unfold handleMessage
  refine Ho.bind (P_sessGetMut c na) (fun r => ?_)
  cases r with
  | none => exact Ho.pre (P_emit _) (fun _ hp => hp.1)
  | some sess =>
    refine Ho.pre (P' := PH ex na) ?_ (fun _ hp => ⟨hp.1, hp.2.2 (fun h => nomatch h)⟩)
    dsimp only
    refine Ho.bind (PH_sessPut ..) (fun _ => ?_)
    split
    · refine Ho.pre (P' := PX ex) ?_ (fun _ hp => hp.1)
      ho_walk
    · exact Ho.pure _ (fun _ hp => hp.1)
    · exact Ho.pre (P_emit _) (fun _ hp => hp.1)
    · refine Ho.ite (fun _ => ?_) (fun _ => P_handleResponse ..)
      refine Ho.bind (PH_sessPut ..) (fun _ => Ho.bind (P_activeRemoveRequest na _) (fun r =>
        Ho.pre (P' := PX ex) ?_ (fun _ hp => hp.1)))
      ho_walk
macro_rules | `(tactic| p_leaf) => `(tactic| with_reducible exact P_handleMessage _ _ _ _)

theorem P_handleAuthMessage {ex} (c : Cfg) (na n sig eph r ct) :
    Ho (PX ex) (handleAuthMessage c na n sig eph r ct) (fun _ => PX ex) := by
  unfold handleAuthMessage
  refine Ho.getS_bind (fun s0 => ?_)
  split
  · exact Ho.pure _ (fun _ hp => hp.2)
  · rename_i k ch dl sq hf
    refine Ho.bind (Q := fun _ => PX (exO ex na)) (Ho.setS _ (fun st hp => ?_)) (fun _ => ?_)
    · obtain ⟨h0, hp⟩ := hp
      subst h0
      exact hp.filterChallenges na _
    · split
      · ho_walk
        all_goals exact Ho.bind (P_newSession ..) (fun _ => P_handleMessage ..)
      · exact P_addChallenge _ na (fun s => ⟨_, rfl, rfl⟩)
      · exact Ho.bind (P_removeExpected _) (fun _ => P_failSession ..)

theorem P_fireTimers {ex} (c : Cfg) (target fuel : Nat) :
    Ho (PX ex) (fireTimers c target fuel) (fun _ => PX ex) := by
  induction fuel with
  | zero => unfold fireTimers; exact Ho.pureI _
  | succ n ih =>
    unfold fireTimers
    refine Ho.getS_bind (fun s0 => ?_)
    split
    · exact Ho.pure _ (fun _ hp => hp.2)
    · rename_i d call hnd
      refine Ho.bind (Q := fun _ st => PX ex (addCall call st)) (Ho.setS _ (fun st hp => ?_)) (fun _ => ?_)
      · obtain ⟨h0, hp⟩ := hp
        subst h0
        exact hp.addCall_of_mem _
      · exact Ho.bind (P_handleRequestTimeout c call) (fun _ => ih)
    · rename_i d na hnd
      refine Ho.bind (Q := fun _ => PX (exO ex na)) (Ho.setS _ (fun st hp => ?_)) (fun _ => ?_)
      · obtain ⟨h0, hp⟩ := hp
        subst h0
        exact hp.filterChallenges na _
      · exact Ho.bind (P_removeExpected _) (fun _ => Ho.bind (P_sendPendingRequests ..) (fun _ => ih))

macro_rules | `(tactic| p_leaf) => `(tactic| first
  | with_reducible exact P_handleAuthMessage _ _ _ _ _ _ _ | with_reducible exact P_fireTimers _ _ _
  | exact P_modS _ (fun _ => rfl) (fun _ _ _ h => h))

theorem P_stepM {ex} (c : Cfg) (e : Ev) : Ho (PX ex) (stepM c e) (fun _ => PX ex) := by
  cases e with
  | dgram src p => simp only [stepM]; ho_walk
  | _ => simp only [stepM]; ho_walk

theorem pending_has_releaser' (c : Cfg) (evs : List Ev) : PendingHasReleaser (run c evs) := by
  induction evs using snoc_induction with
  | h0 => intro e he; cases he
  | h1 evs e ih =>
    rw [run_snoc, step_eq, ← PX_iff _ ((stepM c e).run (run c evs, [])).2.2]
    exact (P_stepM c e).out (run c evs, []) ((PX_iff _ _).2 ih)

set_option linter.unusedSimpArgs false
/-! ## Walk A: request accounting -/

/-- (request id, internal?) of a tracked request. -/
abbrev Item := Nat × Bool
def _root_.Discv5.H.Call.item (x : Call) : Item := (x.rid, x.internal)
def _root_.Discv5.H.PendingReq.item (x : PendingReq) : Item := (x.rid, x.internal)
def pitems (p : List (NA × List PendingReq)) : List Item := p.flatMap (fun e => e.2.map PendingReq.item)
/-- Everything tracked by the state. -/
def items (s : HState) : List Item := s.active.map Call.item ++ pitems s.pending

def nfail (rid : Nat) (os : List Out) : Nat := (os.filter (isFailure rid)).length
def nabout (rid : Nat) (os : List Out) : Nat := (os.filter (aboutRid rid)).length
def PKN (s : HState) : Prop := (s.pending.map (·.1)).Nodup
def SBig (sess : Session) : Prop := ∀ r, sess.awaitingEnr = some r → 1000000 ≤ r
def SessBig (s : HState) : Prop := ∀ e ∈ s.sessions, SBig e.2.1

theorem isFailure_about {rid : Nat} {o : Out} (h : isFailure rid o = true) : aboutRid rid o = true := by
  cases o <;> simp_all [isFailure, aboutRid]

theorem nfail_append (rid : Nat) (a b : List Out) : nfail rid (a ++ b) = nfail rid a + nfail rid b := by
  simp [nfail, List.filter_append]
theorem nabout_append (rid : Nat) (a b : List Out) : nabout rid (a ++ b) = nabout rid a + nabout rid b := by
  simp [nabout, List.filter_append]
theorem nfail_single (rid : Nat) (o : Out) : nfail rid [o] = if isFailure rid o then 1 else 0 := by
  by_cases h : isFailure rid o <;> simp [nfail, List.filter, h]
theorem nabout_single (rid : Nat) (o : Out) : nabout rid [o] = if aboutRid rid o then 1 else 0 := by
  by_cases h : aboutRid rid o <;> simp [nabout, List.filter, h]

/-! ### the tracked ids of the specification are the external items -/
theorem count_ext_calls (rid : Nat) (l : List Call) :
    ((l.filter (fun call => !call.internal)).map (·.rid)).count rid = (l.map Call.item).count (rid, false) := by
  induction l with
  | nil => rfl
  | cons x xs ih =>
    cases hi : x.internal
    · by_cases hr : x.rid = rid
      · simp [List.filter_cons, hi, List.count_cons, Call.item, ih, hr]
      · simp [List.filter_cons, hi, List.count_cons, Call.item, ih, hr]
    · simp [List.filter_cons, hi, List.count_cons, Call.item, ih]

theorem count_ext_prs (rid : Nat) (l : List PendingReq) :
    ((l.filter (fun pr => !pr.internal)).map (·.rid)).count rid = (l.map PendingReq.item).count (rid, false) := by
  induction l with
  | nil => rfl
  | cons x xs ih =>
    cases hi : x.internal
    · by_cases hr : x.rid = rid
      · simp [List.filter_cons, hi, List.count_cons, PendingReq.item, ih, hr]
      · simp [List.filter_cons, hi, List.count_cons, PendingReq.item, ih, hr]
    · simp [List.filter_cons, hi, List.count_cons, PendingReq.item, ih]

theorem count_trackedExt (rid : Nat) (s : HState) :
    (trackedExt s).count rid = (items s).count (rid, false) := by
  unfold trackedExt items pitems
  rw [List.count_append, List.count_append, count_ext_calls]
  congr 1
  induction s.pending with
  | nil => rfl
  | cons e es ih => simp only [List.flatMap_cons, List.count_append, ih, count_ext_prs]

/-! ### how the primitives move items -/
theorem items_erase {s : HState} {call : Call} (h : call ∈ s.active) (now : Nat) :
    (call.item :: items { s with active := s.active.erase call, now := now }).Perm (items s) := by
  unfold items
  have := (List.perm_cons_erase h).map Call.item
  simp only [List.map_cons] at this
  exact (List.Perm.append_right _ this).symm

theorem items_removeRequests (s : HState) (p : Call → Bool) :
    ((s.active.filter p).map Call.item ++ items { s with active := s.active.filter (fun c => !p c) }).Perm (items s) := by
  unfold items
  rw [← List.append_assoc, ← List.map_append]
  exact List.Perm.append_right _ ((List.filter_append_perm p s.active).map _)

theorem map_upd_of_not_mem {es : List (NA × List PendingReq)} {na : NA} (pr : PendingReq)
    (h : na ∉ es.map (·.1)) :
    es.map (fun e => if e.1 == na then (e.1, e.2 ++ [pr]) else e) = es := by
  induction es with
  | nil => rfl
  | cons x xs ih =>
    simp only [List.map_cons, List.mem_cons, not_or] at h
    have hx : ¬ (x.1 == na) = true := fun hh => h.1 (beq_iff_eq.1 hh).symm
    simp only [List.map_cons, hx, if_false, ih h.2]
    rfl

theorem pitems_cons (e : NA × List PendingReq) (es : List (NA × List PendingReq)) :
    pitems (e :: es) = e.2.map PendingReq.item ++ pitems es := by
  simp [pitems]

theorem pitems_push_mem {p : List (NA × List PendingReq)} {na : NA} (pr : PendingReq)
    (hn : (p.map (·.1)).Nodup) (hm : na ∈ p.map (·.1)) :
    (pitems (p.map (fun e => if e.1 == na then (e.1, e.2 ++ [pr]) else e))).Perm (pr.item :: pitems p) := by
  induction p with
  | nil => simp at hm
  | cons e es ih =>
    simp only [List.map_cons, List.nodup_cons] at hn
    by_cases hk : (e.1 == na) = true
    · have hk' : e.1 = na := beq_iff_eq.1 hk
      have hrest := map_upd_of_not_mem pr (hk' ▸ hn.1)
      simp only [List.map_cons, hk, if_true, hrest, pitems_cons, List.map_append, List.map_cons, List.map_nil]
      rw [List.append_assoc]
      exact List.perm_middle
    · have hk' : e.1 ≠ na := fun hh => hk (beq_iff_eq.2 hh)
      simp only [List.map_cons, List.mem_cons] at hm
      have hm' : na ∈ es.map (·.1) := hm.resolve_left (fun hh => hk' hh.symm)
      simp only [List.map_cons, hk, if_false, pitems_cons]
      exact ((ih hn.2 hm').append_left _).trans List.perm_middle

theorem pitems_push_new (p : List (NA × List PendingReq)) (na : NA) (pr : PendingReq) :
    (pitems (p ++ [(na, [pr])])).Perm (pr.item :: pitems p) := by
  simp only [pitems, List.flatMap_append, List.flatMap_cons, List.flatMap_nil, List.map_cons, List.map_nil,
    List.append_nil]
  exact List.perm_append_comm

theorem filter_ne_of_not_mem {es : List (NA × List PendingReq)} {na : NA} (h : na ∉ es.map (·.1)) :
    es.filter (·.1 != na) = es := by
  rw [List.filter_eq_self]
  intro a ha
  simp only [bne_iff_ne, ne_eq]
  exact fun hh => h (hh ▸ List.mem_map_of_mem ha)

theorem pitems_take {p : List (NA × List PendingReq)} {na : NA} {ent : NA × List PendingReq}
    (hn : (p.map (·.1)).Nodup) (hf : p.find? (·.1 == na) = some ent) :
    (ent.2.map PendingReq.item ++ pitems (p.filter (·.1 != na))).Perm (pitems p) := by
  induction p with
  | nil => simp at hf
  | cons e es ih =>
    simp only [List.map_cons, List.nodup_cons] at hn
    by_cases hk : (e.1 == na) = true
    · have hk' : e.1 = na := beq_iff_eq.1 hk
      simp only [List.find?_cons, hk, Option.some.injEq] at hf
      subst hf
      have : (e :: es).filter (·.1 != na) = es := by
        simp only [List.filter_cons, bne, hk, Bool.not_true]
        exact filter_ne_of_not_mem (hk' ▸ hn.1)
      rw [this, pitems_cons]
    · simp only [List.find?_cons, hk] at hf
      have : (e :: es).filter (·.1 != na) = e :: es.filter (·.1 != na) := by
        simp [List.filter_cons, bne, hk]
      rw [this, pitems_cons, pitems_cons, ← List.append_assoc]
      refine (List.Perm.append_right _ List.perm_append_comm).trans ?_
      rw [List.append_assoc]
      exact (ih hn.2 hf).append_left _

theorem filter_ne_of_find_none {p : List (NA × List PendingReq)} {na : NA}
    (hf : p.find? (·.1 == na) = none) : p.filter (·.1 != na) = p := by
  rw [List.filter_eq_self]
  intro a ha
  rw [List.find?_eq_none] at hf
  have := hf a ha
  simpa [bne] using this

theorem PKN_filter {s : HState} (h : PKN s) (q : NA × List PendingReq → Bool) :
    PKN { s with pending := s.pending.filter q } :=
  List.Nodup.sublist (List.Sublist.map _ List.filter_sublist) h



/-- The accounting invariant for request id `rid`, with the items `H` currently "in hand"
(removed from the state but not yet re-inserted or reported).  `n1`, `n2`, `z` are ghost values that
turn the relational statement (failures + tracked never grows; tracked + reports never shrinks;
untracked stays silent) into a state predicate. -/
structure Acc (rid n1 n2 : Nat) (z : Prop) (H : List Item) (st : St) : Prop where
  pkn : PKN st.1
  sb : SessBig st.1
  ib : ∀ x ∈ items st.1 ++ H, x.2 = true → 1000000 ≤ x.1
  up : nfail rid st.2 + (items st.1 ++ H).count (rid, false) ≤ n1
  lo : rid < 1000000 → n2 ≤ (items st.1 ++ H).count (rid, false) + nabout rid st.2
  si : z → rid < 1000000 ∧ (items st.1 ++ H).count (rid, false) = 0 ∧ nabout rid st.2 = 0

variable {rid n1 n2 : Nat} {z : Prop}

/-- Master transfer lemma. -/
theorem Acc.change {H H' : List Item} {st st' : St} (h : Acc rid n1 n2 z H st)
    (hpk : PKN st'.1) (hsb : SessBig st'.1)
    (hib : ∀ x ∈ items st'.1 ++ H', x.2 = true → 1000000 ≤ x.1)
    (hup : nfail rid st'.2 + (items st'.1 ++ H').count (rid, false) ≤
      nfail rid st.2 + (items st.1 ++ H).count (rid, false))
    (hlo : rid < 1000000 → (items st.1 ++ H).count (rid, false) + nabout rid st.2 ≤
      (items st'.1 ++ H').count (rid, false) + nabout rid st'.2)
    (hsi : rid < 1000000 → (items st.1 ++ H).count (rid, false) = 0 → nabout rid st.2 = 0 →
      (items st'.1 ++ H').count (rid, false) = 0 ∧ nabout rid st'.2 = 0) :
    Acc rid n1 n2 z H' st' :=
  ⟨hpk, hsb, hib, Nat.le_trans hup h.up, fun hr => Nat.le_trans (h.lo hr) (hlo hr),
    fun hz => ⟨(h.si hz).1, hsi (h.si hz).1 (h.si hz).2.1 (h.si hz).2.2⟩⟩

/-- Items are only moved around (state ↔ hand), outputs untouched. -/
theorem Acc.move {H H' : List Item} {st st' : St} (h : Acc rid n1 n2 z H st)
    (hpk : PKN st'.1) (hsb : SessBig st'.1)
    (hperm : (items st'.1 ++ H').Perm (items st.1 ++ H)) (hout : st'.2 = st.2) :
    Acc rid n1 n2 z H' st' := by
  have hc := hperm.count_eq (rid, false)
  refine h.change hpk hsb (fun x hx => h.ib x (hperm.mem_iff.1 hx)) ?_ ?_ ?_
  · rw [hout, hc]; exact Nat.le_refl _
  · intro _; rw [hout, hc]; exact Nat.le_refl _
  · intro _ h0 h1; rw [hout, hc]; exact ⟨h0, h1⟩

theorem Acc.permH {H H' : List Item} {st : St} (h : Acc rid n1 n2 z H st) (hp : H'.Perm H) :
    Acc rid n1 n2 z H' st :=
  h.move h.pkn h.sb (hp.append_left _) rfl

/-- Same tracked items, session table replaced. -/
theorem Acc.sess {H : List Item} {st : St} (h : Acc rid n1 n2 z H st) (ss : List (NA × Session × Nat))
    (hs : ∀ e ∈ ss, SBig e.2.1) : Acc rid n1 n2 z H ({ st.1 with sessions := ss }, st.2) :=
  h.move h.pkn hs (List.Perm.refl _) rfl

/-- An output that is neither a response nor a failure. -/
theorem Acc.neutral {H : List Item} {st : St} (h : Acc rid n1 n2 z H st) (o : Out)
    (ho : ∀ r, aboutRid r o = false) : Acc rid n1 n2 z H (st.1, st.2 ++ [o]) := by
  have h1 : nfail rid (st.2 ++ [o]) = nfail rid st.2 := by
    rw [nfail_append, nfail_single]
    have : isFailure rid o = false := by
      cases hf : isFailure rid o
      · rfl
      · have := isFailure_about hf; rw [ho] at this; cases this
    simp [this]
  have h2 : nabout rid (st.2 ++ [o]) = nabout rid st.2 := by
    rw [nabout_append, nabout_single, ho]; simp
  refine h.change h.pkn h.sb h.ib ?_ ?_ ?_
  · show nfail rid (st.2 ++ [o]) + _ ≤ _; rw [h1]; exact Nat.le_refl _
  · intro _; show _ ≤ _ + nabout rid (st.2 ++ [o]); rw [h2]; exact Nat.le_refl _
  · intro _ h0 h3; exact ⟨h0, by show nabout rid (st.2 ++ [o]) = 0; rw [h2]; exact h3⟩

theorem count_cons_item (r : Nat) (i : Bool) (l : List Item) (rid : Nat) :
    (l ++ (r, i) :: H).count (rid, false) =
      (l ++ H).count (rid, false) + if r = rid ∧ i = false then 1 else 0 := by
  rw [List.count_append, List.count_cons, List.count_append, Nat.add_assoc]
  congr 2
  by_cases h : r = rid ∧ i = false
  · obtain ⟨h1, h2⟩ := h; subst h1; subst h2; simp
  · have : ((r, i) == (rid, false)) = false := by
      cases hb : ((r, i) == (rid, false))
      · rfl
      · rw [beq_iff_eq] at hb; cases hb; exact absurd ⟨rfl, rfl⟩ h
    simp [this, h]

theorem mem_of_mem_drop_head {r : Nat} {i : Bool} {l H : List Item} {x : Item} (h : x ∈ l ++ H) :
    x ∈ l ++ (r, i) :: H := by
  simp only [List.mem_append, List.mem_cons] at h ⊢
  rcases h with h | h
  · exact Or.inl h
  · exact Or.inr (Or.inr h)

/-- An external in-hand request is reported as failed. -/
theorem Acc.fail {H : List Item} {st : St} {r : Nat} (e : Err)
    (h : Acc rid n1 n2 z ((r, false) :: H) st) : Acc rid n1 n2 z H (st.1, st.2 ++ [.failed r e]) := by
  have hc := count_cons_item (H := H) r false (items st.1) rid
  have h1 : nfail rid (st.2 ++ [.failed r e]) = nfail rid st.2 + if r = rid then 1 else 0 := by
    rw [nfail_append, nfail_single]; simp [isFailure]
  have h2 : nabout rid (st.2 ++ [.failed r e]) = nabout rid st.2 + if r = rid then 1 else 0 := by
    rw [nabout_append, nabout_single]; simp [aboutRid]
  refine h.change h.pkn h.sb (fun x hx => h.ib x (mem_of_mem_drop_head hx)) ?_ ?_ ?_
  · show nfail rid (st.2 ++ [.failed r e]) + _ ≤ _
    rw [h1, hc]; by_cases hr : r = rid <;> simp [hr] <;> omega
  · intro _; show _ ≤ _ + nabout rid (st.2 ++ [.failed r e])
    rw [h2, hc]; by_cases hr : r = rid <;> simp [hr] <;> omega
  · intro _ h0 h3
    show _ ∧ nabout rid (st.2 ++ [.failed r e]) = 0
    rw [h2]; rw [hc] at h0
    by_cases hr : r = rid <;> simp [hr] at h0 ⊢ <;> omega

/-- An in-hand item that cannot be `(rid, false)` is dropped. -/
theorem Acc.drop {H : List Item} {st : St} {r : Nat} {i : Bool}
    (h : Acc rid n1 n2 z ((r, i) :: H) st) (hne : rid < 1000000 → ¬ (r = rid ∧ i = false)) :
    Acc rid n1 n2 z H st := by
  have hc := count_cons_item (H := H) r i (items st.1) rid
  refine h.change h.pkn h.sb (fun x hx => h.ib x (mem_of_mem_drop_head hx)) ?_ ?_ ?_
  · rw [hc]; omega
  · intro hr; rw [hc]; simp [hne hr]
  · intro hr h0 h3; rw [hc] at h0; exact ⟨by omega, h3⟩

theorem Acc.drop_int {H : List Item} {st : St} {r : Nat}
    (h : Acc rid n1 n2 z ((r, true) :: H) st) : Acc rid n1 n2 z H st :=
  h.drop (fun _ hh => nomatch hh.2)

theorem Acc.drop_big {H : List Item} {st : St} {r : Nat} {i : Bool}
    (h : Acc rid n1 n2 z ((r, i) :: H) st) (hb : 1000000 ≤ r) : Acc rid n1 n2 z H st :=
  h.drop (fun hr hh => by omega)

/-- A fresh internal request comes into hand. -/
theorem Acc.add_int {H : List Item} {st : St} {r : Nat}
    (h : Acc rid n1 n2 z H st) (hb : 1000000 ≤ r) : Acc rid n1 n2 z ((r, true) :: H) st := by
  have hc := count_cons_item (H := H) r true (items st.1) rid
  have : ¬ (r = rid ∧ true = false) := fun hh => nomatch hh.2
  simp only [this, if_false, Nat.add_zero] at hc
  refine h.change h.pkn h.sb ?_ ?_ ?_ ?_
  · intro x hx hxi
    simp only [List.mem_append, List.mem_cons] at hx
    rcases hx with hx | hx | hx
    · exact h.ib x (List.mem_append.2 (Or.inl hx)) hxi
    · rw [hx]; exact hb
    · exact h.ib x (List.mem_append.2 (Or.inr hx)) hxi
  · rw [hc]; exact Nat.le_refl _
  · intro _; rw [hc]; exact Nat.le_refl _
  · intro _ h0 h3; rw [hc]; exact ⟨h0, h3⟩

/-- A response is delivered for a request that stays tracked (partial NODES response). -/
theorem Acc.resp_keep {H : List Item} {st : St} {r : Nat} {i : Bool} (na : NA) (rb : RespBody)
    (h : Acc rid n1 n2 z H st) (hm : (r, i) ∈ items st.1 ++ H) :
    Acc rid n1 n2 z H (st.1, st.2 ++ [.response na r rb]) := by
  have h1 : nfail rid (st.2 ++ [.response na r rb]) = nfail rid st.2 := by
    rw [nfail_append, nfail_single]; simp [isFailure]
  have h2 : nabout rid (st.2 ++ [.response na r rb]) = nabout rid st.2 + if r = rid then 1 else 0 := by
    rw [nabout_append, nabout_single]; simp [aboutRid]
  refine h.change h.pkn h.sb h.ib ?_ ?_ ?_
  · show nfail rid (st.2 ++ [.response na r rb]) + _ ≤ _; rw [h1]; exact Nat.le_refl _
  · intro _; dsimp only; rw [h2]; omega
  · intro hr h0 h3
    refine ⟨h0, ?_⟩
    show nabout rid (st.2 ++ [.response na r rb]) = 0
    rw [h2, h3]
    by_cases hrr : r = rid
    · subst hrr
      cases i with
      | false => exact absurd (List.count_pos_iff.2 hm) (by omega)
      | true => have := h.ib _ hm rfl; simp at this; omega
    · simp [hrr]

/-- The final response for an in-hand request. -/
theorem Acc.resp_final {H : List Item} {st : St} {r : Nat} {i : Bool} (na : NA) (rb : RespBody)
    (h : Acc rid n1 n2 z ((r, i) :: H) st) :
    Acc rid n1 n2 z H (st.1, st.2 ++ [.response na r rb]) := by
  have hk := h.resp_keep (r := r) (i := i) na rb (by simp)
  have hc := count_cons_item (H := H) r i (items st.1) rid
  have h2 : nabout rid (st.2 ++ [.response na r rb]) = nabout rid st.2 + if r = rid then 1 else 0 := by
    rw [nabout_append, nabout_single]; simp [aboutRid]
  -- drop the item: the lower bound is paid by the response just emitted
  refine ⟨hk.pkn, hk.sb, fun x hx => hk.ib x (mem_of_mem_drop_head hx), ?_, ?_, ?_⟩
  · have := hk.up; dsimp only at this ⊢; rw [hc] at this; omega
  · intro hr
    have h0 := h.lo hr
    rw [hc] at h0
    dsimp only
    rw [h2]
    by_cases hrr : r = rid
    · subst hrr
      cases i with
      | false => simp at h0 ⊢; omega
      | true => simp at h0 ⊢; omega
    · simp [hrr] at h0 ⊢; omega
  · intro hz
    have := hk.si hz
    dsimp only at this ⊢
    rw [hc] at this
    exact ⟨this.1, by omega, this.2.2⟩


variable {rid n1 n2 : Nat} {z : Prop} {H : List Item}

theorem Acc.frame {st st' : St} (h : Acc rid n1 n2 z H st) (ha : st'.1.active = st.1.active)
    (hp : st'.1.pending = st.1.pending) (hs : st'.1.sessions = st.1.sessions) (ho : st'.2 = st.2) :
    Acc rid n1 n2 z H st' := by
  have hi : items st'.1 = items st.1 := by unfold items; rw [ha, hp]
  exact h.move (by unfold PKN; rw [hp]; exact h.pkn) (by unfold SessBig; rw [hs]; exact h.sb)
    (by rw [hi]) ho

theorem A_frame {α} {m : M α}
    (h : ∀ st, (m.run st).2.1.active = st.1.active ∧ (m.run st).2.1.pending = st.1.pending ∧
      (m.run st).2.1.sessions = st.1.sessions ∧ (m.run st).2.2 = st.2) :
    Ho (Acc rid n1 n2 z H) m (fun _ => Acc rid n1 n2 z H) :=
  ⟨fun st hp => hp.frame (h st).1 (h st).2.1 (h st).2.2.1 (h st).2.2.2⟩

theorem A_emit (o : Out) (ho : ∀ r, aboutRid r o = false) :
    Ho (Acc rid n1 n2 z H) (emit o) (fun _ => Acc rid n1 n2 z H) := ⟨fun _ hp => hp.neutral o ho⟩
theorem A_send (na p) : Ho (Acc rid n1 n2 z H) (send na p) (fun _ => Acc rid n1 n2 z H) :=
  A_emit _ (fun _ => rfl)
theorem A_freshNonce (c : Cfg) : Ho (Acc rid n1 n2 z H) (freshNonce c) (fun _ => Acc rid n1 n2 z H) :=
  A_frame (fun _ => ⟨rfl, rfl, rfl, rfl⟩)
theorem A_freshCd (c : Cfg) : Ho (Acc rid n1 n2 z H) (freshCd c) (fun _ => Acc rid n1 n2 z H) :=
  A_frame (fun _ => ⟨rfl, rfl, rfl, rfl⟩)
theorem A_freshEph (c : Cfg) : Ho (Acc rid n1 n2 z H) (freshEph c) (fun _ => Acc rid n1 n2 z H) :=
  A_frame (fun _ => ⟨rfl, rfl, rfl, rfl⟩)
theorem A_removeExpected (a) : Ho (Acc rid n1 n2 z H) (removeExpected a) (fun _ => Acc rid n1 n2 z H) :=
  A_frame (fun _ => ⟨rfl, rfl, rfl, rfl⟩)
theorem A_addExpected (a) : Ho (Acc rid n1 n2 z H) (addExpected a) (fun _ => Acc rid n1 n2 z H) := by
  unfold addExpected
  refine Ho.modS _ (fun st hp => ?_)
  show Acc rid n1 n2 z H (if _ then _ else _, st.2)
  split <;> exact hp.frame rfl rfl rfl rfl

theorem mkName_big {c : Cfg} (hl : 1 ≤ c.localId) (k : Nat) : 1000000 ≤ mkName c k := by
  unfold mkName
  have hl' : (1 : Nat) ≤ (c.localId : Nat) := hl
  omega

theorem A_freshRid_bind {β} {c : Cfg} (hl : 1 ≤ c.localId) {k : Nat → M β} {Q : β → St → Prop}
    (h : ∀ r, 1000000 ≤ r → Ho (Acc rid n1 n2 z H) (k r) Q) :
    Ho (Acc rid n1 n2 z H) (freshRid c >>= k) Q :=
  ⟨fun st hp => (h _ (mkName_big hl _)).out _ ((A_frame (m := freshRid c) (fun _ => ⟨rfl, rfl, rfl, rfl⟩)).out st hp)⟩

theorem A_encryptMessage_bind {β} {c : Cfg} {sess : Session} {pt : Msg} {k : Session × Pkt → M β}
    {Q : β → St → Prop}
    (h : ∀ r, (SBig sess → SBig r.1) → Ho (Acc rid n1 n2 z H) (k r) Q) :
    Ho (Acc rid n1 n2 z H) (encryptMessage c sess pt >>= k) Q :=
  ⟨fun st hp => (h _ (fun hs => hs)).out _
    ((A_frame (m := encryptMessage c sess pt) (fun _ => ⟨rfl, rfl, rfl, rfl⟩)).out st hp)⟩

/-! sessions -/
theorem A_sessGetMut (c : Cfg) (na) : Ho (Acc rid n1 n2 z H) (sessGetMut c na)
    (fun r st => Acc rid n1 n2 z H st ∧ ∀ sess, r = some sess → SBig sess) := by
  refine sessGetMut_elim (fun st hp => ⟨fun _ => ⟨hp, fun _ h => nomatch h⟩, fun k sess stamp hf =>
    ⟨fun _ => ⟨hp.sess _ (fun e he => hp.sb e (List.mem_filter.1 he).1), fun _ h => nomatch h⟩, fun _ => ?_⟩⟩)
  have hm := List.mem_of_find?_eq_some hf
  have hs : SBig sess := hp.sb _ hm
  refine ⟨hp.sess _ (fun e he => ?_), fun s' h => by cases h; exact hs⟩
  simp only [List.mem_append, List.mem_singleton] at he
  rcases he with he | he
  · exact hp.sb e (List.mem_filter.1 he).1
  · subst he; exact hs

theorem A_sessGetMut_bind {β} {c : Cfg} {na : NA} {k : Option Session → M β} {Q : β → St → Prop}
    (h : ∀ r, (∀ sess, r = some sess → SBig sess) → Ho (Acc rid n1 n2 z H) (k r) Q) :
    Ho (Acc rid n1 n2 z H) (sessGetMut c na >>= k) Q :=
  Ho.bind (A_sessGetMut c na) (fun r => Ho.pre_pure' (h r))

theorem A_sessPut (na sess) (hs : SBig sess) :
    Ho (Acc rid n1 n2 z H) (sessPut na sess) (fun _ => Acc rid n1 n2 z H) :=
  Ho.modS _ (fun st hp => hp.sess _ (fun e he => by
    simp only [List.mem_map] at he
    obtain ⟨y, hy, rfl⟩ := he
    by_cases hk : (y.1 == na) = true
    · simp only [hk, if_true]; exact hs
    · simp only [hk]; exact hp.sb y hy))

theorem A_sessRemove (na) : Ho (Acc rid n1 n2 z H) (sessRemove na) (fun _ => Acc rid n1 n2 z H) :=
  Ho.modS _ (fun _ hp => hp.sess _ (fun e he => hp.sb e (List.mem_filter.1 he).1))

theorem A_sessInsert (c : Cfg) (na sess) (hs : SBig sess) :
    Ho (Acc rid n1 n2 z H) (sessInsert c na sess) (fun _ => Acc rid n1 n2 z H) :=
  Ho.modS _ (fun st hp => hp.sess _ (fun e he => by
    have key : ∀ e ∈ st.1.sessions.filter (·.1 != na) ++ [(na, sess, st.1.rt)], SBig e.2.1 := by
      intro e he
      simp only [List.mem_append, List.mem_singleton] at he
      rcases he with he | he
      · exact hp.sb e (List.mem_filter.1 he).1
      · subst he; exact hs
    split at he
    · exact key e (List.mem_of_mem_drop he)
    · exact key e he))

theorem A_removeExpiredSessions (c : Cfg) :
    Ho (Acc rid n1 n2 z H) (removeExpiredSessions c) (fun _ => Acc rid n1 n2 z H) :=
  removeExpiredSessions_elim (fun st hp e r her => by
    have hs : Acc rid n1 n2 z H ({ st.1 with sessions := r }, st.2) :=
      hp.sess _ (fun x hx => hp.sb x (by
        have := popExpired_suffix c.sessionTtl st.1.rt st.1.sessions x; rw [her] at this; exact this hx))
    by_cases he : e.isEmpty
    · simp only [he, if_true]; exact hs
    · simp only [he]; exact hs.neutral _ (fun _ => rfl))

/-! active requests -/
theorem A_activeInsert (c : Cfg) (call : Call) (x : Item) (hx : call.item = x) :
    Ho (Acc rid n1 n2 z (x :: H)) (activeInsert c call) (fun _ => Acc rid n1 n2 z H) :=
  Ho.modS _ (fun st hp => hp.move hp.pkn hp.sb (by
    subst hx
    show (items { st.1 with active := st.1.active ++ [_], tctr := _ } ++ H).Perm _
    unfold items
    simp only [List.map_append, List.map_cons, List.map_nil, List.append_assoc]
    refine List.Perm.append_left _ ?_
    exact (List.perm_middle (a := call.item) (l₁ := pitems st.1.pending) (l₂ := H)).symm) rfl)

theorem perm_hand {x : Item} {I I' H : List Item} (h : (x :: I').Perm I) :
    (I' ++ x :: H).Perm (I ++ H) :=
  List.perm_middle.trans (List.Perm.append_right H h)

theorem A_activeRemoveByNonce (n) : Ho (Acc rid n1 n2 z H) (activeRemoveByNonce n)
    (fun r st => (r = none → Acc rid n1 n2 z H st) ∧
      ∀ call, r = some call → Acc rid n1 n2 z (call.item :: H) st) :=
  activeRemoveByNonce_elim (fun st hp => ⟨fun _ => ⟨fun _ => hp, fun _ h => nomatch h⟩,
    fun call hf => ⟨fun h => (nomatch h), fun x hx => by
      cases hx
      exact hp.move hp.pkn hp.sb (perm_hand (items_erase (List.mem_of_find?_eq_some hf) _)) rfl⟩⟩)

theorem A_activeRemoveRequest (na rid') : Ho (Acc rid n1 n2 z H) (activeRemoveRequest na rid')
    (fun r st => (r = none → Acc rid n1 n2 z H st) ∧
      ∀ call, r = some call → Acc rid n1 n2 z (call.item :: H) st ∧ call.rid = rid') :=
  activeRemoveRequest_elim (fun st hp => ⟨fun _ => ⟨fun _ => hp, fun _ h => nomatch h⟩,
    fun call hf => ⟨fun h => (nomatch h), fun x hx => by
      cases hx
      have hc := List.find?_some hf
      simp only [Bool.and_eq_true, beq_iff_eq] at hc
      exact ⟨hp.move hp.pkn hp.sb (perm_hand (items_erase (List.mem_of_find?_eq_some hf) _)) rfl, hc.2⟩⟩⟩)

theorem A_activeRemoveRequests (na) : Ho (Acc rid n1 n2 z H) (activeRemoveRequests na)
    (fun calls => Acc rid n1 n2 z (calls.map Call.item ++ H)) :=
  ⟨fun st hp => hp.move hp.pkn hp.sb (by
    rw [activeRemoveRequests_run]
    have := items_removeRequests st.1 (fun call => callNA call == na)
    show (items { st.1 with active := st.1.active.filter (fun call => callNA call != na) } ++ (_ ++ H)).Perm _
    rw [← List.append_assoc]
    exact List.Perm.append_right H (List.perm_append_comm.trans this)) rfl⟩

theorem A_replayUpd {c : Cfg} (oldNonce : Nat) (p : Pkt) : Ho (Acc rid n1 n2 z H) (modS fun s =>
        let upd : Call → Call := fun call =>
          if call.pkt.nonce == oldNonce then
            { call with pkt := p, deadline := s.now + c.requestTimeout, tseq := s.tctr }
          else call
        { s with active := s.active.map upd, tctr := s.tctr + 1 }) (fun _ => Acc rid n1 n2 z H) :=
  Ho.modS _ (fun st hp => hp.move hp.pkn hp.sb (by
    have : ∀ l : List Call, (l.map (fun call => if call.pkt.nonce == oldNonce then
        { call with pkt := p, deadline := st.1.now + c.requestTimeout, tseq := st.1.tctr } else call)).map
        Call.item = l.map Call.item := by
      intro l
      rw [List.map_map]
      refine List.map_congr_left (fun x _ => ?_)
      simp only [Function.comp]
      split <;> rfl
    show (items { st.1 with active := _, tctr := _ } ++ H).Perm _
    unfold items
    dsimp only
    rw [this]) rfl)

/-! pending queue -/
theorem A_push (contact : Contact) (r : Nat) (i : Bool) (body : Nat) :
    Ho (Acc rid n1 n2 z ((r, i) :: H)) (modS fun s =>
      let pr : PendingReq := { contact := contact, rid := r, internal := i, body := body }
      if s.pending.any (·.1 == contact.na) then
        { s with pending := s.pending.map (fun e => if e.1 == contact.na then (e.1, e.2 ++ [pr]) else e) }
      else { s with pending := s.pending ++ [(contact.na, [pr])] }) (fun _ => Acc rid n1 n2 z H) :=
  Ho.modS _ (fun st hp => by
    have key : ∀ pend' : List (NA × List PendingReq), (pend'.map (·.1)).Nodup →
        (pitems pend').Perm ((r, i) :: pitems st.1.pending) →
        Acc rid n1 n2 z H ({ st.1 with pending := pend' }, st.2) := by
      intro pend' hn hperm
      refine hp.move hn hp.sb ?_ rfl
      show (items { st.1 with pending := pend' } ++ H).Perm _
      unfold items
      dsimp only
      rw [List.append_assoc, List.append_assoc]
      refine List.Perm.append_left _ ?_
      exact (List.Perm.append_right H hperm).trans List.perm_middle.symm
    dsimp only
    split
    · rename_i hany
      refine key _ ?_ ?_
      · have : (st.1.pending.map (fun e => if e.1 == contact.na then
            (e.1, e.2 ++ [({ contact := contact, rid := r, internal := i, body := body } : PendingReq)]) else e)).map (·.1)
            = st.1.pending.map (·.1) := by
          rw [List.map_map]
          refine List.map_congr_left (fun x _ => ?_)
          simp only [Function.comp]
          split <;> rfl
        rw [this]; exact hp.pkn
      · refine pitems_push_mem _ hp.pkn ?_
        rw [List.any_eq_true] at hany
        obtain ⟨x, hx, hk⟩ := hany
        exact (beq_iff_eq.1 hk) ▸ List.mem_map_of_mem hx
    · rename_i hany
      refine key _ ?_ (pitems_push_new _ _ _)
      rw [List.map_append, List.nodup_append]
      refine ⟨hp.pkn, by simp, ?_⟩
      intro a ha b hb hab
      simp only [List.map_cons, List.map_nil, List.mem_singleton] at hb
      subst hb; subst hab
      apply hany
      rw [List.any_eq_true]
      simp only [List.mem_map] at ha
      obtain ⟨x, hx, hk⟩ := ha
      exact ⟨x, hx, beq_iff_eq.2 hk⟩)

/-- taking the whole queue of an address into hand -/
theorem Acc.take {st : St} {na : NA} {ent : NA × List PendingReq} (h : Acc rid n1 n2 z H st)
    (hf : st.1.pending.find? (·.1 == na) = some ent) :
    Acc rid n1 n2 z (ent.2.map PendingReq.item ++ H)
      ({ st.1 with pending := st.1.pending.filter (·.1 != na) }, st.2) :=
  h.move (PKN_filter h.pkn _) h.sb (by
    show (items { st.1 with pending := _ } ++ _).Perm _
    unfold items
    dsimp only
    rw [List.append_assoc, List.append_assoc]
    refine List.Perm.append_left _ ?_
    rw [← List.append_assoc]
    exact List.Perm.append_right H (List.perm_append_comm.trans (pitems_take h.pkn hf))) rfl

theorem Acc.take_none {st : St} {na : NA} (h : Acc rid n1 n2 z H st)
    (hf : st.1.pending.find? (·.1 == na) = none) :
    Acc rid n1 n2 z H ({ st.1 with pending := st.1.pending.filter (·.1 != na) }, st.2) := by
  rw [filter_ne_of_find_none hf]; exact h


syntax "a_leaf" : tactic
syntax "a_bindleaf" : tactic
macro_rules | `(tactic| a_leaf) => `(tactic| first
  | with_reducible exact A_send _ _ | with_reducible exact A_freshNonce _ | with_reducible exact A_freshCd _
  | with_reducible exact A_freshEph _ | with_reducible exact A_removeExpected _
  | with_reducible exact A_addExpected _ | with_reducible exact A_sessRemove _
  | with_reducible exact A_removeExpiredSessions _
  | ((with_reducible apply A_emit); intro _; rfl)
  | with_reducible apply A_sessPut
  | with_reducible apply A_sessInsert
  | (apply A_activeInsert; rfl)
  | exact A_replayUpd _ _)
macro_rules | `(tactic| a_bindleaf) => `(tactic| first
  | ((with_reducible apply A_sessGetMut_bind); intro _ _)
  | ((with_reducible apply A_encryptMessage_bind); intro _ _))
macro_rules | `(tactic| ho_leaf) => `(tactic| a_leaf)
macro_rules | `(tactic| ho_bindleaf) => `(tactic| a_bindleaf)

/-- closes the `SBig` side goals left by the session leaves -/
macro "a_side" : tactic => `(tactic| first
  | assumption
  | exact ‹∀ sess, some _ = some sess → SBig sess› _ rfl
  | (apply ‹SBig _ → SBig _›; exact ‹∀ sess, some _ = some sess → SBig sess› _ rfl)
  | (intro _ h; exact nomatch h))

theorem A_isAwaitingSession (c : Cfg) (na) :
    Ho (Acc rid n1 n2 z H) (isAwaitingSession c na) (fun _ => Acc rid n1 n2 z H) := by
  unfold isAwaitingSession; ho_walk

theorem A_sendRequest (c : Cfg) (ct : Contact) (r : Nat) (i : Bool) (b : Nat) :
    Ho (Acc rid n1 n2 z ((r, i) :: H)) (sendRequest c ct r i b)
      (fun o st => (o = none → Acc rid n1 n2 z H st) ∧
        (∀ e, o = some e → Acc rid n1 n2 z ((r, i) :: H) st)) := by
  unfold sendRequest
  refine Ho.ite (fun _ => Ho.pure _ (fun st hp => ⟨fun h => (nomatch h), fun _ _ => hp⟩)) (fun _ => ?_)
  refine Ho.bindP Ho.getI (fun s0 => ?_)
  have hq : Ho (Acc rid n1 n2 z ((r, i) :: H)) (do
      modS fun s =>
        let pr : PendingReq := { contact := ct, rid := r, internal := i, body := b }
        if s.pending.any (·.1 == ct.na) then
          { s with pending := s.pending.map (fun e => if e.1 == ct.na then (e.1, e.2 ++ [pr]) else e) }
        else { s with pending := s.pending ++ [(ct.na, [pr])] }
      return (none : Option Err)) (fun o st => (o = none → Acc rid n1 n2 z H st) ∧
        (∀ e, o = some e → Acc rid n1 n2 z ((r, i) :: H) st)) :=
    Ho.bind (A_push ct r i b) (fun _ => Ho.pure _ (fun st hp => ⟨fun _ => hp, fun _ h => nomatch h⟩))
  refine Ho.ite (fun hc => Ho.pure_bind ?_) (fun _ => Ho.bind (A_isAwaitingSession c ct.na) (fun aw => ?_))
  · exact Ho.ite (fun _ => hq) (fun h => absurd rfl h)
  · refine Ho.ite (fun _ => hq) (fun _ => ?_)
    ho_walk
    all_goals first
      | exact ⟨fun _ => by assumption, fun _ h => nomatch h⟩
      | a_side

theorem A_failItem (r : Nat) (i : Bool) (e : Err) :
    Ho (Acc rid n1 n2 z ((r, i) :: H)) (if (!i) = true then emit (.failed r e) else pure ())
      (fun _ => Acc rid n1 n2 z H) := by
  cases i with
  | false => exact Ho.ite (fun _ => ⟨fun _ hp => hp.fail e⟩) (fun h => absurd rfl h)
  | true => exact Ho.ite (fun h => nomatch h) (fun _ => Ho.pure _ (fun _ hp => hp.drop_int))

theorem A_sendPendingRequests (c : Cfg) (na) :
    Ho (Acc rid n1 n2 z H) (sendPendingRequests c na) (fun _ => Acc rid n1 n2 z H) := by
  unfold sendPendingRequests
  refine Ho.getS_bind (fun s0 => ?_)
  have loop : ∀ prs : List PendingReq, Ho (Acc rid n1 n2 z (prs.map PendingReq.item ++ H))
      (forEach prs fun pr => do
        match ← sendRequest c pr.contact pr.rid pr.internal pr.body with
        | some e => if !pr.internal then emit (.failed pr.rid e)
        | none => pure ()) (fun _ => Acc rid n1 n2 z H) := by
    intro prs
    refine Ho.forEach (fun rest => Acc rid n1 n2 z (rest.map PendingReq.item ++ H)) prs _ (fun pr rest => ?_)
    refine Ho.bind (A_sendRequest c pr.contact pr.rid pr.internal pr.body) (fun o => ?_)
    cases o with
    | none => exact Ho.pure _ (fun _ hp => hp.1 rfl)
    | some e => exact Ho.pre (A_failItem pr.rid pr.internal e) (fun _ hp => hp.2 e rfl)
  cases hf : s0.pending.find? (·.1 == na) with
  | none =>
    refine Ho.bind (Q := fun _ => Acc rid n1 n2 z H) (Ho.setS _ (fun st hp => ?_)) (fun _ => loop [])
    obtain ⟨h0, hp⟩ := hp
    subst h0
    exact hp.take_none hf
  | some ent =>
    refine Ho.bind (Q := fun _ => Acc rid n1 n2 z (ent.2.map PendingReq.item ++ H))
      (Ho.setS _ (fun st hp => ?_)) (fun _ => loop ent.2)
    obtain ⟨h0, hp⟩ := hp
    subst h0
    exact hp.take hf

/-- `if !i then emit (failed r e); m` consumes the in-hand item `(r, i)`. -/
theorem A_failThen {α} (r : Nat) (i : Bool) (e : Err) (m : M α) (Q : α → St → Prop)
    (hm : Ho (Acc rid n1 n2 z H) m Q) :
    Ho (Acc rid n1 n2 z ((r, i) :: H)) (do
      if (!i) = true then emit (.failed r e)
      m) Q := by
  cases i with
  | false =>
    exact Ho.ite (fun _ => Ho.bind (Q := fun _ => Acc rid n1 n2 z H) ⟨fun _ hp => hp.fail e⟩ (fun _ => hm))
      (fun h => absurd rfl h)
  | true => exact Ho.ite (fun h => nomatch h) (fun _ => Ho.pre hm (fun _ hp => hp.drop_int))

theorem A_modS (f : HState → HState)
    (h : ∀ s, (f s).active = s.active ∧ (f s).pending = s.pending ∧ (f s).sessions = s.sessions) :
    Ho (Acc rid n1 n2 z H) (modS f) (fun _ => Acc rid n1 n2 z H) :=
  Ho.modS _ (fun st hp => hp.frame (h st.1).1 (h st.1).2.1 (h st.1).2.2 rfl)

theorem A_setS_pinned {s0 : HState} (s' : HState)
    (h : s'.active = s0.active ∧ s'.pending = s0.pending ∧ s'.sessions = s0.sessions) :
    Ho (Pin s0 (Acc rid n1 n2 z H)) (setS s') (fun _ => Acc rid n1 n2 z H) :=
  Ho.setS _ (fun st hp => by
    obtain ⟨h0, hp⟩ := hp
    subst h0
    exact hp.frame h.1 h.2.1 h.2.2 rfl)

theorem A_failSession (c : Cfg) (na e b) :
    Ho (Acc rid n1 n2 z H) (failSession c na e b) (fun _ => Acc rid n1 n2 z H) := by
  have tail : Ho (Acc rid n1 n2 z H) (do
        let calls ← activeRemoveRequests na
        forEach calls fun call => do
          if !call.internal then emit (.failed call.rid e)
          removeExpected na.addr) (fun _ => Acc rid n1 n2 z H) := by
    refine Ho.bind (A_activeRemoveRequests na) (fun calls => ?_)
    refine Ho.forEach (fun rest => Acc rid n1 n2 z (rest.map Call.item ++ H)) calls _ (fun call rest => ?_)
    exact A_failThen call.rid call.internal e _ _ (A_removeExpected _)
  have mid : Ho (Acc rid n1 n2 z H) (do
        let s ← getS
        match s.pending.find? (·.1 == na) with
        | some ent =>
          setS { s with pending := s.pending.filter (·.1 != na) }
          forEach ent.2 fun pr => do
            if !pr.internal then emit (.failed pr.rid e)
        | none => pure ()
        let calls ← activeRemoveRequests na
        forEach calls fun call => do
          if !call.internal then emit (.failed call.rid e)
          removeExpected na.addr) (fun _ => Acc rid n1 n2 z H) := by
    refine Ho.getS_bind (fun s0 => ?_)
    split
    · rename_i ent hf
      refine Ho.bind (Q := fun _ => Acc rid n1 n2 z (ent.2.map PendingReq.item ++ H))
        (Ho.setS _ (fun st hp => ?_)) (fun _ => ?_)
      · obtain ⟨h0, hp⟩ := hp
        subst h0
        exact hp.take hf
      · refine Ho.bind (Ho.forEach (fun rest => Acc rid n1 n2 z (rest.map PendingReq.item ++ H)) ent.2 _
          (fun pr rest => ?_)) (fun _ => tail)
        exact A_failItem pr.rid pr.internal e
    · exact Ho.pre tail (fun _ hp => hp.2)
  unfold failSession
  refine Ho.ite (fun _ => ?_) (fun _ => mid)
  exact Ho.bind (A_removeExpiredSessions c) (fun _ => Ho.bind (A_sessRemove na) (fun _ => mid))

theorem A_failRequest (c : Cfg) (call : Call) (e b) :
    Ho (Acc rid n1 n2 z (call.item :: H)) (failRequest c call e b) (fun _ => Acc rid n1 n2 z H) := by
  unfold failRequest
  exact A_failThen call.rid call.internal e _ _ (A_failSession ..)

theorem A_handleRequestTimeout (c : Cfg) (call : Call) :
    Ho (Acc rid n1 n2 z (call.item :: H)) (handleRequestTimeout c call) (fun _ => Acc rid n1 n2 z H) := by
  unfold handleRequestTimeout
  refine Ho.ite (fun _ => Ho.bind (A_removeExpected _) (fun _ => A_failRequest ..)) (fun _ => ?_)
  exact Ho.bind (A_send ..) (fun _ => A_activeInsert c _ _ rfl)

theorem A_reencryptAll (c : Cfg) (l : List Call) (sess : Session) (acc) :
    Ho (Acc rid n1 n2 z H) (reencryptAll c l sess acc)
      (fun r st => Acc rid n1 n2 z H st ∧ (SBig sess → SBig r.1)) := by
  induction l generalizing sess acc with
  | nil => unfold reencryptAll; exact Ho.pure _ (fun _ hp => ⟨hp, id⟩)
  | cons x xs ih =>
    unfold reencryptAll
    refine A_encryptMessage_bind (fun r hr => ?_)
    exact (ih r.1 _).post (fun _ _ h => ⟨h.1, fun hs => h.2 (hr hs)⟩)

theorem A_reencryptAll_bind {β} {c : Cfg} {l : List Call} {sess : Session} {acc}
    {k : Session × List (Nat × Pkt) → M β} {Q : β → St → Prop}
    (h : ∀ r, (SBig sess → SBig r.1) → Ho (Acc rid n1 n2 z H) (k r) Q) :
    Ho (Acc rid n1 n2 z H) (reencryptAll c l sess acc >>= k) Q :=
  Ho.bind (A_reencryptAll c l sess acc) (fun r => Ho.pre_pure' (h r))

macro_rules | `(tactic| a_bindleaf) => `(tactic| ((with_reducible apply A_reencryptAll_bind); intro _ _))
macro_rules | `(tactic| a_leaf) => `(tactic| first
  | with_reducible exact A_failSession _ _ _ _ | with_reducible exact A_sendPendingRequests _ _
  | with_reducible exact A_isAwaitingSession _ _
  | exact A_modS _ (fun _ => ⟨rfl, rfl, rfl⟩)
  | exact A_setS_pinned _ ⟨rfl, rfl, rfl⟩)

theorem A_replayActiveRequests (c : Cfg) (na sk) :
    Ho (Acc rid n1 n2 z H) (replayActiveRequests c na sk) (fun _ => Acc rid n1 n2 z H) := by
  unfold replayActiveRequests; ho_walk
  all_goals a_side
macro_rules | `(tactic| a_leaf) => `(tactic| with_reducible exact A_replayActiveRequests _ _ _)

theorem A_newSession (c : Cfg) (na sess sk) (hs : SBig sess) :
    Ho (Acc rid n1 n2 z H) (newSession c na sess sk) (fun _ => Acc rid n1 n2 z H) := by
  unfold newSession; ho_walk
  all_goals exact hs

theorem A_sendChallenge (c : Cfg) (na n k) :
    Ho (Acc rid n1 n2 z H) (sendChallenge c na n k) (fun _ => Acc rid n1 n2 z H) := by
  unfold sendChallenge; ho_walk

macro_rules | `(tactic| a_leaf) => `(tactic| first
  | with_reducible exact A_sendChallenge _ _ _ _
  | with_reducible apply A_newSession)

theorem A_handleChallenge (c : Cfg) (hl : 1 ≤ c.localId) (src n cd es) :
    Ho (Acc rid n1 n2 z H) (handleChallenge c src n cd es) (fun _ => Acc rid n1 n2 z H) := by
  unfold handleChallenge
  refine Ho.bind (A_activeRemoveByNonce n) (fun r => ?_)
  cases r with
  | none => exact Ho.pure _ (fun _ hp => hp.1 rfl)
  | some call0 =>
    refine Ho.pre (P' := Acc rid n1 n2 z (call0.item :: H)) ?_ (fun _ hp => hp.2 _ rfl)
    refine Ho.ite (fun _ => ?_) (fun _ => Ho.ite (fun _ => ?_) (fun _ => Ho.ite (fun _ => ?_) (fun _ => ?_)))
    · exact Ho.bind (A_activeInsert c call0 _ rfl) (fun _ => Ho.pureI _)
    · exact Ho.bind (A_removeExpected _) (fun _ => Ho.bind (A_failRequest ..) (fun _ => Ho.pureI _))
    · exact Ho.bind (A_removeExpected _) (fun _ => Ho.bind (A_failRequest ..) (fun _ => Ho.pureI _))
    · refine Ho.bind (A_freshEph c) (fun eph => Ho.bind (A_freshNonce c) (fun hsNonce => ?_))
      split <;> split
      all_goals first
        | (refine Ho.bind (A_activeInsert c _ _ rfl) (fun _ => Ho.bind (A_send ..) (fun _ => ?_))
           refine A_freshRid_bind hl (fun rid' hbig => ?_)
           refine Ho.bind (Q := fun _ => Acc rid n1 n2 z H)
             (Ho.conseq (A_sendRequest c call0.contact rid' true c.findnode0)
               (fun _ hp => hp.add_int hbig) (fun o st hp => ?_)) (fun _ => ?_)
           · cases o with
             | none => exact hp.1 rfl
             | some e => exact (hp.2 e rfl).drop_int
           · refine A_newSession _ _ _ _ ?_
             intro r h; cases h; exact hbig)
        | (refine Ho.bind (A_activeInsert c _ _ rfl) (fun _ => ?_)
           ho_walk
           intro r h; exact nomatch h)

theorem A_activeInsert' (c : Cfg) (call : Call) (x : Item) (hx : call.item = x) :
    Ho (Acc rid n1 n2 z (x :: H)) (activeInsert c call)
      (fun _ st => Acc rid n1 n2 z H st ∧ x ∈ items st.1) :=
  Ho.conj (A_activeInsert c call x hx) (P' := fun _ => True) ⟨fun st _ => by
    subst hx
    show call.item ∈ items { st.1 with active := st.1.active ++ [_], tctr := _ }
    unfold items
    simp [Call.item]⟩ |>.pre (fun _ hp => ⟨hp, trivial⟩)

theorem A_resp_keep (na : NA) (r : Nat) (i : Bool) (rb : RespBody) :
    Ho (fun st => Acc rid n1 n2 z H st ∧ (r, i) ∈ items st.1) (emit (.response na r rb))
      (fun _ => Acc rid n1 n2 z H) :=
  ⟨fun _ hp => hp.1.resp_keep na rb (List.mem_append.2 (Or.inl hp.2))⟩

theorem A_resp_final (na : NA) (r : Nat) (i : Bool) (rb : RespBody) :
    Ho (Acc rid n1 n2 z ((r, i) :: H)) (emit (.response na r rb)) (fun _ => Acc rid n1 n2 z H) :=
  ⟨fun _ hp => hp.resp_final na rb⟩

theorem A_handleResponse (c : Cfg) (na rid' rb) :
    Ho (Acc rid n1 n2 z H) (handleResponse c na rid' rb) (fun _ => Acc rid n1 n2 z H) := by
  unfold handleResponse
  refine Ho.bind (A_activeRemoveRequest na rid') (fun r => ?_)
  cases r with
  | none => exact Ho.pure _ (fun _ hp => hp.1 rfl)
  | some call =>
    refine Ho.pre (P' := fun st => Acc rid n1 n2 z ((rid', call.internal) :: H) st ∧ call.rid = rid') ?_
      (fun _ hp => by have := hp.2 _ rfl; exact ⟨this.2 ▸ this.1, this.2⟩)
    refine Ho.pre_pure' (fun hrid => ?_)
    have keep : ∀ call' : Call, call'.item = (rid', call.internal) →
        Ho (Acc rid n1 n2 z ((rid', call.internal) :: H)) (do
          activeInsert c call'
          emit (.response na rid' rb)
          pure ()) (fun _ => Acc rid n1 n2 z H) := fun call' h =>
      Ho.bind (A_activeInsert' c call' _ h) (fun _ => Ho.bind (A_resp_keep na rid' call.internal rb)
        (fun _ => Ho.pureI _))
    have fin : Ho (Acc rid n1 n2 z ((rid', call.internal) :: H)) (do
          removeExpected na.addr
          emit (.response na rid' rb)) (fun _ => Acc rid n1 n2 z H) :=
      Ho.bind (A_removeExpected _) (fun _ => A_resp_final na rid' call.internal rb)
    have hitem : ∀ rem, ({ call with remaining := rem } : Call).item = (rid', call.internal) := by
      intro rem; show (call.rid, call.internal) = _; rw [hrid]
    cases rb with
    | other code => exact fin
    | nodes total recs =>
      dsimp only
      refine Ho.ite (fun _ => ?_) (fun _ => fin)
      split
      · exact Ho.ite (fun _ => keep _ (hitem _)) (fun _ => fin)
      · exact keep _ (hitem _)

theorem decryptMessage_awaiting (sess : Session) (n : Nat) (ct : Ct) :
    (decryptMessage sess n ct).1.awaitingEnr = sess.awaitingEnr := by
  unfold decryptMessage
  dsimp only
  split
  · rfl
  · split
    · split <;> rfl
    · rfl

theorem establish_sbig {c : Cfg} {id : Id} {ch : Challenge} {sig : Sig} {eph : Nat} {record : Option Rec}
    {sess : Session} {r : Rec}
    (h : establishFromChallenge c id ch sig eph record = some (some (sess, r))) : SBig sess := by
  unfold establishFromChallenge at h
  dsimp only at h
  split at h
  · cases h
  · split at h
    · cases h
    · split at h
      · cases h
      · cases h; intro r hr; exact nomatch hr

macro_rules | `(tactic| a_leaf) => `(tactic| first
  | with_reducible exact A_handleChallenge _ (by assumption) _ _ _ _
  | with_reducible exact A_handleResponse _ _ _ _)

theorem A_handleMessage (c : Cfg) (na n ct) :
    Ho (Acc rid n1 n2 z H) (handleMessage c na n ct) (fun _ => Acc rid n1 n2 z H) := by
  unfold handleMessage
  refine A_sessGetMut_bind (fun r hr => ?_)
  cases r with
  | none => exact A_emit _ (fun _ => rfl)
  | some sess =>
    have hs : SBig sess := hr _ rfl
    have hs' : SBig (decryptMessage sess n ct).1 := by
      intro r h; rw [decryptMessage_awaiting] at h; exact hs r h
    dsimp only
    refine Ho.bind (A_sessPut na _ hs') (fun _ => ?_)
    split
    · ho_walk
    · exact Ho.pureI _
    · exact A_emit _ (fun _ => rfl)
    · rename_i rid' rb hpt
      refine Ho.ite (fun haw => ?_) (fun _ => A_handleResponse ..)
      have hb : 1000000 ≤ rid' := hs' rid' (beq_iff_eq.1 haw)
      refine Ho.bind (A_sessPut na _ (fun r h => nomatch h)) (fun _ =>
        Ho.bind (Q := fun _ => Acc rid n1 n2 z H)
          ((A_activeRemoveRequest na rid').post (fun o st hp => ?_)) (fun o => ?_))
      · cases o with
        | none => exact hp.1 rfl
        | some call => exact (hp.2 call rfl).1.drop_big ((hp.2 call rfl).2 ▸ hb)
      · ho_walk

macro_rules | `(tactic| a_leaf) => `(tactic| with_reducible exact A_handleMessage _ _ _ _)

theorem A_handleAuthMessage (c : Cfg) (na n sig eph r ct) :
    Ho (Acc rid n1 n2 z H) (handleAuthMessage c na n sig eph r ct) (fun _ => Acc rid n1 n2 z H) := by
  unfold handleAuthMessage
  refine Ho.getS_pin (fun s0 => ?_)
  split
  · exact Ho.pure _ (fun _ hp => hp.2)
  · refine Ho.bind (A_setS_pinned _ ⟨rfl, rfl, rfl⟩) (fun _ => ?_)
    split
    · rename_i sess r' heq
      ho_walk
      all_goals exact establish_sbig heq
    · exact A_modS _ (fun _ => ⟨rfl, rfl, rfl⟩)
    · ho_walk

theorem A_fireTimers (c : Cfg) (target fuel : Nat) :
    Ho (Acc rid n1 n2 z H) (fireTimers c target fuel) (fun _ => Acc rid n1 n2 z H) := by
  induction fuel with
  | zero => unfold fireTimers; exact Ho.pureI _
  | succ n ih =>
    unfold fireTimers
    refine Ho.getS_bind (fun s0 => ?_)
    split
    · exact Ho.pure _ (fun _ hp => hp.2)
    · rename_i d call hnd
      have hm := nextDue_inl_mem _ _ _ _ hnd
      refine Ho.bind (Q := fun _ => Acc rid n1 n2 z (call.item :: H)) (Ho.setS _ (fun st hp => ?_)) (fun _ => ?_)
      · obtain ⟨h0, hp⟩ := hp
        subst h0
        exact hp.move hp.pkn hp.sb (perm_hand (items_erase hm _)) rfl
      · exact Ho.bind (A_handleRequestTimeout c call) (fun _ => ih)
    · rename_i d na hnd
      refine Ho.bind (Q := fun _ => Acc rid n1 n2 z H) (Ho.setS _ (fun st hp => ?_)) (fun _ => ?_)
      · obtain ⟨h0, hp⟩ := hp
        subst h0
        exact hp.frame rfl rfl rfl rfl
      · exact Ho.bind (A_removeExpected _) (fun _ => Ho.bind (A_sendPendingRequests ..) (fun _ => ih))

macro_rules | `(tactic| a_leaf) => `(tactic| first
  | with_reducible exact A_handleAuthMessage _ _ _ _ _ _ _ | with_reducible exact A_fireTimers _ _ _)

/-- One step, for an event that does not submit a request. -/
theorem A_stepM (c : Cfg) (hl : 1 ≤ c.localId) (e : Ev) (he : ∀ ct r b, e ≠ .appRequest ct r b) :
    Ho (Acc rid n1 n2 z H) (stepM c e) (fun _ => Acc rid n1 n2 z H) := by
  cases e with
  | appRequest ct r b => exact absurd rfl (he ct r b)
  | dgram src p => simp only [stepM]; ho_walk
  | appResponse na r rb => simp only [stepM]; ho_walk; all_goals a_side
  | _ => simp only [stepM]; ho_walk

/-- One step submitting request `r`. -/
theorem A_stepM_req (c : Cfg) (ct : Contact) (r b : Nat) :
    Ho (Acc rid n1 n2 z ((r, false) :: H)) (stepM c (.appRequest ct r b)) (fun _ => Acc rid n1 n2 z H) := by
  simp only [stepM]
  refine Ho.bind (A_sendRequest c ct r false b) (fun o => ?_)
  cases o with
  | none => exact Ho.pure _ (fun _ hp => hp.1 rfl)
  | some e => exact ⟨fun _ hp => (hp.2 e rfl).fail e⟩

/-! ## From the walk to histories -/

def Good (s : HState) : Prop :=
  PKN s ∧ SessBig s ∧ ∀ x ∈ items s, x.2 = true → 1000000 ≤ x.1

def cnt (rid : Nat) (s : HState) : Nat := (items s).count (rid, false)

/-- 1 if the event submits request `rid`. -/
def subm (rid : Nat) : Ev → Nat
  | .appRequest _ r _ => if r = rid then 1 else 0
  | _ => 0

theorem Good_init : Good {} := by
  refine ⟨?_, ?_, ?_⟩
  · exact List.nodup_nil
  · intro e he; cases he
  · intro x hx; cases hx

theorem step_spec (c : Cfg) (hl : 1 ≤ c.localId) (s : HState) (hg : Good s) (e : Ev) (rid : Nat) :
    Good (step c s e).1 ∧
    nfail rid (step c s e).2 + cnt rid (step c s e).1 ≤ cnt rid s + subm rid e ∧
    (rid < 1000000 → cnt rid s + subm rid e ≤ cnt rid (step c s e).1 + nabout rid (step c s e).2) ∧
    (rid < 1000000 → cnt rid s + subm rid e = 0 → nabout rid (step c s e).2 = 0) := by
  obtain ⟨hpk, hsb, hib⟩ := hg
  -- the submitted item, if any
  have key : ∀ (Hs : List Item), (∀ x ∈ Hs, x.2 = false) → Hs.count (rid, false) = subm rid e →
      Ho (Acc rid (cnt rid s + subm rid e) (cnt rid s + subm rid e)
        (rid < 1000000 ∧ cnt rid s + subm rid e = 0) Hs) (stepM c e)
        (fun _ => Acc rid (cnt rid s + subm rid e) (cnt rid s + subm rid e)
          (rid < 1000000 ∧ cnt rid s + subm rid e = 0) []) →
      (Good (step c s e).1 ∧
      nfail rid (step c s e).2 + cnt rid (step c s e).1 ≤ cnt rid s + subm rid e ∧
      (rid < 1000000 → cnt rid s + subm rid e ≤ cnt rid (step c s e).1 + nabout rid (step c s e).2) ∧
      (rid < 1000000 → cnt rid s + subm rid e = 0 → nabout rid (step c s e).2 = 0)) := by
    intro Hs hHs hcount hho
    have hinit : Acc rid (cnt rid s + subm rid e) (cnt rid s + subm rid e)
        (rid < 1000000 ∧ cnt rid s + subm rid e = 0) Hs (s, []) := by
      refine ⟨hpk, hsb, ?_, ?_, ?_, ?_⟩
      · intro x hx hxi
        rcases List.mem_append.1 hx with hx | hx
        · exact hib x hx hxi
        · rw [hHs x hx] at hxi; cases hxi
      · show nfail rid [] + _ ≤ _
        rw [List.count_append, hcount]; simp [nfail, cnt]
      · intro _
        rw [List.count_append, hcount]; simp [nabout, cnt]
      · intro hz
        refine ⟨hz.1, ?_, rfl⟩
        rw [List.count_append, hcount]; exact hz.2
    have hpost := hho.out (s, []) hinit
    rw [step_eq]
    generalize ((stepM c e).run (s, [])).2 = st' at hpost
    have hc : (items st'.1 ++ []).count (rid, false) = cnt rid st'.1 := by rw [List.append_nil]; rfl
    refine ⟨⟨hpost.pkn, hpost.sb, fun x hx => hpost.ib x (by rw [List.append_nil]; exact hx)⟩, ?_, ?_, ?_⟩
    · have := hpost.up; rw [hc] at this; exact this
    · intro hr; have := hpost.lo hr; rw [hc] at this; exact this
    · intro hr h0; exact (hpost.si ⟨hr, h0⟩).2.2
  cases e with
  | appRequest ct r b =>
    refine key [(r, false)] (fun x hx => by rw [List.mem_singleton.1 hx]) ?_ (A_stepM_req c ct r b)
    by_cases hr : r = rid
    · subst hr; simp [subm]
    · have : ((r, false) == (rid, false)) = false := by
        cases hb : ((r, false) == (rid, false))
        · rfl
        · rw [beq_iff_eq] at hb; cases hb; exact absurd rfl hr
      simp [subm, hr, List.count_cons, this]
  | appResponse na r rb =>
    exact key [] (fun x hx => nomatch hx) rfl (A_stepM c hl _ (fun _ _ _ h => nomatch h))
  | appWru na n k =>
    exact key [] (fun x hx => nomatch hx) rfl (A_stepM c hl _ (fun _ _ _ h => nomatch h))
  | dgram src p =>
    exact key [] (fun x hx => nomatch hx) rfl (A_stepM c hl _ (fun _ _ _ h => nomatch h))
  | adv dt =>
    exact key [] (fun x hx => nomatch hx) rfl (A_stepM c hl _ (fun _ _ _ h => nomatch h))
  | rtAdv dt =>
    exact key [] (fun x hx => nomatch hx) rfl (A_stepM c hl _ (fun _ _ _ h => nomatch h))


theorem trace_append (c : Cfg) (s : HState) (l1 l2 : List Ev) :
    trace c s (l1 ++ l2) = trace c s l1 ++ trace c (l1.foldl (fun s e => (step c s e).1) s) l2 := by
  induction l1 generalizing s with
  | nil => rfl
  | cons e es ih => simp only [List.cons_append, trace, List.foldl_cons, ih]

theorem outputs_snoc (c : Cfg) (evs : List Ev) (e : Ev) :
    outputs c (evs ++ [e]) = outputs c evs ++ (step c (run c evs) e).2 := by
  unfold outputs
  rw [trace_append]
  simp [trace, run]

theorem appRids_append (a b : List Ev) : appRids (a ++ b) = appRids a ++ appRids b := by
  induction a with
  | nil => rfl
  | cons e es ih => cases e <;> simp [appRids, ih]

theorem count_appRids_snoc (evs : List Ev) (e : Ev) (rid : Nat) :
    (appRids (evs ++ [e])).count rid = (appRids evs).count rid + subm rid e := by
  rw [appRids_append, List.count_append]
  congr 1
  cases e with
  | appRequest ct r b =>
    by_cases hr : r = rid
    · subst hr; simp [appRids, subm]
    · simp [appRids, subm, hr, List.count_cons]
  | _ => simp [appRids, subm]

theorem _root_.Discv5.H.AppDiscipline.prefix {c : Cfg} {a b : List Ev} (h : AppDiscipline c (a ++ b)) : AppDiscipline c a := by
  obtain ⟨h1, h2, h3⟩ := h
  rw [appRids_append] at h1 h2
  exact ⟨(List.nodup_append.1 h1).1, fun r hr => h2 r (List.mem_append.2 (Or.inl hr)), h3⟩

theorem Good_run (c : Cfg) (hl : 1 ≤ c.localId) (evs : List Ev) : Good (run c evs) := by
  induction evs using snoc_induction with
  | h0 => exact Good_init
  | h1 evs e ih => rw [run_snoc]; exact (step_spec c hl _ ih e 0).1

/-- Upper bound: reported failures plus tracked occurrences never exceed the submissions. -/
theorem global_upper (c : Cfg) (hl : 1 ≤ c.localId) (evs : List Ev) (rid : Nat) :
    nfail rid (outputs c evs) + cnt rid (run c evs) ≤ (appRids evs).count rid := by
  induction evs using snoc_induction with
  | h0 => simp [outputs, trace, nfail, cnt, run, items, pitems, appRids]
  | h1 evs e ih =>
    have := (step_spec c hl _ (Good_run c hl evs) e rid).2.1
    rw [outputs_snoc, nfail_append, run_snoc, count_appRids_snoc]
    omega

/-- Lower bound: every submission is still tracked or has been reported on. -/
theorem global_lower (c : Cfg) (hl : 1 ≤ c.localId) (evs : List Ev) (rid : Nat) (hr : rid < 1000000) :
    (appRids evs).count rid ≤ cnt rid (run c evs) + nabout rid (outputs c evs) := by
  induction evs using snoc_induction with
  | h0 => simp [appRids]
  | h1 evs e ih =>
    have := (step_spec c hl _ (Good_run c hl evs) e rid).2.2.1 hr
    rw [outputs_snoc, nabout_append, run_snoc, count_appRids_snoc]
    omega

theorem cnt_eq (rid : Nat) (s : HState) : cnt rid s = (trackedExt s).count rid := (count_trackedExt rid s).symm

theorem tracked_nodup' (c : Cfg) (evs : List Ev) (h : AppDiscipline c evs) :
    (trackedExt (run c evs)).Nodup := by
  rw [List.nodup_iff_count]
  intro rid
  have h1 := global_upper c h.2.2 evs rid
  have h2 := (List.nodup_iff_count.1 h.1) rid
  rw [← cnt_eq]; omega

theorem nabout_zero {rid : Nat} {os : List Out} (h : nabout rid os = 0) :
    ∀ o ∈ os, aboutRid rid o = false := by
  intro o ho
  unfold nabout at h
  have := List.length_eq_zero_iff.1 h
  rw [List.filter_eq_nil_iff] at this
  cases hb : aboutRid rid o
  · rfl
  · exact absurd hb (this o ho)

theorem subm_zero {rid : Nat} {e : Ev} (hs : ∀ ct b, e ≠ .appRequest ct rid b) : subm rid e = 0 := by
  cases e with
  | appRequest ct r b =>
    by_cases hr : r = rid
    · subst hr; exact absurd rfl (hs ct b)
    · simp [subm, hr]
  | _ => rfl

theorem untracked_silent' (c : Cfg) (evs : List Ev) (e : Ev) (rid : Nat)
    (h : AppDiscipline c (evs ++ [e])) (hr : rid < 1000000) (hn : rid ∉ trackedExt (run c evs))
    (hs : ∀ ct b, e ≠ .appRequest ct rid b) :
    ∀ o ∈ (step c (run c evs) e).2, aboutRid rid o = false := by
  have h0 : cnt rid (run c evs) = 0 := by rw [cnt_eq]; exact List.count_eq_zero.2 hn
  have := (step_spec c h.2.2 _ (Good_run c h.2.2 evs) e rid).2.2.2 hr (by rw [h0, subm_zero hs])
  exact nabout_zero this

theorem nfail_pos {rid : Nat} {er : Err} {os : List Out} (h : Out.failed rid er ∈ os) : 1 ≤ nfail rid os := by
  unfold nfail
  have : Out.failed rid er ∈ os.filter (isFailure rid) := List.mem_filter.2 ⟨h, by simp [isFailure]⟩
  exact List.length_pos_of_mem this

theorem failure_untracks' (c : Cfg) (evs : List Ev) (e : Ev) (rid : Nat) (er : Err)
    (h : AppDiscipline c (evs ++ [e])) (hf : Out.failed rid er ∈ (step c (run c evs) e).2) :
    rid ∉ trackedExt (run c (evs ++ [e])) ∧
    ((step c (run c evs) e).2.filter (isFailure rid)).length = 1 := by
  have hl := h.2.2
  have h1 := (step_spec c hl _ (Good_run c hl evs) e rid).2.1
  have h2 := global_upper c hl evs rid
  have h3 := (List.nodup_iff_count.1 h.1) rid
  rw [count_appRids_snoc] at h3
  have h4 := nfail_pos hf
  rw [run_snoc]
  refine ⟨?_, ?_⟩
  · rw [← List.count_eq_zero, ← cnt_eq]; omega
  · show nfail rid _ = 1; omega

theorem at_most_one_failure' (c : Cfg) (evs : List Ev) (h : AppDiscipline c evs) (rid : Nat) :
    ((outputs c evs).filter (isFailure rid)).length ≤ 1 := by
  have h1 := global_upper c h.2.2 evs rid
  have h2 := (List.nodup_iff_count.1 h.1) rid
  show nfail rid _ ≤ 1; omega

theorem nothing_after_failure_aux (c : Cfg) (rid : Nat) (hr : rid < 1000000) (rest : List Ev) :
    ∀ evs : List Ev, AppDiscipline c (evs ++ rest) → cnt rid (run c evs) = 0 →
      1 ≤ (appRids evs).count rid →
      ∀ o ∈ (trace c (run c evs) rest).flatten, aboutRid rid o = false := by
  induction rest with
  | nil => intro evs _ _ _ o ho; simp [trace] at ho
  | cons e rest ih =>
    intro evs h h0 h1 o ho
    have hd : AppDiscipline c (evs ++ [e]) := by
      have : evs ++ e :: rest = (evs ++ [e]) ++ rest := by simp
      rw [this] at h; exact h.prefix
    have hl := h.2.2
    have hsub : subm rid e = 0 := by
      have := (List.nodup_iff_count.1 hd.1) rid
      rw [count_appRids_snoc] at this; omega
    have hs := step_spec c hl _ (Good_run c hl evs) e rid
    simp only [trace, List.flatten_cons, List.mem_append] at ho
    rcases ho with ho | ho
    · exact nabout_zero (hs.2.2.2 hr (by omega)) o ho
    · have hrun : (step c (run c evs) e).1 = run c (evs ++ [e]) := (run_snoc c evs e).symm
      rw [hrun] at ho
      refine ih (evs ++ [e]) (by simpa using h) ?_ ?_ o ho
      · have := hs.2.1; rw [hrun] at this; omega
      · rw [count_appRids_snoc]; omega

theorem nothing_after_failure' (c : Cfg) (evs rest : List Ev) (rid : Nat) (er : Err)
    (h : AppDiscipline c (evs ++ rest)) (hr : rid < 1000000) (hf : Out.failed rid er ∈ outputs c evs) :
    ∀ o ∈ (trace c (run c evs) rest).flatten, aboutRid rid o = false := by
  have h1 := global_upper c h.2.2 evs rid
  have h2 := (List.nodup_iff_count.1 h.prefix.1) rid
  have h3 := nfail_pos hf
  exact nothing_after_failure_aux c rid hr rest evs h (by omega) (by omega)

theorem nabout_pos {rid : Nat} {os : List Out} (h : 1 ≤ nabout rid os) : ∃ o ∈ os, aboutRid rid o = true := by
  unfold nabout at h
  obtain ⟨o, ho⟩ := List.exists_mem_of_length_pos h
  exact ⟨o, (List.mem_filter.1 ho).1, (List.mem_filter.1 ho).2⟩

theorem every_request_accounted' (c : Cfg) (evs : List Ev) (h : AppDiscipline c evs) (rid : Nat)
    (hr : rid ∈ appRids evs) :
    rid ∈ trackedExt (run c evs) ∨ ∃ o ∈ outputs c evs, aboutRid rid o = true := by
  have h1 := global_lower c h.2.2 evs rid (h.2.1 rid hr)
  have h2 : 1 ≤ (appRids evs).count rid := List.one_le_count_iff.2 hr
  by_cases h3 : 1 ≤ cnt rid (run c evs)
  · rw [cnt_eq] at h3; exact Or.inl (List.one_le_count_iff.1 h3)
  · exact Or.inr (nabout_pos (by omega))

theorem quiescent_complete' (c : Cfg) (evs : List Ev) (h : AppDiscipline c evs)
    (h1 : (run c evs).active = []) (h2 : (run c evs).challenges = []) :
    (∀ e ∈ (run c evs).pending, e.2 = []) ∧
    ∀ rid ∈ appRids evs, ∃ o ∈ outputs c evs, aboutRid rid o = true := by
  have hq : ∀ e ∈ (run c evs).pending, e.2 = [] := by
    intro e he
    cases hne : e.2 with
    | nil => rfl
    | cons x xs =>
      have := pending_has_releaser' c evs e he (by rw [hne]; exact List.cons_ne_nil _ _)
      rw [h1, h2] at this
      simp at this
  refine ⟨hq, fun rid hr => ?_⟩
  rcases every_request_accounted' c evs h rid hr with ht | ho
  · exfalso
    unfold trackedExt at ht
    rw [h1] at ht
    simp only [List.filter_nil, List.map_nil, List.nil_append, List.mem_flatMap] at ht
    obtain ⟨e, he, hm⟩ := ht
    rw [hq e he] at hm
    simp at hm
  · exact ho

end Discv5.H.RQ


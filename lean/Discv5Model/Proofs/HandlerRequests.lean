/-
Helper lemmas for C04 (request accounting of the handler model): a Hoare logic over the full monad
state (handler state + output log), and one "walk" through the handler functions per invariant.
-/
import Discv5Model.Proofs.HandlerBasics

namespace Discv5.H

abbrev St := HState × List Out

/-- Hoare triple over the full monad state (handler state and output log). -/
structure Ho {α} (P : St → Prop) (m : M α) (Q : α → St → Prop) : Prop where
  out : ∀ st, P st → Q (m.run st).1 (m.run st).2

theorem Ho.pure {α} {P : St → Prop} {Q : α → St → Prop} (x : α) (h : ∀ st, P st → Q x st) :
    Ho P (Pure.pure x) Q := ⟨fun st hp => h st hp⟩

theorem Ho.bind {α β} {P : St → Prop} {m : M α} {Q : α → St → Prop} {f : α → M β}
    {R : β → St → Prop} (h1 : Ho P m Q) (h2 : ∀ x, Ho (Q x) (f x) R) : Ho P (m >>= f) R :=
  ⟨fun st hp => (h2 _).out _ (h1.out st hp)⟩

theorem Ho.conseq {α} {P P' : St → Prop} {m : M α} {Q Q' : α → St → Prop}
    (h : Ho P' m Q') (hpre : ∀ st, P st → P' st) (hpost : ∀ x st, Q' x st → Q x st) : Ho P m Q :=
  ⟨fun st hp => hpost _ _ (h.out st (hpre st hp))⟩

theorem Ho.pre {α} {P P' : St → Prop} {m : M α} {Q : α → St → Prop}
    (h : Ho P' m Q) (hpre : ∀ st, P st → P' st) : Ho P m Q := h.conseq hpre (fun _ _ h => h)

theorem Ho.post {α} {P : St → Prop} {m : M α} {Q Q' : α → St → Prop}
    (h : Ho P m Q') (hpost : ∀ x st, Q' x st → Q x st) : Ho P m Q := h.conseq (fun _ h => h) hpost

theorem Ho.ite {α} {P : St → Prop} {b : Prop} [Decidable b] {m1 m2 : M α}
    {Q : α → St → Prop} (h1 : b → Ho P m1 Q) (h2 : ¬ b → Ho P m2 Q) :
    Ho P (if b then m1 else m2) Q := by
  by_cases h : b
  · rw [if_pos h]; exact h1 h
  · rw [if_neg h]; exact h2 h

theorem Ho.conj {α} {P P' : St → Prop} {m : M α} {Q Q' : α → St → Prop}
    (h : Ho P m Q) (h' : Ho P' m Q') : Ho (fun st => P st ∧ P' st) m (fun x st => Q x st ∧ Q' x st) :=
  ⟨fun st hp => ⟨h.out st hp.1, h'.out st hp.2⟩⟩

/-- Pull a state-independent fact out of the precondition. -/
theorem Ho.pre_pure {α} {p : Prop} {P : St → Prop} {m : M α} {Q : α → St → Prop}
    (h : p → Ho P m Q) : Ho (fun st => p ∧ P st) m Q := ⟨fun st hp => (h hp.1).out st hp.2⟩

theorem Ho.pre_pure' {α} {p : Prop} {P : St → Prop} {m : M α} {Q : α → St → Prop}
    (h : p → Ho P m Q) : Ho (fun st => P st ∧ p) m Q := ⟨fun st hp => (h hp.2).out st hp.1⟩

theorem Ho.exfalso {α} {P : St → Prop} {m : M α} {Q : α → St → Prop}
    (h : ∀ st, ¬ P st) : Ho P m Q := ⟨fun st hp => absurd hp (h st)⟩

/-- `let s ← getS; …`: the continuation is verified from states whose handler component is `s`. -/
theorem Ho.getS_bind {β} {P : St → Prop} {f : HState → M β} {R : β → St → Prop}
    (h : ∀ s0, Ho (fun st => st.1 = s0 ∧ P st) (f s0) R) : Ho P (getS >>= f) R :=
  ⟨fun st hp => (h st.1).out st ⟨rfl, hp⟩⟩

theorem Ho.setS {P : St → Prop} {Q : Unit → St → Prop} (s' : HState)
    (h : ∀ st, P st → Q () (s', st.2)) : Ho P (setS s') Q := ⟨fun st hp => h st hp⟩

theorem Ho.modS {P : St → Prop} {Q : Unit → St → Prop} (f : HState → HState)
    (h : ∀ st, P st → Q () (f st.1, st.2)) : Ho P (modS f) Q := ⟨fun st hp => h st hp⟩

theorem Ho.emit {P : St → Prop} {Q : Unit → St → Prop} (o : Out)
    (h : ∀ st, P st → Q () (st.1, st.2 ++ [o])) : Ho P (emit o) Q := ⟨fun st hp => h st hp⟩

/-! Uniform-invariant forms (the shape the walker tactic applies). -/
theorem Ho.pureI {α} {P : St → Prop} (x : α) : Ho P (Pure.pure x) (fun _ => P) := ⟨fun _ hp => hp⟩
/-- prefix keeps the invariant, the rest establishes the postcondition -/
theorem Ho.bindP {α β} {P : St → Prop} {m : M α} {f : α → M β} {Q : β → St → Prop}
    (h1 : Ho P m (fun _ => P)) (h2 : ∀ x, Ho P (f x) Q) : Ho P (m >>= f) Q := Ho.bind h1 h2
theorem Ho.iteI {α} {P : St → Prop} {b : Prop} [Decidable b] {m1 m2 : M α}
    {Q : α → St → Prop} (h1 : Ho P m1 Q) (h2 : Ho P m2 Q) :
    Ho P (if b then m1 else m2) Q := Ho.ite (fun _ => h1) (fun _ => h2)
theorem Ho.getI {P : St → Prop} : Ho P getS (fun _ => P) := ⟨fun _ hp => hp⟩

theorem Ho.forEachI {α} {P : St → Prop} (l : List α) (f : α → M Unit)
    (h : ∀ x, Ho P (f x) (fun _ => P)) : Ho P (forEach l f) (fun _ => P) := by
  induction l with
  | nil => exact Ho.pureI ()
  | cons x xs ih => rw [forEach_cons]; exact Ho.bindP (h x) (fun _ => ih)

/-- A loop with an invariant indexed by the items still to be processed. -/
theorem Ho.forEach {α} (I : List α → St → Prop) (l : List α) (f : α → M Unit)
    (h : ∀ x xs, Ho (I (x :: xs)) (f x) (fun _ => I xs)) : Ho (I l) (forEach l f) (fun _ => I []) := by
  induction l with
  | nil => exact Ho.pureI ()
  | cons x xs ih => rw [forEach_cons]; exact Ho.bind (h x xs) (fun _ => ih)

/-- The precondition additionally pins the handler state to the value just read by `getS`. -/
def Pin (s0 : HState) (P : St → Prop) : St → Prop := fun st => st.1 = s0 ∧ P st

theorem Ho.unpin {α} {s0 : HState} {P : St → Prop} {m : M α} {Q : α → St → Prop}
    (h : Ho P m Q) : Ho (Pin s0 P) m Q := ⟨fun st hp => h.out st hp.2⟩

theorem Ho.getS_pin {β} {P : St → Prop} {f : HState → M β} {R : β → St → Prop}
    (h : ∀ s0, Ho (Pin s0 P) (f s0) R) : Ho P (getS >>= f) R :=
  ⟨fun st hp => (h st.1).out st ⟨rfl, hp⟩⟩

theorem Ho.pure_bind {α β} {P : St → Prop} {x : α} {f : α → M β} {R : β → St → Prop}
    (h : Ho P (f x) R) : Ho P (Pure.pure x >>= f) R := ⟨fun st hp => h.out st hp⟩

theorem Ho.bind_assoc {α β γ} {P : St → Prop} {m : M α} {f : α → M β} {g : β → M γ}
    {R : γ → St → Prop} (h : Ho P (m >>= fun x => f x >>= g) R) : Ho P ((m >>= f) >>= g) R :=
  ⟨fun st hp => h.out st hp⟩

theorem Ho.ite_bind {α β} {P : St → Prop} {b : Prop} [Decidable b] {m1 m2 : M α} {f : α → M β}
    {Q : β → St → Prop} (h1 : b → Ho P (m1 >>= f) Q) (h2 : ¬ b → Ho P (m2 >>= f) Q) :
    Ho P ((if b then m1 else m2) >>= f) Q := by
  by_cases h : b
  · rw [if_pos h]; exact h1 h
  · rw [if_neg h]; exact h2 h

/-- Generic forward walker.  `ho_leaf` closes `Ho P m ?Q` for calls of already-verified functions
and primitives (it may leave side goals); `ho_bindleaf` applies continuation-passing lemmas. -/
syntax "ho_leaf" : tactic
syntax "ho_bindleaf" : tactic
macro_rules | `(tactic| ho_leaf) => `(tactic| with_reducible first | exact Ho.getI | exact Ho.pureI _)
macro_rules | `(tactic| ho_bindleaf) => `(tactic| fail "no bind leaf")

macro "ho_step" : tactic => `(tactic| first
  | (with_reducible apply Ho.pure_bind)
  | (with_reducible apply Ho.bind_assoc)
  | ((with_reducible apply Ho.ite_bind) <;> intro _)
  | ((with_reducible apply Ho.getS_pin); intro _)
  | ho_bindleaf
  | ((with_reducible apply Ho.bind); (first | ho_leaf | ((with_reducible apply Ho.unpin); ho_leaf) | (with_reducible apply Ho.forEachI) | ((with_reducible apply Ho.unpin); (with_reducible apply Ho.forEachI))))
  | ((with_reducible apply Ho.ite) <;> intro _)
  | (with_reducible apply Ho.forEachI)
  | (show Ho _ _ _; split)
  | (intro _; show Ho _ _ _)
  | ho_leaf
  | ((with_reducible apply Ho.unpin); ho_leaf)
  | ((with_reducible apply Ho.pure); intro _ _)
  | ((with_reducible apply Ho.post); (first | ho_leaf | ((with_reducible apply Ho.unpin); ho_leaf))))

macro "ho_walk" : tactic => `(tactic| repeat' ho_step)

/-! ## Exact effects of the primitives that read the state -/

theorem freshNonce_run (c : Cfg) (st : St) : (freshNonce c).run st =
    (mkName c (st.1.fresh.nonce + 1),
      ({ st.1 with fresh := { st.1.fresh with nonce := st.1.fresh.nonce + 1 } }, st.2)) := rfl
theorem freshCd_run (c : Cfg) (st : St) : (freshCd c).run st =
    (mkName c (st.1.fresh.cd + 1),
      ({ st.1 with fresh := { st.1.fresh with cd := st.1.fresh.cd + 1 } }, st.2)) := rfl
theorem freshEph_run (c : Cfg) (st : St) : (freshEph c).run st =
    (mkName c (st.1.fresh.eph + 1),
      ({ st.1 with fresh := { st.1.fresh with eph := st.1.fresh.eph + 1 } }, st.2)) := rfl
theorem freshRid_run (c : Cfg) (st : St) : (freshRid c).run st =
    (mkName c (st.1.fresh.rid + 1),
      ({ st.1 with fresh := { st.1.fresh with rid := st.1.fresh.rid + 1 } }, st.2)) := rfl

theorem sessGetMut_elim {c : Cfg} {na : NA} {P : St → Prop} {Q : Option Session → St → Prop}
    (h : ∀ st, P st →
      (st.1.sessions.find? (·.1 == na) = none → Q none st) ∧
      (∀ k sess stamp, st.1.sessions.find? (·.1 == na) = some (k, sess, stamp) →
        (stamp + c.sessionTtl < st.1.rt →
          Q none ({ st.1 with sessions := st.1.sessions.filter (·.1 != na) }, st.2)) ∧
        (¬ stamp + c.sessionTtl < st.1.rt →
          Q (some sess) ({ st.1 with sessions := st.1.sessions.filter (·.1 != na) ++ [(na, sess, st.1.rt)] }, st.2)))) :
    Ho P (sessGetMut c na) Q := by
  refine ⟨fun st hp => ?_⟩
  obtain ⟨h1, h2⟩ := h st hp
  unfold sessGetMut
  simp only [run_bind, run_getS]
  cases hf : st.1.sessions.find? (·.1 == na) with
  | none => exact h1 hf
  | some e =>
    obtain ⟨k, sess, stamp⟩ := e
    obtain ⟨h3, h4⟩ := h2 k sess stamp hf
    by_cases hx : stamp + c.sessionTtl < st.1.rt
    · simp only [hx, if_true]; exact h3 hx
    · simp only [hx, if_false]; exact h4 hx

theorem removeExpiredSessions_elim {c : Cfg} {P : St → Prop} {Q : Unit → St → Prop}
    (h : ∀ st, P st → ∀ e r, popExpired c.sessionTtl st.1.rt st.1.sessions = (e, r) →
      Q () ({ st.1 with sessions := r }, if e.isEmpty then st.2 else st.2 ++ [.expired e])) :
    Ho P (removeExpiredSessions c) Q := by
  refine ⟨fun st hp => ?_⟩
  have := h st hp _ _ rfl
  unfold removeExpiredSessions
  simp only [run_bind, run_getS, run_setS]
  by_cases he : (popExpired c.sessionTtl st.1.rt st.1.sessions).1.isEmpty
  · simp only [he, if_true] at this; simp [he]; exact this
  · simp only [he] at this; simp [he]; exact this

theorem activeRemoveByNonce_elim {n : Nat} {P : St → Prop} {Q : Option Call → St → Prop}
    (h : ∀ st, P st →
      (st.1.active.find? (·.pkt.nonce == n) = none → Q none st) ∧
      (∀ call, st.1.active.find? (·.pkt.nonce == n) = some call →
        Q (some call) ({ st.1 with active := st.1.active.erase call }, st.2))) :
    Ho P (activeRemoveByNonce n) Q := by
  refine ⟨fun st hp => ?_⟩
  obtain ⟨h1, h2⟩ := h st hp
  unfold activeRemoveByNonce
  simp only [run_bind, run_getS]
  cases hf : st.1.active.find? (·.pkt.nonce == n) with
  | none => exact h1 hf
  | some call => exact h2 call hf

theorem activeRemoveRequest_elim {na : NA} {rid : Nat} {P : St → Prop} {Q : Option Call → St → Prop}
    (h : ∀ st, P st →
      (st.1.active.find? (fun call => callNA call == na && call.rid == rid) = none → Q none st) ∧
      (∀ call, st.1.active.find? (fun call => callNA call == na && call.rid == rid) = some call →
        Q (some call) ({ st.1 with active := st.1.active.erase call }, st.2))) :
    Ho P (activeRemoveRequest na rid) Q := by
  refine ⟨fun st hp => ?_⟩
  obtain ⟨h1, h2⟩ := h st hp
  unfold activeRemoveRequest
  simp only [run_bind, run_getS]
  cases hf : st.1.active.find? (fun call => callNA call == na && call.rid == rid) with
  | none => exact h1 hf
  | some call => exact h2 call hf

theorem activeRemoveRequests_run (na : NA) (st : St) : (activeRemoveRequests na).run st =
    (st.1.active.filter (fun call => callNA call == na),
      ({ st.1 with active := st.1.active.filter (fun call => callNA call != na) }, st.2)) := rfl

theorem encryptMessage_run (c : Cfg) (sess : Session) (pt : Msg) (st : St) :
    (encryptMessage c sess pt).run st =
    (({ sess with counter := sess.counter + 1 },
        Pkt.message c.localId (mkName c (st.1.fresh.nonce + 1))
          (.enc sess.keys.enc (mkName c (st.1.fresh.nonce + 1)) (sess.counter + 1) pt true)),
      ({ st.1 with fresh := { st.1.fresh with nonce := st.1.fresh.nonce + 1 } }, st.2)) := rfl

/-! ## Walk T: a timeout failure is only reported by the timer path -/

def NoTO (st : St) : Prop := ∀ rid, Out.failed rid .timeout ∉ st.2

theorem T_modS (f : HState → HState) : Ho NoTO (modS f) (fun _ => NoTO) := ⟨fun _ hp => hp⟩
theorem T_setS (s : HState) : Ho NoTO (setS s) (fun _ => NoTO) := ⟨fun _ hp => hp⟩
theorem T_emit (o : Out) (h : ∀ rid, o ≠ .failed rid .timeout) : Ho NoTO (emit o) (fun _ => NoTO) := by
  refine ⟨fun st hp rid hm => ?_⟩
  simp only [run_emit, List.mem_append, List.mem_singleton] at hm
  rcases hm with hm | hm
  · exact hp rid hm
  · exact h rid hm.symm

syntax "t_leaf" : tactic
macro_rules | `(tactic| t_leaf) => `(tactic| first
  | with_reducible exact T_modS _ | with_reducible exact T_setS _
  | ((with_reducible apply T_emit); intro _ h; cases h <;> contradiction))
macro_rules | `(tactic| ho_leaf) => `(tactic| t_leaf)

theorem T_freshNonce (c : Cfg) : Ho NoTO (freshNonce c) (fun _ => NoTO) := by unfold freshNonce; ho_walk
theorem T_freshCd (c : Cfg) : Ho NoTO (freshCd c) (fun _ => NoTO) := by unfold freshCd; ho_walk
theorem T_freshEph (c : Cfg) : Ho NoTO (freshEph c) (fun _ => NoTO) := by unfold freshEph; ho_walk
theorem T_freshRid (c : Cfg) : Ho NoTO (freshRid c) (fun _ => NoTO) := by unfold freshRid; ho_walk
theorem T_addExpected (a) : Ho NoTO (addExpected a) (fun _ => NoTO) := T_modS _
theorem T_removeExpected (a) : Ho NoTO (removeExpected a) (fun _ => NoTO) := T_modS _
theorem T_sessGetMut (c na) : Ho NoTO (sessGetMut c na) (fun _ => NoTO) := by unfold sessGetMut; ho_walk
theorem T_sessPut (na s) : Ho NoTO (sessPut na s) (fun _ => NoTO) := T_modS _
theorem T_sessInsert (c na s) : Ho NoTO (sessInsert c na s) (fun _ => NoTO) := T_modS _
theorem T_sessRemove (na) : Ho NoTO (sessRemove na) (fun _ => NoTO) := T_modS _
theorem T_removeExpiredSessions (c) : Ho NoTO (removeExpiredSessions c) (fun _ => NoTO) := by
  unfold removeExpiredSessions; ho_walk
theorem T_activeInsert (c call) : Ho NoTO (activeInsert c call) (fun _ => NoTO) := T_modS _
theorem T_activeRemoveByNonce (n) : Ho NoTO (activeRemoveByNonce n) (fun _ => NoTO) := by
  unfold activeRemoveByNonce; ho_walk
theorem T_activeRemoveRequest (na r) : Ho NoTO (activeRemoveRequest na r) (fun _ => NoTO) := by
  unfold activeRemoveRequest; ho_walk
theorem T_activeRemoveRequests (na) : Ho NoTO (activeRemoveRequests na) (fun _ => NoTO) := by
  unfold activeRemoveRequests; ho_walk
theorem T_send (na p) : Ho NoTO (send na p) (fun _ => NoTO) := by
  unfold send; exact T_emit _ (by intro _ h; cases h)
macro_rules | `(tactic| t_leaf) => `(tactic| with_reducible first
  | exact T_freshNonce _ | exact T_freshCd _ | exact T_freshEph _ | exact T_freshRid _
  | exact T_addExpected _ | exact T_removeExpected _ | exact T_sessGetMut _ _ | exact T_sessPut _ _
  | exact T_sessInsert _ _ _ | exact T_sessRemove _ | exact T_removeExpiredSessions _
  | exact T_activeInsert _ _ | exact T_activeRemoveByNonce _ | exact T_activeRemoveRequest _ _
  | exact T_activeRemoveRequests _ | exact T_send _ _)
theorem T_encryptMessage (c s m) : Ho NoTO (encryptMessage c s m) (fun _ => NoTO) := by
  unfold encryptMessage; ho_walk
theorem T_isAwaitingSession (c na) : Ho NoTO (isAwaitingSession c na) (fun _ => NoTO) := by
  unfold isAwaitingSession; ho_walk
macro_rules | `(tactic| t_leaf) => `(tactic| with_reducible first
  | exact T_encryptMessage _ _ _ | exact T_isAwaitingSession _ _)
theorem T_sendRequest (c ct rid i b) :
    Ho NoTO (sendRequest c ct rid i b) (fun r st => NoTO st ∧ r ≠ some .timeout) := by
  unfold sendRequest; ho_walk
  all_goals exact ⟨by assumption, by simp⟩
theorem T_sendRequestI (c ct rid i b) : Ho NoTO (sendRequest c ct rid i b) (fun _ => NoTO) :=
  (T_sendRequest c ct rid i b).post (fun _ _ h => h.1)
/-- `match ← sendRequest … with | some e => emit (failed rid e) | none => pure ()` -/
theorem T_sendRequest_then (c ct rid i b) (k : Option Err → M Unit)
    (hk : ∀ r, r ≠ some .timeout → Ho NoTO (k r) (fun _ => NoTO)) :
    Ho NoTO (sendRequest c ct rid i b >>= k) (fun _ => NoTO) :=
  Ho.bind (T_sendRequest c ct rid i b) (fun r => Ho.pre_pure' (hk r))
theorem T_sendPendingRequests (c na) : Ho NoTO (sendPendingRequests c na) (fun _ => NoTO) := by
  unfold sendPendingRequests
  refine Ho.bindP Ho.getI (fun s => Ho.bindP (T_setS _) (fun _ => Ho.forEachI _ _ (fun pr => ?_)))
  refine T_sendRequest_then _ _ _ _ _ _ (fun r hr => ?_)
  cases r with
  | none => exact Ho.pureI _
  | some e =>
    refine Ho.iteI (T_emit _ ?_) (Ho.pureI _)
    intro _ h; cases h; exact hr rfl
theorem T_failSession (c na e b) (he : e ≠ .timeout) : Ho NoTO (failSession c na e b) (fun _ => NoTO) := by
  unfold failSession; ho_walk
macro_rules | `(tactic| t_leaf) => `(tactic| with_reducible first
  | exact T_failSession _ _ _ _ (by first | assumption | simp))
theorem T_failRequest (c call e b) (he : e ≠ .timeout) : Ho NoTO (failRequest c call e b) (fun _ => NoTO) := by
  unfold failRequest; ho_walk
theorem T_reencryptAll (c l s acc) : Ho NoTO (reencryptAll c l s acc) (fun _ => NoTO) := by
  induction l generalizing s acc with
  | nil => unfold reencryptAll; ho_walk
  | cons x xs ih => unfold reencryptAll; ho_walk; exact ih _ _
macro_rules | `(tactic| t_leaf) => `(tactic| with_reducible first
  | exact T_sendRequestI _ _ _ _ _ | exact T_sendPendingRequests _ _ | exact T_reencryptAll _ _ _ _
  | exact T_failSession _ _ _ _ (by first | assumption | simp) | exact T_failRequest _ _ _ _ (by first | assumption | simp) )
theorem T_replayActiveRequests (c na sk) : Ho NoTO (replayActiveRequests c na sk) (fun _ => NoTO) := by
  unfold replayActiveRequests; ho_walk
macro_rules | `(tactic| t_leaf) => `(tactic| with_reducible exact T_replayActiveRequests _ _ _)
theorem T_newSession (c na s sk) : Ho NoTO (newSession c na s sk) (fun _ => NoTO) := by
  unfold newSession; ho_walk
theorem T_sendChallenge (c na n k) : Ho NoTO (sendChallenge c na n k) (fun _ => NoTO) := by
  unfold sendChallenge; ho_walk
macro_rules | `(tactic| t_leaf) => `(tactic| with_reducible first
  | exact T_replayActiveRequests _ _ _ | exact T_newSession _ _ _ _ | exact T_sendChallenge _ _ _ _)
theorem T_handleChallenge (c src n cd es) : Ho NoTO (handleChallenge c src n cd es) (fun _ => NoTO) := by
  unfold handleChallenge; ho_walk
theorem T_handleResponse (c na rid rb) : Ho NoTO (handleResponse c na rid rb) (fun _ => NoTO) := by
  unfold handleResponse; ho_walk
macro_rules | `(tactic| t_leaf) => `(tactic| with_reducible first
  | exact T_handleChallenge _ _ _ _ _ | exact T_handleResponse _ _ _ _)
theorem T_handleMessage (c na n ct) : Ho NoTO (handleMessage c na n ct) (fun _ => NoTO) := by
  unfold handleMessage; ho_walk
macro_rules | `(tactic| t_leaf) => `(tactic| with_reducible first
  | exact T_handleMessage _ _ _ _)
theorem T_handleAuthMessage (c na n sig eph r ct) : Ho NoTO (handleAuthMessage c na n sig eph r ct) (fun _ => NoTO) := by
  unfold handleAuthMessage; ho_walk
theorem T_stepM (c : Cfg) (e : Ev) (he : ∀ dt, e ≠ .adv dt) : Ho NoTO (stepM c e) (fun _ => NoTO) := by
  cases e with
  | adv dt => exact absurd rfl (he dt)
  | appRequest ct rid b =>
    simp only [stepM]
    refine T_sendRequest_then _ _ _ _ _ _ (fun r hr => ?_)
    cases r with
    | none => exact Ho.pureI _
    | some e => refine T_emit _ ?_; intro _ h; cases h; exact hr rfl
  | dgram src p => simp only [stepM]; ho_walk; exact T_handleAuthMessage ..
  | _ => simp only [stepM]; ho_walk

theorem step_eq (c : Cfg) (s : HState) (e : Ev) : step c s e = ((stepM c e).run (s, [])).2 := rfl

theorem timeout_only_from_timer' (c : Cfg) (s : HState) (e : Ev) (rid : Nat)
    (h : Out.failed rid .timeout ∈ (step c s e).2) : ∃ dt, e = .adv dt := by
  by_cases he : ∃ dt, e = .adv dt
  · exact he
  · have := (T_stepM c e (fun dt h => he ⟨dt, h⟩)).out (s, []) (by intro rid h; cases h)
    rw [step_eq] at h
    exact absurd h (this rid)

end Discv5.H


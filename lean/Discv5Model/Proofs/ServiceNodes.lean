/-
Helper lemmas for C11 (NODES responses: honest responders are never banned).

* `BAll` / `TAll`: a predicate on (key, value) that holds for every stored and every pending node
  of a bucket / table is preserved by `apply_pending`, hence by `nodes_by_distances`.
* `nodesByDistances_mem`: every node returned by `nodes_by_distances` sits in the bucket of a
  requested distance in 1..256 (no `Nodup` / `1 ≤ maxNodes` side conditions) and satisfies the
  table-wide predicate.
* `nodesToSend_wanted`: every record `send_nodes_response` collects has a requested log2 distance
  from the responder (own record = 0).
* `splitPackets_flatten`: the packets are a partition of the collected records.
* `acceptNodes_ok`: a packet of wanted records is accepted whole, without ban.
* `discovered_active`: `discovered` does not touch the active requests.
* `handleResponse_nodes_active`: a NODES response for an active request either leaves the request
  removed or the packet accounting said `wait`.
-/
import Discv5Model.Model.Service
import Discv5Model.Model.KBucketSpec
import Discv5Model.Proofs.KBucketLemmas
import Discv5Model.Proofs.ClosestLemmas

namespace Discv5.KB

variable {V : Type} [DecidableEq V]

/-! ### predicates on all (stored and pending) nodes -/

/-- `Q key value` holds for every stored node and for the pending node of the bucket. -/
def BAll (Q : Nat → V → Prop) (b : Bucket V) : Prop :=
  (∀ n ∈ b.nodes, Q n.key n.value) ∧ (∀ p, b.pending = some p → Q p.node.key p.node.value)

/-- … of every bucket of the table. -/
def TAll (Q : Nat → V → Prop) (t : Table V) : Prop := ∀ b ∈ t.buckets, BAll Q b

omit [DecidableEq V] in
theorem ball_empty (Q : Nat → V → Prop) : BAll Q ({} : Bucket V) := by
  unfold BAll
  constructor
  · intro n hn; cases hn
  · intro p hp; cases hp

theorem insert_ball {c : Cfg V} {now : Nat} {b : Bucket V} {node : Node V} {Q : Nat → V → Prop}
    (h : BAll Q b) (hn : Q node.key node.value) : BAll Q (Bucket.insert c now b node).1 := by
  rcases insert_cases c now b node with ⟨h1, _⟩ | ⟨n0, hr, hpos, _, hp⟩ |
    ⟨_, hpos, hfull, hin, hpend, hshape⟩
  · rw [h1]; exact h
  · rw [hr]
    refine ⟨h.1, ?_⟩
    intro p hp; cases hp; exact hn
  · refine ⟨?_, fun p' hp' => h.2 p' (hpend p' hp').1⟩
    have hperm : (Bucket.insert c now b node).1.nodes.Perm (node :: b.nodes) := by
      rcases hshape with ⟨hc, h1, _⟩ | ⟨hc, p, hf, h1, _⟩ | ⟨hc, hf, h1, _⟩
      · rw [h1]; exact List.perm_append_singleton _ _
      · rw [h1]; exact insertAt_perm _ _ _
      · rw [h1]; exact List.perm_append_singleton _ _
    intro n hn'
    rcases List.mem_cons.1 (hperm.mem_iff.1 hn') with rfl | hn'
    · exact hn
    · exact h.1 n hn'

theorem applyPending_ball {c : Cfg V} {now tick : Nat} {b : Bucket V} {Q : Nat → V → Prop}
    (h : BAll Q b) : BAll Q (b.applyPending c now tick).1 := by
  have hclear : BAll Q { b with pending := none } := ⟨h.1, fun p hp => by cases hp⟩
  rcases applyPending_cases c now tick b with ⟨hr, _⟩ | ⟨p, _, _, hr⟩ |
    ⟨p, n0, rest, hp, _, hfull, hnodes, h0, hin, _, hpend, hshape⟩ | ⟨p, hp, _, hfull, hr, _⟩
  · rw [hr]; exact h
  · rw [hr]; exact hclear
  · refine ⟨?_, fun p' hp' => by rw [hpend] at hp'; cases hp'⟩
    intro n hn
    rcases List.mem_cons.1 (hshape.perm.mem_iff.1 hn) with rfl | hn
    · exact h.2 p hp
    · exact h.1 n (by rw [hnodes]; exact List.mem_cons_of_mem _ hn)
  · rw [hr]; exact insert_ball hclear (h.2 p hp)

omit [DecidableEq V] in
theorem TAll.bucket {Q : Nat → V → Prop} {t : Table V} (h : TAll Q t) (i : Nat) :
    BAll Q (t.bucket i) := by
  unfold Table.bucket
  rw [List.getD_eq_getElem?_getD]
  cases hi : t.buckets[i]? with
  | none => exact ball_empty Q
  | some b => exact h b (List.mem_of_getElem? hi)

omit [DecidableEq V] in
theorem TAll.setBucket {Q : Nat → V → Prop} {t : Table V} {i : Nat} {b : Bucket V}
    (h : TAll Q t) (hb : BAll Q b) : TAll Q (t.setBucket i b) := by
  intro b' hb'
  rcases List.mem_or_eq_of_mem_set hb' with h1 | h1
  · exact h b' h1
  · rw [h1]; exact hb

theorem applyForDistances_tall {c : Cfg V} {now m : Nat} {Q : Nat → V → Prop} (ds : List Nat)
    (t : Table V) (count : Nat) (h : TAll Q t) :
    TAll Q (applyForDistances c now m ds t count) := by
  induction ds generalizing t count with
  | nil => exact h
  | cons d ds ih =>
    unfold applyForDistances
    simp only
    have hset : TAll Q (t.setBucket (d - 1) ((t.bucket (d - 1)).applyPending c now t.tick).1) :=
      h.setBucket (applyPending_ball (h.bucket _))
    cases ha : ((t.bucket (d - 1)).applyPending c now t.tick).2 with
    | none => simp only; exact ih _ _ hset
    | some a =>
      simp only
      have hset' : TAll Q { t.setBucket (d - 1) ((t.bucket (d - 1)).applyPending c now t.tick).1 with
          applied := t.applied ++ [a] } := hset
      split
      · exact hset'
      · exact ih _ _ hset'

omit [DecidableEq V] in
theorem tall_init (Q : Nat → V → Prop) (localKey : Nat) : TAll Q (Table.init localKey : Table V) := by
  intro b hb
  have hb' : b = {} := by
    simp only [Table.init] at hb
    exact List.eq_of_mem_replicate hb
  rw [hb']
  exact ball_empty Q

theorem nodesByDistances_tall {c : Cfg V} {now : Nat} {t : Table V} {ds : List Nat} {m : Nat}
    {Q : Nat → V → Prop} (h : TAll Q t) : TAll Q (t.nodesByDistances c now ds m).1 := by
  unfold Table.nodesByDistances
  exact applyForDistances_tall _ _ _ h

omit [DecidableEq V] in
theorem mem_collectUpTo (m : Nat) (n : Node V) :
    ∀ (l acc : List (Node V)), n ∈ collectUpTo m l acc → n ∈ acc ∨ n ∈ l := by
  intro l
  induction l with
  | nil => intro acc h; exact Or.inl (by simpa [collectUpTo] using h)
  | cons x xs ih =>
    intro acc h
    unfold collectUpTo at h
    simp only [] at h
    have hacc : n ∈ acc ++ [x] → n ∈ acc ∨ n ∈ x :: xs := by
      intro h'
      rcases List.mem_append.1 h' with h' | h'
      · exact Or.inl h'
      · exact Or.inr (by rw [List.mem_singleton.1 h']; exact List.mem_cons_self ..)
    by_cases hge : (acc ++ [x]).length ≥ m
    · rw [if_pos hge] at h
      exact hacc h
    · rw [if_neg hge] at h
      rcases ih _ h with h' | h'
      · exact hacc h'
      · exact Or.inr (List.mem_cons_of_mem _ h')

/-- Every node returned by `nodes_by_distances` — for every distance list and every cap — is
stored (after the pending applications) in the bucket of a requested distance in 1..256, hence has
that bucket index, and satisfies every predicate that holds for all stored and pending nodes. -/
theorem nodesByDistances_mem (c : Cfg V) (now : Nat) (t : Table V) (ds : List Nat) (m : Nat)
    {Q : Nat → V → Prop} (h : TInv c t) (hQ : TAll Q t) :
    ∀ n ∈ (t.nodesByDistances c now ds m).2,
      (∃ d ∈ ds, 1 ≤ d ∧ d ≤ 256 ∧ bucketIndex t.localKey n.key = some (d - 1)) ∧
      Q n.key n.value := by
  obtain ⟨hT, hK⟩ := applyForDistances_spec c now m (applyAt_inv c now) (validDistances ds) t.bump 0
    h.bump
  have hA : TAll Q (applyForDistances c now m (validDistances ds) t.bump 0) :=
    applyForDistances_tall _ _ _ hQ
  intro n hn
  unfold Table.nodesByDistances at hn
  simp only [] at hn
  rcases mem_collectUpTo m n _ _ hn with hn | hn
  · cases hn
  rw [List.mem_flatMap] at hn
  obtain ⟨d, hd1, hd2⟩ := hn
  rw [validDistances_eq, List.mem_filter, decide_eq_true_eq] at hd1
  refine ⟨⟨d, hd1.1, hd1.2.1, hd1.2.2, ?_⟩, (hA.bucket (d - 1)).1 n hd2⟩
  have hK' : (applyForDistances c now m (validDistances ds) t.bump 0).localKey = t.localKey := hK
  rw [← hK']
  exact hT.placed (d - 1) (by omega) n hd2

end Discv5.KB

namespace Discv5.Svc

open Discv5.KB Discv5.Svc.Svc

/-! ### distances -/

theorem log2Distance_self (a : Nat) : log2Distance a a = none := by
  simp [log2Distance]

theorem log2Distance_ge_one {a b d : Nat} (h : log2Distance a b = some d) : 1 ≤ d := by
  unfold log2Distance at h
  by_cases hz : a ^^^ b = 0
  · simp [hz] at h
  · simp [hz] at h; omega

/-- Bucket `i` of the responder's table = log2 distance `i + 1` from the responder's id. -/
theorem log2Distance_of_bucketIndex {a b i : Nat} (h : bucketIndex a b = some i) :
    log2Distance a b = some (i + 1) := by
  unfold bucketIndex at h
  unfold log2Distance
  by_cases hz : a ^^^ b = 0
  · simp [hz] at h
  · simp only [hz, if_false, Option.some.injEq] at h ⊢
    omega

/-! ### `sort_unstable` + `dedup` only rearrange / drop duplicates -/

theorem mem_insertSorted {x y : Nat} : ∀ {l : List Nat}, y ∈ insertSorted x l ↔ y = x ∨ y ∈ l
  | [] => by simp [insertSorted]
  | z :: zs => by
    unfold insertSorted
    by_cases hxz : x ≤ z
    · rw [if_pos hxz]; simp
    · rw [if_neg hxz, List.mem_cons, mem_insertSorted (l := zs), List.mem_cons]
      constructor
      · rintro (h | h | h)
        · exact Or.inr (Or.inl h)
        · exact Or.inl h
        · exact Or.inr (Or.inr h)
      · rintro (h | h | h)
        · exact Or.inr (Or.inl h)
        · exact Or.inl h
        · exact Or.inr (Or.inr h)

theorem mem_sortNat {y : Nat} : ∀ {l : List Nat}, y ∈ sortNat l ↔ y ∈ l
  | [] => by simp [sortNat]
  | x :: xs => by
    have ih := mem_sortNat (y := y) (l := xs)
    unfold sortNat at ih ⊢
    rw [List.foldr_cons, mem_insertSorted, ih, List.mem_cons]

theorem mem_of_mem_dedupAdj (y : Nat) : ∀ l : List Nat, y ∈ dedupAdj l → y ∈ l
  | [], h => by simp [dedupAdj] at h
  | [x], h => by simpa [dedupAdj] using h
  | x :: z :: rest, h => by
    unfold dedupAdj at h
    by_cases hx : (x == z) = true
    · rw [if_pos hx] at h
      exact List.mem_cons_of_mem _ (mem_of_mem_dedupAdj y _ h)
    · rw [if_neg hx] at h
      rcases List.mem_cons.1 h with h | h
      · rw [h]; exact List.mem_cons_self ..
      · exact List.mem_cons_of_mem _ (mem_of_mem_dedupAdj y _ h)

theorem mem_of_mem_dedup_sort {y : Nat} {l : List Nat} (h : y ∈ dedupAdj (sortNat l)) : y ∈ l :=
  mem_sortNat.1 (mem_of_mem_dedupAdj y _ h)

/-! ### `send_nodes_response` -/

/-- Values (stored and pending) are filed under the node id they contain. -/
def RecsKeyed (t : Table Rec) : Prop :=
  ∀ b ∈ t.buckets, (∀ n ∈ b.nodes, n.value.id = n.key) ∧
    (∀ p, b.pending = some p → p.node.value.id = p.node.key)

theorem RecsKeyed.tall {t : Table Rec} (h : RecsKeyed t) : TAll (fun k (v : Rec) => v.id = k) t := h

/-- Every record `send_nodes_response` collects lies at a requested log2 distance from the
responder, the responder's own record counting as distance 0. -/
theorem nodesToSend_wanted (s : Svc) (requester : Nat) (ds : List Nat)
    (hT : TInv s.cfg.kb s.table) (hL : s.table.localKey = s.localRec.id)
    (hK : RecsKeyed s.table) :
    ∀ r ∈ (s.nodesToSend requester ds).2, (log2Distance s.localRec.id r.id).getD 0 ∈ ds := by
  have hmem : ∀ y ∈ dedupAdj (sortNat ds), y ∈ ds := fun y hy => mem_of_mem_dedup_sort hy
  have htab : ∀ ds1 : List Nat, (∀ y ∈ ds1, y ∈ ds) →
      ∀ r ∈ ((s.table.nodesByDistances s.cfg.kb s.now ds1 s.cfg.maxNodesResponse).2.filter
        (fun n => n.key != requester)).map (·.value),
        (log2Distance s.localRec.id r.id).getD 0 ∈ ds := by
    intro ds1 hsub r hr
    rw [List.mem_map] at hr
    obtain ⟨n, hn, rfl⟩ := hr
    have hn := (List.mem_filter.1 hn).1
    obtain ⟨⟨d, hd, h1, _, hbi⟩, hid⟩ :=
      nodesByDistances_mem s.cfg.kb s.now s.table ds1 s.cfg.maxNodesResponse hT hK.tall n hn
    have hid' : n.value.id = n.key := hid
    rw [hL] at hbi
    rw [hid', log2Distance_of_bucketIndex hbi, Option.getD_some]
    have : d - 1 + 1 = d := by omega
    rw [this]
    exact hsub d hd
  have hown : 0 ∈ ds → (log2Distance s.localRec.id s.localRec.id).getD 0 ∈ ds := by
    intro h0
    rw [log2Distance_self]
    exact h0
  unfold nodesToSend
  generalize dedupAdj (sortNat ds) = l at hmem
  match l, hmem with
  | [], _ =>
    intro r hr
    simp at hr
  | 0 :: rest, hmem =>
    have h0 : 0 ∈ ds := hmem 0 (List.mem_cons_self ..)
    have hrest : ∀ y ∈ rest, y ∈ ds := fun y hy => hmem y (List.mem_cons_of_mem _ hy)
    simp only []
    by_cases he : rest.isEmpty = true
    · rw [if_pos he]
      intro r hr
      rw [List.mem_singleton.1 hr]
      exact hown h0
    · rw [if_neg he]
      intro r hr
      rcases List.mem_append.1 hr with hr | hr
      · rw [List.mem_singleton.1 hr]
        exact hown h0
      · exact htab rest hrest r hr
  | (k + 1) :: rest, hmem =>
    simp only []
    rw [if_neg (by simp)]
    intro r hr
    rw [List.nil_append] at hr
    exact htab _ hmem r hr

/-- An ENR request (`[0]`) is answered with exactly the responder's own record. -/
theorem nodesToSend_enr (s : Svc) (requester : Nat) :
    s.nodesToSend requester [0] = (s, [s.localRec]) := by
  rfl

/-! ### packets -/

theorem splitFold (l : List Rec) : ∀ st : SplitSt,
    ((l.foldl splitStep st).done ++ [(l.foldl splitStep st).cur]).flatten =
      (st.done ++ [st.cur]).flatten ++ l := by
  induction l with
  | nil => intro st; simp
  | cons r rs ih =>
    intro st
    rw [List.foldl_cons, ih]
    unfold splitStep
    by_cases h : r.size + st.size < splitLimit
    · rw [if_pos h]; simp
    · rw [if_neg h]; simp

/-- The packets are a partition (in order) of the records. -/
theorem splitPackets_flatten (recs : List Rec) : (splitPackets recs).flatten = recs := by
  unfold splitPackets
  simp only []
  rw [splitFold]
  simp

theorem splitPackets_sublist {recs p : List Rec} (h : p ∈ splitPackets recs) : p.Sublist recs := by
  have := List.sublist_flatten_of_mem h
  rwa [splitPackets_flatten] at this

theorem nodesPackets_sublist {recs p : List Rec} (h : p ∈ (nodesPackets recs).1) :
    p.Sublist recs := by
  unfold nodesPackets at h
  by_cases he : recs.isEmpty = true
  · rw [if_pos he] at h
    rw [List.mem_singleton.1 h]
    exact List.nil_sublist _
  · rw [if_neg he] at h
    exact splitPackets_sublist h

/-! ### acceptance -/

/-- A packet all of whose records lie at requested distances (own record = 0) — and which, for an
ENR request `[0]`, has at most one record — is accepted whole and does not ban. -/
theorem acceptNodes_ok (peer : Nat) (ds : List Nat) (p : List Rec)
    (h : ∀ r ∈ p, (log2Distance peer r.id).getD 0 ∈ ds) (h1 : ds = [0] → p.length ≤ 1) :
    acceptNodes peer ds p = (p, false) := by
  have key1 : ∀ (f : Rec → Bool), (∀ r ∈ p, f r = true) → p.length ≤ 1 →
      (p.filter f, decide (p.length > 1) || decide ((p.filter f).length < p.length)) = (p, false) := by
    intro f hf hlen
    rw [List.filter_eq_self.2 hf]
    have e1 : decide (p.length > 1) = false := by
      rw [decide_eq_false_iff_not]; omega
    have e2 : decide (p.length < p.length) = false := by
      rw [decide_eq_false_iff_not]; omega
    rw [e1, e2]
    rfl
  have key2 : ∀ (f : Rec → Bool), (∀ r ∈ p, f r = true) →
      (p.filter f, decide ((p.filter f).length < p.length)) = (p, false) := by
    intro f hf
    rw [List.filter_eq_self.2 hf]
    have e2 : decide (p.length < p.length) = false := by
      rw [decide_eq_false_iff_not]; omega
    rw [e2]
  unfold acceptNodes
  by_cases hc : (ds.length == 1 && ds.head? == some 0) = true
  · rw [if_pos hc]
    simp only [Bool.and_eq_true, beq_iff_eq] at hc
    obtain ⟨hl, hh⟩ := hc
    have hreq : ds = [0] := by
      match ds, hl, hh with
      | [x], _, hh => simp at hh; simp [hh]
    subst hreq
    apply key1 _ _ (h1 rfl)
    intro r hr
    have := h r hr
    cases hd : log2Distance peer r.id with
    | none => rfl
    | some d =>
      have hp := log2Distance_ge_one hd
      rw [hd, Option.getD_some, List.mem_singleton] at this
      omega
  · rw [if_neg hc]
    apply key2
    intro r hr
    have := h r hr
    cases hd : log2Distance peer r.id with
    | none =>
      rw [hd] at this
      simpa using this
    | some d =>
      rw [hd] at this
      simpa using this

/-- The honest responder: every packet of `send_nodes_response` is accepted whole by the
requester's filter, for every requested distance list. -/
theorem honest_packets_ok (s : Svc) (requester : Nat) (ds : List Nat)
    (hT : TInv s.cfg.kb s.table) (hL : s.table.localKey = s.localRec.id)
    (hK : RecsKeyed s.table) :
    ∀ p ∈ (nodesPackets (s.nodesToSend requester ds).2).1,
      acceptNodes s.localRec.id ds p = (p, false) := by
  intro p hp
  have hsub := nodesPackets_sublist hp
  refine acceptNodes_ok _ _ _ (fun r hr => nodesToSend_wanted s requester ds hT hL hK r (hsub.subset hr)) ?_
  intro hds
  subst hds
  rw [nodesToSend_enr] at hsub
  exact hsub.length_le

theorem sendNodesResponse_out (s : Svc) (peer : Nat) (addr : Addr) (rid : Bytes) (ds : List Nat) :
    (s.sendNodesResponse peer addr rid ds).2 =
      (nodesPackets (s.nodesToSend peer ds).2).1.map
        (fun p => Out.response peer addr rid (.nodes (nodesPackets (s.nodesToSend peer ds).2).2 p)) := by
  rfl

/-! ### `discovered` leaves the active requests alone -/

theorem entryRemove_active (s : Svc) (key : Nat) : (s.entryRemove key).active = s.active := by
  unfold entryRemove
  cases bucketIndex s.table.localKey key <;> rfl

theorem ite_active {c : Prop} [Decidable c] {α : Type} (a b : Svc × α) (x : List ActiveReq)
    (ha : a.1.active = x) (hb : b.1.active = x) : (if c then a else b).1.active = x := by
  split <;> assumption

theorem discoveredOne_active (s : Svc) (source : Nat) (r : Rec) :
    (s.discoveredOne source r).1.active = s.active := by
  simp only [discoveredOne, entry]
  repeat' (first | apply ite_active | split)
  all_goals first | rfl | exact entryRemove_active _ _

theorem discoveredLoop_cons (s : Svc) (source : Nat) (r : Rec) (rs kept : List Rec)
    (outs : List Out) :
    discoveredLoop s source (r :: rs) kept outs =
      discoveredLoop (s.discoveredOne source r).1 source rs
        (if (s.discoveredOne source r).2.1 then kept ++ [r] else kept)
        (outs ++ (s.discoveredOne source r).2.2) := rfl

theorem discoveredLoop_active : ∀ (recs : List Rec) (s : Svc) (source : Nat) (kept : List Rec)
    (outs : List Out), (discoveredLoop s source recs kept outs).1.active = s.active
  | [], _, _, _, _ => rfl
  | r :: rs, s, source, kept, outs => by
    rw [discoveredLoop_cons, discoveredLoop_active rs]
    exact discoveredOne_active s source r

theorem discovered_active (s : Svc) (source : Nat) (recs : List Rec) (query : Option Nat) :
    (s.discovered source recs query).1.active = s.active := by
  have h := discoveredLoop_active recs s source [] []
  unfold discovered
  generalize discoveredLoop s source recs [] [] = x at h ⊢
  obtain ⟨s1, kept, outs⟩ := x
  simp only [] at h ⊢
  repeat' split
  all_goals exact h

theorem takeNodesResp_fst (s : Svc) (id : Nat) :
    (s.takeNodesResp id).1.active = s.active := by
  unfold takeNodesResp
  cases s.nodesResp.find? (fun p => p.1 == id) <;> rfl

theorem takeNodesResp_snd (s : Svc) (id : Nat) :
    (s.takeNodesResp id).2 = (s.nodesResp.find? (fun p => p.1 == id)).map (·.2) := by
  unfold takeNodesResp
  cases s.nodesResp.find? (fun p => p.1 == id) <;> rfl

/-! ### a NODES response for an active request -/

/-- The distances of the request a NODES response answers (`[]` if it is not a FINDNODE). -/
def requestedOf : ReqBody → List Nat
  | .findNode ds => ds
  | _ => []

theorem handleResponse_nodes_active (s : Svc) (o : Oracle) (peer : Nat) (addr : Addr) (id total : Nat)
    (recs : List Rec) (req : ActiveReq)
    (hreq : s.active.find? (fun a => a.id == id) = some req) :
    (s.handleResponse o peer addr id (.nodes total recs)).1.active =
        s.active.filter (fun b => b.id != id) ∨
    ∃ nr, nodesAccount s.cfg.maxNodesResponse total
      (if total > 1 then (s.nodesResp.find? (fun p => p.1 == id)).map (·.2) else none)
      (acceptNodes peer (requestedOf req.body) recs).1 = .wait nr := by
  obtain ⟨s0, hs0⟩ : ∃ s0 : Svc, s0 = { s with active := s.active.filter (fun b => b.id != id) } :=
    ⟨_, rfl⟩
  have hcfg : s0.cfg = s.cfg := by rw [hs0]
  have hnr : s0.nodesResp = s.nodesResp := by rw [hs0]
  have hact : s0.active = s.active.filter (fun b => b.id != id) := by rw [hs0]
  have hrm : s.removeActive id = (s0, some req) := by
    unfold removeActive
    rw [hreq, hs0]
  clear hs0
  have hX : ∀ x : Svc × Option NodesResp,
      x = (if total > 1 then s0.takeNodesResp id else (s0, none)) →
      x.1.active = s0.active ∧
      x.2 = (if total > 1 then (s0.nodesResp.find? (fun p => p.1 == id)).map (·.2) else none) := by
    intro x hx
    by_cases ht : total > 1
    · rw [if_pos ht] at hx ⊢
      rw [hx]
      exact ⟨takeNodesResp_fst s0 id, takeNodesResp_snd s0 id⟩
    · rw [if_neg ht] at hx ⊢
      rw [hx]
      exact ⟨rfl, rfl⟩
  obtain ⟨rid, rpeer, raddr, rbody, rq, rcb⟩ := req
  unfold handleResponse
  rw [hrm]
  simp only []
  by_cases h1 : (rpeer != peer || raddr != addr) = true
  · rw [if_pos h1]; exact Or.inl hact
  rw [if_neg h1]
  by_cases h2 : (!(RespBody.nodes total recs).matchRequest rbody) = true
  · rw [if_pos h2]; exact Or.inl hact
  rw [if_neg h2]
  by_cases h3 : rcb = true
  · rw [if_pos h3]; exact Or.inl hact
  rw [if_neg h3]
  generalize hx : (if total > 1 then s0.takeNodesResp id else (s0, none)) = x
  obtain ⟨hx1, hx2⟩ := hX x hx.symm
  split
  · rename_i nr hacc
    right
    rw [hx2, hcfg, hnr] at hacc
    refine ⟨nr, ?_⟩
    cases rbody <;> exact hacc
  · rename_i all hacc
    left
    show ((x.1.takeNodesResp id).1.discovered peer all rq).1.active = _
    rw [discovered_active, takeNodesResp_fst, hx1, hact]

end Discv5.Svc

/-
Value-level effect of the routing-table operations (`Model/KBucket.lean`, `Model/Closest.lean`):
a predicate `P key value` that holds of every stored and pending node is preserved by every
operation, provided it holds of the (key, value) the operation is asked to file.  Instantiating
`P` gives at once invariants ("every value is contactable") and provenance statements ("every
(key, value) of the new table is an old one or the inserted one").  Used by C12.
-/
import Discv5Model.Proofs.KBucketLemmas

namespace Discv5.KB

variable {V : Type} [DecidableEq V]
set_option linter.unusedSectionVars false

/-- every stored node and the pending node of the bucket satisfies `P key value` -/
def BVals (P : Nat → V → Prop) (b : Bucket V) : Prop :=
  (∀ n ∈ b.nodes, P n.key n.value) ∧ ∀ p, b.pending = some p → P p.node.key p.node.value

theorem bvals_empty (P : Nat → V → Prop) : BVals P ({} : Bucket V) := by
  constructor
  · intro n hn; cases hn
  · intro p hp; cases hp

theorem BVals.clearPending {P : Nat → V → Prop} {b : Bucket V} (h : BVals P b) :
    BVals P { b with pending := none } := ⟨h.1, fun p hp => by cases hp⟩

theorem insert_vals {c : Cfg V} {now : Nat} {b : Bucket V} {node : Node V} {P : Nat → V → Prop}
    (h : BVals P b) (hn : P node.key node.value) : BVals P (Bucket.insert c now b node).1 := by
  rcases insert_cases c now b node with ⟨h1, _⟩ | ⟨n0, hr, hpos, _, hp⟩ |
    ⟨_, hpos, hfull, hin, hpend, hshape⟩
  · rw [h1]; exact h
  · rw [hr]
    refine ⟨h.1, ?_⟩
    intro p hp; cases hp; exact hn
  · refine ⟨?_, fun p' hp' => h.2 p' (hpend p' hp').1⟩
    have hperm : (Bucket.insert c now b node).1.nodes.Perm (node :: b.nodes) := by
      rcases hshape with ⟨hc, h1, _⟩ | ⟨hc, p, hf, h1, _⟩ | ⟨hc, hf, h1, _⟩
      · rw [h1]; exact List.perm_append_singleton _ _
      · rw [h1]; exact insertAt_perm _ _ _
      · rw [h1]; exact List.perm_append_singleton _ _
    intro n hn'
    rcases List.mem_cons.1 (hperm.mem_iff.1 hn') with rfl | hn'
    · exact hn
    · exact h.1 n hn'

theorem applyPending_vals {c : Cfg V} {now tick : Nat} {b : Bucket V} {P : Nat → V → Prop}
    (h : BVals P b) : BVals P (b.applyPending c now tick).1 := by
  rcases applyPending_cases c now tick b with ⟨hr, _⟩ | ⟨p, _, _, hr⟩ |
    ⟨p, n0, rest, hp, _, hfull, hnodes, h0, hin, _, hpend, hshape⟩ | ⟨p, hp, _, hfull, hr, _⟩
  · rw [hr]; exact h
  · rw [hr]; exact h.clearPending
  · refine ⟨?_, fun p' hp' => by rw [hpend] at hp'; cases hp'⟩
    intro n hn
    rcases List.mem_cons.1 (hshape.perm.mem_iff.1 hn) with rfl | hn
    · exact h.2 p hp
    · exact h.1 n (by rw [hnodes]; exact List.mem_cons_of_mem _ hn)
  · rw [hr]; exact insert_vals h.clearPending (h.2 p hp)

theorem removed_vals {P : Nat → V → Prop} {b : Bucket V} {pos : Nat} (hb : BVals P b) :
    BVals P (Bucket.fcpForRemoval { b with nodes := removeAt b.nodes pos } pos) :=
  ⟨fun n hn => hb.1 n ((removeAt_sublist _ _).subset hn), hb.2⟩

theorem remove_vals {c : Cfg V} {now tick : Nat} {b : Bucket V} {key : Nat} {P : Nat → V → Prop}
    (hb : BVals P b) : BVals P (b.remove c now tick key).1 := by
  unfold Bucket.remove
  cases hpos : b.position key with
  | none => exact hb
  | some pos => exact applyPending_vals (removed_vals hb)

theorem usBucket_vals {P : Nat → V → Prop} {b : Bucket V} {pos : Nat} {old : Node V}
    {conn : Bool} (hb : BVals P b) : BVals P (usBucket b pos old conn) := by
  refine ⟨fun n hn => hb.1 n ((removeAt_sublist _ _).subset hn), ?_⟩
  intro p hp
  unfold usBucket at hp
  by_cases h : (pos == 0 && conn) = true
  · simp [h] at hp
  · simp only [h] at hp; exact hb.2 p hp

theorem updateStatus_vals {c : Cfg V} {now tick : Nat} {b : Bucket V} {key : Nat}
    {conn : Bool} {dir : Option Bool} {P : Nat → V → Prop} (hb : BVals P b) :
    BVals P (b.updateStatus c now tick key conn dir).1 := by
  cases hpos : b.position key with
  | none =>
    rcases (updateStatus_none (c := c) (now := now) (tick := tick) (conn := conn) (dir := dir)
      hpos).1 with h | ⟨p, st', hp, h⟩
    · rw [h]; exact hb
    · rw [h]
      refine ⟨hb.1, ?_⟩
      intro p' hp'
      cases hp'
      exact hb.2 p hp
  | some pos =>
    obtain ⟨old, hold, _⟩ := Bucket.position_some hpos
    rw [(updateStatus_some hpos hold).1]
    exact insert_vals (usBucket_vals hb) (hb.1 old (List.mem_of_getElem? hold))

/-- `update_value` files `value` under `key` (if at all). -/
theorem updateValue_vals {c : Cfg V} {b : Bucket V} {key : Nat} {value : V} {P : Nat → V → Prop}
    (hb : BVals P b) (hv : P key value) : BVals P (b.updateValue c key value).1 := by
  unfold Bucket.updateValue
  cases hpos : b.position key with
  | some pos =>
    obtain ⟨node, hnode, hkey⟩ := Bucket.position_some hpos
    simp only [hnode]
    by_cases hvv : node.value = value
    · rw [if_pos hvv]; exact hb
    · rw [if_neg hvv]
      by_cases hf : (!c.bucketFilter value ((removeAt b.nodes pos).map (·.value))) = true
      · rw [if_pos hf]; exact removed_vals hb
      · rw [if_neg hf]
        refine ⟨?_, hb.2⟩
        intro n hn
        rcases List.mem_cons.1 ((insertAt_perm _ _ _).mem_iff.1 hn) with rfl | hn
        · show P node.key value
          rw [hkey]; exact hv
        · exact hb.1 n ((removeAt_sublist _ _).subset hn)
  | none =>
    cases hp : b.pending with
    | none => exact hb
    | some p =>
      simp only
      by_cases hk : (p.node.key == key) = true
      · rw [if_pos hk]
        refine ⟨hb.1, ?_⟩
        intro p' hp'
        cases hp'
        show P p.node.key value
        rw [beq_iff_eq.1 hk]; exact hv
      · rw [if_neg hk]; exact hb

/-! ### table level -/

/-- every stored and pending node of the table satisfies `P key value` -/
def TVals (P : Nat → V → Prop) (t : Table V) : Prop := ∀ b ∈ t.buckets, BVals P b

theorem TVals.bucket {P : Nat → V → Prop} {t : Table V} (h : TVals P t) (i : Nat) :
    BVals P (t.bucket i) := by
  unfold Table.bucket
  rw [List.getD_eq_getElem?_getD]
  cases hi : t.buckets[i]? with
  | none => exact bvals_empty P
  | some b => exact h b (List.mem_of_getElem? hi)

theorem TVals.setBucket {P : Nat → V → Prop} {t : Table V} {i : Nat} {b : Bucket V}
    (h : TVals P t) (hb : BVals P b) : TVals P (t.setBucket i b) := by
  intro b' hb'
  rcases List.mem_or_eq_of_mem_set hb' with h1 | h1
  · exact h b' h1
  · rw [h1]; exact hb

theorem TVals.congr {P : Nat → V → Prop} {t t' : Table V} (h : TVals P t)
    (h2 : t'.buckets = t.buckets) : TVals P t' := by
  intro b hb; rw [h2] at hb; exact h b hb

theorem TVals.bump {P : Nat → V → Prop} {t : Table V} (h : TVals P t) : TVals P t.bump :=
  h.congr rfl

theorem TVals.mono {P Q : Nat → V → Prop} {t : Table V} (h : TVals P t)
    (hpq : ∀ k v, P k v → Q k v) : TVals Q t :=
  fun b hb => ⟨fun n hn => hpq _ _ ((h b hb).1 n hn), fun p hp => hpq _ _ ((h b hb).2 p hp)⟩

theorem applyAt_vals {P : Nat → V → Prop} {c : Cfg V} {now : Nat} {t : Table V} {i : Nat}
    (h : TVals P t) : TVals P (Table.applyAt c now t i) :=
  (h.setBucket (applyPending_vals (h.bucket i))).congr (Table.applyAt_buckets c now t i)

theorem TVals.setBucket_applyAt {P : Nat → V → Prop} {c : Cfg V} {now : Nat} {t : Table V}
    {i : Nat} {b : Bucket V} (h : TVals P t)
    (hb : BVals P ((Table.applyAt c now t i).bucket i) → BVals P b) :
    TVals P ((Table.applyAt c now t i).setBucket i b) :=
  (applyAt_vals h).setBucket (hb ((applyAt_vals h).bucket i))

theorem bucketIndex_ne {localKey key i : Nat} (h : bucketIndex localKey key = some i) :
    key ≠ localKey := by
  intro e; subst e; rw [bucketIndex_self] at h; cases h

theorem updateNodeStatus_vals {P : Nat → V → Prop} {c : Cfg V} {now : Nat} {t : Table V}
    {key : Nat} {conn : Bool} {dir : Option Bool} (h : TVals P t) :
    TVals P (t.updateNodeStatus c now key conn dir).1 := by
  unfold Table.updateNodeStatus
  simp only
  cases hbi : bucketIndex t.bump.localKey key with
  | none => exact h.bump
  | some i =>
    simp only
    exact h.bump.setBucket_applyAt (fun hb => updateStatus_vals hb)

theorem tremove_vals {P : Nat → V → Prop} {c : Cfg V} {now : Nat} {t : Table V} {key : Nat}
    (h : TVals P t) : TVals P (t.remove c now key).1 := by
  unfold Table.remove
  simp only
  cases hbi : bucketIndex t.bump.localKey key with
  | none => exact h.bump
  | some i =>
    simp only
    exact h.bump.setBucket_applyAt (fun hb => remove_vals hb)

theorem entryTouch_vals {P : Nat → V → Prop} {c : Cfg V} {now : Nat} {t : Table V} {key : Nat}
    (h : TVals P t) : TVals P (t.entryTouch c now key) := by
  unfold Table.entryTouch
  simp only
  cases hbi : bucketIndex t.bump.localKey key with
  | none => exact h.bump
  | some i => exact applyAt_vals h.bump

/-- `update_node key value` files `value` under `key` (which is not the local key). -/
theorem updateNode_vals {P : Nat → V → Prop} {c : Cfg V} {now : Nat} {t : Table V} {key : Nat}
    {value : V} {state : Option Bool} (h : TVals P t) (hv : key ≠ t.localKey → P key value) :
    TVals P (t.updateNode c now key value state).1 := by
  unfold Table.updateNode
  simp only
  cases hbi : bucketIndex t.bump.localKey key with
  | none => exact h.bump
  | some i =>
    have hv' : P key value := hv (bucketIndex_ne hbi)
    simp only
    by_cases hp : (!Table.passesTableFilter c t.bump key value) = true
    · rw [if_pos hp]
      exact h.bump.setBucket_applyAt (fun hb => remove_vals hb)
    · rw [if_neg hp]
      by_cases hf : (Bucket.updateValue c ((Table.applyAt c now t.bump i).bucket i) key value).snd.isFailed = true
      · rw [if_pos hf]
        exact h.bump.setBucket_applyAt (fun hb => updateValue_vals hb hv')
      · rw [if_neg hf]
        cases state with
        | none =>
          exact h.bump.setBucket_applyAt (fun hb => updateValue_vals hb hv')
        | some s =>
          exact h.bump.setBucket_applyAt (fun hb => updateStatus_vals (updateValue_vals hb hv'))

/-- `insert_or_update key value` files `value` under `key` (which is not the local key). -/
theorem insertOrUpdate_vals {P : Nat → V → Prop} {c : Cfg V} {now : Nat} {t : Table V} {key : Nat}
    {value : V} {st : Status} (h : TVals P t) (hv : key ≠ t.localKey → P key value) :
    TVals P (t.insertOrUpdate c now key value st).1 := by
  unfold Table.insertOrUpdate
  simp only
  cases hbi : bucketIndex t.bump.localKey key with
  | none => exact h.bump
  | some i =>
    have hv' : P key value := hv (bucketIndex_ne hbi)
    simp only
    by_cases hp : (!Table.passesTableFilter c t.bump key value) = true
    · rw [if_pos hp]
      exact h.bump.setBucket_applyAt (fun hb => remove_vals hb)
    · rw [if_neg hp]
      by_cases hpos : (((Table.applyAt c now t.bump i).bucket i).position key).isNone = true
      · rw [if_pos hpos]
        exact h.bump.setBucket_applyAt (fun hb => insert_vals hb hv')
      · rw [if_neg hpos]
        by_cases hf : (Bucket.updateStatus c now t.bump.tick ((Table.applyAt c now t.bump i).bucket i)
            key st.conn (some st.incoming)).snd.isFailed = true
        · rw [if_pos hf]
          exact h.bump.setBucket_applyAt (fun hb => updateStatus_vals hb)
        · rw [if_neg hf]
          exact h.bump.setBucket_applyAt (fun hb => updateValue_vals (updateStatus_vals hb) hv')

theorem closest_vals {P : Nat → V → Prop} {c : Cfg V} {now : Nat} {t : Table V} {target : Nat}
    (h : TVals P t) : TVals P (t.closest c now target).1 := by
  unfold Table.closest
  generalize bucketOrder (t.localKey ^^^ target) = l
  have : ∀ (l : List Nat) (acc : Table V × List (Node V)), TVals P acc.1 →
      TVals P (l.foldl (fun (acc : Table V × List (Node V)) i =>
        let t1 := Table.applyAt c now acc.1 i
        (t1, acc.2 ++ sortByDist target (t1.bucket i).nodes)) acc).1 := by
    intro l
    induction l with
    | nil => intro acc h; exact h
    | cons i l ih =>
      intro acc h
      rw [List.foldl_cons]
      exact ih _ (applyAt_vals h)
  exact this l _ h.bump

/-- Every node `closest_values` yields satisfies the value predicate of the table it was read from. -/
theorem closest_out_vals {P : Nat → V → Prop} {c : Cfg V} {now : Nat} {t : Table V} {target : Nat}
    (h : TVals P t) : ∀ n ∈ (t.closest c now target).2, P n.key n.value := by
  unfold Table.closest
  generalize bucketOrder (t.localKey ^^^ target) = l
  have : ∀ (l : List Nat) (acc : Table V × List (Node V)), TVals P acc.1 →
      (∀ n ∈ acc.2, P n.key n.value) →
      ∀ n ∈ (l.foldl (fun (acc : Table V × List (Node V)) i =>
        let t1 := Table.applyAt c now acc.1 i
        (t1, acc.2 ++ sortByDist target (t1.bucket i).nodes)) acc).2, P n.key n.value := by
    intro l
    induction l with
    | nil => intro acc _ h2; exact h2
    | cons i l ih =>
      intro acc h1 h2
      rw [List.foldl_cons]
      have h1' : TVals P (Table.applyAt c now acc.1 i) := applyAt_vals h1
      refine ih _ h1' ?_
      intro n hn
      rcases List.mem_append.mp hn with hn | hn
      · exact h2 n hn
      · have hm : n ∈ ((Table.applyAt c now acc.1 i).bucket i).nodes :=
          (List.mergeSort_perm _ _).mem_iff.mp hn
        exact (h1'.bucket i).1 n hm
  exact this l _ h.bump (by intro n hn; cases hn)

theorem applyForDistances_vals {P : Nat → V → Prop} {c : Cfg V} {now m : Nat} (ds : List Nat)
    (t : Table V) (count : Nat) (h : TVals P t) : TVals P (applyForDistances c now m ds t count) := by
  induction ds generalizing t count with
  | nil => exact h
  | cons d ds ih =>
    unfold applyForDistances
    simp only
    have hset : TVals P (t.setBucket (d - 1) ((t.bucket (d - 1)).applyPending c now t.tick).1) :=
      h.setBucket (applyPending_vals (h.bucket _))
    cases ha : ((t.bucket (d - 1)).applyPending c now t.tick).2 with
    | none => simp only; exact ih _ _ hset
    | some a =>
      simp only
      have hset' : TVals P { t.setBucket (d - 1) ((t.bucket (d - 1)).applyPending c now t.tick).1 with
          applied := t.applied ++ [a] } := hset.congr rfl
      split
      · exact hset'
      · exact ih _ _ hset'

theorem nodesByDistances_vals {P : Nat → V → Prop} {c : Cfg V} {now : Nat} {t : Table V}
    {ds : List Nat} {m : Nat} (h : TVals P t) : TVals P (t.nodesByDistances c now ds m).1 := by
  unfold Table.nodesByDistances
  exact applyForDistances_vals _ _ _ h.bump

/-! ### the local key never changes -/

theorem updateNodeStatus_localKey {c : Cfg V} {now : Nat} {t : Table V} {key : Nat} {conn : Bool}
    {dir : Option Bool} : (t.updateNodeStatus c now key conn dir).1.localKey = t.localKey := by
  unfold Table.updateNodeStatus
  simp only
  cases hbi : bucketIndex t.bump.localKey key with
  | none => rfl
  | some i => simp only [setBucket_localKey, Table.applyAt_localKey]; rfl

theorem tremove_localKey {c : Cfg V} {now : Nat} {t : Table V} {key : Nat} :
    (t.remove c now key).1.localKey = t.localKey := by
  unfold Table.remove
  simp only
  cases hbi : bucketIndex t.bump.localKey key with
  | none => rfl
  | some i => simp only [setBucket_localKey, Table.applyAt_localKey]; rfl

theorem entryTouch_localKey {c : Cfg V} {now : Nat} {t : Table V} {key : Nat} :
    (t.entryTouch c now key).localKey = t.localKey := by
  unfold Table.entryTouch
  simp only
  cases hbi : bucketIndex t.bump.localKey key with
  | none => rfl
  | some i => simp only [Table.applyAt_localKey]; rfl

theorem updateNode_localKey {c : Cfg V} {now : Nat} {t : Table V} {key : Nat} {value : V}
    {state : Option Bool} : (t.updateNode c now key value state).1.localKey = t.localKey := by
  unfold Table.updateNode
  simp only
  cases hbi : bucketIndex t.bump.localKey key with
  | none => rfl
  | some i =>
    simp only
    split
    · simp only [setBucket_localKey, Table.applyAt_localKey]; rfl
    · split <;> (simp only [setBucket_localKey, Table.applyAt_localKey]; rfl)

theorem insertOrUpdate_localKey {c : Cfg V} {now : Nat} {t : Table V} {key : Nat} {value : V}
    {st : Status} : (t.insertOrUpdate c now key value st).1.localKey = t.localKey := by
  unfold Table.insertOrUpdate
  simp only
  cases hbi : bucketIndex t.bump.localKey key with
  | none => rfl
  | some i =>
    simp only
    split
    · simp only [setBucket_localKey, Table.applyAt_localKey]; rfl
    · split
      · simp only [setBucket_localKey, Table.applyAt_localKey]; rfl
      · split <;> (simp only [setBucket_localKey, Table.applyAt_localKey]; rfl)

theorem closest_localKey {c : Cfg V} {now : Nat} {t : Table V} {target : Nat} :
    (t.closest c now target).1.localKey = t.localKey := by
  unfold Table.closest
  generalize bucketOrder (t.localKey ^^^ target) = l
  have : ∀ (l : List Nat) (acc : Table V × List (Node V)),
      (l.foldl (fun (acc : Table V × List (Node V)) i =>
        let t1 := Table.applyAt c now acc.1 i
        (t1, acc.2 ++ sortByDist target (t1.bucket i).nodes)) acc).1.localKey = acc.1.localKey := by
    intro l
    induction l with
    | nil => intro acc; rfl
    | cons i l ih =>
      intro acc
      rw [List.foldl_cons, ih]
      exact Table.applyAt_localKey c now acc.1 i
  rw [this]; rfl

theorem applyForDistances_localKey {c : Cfg V} {now m : Nat} (ds : List Nat)
    (t : Table V) (count : Nat) : (applyForDistances c now m ds t count).localKey = t.localKey := by
  induction ds generalizing t count with
  | nil => rfl
  | cons d ds ih =>
    unfold applyForDistances
    simp only
    cases ha : ((t.bucket (d - 1)).applyPending c now t.tick).2 with
    | none => simp only; rw [ih]; rfl
    | some a =>
      simp only
      split
      · rfl
      · rw [ih]; rfl

theorem nodesByDistances_localKey {c : Cfg V} {now : Nat} {t : Table V}
    {ds : List Nat} {m : Nat} : (t.nodesByDistances c now ds m).1.localKey = t.localKey := by
  unfold Table.nodesByDistances
  simp only
  rw [applyForDistances_localKey]; rfl

/-! ### (key, value) pairs of the table and lookups -/

/-- `(key, value)` occurs in the table as a stored or pending node -/
def HasPair (t : Table V) (k : Nat) (v : V) : Prop :=
  ∃ b ∈ t.buckets, (∃ n ∈ b.nodes, n.key = k ∧ n.value = v) ∨
    (∃ p, b.pending = some p ∧ p.node.key = k ∧ p.node.value = v)

theorem tvals_hasPair (t : Table V) : TVals (HasPair t) t :=
  fun b hb => ⟨fun n hn => ⟨b, hb, Or.inl ⟨n, hn, rfl, rfl⟩⟩,
    fun p hp => ⟨b, hb, Or.inr ⟨p, hp, rfl, rfl⟩⟩⟩

theorem TVals.of_hasPair {P : Nat → V → Prop} {t : Table V} (h : TVals P t) {k : Nat} {v : V}
    (hp : HasPair t k v) : P k v := by
  obtain ⟨b, hb, ⟨n, hn, rfl, rfl⟩ | ⟨p, hp, rfl, rfl⟩⟩ := hp
  · exact (h b hb).1 n hn
  · exact (h b hb).2 p hp

theorem hasPair_key_mem {t : Table V} {k : Nat} {v : V} (h : HasPair t k v) : k ∈ t.allKeys := by
  obtain ⟨b, hb, h⟩ := h
  unfold Table.allKeys
  refine List.mem_flatMap.2 ⟨b, hb, ?_⟩
  rcases h with ⟨n, hn, rfl, _⟩ | ⟨p, hp, rfl, _⟩
  · exact List.mem_append_left _ (List.mem_map_of_mem hn)
  · rw [hp]; exact List.mem_append_right _ (List.mem_singleton.2 rfl)

theorem mem_allKeys_hasPair {t : Table V} {k : Nat} (h : k ∈ t.allKeys) : ∃ v, HasPair t k v := by
  unfold Table.allKeys at h
  obtain ⟨b, hb, hk⟩ := List.mem_flatMap.1 h
  rcases List.mem_append.1 hk with hk | hk
  · obtain ⟨n, hn, rfl⟩ := List.mem_map.1 hk
    exact ⟨n.value, b, hb, Or.inl ⟨n, hn, rfl, rfl⟩⟩
  · cases hp : b.pending with
    | none => rw [hp] at hk; cases hk
    | some p =>
      rw [hp] at hk
      simp only [List.mem_singleton] at hk
      exact ⟨p.node.value, b, hb, Or.inr ⟨p, hp, hk.symm, rfl⟩⟩

end Discv5.KB

/-
Helper lemmas for C01 / C03 (handler model): a weakest-precondition calculus over the handler
monad `M` (state *and* output log), a parametric invariant `Inv X` (sessions, active calls, queued
requests, outputs, challenge/cd frame) with one preservation lemma per handler function, and its
instances for the identity properties.
-/
import Discv5Model.Proofs.HandlerBasics
namespace Discv5.H.HI

set_option linter.unusedSimpArgs false

abbrev St := HState × List Out

/-- weakest precondition -/
def wp {α} (m : M α) (Q : α → St → Prop) (st : St) : Prop := Q (m.run st).1 (m.run st).2

theorem wp_pure {α} (x : α) (Q : α → St → Prop) : wp (pure x) Q = Q x := rfl
theorem wp_bind {α β} (m : M α) (f : α → M β) (Q : β → St → Prop) :
    wp (m >>= f) Q = wp m (fun a => wp (f a) Q) := rfl
theorem wp_getS (Q : HState → St → Prop) : wp getS Q = fun st => Q st.1 st := rfl
theorem wp_setS (s : HState) (Q : Unit → St → Prop) : wp (setS s) Q = fun st => Q () (s, st.2) := rfl
theorem wp_modS (f : HState → HState) (Q : Unit → St → Prop) :
    wp (modS f) Q = fun st => Q () (f st.1, st.2) := rfl
theorem wp_emit (o : Out) (Q : Unit → St → Prop) :
    wp (emit o) Q = fun st => Q () (st.1, st.2 ++ [o]) := rfl
theorem wp_send (na : NA) (p : Pkt) (Q : Unit → St → Prop) :
    wp (send na p) Q = fun st => Q () (st.1, st.2 ++ [.send na p]) := rfl
theorem wp_ite {α} (b : Prop) [Decidable b] (m1 m2 : M α) (Q : α → St → Prop) :
    wp (if b then m1 else m2) Q = fun st => if b then wp m1 Q st else wp m2 Q st := by
  by_cases h : b <;> simp [h]
theorem wp_mono {α} {m : M α} {Q Q' : α → St → Prop} {st : St} (h : wp m Q st)
    (hq : ∀ a st', Q a st' → Q' a st') : wp m Q' st := hq _ _ h

structure Ctx where
  GN : NA → Prop
  GS : NA → Session → Prop
  SL : List NA → Prop
  GC : Contact → Prop
  GPk : Pkt → Prop
  GO : Out → Prop
  F : List (NA × Challenge × Nat × Nat) → Nat → Prop
  gs_gn : ∀ na sess, GS na sess → GN na
  gs_counter : ∀ na (sess : Session) k, GS na sess → GS na { sess with counter := k }
  gs_await : ∀ na (sess : Session), GS na sess → GS na { sess with awaitingEnr := none }
  gc_gn : ∀ ct, GC ct → GN ct.na
  go_est_contact : ∀ ct r b, GC ct → ct.record = some r → GO (.established r ct.na.addr b)
  gpk_msg : ∀ a n ct, GPk (.message a n ct)
  gpk_hs : ∀ a n sig eph r ct, GPk (.handshake a n sig eph r ct)
  go_failed : ∀ rid e, GO (.failed rid e)
  go_expired : ∀ l, GO (.expired l)
  go_wru : ∀ na n, GO (.wru na n)
  go_send : ∀ na p, GPk p → GO (.send na p)
  go_request : ∀ na rid b, GN na → GO (.request na rid b)
  go_response : ∀ na rid rb, GN na → GO (.response na rid rb)
  go_est : ∀ na r b, GN na → r.id = na.id → GO (.established r na.addr b)
  go_unv : ∀ na r, GN na → GO (.unverifiable r na.addr na.id)
  sl_filter : ∀ l (p : NA → Bool), SL l → SL (l.filter p)
  sl_insert : ∀ l na, SL l → SL (l.filter (· != na) ++ [na])
  sl_suffix : ∀ l1 l2, SL (l1 ++ l2) → SL l2

structure Inv (X : Ctx) (st : St) : Prop where
  sess : ∀ e ∈ st.1.sessions, X.GS e.1 e.2.1
  keys : X.SL (st.1.sessions.map (·.1))
  act : ∀ call ∈ st.1.active, X.GC call.contact ∧ X.GPk call.pkt
  pend : ∀ e ∈ st.1.pending, ∀ pr ∈ e.2, X.GC pr.contact
  outs : ∀ o ∈ st.2, X.GO o
  frame : X.F st.1.challenges st.1.fresh.cd

/-- `m` keeps the invariant and its result satisfies `post`. -/
def Spec {α} (X : Ctx) (m : M α) (post : α → Prop) : Prop :=
  ∀ st, Inv X st → wp m (fun r st' => Inv X st' ∧ post r) st

variable {X : Ctx}

theorem Inv.emit {st : St} (h : Inv X st) {o : Out} (ho : X.GO o) : Inv X (st.1, st.2 ++ [o]) :=
  ⟨h.sess, h.keys, h.act, h.pend, by
    intro o' ho'
    rcases List.mem_append.1 ho' with h1 | h1
    · exact h.outs _ h1
    · rw [List.mem_singleton.1 h1]; exact ho, h.frame⟩

theorem map_fst_filter_ne (l : List (NA × Session × Nat)) (na : NA) :
    (l.filter (fun e => e.1 != na)).map (·.1) = (l.map (·.1)).filter (· != na) := by
  rw [List.filter_map]; rfl

theorem Inv.exempt {st : St} (h : Inv X st) (x) : Inv X ({ st.1 with exempt := x }, st.2) :=
  ⟨h.sess, h.keys, h.act, h.pend, h.outs, h.frame⟩

theorem spec_addExpected (a : Addr) : Spec X (addExpected a) (fun _ => True) := by
  intro st h
  unfold addExpected
  simp only [wp_modS]
  refine ⟨?_, trivial⟩
  by_cases hc : (st.1.exempt.any (·.1 == a)) = true
  · rw [if_pos hc]; exact h.exempt _
  · rw [if_neg hc]; exact h.exempt _

theorem spec_removeExpected (a : Addr) : Spec X (removeExpected a) (fun _ => True) := by
  intro st h
  unfold removeExpected
  simp only [wp_modS]
  exact ⟨h.exempt _, trivial⟩

theorem spec_freshNonce (c : Cfg) : Spec X (freshNonce c) (fun _ => True) := by
  intro st h
  unfold freshNonce
  simp only [wp_bind, wp_getS, wp_setS, wp_pure]
  exact ⟨⟨h.sess, h.keys, h.act, h.pend, h.outs, h.frame⟩, trivial⟩

theorem spec_freshEph (c : Cfg) : Spec X (freshEph c) (fun _ => True) := by
  intro st h
  unfold freshEph
  simp only [wp_bind, wp_getS, wp_setS, wp_pure]
  exact ⟨⟨h.sess, h.keys, h.act, h.pend, h.outs, h.frame⟩, trivial⟩

theorem spec_freshRid (c : Cfg) : Spec X (freshRid c) (fun _ => True) := by
  intro st h
  unfold freshRid
  simp only [wp_bind, wp_getS, wp_setS, wp_pure]
  exact ⟨⟨h.sess, h.keys, h.act, h.pend, h.outs, h.frame⟩, trivial⟩

theorem spec_emit (o : Out) (ho : X.GO o) : Spec X (emit o) (fun _ => True) := by
  intro st h
  simp only [wp_emit]
  exact ⟨h.emit ho, trivial⟩

theorem spec_send (na : NA) (p : Pkt) (hp : X.GPk p) : Spec X (send na p) (fun _ => True) :=
  spec_emit _ (X.go_send na p hp)

theorem spec_sessGetMut (c : Cfg) (na : NA) :
    Spec X (sessGetMut c na) (fun r => ∀ sess, r = some sess → X.GS na sess) := by
  intro st h
  unfold sessGetMut
  simp only [wp_bind, wp_getS]
  rcases hf : st.1.sessions.find? (·.1 == na) with _ | ⟨k, sess, stamp⟩
  · simp only [hf, wp_pure]
    exact ⟨h, fun _ hh => by cases hh⟩
  · have hmem := List.mem_of_find?_eq_some hf
    have hk : k = na := by simpa using List.find?_some hf
    subst hk
    have hgs : X.GS k sess := h.sess _ hmem
    simp only [hf, wp_ite, wp_bind, wp_setS, wp_pure]
    by_cases hexp : stamp + c.sessionTtl < st.1.rt
    · rw [if_pos hexp]
      refine ⟨⟨?_, ?_, h.act, h.pend, h.outs, h.frame⟩, fun _ hh => by cases hh⟩
      · intro e he; exact h.sess e (List.mem_filter.1 he).1
      · show X.SL (List.map _ (List.filter _ _))
        rw [map_fst_filter_ne]; exact X.sl_filter _ _ h.keys
    · rw [if_neg hexp]
      refine ⟨⟨?_, ?_, h.act, h.pend, h.outs, h.frame⟩, fun _ hh => by cases hh; exact hgs⟩
      · intro e he
        rcases List.mem_append.1 he with h1 | h1
        · exact h.sess e (List.mem_filter.1 h1).1
        · rw [List.mem_singleton.1 h1]; exact hgs
      · show X.SL (List.map _ (List.filter _ _ ++ _))
        rw [List.map_append, map_fst_filter_ne]; exact X.sl_insert _ _ h.keys



theorem Inv.of_eq {st st' : St} (h : Inv X st) (h1 : st'.1.sessions = st.1.sessions)
    (h2 : st'.1.active = st.1.active) (h3 : st'.1.pending = st.1.pending) (h4 : st'.2 = st.2)
    (h5 : st'.1.challenges = st.1.challenges) (h6 : st'.1.fresh.cd = st.1.fresh.cd) : Inv X st' :=
  ⟨h1 ▸ h.sess, h1 ▸ h.keys, h2 ▸ h.act, h3 ▸ h.pend, h4 ▸ h.outs, by rw [h5, h6]; exact h.frame⟩

macro "wpc " t:term : tactic => `(tactic| refine wp_mono ($t _ (by assumption)) ?_)

theorem map_fst_put (l : List (NA × Session × Nat)) (na : NA) (sess : Session) :
    (l.map (fun e => if e.1 == na then (na, sess, e.2.2) else e)).map (·.1) = l.map (·.1) := by
  rw [List.map_map]
  apply List.map_congr_left
  intro e _
  by_cases h : (e.1 == na) = true
  · simp only [Function.comp, h, if_true]; exact (beq_iff_eq.1 h).symm
  · simp only [Function.comp, h]; rfl

theorem spec_sessPut (na : NA) (sess : Session) (hs : X.GS na sess) :
    Spec X (sessPut na sess) (fun _ => True) := by
  intro st h
  unfold sessPut
  simp only [wp_modS]
  refine ⟨⟨?_, ?_, h.act, h.pend, h.outs, h.frame⟩, trivial⟩
  · intro e he
    obtain ⟨e0, he0, rfl⟩ := List.mem_map.1 he
    by_cases hk : (e0.1 == na) = true
    · rw [if_pos hk]; exact hs
    · rw [if_neg hk]; exact h.sess _ he0
  · show X.SL (List.map _ (List.map _ _))
    rw [map_fst_put]; exact h.keys

theorem spec_sessInsert (c : Cfg) (na : NA) (sess : Session) (hs : X.GS na sess) :
    Spec X (sessInsert c na sess) (fun _ => True) := by
  intro st h
  unfold sessInsert
  simp only [wp_modS]
  have hall : ∀ e ∈ st.1.sessions.filter (·.1 != na) ++ [(na, sess, st.1.rt)], X.GS e.1 e.2.1 := by
    intro e he
    rcases List.mem_append.1 he with h1 | h1
    · exact h.sess e (List.mem_filter.1 h1).1
    · rw [List.mem_singleton.1 h1]; exact hs
  have hsl : X.SL ((st.1.sessions.filter (·.1 != na) ++ [(na, sess, st.1.rt)]).map (·.1)) := by
    rw [List.map_append, map_fst_filter_ne]; exact X.sl_insert _ _ h.keys
  refine ⟨⟨?_, ?_, h.act, h.pend, h.outs, h.frame⟩, trivial⟩
  · intro e he
    by_cases hl : (st.1.sessions.filter (·.1 != na) ++ [(na, sess, st.1.rt)]).length > c.sessionCap
    · simp only [hl, if_true] at he; exact hall e (List.mem_of_mem_drop he)
    · simp only [hl, if_false] at he; exact hall e he
  · show X.SL (List.map _ (if _ then _ else _))
    by_cases hl : (st.1.sessions.filter (·.1 != na) ++ [(na, sess, st.1.rt)]).length > c.sessionCap
    · rw [if_pos hl]
      apply X.sl_suffix (((st.1.sessions.filter (·.1 != na) ++ [(na, sess, st.1.rt)]).take 1).map (·.1))
      rw [← List.map_append, List.take_append_drop]; exact hsl
    · rw [if_neg hl]; exact hsl

theorem spec_sessRemove (na : NA) : Spec X (sessRemove na) (fun _ => True) := by
  intro st h
  unfold sessRemove
  simp only [wp_modS]
  refine ⟨⟨?_, ?_, h.act, h.pend, h.outs, h.frame⟩, trivial⟩
  · intro e he; exact h.sess e (List.mem_filter.1 he).1
  · show X.SL (List.map _ (List.filter _ _))
    rw [map_fst_filter_ne]; exact X.sl_filter _ _ h.keys

theorem popExpired_suffix (ttl rt : Nat) (l : List (NA × Session × Nat)) :
    ∃ pre, l = pre ++ (popExpired ttl rt l).2 := by
  induction l with
  | nil => exact ⟨[], rfl⟩
  | cons x xs ih =>
    obtain ⟨na, sess, stamp⟩ := x
    unfold popExpired
    by_cases h : stamp + ttl ≥ rt
    · rw [if_pos h]; exact ⟨[], rfl⟩
    · rw [if_neg h]
      obtain ⟨pre, hpre⟩ := ih
      exact ⟨(na, sess, stamp) :: pre, by rw [List.cons_append, ← hpre]⟩

theorem spec_removeExpiredSessions (c : Cfg) : Spec X (removeExpiredSessions c) (fun _ => True) := by
  intro st h
  unfold removeExpiredSessions
  simp only [wp_bind, wp_getS, wp_setS, wp_ite, wp_emit, wp_pure]
  obtain ⟨pre, hpre⟩ := popExpired_suffix c.sessionTtl st.1.rt st.1.sessions
  have hI : Inv X ({ st.1 with sessions := (popExpired c.sessionTtl st.1.rt st.1.sessions).2 }, st.2) := by
    refine ⟨?_, ?_, h.act, h.pend, h.outs, h.frame⟩
    · intro e he; apply h.sess; rw [hpre]; exact List.mem_append_right _ he
    · apply X.sl_suffix (pre.map (·.1)); rw [← List.map_append]
      show X.SL (List.map _ (pre ++ (popExpired c.sessionTtl st.1.rt st.1.sessions).2))
      rw [← hpre]; exact h.keys
  split
  · exact ⟨hI.emit (X.go_expired _), trivial⟩
  · exact ⟨hI, trivial⟩

theorem spec_activeInsert (c : Cfg) (call : Call) (hc : X.GC call.contact) (hp : X.GPk call.pkt) :
    Spec X (activeInsert c call) (fun _ => True) := by
  intro st h
  unfold activeInsert
  simp only [wp_modS]
  refine ⟨⟨h.sess, h.keys, ?_, h.pend, h.outs, h.frame⟩, trivial⟩
  intro x hx
  rcases List.mem_append.1 hx with h1 | h1
  · exact h.act _ h1
  · rw [List.mem_singleton.1 h1]; exact ⟨hc, hp⟩

theorem Inv.active_sub {st : St} (h : Inv X st) (l : List Call) (hl : ∀ x ∈ l, x ∈ st.1.active) :
    Inv X ({ st.1 with active := l }, st.2) :=
  ⟨h.sess, h.keys, fun x hx => h.act x (hl x hx), h.pend, h.outs, h.frame⟩

theorem spec_activeRemoveByNonce (nonce : Nat) :
    Spec X (activeRemoveByNonce nonce)
      (fun r => ∀ call, r = some call → X.GC call.contact ∧ X.GPk call.pkt) := by
  intro st h
  unfold activeRemoveByNonce
  simp only [wp_bind, wp_getS]
  rcases hf : st.1.active.find? (·.pkt.nonce == nonce) with _ | call
  · simp only [hf, wp_pure]; exact ⟨h, fun _ hh => by cases hh⟩
  · simp only [hf, wp_bind, wp_setS, wp_pure]
    exact ⟨h.active_sub _ (fun x hx => List.mem_of_mem_erase hx),
      fun _ hh => by cases hh; exact h.act _ (List.mem_of_find?_eq_some hf)⟩

theorem spec_activeRemoveRequest (na : NA) (rid : Nat) :
    Spec X (activeRemoveRequest na rid)
      (fun r => ∀ call, r = some call → X.GC call.contact ∧ X.GPk call.pkt) := by
  intro st h
  unfold activeRemoveRequest
  simp only [wp_bind, wp_getS]
  rcases hf : st.1.active.find? (fun call => callNA call == na && call.rid == rid) with _ | call
  · simp only [hf, wp_pure]; exact ⟨h, fun _ hh => by cases hh⟩
  · simp only [hf, wp_bind, wp_setS, wp_pure]
    exact ⟨h.active_sub _ (fun x hx => List.mem_of_mem_erase hx),
      fun _ hh => by cases hh; exact h.act _ (List.mem_of_find?_eq_some hf)⟩

theorem spec_activeRemoveRequests (na : NA) :
    Spec X (activeRemoveRequests na) (fun _ => True) := by
  intro st h
  unfold activeRemoveRequests
  simp only [wp_bind, wp_getS, wp_setS, wp_pure]
  exact ⟨h.active_sub _ (fun x hx => (List.mem_filter.1 hx).1), trivial⟩

theorem spec_encryptMessage (c : Cfg) (sess : Session) (pt : Msg) :
    Spec X (encryptMessage c sess pt)
      (fun r => r.1 = { sess with counter := sess.counter + 1 } ∧ X.GPk r.2) := by
  intro st h
  unfold encryptMessage freshNonce
  simp only [wp_bind, wp_getS, wp_setS, wp_pure]
  exact ⟨h.of_eq rfl rfl rfl rfl rfl rfl, trivial, X.gpk_msg _ _ _⟩

theorem spec_isAwaitingSession (c : Cfg) (na : NA) : Spec X (isAwaitingSession c na) (fun _ => True) := by
  intro st h
  unfold isAwaitingSession
  simp only [wp_bind]
  wpc spec_sessGetMut c na
  rintro r st1 ⟨h1, -⟩
  cases r <;> simp only [wp_pure, wp_bind, wp_getS] <;> exact ⟨h1, trivial⟩

theorem spec_forEach {α} (l : List α) (f : α → M Unit)
    (hf : ∀ x ∈ l, Spec X (f x) (fun _ => True)) : Spec X (forEach l f) (fun _ => True) := by
  induction l with
  | nil => intro st h; exact ⟨h, trivial⟩
  | cons x xs ih =>
    intro st h
    rw [forEach_cons]; simp only [wp_bind]
    wpc hf x (List.mem_cons_self ..)
    rintro _ st1 ⟨h1, -⟩
    exact ih (fun y hy => hf y (List.mem_cons_of_mem _ hy)) st1 h1

theorem spec_enqueue (contact : Contact) (rid : Nat) (internal : Bool) (body : Nat)
    (hc : X.GC contact) : Spec X (modS fun s =>
      let pr : PendingReq := { contact := contact, rid := rid, internal := internal, body := body }
      if s.pending.any (·.1 == contact.na) then
        { s with pending := s.pending.map (fun e => if e.1 == contact.na then (e.1, e.2 ++ [pr]) else e) }
      else { s with pending := s.pending ++ [(contact.na, [pr])] }) (fun _ => True) := by
  intro st h
  rw [wp_modS]
  refine ⟨?_, trivial⟩
  by_cases hp : (st.1.pending.any fun x => x.fst == contact.na) = true
  · simp only [hp, if_true]
    refine ⟨h.sess, h.keys, h.act, ?_, h.outs, h.frame⟩
    intro e he pr hpr
    obtain ⟨e0, he0, rfl⟩ := List.mem_map.1 he
    by_cases hk : (e0.1 == contact.na) = true
    · rw [if_pos hk] at hpr
      rcases List.mem_append.1 hpr with h1 | h1
      · exact h.pend e0 he0 pr h1
      · rw [List.mem_singleton.1 h1]; exact hc
    · rw [if_neg hk] at hpr; exact h.pend e0 he0 pr hpr
  · simp only [hp]
    refine ⟨h.sess, h.keys, h.act, ?_, h.outs, h.frame⟩
    intro e he pr hpr
    rcases List.mem_append.1 he with h1 | h1
    · exact h.pend e h1 pr hpr
    · rw [List.mem_singleton.1 h1] at hpr
      rw [List.mem_singleton.1 hpr]; exact hc

theorem spec_sendRequest (c : Cfg) (contact : Contact) (rid : Nat) (internal : Bool) (body : Nat)
    (hc : X.GC contact) : Spec X (sendRequest c contact rid internal body) (fun _ => True) := by
  -- the common tail: register, send, insert
  have tail : ∀ (pkt : Pkt) (ini : Bool) (st : St), Inv X st → X.GPk pkt →
      wp (addExpected contact.na.addr) (fun _ => wp (send contact.na pkt) (fun _ =>
        wp (activeInsert c
          { contact := contact, pkt := pkt, rid := rid, internal := internal, body := body, initiating := ini })
          (fun _ st' => Inv X st' ∧ True))) st := by
    intro pkt ini st h hp
    wpc spec_addExpected contact.na.addr
    rintro _ st1 ⟨h1, -⟩
    wpc spec_send contact.na pkt hp
    rintro _ st2 ⟨h2, -⟩
    exact spec_activeInsert c _ hc hp st2 h2
  intro st h
  unfold sendRequest
  simp only [wp_bind, wp_pure, wp_getS, wp_ite]
  by_cases hl : c.listen.contains contact.na.addr = true
  · rw [if_pos hl]; exact ⟨h, trivial⟩
  rw [if_neg hl]
  by_cases hch : (st.1.challenges.any fun x => x.fst == contact.na) = true
  · rw [if_pos hch, if_pos trivial]
    wpc spec_enqueue contact rid internal body hc
    rintro _ st1 ⟨h1, -⟩; exact ⟨h1, trivial⟩
  rw [if_neg hch]
  wpc spec_isAwaitingSession c contact.na
  rintro a st1 ⟨h1, -⟩
  by_cases ha : a = true
  · rw [if_pos ha]
    wpc spec_enqueue contact rid internal body hc
    rintro _ st2 ⟨h2, -⟩; exact ⟨h2, trivial⟩
  rw [if_neg ha]
  wpc spec_sessGetMut c contact.na
  rintro r st2 ⟨h2, hr⟩
  rcases r with _ | sess
  · simp only [wp_bind, wp_pure]
    wpc spec_freshNonce c
    rintro n st3 ⟨h3, -⟩
    exact tail _ _ st3 h3 (X.gpk_msg _ _ _)
  · simp only [wp_bind, wp_pure]
    wpc spec_encryptMessage c sess _
    rintro ⟨sess', p⟩ st3 ⟨h3, hs', hp⟩
    simp only at hs' hp
    subst hs'
    simp only [wp_bind, wp_pure]
    wpc spec_sessPut contact.na _ (X.gs_counter _ _ _ (hr _ rfl))
    rintro _ st4 ⟨h4, -⟩
    exact tail _ _ st4 h4 hp



theorem Inv.pending_sub {st : St} (h : Inv X st) (l : List (NA × List PendingReq))
    (hl : ∀ x ∈ l, x ∈ st.1.pending) : Inv X ({ st.1 with pending := l }, st.2) :=
  ⟨h.sess, h.keys, h.act, fun x hx => h.pend x (hl x hx), h.outs, h.frame⟩

theorem spec_sendPendingRequests (c : Cfg) (na : NA) :
    Spec X (sendPendingRequests c na) (fun _ => True) := by
  intro st h
  unfold sendPendingRequests
  simp only [wp_bind, wp_getS, wp_setS]
  refine spec_forEach _ _ ?_ _ (h.pending_sub _ (fun x hx => (List.mem_filter.1 hx).1))
  intro pr hpr
  have hc : X.GC pr.contact := by
    rcases hf : st.1.pending.find? (·.1 == na) with _ | e
    · simp only [hf] at hpr; cases hpr
    · simp only [hf] at hpr
      exact h.pend e (List.mem_of_find?_eq_some hf) pr hpr
  intro st1 h1
  simp only [wp_bind]
  wpc spec_sendRequest c pr.contact pr.rid pr.internal pr.body hc
  rintro r st2 ⟨h2, -⟩
  rcases r with _ | e
  · exact ⟨h2, trivial⟩
  · simp only [wp_ite, wp_emit, wp_pure]
    split
    · exact ⟨h2.emit (X.go_failed _ _), trivial⟩
    · exact ⟨h2, trivial⟩

theorem spec_failSession (c : Cfg) (na : NA) (e : Err) (rm : Bool) :
    Spec X (failSession c na e rm) (fun _ => True) := by
  have part2 : ∀ st : St, Inv X st → wp (activeRemoveRequests na) (fun calls =>
      wp (forEach calls fun call =>
          if (!call.internal) = true then do
            let __r ← emit (Out.failed call.rid e)
            removeExpected na.addr
          else removeExpected na.addr) (fun _ st' => Inv X st' ∧ True)) st := by
    intro st h
    wpc spec_activeRemoveRequests na
    rintro calls st1 ⟨h1, -⟩
    refine spec_forEach _ _ ?_ _ h1
    intro call _ st2 h2
    simp only [wp_ite, wp_bind, wp_emit]
    split
    · exact spec_removeExpected _ _ (h2.emit (X.go_failed _ _))
    · exact spec_removeExpected _ _ h2
  have part1 : ∀ st : St, Inv X st → wp (do
      let s ← getS
      match List.find? (fun x => x.fst == na) s.pending with
        | some ent => do
          setS { s with pending := List.filter (fun x => x.fst != na) s.pending }
          let __r ← forEach ent.snd fun pr => if (!pr.internal) = true then emit (Out.failed pr.rid e) else pure ()
          let calls ← activeRemoveRequests na
          forEach calls fun call =>
            if (!call.internal) = true then do
              let __r ← emit (Out.failed call.rid e)
              removeExpected na.addr
            else removeExpected na.addr
        | none => do
          let calls ← activeRemoveRequests na
          forEach calls fun call =>
            if (!call.internal) = true then do
              let __r ← emit (Out.failed call.rid e)
              removeExpected na.addr
            else removeExpected na.addr) (fun _ st' => Inv X st' ∧ True) st := by
    intro st h
    simp only [wp_bind, wp_getS]
    rcases hf : st.1.pending.find? (fun x => x.fst == na) with _ | ent
    · simp only [hf, wp_bind]; exact part2 st h
    · simp only [hf, wp_bind, wp_setS]
      refine wp_mono (spec_forEach _ _ ?_ _ (h.pending_sub _ (fun x hx => (List.mem_filter.1 hx).1))) ?_
      · intro pr _ st1 h1
        simp only [wp_ite, wp_emit, wp_pure]
        split
        · exact ⟨h1.emit (X.go_failed _ _), trivial⟩
        · exact ⟨h1, trivial⟩
      · rintro _ st1 ⟨h1, -⟩; exact part2 st1 h1
  intro st h
  unfold failSession
  cases rm
  · simp only [Bool.false_eq_true, if_false]; exact part1 st h
  · simp only [if_true, wp_bind]
    wpc spec_removeExpiredSessions c
    rintro _ st1 ⟨h1, -⟩
    wpc spec_sessRemove na
    rintro _ st2 ⟨h2, -⟩
    exact part1 st2 h2

theorem spec_failRequest (c : Cfg) (call : Call) (e : Err) (rm : Bool) :
    Spec X (failRequest c call e rm) (fun _ => True) := by
  intro st h
  unfold failRequest
  simp only [wp_ite, wp_bind, wp_emit]
  split
  · exact spec_failSession c _ e rm _ (h.emit (X.go_failed _ _))
  · exact spec_failSession c _ e rm _ h

theorem spec_handleRequestTimeout (c : Cfg) (call : Call) (hc : X.GC call.contact)
    (hp : X.GPk call.pkt) : Spec X (handleRequestTimeout c call) (fun _ => True) := by
  intro st h
  unfold handleRequestTimeout
  simp only [wp_ite, wp_bind]
  split
  · wpc spec_removeExpected _
    rintro _ st1 ⟨h1, -⟩
    exact spec_failRequest c call _ _ st1 h1
  · wpc spec_send _ _ hp
    rintro _ st1 ⟨h1, -⟩
    exact spec_activeInsert c { call with retries := call.retries + 1 } hc hp st1 h1



theorem spec_reencryptAll (c : Cfg) (na : NA) (calls : List Call) :
    ∀ (sess : Session) (acc : List (Nat × Pkt)), X.GS na sess → (∀ x ∈ acc, X.GPk x.2) →
    Spec X (reencryptAll c calls sess acc) (fun r => X.GS na r.1 ∧ ∀ x ∈ r.2, X.GPk x.2) := by
  induction calls with
  | nil => intro sess acc hs hacc st h; exact ⟨h, hs, hacc⟩
  | cons call rest ih =>
    intro sess acc hs hacc st h
    unfold reencryptAll
    simp only [wp_bind]
    wpc spec_encryptMessage c sess _
    rintro ⟨sess', p⟩ st1 ⟨h1, hs', hp⟩
    simp only at hs' hp
    subst hs'
    refine ih _ _ (X.gs_counter _ _ _ hs) ?_ st1 h1
    intro x hx
    rcases List.mem_append.1 hx with h2 | h2
    · exact hacc x h2
    · rw [List.mem_singleton.1 h2]; exact hp

theorem spec_replayActiveRequests (c : Cfg) (na : NA) (skip : Option Nat) :
    Spec X (replayActiveRequests c na skip) (fun _ => True) := by
  intro st h
  unfold replayActiveRequests
  simp only [wp_bind]
  wpc spec_sessGetMut c na
  rintro r st1 ⟨h1, hr⟩
  rcases r with _ | sess0
  · exact ⟨h1, trivial⟩
  simp only [wp_bind, wp_getS]
  wpc spec_reencryptAll c na _ sess0 [] (hr _ rfl) (fun x hx => by cases hx)
  rintro ⟨sess, packets⟩ st2 ⟨h2, hs, hps⟩
  simp only at hs hps
  simp only [wp_bind]
  wpc spec_sessPut na sess hs
  rintro _ st3 ⟨h3, -⟩
  refine spec_forEach _ _ ?_ _ h3
  rintro ⟨oldNonce, p⟩ hx st4 h4
  have hp : X.GPk p := hps _ hx
  simp only [wp_bind, wp_modS]
  refine spec_send na p hp _ ⟨h4.sess, h4.keys, ?_, h4.pend, h4.outs, h4.frame⟩
  intro call hcall
  obtain ⟨c0, hc0, rfl⟩ := List.mem_map.1 hcall
  by_cases hn : (c0.pkt.nonce == oldNonce) = true
  · simp only [hn, if_true]; exact ⟨(h4.act c0 hc0).1, hp⟩
  · simp only [hn]; exact h4.act c0 hc0

theorem spec_newSession (c : Cfg) (na : NA) (sess : Session) (skip : Option Nat)
    (hs : X.GS na sess)
    (hput : ∀ cur : Session, X.GS na cur →
      X.GS na { cur with keys := sess.keys, oldKeys := some cur.keys, awaitingEnr := sess.awaitingEnr }) :
    Spec X (newSession c na sess skip) (fun _ => True) := by
  intro st h
  unfold newSession
  simp only [wp_bind]
  wpc spec_removeExpiredSessions c
  rintro _ st1 ⟨h1, -⟩
  wpc spec_sessGetMut c na
  rintro r st2 ⟨h2, hr⟩
  rcases r with _ | cur
  · simp only [wp_bind]
    wpc spec_sessInsert c na sess hs
    rintro _ st3 ⟨h3, -⟩
    exact spec_sendPendingRequests c na st3 h3
  · simp only [wp_bind]
    wpc spec_sessPut na _ (hput cur (hr _ rfl))
    rintro _ st3 ⟨h3, -⟩
    wpc spec_replayActiveRequests c na skip
    rintro _ st4 ⟨h4, -⟩
    exact spec_sendPendingRequests c na st4 h4

theorem spec_sendChallenge (c : Cfg) (na : NA) (nonce : Nat) (known : Option Rec)
    (hF1 : ∀ ch cd, X.F ch cd → X.F ch (cd + 1))
    (hF2 : ∀ ch cd x, X.F ch cd → X.F (ch ++ [x]) cd)
    (hwru : ∀ n cd e, X.GPk (.whoareyou n cd e)) :
    Spec X (sendChallenge c na nonce known) (fun _ => True) := by
  intro st h
  unfold sendChallenge freshCd
  simp only [wp_bind, wp_getS, wp_ite, wp_pure, wp_setS]
  split
  · exact ⟨h, trivial⟩
  · refine wp_mono (spec_addExpected (X := X) na.addr _ ?_) ?_
    rotate_left
    · rintro _ st1 ⟨h1, -⟩
      wpc spec_send na _ (hwru _ _ _)
      rintro _ st2 ⟨h2, -⟩
      simp only [wp_modS]
      exact ⟨⟨h2.sess, h2.keys, h2.act, h2.pend, h2.outs, hF2 _ _ _ h2.frame⟩, trivial⟩
    · exact ⟨h.sess, h.keys, h.act, h.pend, h.outs, hF1 _ _ h.frame⟩

theorem spec_handleResponse (c : Cfg) (na : NA) (rid : Nat) (rb : RespBody) (hn : X.GN na) :
    Spec X (handleResponse c na rid rb) (fun _ => True) := by
  have fin : ∀ st : St, Inv X st → wp (removeExpected na.addr)
      (fun _ => wp (emit (Out.response na rid rb)) (fun _ st' => Inv X st' ∧ True)) st := by
    intro st h
    wpc spec_removeExpected na.addr
    rintro _ st1 ⟨h1, -⟩
    exact spec_emit _ (X.go_response _ _ _ hn) st1 h1
  intro st h
  unfold handleResponse
  simp only [wp_bind]
  wpc spec_activeRemoveRequest na rid
  rintro r st1 ⟨h1, hr⟩
  rcases r with _ | call
  · exact ⟨h1, trivial⟩
  obtain ⟨hc, hp⟩ := hr _ rfl
  rcases rb with ⟨total, recs⟩ | code
  · simp only [wp_ite, wp_bind, wp_pure]
    split
    · rcases hrem : call.remaining with _ | rem
      · simp only [wp_bind, wp_pure]
        wpc spec_activeInsert c { call with remaining := some (total - 1) } hc hp
        rintro _ st2 ⟨h2, -⟩
        exact spec_emit _ (X.go_response _ _ _ hn) st2 h2
      · simp only [wp_ite, wp_bind, wp_pure]
        split
        · wpc spec_activeInsert c { call with remaining := some (rem - 1) } hc hp
          rintro _ st2 ⟨h2, -⟩
          exact spec_emit _ (X.go_response _ _ _ hn) st2 h2
        · exact fin st1 h1
    · exact fin st1 h1
  · simp only [wp_bind]
    exact fin st1 h1



theorem verifyEnr_id {r : Rec} {na : NA} (h : verifyEnr r na = true) : r.id = na.id := by
  unfold verifyEnr at h
  rw [Bool.and_eq_true] at h
  exact beq_iff_eq.1 h.1

theorem spec_handleMessage (c : Cfg) (na : NA) (nonce : Nat) (ct : Ct)
    (hdec : ∀ sess, X.GS na sess → X.GS na (decryptMessage sess nonce ct).1) :
    Spec X (handleMessage c na nonce ct) (fun _ => True) := by
  have jp : ∀ (rb : RespBody) (st : St), Inv X st → X.GN na → wp
      ((match rb with
          | RespBody.nodes _ recs =>
            (match recs.getLast? with
            | some r =>
              if verifyEnr r na = true then (emit (Out.established r na.addr true) >>= fun _ => pure true)
              else (emit (Out.unverifiable r na.addr na.id) >>= fun _ => pure false)
            | none => pure false)
          | _ => pure false : M Bool) >>= fun verified =>
        if (!verified) = true then failSession c na Err.invalidRemoteEnr true else pure ())
      (fun _ st' => Inv X st' ∧ True) st := by
    intro rb st h hn
    simp only [wp_bind]
    rcases rb with ⟨total, recs⟩ | code
    · simp only []
      rcases hl : recs.getLast? with _ | r
      · simp only [wp_pure, wp_ite]
        exact spec_failSession c na _ true st h
      · simp only [wp_ite, wp_bind, wp_pure, wp_emit]
        by_cases hv : verifyEnr r na = true
        · simp only [hv, if_true]
          exact ⟨h.emit (X.go_est na r true hn (verifyEnr_id hv)), trivial⟩
        · simp only [hv, if_false]
          exact spec_failSession c na _ true _ (h.emit (X.go_unv na r hn))
    · simp only [wp_pure, wp_ite]
      exact spec_failSession c na _ true st h
  intro st h
  unfold handleMessage
  simp only [wp_bind]
  wpc spec_sessGetMut c na
  rintro r st1 ⟨h1, hr⟩
  rcases r with _ | sess
  · exact spec_emit _ (X.go_wru _ _) st1 h1
  have hs := hr _ rfl
  have hn : X.GN na := X.gs_gn _ _ hs
  have hs' := hdec sess hs
  rcases hd : decryptMessage sess nonce ct with ⟨sess', pt⟩
  rw [hd] at hs'
  simp only [hd, wp_bind]
  wpc spec_sessPut na sess' hs'
  rintro _ st2 ⟨h2, -⟩
  rcases pt with _ | m
  · simp only [wp_bind, wp_getS, wp_ite, wp_pure]
    wpc spec_failSession c na _ true
    rintro _ st3 ⟨h3, -⟩
    simp only [wp_emit]
    split
    · exact ⟨h3.emit (X.go_wru _ _), trivial⟩
    · exact ⟨h3, trivial⟩
  rcases m with ⟨rid, body⟩ | ⟨rid, rb⟩ | _
  · exact spec_emit _ (X.go_request _ _ _ hn) st2 h2
  · simp only [wp_ite, wp_bind]
    split
    · wpc spec_sessPut na _ (X.gs_await _ _ hs')
      rintro _ st3 ⟨h3, -⟩
      wpc spec_activeRemoveRequest na rid
      rintro r st4 ⟨h4, -⟩
      rcases r with _ | val
      · simp only []
        exact jp rb st4 h4 hn
      · simp only [wp_bind]
        wpc spec_removeExpected na.addr
        rintro _ st5 ⟨h5, -⟩
        exact jp rb st5 h5 hn
    · exact spec_handleResponse c na rid rb hn st2 h2
  · exact ⟨h2, trivial⟩



/-- The keys the initiator derives when answering a WHOAREYOU with challenge data `cd`. -/
def iniKeys (c : Cfg) (na : NA) (eph cd : Nat) : Keys :=
  { enc := { eph := eph, cd := cd, ini := c.localId, rcp := na.id, toRcp := true },
    dec := { eph := eph, cd := cd, ini := c.localId, rcp := na.id, toRcp := false } }

theorem spec_handleChallenge (c : Cfg) (src : Addr) (nonce cd enrSeq : Nat)
    (hS : ∀ ct eph, X.GC ct →
      (∀ aw, X.GS ct.na { keys := iniKeys c ct.na eph cd, awaitingEnr := aw }) ∧
      ∀ (cur : Session) aw, X.GS ct.na cur →
        X.GS ct.na { cur with keys := iniKeys c ct.na eph cd, oldKeys := some cur.keys, awaitingEnr := aw }) :
    Spec X (handleChallenge c src nonce cd enrSeq) (fun _ => True) := by
  intro st h
  unfold handleChallenge
  simp only [wp_bind]
  wpc spec_activeRemoveByNonce nonce
  rintro r st1 ⟨h1, hr⟩
  rcases r with _ | call0
  · exact ⟨h1, trivial⟩
  obtain ⟨hc, hp⟩ := hr _ rfl
  simp only [wp_ite, wp_bind, wp_pure]
  split
  · exact spec_activeInsert c call0 hc hp st1 h1
  split
  · wpc spec_removeExpected src
    rintro _ st2 ⟨h2, -⟩
    exact spec_failRequest c call0 _ true st2 h2
  split
  · wpc spec_removeExpected src
    rintro _ st2 ⟨h2, -⟩
    exact spec_failRequest c call0 _ true st2 h2
  wpc spec_freshEph c
  rintro eph st2 ⟨h2, -⟩
  wpc spec_freshNonce c
  rintro hsNonce st3 ⟨h3, -⟩
  obtain ⟨hS1, hS2⟩ := hS call0.contact eph hc
  rcases hrec : call0.contact.record with _ | r
  · simp only [wp_bind]
    refine wp_mono (spec_activeInsert c _ (by exact hc) (by exact X.gpk_hs _ _ _ _ _ _) st3 h3) ?_
    rintro _ st4 ⟨h4, -⟩
    wpc spec_send _ _ (X.gpk_hs _ _ _ _ _ _)
    rintro _ st5 ⟨h5, -⟩
    wpc spec_freshRid c
    rintro rid st6 ⟨h6, -⟩
    wpc spec_sendRequest c call0.contact rid true c.findnode0 hc
    rintro _ st7 ⟨h7, -⟩
    exact spec_newSession c (callNA call0) _ _ (hS1 (some rid)) (fun cur hcur => hS2 cur _ hcur) st7 h7
  · simp only [wp_bind]
    refine wp_mono (spec_activeInsert c _ (by exact hc) (by exact X.gpk_hs _ _ _ _ _ _) st3 h3) ?_
    rintro _ st4 ⟨h4, -⟩
    wpc spec_send _ _ (X.gpk_hs _ _ _ _ _ _)
    rintro _ st5 ⟨h5, -⟩
    wpc spec_emit _ (X.go_est_contact call0.contact r _ hc hrec)
    rintro _ st6 ⟨h6, -⟩
    exact spec_newSession c (callNA call0) _ _ (hS1 none) (fun cur hcur => hS2 cur _ hcur) st6 h6

theorem foldl_sel_mem {α} (f : Option α → α → Option α)
    (hf : ∀ m x, f m x = some x ∨ f m x = m) (l : List α) :
    ∀ (init : Option α) (r : α), l.foldl f init = some r → r ∈ l ∨ init = some r := by
  induction l with
  | nil => intro init r h; exact Or.inr h
  | cons x xs ih =>
    intro init r h
    rw [List.foldl_cons] at h
    rcases ih _ r h with h1 | h1
    · exact Or.inl (List.mem_cons_of_mem _ h1)
    · rcases hf init x with h2 | h2
      · rw [h2, Option.some.injEq] at h1; exact Or.inl (h1 ▸ List.mem_cons_self ..)
      · rw [h2] at h1; exact Or.inr h1

theorem nextDue_inl_mem (s : HState) (target d : Nat) (call : Call)
    (h : nextDue s target = some (d, .inl call)) : call ∈ s.active := by
  unfold nextDue at h
  simp only at h
  generalize hC : List.foldl _ none (List.filter (fun x => decide (x.2.2.1 ≤ target)) s.challenges) = minC at h
  generalize hR : List.foldl _ none (List.filter (fun x => decide (x.deadline ≤ target)) s.active) = minR at h
  rcases minR with _ | r
  · rcases minC with _ | ch
    · simp at h
    · simp at h
  · have hr : r ∈ s.active := by
      rcases foldl_sel_mem _ (fun m x => by
        rcases m with _ | b
        · exact Or.inl rfl
        · simp only; split
          · exact Or.inl rfl
          · exact Or.inr rfl) _ none r hR with h1 | h1
      · exact (List.mem_filter.1 h1).1
      · cases h1
    rcases minC with _ | ch
    · simp only [Option.some.injEq, Prod.mk.injEq, Sum.inl.injEq] at h; exact h.2 ▸ hr
    · simp only at h
      split at h
      · simp at h
      · simp only [Option.some.injEq, Prod.mk.injEq, Sum.inl.injEq] at h; exact h.2 ▸ hr



theorem spec_handleAuthMessage (c : Cfg) (na : NA) (nonce : Nat) (sig : Sig) (eph : Nat)
    (record : Option Rec) (ct : Ct)
    (hFf : ∀ ch cd p, X.F ch cd → X.F (ch.filter p) cd)
    (hFa : ∀ ch cd x, X.F ch cd → X.F (ch ++ [x]) cd)
    (hdec : ∀ sess, X.GS na sess → X.GS na (decryptMessage sess nonce ct).1)
    (hE : ∀ ch sess r, establishFromChallenge c na.id ch sig eph record = some (some (sess, r)) →
      r.id = na.id ∧ X.GS na sess ∧ ∀ cur : Session, X.GS na cur →
        X.GS na { cur with keys := sess.keys, oldKeys := some cur.keys, awaitingEnr := sess.awaitingEnr }) :
    Spec X (handleAuthMessage c na nonce sig eph record ct) (fun _ => True) := by
  intro st h
  unfold handleAuthMessage
  simp only [wp_bind, wp_getS]
  rcases hf : st.1.challenges.find? (fun x => x.fst == na) with _ | ⟨k, ch, dl, sq⟩
  · simp only [hf, wp_pure]; exact ⟨h, trivial⟩
  simp only [hf, wp_bind, wp_setS]
  have h0 : Inv X ({ st.1 with challenges := st.1.challenges.filter (fun x => x.fst != na) }, st.2) :=
    ⟨h.sess, h.keys, h.act, h.pend, h.outs, hFf _ _ _ h.frame⟩
  rcases hest : establishFromChallenge c na.id ch sig eph record with _ | _ | ⟨sess, r⟩
  · simp only [wp_modS]
    exact ⟨⟨h.sess, h.keys, h.act, h.pend, h.outs, hFa _ _ _ h0.frame⟩, trivial⟩
  · simp only [wp_bind]
    wpc spec_removeExpected na.addr
    rintro _ st1 ⟨h1, -⟩
    exact spec_failSession c na _ true st1 h1
  · obtain ⟨hid, hs, hput⟩ := hE ch sess r hest
    have hn := X.gs_gn _ _ hs
    have fin : ∀ st : St, Inv X st → wp (newSession c na sess none)
        (fun _ => wp (handleMessage c na nonce ct) (fun _ st' => Inv X st' ∧ True)) st := by
      intro st2 h2
      wpc spec_newSession c na sess none hs hput
      rintro _ st3 ⟨h3, -⟩
      exact spec_handleMessage c na nonce ct hdec st3 h3
    simp only [wp_bind, wp_ite]
    wpc spec_removeExpected na.addr
    rintro _ st1 ⟨h1, -⟩
    split
    · wpc spec_emit _ (X.go_est na r false hn hid)
      rintro _ st2 ⟨h2, -⟩
      exact fin st2 h2
    · wpc spec_emit _ (X.go_unv na r hn)
      rintro _ st2 ⟨h2, -⟩
      exact fin st2 h2

theorem spec_fireTimers (c : Cfg) (target : Nat)
    (hFf : ∀ ch cd p, X.F ch cd → X.F (ch.filter p) cd) :
    ∀ fuel, Spec X (fireTimers c target fuel) (fun _ => True) := by
  intro fuel
  induction fuel with
  | zero => intro st h; exact ⟨h, trivial⟩
  | succ n ih =>
    intro st h
    unfold fireTimers
    simp only [wp_bind, wp_getS]
    rcases hnd : nextDue st.1 target with _ | ⟨d, call | na⟩
    · simp only [hnd, wp_pure]; exact ⟨h, trivial⟩
    · simp only [hnd, wp_bind, wp_setS]
      obtain ⟨hc, hp⟩ := h.act call (nextDue_inl_mem _ _ _ _ hnd)
      have h0 : Inv X ({ st.1 with active := st.1.active.erase call, now := max st.1.now d }, st.2) :=
        ⟨h.sess, h.keys, fun x hx => h.act x (List.mem_of_mem_erase hx), h.pend, h.outs, h.frame⟩
      refine wp_mono (spec_handleRequestTimeout c call hc hp _ h0) ?_
      rintro _ st1 ⟨h1, -⟩
      exact ih st1 h1
    · simp only [hnd, wp_bind, wp_setS]
      have h0 : Inv X
          ({ st.1 with challenges := st.1.challenges.filter (fun x => x.fst != na), now := max st.1.now d },
            st.2) :=
        ⟨h.sess, h.keys, h.act, h.pend, h.outs, hFf _ _ _ h.frame⟩
      refine wp_mono (spec_removeExpected na.addr _ h0) ?_
      rintro _ st1 ⟨h1, -⟩
      wpc spec_sendPendingRequests c na
      rintro _ st2 ⟨h2, -⟩
      exact ih st2 h2

theorem step_eq (c : Cfg) (s : HState) (e : Ev) : step c s e = ((stepM c e).run (s, [])).2 := rfl

theorem Spec.step {c : Cfg} {e : Ev} {p : Unit → Prop} (h : Spec X (stepM c e) p) {s : HState}
    (hi : Inv X (s, [])) : Inv X (step c s e) := (h _ hi).1

theorem spec_stepM_appRequest (c : Cfg) (contact : Contact) (rid body : Nat) (hc : X.GC contact) :
    Spec X (stepM c (.appRequest contact rid body)) (fun _ => True) := by
  intro st h
  simp only [stepM, wp_bind]
  wpc spec_sendRequest c contact rid false body hc
  rintro r st1 ⟨h1, -⟩
  rcases r with _ | e
  · exact ⟨h1, trivial⟩
  · exact spec_emit _ (X.go_failed _ _) st1 h1

theorem spec_stepM_appResponse (c : Cfg) (na : NA) (rid : Nat) (rb : RespBody) :
    Spec X (stepM c (.appResponse na rid rb)) (fun _ => True) := by
  intro st h
  simp only [stepM, wp_bind]
  wpc spec_sessGetMut c na
  rintro r st1 ⟨h1, hr⟩
  rcases r with _ | sess
  · exact ⟨h1, trivial⟩
  · simp only [wp_bind]
    wpc spec_encryptMessage c sess _
    rintro ⟨sess', p⟩ st2 ⟨h2, hs', hp⟩
    simp only at hs' hp
    subst hs'
    wpc spec_sessPut na _ (X.gs_counter _ _ _ (hr _ rfl))
    rintro _ st3 ⟨h3, -⟩
    exact spec_send na p hp st3 h3

theorem spec_stepM_adv (c : Cfg) (dt : Nat)
    (hFf : ∀ ch cd p, X.F ch cd → X.F (ch.filter p) cd) :
    Spec X (stepM c (.adv dt)) (fun _ => True) := by
  intro st h
  simp only [stepM, wp_bind, wp_getS]
  wpc spec_fireTimers c _ hFf 10000
  rintro _ st1 ⟨h1, -⟩
  simp only [wp_modS]
  exact ⟨⟨h1.sess, h1.keys, h1.act, h1.pend, h1.outs, h1.frame⟩, trivial⟩

theorem spec_stepM_rtAdv (c : Cfg) (dt : Nat) : Spec X (stepM c (.rtAdv dt)) (fun _ => True) := by
  intro st h
  simp only [stepM, wp_modS]
  exact ⟨⟨h.sess, h.keys, h.act, h.pend, h.outs, h.frame⟩, trivial⟩

theorem establish_ok (c : Cfg) (remoteId : Id) (ch : Challenge) (sig : Sig) (eph : Nat)
    (record : Option Rec) (sess : Session) (r : Rec)
    (h : establishFromChallenge c remoteId ch sig eph record = some (some (sess, r))) :
    r.id = remoteId ∧ sig.signer = remoteId ∧ sig.cd = ch.cd ∧ sig.eph = eph ∧ sig.dst = c.localId ∧
    sess = { keys := {
      enc := { eph := eph, cd := ch.cd, ini := remoteId, rcp := c.localId, toRcp := false },
      dec := { eph := eph, cd := ch.cd, ini := remoteId, rcp := c.localId, toRcp := true } } } ∧
    (r = record.getD r ∨ ch.remoteRec = some r) := by
  unfold establishFromChallenge at h
  simp only at h
  split at h
  · cases h
  · rename_i r' hch
    by_cases hid : (r'.id != remoteId) = true
    · rw [if_pos hid] at h; cases h
    rw [if_neg hid] at h
    have hid' : r'.id = remoteId := by simpa using hid
    by_cases hsig : (!(sig.signer == r'.id && sig.cd == ch.cd && sig.eph == eph && sig.dst == c.localId)) = true
    · rw [if_pos hsig] at h; cases h
    rw [if_neg hsig] at h
    simp only [Option.some.injEq, Prod.mk.injEq] at h
    obtain ⟨hs, hr⟩ := h
    subst hr
    simp only [Bool.not_eq_true', Bool.not_eq_false, Bool.and_eq_true, beq_iff_eq] at hsig
    obtain ⟨⟨⟨h1, h2⟩, h3⟩, h4⟩ := hsig
    refine ⟨hid', h1.trans hid', h2, h3, h4, hs.symm, ?_⟩
    rcases record with _ | n <;> rcases hk : ch.remoteRec with _ | k <;> rw [hk] at hch <;>
      simp only [Option.some.injEq] at hch
    · cases hch
    · exact Or.inr (by rw [hch])
    · exact Or.inl (by simp [hch])
    · split at hch
      · exact Or.inl (by simp [Option.some.inj hch])
      · exact Or.inr (by rw [Option.some.inj hch])

/-! ### histories -/

theorem list_rev_ind {α} {P : List α → Prop} (h0 : P [])
    (hs : ∀ l a, P l → P (l ++ [a])) : ∀ l, P l := by
  have : ∀ l : List α, P l.reverse := by
    intro l
    induction l with
    | nil => exact h0
    | cons a l ih => rw [List.reverse_cons]; exact hs _ _ ih
  intro l
  rw [← List.reverse_reverse l]; exact this _

theorem run_snoc (c : Cfg) (evs : List Ev) (e : Ev) :
    run c (evs ++ [e]) = (step c (run c evs) e).1 := by
  simp only [run, List.foldl_append, List.foldl_cons, List.foldl_nil]

theorem trace_append (c : Cfg) (a b : List Ev) : ∀ s,
    trace c s (a ++ b) = trace c s a ++ trace c (a.foldl (fun s e => (step c s e).1) s) b := by
  induction a with
  | nil => intro s; rfl
  | cons x xs ih => intro s; simp only [List.cons_append, trace, ih, List.foldl_cons]

theorem outputs_snoc (c : Cfg) (evs : List Ev) (e : Ev) :
    outputs c (evs ++ [e]) = outputs c evs ++ (step c (run c evs) e).2 := by
  simp only [outputs, trace_append, trace, List.flatten_append, List.flatten_cons, List.flatten_nil,
    List.append_nil, run]

theorem dialled_append (a b : List Ev) : dialled (a ++ b) = dialled a ++ dialled b := by
  induction a with
  | nil => rfl
  | cons x xs ih => cases x <;> simp only [List.cons_append, dialled, ih]

theorem handshakeSigs_append (a b : List Ev) :
    handshakeSigs (a ++ b) = handshakeSigs a ++ handshakeSigs b := by
  induction a with
  | nil => rfl
  | cons x xs ih =>
    cases x with
    | dgram src p => cases p <;> simp only [List.cons_append, handshakeSigs, ih]
    | _ => simp only [List.cons_append, handshakeSigs, ih]

theorem contactsWF_append (a b : List Ev) : ContactsWF (a ++ b) ↔ ContactsWF a ∧ ContactsWF b := by
  induction a with
  | nil => simp [ContactsWF]
  | cons x xs ih => cases x <;> simp only [List.cons_append, ContactsWF, ih, and_assoc]

/-! ### instance A: identity -/

/-- A node address is justified by the history: dialled, or a handshake signed by it for us. -/
def Good (c : Cfg) (evs : List Ev) (na : NA) : Prop :=
  na.id ∈ dialled evs ∨
    ∃ p ∈ handshakeSigs evs, p.2.signer = na.id ∧ p.2.dst = c.localId ∧ p.1 = na

theorem Good.mono {c : Cfg} {evs : List Ev} {na : NA} (h : Good c evs na) (more : List Ev) :
    Good c (evs ++ more) na := by
  rcases h with h | ⟨p, hp, h⟩
  · exact Or.inl (by rw [dialled_append]; exact List.mem_append_left _ h)
  · exact Or.inr ⟨p, by rw [handshakeSigs_append]; exact List.mem_append_left _ hp, h⟩

def ctxA (c : Cfg) (evs : List Ev) : Ctx where
  GN := Good c evs
  GS := fun na _ => Good c evs na
  SL := fun _ => True
  GC := fun ct => ct.na.id ∈ dialled evs ∧ ∀ r, ct.record = some r → r.id = ct.na.id
  GPk := fun _ => True
  GO := fun o => ∀ x, attributesTo x o = true → ∃ na, Good c evs na ∧ na.id = x
  F := fun _ _ => True
  gs_gn := fun _ _ h => h
  gs_counter := fun _ _ _ h => h
  gs_await := fun _ _ h => h
  gc_gn := fun _ h => Or.inl h.1
  go_est_contact := fun ct r _ h hr x hx =>
    ⟨ct.na, Or.inl h.1, by rw [← h.2 r hr]; simpa [attributesTo] using hx⟩
  gpk_msg := fun _ _ _ => trivial
  gpk_hs := fun _ _ _ _ _ _ => trivial
  go_failed := fun _ _ x hx => by simp [attributesTo] at hx
  go_expired := fun _ x hx => by simp [attributesTo] at hx
  go_wru := fun _ _ x hx => by simp [attributesTo] at hx
  go_send := fun _ _ _ x hx => by simp [attributesTo] at hx
  go_request := fun na _ _ h x hx => ⟨na, h, by simpa [attributesTo] using hx⟩
  go_response := fun na _ _ h x hx => ⟨na, h, by simpa [attributesTo] using hx⟩
  go_est := fun na r _ h hr x hx => ⟨na, h, by rw [← hr]; simpa [attributesTo] using hx⟩
  go_unv := fun na _ h x hx => ⟨na, h, by simpa [attributesTo] using hx⟩
  sl_filter := fun _ _ _ => trivial
  sl_insert := fun _ _ _ => trivial
  sl_suffix := fun _ _ _ => trivial

theorem ctxA_mono {c : Cfg} {evs : List Ev} {st : St} (h : Inv (ctxA c evs) st) (more : List Ev) :
    Inv (ctxA c (evs ++ more)) st :=
  ⟨fun e he => (h.sess e he).mono more, trivial,
   fun call hc => ⟨⟨by rw [dialled_append]; exact List.mem_append_left _ (h.act call hc).1.1,
     (h.act call hc).1.2⟩, trivial⟩,
   fun e he pr hpr => ⟨by rw [dialled_append]; exact List.mem_append_left _ (h.pend e he pr hpr).1,
     (h.pend e he pr hpr).2⟩,
   fun o ho x hx => let ⟨na, hn, hid⟩ := h.outs o ho x hx; ⟨na, hn.mono more, hid⟩,
   trivial⟩

theorem stepA (c : Cfg) (evs : List Ev) (e : Ev) (hw : ContactsWF (evs ++ [e])) :
    Spec (ctxA c (evs ++ [e])) (stepM c e) (fun _ => True) := by
  have hwe : ContactsWF [e] := ((contactsWF_append _ _).1 hw).2
  cases e with
  | appRequest ct rid body =>
    refine spec_stepM_appRequest c ct rid body ⟨?_, ?_⟩
    · rw [dialled_append]; exact List.mem_append_right _ (List.mem_cons_self ..)
    · exact hwe.1
  | appResponse na rid rb => exact spec_stepM_appResponse c na rid rb
  | appWru na nonce known =>
    exact spec_sendChallenge c na nonce known (fun _ _ _ => trivial) (fun _ _ _ _ => trivial)
      (fun _ _ _ => trivial)
  | dgram src p =>
    cases p with
    | whoareyou nonce cd enrSeq =>
      refine spec_handleChallenge c src nonce cd enrSeq ?_
      intro ct eph hc
      exact ⟨fun _ => Or.inl hc.1, fun _ _ h => h⟩
    | message srcId nonce ct =>
      exact spec_handleMessage c _ nonce ct (fun _ h => h)
    | handshake srcId nonce sig eph record ct =>
      refine spec_handleAuthMessage c _ nonce sig eph record ct (fun _ _ _ _ => trivial)
        (fun _ _ _ _ => trivial) (fun _ h => h) ?_
      intro ch sess r hest
      obtain ⟨h1, h2, -, -, h5, -, -⟩ := establish_ok c _ ch sig eph record sess r hest
      have hg : Good c (evs ++ [Ev.dgram src (Pkt.handshake srcId nonce sig eph record ct)])
          { id := srcId, addr := src } := by
        refine Or.inr ⟨({ id := srcId, addr := src }, sig), ?_, h2, h5, rfl⟩
        rw [handshakeSigs_append]; exact List.mem_append_right _ (List.mem_cons_self ..)
      exact ⟨h1, hg, fun _ _ => hg⟩
  | adv dt => exact spec_stepM_adv c dt (fun _ _ _ _ => trivial)
  | rtAdv dt => exact spec_stepM_rtAdv c dt

/-- The identity invariant along every well-formed history. -/
theorem invA (c : Cfg) : ∀ evs, ContactsWF evs →
    Inv (ctxA c evs) (run c evs, []) ∧ ∀ o ∈ outputs c evs, (ctxA c evs).GO o := by
  refine list_rev_ind ?_ ?_
  · intro _
    exact ⟨⟨fun e he => (by cases he), trivial, fun e he => (by cases he), fun e he => (by cases he),
      fun e he => (by cases he), trivial⟩, fun o ho => (by cases ho)⟩
  · intro evs e ih hw
    obtain ⟨hI, hO⟩ := ih ((contactsWF_append _ _).1 hw).1
    have hstep := (stepA c evs e hw).step (ctxA_mono hI [e])
    rw [run_snoc, outputs_snoc]
    refine ⟨⟨hstep.sess, trivial, hstep.act, hstep.pend, fun o ho => (by cases ho), trivial⟩, ?_⟩
    intro o ho
    rcases List.mem_append.1 ho with h1 | h1
    · intro x hx
      obtain ⟨na, hn, hid⟩ := hO o h1 x hx
      exact ⟨na, hn.mono [e], hid⟩
    · exact hstep.outs o h1

/-! ### the tail of `failSession` (no session removal): only `failed` reports, exemptions,
active and queued requests change -/

structure Tail (K : St → Prop) : Prop where
  failed : ∀ st rid e, K st → K (st.1, st.2 ++ [.failed rid e])
  exempt : ∀ st x, K st → K ({ st.1 with exempt := x }, st.2)
  active : ∀ st x, K st → K ({ st.1 with active := x }, st.2)
  pending : ∀ st x, K st → K ({ st.1 with pending := x }, st.2)

theorem failSession_true (c : Cfg) (na : NA) (e : Err) :
    failSession c na e true = (do removeExpiredSessions c; sessRemove na; failSession c na e false) := rfl

theorem wp_forEach {α} {K : St → Prop} (l : List α) (f : α → M Unit)
    (hf : ∀ x ∈ l, ∀ st, K st → wp (f x) (fun _ => K) st) : ∀ st, K st → wp (forEach l f) (fun _ => K) st := by
  induction l with
  | nil => intro st h; exact h
  | cons x xs ih =>
    intro st h
    rw [forEach_cons]; simp only [wp_bind]
    refine wp_mono (hf x (List.mem_cons_self ..) st h) ?_
    intro _ st1 h1
    exact ih (fun y hy => hf y (List.mem_cons_of_mem _ hy)) st1 h1

theorem tail_failSession {K : St → Prop} (hK : Tail K) (c : Cfg) (na : NA) (e : Err) :
    ∀ st, K st → wp (failSession c na e false) (fun _ => K) st := by
  have hrm : ∀ (a : Addr) st, K st → wp (removeExpected a) (fun _ => K) st := by
    intro a st h
    unfold removeExpected
    simp only [wp_modS]
    exact hK.exempt _ _ h
  have part2 : ∀ st : St, K st → wp (activeRemoveRequests na) (fun calls =>
      wp (forEach calls fun call =>
          if (!call.internal) = true then do
            let __r ← emit (Out.failed call.rid e)
            removeExpected na.addr
          else removeExpected na.addr) (fun _ => K)) st := by
    intro st h
    unfold activeRemoveRequests
    simp only [wp_bind, wp_getS, wp_setS, wp_pure]
    refine wp_forEach _ _ ?_ _ (hK.active _ _ h)
    intro call _ st2 h2
    simp only [wp_ite, wp_bind, wp_emit]
    split
    · exact hrm _ _ (hK.failed _ _ _ h2)
    · exact hrm _ _ h2
  intro st h
  unfold failSession
  simp only [Bool.false_eq_true, if_false, wp_bind, wp_getS]
  rcases hf : st.1.pending.find? (fun x => x.fst == na) with _ | ent
  · simp only [hf, wp_bind]; exact part2 st h
  · simp only [hf, wp_bind, wp_setS]
    refine wp_mono (wp_forEach _ _ ?_ _ (hK.pending _ _ h)) ?_
    · intro pr _ st1 h1
      simp only [wp_ite, wp_emit, wp_pure]
      split
      · exact hK.failed _ _ _ h1
      · exact h1
    · intro _ st1 h1; exact part2 st1 h1

def NoSend (st : St) : Prop := ∀ o ∈ st.2, ∀ na p, o ≠ Out.send na p

theorem noSend_tail : Tail NoSend where
  failed := by
    intro st rid e h o ho
    rcases List.mem_append.1 ho with h1 | h1
    · exact h o h1
    · rw [List.mem_singleton.1 h1]; intro _ _ hh; cases hh
  exempt := fun _ _ h => h
  active := fun _ _ h => h
  pending := fun _ _ h => h

/-- Context that only tracks a frame property of (challenges, cd counter). -/
def ctxF (F : List (NA × Challenge × Nat × Nat) → Nat → Prop) : Ctx where
  GN := fun _ => True
  GS := fun _ _ => True
  SL := fun _ => True
  GC := fun _ => True
  GPk := fun _ => True
  GO := fun _ => True
  F := F
  gs_gn := fun _ _ _ => trivial
  gs_counter := fun _ _ _ _ => trivial
  gs_await := fun _ _ _ => trivial
  gc_gn := fun _ _ => trivial
  go_est_contact := fun _ _ _ _ _ => trivial
  gpk_msg := fun _ _ _ => trivial
  gpk_hs := fun _ _ _ _ _ _ => trivial
  go_failed := fun _ _ => trivial
  go_expired := fun _ => trivial
  go_wru := fun _ _ => trivial
  go_send := fun _ _ _ => trivial
  go_request := fun _ _ _ _ => trivial
  go_response := fun _ _ _ _ => trivial
  go_est := fun _ _ _ _ _ => trivial
  go_unv := fun _ _ _ => trivial
  sl_filter := fun _ _ _ => trivial
  sl_insert := fun _ _ _ => trivial
  sl_suffix := fun _ _ _ => trivial


theorem inv_ctxF {F : List (NA × Challenge × Nat × Nat) → Nat → Prop} {st : St}
    (h : F st.1.challenges st.1.fresh.cd) : Inv (ctxF F) st :=
  ⟨fun _ _ => trivial, trivial, fun _ _ => ⟨trivial, trivial⟩, fun _ _ _ _ => trivial,
    fun _ _ => trivial, h⟩

theorem any_filter_ne_false (l : List (NA × Challenge × Nat × Nat)) (na : NA) :
    (l.filter (fun x => x.1 != na)).any (fun x => x.1 == na) = false := by
  rw [List.any_eq_false]
  intro x hx
  have := (List.mem_filter.1 hx).2
  simpa using this

theorem challenge_consumed_aux (c : Cfg) (s : HState) (na : NA) (nonce : Nat) (sig : Sig)
    (eph : Nat) (record : Option Rec) (ct : Ct) :
    wp (handleAuthMessage c na nonce sig eph record ct)
      (fun _ st' => st'.1.challenges.any (·.1 == na) = false ∨
        (st'.1.sessions = s.sessions ∧ st'.1.active = s.active)) (s, []) := by
  unfold handleAuthMessage
  simp only [wp_bind, wp_getS]
  rcases hf : s.challenges.find? (fun x => x.fst == na) with _ | ⟨k, ch, dl, sq⟩
  · simp only [hf, wp_pure]; exact Or.inr ⟨by first | rfl | trivial, by first | rfl | trivial⟩
  simp only [hf, wp_bind, wp_setS]
  let X := ctxF (fun ch _ => ch = s.challenges.filter (fun x => x.fst != na))
  have fin : ∀ st' : St, Inv X st' ∧ True → st'.1.challenges.any (·.1 == na) = false ∨
      (st'.1.sessions = s.sessions ∧ st'.1.active = s.active) := by
    rintro st' ⟨h', -⟩
    refine Or.inl ?_
    have := h'.frame
    simp only [X, ctxF] at this
    rw [this]; exact any_filter_ne_false _ _
  have h0 : Inv X ({ s with challenges := s.challenges.filter (fun x => x.fst != na) }, []) :=
    inv_ctxF rfl
  rcases hest : establishFromChallenge c na.id ch sig eph record with _ | _ | ⟨sess, r⟩
  · simp only [wp_modS]; exact Or.inr ⟨by first | rfl | trivial, by first | rfl | trivial⟩
  · simp only [wp_bind]
    refine wp_mono (spec_removeExpected na.addr _ h0) ?_
    rintro _ st1 ⟨h1, -⟩
    exact wp_mono (spec_failSession c na _ true st1 h1) (fun _ => fin)
  · simp only [wp_bind, wp_ite]
    refine wp_mono (spec_removeExpected na.addr _ h0) ?_
    rintro _ st1 ⟨h1, -⟩
    have fin2 : ∀ st : St, Inv X st → wp (newSession c na sess none)
        (fun _ => wp (handleMessage c na nonce ct) (fun _ st' => st'.1.challenges.any (·.1 == na) = false ∨
      (st'.1.sessions = s.sessions ∧ st'.1.active = s.active))) st := by
      intro st2 h2
      refine wp_mono (spec_newSession c na sess none trivial (fun _ _ => trivial) st2 h2) ?_
      rintro _ st3 ⟨h3, -⟩
      exact wp_mono (spec_handleMessage c na nonce ct (fun _ _ => trivial) st3 h3) (fun _ => fin)
    split
    · simp only [wp_emit]
      exact fin2 _ (h1.emit trivial)
    · simp only [wp_emit]
      exact fin2 _ (h1.emit trivial)

theorem sessEq_tail (L : List (NA × Session × Nat)) : Tail (fun st => st.1.sessions = L) where
  failed := fun _ _ _ h => h
  exempt := fun _ _ h => h
  active := fun _ _ h => h
  pending := fun _ _ h => h

theorem filter_any_self (l : List (NA × Session × Nat)) :
    l.filter (fun e => l.any (·.1 == e.1)) = l := by
  rw [List.filter_eq_self]
  intro e he
  rw [List.any_eq_true]
  exact ⟨e, he, by simp⟩

theorem filter_any_suffix (pre r : List (NA × Session × Nat)) (na : NA)
    (hnd : ((pre ++ r).map (·.1)).Nodup) :
    (pre ++ r).filter (fun e => (r.filter (·.1 != na)).any (·.1 == e.1)) = r.filter (·.1 != na) := by
  rw [List.map_append] at hnd
  have hdisj := (List.nodup_append.1 hnd).2.2
  rw [List.filter_append]
  have h1 : pre.filter (fun e => (r.filter (·.1 != na)).any (·.1 == e.1)) = [] := by
    rw [List.filter_eq_nil_iff]
    intro e he hany
    rw [List.any_eq_true] at hany
    obtain ⟨x, hx, hxe⟩ := hany
    have hxr := (List.mem_filter.1 hx).1
    exact hdisj e.1 (List.mem_map_of_mem he) x.1 (List.mem_map_of_mem hxr) (beq_iff_eq.1 hxe).symm
  rw [h1, List.nil_append]
  apply List.filter_congr
  intro e he
  by_cases hk : e.1 = na
  · have : (e.1 != na) = false := by simp [hk]
    rw [this, List.any_eq_false]
    intro x hx
    have := (List.mem_filter.1 hx).2
    simp only [bne_iff_ne, ne_eq] at this
    simp only [beq_iff_eq, hk]; exact this
  · have : (e.1 != na) = true := by simp [hk]
    rw [this, List.any_eq_true]
    exact ⟨e, List.mem_filter.2 ⟨he, this⟩, by simp⟩

theorem stale_aux (c : Cfg) (s : HState) (na : NA) (nonce : Nat) (sig : Sig)
    (eph : Nat) (record : Option Rec) (ct : Ct)
    (h : ∀ e ∈ s.challenges, e.1 = na → e.2.1.cd ≠ sig.cd) :
    wp (handleAuthMessage c na nonce sig eph record ct)
      (fun _ st' => st'.1.sessions = s.sessions ∨
        st'.1.sessions = ((popExpired c.sessionTtl s.rt s.sessions).2).filter (·.1 != na)) (s, []) := by
  unfold handleAuthMessage
  simp only [wp_bind, wp_getS]
  rcases hf : s.challenges.find? (fun x => x.fst == na) with _ | ⟨k, ch, dl, sq⟩
  · simp only [hf, wp_pure]; exact Or.inl (by first | rfl | trivial)
  simp only [hf, wp_bind, wp_setS]
  have hk : k = na := by simpa using List.find?_some hf
  have hcd := h _ (List.mem_of_find?_eq_some hf) hk
  rcases hest : establishFromChallenge c na.id ch sig eph record with _ | _ | ⟨sess, r⟩
  · simp only [wp_modS]; exact Or.inl (by first | rfl | trivial)
  · unfold removeExpected
    rw [failSession_true]
    unfold removeExpiredSessions sessRemove
    simp only [wp_bind, wp_getS, wp_setS, wp_ite, wp_emit, wp_pure, wp_modS]
    split
    · exact wp_mono (tail_failSession (sessEq_tail _) c na _ _ rfl) (fun _ _ hh => Or.inr hh)
    · exact wp_mono (tail_failSession (sessEq_tail _) c na _ _ rfl) (fun _ _ hh => Or.inr hh)
  · exact absurd (establish_ok c _ ch sig eph record sess r hest).2.2.1.symm hcd

theorem stale_list (f : NA × Session × Nat → NA × Keys) (l L' : List (NA × Session × Nat)) (na : NA)
    (ttl rt : Nat) (hnd : (l.map (·.1)).Nodup)
    (h : L' = l ∨ L' = ((popExpired ttl rt l).2).filter (·.1 != na)) :
    L'.map f = (l.filter (fun e => L'.any (·.1 == e.1))).map f := by
  rcases h with h | h
  · rw [h, filter_any_self]
  · obtain ⟨pre, hpre⟩ := popExpired_suffix ttl rt l
    generalize (popExpired ttl rt l).2 = r at h hpre
    subst hpre h
    rw [filter_any_suffix pre r na hnd]

/-- Context tracking where session keys come from during one WHOAREYOU step: from the state
before the step (same node address) or freshly derived for challenge data `cd`. -/
def ctxK (c : Cfg) (s0 : HState) (cd : Nat) : Ctx where
  GN := fun _ => True
  GS := fun na sess => (∃ e' ∈ s0.sessions, e'.1 = na ∧ e'.2.1.keys = sess.keys) ∨
    ∃ eph, sess.keys = iniKeys c na eph cd
  SL := fun _ => True
  GC := fun _ => True
  GPk := fun _ => True
  GO := fun _ => True
  F := fun _ _ => True
  gs_gn := fun _ _ _ => trivial
  gs_counter := fun _ _ _ h => h
  gs_await := fun _ _ h => h
  gc_gn := fun _ _ => trivial
  go_est_contact := fun _ _ _ _ _ => trivial
  gpk_msg := fun _ _ _ => trivial
  gpk_hs := fun _ _ _ _ _ _ => trivial
  go_failed := fun _ _ => trivial
  go_expired := fun _ => trivial
  go_wru := fun _ _ => trivial
  go_send := fun _ _ _ => trivial
  go_request := fun _ _ _ _ => trivial
  go_response := fun _ _ _ _ => trivial
  go_est := fun _ _ _ _ _ => trivial
  go_unv := fun _ _ _ => trivial
  sl_filter := fun _ _ _ => trivial
  sl_insert := fun _ _ _ => trivial
  sl_suffix := fun _ _ _ => trivial

theorem initiator_aux (c : Cfg) (s : HState) (src : Addr) (nonce cd enrSeq : Nat) :
    ∀ e ∈ (step c s (.dgram src (.whoareyou nonce cd enrSeq))).1.sessions,
      (∃ e' ∈ s.sessions, e'.1 = e.1 ∧ e'.2.1.keys = e.2.1.keys) ∨
      ∃ eph, e.2.1.keys = iniKeys c e.1 eph cd := by
  have h0 : Inv (ctxK c s cd) (s, []) :=
    ⟨fun e he => Or.inl ⟨e, he, rfl, rfl⟩, trivial, fun _ _ => ⟨trivial, trivial⟩,
      fun _ _ _ _ => trivial, fun _ ho => (by cases ho), trivial⟩
  have hsp : Spec (ctxK c s cd) (handleChallenge c src nonce cd enrSeq) (fun _ => True) := by
    refine spec_handleChallenge c src nonce cd enrSeq ?_
    intro ct eph _
    exact ⟨fun _ => Or.inr ⟨eph, rfl⟩, fun _ _ _ => Or.inr ⟨eph, rfl⟩⟩
  exact (hsp _ h0).1.sess

def NotWru (p : Pkt) : Prop := ∀ n cd e, p ≠ .whoareyou n cd e

/-- Context for the uniqueness of id-nonces: no WHOAREYOU is (re)sent and the cd counter stays. -/
def ctxD (k0 : Nat) : Ctx where
  GN := fun _ => True
  GS := fun _ _ => True
  SL := fun _ => True
  GC := fun _ => True
  GPk := NotWru
  GO := fun o => ∀ na p, o = .send na p → NotWru p
  F := fun _ cd => cd = k0
  gs_gn := fun _ _ _ => trivial
  gs_counter := fun _ _ _ _ => trivial
  gs_await := fun _ _ _ => trivial
  gc_gn := fun _ _ => trivial
  go_est_contact := fun _ _ _ _ _ _ _ h => by cases h
  gpk_msg := fun _ _ _ _ _ _ h => by cases h
  gpk_hs := fun _ _ _ _ _ _ _ _ _ h => by cases h
  go_failed := fun _ _ _ _ h => by cases h
  go_expired := fun _ _ _ h => by cases h
  go_wru := fun _ _ _ _ h => by cases h
  go_send := fun _ _ hp _ _ h => by cases h; exact hp
  go_request := fun _ _ _ _ _ _ h => by cases h
  go_response := fun _ _ _ _ _ _ h => by cases h
  go_est := fun _ _ _ _ _ _ _ h => by cases h
  go_unv := fun _ _ _ _ _ h => by cases h
  sl_filter := fun _ _ _ => trivial
  sl_insert := fun _ _ _ => trivial
  sl_suffix := fun _ _ _ => trivial

theorem sentCds_append (a b : List Out) : sentCds (a ++ b) = sentCds a ++ sentCds b := by
  induction a with
  | nil => rfl
  | cons x xs ih =>
    cases x with
    | send na p => cases p <;> simp only [List.cons_append, sentCds, ih]
    | _ => simp only [List.cons_append, sentCds, ih]

theorem sentCds_nil_of (os : List Out) (h : ∀ o ∈ os, ∀ na p, o = Out.send na p → NotWru p) :
    sentCds os = [] := by
  induction os with
  | nil => rfl
  | cons x xs ih =>
    have ih' := ih (fun o ho => h o (List.mem_cons_of_mem _ ho))
    cases x with
    | send na p =>
      cases p with
      | whoareyou n cd e => exact absurd rfl (h _ (List.mem_cons_self ..) na _ rfl n cd e)
      | _ => simp only [sentCds, ih']
    | _ => simp only [sentCds, ih']

/-- Per-step facts for the id-nonce invariant. -/
theorem stepD (c : Cfg) (s : HState) (e : Ev) (ha : ∀ call ∈ s.active, NotWru call.pkt) :
    (∀ call ∈ (step c s e).1.active, NotWru call.pkt) ∧
    ((sentCds (step c s e).2 = [] ∧ (step c s e).1.fresh.cd = s.fresh.cd) ∨
     (sentCds (step c s e).2 = [mkName c (s.fresh.cd + 1)] ∧ (step c s e).1.fresh.cd = s.fresh.cd + 1)) := by
  have h0 : Inv (ctxD s.fresh.cd) (s, []) :=
    ⟨fun _ _ => trivial, trivial, fun call hc => ⟨trivial, ha call hc⟩, fun _ _ _ _ => trivial,
      fun _ ho => (by cases ho), rfl⟩
  have gen : Spec (ctxD s.fresh.cd) (stepM c e) (fun _ => True) →
      (∀ call ∈ (step c s e).1.active, NotWru call.pkt) ∧
      ((sentCds (step c s e).2 = [] ∧ (step c s e).1.fresh.cd = s.fresh.cd) ∨
       (sentCds (step c s e).2 = [mkName c (s.fresh.cd + 1)] ∧ (step c s e).1.fresh.cd = s.fresh.cd + 1)) := by
    intro hsp
    have hI := hsp.step h0
    exact ⟨fun call hc => (hI.act call hc).2, Or.inl ⟨sentCds_nil_of _ hI.outs, hI.frame⟩⟩
  cases e with
  | appRequest ct rid body => exact gen (spec_stepM_appRequest c ct rid body trivial)
  | appResponse na rid rb => exact gen (spec_stepM_appResponse c na rid rb)
  | appWru na nonce known =>
    have key : wp (sendChallenge c na nonce known) (fun _ st' =>
        (st'.1.active = s.active) ∧
        ((sentCds st'.2 = [] ∧ st'.1.fresh.cd = s.fresh.cd) ∨
         (sentCds st'.2 = [mkName c (s.fresh.cd + 1)] ∧ st'.1.fresh.cd = s.fresh.cd + 1))) (s, []) := by
      unfold sendChallenge freshCd addExpected send
      simp only [wp_bind, wp_getS, wp_ite, wp_pure, wp_setS, wp_modS, wp_emit]
      split
      · simp [sentCds]
      · split <;> simp [sentCds]
    obtain ⟨k1, k2⟩ := key
    refine ⟨fun call hc => ha call ?_, k2⟩
    rw [← k1]; exact hc
  | dgram src p =>
    cases p with
    | whoareyou nonce cd enrSeq =>
      exact gen (spec_handleChallenge c src nonce cd enrSeq (fun _ _ _ => ⟨fun _ => trivial, fun _ _ _ => trivial⟩))
    | message srcId nonce ct => exact gen (spec_handleMessage c _ nonce ct (fun _ _ => trivial))
    | handshake srcId nonce sig eph record ct =>
      refine gen (spec_handleAuthMessage c _ nonce sig eph record ct (fun _ _ _ h => h)
        (fun _ _ _ h => h) (fun _ _ => trivial) ?_)
      intro ch sess r hest
      exact ⟨(establish_ok c _ ch sig eph record sess r hest).1, trivial, fun _ _ => trivial⟩
  | adv dt => exact gen (spec_stepM_adv c dt (fun _ _ _ h => h))
  | rtAdv dt => exact gen (spec_stepM_rtAdv c dt)

theorem invD (c : Cfg) : ∀ evs,
    (∀ call ∈ (run c evs).active, NotWru call.pkt) ∧ (sentCds (outputs c evs)).Nodup ∧
    ∀ x ∈ sentCds (outputs c evs), x ≤ mkName c (run c evs).fresh.cd := by
  refine list_rev_ind ?_ ?_
  · exact ⟨fun _ h => (by cases h), List.nodup_nil, fun _ h => (by cases h)⟩
  · intro evs e ⟨h1, h2, h3⟩
    obtain ⟨k1, k2⟩ := stepD c (run c evs) e h1
    rw [run_snoc, outputs_snoc, sentCds_append]
    refine ⟨k1, ?_⟩
    rcases k2 with ⟨k2, k3⟩ | ⟨k2, k3⟩
    · rw [k2, k3, List.append_nil]; exact ⟨h2, h3⟩
    · rw [k2, k3]
      refine ⟨?_, ?_⟩
      · rw [List.nodup_append]
        refine ⟨h2, by simp, ?_⟩
        intro a ha b hb hab
        rw [List.mem_singleton.1 hb] at hab
        have := h3 a ha
        rw [hab] at this
        unfold mkName at this
        omega
      · intro x hx
        rcases List.mem_append.1 hx with hx | hx
        · have := h3 x hx; unfold mkName at this ⊢; omega
        · rw [List.mem_singleton.1 hx]; exact Nat.le_refl _

/-- Context for: the session cache holds at most one entry per node address. -/
def ctxE : Ctx where
  GN := fun _ => True
  GS := fun _ _ => True
  SL := fun l => l.Nodup
  GC := fun _ => True
  GPk := fun _ => True
  GO := fun _ => True
  F := fun _ _ => True
  gs_gn := fun _ _ _ => trivial
  gs_counter := fun _ _ _ _ => trivial
  gs_await := fun _ _ _ => trivial
  gc_gn := fun _ _ => trivial
  go_est_contact := fun _ _ _ _ _ => trivial
  gpk_msg := fun _ _ _ => trivial
  gpk_hs := fun _ _ _ _ _ _ => trivial
  go_failed := fun _ _ => trivial
  go_expired := fun _ => trivial
  go_wru := fun _ _ => trivial
  go_send := fun _ _ _ => trivial
  go_request := fun _ _ _ _ => trivial
  go_response := fun _ _ _ _ => trivial
  go_est := fun _ _ _ _ _ => trivial
  go_unv := fun _ _ _ => trivial
  sl_filter := fun _ _ h => List.Pairwise.filter _ h
  sl_insert := fun l na h => by
    rw [List.nodup_append]
    refine ⟨List.Pairwise.filter _ h, by simp, ?_⟩
    intro a ha b hb hab
    rw [List.mem_singleton.1 hb] at hab
    have := (List.mem_filter.1 ha).2
    simp [hab] at this
  sl_suffix := fun l1 l2 h => (List.nodup_append.1 h).2.1

theorem stepE (c : Cfg) (e : Ev) : Spec ctxE (stepM c e) (fun _ => True) := by
  cases e with
  | appRequest ct rid body => exact spec_stepM_appRequest c ct rid body trivial
  | appResponse na rid rb => exact spec_stepM_appResponse c na rid rb
  | appWru na nonce known =>
    exact spec_sendChallenge c na nonce known (fun _ _ _ => trivial) (fun _ _ _ _ => trivial)
      (fun _ _ _ => trivial)
  | dgram src p =>
    cases p with
    | whoareyou nonce cd enrSeq =>
      exact spec_handleChallenge c src nonce cd enrSeq (fun _ _ _ => ⟨fun _ => trivial, fun _ _ _ => trivial⟩)
    | message srcId nonce ct => exact spec_handleMessage c _ nonce ct (fun _ _ => trivial)
    | handshake srcId nonce sig eph record ct =>
      refine spec_handleAuthMessage c _ nonce sig eph record ct (fun _ _ _ _ => trivial)
        (fun _ _ _ _ => trivial) (fun _ _ => trivial) ?_
      intro ch sess r hest
      exact ⟨(establish_ok c _ ch sig eph record sess r hest).1, trivial, fun _ _ => trivial⟩
  | adv dt => exact spec_stepM_adv c dt (fun _ _ _ _ => trivial)
  | rtAdv dt => exact spec_stepM_rtAdv c dt

theorem invE (c : Cfg) : ∀ evs, ((run c evs).sessions.map (·.1)).Nodup := by
  refine list_rev_ind ?_ ?_
  · exact List.nodup_nil
  · intro evs e ih
    have h0 : Inv ctxE (run c evs, []) :=
      ⟨fun _ _ => trivial, ih, fun _ _ => ⟨trivial, trivial⟩, fun _ _ _ _ => trivial,
        fun _ ho => (by cases ho), trivial⟩
    rw [run_snoc]
    exact ((stepE c e).step h0).keys

/-! ### single-step facts (C03) -/

theorem hs_needs_challenge_aux (c : Cfg) (s : HState) (src : Addr) (srcId nonce : Nat) (sig : Sig)
    (eph : Nat) (record : Option Rec) (ct : Ct)
    (h : s.challenges.any (·.1 == { id := srcId, addr := src }) = false) :
    step c s (.dgram src (.handshake srcId nonce sig eph record ct)) = (s, []) := by
  have hf : s.challenges.find? (fun x => x.1 == ({ id := srcId, addr := src } : NA)) = none := by
    rw [List.find?_eq_none]
    intro x hx
    have := List.any_eq_false.1 h x hx
    simpa using this
  have key : wp (handleAuthMessage c { id := srcId, addr := src } nonce sig eph record ct)
      (fun _ st' => st' = (s, [])) (s, []) := by
    unfold handleAuthMessage
    simp only [wp_bind, wp_getS, hf, wp_pure]
  exact key

theorem wru_needs_request_aux (c : Cfg) (s : HState) (src : Addr) (nonce cd enrSeq : Nat)
    (h : ∀ call ∈ s.active, ¬ (call.pkt.nonce = nonce ∧ call.contact.na.addr = src)) :
    (step c s (.dgram src (.whoareyou nonce cd enrSeq))).2 = [] ∧
    (step c s (.dgram src (.whoareyou nonce cd enrSeq))).1.sessions = s.sessions ∧
    (step c s (.dgram src (.whoareyou nonce cd enrSeq))).1.pending = s.pending := by
  have key : wp (handleChallenge c src nonce cd enrSeq)
      (fun _ st' => st'.2 = [] ∧ st'.1.sessions = s.sessions ∧ st'.1.pending = s.pending) (s, []) := by
    unfold handleChallenge activeRemoveByNonce
    simp only [wp_bind, wp_getS]
    rcases hf : s.active.find? (fun x => x.pkt.nonce == nonce) with _ | call0
    · simp only [hf, wp_pure]; refine ⟨?_, ?_, ?_⟩ <;> first | rfl | trivial
    · simp only [hf, wp_bind, wp_setS, wp_pure, wp_ite]
      have hn : call0.pkt.nonce = nonce := by simpa using List.find?_some hf
      have hne : ((callNA call0).addr != src) = true := by
        have := h call0 (List.mem_of_find?_eq_some hf)
        simp only [not_and] at this
        simpa [callNA] using this hn
      rw [if_pos hne]
      unfold activeInsert
      simp only [wp_modS]
      refine ⟨?_, ?_, ?_⟩ <;> first | rfl | trivial
  exact key

theorem one_hs_per_request_aux (c : Cfg) (s : HState) (src : Addr) (nonce cd enrSeq : Nat)
    (call : Call) (hc : s.active.find? (·.pkt.nonce == nonce) = some call)
    (ha : call.contact.na.addr = src) (hs : call.hsSent = true) :
    ∀ o ∈ (step c s (.dgram src (.whoareyou nonce cd enrSeq))).2, ∀ na p, o ≠ .send na p := by
  have key : wp (handleChallenge c src nonce cd enrSeq) (fun _ st' => NoSend st') (s, []) := by
    unfold handleChallenge activeRemoveByNonce
    simp only [wp_bind, wp_getS, hc, wp_setS, wp_pure, wp_ite]
    have hne : ¬ ((callNA call).addr != src) = true := by simp [callNA, ha]
    rw [if_neg hne, if_pos hs]
    unfold removeExpected failRequest
    simp only [wp_modS, wp_bind, wp_ite, wp_emit]
    have h0 : NoSend ({ s with active := s.active.erase call }, []) := fun o ho => by cases ho
    split
    · rw [failSession_true]
      unfold removeExpiredSessions sessRemove
      simp only [wp_bind, wp_getS, wp_setS, wp_ite, wp_emit, wp_pure, wp_modS]
      split
      · refine wp_mono (tail_failSession noSend_tail c _ _ _ ?_) (fun _ _ h => h)
        intro o ho
        simp at ho
        rcases ho with rfl | rfl <;> (intro _ _ hh; cases hh)
      · refine wp_mono (tail_failSession noSend_tail c _ _ _ ?_) (fun _ _ h => h)
        intro o ho
        simp at ho
        subst ho; intro _ _ hh; cases hh
    · rw [failSession_true]
      unfold removeExpiredSessions sessRemove
      simp only [wp_bind, wp_getS, wp_setS, wp_ite, wp_emit, wp_pure, wp_modS]
      split
      · refine wp_mono (tail_failSession noSend_tail c _ _ _ ?_) (fun _ _ h => h)
        intro o ho
        simp at ho
        subst ho; intro _ _ hh; cases hh
      · refine wp_mono (tail_failSession noSend_tail c _ _ _ ?_) (fun _ _ h => h)
        intro o ho
        simp at ho
  exact key

end Discv5.H.HI

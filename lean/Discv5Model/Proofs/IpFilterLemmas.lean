/-
Helper lemmas for C16 (IP-diversity limits), final part: every table operation preserves the
IP invariant.  The development is split over `IpFilterShapes` (filter spec, counting, shapes of the
bucket operations), `IpFilterBucket` (per-bucket invariants), `IpFilterTable` (table-level
counting), `IpFilterOps` (case analyses of the table operations), `IpFilterStep`, `IpFilterFold`.
Everything lives in the namespace `Discv5.KB.Ip`.
-/
import Discv5Model.Proofs.IpFilterFold
import Discv5Model.Proofs.KBucketLemmas
namespace Discv5.KB.Ip

/-- buckets of `(applyAt … t.bump i).setBucket i b'` -/
theorem applyAt_set_buckets (c : Cfg Val) (now : Nat) (t0 : Table Val) (i : Nat) (b' : Bucket Val) :
    ((Table.applyAt c now t0.bump i).setBucket i b').buckets = t0.buckets.set i b' := by
  unfold Table.setBucket
  simp only []
  rw [applyAt_buckets, List.set_set]
  rfl

theorem applyAt_bucket_self (c : Cfg Val) (now : Nat) (t0 : Table Val) (i : Nat)
    (hi : i < t0.buckets.length) :
    (Table.applyAt c now t0.bump i).bucket i = ((t0.bucket i).applyPending c now (t0.tick + 1)).1 :=
  bucket_of_set_self t0.bump _ i _ (applyAt_buckets c now t0.bump i) hi

theorem shrink_step (keyOf : Val → Nat) (mi pt now : Nat) (t0 : Table Val) (i : Nat)
    (f : Bucket Val → Bucket Val)
    (hf : ∀ b, Good keyOf b → Mono b (f b) ∧ NB (f b))
    (hk : Keep keyOf t0) :
    IpInv ((Table.applyAt (ipCfg mi pt) now t0.bump i).setBucket i
      (f ((Table.applyAt (ipCfg mi pt) now t0.bump i).bucket i))) ∧
    ValuesMatchKeys keyOf ((Table.applyAt (ipCfg mi pt) now t0.bump i).setBucket i
      (f ((Table.applyAt (ipCfg mi pt) now t0.bump i).bucket i))) := by
  apply set_shrink keyOf t0 _ i _ (applyAt_set_buckets _ now t0 i _) hk.2.1 hk.2.2
  intro hi
  rw [applyAt_bucket_self _ now t0 i hi]
  have hg := keep_good keyOf t0 hk i
  have hm := applyPending_mono (ipCfg mi pt) now (t0.tick + 1) (t0.bucket i)
  have hg' := good_applyPending keyOf mi pt now (t0.tick + 1) (t0.bucket i) hg
  have := hf _ hg'
  exact ⟨hm.trans this.1, this.2⟩

theorem add_step (keyOf : Val → Nat) (mi pt now : Nat) (t0 t' : Table Val) (i : Nat) (key : Nat) (v : Val)
    (b' : Bucket Val) (hkey : key = keyOf v)
    (ht' : t' = (Table.applyAt (ipCfg mi pt) now t0.bump i).setBucket i b')
    (hrel : Good keyOf ((Table.applyAt (ipCfg mi pt) now t0.bump i).bucket i) →
      MonoEx key v ((Table.applyAt (ipCfg mi pt) now t0.bump i).bucket i) b' ∧ NB b' ∧
      (Table.passesTableFilter (ipCfg mi pt) t0 key v = false →
        Mono ((Table.applyAt (ipCfg mi pt) now t0.bump i).bucket i) b'))
    (hk : Keep keyOf t0) (hT' : TInv (ipCfg mi pt) t') :
    IpInv t' ∧ ValuesMatchKeys keyOf t' := by
  have hb : t'.buckets = t0.buckets.set i b' := by rw [ht']; exact applyAt_set_buckets _ now t0 i _
  have hg := keep_good keyOf t0 hk i
  have hm := applyPending_mono (ipCfg mi pt) now (t0.tick + 1) (t0.bucket i)
  have hg' := good_applyPending keyOf mi pt now (t0.tick + 1) (t0.bucket i) hg
  cases hpass : Table.passesTableFilter (ipCfg mi pt) t0 key v
  · apply set_shrink keyOf t0 t' i b' hb hk.2.1 hk.2.2
    intro hi
    rw [applyAt_bucket_self _ now t0 i hi] at hrel
    have := hrel hg'
    exact ⟨hm.trans (this.2.2 hpass), this.2.1⟩
  · apply set_add keyOf (ipCfg mi pt) t0 t' i b' key v hkey hb hk.2.1 hk.2.2 hT'
      (passes_spec mi pt t0 key v hpass)
    intro hi
    rw [applyAt_bucket_self _ now t0 i hi] at hrel
    have := hrel hg'
    exact ⟨(hm.ex _ _).trans this.1, this.2.1⟩

theorem step_keep (keyOf : Val → Nat) (mi pt : Nat) (t : Table Val) (op : Op Val)
    (hk : Keep keyOf t) (hop : op.Respects keyOf)
    (hT' : TInv (ipCfg mi pt) (t.step (ipCfg mi pt) op)) :
    IpInv (t.step (ipCfg mi pt) op) ∧ ValuesMatchKeys keyOf (t.step (ipCfg mi pt) op) := by
  have hbump : IpInv t.bump ∧ ValuesMatchKeys keyOf t.bump := (bump_keep keyOf t hk).2
  cases op with
  | insertOrUpdate now key v st =>
    have hkey : key = keyOf v := hop
    show IpInv (t.insertOrUpdate (ipCfg mi pt) now key v st).1 ∧
      ValuesMatchKeys keyOf (t.insertOrUpdate (ipCfg mi pt) now key v st).1
    cases hi : bucketIndex t.localKey key with
    | none => rw [insertOrUpdate_none _ now t key v st hi]; exact hbump
    | some i =>
      obtain ⟨b', hb', hcase⟩ := insertOrUpdate_cases (ipCfg mi pt) now t key v st i hi
      exact add_step keyOf mi pt now t _ i key v b' hkey hb'
        (fun hg => iou_bucket keyOf mi pt now (t.tick + 1) _ key v st _ b' hg hkey hcase) hk hT'
  | updateNode now key v s =>
    have hkey : key = keyOf v := hop
    show IpInv (t.updateNode (ipCfg mi pt) now key v s).1 ∧
      ValuesMatchKeys keyOf (t.updateNode (ipCfg mi pt) now key v s).1
    cases hi : bucketIndex t.localKey key with
    | none => rw [updateNode_none _ now t key v s hi]; exact hbump
    | some i =>
      obtain ⟨b', hb', hcase⟩ := updateNode_cases (ipCfg mi pt) now t key v s i hi
      exact add_step keyOf mi pt now t _ i key v b' hkey hb'
        (fun hg => un_bucket keyOf mi pt now (t.tick + 1) _ key v _ b' hg hkey hcase) hk hT'
  | updateNodeStatus now key conn dir =>
    show IpInv (t.updateNodeStatus (ipCfg mi pt) now key conn dir).1 ∧
      ValuesMatchKeys keyOf (t.updateNodeStatus (ipCfg mi pt) now key conn dir).1
    cases hi : bucketIndex t.localKey key with
    | none => rw [updateNodeStatus_none _ now t key conn dir hi]; exact hbump
    | some i =>
      rw [updateNodeStatus_cases _ now t key conn dir i hi]
      exact shrink_step keyOf mi pt now t i
        (fun b => (b.updateStatus (ipCfg mi pt) now (t.tick + 1) key conn dir).1)
        (fun b hg => ⟨updateStatus_mono _ now _ b key conn dir,
          (good_updateStatus keyOf _ now _ b key conn dir hg).2.2⟩) hk
  | remove now key =>
    show IpInv (t.remove (ipCfg mi pt) now key).1 ∧
      ValuesMatchKeys keyOf (t.remove (ipCfg mi pt) now key).1
    cases hi : bucketIndex t.localKey key with
    | none => rw [remove_none _ now t key hi]; exact hbump
    | some i =>
      rw [remove_cases _ now t key i hi]
      exact shrink_step keyOf mi pt now t i
        (fun b => (b.remove (ipCfg mi pt) now (t.tick + 1) key).1)
        (fun b hg => ⟨remove_mono _ now _ b key, (good_remove keyOf mi pt now _ b key hg).2.2⟩) hk
  | entry now key =>
    show IpInv (t.entryTouch (ipCfg mi pt) now key) ∧
      ValuesMatchKeys keyOf (t.entryTouch (ipCfg mi pt) now key)
    rcases entryTouch_cases (ipCfg mi pt) now t key with h | ⟨i, h⟩
    · rw [h]; exact hbump
    · rw [h]; exact (applyAt_keep keyOf mi pt now _ i (bump_keep keyOf t hk)).2
  | iter now => exact (applyAll_keep keyOf mi pt now t hk).2
  | closest now target => exact (closest_keep keyOf mi pt now t target hk).2
  | nodesByDistances now ds m => exact (nodesByDistances_keep keyOf mi pt now t ds m hk).2
  | takeApplied =>
    show IpInv t.takeApplied.1 ∧ ValuesMatchKeys keyOf t.takeApplied.1
    have : t.takeApplied.1.buckets = t.buckets := by
      unfold Table.takeApplied; split <;> rfl
    exact (keep_congr keyOf t _ this hk).2


/-- The three invariants together are preserved by every operation. -/
theorem step_all (keyOf : Val → Nat) (mi pt : Nat) (t : Table Val) (op : Op Val)
    (hT : TInv (ipCfg mi pt) t) (hI : IpInv t) (hK : ValuesMatchKeys keyOf t)
    (hop : op.Respects keyOf) :
    TInv (ipCfg mi pt) (t.step (ipCfg mi pt) op) ∧ IpInv (t.step (ipCfg mi pt) op) ∧
      ValuesMatchKeys keyOf (t.step (ipCfg mi pt) op) :=
  have hT' := step_tinv (ipCfg mi pt) t op hT
  ⟨hT', step_keep keyOf mi pt t op (keep_of_tinv keyOf _ t hT hI hK) hop hT'⟩

theorem init_ipInv (localKey : Nat) : IpInv (Table.init localKey : Table Val) := by
  rw [ipInv_iff]
  have hb : ∀ b ∈ (Table.init localKey : Table Val).buckets, b = {} := by
    intro b hb; exact List.eq_of_mem_replicate hb
  refine ⟨fun i => ?_, fun s => ?_⟩
  · rcases bucket_mem_or_empty (Table.init localKey : Table Val) i with h | h
    · rw [hb _ h]; exact NB_empty
    · rw [h]; exact NB_empty
  · have : TW (inS s) (Table.init localKey : Table Val) = 0 :=
      sum_map_zero _ _ (fun b hbm => by rw [hb b hbm]; rfl)
    omega

theorem init_vmk (keyOf : Val → Nat) (localKey : Nat) :
    ValuesMatchKeys keyOf (Table.init localKey : Table Val) := by
  rw [vmk_iff]
  intro b hb
  rw [List.eq_of_mem_replicate hb]
  exact VB_empty keyOf

theorem foldl_all (keyOf : Val → Nat) (mi pt : Nat) (ops : List (Op Val)) (t : Table Val)
    (hops : ∀ op ∈ ops, op.Respects keyOf)
    (hT : TInv (ipCfg mi pt) t) (hI : IpInv t) (hK : ValuesMatchKeys keyOf t) :
    IpInv (ops.foldl (Table.step (ipCfg mi pt)) t) := by
  induction ops generalizing t with
  | nil => exact hI
  | cons op ops ih =>
    obtain ⟨h1, h2, h3⟩ := step_all keyOf mi pt t op hT hI hK (hops op (by simp))
    exact ih _ (fun o ho => hops o (by simp [ho])) h1 h2 h3

end Discv5.KB.Ip

/- Helper lemmas for C02 / C19 / C15 (handler part): weakest-precondition plumbing for the handler state
monad, exact specifications of the session-cache primitives, and the invariants behind the
property theorems of `Props/wip/C02.lean`. -/
import Discv5Model.Model.HandlerSpec
namespace Discv5.H.Cr
abbrev St := HState × List Out

def wp {α} (m : M α) (Q : α → St → Prop) (st : St) : Prop := Q (m st).1 (m st).2

theorem wp_pure {α} (a : α) (Q : α → St → Prop) (st : St) : wp (pure a) Q st ↔ Q a st := Iff.rfl
theorem wp_bind {α β} (m : M α) (f : α → M β) (Q : β → St → Prop) (st : St) :
    wp (m >>= f) Q st ↔ wp m (fun a st' => wp (f a) Q st') st := Iff.rfl
theorem wp_map {α β} (f : α → β) (m : M α) (Q : β → St → Prop) (st : St) :
    wp (f <$> m) Q st ↔ wp m (fun a st' => Q (f a) st') st := Iff.rfl
theorem wp_getS (Q : HState → St → Prop) (st : St) : wp getS Q st ↔ Q st.1 st := Iff.rfl
theorem wp_setS (s : HState) (Q : Unit → St → Prop) (st : St) : wp (setS s) Q st ↔ Q () (s, st.2) := Iff.rfl
theorem wp_modS (f : HState → HState) (Q : Unit → St → Prop) (st : St) :
    wp (modS f) Q st ↔ Q () (f st.1, st.2) := Iff.rfl
theorem wp_emit (o : Out) (Q : Unit → St → Prop) (st : St) :
    wp (emit o) Q st ↔ Q () (st.1, st.2 ++ [o]) := Iff.rfl
theorem wp_ite {α} (p : Prop) {_ : Decidable p} (a b : M α) (Q : α → St → Prop) (st : St) :
    wp (if p then a else b) Q st ↔ (p → wp a Q st) ∧ (¬p → wp b Q st) := by
  split <;> simp [*]
theorem wp_mono {α} {m : M α} {Q Q' : α → St → Prop} {st : St} (h : wp m Q st)
    (hq : ∀ a st', Q a st' → Q' a st') : wp m Q' st := hq _ _ h

/-- Hoare triple. -/
def Tr {α} (P : St → Prop) (m : M α) (Q : α → St → Prop) : Prop := ∀ st, P st → wp m Q st

theorem Tr.wp {α} {P : St → Prop} {m : M α} {R Q : α → St → Prop} {st : St}
    (h : Tr P m R) (hp : P st) (hq : ∀ a st', R a st' → Q a st') : wp m Q st := hq _ _ (h st hp)

theorem forEach_inv {α} (I : St → Prop) (l : List α) (f : α → M Unit)
    (h : ∀ x ∈ l, Tr I (f x) (fun _ => I)) : Tr I (forEach l f) (fun _ => I) := by
  induction l with
  | nil => intro st hI; exact hI
  | cons x xs ih =>
    intro st hI
    unfold forEach
    rw [wp_bind]
    exact (h x (by simp)).wp hI fun _ st' hI' => ih (fun y hy => h y (by simp [hy])) st' hI'

macro "cr_wpsimp" : tactic => `(tactic| simp only [wp_bind, wp_getS, wp_setS, wp_modS, wp_emit, wp_pure, wp_ite, wp_map])

theorem step_out (c : Cfg) (s : HState) (e : Ev) : (step c s e).2 = (stepM c e (s, [])).2.2 := rfl
theorem step_st (c : Cfg) (s : HState) (e : Ev) : (step c s e).1 = (stepM c e (s, [])).2.1 := rfl

/-! exact specs of the primitives -/
theorem wp_sessGetMut (c : Cfg) (na : NA) (Q : Option Session → St → Prop) (st : St) :
    wp (sessGetMut c na) Q st ↔
      (st.1.sessions.find? (·.1 == na) = none → Q none st) ∧
      (∀ x sess stamp, st.1.sessions.find? (·.1 == na) = some (x, sess, stamp) →
        (stamp + c.sessionTtl < st.1.rt →
          Q none ({ st.1 with sessions := st.1.sessions.filter (·.1 != na) }, st.2)) ∧
        (¬ stamp + c.sessionTtl < st.1.rt →
          Q (some sess) ({ st.1 with sessions := st.1.sessions.filter (·.1 != na) ++ [(na, sess, st.1.rt)] }, st.2))) := by
  unfold sessGetMut
  rw [wp_bind, wp_getS]
  cases h : st.1.sessions.find? (·.1 == na) with
  | none => simp [wp_pure]
  | some e =>
    obtain ⟨x, sess, stamp⟩ := e
    simp only [wp_ite, wp_bind, wp_setS, wp_pure, reduceCtorEq, false_implies, true_and, Option.some.injEq,
      Prod.mk.injEq]
    constructor
    · rintro ⟨h1, h2⟩ x' sess' stamp' ⟨-, rfl, rfl⟩
      exact ⟨h1, h2⟩
    · intro h'; exact h' x sess stamp ⟨rfl, rfl, rfl⟩


theorem wp_activeRemoveRequest (na : NA) (rid : Nat) (Q : Option Call → St → Prop) (st : St) :
    wp (activeRemoveRequest na rid) Q st ↔
      (st.1.active.find? (fun call => callNA call == na && call.rid == rid) = none → Q none st) ∧
      (∀ call, st.1.active.find? (fun call => callNA call == na && call.rid == rid) = some call →
        Q (some call) ({ st.1 with active := st.1.active.erase call }, st.2)) := by
  unfold activeRemoveRequest
  rw [wp_bind, wp_getS]
  cases h : st.1.active.find? (fun call => callNA call == na && call.rid == rid) with
  | none => simp [wp_pure]
  | some e => simp [wp_setS, wp_map]

theorem wp_activeRemoveByNonce (nonce : Nat) (Q : Option Call → St → Prop) (st : St) :
    wp (activeRemoveByNonce nonce) Q st ↔
      (st.1.active.find? (·.pkt.nonce == nonce) = none → Q none st) ∧
      (∀ call, st.1.active.find? (·.pkt.nonce == nonce) = some call →
        Q (some call) ({ st.1 with active := st.1.active.erase call }, st.2)) := by
  unfold activeRemoveByNonce
  rw [wp_bind, wp_getS]
  cases h : st.1.active.find? (·.pkt.nonce == nonce) with
  | none => simp [wp_pure]
  | some e => simp [wp_setS, wp_map]

def AllOut (P : Out → Prop) (st : St) : Prop := ∀ o ∈ st.2, P o

theorem AllOut.snoc {P : Out → Prop} {s s' : HState} {os : List Out} {o : Out}
    (h : AllOut P (s, os)) (ho : P o) : AllOut P (s', os ++ [o]) := by
  intro x hx
  rcases List.mem_append.1 hx with hx | hx
  · exact h x hx
  · simp at hx; subst hx; exact ho

theorem AllOut.state {P : Out → Prop} {s s' : HState} {os : List Out}
    (h : AllOut P (s, os)) : AllOut P (s', os) := h

theorem removeExpiredSessions_out (c : Cfg) (P : Out → Prop) (hexp : ∀ l, P (.expired l)) :
    Tr (AllOut P) (removeExpiredSessions c) (fun _ => AllOut P) := by
  intro st h
  unfold removeExpiredSessions
  cr_wpsimp
  exact ⟨fun _ => AllOut.snoc h (hexp _), fun _ => h⟩

theorem failSession_out (c : Cfg) (na : NA) (e : Err) (b : Bool) (P : Out → Prop)
    (hf : ∀ rid e, P (.failed rid e)) (hexp : ∀ l, P (.expired l)) :
    Tr (AllOut P) (failSession c na e b) (fun _ => AllOut P) := by
  have tail : ∀ st, AllOut P st → wp (do
      let s ← getS
      have __do_jp : Unit → M Unit := fun __r => do
        let calls ← activeRemoveRequests na
        forEach calls fun call => do
          if !call.internal then emit (.failed call.rid e)
          removeExpected na.addr
      match s.pending.find? (·.1 == na) with
      | some ent =>
        setS { s with pending := s.pending.filter (·.1 != na) }
        forEach ent.2 fun pr => do
          if !pr.internal then emit (.failed pr.rid e)
        __do_jp ()
      | none => __do_jp ()) (fun _ => AllOut P) st := by
    intro st h
    have jp : ∀ st, AllOut P st → wp (do
        let calls ← activeRemoveRequests na
        forEach calls fun call => do
          if !call.internal then emit (.failed call.rid e)
          removeExpected na.addr) (fun _ => AllOut P) st := by
      intro st h
      unfold activeRemoveRequests
      cr_wpsimp
      refine forEach_inv (AllOut P) _ _ (fun call _ st h => ?_) _ h
      unfold removeExpected
      cr_wpsimp
      exact ⟨fun _ => AllOut.snoc h (hf _ _), fun _ => h⟩
    cr_wpsimp
    split
    · cr_wpsimp
      refine (forEach_inv (AllOut P) _ _ (fun pr _ st h => ?_)).wp (st := (_, st.2)) h (fun _ st' h' => jp st' h')
      cr_wpsimp
      exact ⟨fun _ => AllOut.snoc h (hf _ _), fun _ => h⟩
    · exact jp st h
  intro st h
  unfold failSession
  cases b
  · simp only [Bool.false_eq_true, if_false]
    exact tail st h
  · simp only [if_true]
    rw [wp_bind]
    refine (removeExpiredSessions_out c P hexp).wp h (fun _ st' h' => ?_)
    rw [wp_bind]; unfold sessRemove; rw [wp_modS]
    exact tail _ h'

theorem handleResponse_out (c : Cfg) (na : NA) (rid : Nat) (rb : RespBody) (P : Out → Prop)
    (hr : P (.response na rid rb)) :
    Tr (AllOut P) (handleResponse c na rid rb) (fun _ => AllOut P) := by
  intro st h
  unfold handleResponse
  rw [wp_bind, wp_activeRemoveRequest]
  refine ⟨fun _ => h, fun call _ => ?_⟩
  · simp only []
    have fin : ∀ st : St, AllOut P st → wp (do removeExpected na.addr; emit (.response na rid rb)) (fun _ => AllOut P) st := by
      intro st h; unfold removeExpected; cr_wpsimp; exact AllOut.snoc h hr
    unfold activeInsert
    split
    · cr_wpsimp
      refine ⟨fun _ => ?_, fun _ => fin _ h⟩
      split
      · cr_wpsimp
        exact ⟨fun _ => AllOut.snoc h hr, fun _ => fin _ h⟩
      · cr_wpsimp; exact AllOut.snoc h hr
    · exact fin _ h

theorem decrypt_some {sess : Session} {nonce : Nat} {ct : Ct} {m : Msg}
    (h : (decryptMessage sess nonce ct).2 = some m) :
    ∃ key ctr, ct = .enc key nonce ctr m true ∧
      (key = sess.keys.dec ∨ ∃ old, sess.oldKeys = some old ∧ key = old.dec) := by
  unfold decryptMessage at h
  cases ct with
  | garbage =>
    simp only at h
    split at h <;> simp at h
  | enc key n ctr pt adOk =>
    simp only at h
    by_cases h1 : (key == sess.keys.dec && n == nonce && adOk) = true
    · simp only [h1, if_true, Option.some.injEq] at h
      simp only [Bool.and_eq_true, beq_iff_eq] at h1
      exact ⟨key, ctr, by rw [h1.1.2, h1.2, h], Or.inl h1.1.1⟩
    · simp only [h1, Bool.false_eq_true, if_false] at h
      cases ho : sess.oldKeys with
      | none => simp [ho] at h
      | some old =>
        simp only [ho] at h
        by_cases h2 : (key == old.dec && n == nonce && adOk) = true
        · simp only [h2, if_true, Option.some.injEq] at h
          simp only [Bool.and_eq_true, beq_iff_eq] at h2
          exact ⟨key, ctr, by rw [h2.1.2, h2.2, h], Or.inr ⟨old, rfl, h2.1.1⟩⟩
        · simp [h2] at h

/-- The datagram's ciphertext is an AEAD term sealed under the current or previous decryption key of
the session stored for `na`, with the datagram's own nonce and associated data. -/
def SealedFor (s : HState) (na : NA) (nonce : Nat) (ct : Ct) : Prop :=
  ∃ key ctr pt sess stamp, ct = .enc key nonce ctr pt true ∧ (na, sess, stamp) ∈ s.sessions ∧
    (key = sess.keys.dec ∨ ∃ old, sess.oldKeys = some old ∧ key = old.dec)

theorem handleMessage_out (c : Cfg) (na : NA) (nonce : Nat) (ct : Ct) (P : Out → Prop) (st : St)
    (hf : ∀ rid e, P (.failed rid e)) (hexp : ∀ l, P (.expired l)) (hw : P (.wru na nonce))
    (hdel : SealedFor st.1 na nonce ct → (∀ rid b, P (.request na rid b)) ∧ (∀ rid rb, P (.response na rid rb)) ∧
      (∀ r a d, P (.established r a d)) ∧ (∀ r a i, P (.unverifiable r a i)))
    (h : AllOut P st) : wp (handleMessage c na nonce ct) (fun _ => AllOut P) st := by
  unfold handleMessage
  rw [wp_bind, wp_sessGetMut]
  refine ⟨fun _ => ?_, fun x sess stamp hfind => ⟨fun _ => ?_, fun _ => ?_⟩⟩
  · simp only []; cr_wpsimp; exact AllOut.snoc h hw
  · simp only []; cr_wpsimp; exact AllOut.snoc h hw
  · have hx : x = na := by simpa using List.find?_some hfind
    subst hx
    have hmem := List.mem_of_find?_eq_some hfind
    simp only []
    generalize hd : decryptMessage sess nonce ct = r
    obtain ⟨sess', pt⟩ := r
    have hd2 : (decryptMessage sess nonce ct).2 = pt := by rw [hd]
    unfold sessPut
    rw [wp_bind, wp_modS]
    simp only []
    cases pt with
    | none =>
      simp only []
      rw [wp_bind]
      refine (failSession_out c x _ _ P hf hexp).wp (AllOut.state h) (fun _ st' h' => ?_)
      cr_wpsimp
      exact ⟨fun _ => AllOut.snoc h' hw, fun _ => h'⟩
    | some m =>
      obtain ⟨key, ctr, hct, hk⟩ := decrypt_some hd2
      obtain ⟨h1, h2, h3, h4⟩ := hdel ⟨key, ctr, m, sess, stamp, hct, hmem, hk⟩
      cases m with
      | undecodable => exact h
      | request rid body => simp only []; cr_wpsimp; exact AllOut.snoc h (h1 _ _)
      | response rid rb =>
        simp only []
        cr_wpsimp
        refine ⟨fun _ => ?_, fun _ => handleResponse_out c x rid rb P (h2 _ _) _ (AllOut.state h)⟩
        rw [wp_activeRemoveRequest]
        have fs := failSession_out c x .invalidRemoteEnr true P hf hexp
        have ver : ∀ st : St, AllOut P st → wp (do
              match rb with
              | .nodes _ recs =>
                match recs.getLast? with
                | some r =>
                  if verifyEnr r x then
                    emit (.established r x.addr true)
                    return true
                  else
                    emit (.unverifiable r x.addr x.id)
                    return false
                | none => return false
              | _ => return false : M Bool) (fun _ => AllOut P) st := by
          intro st h
          split
          · split
            · cr_wpsimp
              exact ⟨fun _ => AllOut.snoc h (h3 _ _ _), fun _ => AllOut.snoc h (h4 _ _ _)⟩
            · exact h
          · exact h
        have verfin : ∀ st : St, AllOut P st → wp (do
            let verified ← (do
              match rb with
              | .nodes _ recs =>
                match recs.getLast? with
                | some r =>
                  if verifyEnr r x then
                    emit (.established r x.addr true)
                    return true
                  else
                    emit (.unverifiable r x.addr x.id)
                    return false
                | none => return false
              | _ => return false)
            if !verified then failSession c x .invalidRemoteEnr true) (fun _ => AllOut P) st := by
          intro st h
          rw [wp_bind]
          refine wp_mono (ver st h) (fun a st' h' => ?_)
          cr_wpsimp
          exact ⟨fun _ => fs _ h', fun _ => h'⟩
        refine ⟨fun _ => ?_, fun call _ => ?_⟩
        · exact verfin _ (AllOut.state h)
        · simp only []
          rw [wp_bind]; unfold removeExpected; rw [wp_modS]
          exact verfin _ (AllOut.state h)



theorem find_filter_ne {α} (l : List (NA × α)) (na : NA) :
    (l.filter (·.1 != na)).find? (·.1 == na) = none := by
  rw [List.find?_eq_none]
  intro x hx
  have := (List.mem_filter.1 hx).2
  simpa using this

/-- The "queue behind the pending handshake" branch of `send_request`. -/
def srQueue (contact : Contact) (rid : Nat) (internal : Bool) (body : Nat) : M (Option Err) := do
  modS fun s =>
    let pr : PendingReq := { contact := contact, rid := rid, internal := internal, body := body }
    if s.pending.any (·.1 == contact.na) then
      { s with pending := s.pending.map (fun e => if e.1 == contact.na then (e.1, e.2 ++ [pr]) else e) }
    else { s with pending := s.pending ++ [(contact.na, [pr])] }
  return none

/-- The tail of `send_request` once the packet is made. -/
def srFinish (c : Cfg) (contact : Contact) (rid : Nat) (internal : Bool) (body : Nat) (pkt : Pkt)
    (initiating : Bool) : M (Option Err) := do
  addExpected contact.na.addr
  send contact.na pkt
  activeInsert c { contact := contact, pkt := pkt, rid := rid, internal := internal, body := body,
                   initiating := initiating }
  return none

/-- The "send now" branch of `send_request`. -/
def srSend (c : Cfg) (contact : Contact) (rid : Nat) (internal : Bool) (body : Nat) : M (Option Err) := do
  match ← sessGetMut c contact.na with
  | some sess =>
    let (sess', p) ← encryptMessage c sess (.request rid body)
    sessPut contact.na sess'
    srFinish c contact rid internal body p false
  | none =>
    let n ← freshNonce c
    srFinish c contact rid internal body (Pkt.message c.localId n .garbage) true

theorem sendRequest_eq (c : Cfg) (contact : Contact) (rid : Nat) (internal : Bool) (body : Nat) :
    sendRequest c contact rid internal body =
      (if c.listen.contains contact.na.addr then pure (some .selfRequest) else
        getS >>= fun s =>
        if s.challenges.any (·.1 == contact.na) then srQueue contact rid internal body else
        isAwaitingSession c contact.na >>= fun awaiting =>
        if awaiting then srQueue contact rid internal body else srSend c contact rid internal body) := by
  rfl


theorem wp_encryptMessage (c : Cfg) (sess : Session) (pt : Msg) (Q : Session × Pkt → St → Prop) (st : St) :
    wp (encryptMessage c sess pt) Q st ↔
      Q ({ sess with counter := sess.counter + 1 },
          .message c.localId (mkName c (st.1.fresh.nonce + 1))
            (.enc sess.keys.enc (mkName c (st.1.fresh.nonce + 1)) (sess.counter + 1) pt true))
        ({ st.1 with fresh := { st.1.fresh with nonce := st.1.fresh.nonce + 1 } }, st.2) := Iff.rfl

/-- Directional keys: the two keys of a pair differ in the direction flag. -/
def Dir (s : Session) : Prop :=
  s.keys.enc.toRcp ≠ s.keys.dec.toRcp ∧ ∀ old, s.oldKeys = some old → old.enc.toRcp ≠ old.dec.toRcp

def BL (c : Cfg) (l : List (NA × Session × Nat)) : Prop :=
  l.length ≤ c.sessionCap ∧ ∀ e ∈ l, Dir e.2.1

def BInv (c : Cfg) (st : St) : Prop := BL c st.1.sessions

theorem BL.sub {c : Cfg} {l l' : List (NA × Session × Nat)} (h : BL c l) (hl : l'.length ≤ l.length)
    (hm : ∀ e ∈ l', e ∈ l) : BL c l' :=
  ⟨Nat.le_trans hl h.1, fun e he => h.2 e (hm e he)⟩

theorem BL.filter {c : Cfg} {l : List (NA × Session × Nat)} (h : BL c l) (p) : BL c (l.filter p) :=
  h.sub (List.length_filter_le _ _) (fun _ he => (List.mem_filter.1 he).1)

theorem find_ne_length {α} {l : List (NA × α)} {na : NA} {e} (hf : l.find? (·.1 == na) = some e) :
    (l.filter (·.1 != na)).length + 1 ≤ l.length := by
  have : (l.filter (·.1 != na)).length < l.length := by
    rw [List.length_filter_lt_length_iff_exists]
    exact ⟨e, List.mem_of_find?_eq_some hf, by simpa using List.find?_some hf⟩
  omega

theorem BL.touch {c : Cfg} {l : List (NA × Session × Nat)} (h : BL c l) {na x : NA} {sess : Session} {stamp rt : Nat}
    (hf : l.find? (·.1 == na) = some (x, sess, stamp)) : BL c (l.filter (·.1 != na) ++ [(na, sess, rt)]) := by
  refine ⟨?_, ?_⟩
  · have := find_ne_length hf
    have := h.1
    simp only [List.length_append, List.length_singleton]; omega
  · intro e he
    rcases List.mem_append.1 he with he | he
    · exact h.2 e (List.mem_filter.1 he).1
    · simp only [List.mem_singleton] at he; subst he
      exact h.2 (x, sess, stamp) (List.mem_of_find?_eq_some hf)

theorem BL.put {c : Cfg} {l : List (NA × Session × Nat)} (h : BL c l) {na : NA} {sess : Session} (hd : Dir sess) :
    BL c (l.map (fun e => if e.1 == na then (na, sess, e.2.2) else e)) := by
  refine ⟨by simpa using h.1, ?_⟩
  intro e he
  obtain ⟨e0, he0, rfl⟩ := List.mem_map.1 he
  split
  · exact hd
  · exact h.2 e0 he0

theorem BL.insert {c : Cfg} {l : List (NA × Session × Nat)} (h : BL c l) {na : NA} {sess : Session} {rt : Nat}
    (hd : Dir sess) :
    BL c (if (l.filter (·.1 != na) ++ [(na, sess, rt)]).length > c.sessionCap
      then (l.filter (·.1 != na) ++ [(na, sess, rt)]).drop 1 else l.filter (·.1 != na) ++ [(na, sess, rt)]) := by
  have hmem : ∀ e ∈ l.filter (·.1 != na) ++ [(na, sess, rt)], Dir e.2.1 := by
    intro e he
    rcases List.mem_append.1 he with he | he
    · exact h.2 e (List.mem_filter.1 he).1
    · simp only [List.mem_singleton] at he; subst he; exact hd
  have hlen : (l.filter (·.1 != na) ++ [(na, sess, rt)]).length ≤ c.sessionCap + 1 := by
    have := List.length_filter_le (fun x : NA × Session × Nat => x.1 != na) l
    have := h.1
    simp only [List.length_append, List.length_singleton]; omega
  split
  · refine ⟨?_, fun e he => hmem e (List.mem_of_mem_drop he)⟩
    rw [List.length_drop]; omega
  · exact ⟨by omega, hmem⟩

theorem popExpired_sub (ttl rt : Nat) (l : List (NA × Session × Nat)) :
    (popExpired ttl rt l).2.length ≤ l.length ∧ ∀ e ∈ (popExpired ttl rt l).2, e ∈ l := by
  induction l with
  | nil => simp [popExpired]
  | cons x xs ih =>
    obtain ⟨na, sess, stamp⟩ := x
    unfold popExpired
    split
    · exact ⟨Nat.le_refl _, fun _ h => h⟩
    · exact ⟨Nat.le_trans ih.1 (by simp), fun e he => List.mem_cons_of_mem _ (ih.2 e he)⟩

theorem BL.pop {c : Cfg} {l : List (NA × Session × Nat)} (h : BL c l) (ttl rt : Nat) :
    BL c (popExpired ttl rt l).2 :=
  h.sub (popExpired_sub ttl rt l).1 (popExpired_sub ttl rt l).2

theorem sessGetMut_B (c : Cfg) (na : NA) :
    Tr (BInv c) (sessGetMut c na) (fun r st' => BInv c st' ∧ ∀ sess, r = some sess → Dir sess) := by
  intro st h
  rw [wp_sessGetMut]
  refine ⟨fun _ => ⟨h, by simp⟩, fun x sess stamp hf => ⟨fun _ => ⟨BL.filter h _, by simp⟩, fun _ => ⟨BL.touch h hf, ?_⟩⟩⟩
  intro s' hs'; cases hs'
  exact h.2 _ (List.mem_of_find?_eq_some hf)

theorem removeExpiredSessions_B (c : Cfg) : Tr (BInv c) (removeExpiredSessions c) (fun _ => BInv c) := by
  intro st h
  unfold removeExpiredSessions
  cr_wpsimp
  exact ⟨fun _ => BL.pop h _ _, fun _ => BL.pop h _ _⟩

theorem srQueue_B (c : Cfg) (ct : Contact) (rid : Nat) (i : Bool) (body : Nat) :
    Tr (BInv c) (srQueue ct rid i body) (fun _ => BInv c) := by
  intro st h
  unfold srQueue
  cr_wpsimp
  show BL c (HState.sessions _)
  split <;> exact h

theorem srFinish_B (c : Cfg) (ct : Contact) (rid : Nat) (i : Bool) (body : Nat) (p : Pkt) (ini : Bool) :
    Tr (BInv c) (srFinish c ct rid i body p ini) (fun _ => BInv c) := by
  intro st h
  unfold srFinish addExpected send activeInsert
  cr_wpsimp
  show BL c (HState.sessions _)
  split <;> exact h

theorem srSend_B (c : Cfg) (ct : Contact) (rid : Nat) (i : Bool) (body : Nat) :
    Tr (BInv c) (srSend c ct rid i body) (fun _ => BInv c) := by
  intro st h
  unfold srSend
  rw [wp_bind]
  refine (sessGetMut_B c ct.na).wp h (fun r st' ⟨h', hr⟩ => ?_)
  cases r with
  | none =>
    simp only []
    unfold freshNonce
    cr_wpsimp
    exact srFinish_B c ct rid i body _ _ _ h'
  | some sess =>
    simp only []
    rw [wp_bind, wp_encryptMessage]
    simp only []
    unfold sessPut
    rw [wp_bind, wp_modS]
    refine srFinish_B c ct rid i body _ _ _ (BL.put h' ?_)
    exact hr sess rfl

theorem isAwaitingSession_B (c : Cfg) (na : NA) :
    Tr (BInv c) (isAwaitingSession c na) (fun _ => BInv c) := by
  intro st h
  unfold isAwaitingSession
  rw [wp_bind]
  refine (sessGetMut_B c na).wp h (fun r st' ⟨h', _⟩ => ?_)
  cases r <;> exact h'

theorem sendRequest_B (c : Cfg) (ct : Contact) (rid : Nat) (i : Bool) (body : Nat) :
    Tr (BInv c) (sendRequest c ct rid i body) (fun _ => BInv c) := by
  intro st h
  rw [sendRequest_eq]
  cr_wpsimp
  refine ⟨fun _ => h, fun _ => ⟨fun _ => srQueue_B c ct rid i body _ h, fun _ => ?_⟩⟩
  refine (isAwaitingSession_B c ct.na).wp h (fun r st' h' => ?_)
  exact ⟨fun _ => srQueue_B c ct rid i body _ h', fun _ => srSend_B c ct rid i body _ h'⟩


theorem sendPendingRequests_B (c : Cfg) (na : NA) : Tr (BInv c) (sendPendingRequests c na) (fun _ => BInv c) := by
  intro st h
  unfold sendPendingRequests
  cr_wpsimp
  refine forEach_inv (BInv c) _ _ (fun pr _ st h => ?_) _ h
  rw [wp_bind]
  refine (sendRequest_B c _ _ _ _).wp h (fun r st' h' => ?_)
  cases r with
  | none => exact h'
  | some e => simp only []; cr_wpsimp; exact ⟨fun _ => h', fun _ => h'⟩

theorem failSession_B (c : Cfg) (na : NA) (e : Err) (b : Bool) :
    Tr (BInv c) (failSession c na e b) (fun _ => BInv c) := by
  have tail : ∀ st, BInv c st → wp (do
      let s ← getS
      have __do_jp : Unit → M Unit := fun __r => do
        let calls ← activeRemoveRequests na
        forEach calls fun call => do
          if !call.internal then emit (.failed call.rid e)
          removeExpected na.addr
      match s.pending.find? (·.1 == na) with
      | some ent =>
        setS { s with pending := s.pending.filter (·.1 != na) }
        forEach ent.2 fun pr => do
          if !pr.internal then emit (.failed pr.rid e)
        __do_jp ()
      | none => __do_jp ()) (fun _ => BInv c) st := by
    intro st h
    have jp : ∀ st, BInv c st → wp (do
        let calls ← activeRemoveRequests na
        forEach calls fun call => do
          if !call.internal then emit (.failed call.rid e)
          removeExpected na.addr) (fun _ => BInv c) st := by
      intro st h
      unfold activeRemoveRequests
      cr_wpsimp
      refine forEach_inv (BInv c) _ _ (fun call _ st h => ?_) _ h
      unfold removeExpected
      cr_wpsimp
      exact ⟨fun _ => h, fun _ => h⟩
    cr_wpsimp
    split
    · cr_wpsimp
      refine (forEach_inv (BInv c) _ _ (fun pr _ st h => ?_)).wp (st := (_, st.2)) h (fun _ st' h' => jp st' h')
      cr_wpsimp
      exact ⟨fun _ => h, fun _ => h⟩
    · exact jp st h
  intro st h
  unfold failSession
  cases b
  · simp only [Bool.false_eq_true, if_false]
    exact tail st h
  · simp only [if_true]
    rw [wp_bind]
    refine (removeExpiredSessions_B c).wp h (fun _ st' h' => ?_)
    rw [wp_bind]; unfold sessRemove; rw [wp_modS]
    exact tail _ (BL.filter h' _)

theorem failRequest_B (c : Cfg) (call : Call) (e : Err) (b : Bool) :
    Tr (BInv c) (failRequest c call e b) (fun _ => BInv c) := by
  intro st h
  unfold failRequest
  cr_wpsimp
  exact ⟨fun _ => failSession_B c _ e b _ h, fun _ => failSession_B c _ e b _ h⟩

theorem handleRequestTimeout_B (c : Cfg) (call : Call) :
    Tr (BInv c) (handleRequestTimeout c call) (fun _ => BInv c) := by
  intro st h
  unfold handleRequestTimeout removeExpected send activeInsert
  cr_wpsimp
  exact ⟨fun _ => failRequest_B c call _ _ _ h, fun _ => h⟩

theorem Dir.counter {sess : Session} (h : Dir sess) (n : Nat) : Dir { sess with counter := n } := h

theorem reencryptAll_B (c : Cfg) (calls : List Call) (sess : Session) (acc : List (Nat × Pkt)) (hd : Dir sess) :
    Tr (BInv c) (reencryptAll c calls sess acc) (fun r st' => BInv c st' ∧ Dir r.1) := by
  induction calls generalizing sess acc with
  | nil => intro st h; exact ⟨h, hd⟩
  | cons call rest ih =>
    intro st h
    unfold reencryptAll
    rw [wp_bind, wp_encryptMessage]
    exact ih _ _ (hd.counter _) _ h

theorem replayActiveRequests_B (c : Cfg) (na : NA) (sk : Option Nat) :
    Tr (BInv c) (replayActiveRequests c na sk) (fun _ => BInv c) := by
  intro st h
  unfold replayActiveRequests
  rw [wp_bind]
  refine (sessGetMut_B c na).wp h (fun r st' ⟨h', hr⟩ => ?_)
  cases r with
  | none => exact h'
  | some sess0 =>
    simp only []
    rw [wp_bind, wp_getS, wp_bind]
    refine (reencryptAll_B c _ sess0 [] (hr _ rfl)).wp h' (fun r st'' ⟨h'', hr'⟩ => ?_)
    obtain ⟨sess, packets⟩ := r
    simp only []
    unfold sessPut
    rw [wp_bind, wp_modS]
    refine forEach_inv (BInv c) _ _ (fun x _ st h => ?_) _ (BL.put h'' hr')
    obtain ⟨oldNonce, p⟩ := x
    simp only []
    unfold send
    cr_wpsimp
    exact h

theorem newSession_B (c : Cfg) (na : NA) (sess : Session) (sk : Option Nat) (hd : Dir sess) :
    Tr (BInv c) (newSession c na sess sk) (fun _ => BInv c) := by
  intro st h
  unfold newSession
  rw [wp_bind]
  refine (removeExpiredSessions_B c).wp h (fun _ st1 h1 => ?_)
  rw [wp_bind]
  refine (sessGetMut_B c na).wp h1 (fun r st2 ⟨h2, hr⟩ => ?_)
  cases r with
  | none =>
    simp only []
    unfold sessInsert
    rw [wp_bind, wp_modS]
    exact sendPendingRequests_B c na _ (BL.insert h2 hd)
  | some cur =>
    simp only []
    unfold sessPut
    rw [wp_bind, wp_modS, wp_bind]
    refine (replayActiveRequests_B c na sk).wp (BL.put h2 ?_) (fun _ st3 h3 => sendPendingRequests_B c na _ h3)
    exact ⟨hd.1, fun old ho => by cases ho; exact (hr cur rfl).1⟩


theorem sendChallenge_B (c : Cfg) (na : NA) (nonce : Nat) (known : Option Rec) :
    Tr (BInv c) (sendChallenge c na nonce known) (fun _ => BInv c) := by
  intro st h
  unfold sendChallenge freshCd addExpected send
  cr_wpsimp
  refine ⟨fun _ => h, fun _ => ?_⟩
  show BL c (HState.sessions _)
  split <;> exact h

theorem handleResponse_B (c : Cfg) (na : NA) (rid : Nat) (rb : RespBody) :
    Tr (BInv c) (handleResponse c na rid rb) (fun _ => BInv c) := by
  intro st h
  unfold handleResponse
  rw [wp_bind, wp_activeRemoveRequest]
  refine ⟨fun _ => h, fun call _ => ?_⟩
  simp only []
  have fin : ∀ st : St, BInv c st → wp (do removeExpected na.addr; emit (.response na rid rb)) (fun _ => BInv c) st := by
    intro st h; unfold removeExpected; cr_wpsimp; exact h
  unfold activeInsert
  split
  · cr_wpsimp
    refine ⟨fun _ => ?_, fun _ => fin _ h⟩
    split
    · cr_wpsimp
      exact ⟨fun _ => h, fun _ => fin _ h⟩
    · cr_wpsimp; exact h
  · exact fin _ h

theorem decrypt_Dir {sess : Session} (nonce : Nat) (ct : Ct) (h : Dir sess) : Dir (decryptMessage sess nonce ct).1 := by
  unfold decryptMessage
  simp only []
  split
  · exact h
  · split
    · rename_i old ho
      split
      · exact ⟨h.2 old ho, fun o ho' => by cases ho'; exact h.1⟩
      · exact ⟨h.1, fun o ho' => by cases ho'⟩
    · exact h

theorem handleMessage_B (c : Cfg) (na : NA) (nonce : Nat) (ct : Ct) :
    Tr (BInv c) (handleMessage c na nonce ct) (fun _ => BInv c) := by
  intro st h
  unfold handleMessage
  rw [wp_bind]
  refine (sessGetMut_B c na).wp h (fun r st1 ⟨h1, hr⟩ => ?_)
  cases r with
  | none => simp only []; cr_wpsimp; exact h1
  | some sess =>
    have hdir := decrypt_Dir nonce ct (hr sess rfl)
    simp only []
    generalize decryptMessage sess nonce ct = r at hdir
    obtain ⟨sess', pt⟩ := r
    unfold sessPut
    rw [wp_bind, wp_modS]
    simp only []
    have h2 := BL.put (na := na) h1 hdir
    cases pt with
    | none =>
      simp only []
      rw [wp_bind]
      refine (failSession_B c na _ _).wp h2 (fun _ st' h' => ?_)
      cr_wpsimp
      exact ⟨fun _ => h', fun _ => h'⟩
    | some m =>
      cases m with
      | undecodable => exact h2
      | request rid body => simp only []; cr_wpsimp; exact h2
      | response rid rb =>
        simp only []
        cr_wpsimp
        refine ⟨fun _ => ?_, fun _ => handleResponse_B c na rid rb _ h2⟩
        have h3 := BL.put (na := na) (sess := { sess' with awaitingEnr := none }) h2 hdir
        rw [wp_activeRemoveRequest]
        have fs := failSession_B c na .invalidRemoteEnr true
        have verfin : ∀ st : St, BInv c st → wp (do
            let verified ← (do
              match rb with
              | .nodes _ recs =>
                match recs.getLast? with
                | some r =>
                  if verifyEnr r na then
                    emit (.established r na.addr true)
                    return true
                  else
                    emit (.unverifiable r na.addr na.id)
                    return false
                | none => return false
              | _ => return false)
            if !verified then failSession c na .invalidRemoteEnr true) (fun _ => BInv c) st := by
          intro st h
          rw [wp_bind]
          split
          · split
            · cr_wpsimp
              exact ⟨fun _ => ⟨fun _ => fs _ h, fun _ => h⟩, fun _ => ⟨fun _ => fs _ h, fun _ => h⟩⟩
            · cr_wpsimp; exact ⟨fun _ => fs _ h, fun _ => h⟩
          · cr_wpsimp; exact ⟨fun _ => fs _ h, fun _ => h⟩
        refine ⟨fun _ => verfin _ h3, fun call _ => ?_⟩
        simp only []
        rw [wp_bind]; unfold removeExpected; rw [wp_modS]
        exact verfin _ h3

theorem establish_Dir {c : Cfg} {id : Id} {ch : Challenge} {sig : Sig} {eph : Nat} {record : Option Rec}
    {sess : Session} {r : Rec} (h : establishFromChallenge c id ch sig eph record = some (some (sess, r))) :
    Dir sess := by
  unfold establishFromChallenge at h
  simp only [] at h
  split at h
  · cases h
  · split at h
    · cases h
    · split at h
      · cases h
      · simp only [Option.some.injEq, Prod.mk.injEq] at h
        obtain ⟨rfl, -⟩ := h
        exact ⟨by simp, fun o ho => by cases ho⟩

theorem handleAuthMessage_B (c : Cfg) (na : NA) (nonce : Nat) (sig : Sig) (eph : Nat) (record : Option Rec) (ct : Ct) :
    Tr (BInv c) (handleAuthMessage c na nonce sig eph record ct) (fun _ => BInv c) := by
  intro st h
  unfold handleAuthMessage
  rw [wp_bind, wp_getS]
  split
  · exact h
  · rename_i x ch d q hfind
    rw [wp_bind, wp_setS]
    cases he : establishFromChallenge c na.id ch sig eph record with
    | none => simp only []; cr_wpsimp; exact h
    | some r =>
      cases r with
      | none =>
        simp only []
        unfold removeExpected
        rw [wp_bind, wp_modS]
        exact failSession_B c na _ _ _ h
      | some p =>
        obtain ⟨sess, r⟩ := p
        simp only []
        unfold removeExpected
        rw [wp_bind, wp_modS]
        have jp : ∀ st : St, BInv c st → wp (newSession c na sess none >>= fun _ => handleMessage c na nonce ct) (fun _ => BInv c) st := by
          intro st h
          rw [wp_bind]
          exact (newSession_B c na sess none (establish_Dir he)).wp h (fun _ st' h' => handleMessage_B c na nonce ct _ h')
        cr_wpsimp
        exact ⟨fun _ => jp _ h, fun _ => jp _ h⟩

theorem Dir.fresh (k1 k2 : Key) (aw : Option Nat) (h : k1.toRcp ≠ k2.toRcp) :
    Dir { keys := { enc := k1, dec := k2 }, awaitingEnr := aw } := ⟨h, fun o ho => by cases ho⟩

theorem handleChallenge_B (c : Cfg) (src : Addr) (nonce cd enrSeq : Nat) :
    Tr (BInv c) (handleChallenge c src nonce cd enrSeq) (fun _ => BInv c) := by
  intro st h
  unfold handleChallenge
  rw [wp_bind, wp_activeRemoveByNonce]
  refine ⟨fun _ => h, fun call0 _ => ?_⟩
  simp only []
  rw [wp_ite]
  refine ⟨fun _ => ?_, fun _ => ?_⟩
  · unfold activeInsert; cr_wpsimp; exact h
  rw [wp_ite]
  refine ⟨fun _ => ?_, fun _ => ?_⟩
  · unfold removeExpected
    rw [wp_bind, wp_modS, wp_bind]
    exact (failRequest_B c call0 _ _).wp h (fun _ _ h' => h')
  rw [wp_ite]
  refine ⟨fun _ => ?_, fun _ => ?_⟩
  · unfold removeExpected
    rw [wp_bind, wp_modS, wp_bind]
    exact (failRequest_B c call0 _ _).wp h (fun _ _ h' => h')
  unfold freshEph freshNonce activeInsert send freshRid
  cr_wpsimp
  split
  · cr_wpsimp
    exact newSession_B c _ _ _ (Dir.fresh _ _ _ (by simp)) _ h
  · cr_wpsimp
    exact (sendRequest_B c _ _ _ _).wp h (fun _ st' h' => newSession_B c _ _ _ (Dir.fresh _ _ _ (by simp)) _ h')


theorem fireTimers_B (c : Cfg) (target fuel : Nat) : Tr (BInv c) (fireTimers c target fuel) (fun _ => BInv c) := by
  induction fuel with
  | zero => intro st h; exact h
  | succ n ih =>
    intro st h
    unfold fireTimers
    rw [wp_bind, wp_getS]
    split
    · exact h
    · rw [wp_bind, wp_setS, wp_bind]
      exact (handleRequestTimeout_B c _).wp h (fun _ st' h' => ih st' h')
    · unfold removeExpected
      rw [wp_bind, wp_setS, wp_bind, wp_modS, wp_bind]
      exact (sendPendingRequests_B c _).wp h (fun _ st' h' => ih st' h')

theorem stepM_B (c : Cfg) (e : Ev) : Tr (BInv c) (stepM c e) (fun _ => BInv c) := by
  intro st h
  cases e with
  | appRequest ct rid body =>
    unfold stepM
    rw [wp_bind]
    refine (sendRequest_B c _ _ _ _).wp h (fun r st' h' => ?_)
    cases r with
    | none => exact h'
    | some e => exact h'
  | appResponse na rid rb =>
    unfold stepM
    rw [wp_bind]
    refine (sessGetMut_B c na).wp h (fun r st' ⟨h', hr⟩ => ?_)
    cases r with
    | none => exact h'
    | some sess =>
      simp only []
      rw [wp_bind, wp_encryptMessage]
      unfold sessPut send
      cr_wpsimp
      exact BL.put h' (hr sess rfl)
  | appWru na nonce known => exact sendChallenge_B c na nonce known st h
  | dgram src p =>
    cases p with
    | whoareyou nonce cd enrSeq => exact handleChallenge_B c src nonce cd enrSeq st h
    | handshake srcId nonce sig eph record ct => exact handleAuthMessage_B c _ nonce sig eph record ct st h
    | message srcId nonce ct => exact handleMessage_B c _ nonce ct st h
  | adv dt =>
    unfold stepM
    rw [wp_bind, wp_getS, wp_bind]
    exact (fireTimers_B c _ _).wp h (fun _ st' h' => h')
  | rtAdv dt => exact h

theorem step_B (c : Cfg) (s : HState) (e : Ev) (h : BL c s.sessions) : BL c (step c s e).1.sessions :=
  stepM_B c e (s, []) h

theorem foldl_B (c : Cfg) (evs : List Ev) (s : HState) (h : BL c s.sessions) :
    BL c (evs.foldl (fun s e => (step c s e).1) s).sessions := by
  induction evs generalizing s with
  | nil => exact h
  | cons e rest ih => exact ih _ (step_B c s e h)

theorem run_B (c : Cfg) (evs : List Ev) : BL c (run c evs).sessions :=
  foldl_B c evs {} ⟨Nat.zero_le _, fun e he => by cases he⟩



/-- Not a sealed message packet being sent. -/
def NotSealedSend (o : Out) : Prop :=
  ∀ dst src n k n' ctr pt ok, o ≠ .send dst (.message src n (.enc k n' ctr pt ok))

theorem sendRequest_expired (c : Cfg) (s : HState) (na : NA) (sess : Session) (stamp : Nat) (r) (rid body : Nat) (b : Bool)
    (hf : s.sessions.find? (·.1 == na) = some (na, sess, stamp)) (hx : stamp + c.sessionTtl < s.rt)
    (hl : c.listen.contains na.addr = false) (P : Out → Prop) (hP : ∀ src n, P (.send na (.message src n .garbage))) :
    wp (sendRequest c { na := na, record := r } rid b body) (fun _ => AllOut P) (s, []) := by
  have h0 : ∀ s', AllOut P (s', []) := by intro s' o ho; cases ho
  have hq : ∀ s', wp (srQueue { na := na, record := r } rid b body) (fun _ => AllOut P) (s', []) := by
    intro s'; unfold srQueue; cr_wpsimp; exact h0 _
  rw [sendRequest_eq]
  simp only [hl, Bool.false_eq_true, if_false]
  cr_wpsimp
  refine ⟨fun _ => hq _, fun _ => ?_⟩
  unfold isAwaitingSession
  rw [wp_bind, wp_sessGetMut]
  refine ⟨fun h => (by rw [hf] at h; cases h), fun x sess' stamp' hf' => ?_⟩
  rw [hf] at hf'
  simp only [Option.some.injEq, Prod.mk.injEq] at hf'
  obtain ⟨-, rfl, rfl⟩ := hf'
  refine ⟨fun _ => ?_, fun h => absurd hx h⟩
  cr_wpsimp
  refine ⟨fun _ => hq _, fun _ => ?_⟩
  unfold srSend
  rw [wp_bind, wp_sessGetMut]
  refine ⟨fun _ => ?_, fun x sess' stamp' hf' => ?_⟩
  · unfold freshNonce srFinish addExpected send activeInsert
    cr_wpsimp
    exact AllOut.snoc (h0 s) (hP _ _)
  · rw [show (HState.sessions _) = s.sessions.filter (·.1 != na) from rfl, find_filter_ne] at hf'
    cases hf'



/-! ## C19: the counter / key-freshness invariant -/

abbrev SS := List (NA × Session × Nat)
abbrev CH := List (NA × Challenge × Nat × Nat)
abbrev Hist := List (Key × Nat × Pkt)

/-- `k` is an encryption key (current or previous) of the session. -/
def HasEnc (s : Session) (k : Key) : Prop := k = s.keys.enc ∨ ∃ old, s.oldKeys = some old ∧ k = old.enc

/-- The key was made from names already drawn: initiator keys carry an ephemeral name drawn so far,
responder keys the challenge data of a challenge issued so far that is no longer pending. -/
def KeyOld (c : Cfg) (chs : CH) (eph cd : Nat) (k : Key) : Prop :=
  (k.toRcp = true → ∃ j, j ≤ eph ∧ k.eph = mkName c j) ∧
  (k.toRcp = false → (∃ j, j ≤ cd ∧ k.cd = mkName c j) ∧ ∀ ch ∈ chs, ch.2.1.cd ≠ k.cd)

/-- A stored request packet that is a sealed message has been sent (so resending it is a retransmission). -/
def CallOK (H : Hist) (p : Pkt) : Prop :=
  ∀ src n k n' ctr pt ok, p = .message src n (.enc k n' ctr pt ok) → (k, ctr, p) ∈ H

structure CI (c : Cfg) (R : List Key) (ss : SS) (chs : CH) (act : List Call) (eph cd : Nat) (H : Hist) : Prop where
  nodup : ss.Pairwise (fun a b => a.1 ≠ b.1)
  disj : ∀ e1 ∈ ss, ∀ e2 ∈ ss, ∀ k, HasEnc e1.2.1 k → HasEnc e2.2.1 k → e1.1 = e2.1
  bound : ∀ h ∈ H, ∀ e ∈ ss, HasEnc e.2.1 h.1 → h.2.1 ≤ e.2.1.counter
  oldS : ∀ e ∈ ss, ∀ k, HasEnc e.2.1 k → KeyOld c chs eph cd k
  oldH : ∀ h ∈ H, KeyOld c chs eph cd h.1
  res : ∀ k ∈ R, KeyOld c chs eph cd k ∧ (∀ h ∈ H, h.1 ≠ k) ∧ ∀ e ∈ ss, ¬ HasEnc e.2.1 k
  chOk : ∀ ch ∈ chs, ∃ j, j ≤ cd ∧ ch.2.1.cd = mkName c j
  chDist : chs.Pairwise (fun a b => a.2.1.cd ≠ b.2.1.cd)
  self : ∀ a ∈ H, ∀ b ∈ H, a.1 = b.1 → a.2.1 = b.2.1 → a.2.2 = b.2.2
  actOk : ∀ call ∈ act, CallOK H call.pkt

theorem mkName_inj {c : Cfg} {a b : Nat} (h : mkName c a = mkName c b) : a = b := by
  unfold mkName at h; omega

theorem pairwise_mem_ne {α} {R : α → α → Prop} (hs : ∀ a b, R a b → R b a) {l : List α} (h : l.Pairwise R)
    {a b : α} (ha : a ∈ l) (hb : b ∈ l) (hne : a ≠ b) : R a b := by
  induction h with
  | nil => cases ha
  | @cons x l hx _ ih =>
    rcases List.mem_cons.1 ha with ha1 | ha1
    · rcases List.mem_cons.1 hb with hb1 | hb1
      · exact absurd (ha1.trans hb1.symm) hne
      · rw [ha1]; exact hx _ hb1
    · rcases List.mem_cons.1 hb with hb1 | hb1
      · rw [hb1]; exact hs _ _ (hx _ ha1)
      · exact ih ha1 hb1

theorem entry_unique {ss : SS} (h : ss.Pairwise (fun a b => a.1 ≠ b.1)) {e1 e2} (h1 : e1 ∈ ss) (h2 : e2 ∈ ss)
    (he : e1.1 = e2.1) : e1 = e2 := by
  apply Classical.byContradiction
  intro hne
  exact pairwise_mem_ne (fun a b h => Ne.symm h) h h1 h2 hne he

theorem KeyOld.mono {c : Cfg} {chs chs' : CH} {eph eph' cd cd' : Nat} {k : Key} (h : KeyOld c chs eph cd k)
    (he : eph ≤ eph') (hc : cd ≤ cd')
    (hch : ∀ ch ∈ chs', (∃ ch0 ∈ chs, ch0.2.1.cd = ch.2.1.cd) ∨ ∃ j, cd < j ∧ ch.2.1.cd = mkName c j) :
    KeyOld c chs' eph' cd' k := by
  refine ⟨fun ht => ?_, fun ht => ?_⟩
  · obtain ⟨j, hj, hk⟩ := h.1 ht
    exact ⟨j, Nat.le_trans hj he, hk⟩
  · obtain ⟨⟨j, hj, hk⟩, hn⟩ := h.2 ht
    refine ⟨⟨j, Nat.le_trans hj hc, hk⟩, fun ch hch' => ?_⟩
    rcases hch ch hch' with ⟨ch0, hin, h0⟩ | ⟨j', hj', hcd⟩
    · rw [← h0]; exact hn ch0 hin
    · intro heq
      rw [hcd, hk] at heq
      have := mkName_inj heq
      omega

theorem CallOK.mono {H H' : Hist} {p : Pkt} (h : CallOK H p) (hs : ∀ x ∈ H, x ∈ H') : CallOK H' p :=
  fun src n k n' ctr pt ok hp => hs _ (h src n k n' ctr pt ok hp)

/-- Replacing the session list by one whose entries descend from old entries (same address, no new keys,
counters not smaller). -/
theorem CI.sessions_le {c R ss chs act eph cd H} (h : CI c R ss chs act eph cd H) {ss' : SS}
    (hn : ss'.Pairwise (fun a b => a.1 ≠ b.1))
    (hsrc : ∀ e' ∈ ss', ∃ e ∈ ss, e.1 = e'.1 ∧ (∀ k, HasEnc e'.2.1 k → HasEnc e.2.1 k) ∧
      e.2.1.counter ≤ e'.2.1.counter) : CI c R ss' chs act eph cd H := by
  refine { h with nodup := hn, disj := ?_, bound := ?_, oldS := ?_, res := ?_ }
  · intro e1' h1 e2' h2 k hk1 hk2
    obtain ⟨e1, he1, hna1, hke1, -⟩ := hsrc e1' h1
    obtain ⟨e2, he2, hna2, hke2, -⟩ := hsrc e2' h2
    rw [← hna1, ← hna2]
    exact h.disj e1 he1 e2 he2 k (hke1 k hk1) (hke2 k hk2)
  · intro x hx e' he' hk
    obtain ⟨e, he, -, hke, hc⟩ := hsrc e' he'
    exact Nat.le_trans (h.bound x hx e he (hke _ hk)) hc
  · intro e' he' k hk
    obtain ⟨e, he, -, hke, -⟩ := hsrc e' he'
    exact h.oldS e he k (hke k hk)
  · intro k hk
    refine ⟨(h.res k hk).1, (h.res k hk).2.1, fun e' he' hke' => ?_⟩
    obtain ⟨e, he, -, hke, -⟩ := hsrc e' he'
    exact (h.res k hk).2.2 e he (hke k hke')

theorem CI.sessions_sublist {c R ss chs act eph cd H} (h : CI c R ss chs act eph cd H) {ss' : SS}
    (hs : ss'.Sublist ss) : CI c R ss' chs act eph cd H :=
  h.sessions_le (h.nodup.sublist hs) (fun e' he' => ⟨e', hs.subset he', rfl, fun _ hk => hk, Nat.le_refl _⟩)

/-- A new key taken from the reserved list enters the session list (re-key or insert). -/
theorem CI.sessions_new {c knew R ss chs act eph cd H} (h : CI c (knew :: R) ss chs act eph cd H) {ss' : SS}
    (na : NA) (hn : ss'.Pairwise (fun a b => a.1 ≠ b.1))
    (hsrc : ∀ e' ∈ ss', (∀ k, HasEnc e'.2.1 k → k = knew → e'.1 = na) ∧
      ((∀ k, HasEnc e'.2.1 k → k = knew) ∨ ∃ e ∈ ss, e.1 = e'.1 ∧
        (∀ k, HasEnc e'.2.1 k → k = knew ∨ HasEnc e.2.1 k) ∧ e.2.1.counter ≤ e'.2.1.counter)) :
    CI c [] ss' chs act eph cd H := by
  have hres := h.res knew (by simp)
  refine { h with nodup := hn, disj := ?_, bound := ?_, oldS := ?_, res := ?_ }
  · intro e1' h1 e2' h2 k hk1 hk2
    by_cases hkn : k = knew
    · rw [(hsrc e1' h1).1 k hk1 hkn, (hsrc e2' h2).1 k hk2 hkn]
    · rcases (hsrc e1' h1).2 with hall | ⟨e1, he1, hna1, hke1, -⟩
      · exact absurd (hall k hk1) hkn
      rcases (hsrc e2' h2).2 with hall | ⟨e2, he2, hna2, hke2, -⟩
      · exact absurd (hall k hk2) hkn
      rw [← hna1, ← hna2]
      exact h.disj e1 he1 e2 he2 k ((hke1 k hk1).resolve_left hkn) ((hke2 k hk2).resolve_left hkn)
  · intro x hx e' he' hk
    have hxn : x.1 ≠ knew := hres.2.1 x hx
    rcases (hsrc e' he').2 with hall | ⟨e, he, -, hke, hc⟩
    · exact absurd (hall _ hk) hxn
    · exact Nat.le_trans (h.bound x hx e he ((hke _ hk).resolve_left hxn)) hc
  · intro e' he' k hk
    by_cases hkn : k = knew
    · rw [hkn]; exact hres.1
    · rcases (hsrc e' he').2 with hall | ⟨e, he, -, hke, -⟩
      · exact absurd (hall k hk) hkn
      · exact h.oldS e he k ((hke k hk).resolve_left hkn)
  · intro k hk; cases hk

theorem CI.weaken {c R R' ss chs act eph cd H} (h : CI c R ss chs act eph cd H) (hr : ∀ k ∈ R', k ∈ R) :
    CI c R' ss chs act eph cd H :=
  { h with res := fun k hk => h.res k (hr k hk) }

theorem CI.act {c R ss chs act act' eph cd H} (h : CI c R ss chs act eph cd H)
    (ha : ∀ call ∈ act', CallOK H call.pkt) : CI c R ss chs act' eph cd H :=
  { h with actOk := ha }

/-- A sealed packet that was sent before is sent again. -/
theorem CI.hist_old {c R ss chs act eph cd H} (h : CI c R ss chs act eph cd H) {x} (hx : x ∈ H) :
    CI c R ss chs act eph cd (H ++ [x]) := by
  have hm : ∀ y, y ∈ H ++ [x] → y ∈ H := by
    intro y hy
    rcases List.mem_append.1 hy with hy | hy
    · exact hy
    · simp only [List.mem_singleton] at hy; rw [hy]; exact hx
  refine { h with bound := ?_, oldH := ?_, res := ?_, self := ?_, actOk := ?_ }
  · intro y hy; exact h.bound y (hm y hy)
  · intro y hy; exact h.oldH y (hm y hy)
  · intro k hk; exact ⟨(h.res k hk).1, fun y hy => (h.res k hk).2.1 y (hm y hy), (h.res k hk).2.2⟩
  · intro a ha b hb; exact h.self a (hm a ha) b (hm b hb)
  · intro call hc; exact (h.actOk call hc).mono (fun y hy => List.mem_append_left _ hy)

/-- A new sealed packet under a key held by a session, with a counter above everything sent under
that key and not above the session's counter. -/
theorem CI.hist_new {c R ss chs act eph cd H} (h : CI c R ss chs act eph cd H) {e} (he : e ∈ ss) {k : Key}
    (hk : HasEnc e.2.1 k) {ctr : Nat} (hc : ctr ≤ e.2.1.counter) (hlt : ∀ x ∈ H, x.1 = k → x.2.1 < ctr) (p : Pkt) :
    CI c R ss chs act eph cd (H ++ [(k, ctr, p)]) := by
  have hm : ∀ y, y ∈ H ++ [(k, ctr, p)] → y ∈ H ∨ y = (k, ctr, p) := by
    intro y hy
    rcases List.mem_append.1 hy with hy | hy
    · exact Or.inl hy
    · simp only [List.mem_singleton] at hy; exact Or.inr hy
  refine { h with bound := ?_, oldH := ?_, res := ?_, self := ?_, actOk := ?_ }
  · intro y hy e2 he2 hk2
    rcases hm y hy with hy | rfl
    · exact h.bound y hy e2 he2 hk2
    · have : e2 = e := entry_unique h.nodup he2 he (h.disj e2 he2 e he k hk2 hk)
      rw [this]; exact hc
  · intro y hy
    rcases hm y hy with hy | rfl
    · exact h.oldH y hy
    · exact h.oldS e he k hk
  · intro k' hk'
    refine ⟨(h.res k' hk').1, fun y hy => ?_, (h.res k' hk').2.2⟩
    rcases hm y hy with hy | rfl
    · exact (h.res k' hk').2.1 y hy
    · intro heq; exact (h.res k' hk').2.2 e he (heq ▸ hk)
  · intro a ha b hb hab hab'
    rcases hm a ha with ha | rfl
    · rcases hm b hb with hb | rfl
      · exact h.self a ha b hb hab hab'
      · exact absurd (hlt a ha hab) (by simp only at hab'; omega)
    · rcases hm b hb with hb | rfl
      · exact absurd (hlt b hb hab.symm) (by simp only at hab'; omega)
      · rfl
  · intro call hcall; exact (h.actOk call hcall).mono (fun y hy => List.mem_append_left _ hy)


theorem CI.key_mono {c R ss chs chs' act eph eph' cd cd' H} (h : CI c R ss chs act eph cd H)
    (he : eph ≤ eph') (hc : cd ≤ cd')
    (hch : ∀ ch ∈ chs', (∃ ch0 ∈ chs, ch0.2.1.cd = ch.2.1.cd) ∨ ∃ j, cd < j ∧ ch.2.1.cd = mkName c j)
    (hok : ∀ ch ∈ chs', ∃ j, j ≤ cd' ∧ ch.2.1.cd = mkName c j)
    (hd : chs'.Pairwise (fun a b => a.2.1.cd ≠ b.2.1.cd)) :
    CI c R ss chs' act eph' cd' H :=
  { h with
    oldS := fun e he' k hk => (h.oldS e he' k hk).mono he hc hch
    oldH := fun x hx => (h.oldH x hx).mono he hc hch
    res := fun k hk => ⟨(h.res k hk).1.mono he hc hch, (h.res k hk).2⟩
    chOk := hok
    chDist := hd }

theorem CI.chs_sublist {c R ss chs chs' act eph cd H} (h : CI c R ss chs act eph cd H)
    (hs : chs'.Sublist chs) : CI c R ss chs' act eph cd H :=
  h.key_mono (Nat.le_refl _) (Nat.le_refl _) (fun ch hch => Or.inl ⟨ch, hs.subset hch, rfl⟩)
    (fun ch hch => h.chOk ch (hs.subset hch)) (h.chDist.sublist hs)

/-- `send_challenge`: a challenge with freshly drawn challenge data. -/
theorem CI.chs_add {c R ss chs act eph cd H} (h : CI c R ss chs act eph cd H) (na : NA) (rr : Option Rec) (d q : Nat) :
    CI c R ss (chs ++ [(na, { cd := mkName c (cd + 1), remoteRec := rr }, d, q)]) act eph (cd + 1) H := by
  refine h.key_mono (Nat.le_refl _) (Nat.le_succ _) ?_ ?_ ?_
  · intro ch hch
    rcases List.mem_append.1 hch with hch | hch
    · exact Or.inl ⟨ch, hch, rfl⟩
    · simp only [List.mem_singleton] at hch; subst hch
      exact Or.inr ⟨cd + 1, Nat.lt_succ_self _, rfl⟩
  · intro ch hch
    rcases List.mem_append.1 hch with hch | hch
    · obtain ⟨j, hj, hk⟩ := h.chOk ch hch
      exact ⟨j, Nat.le_succ_of_le hj, hk⟩
    · simp only [List.mem_singleton] at hch; subst hch
      exact ⟨cd + 1, Nat.le_refl _, rfl⟩
  · rw [List.pairwise_append]
    refine ⟨h.chDist, List.pairwise_singleton _ _, fun a ha b hb => ?_⟩
    simp only [List.mem_singleton] at hb; subst hb
    obtain ⟨j, hj, hk⟩ := h.chOk a ha
    intro heq
    simp only [hk] at heq
    have := mkName_inj heq
    omega

theorem chs_filter_ne {chs : CH} (hd : chs.Pairwise (fun a b => a.2.1.cd ≠ b.2.1.cd)) {na x : NA} {ch : Challenge}
    {d q : Nat} (hf : chs.find? (·.1 == na) = some (x, ch, d, q)) :
    ∀ a ∈ chs.filter (·.1 != na), a.2.1.cd ≠ ch.cd := by
  intro a ha
  have hx : x = na := by simpa using List.find?_some hf
  have hmem := List.mem_of_find?_eq_some hf
  have ha' := List.mem_filter.1 ha
  have hne : a ≠ (x, ch, d, q) := by
    intro heq
    have : a.1 ≠ na := by simpa using ha'.2
    rw [heq] at this
    exact this hx
  exact pairwise_mem_ne (fun _ _ h => Ne.symm h) hd ha'.1 hmem hne

/-- `handle_auth_message`, invalid signature: the challenge taken out is put back. -/
theorem CI.chs_readd {c R ss chs act eph cd H} (h : CI c R ss chs act eph cd H) {na x : NA} {ch : Challenge}
    {d q : Nat} (hf : chs.find? (·.1 == na) = some (x, ch, d, q)) (d' q' : Nat) :
    CI c R ss (chs.filter (·.1 != na) ++ [(na, ch, d', q')]) act eph cd H := by
  have hmem := List.mem_of_find?_eq_some hf
  refine h.key_mono (Nat.le_refl _) (Nat.le_refl _) ?_ ?_ ?_
  · intro c' hc'
    rcases List.mem_append.1 hc' with hc' | hc'
    · exact Or.inl ⟨c', (List.mem_filter.1 hc').1, rfl⟩
    · simp only [List.mem_singleton] at hc'; subst hc'
      exact Or.inl ⟨_, hmem, rfl⟩
  · intro c' hc'
    rcases List.mem_append.1 hc' with hc' | hc'
    · exact h.chOk c' (List.mem_filter.1 hc').1
    · simp only [List.mem_singleton] at hc'; subst hc'
      exact h.chOk (x, ch, d, q) hmem
  · rw [List.pairwise_append]
    refine ⟨h.chDist.sublist List.filter_sublist, List.pairwise_singleton _ _, fun a ha b hb => ?_⟩
    simp only [List.mem_singleton] at hb; subst hb
    exact chs_filter_ne h.chDist hf a ha

/-- `handle_challenge`: a fresh ephemeral key is drawn; the initiator key made from it is reserved. -/
theorem CI.eph_bump {c R ss chs act eph cd H} (h : CI c R ss chs act eph cd H) (knew : Key)
    (ht : knew.toRcp = true) (he : knew.eph = mkName c (eph + 1)) :
    CI c (knew :: R) ss chs act (eph + 1) cd H := by
  have h' := h.key_mono (eph' := eph + 1) (Nat.le_succ _) (Nat.le_refl _) (fun ch hch => Or.inl ⟨ch, hch, rfl⟩)
    h.chOk h.chDist
  have hnew : ∀ k, KeyOld c chs eph cd k → k ≠ knew := by
    intro k hk heq
    obtain ⟨j, hj, hkj⟩ := hk.1 (heq ▸ ht)
    rw [heq, he] at hkj
    have := mkName_inj hkj
    omega
  refine { h' with res := ?_ }
  intro k hk
  rcases List.mem_cons.1 hk with rfl | hk
  · refine ⟨⟨fun _ => ⟨eph + 1, Nat.le_refl _, he⟩, fun hf => (by rw [ht] at hf; cases hf)⟩, ?_, ?_⟩
    · intro x hx; exact hnew _ (h.oldH x hx)
    · intro e hes hke; exact hnew _ (h.oldS e hes _ hke) rfl
  · exact h'.res k hk

/-- `handle_auth_message`: the challenge for `na` is taken out; a responder key over its challenge data is
reserved. -/
theorem CI.take_ch {c R ss chs act eph cd H} (h : CI c R ss chs act eph cd H) {na x : NA} {ch : Challenge}
    {d q : Nat} (hf : chs.find? (·.1 == na) = some (x, ch, d, q)) (knew : Key)
    (ht : knew.toRcp = false) (hcd : knew.cd = ch.cd) :
    CI c (knew :: R) ss (chs.filter (·.1 != na)) act eph cd H := by
  have hmem := List.mem_of_find?_eq_some hf
  have h' := h.chs_sublist (chs' := chs.filter (·.1 != na)) List.filter_sublist
  have hnew : ∀ k, KeyOld c chs eph cd k → k ≠ knew := by
    intro k hk heq
    have := (hk.2 (heq ▸ ht)).2 _ hmem
    rw [heq, hcd] at this
    exact this rfl
  refine { h' with res := ?_ }
  intro k hk
  rcases List.mem_cons.1 hk with rfl | hk
  · refine ⟨⟨fun hf' => (by rw [ht] at hf'; cases hf'), fun _ => ⟨?_, ?_⟩⟩, ?_, ?_⟩
    · rw [hcd]; exact h.chOk _ hmem
    · rw [hcd]; exact chs_filter_ne h.chDist hf
    · intro y hy; exact hnew _ (h.oldH y hy)
    · intro e hes hke; exact hnew _ (h.oldS e hes _ hke) rfl
  · exact h'.res k hk


theorem sentSealed_append (a b : List Out) : sentSealed (a ++ b) = sentSealed a ++ sentSealed b := by
  induction a using sentSealed.induct with
  | case1 => rfl
  | case2 dst src n k n' ctr pt ok rest ih => simp only [List.cons_append, sentSealed, ih]
  | case3 o rest hne ih =>
    rw [List.cons_append, sentSealed, sentSealed, ih]
    all_goals first | exact hne | (intro dst src n k n' ctr pt ok heq; exact hne dst src n k n' ctr pt ok heq)

def CInv (c : Cfg) (R : List Key) (H0 : Hist) (st : St) : Prop :=
  CI c R st.1.sessions st.1.challenges st.1.active st.1.fresh.eph st.1.fresh.cd (H0 ++ sentSealed st.2)

theorem CInv.ci {c R H0 st} (h : CInv c R H0 st) :
    CI c R st.1.sessions st.1.challenges st.1.active st.1.fresh.eph st.1.fresh.cd (H0 ++ sentSealed st.2) := h

theorem CI.emit_other {c R ss chs act eph cd H0 os} (h : CI c R ss chs act eph cd (H0 ++ sentSealed os)) (o : Out)
    (ho : sentSealed [o] = []) : CI c R ss chs act eph cd (H0 ++ sentSealed (os ++ [o])) := by
  rw [sentSealed_append, ho, List.append_nil]; exact h

theorem sentSealed_sealed (dst : NA) (src n : Nat) (k : Key) (n' ctr : Nat) (pt : Msg) (ok : Bool) :
    sentSealed [.send dst (.message src n (.enc k n' ctr pt ok))] =
      [(k, ctr, .message src n (.enc k n' ctr pt ok))] := rfl

theorem hist_mono {H0 : Hist} {os : List Out} (os' : List Out) {x} (hx : x ∈ H0 ++ sentSealed os) :
    x ∈ H0 ++ sentSealed (os ++ os') := by
  rw [sentSealed_append, ← List.append_assoc]; exact List.mem_append_left _ hx

theorem mem_sent (H0 : Hist) (os : List Out) (dst : NA) (src n : Nat) (k : Key) (n' ctr : Nat) (pt : Msg) (ok : Bool) :
    (k, ctr, Pkt.message src n (.enc k n' ctr pt ok)) ∈
      H0 ++ sentSealed (os ++ [.send dst (.message src n (.enc k n' ctr pt ok))]) := by
  rw [sentSealed_append, sentSealed_sealed]
  exact List.mem_append_right _ (List.mem_append_right _ (List.mem_singleton.2 rfl))

theorem mem_hist_snoc {H0 : Hist} {os : List Out} {dst : NA} {src n : Nat} {k : Key} {n' ctr : Nat} {pt : Msg}
    {ok : Bool} {x} (hx : x ∈ H0 ++ sentSealed (os ++ [.send dst (.message src n (.enc k n' ctr pt ok))])) :
    x ∈ H0 ++ sentSealed os ∨ x = (k, ctr, .message src n (.enc k n' ctr pt ok)) := by
  rw [sentSealed_append, sentSealed_sealed, ← List.append_assoc] at hx
  rcases List.mem_append.1 hx with hx | hx
  · exact Or.inl hx
  · exact Or.inr (List.mem_singleton.1 hx)

theorem CallOK_sealed {H : Hist} {src n : Nat} {k : Key} {n' ctr : Nat} {pt : Msg} {ok : Bool}
    (h : (k, ctr, Pkt.message src n (.enc k n' ctr pt ok)) ∈ H) : CallOK H (.message src n (.enc k n' ctr pt ok)) := by
  intro s2 n2 k2 n2' c2 p2 o2 heq
  cases heq; exact h

theorem CallOK_garbage (H : Hist) (src n : Nat) : CallOK H (.message src n .garbage) := by
  intro s2 n2 k2 n2' c2 p2 o2 heq; cases heq

theorem CallOK_handshake (H : Hist) (src n : Nat) (sig : Sig) (eph : Nat) (r : Option Rec) (ct : Ct) :
    CallOK H (.handshake src n sig eph r ct) := by
  intro s2 n2 k2 n2' c2 p2 o2 heq; cases heq

/-- Sending a stored packet (retransmission, or not a sealed message at all). -/
theorem CI.send_ok {c R ss chs act eph cd H0 os} (h : CI c R ss chs act eph cd (H0 ++ sentSealed os)) (dst : NA)
    {p : Pkt} (hp : CallOK (H0 ++ sentSealed os) p) :
    CI c R ss chs act eph cd (H0 ++ sentSealed (os ++ [.send dst p])) := by
  cases p with
  | whoareyou n cd' e => exact h.emit_other _ rfl
  | handshake src n sig eph' r ct => exact h.emit_other _ rfl
  | message src n ct =>
    cases ct with
    | garbage => exact h.emit_other _ rfl
    | enc k n' ctr pt ok =>
      rw [sentSealed_append, sentSealed_sealed, ← List.append_assoc]
      exact h.hist_old (hp src n k n' ctr pt ok rfl)

/-- Sending a newly sealed message. -/
theorem CI.send_new {c R ss chs act eph cd H0 os} (h : CI c R ss chs act eph cd (H0 ++ sentSealed os)) {e}
    (he : e ∈ ss) {k : Key} (hk : HasEnc e.2.1 k) {ctr : Nat} (hc : ctr ≤ e.2.1.counter)
    (hlt : ∀ x ∈ H0 ++ sentSealed os, x.1 = k → x.2.1 < ctr) (dst : NA) (src n n' : Nat) (pt : Msg) (ok : Bool) :
    CI c R ss chs act eph cd (H0 ++ sentSealed (os ++ [.send dst (.message src n (.enc k n' ctr pt ok))])) := by
  rw [sentSealed_append, sentSealed_sealed, ← List.append_assoc]
  exact h.hist_new he hk hc hlt _

theorem CI.act_append {c R ss chs act eph cd H} (h : CI c R ss chs act eph cd H) (call : Call)
    (hc : CallOK H call.pkt) : CI c R ss chs (act ++ [call]) eph cd H := by
  refine h.act (fun x hx => ?_)
  rcases List.mem_append.1 hx with hx | hx
  · exact h.actOk x hx
  · rw [List.mem_singleton.1 hx]; exact hc

theorem CI.act_sub {c R ss chs act act' eph cd H} (h : CI c R ss chs act eph cd H)
    (hs : ∀ x ∈ act', x ∈ act) : CI c R ss chs act' eph cd H :=
  h.act (fun x hx => h.actOk x (hs x hx))

theorem popExpired_sublist (ttl rt : Nat) (l : SS) : (popExpired ttl rt l).2.Sublist l := by
  induction l with
  | nil => simp [popExpired]
  | cons x xs ih =>
    obtain ⟨na, sess, stamp⟩ := x
    unfold popExpired
    split
    · exact List.Sublist.refl _
    · exact List.Sublist.cons _ ih

theorem ss_touch_nodup {ss : SS} (h : ss.Pairwise (fun a b => a.1 ≠ b.1)) (na : NA) (sess : Session) (rt : Nat) :
    (ss.filter (·.1 != na) ++ [(na, sess, rt)]).Pairwise (fun a b => a.1 ≠ b.1) := by
  rw [List.pairwise_append]
  refine ⟨h.sublist List.filter_sublist, List.pairwise_singleton _ _, fun a ha b hb => ?_⟩
  rw [List.mem_singleton.1 hb]
  simpa using (List.mem_filter.1 ha).2

theorem mem_put {ss : SS} {na : NA} {sess : Session} {e'}
    (he' : e' ∈ ss.map (fun e => if e.1 == na then (na, sess, e.2.2) else e)) :
    ∃ e ∈ ss, (e.1 = na ∧ e' = (na, sess, e.2.2)) ∨ (e.1 ≠ na ∧ e' = e) := by
  obtain ⟨e, he, rfl⟩ := List.mem_map.1 he'
  refine ⟨e, he, ?_⟩
  by_cases hna : e.1 = na
  · left; exact ⟨hna, by simp [hna]⟩
  · right; exact ⟨hna, by simp [hna]⟩

theorem put_nodup {ss : SS} (h : ss.Pairwise (fun a b => a.1 ≠ b.1)) (na : NA) (sess : Session) :
    (ss.map (fun e => if e.1 == na then (na, sess, e.2.2) else e)).Pairwise (fun a b => a.1 ≠ b.1) := by
  rw [List.pairwise_map]
  refine h.imp ?_
  intro a b hab
  have fst : ∀ e : NA × Session × Nat, (if e.1 == na then (na, sess, e.2.2) else e).1 = e.1 := by
    intro e; by_cases hna : e.1 = na <;> simp [hna]
  rw [fst, fst]; exact hab

theorem mem_put_self {ss : SS} {na : NA} {cur : Session} {stamp : Nat} (h : (na, cur, stamp) ∈ ss) (sess : Session) :
    (na, sess, stamp) ∈ ss.map (fun e => if e.1 == na then (na, sess, e.2.2) else e) :=
  List.mem_map.2 ⟨(na, cur, stamp), h, by simp⟩

theorem CI.put_derived {c R ss chs act eph cd H} (h : CI c R ss chs act eph cd H) {na : NA} {cur : Session}
    {stamp : Nat} (hmem : (na, cur, stamp) ∈ ss) {sess' : Session} (hk : ∀ k, HasEnc sess' k → HasEnc cur k)
    (hc : cur.counter ≤ sess'.counter) :
    CI c R (ss.map (fun e => if e.1 == na then (na, sess', e.2.2) else e)) chs act eph cd H := by
  refine h.sessions_le (put_nodup h.nodup na sess') (fun e' he' => ?_)
  obtain ⟨e, he, ⟨hna, rfl⟩ | ⟨hna, rfl⟩⟩ := mem_put he'
  · have : e = (na, cur, stamp) := entry_unique h.nodup he hmem hna
    subst this
    exact ⟨_, hmem, rfl, hk, hc⟩
  · exact ⟨e', he, rfl, fun _ hk => hk, Nat.le_refl _⟩

theorem CI.put_rekey {c knew R ss chs act eph cd H} (h : CI c (knew :: R) ss chs act eph cd H) {na : NA}
    {cur : Session} {stamp : Nat} (hmem : (na, cur, stamp) ∈ ss) {sess' : Session}
    (hk : ∀ k, HasEnc sess' k → k = knew ∨ HasEnc cur k) (hc : cur.counter ≤ sess'.counter) :
    CI c [] (ss.map (fun e => if e.1 == na then (na, sess', e.2.2) else e)) chs act eph cd H := by
  have hres := (h.res knew (by simp)).2.2
  refine h.sessions_new na (put_nodup h.nodup na sess') (fun e' he' => ?_)
  obtain ⟨e, he, ⟨hna, rfl⟩ | ⟨hna, rfl⟩⟩ := mem_put he'
  · have : e = (na, cur, stamp) := entry_unique h.nodup he hmem hna
    subst this
    exact ⟨fun _ _ _ => rfl, Or.inr ⟨_, hmem, rfl, hk, hc⟩⟩
  · exact ⟨fun k hk' hkn => absurd (hkn ▸ hk') (hres e' he),
      Or.inr ⟨e', he, rfl, fun k hk' => Or.inr hk', Nat.le_refl _⟩⟩

theorem CI.insert {c knew R ss chs act eph cd H} (h : CI c (knew :: R) ss chs act eph cd H) (na : NA)
    {sess : Session} (hk : ∀ k, HasEnc sess k → k = knew) (rt : Nat) :
    CI c [] (ss.filter (·.1 != na) ++ [(na, sess, rt)]) chs act eph cd H := by
  have hres := (h.res knew (by simp)).2.2
  refine h.sessions_new na (ss_touch_nodup h.nodup na sess rt) (fun e' he' => ?_)
  rcases List.mem_append.1 he' with he' | he'
  · have he := (List.mem_filter.1 he').1
    exact ⟨fun k hk' hkn => absurd (hkn ▸ hk') (hres e' he),
      Or.inr ⟨e', he, rfl, fun k hk' => Or.inr hk', Nat.le_refl _⟩⟩
  · rw [List.mem_singleton.1 he']
    exact ⟨fun _ _ _ => rfl, Or.inl hk⟩

theorem wp_addExpected {a : Addr} {Q : Unit → St → Prop} {st : St}
    (h : ∀ ex, Q () ({ st.1 with exempt := ex }, st.2)) : wp (addExpected a) Q st := by
  unfold addExpected; rw [wp_modS]; split <;> exact h _

theorem HasEnc_congr {s s' : Session} (hk : s'.keys = s.keys) (ho : s'.oldKeys = s.oldKeys) (k : Key)
    (h : HasEnc s' k) : HasEnc s k := by
  unfold HasEnc at *; rw [hk, ho] at h; exact h

theorem decrypt_derived (sess : Session) (nonce : Nat) (ct : Ct) :
    (∀ k, HasEnc (decryptMessage sess nonce ct).1 k → HasEnc sess k) ∧
      (decryptMessage sess nonce ct).1.counter = sess.counter := by
  unfold decryptMessage
  simp only []
  split
  · exact ⟨fun _ h => h, rfl⟩
  · split
    · rename_i old ho
      split
      · refine ⟨fun k hk => ?_, rfl⟩
        rcases hk with rfl | ⟨o, ho', rfl⟩
        · exact Or.inr ⟨old, ho, rfl⟩
        · simp only [Option.some.injEq] at ho'; subst ho'; exact Or.inl rfl
      · refine ⟨fun k hk => ?_, rfl⟩
        rcases hk with rfl | ⟨o, ho', rfl⟩
        · exact Or.inl rfl
        · cases ho'
    · exact ⟨fun _ h => h, rfl⟩


/-! ### the handler functions preserve the invariant -/

theorem sessGetMut_C (c : Cfg) (R : List Key) (H0 : Hist) (na : NA) :
    Tr (CInv c R H0) (sessGetMut c na)
      (fun r st' => CInv c R H0 st' ∧ ∀ sess, r = some sess → ∃ stamp, (na, sess, stamp) ∈ st'.1.sessions) := by
  intro st h
  rw [wp_sessGetMut]
  refine ⟨fun _ => ⟨h, by simp⟩, fun x sess stamp hf => ⟨fun _ => ⟨?_, by simp⟩, fun _ => ⟨?_, ?_⟩⟩⟩
  · exact CI.sessions_sublist h.ci List.filter_sublist
  · have hx : x = na := by simpa using List.find?_some hf
    have hmem := List.mem_of_find?_eq_some hf
    refine CI.sessions_le h.ci (ss_touch_nodup h.ci.nodup na sess _) (fun e' he' => ?_)
    rcases List.mem_append.1 he' with he' | he'
    · exact ⟨e', (List.mem_filter.1 he').1, rfl, fun _ hk => hk, Nat.le_refl _⟩
    · rw [List.mem_singleton.1 he']
      exact ⟨(x, sess, stamp), hmem, hx, fun _ hk => hk, Nat.le_refl _⟩
  · intro s' hs'; cases hs'
    exact ⟨st.1.rt, List.mem_append_right _ (List.mem_singleton.2 rfl)⟩

theorem removeExpiredSessions_C (c : Cfg) (R : List Key) (H0 : Hist) :
    Tr (CInv c R H0) (removeExpiredSessions c) (fun _ => CInv c R H0) := by
  intro st h
  unfold removeExpiredSessions
  cr_wpsimp
  have h' := CI.sessions_sublist h.ci (popExpired_sublist c.sessionTtl st.1.rt st.1.sessions)
  exact ⟨fun _ => h'.emit_other _ rfl, fun _ => h'⟩

theorem srQueue_C (c : Cfg) (R : List Key) (H0 : Hist) (ct : Contact) (rid : Nat) (i : Bool) (body : Nat) :
    Tr (CInv c R H0) (srQueue ct rid i body) (fun _ => CInv c R H0) := by
  intro st h
  unfold srQueue
  cr_wpsimp
  split <;> exact h

theorem srSend_C (c : Cfg) (R : List Key) (H0 : Hist) (ct : Contact) (rid : Nat) (i : Bool) (body : Nat) :
    Tr (CInv c R H0) (srSend c ct rid i body) (fun _ => CInv c R H0) := by
  intro st h
  unfold srSend
  rw [wp_bind]
  refine (sessGetMut_C c R H0 ct.na).wp h (fun r st' ⟨h', hr⟩ => ?_)
  cases r with
  | none =>
    simp only []
    unfold freshNonce srFinish
    cr_wpsimp
    refine wp_addExpected (fun ex => ?_)
    unfold send activeInsert
    cr_wpsimp
    exact CI.act_append (h'.ci.emit_other _ rfl) _ (CallOK_garbage _ _ _)
  | some sess =>
    obtain ⟨stamp, hmem⟩ := hr sess rfl
    simp only []
    rw [wp_bind, wp_encryptMessage]
    simp only []
    unfold sessPut srFinish
    cr_wpsimp
    refine wp_addExpected (fun ex => ?_)
    unfold send activeInsert
    cr_wpsimp
    have hlt : ∀ x ∈ H0 ++ sentSealed st'.2, x.1 = sess.keys.enc → x.2.1 < sess.counter + 1 := fun x hx hk =>
      Nat.lt_succ_of_le (h'.ci.bound x hx _ hmem (Or.inl hk))
    have h1 := CI.put_derived h'.ci hmem (sess' := { sess with counter := sess.counter + 1 }) (fun k hk => hk)
      (Nat.le_succ _)
    exact CI.act_append (h1.send_new (mem_put_self hmem _) (Or.inl rfl) (Nat.le_refl _) hlt _ _ _ _ _ _) _
      (CallOK_sealed (mem_sent _ _ _ _ _ _ _ _ _ _))

theorem isAwaitingSession_C (c : Cfg) (R : List Key) (H0 : Hist) (na : NA) :
    Tr (CInv c R H0) (isAwaitingSession c na) (fun _ => CInv c R H0) := by
  intro st h
  unfold isAwaitingSession
  rw [wp_bind]
  refine (sessGetMut_C c R H0 na).wp h (fun r st' ⟨h', _⟩ => ?_)
  cases r <;> exact h'

theorem sendRequest_C (c : Cfg) (R : List Key) (H0 : Hist) (ct : Contact) (rid : Nat) (i : Bool) (body : Nat) :
    Tr (CInv c R H0) (sendRequest c ct rid i body) (fun _ => CInv c R H0) := by
  intro st h
  rw [sendRequest_eq]
  cr_wpsimp
  refine ⟨fun _ => h, fun _ => ⟨fun _ => srQueue_C c R H0 ct rid i body _ h, fun _ => ?_⟩⟩
  refine (isAwaitingSession_C c R H0 ct.na).wp h (fun r st' h' => ?_)
  exact ⟨fun _ => srQueue_C c R H0 ct rid i body _ h', fun _ => srSend_C c R H0 ct rid i body _ h'⟩

theorem sendPendingRequests_C (c : Cfg) (R : List Key) (H0 : Hist) (na : NA) :
    Tr (CInv c R H0) (sendPendingRequests c na) (fun _ => CInv c R H0) := by
  intro st h
  unfold sendPendingRequests
  cr_wpsimp
  refine forEach_inv (CInv c R H0) _ _ (fun pr _ st h => ?_) _ h
  rw [wp_bind]
  refine (sendRequest_C c R H0 _ _ _ _).wp h (fun r st' h' => ?_)
  cases r with
  | none => exact h'
  | some e => simp only []; cr_wpsimp; exact ⟨fun _ => h'.ci.emit_other _ rfl, fun _ => h'⟩

theorem failSession_C (c : Cfg) (R : List Key) (H0 : Hist) (na : NA) (e : Err) (b : Bool) :
    Tr (CInv c R H0) (failSession c na e b) (fun _ => CInv c R H0) := by
  have tail : ∀ st, CInv c R H0 st → wp (do
      let s ← getS
      have __do_jp : Unit → M Unit := fun __r => do
        let calls ← activeRemoveRequests na
        forEach calls fun call => do
          if !call.internal then emit (.failed call.rid e)
          removeExpected na.addr
      match s.pending.find? (·.1 == na) with
      | some ent =>
        setS { s with pending := s.pending.filter (·.1 != na) }
        forEach ent.2 fun pr => do
          if !pr.internal then emit (.failed pr.rid e)
        __do_jp ()
      | none => __do_jp ()) (fun _ => CInv c R H0) st := by
    intro st h
    have jp : ∀ st, CInv c R H0 st → wp (do
        let calls ← activeRemoveRequests na
        forEach calls fun call => do
          if !call.internal then emit (.failed call.rid e)
          removeExpected na.addr) (fun _ => CInv c R H0) st := by
      intro st h
      unfold activeRemoveRequests
      cr_wpsimp
      refine forEach_inv (CInv c R H0) _ _ (fun call _ st h => ?_) _
        (CI.act_sub h.ci (fun x hx => (List.mem_filter.1 hx).1))
      unfold removeExpected
      cr_wpsimp
      exact ⟨fun _ => h.ci.emit_other _ rfl, fun _ => h⟩
    cr_wpsimp
    split
    · cr_wpsimp
      refine (forEach_inv (CInv c R H0) _ _ (fun pr _ st h => ?_)).wp (st := (_, st.2)) h (fun _ st' h' => jp st' h')
      cr_wpsimp
      exact ⟨fun _ => h.ci.emit_other _ rfl, fun _ => h⟩
    · exact jp st h
  intro st h
  unfold failSession
  cases b
  · simp only [Bool.false_eq_true, if_false]
    exact tail st h
  · simp only [if_true]
    rw [wp_bind]
    refine (removeExpiredSessions_C c R H0).wp h (fun _ st' h' => ?_)
    rw [wp_bind]; unfold sessRemove; rw [wp_modS]
    exact tail _ (CI.sessions_sublist h'.ci List.filter_sublist)

theorem failRequest_C (c : Cfg) (R : List Key) (H0 : Hist) (call : Call) (e : Err) (b : Bool) :
    Tr (CInv c R H0) (failRequest c call e b) (fun _ => CInv c R H0) := by
  intro st h
  unfold failRequest
  cr_wpsimp
  exact ⟨fun _ => failSession_C c R H0 _ e b _ (h.ci.emit_other _ rfl), fun _ => failSession_C c R H0 _ e b _ h⟩

theorem handleRequestTimeout_C (c : Cfg) (R : List Key) (H0 : Hist) (call : Call) :
    Tr (fun st => CInv c R H0 st ∧ CallOK (H0 ++ sentSealed st.2) call.pkt) (handleRequestTimeout c call)
      (fun _ => CInv c R H0) := by
  intro st ⟨h, hc⟩
  unfold handleRequestTimeout removeExpected send activeInsert
  cr_wpsimp
  refine ⟨fun _ => failRequest_C c R H0 call _ _ _ h, fun _ => ?_⟩
  exact CI.act_append (h.ci.send_ok _ hc) _ (hc.mono (fun x hx => hist_mono _ hx))

/-- Packets made by consecutive encryptions under key `k`: counters `base+1, base+2, …`. -/
inductive Seq (k : Key) : Nat → List (Nat × Pkt) → Prop
  | nil (base : Nat) : Seq k base []
  | cons (base old src n n' : Nat) (pt : Msg) (ok : Bool) (rest : List (Nat × Pkt)) :
      Seq k (base + 1) rest → Seq k base ((old, .message src n (.enc k n' (base + 1) pt ok)) :: rest)

theorem reencryptAll_C (c : Cfg) (R : List Key) (H0 : Hist) (ss0 : SS) (calls : List Call) (sess : Session)
    (acc : List (Nat × Pkt)) :
    Tr (fun st => CInv c R H0 st ∧ st.1.sessions = ss0) (reencryptAll c calls sess acc)
      (fun r st' => (CInv c R H0 st' ∧ st'.1.sessions = ss0) ∧ ∃ ps, r.2 = acc ++ ps ∧
        Seq sess.keys.enc sess.counter ps ∧
        r.1.keys = sess.keys ∧ r.1.oldKeys = sess.oldKeys ∧ r.1.counter = sess.counter + ps.length) := by
  induction calls generalizing sess acc with
  | nil => intro st h; exact ⟨h, [], (List.append_nil _).symm, Seq.nil _, rfl, rfl, rfl⟩
  | cons call rest ih =>
    intro st h
    unfold reencryptAll
    rw [wp_bind, wp_encryptMessage]
    refine (ih { sess with counter := sess.counter + 1 } _).wp (st := (_, st.2)) h
      (fun r st' ⟨h', ps, hr, hs, hk, ho, hc⟩ => ⟨h', (call.pkt.nonce, Pkt.message c.localId (mkName c (st.1.fresh.nonce + 1))
        (Ct.enc sess.keys.enc (mkName c (st.1.fresh.nonce + 1)) (sess.counter + 1)
          (Msg.request call.rid call.body) true)) :: ps, ?_, ?_, hk, ho, ?_⟩)
    · rw [hr]; simp
    · exact Seq.cons _ _ _ _ _ _ _ _ hs
    · rw [hc]; simp only [List.length_cons]; omega

/-- `update_packet` + timer re-arm of `replay_active_requests`. -/
def replayUpd (c : Cfg) (old : Nat) (p : Pkt) (s : HState) : HState :=
  { s with
    active := s.active.map (fun call =>
      if call.pkt.nonce == old then
        { call with pkt := p, deadline := s.now + c.requestTimeout, tseq := s.tctr }
      else call),
    tctr := s.tctr + 1 }

theorem replay_loop (c : Cfg) (R : List Key) (H0 : Hist) (na : NA) (k : Key) (f : Nat × Pkt → M Unit)
    (hf : ∀ old p Q st, wp (f (old, p)) Q st ↔ Q () (replayUpd c old p st.1, st.2 ++ [.send na p]))
    (ps : List (Nat × Pkt)) (base : Nat) (hs : Seq k base ps) :
    Tr (fun st => CInv c R H0 st ∧ (∀ x ∈ H0 ++ sentSealed st.2, x.1 = k → x.2.1 ≤ base) ∧
          ∃ e ∈ st.1.sessions, HasEnc e.2.1 k ∧ base + ps.length ≤ e.2.1.counter)
      (forEach ps f) (fun _ => CInv c R H0) := by
  induction hs with
  | nil base => intro st h; exact h.1
  | cons base old src n n' pt ok rest _ ih =>
    intro st ⟨h, hle, e, he, hk, hc⟩
    unfold forEach
    rw [wp_bind, hf]
    simp only [List.length_cons] at hc
    have h1 := h.ci.send_new he hk (ctr := base + 1) (by omega)
      (fun x hx hxk => Nat.lt_succ_of_le (hle x hx hxk)) na src n n' pt ok
    refine ih (_, _) ⟨?_, ?_, e, he, hk, by omega⟩
    · refine h1.act (fun call' hc' => ?_)
      obtain ⟨call, hcall, rfl⟩ := List.mem_map.1 hc'
      split
      · exact CallOK_sealed (mem_sent _ _ _ _ _ _ _ _ _ _)
      · exact (h.ci.actOk call hcall).mono (fun x hx => hist_mono _ hx)
    · intro x hx hxk
      rcases mem_hist_snoc hx with hx | rfl
      · exact Nat.le_succ_of_le (hle x hx hxk)
      · exact Nat.le_refl _

theorem replayActiveRequests_C (c : Cfg) (R : List Key) (H0 : Hist) (na : NA) (sk : Option Nat) :
    Tr (CInv c R H0) (replayActiveRequests c na sk) (fun _ => CInv c R H0) := by
  intro st h
  unfold replayActiveRequests
  rw [wp_bind]
  refine (sessGetMut_C c R H0 na).wp h (fun r st1 ⟨h1, hr⟩ => ?_)
  cases r with
  | none => exact h1
  | some sess0 =>
    obtain ⟨stamp, hmem⟩ := hr sess0 rfl
    simp only []
    rw [wp_bind, wp_getS, wp_bind]
    refine (reencryptAll_C c R H0 st1.1.sessions _ sess0 []).wp ⟨h1, rfl⟩
      (fun r st2 ⟨⟨h2, hss⟩, ps, hps, hseq, hk, ho, hc⟩ => ?_)
    obtain ⟨sess, packets⟩ := r
    simp only [List.nil_append] at hps hk ho hc
    subst hps
    rw [← hss] at hmem
    simp only []
    unfold sessPut
    rw [wp_bind, wp_modS]
    refine replay_loop c R H0 na sess0.keys.enc _ (fun old p Q st => Iff.rfl) packets sess0.counter hseq _
      ⟨?_, ?_, (na, sess, stamp), mem_put_self hmem _, Or.inl (by rw [hk]), by rw [hc]; exact Nat.le_refl _⟩
    · exact CI.put_derived h2.ci hmem (HasEnc_congr hk ho) (by rw [hc]; exact Nat.le_add_right _ _)
    · intro x hx hxk
      exact h2.ci.bound x hx _ hmem (Or.inl hxk)

theorem newSession_C (c : Cfg) (H0 : Hist) (na : NA) (sess : Session) (sk : Option Nat) (ho : sess.oldKeys = none) :
    Tr (CInv c [sess.keys.enc] H0) (newSession c na sess sk) (fun _ => CInv c [] H0) := by
  intro st h
  unfold newSession
  rw [wp_bind]
  refine (removeExpiredSessions_C c _ H0).wp h (fun _ st1 h1 => ?_)
  rw [wp_bind]
  refine (sessGetMut_C c _ H0 na).wp h1 (fun r st2 ⟨h2, hr⟩ => ?_)
  cases r with
  | none =>
    simp only []
    unfold sessInsert
    rw [wp_bind, wp_modS]
    refine sendPendingRequests_C c [] H0 na _ ?_
    have hi := CI.insert h2.ci na (sess := sess) (by
      intro k hk
      rcases hk with rfl | ⟨old, ho', _⟩
      · rfl
      · rw [ho] at ho'; cases ho') st2.1.rt
    show CI c [] (if _ then _ else _) _ _ _ _ _
    split
    · exact hi.sessions_sublist (List.drop_sublist _ _)
    · exact hi
  | some cur =>
    obtain ⟨stamp, hmem⟩ := hr cur rfl
    simp only []
    unfold sessPut
    rw [wp_bind, wp_modS, wp_bind]
    refine (replayActiveRequests_C c [] H0 na sk).wp ?_ (fun _ st3 h3 => sendPendingRequests_C c [] H0 na _ h3)
    refine CI.put_rekey h2.ci hmem (fun k hk => ?_) (Nat.le_refl _)
    rcases hk with rfl | ⟨old, ho', rfl⟩
    · exact Or.inl rfl
    · simp only [Option.some.injEq] at ho'; subst ho'; exact Or.inr (Or.inl rfl)


/-- `sessPut` on the session list. -/
def putS (na : NA) (sess : Session) (ss : SS) : SS :=
  ss.map (fun e => if e.1 == na then (na, sess, e.2.2) else e)

def withSessions (s : HState) (l : SS) : HState := { s with sessions := l }

theorem sendChallenge_C (c : Cfg) (R : List Key) (H0 : Hist) (na : NA) (nonce : Nat) (known : Option Rec) :
    Tr (CInv c R H0) (sendChallenge c na nonce known) (fun _ => CInv c R H0) := by
  intro st h
  unfold sendChallenge freshCd
  cr_wpsimp
  refine ⟨fun _ => h, fun _ => ?_⟩
  refine wp_addExpected (fun ex => ?_)
  unfold send
  cr_wpsimp
  exact CI.emit_other (CI.chs_add h.ci na known _ _) _ rfl

theorem handleResponse_C (c : Cfg) (R : List Key) (H0 : Hist) (na : NA) (rid : Nat) (rb : RespBody) :
    Tr (CInv c R H0) (handleResponse c na rid rb) (fun _ => CInv c R H0) := by
  intro st h
  unfold handleResponse
  rw [wp_bind, wp_activeRemoveRequest]
  refine ⟨fun _ => h, fun call hfc => ?_⟩
  have hc0 : ∀ call' : Call, call'.pkt = call.pkt → CallOK (H0 ++ sentSealed st.2) call'.pkt :=
    fun call' he => he ▸ h.ci.actOk call (List.mem_of_find?_eq_some hfc)
  have h0 : CInv c R H0 ({ st.1 with active := st.1.active.erase call }, st.2) :=
    CI.act_sub h.ci (fun x hx => List.mem_of_mem_erase hx)
  simp only []
  have fin : ∀ st : St, CInv c R H0 st →
      wp (do removeExpected na.addr; emit (.response na rid rb)) (fun _ => CInv c R H0) st := by
    intro st h; unfold removeExpected; cr_wpsimp; exact h.ci.emit_other _ rfl
  unfold activeInsert
  split
  · cr_wpsimp
    refine ⟨fun _ => ?_, fun _ => fin _ h0⟩
    split
    · cr_wpsimp
      exact ⟨fun _ => CI.emit_other (CI.act_append h0 _ (hc0 _ (by rfl))) _ (by rfl), fun _ => fin _ h0⟩
    · cr_wpsimp; exact CI.emit_other (CI.act_append h0 _ (hc0 _ (by rfl))) _ (by rfl)
  · exact fin _ h0

theorem handleMessage_C (c : Cfg) (R : List Key) (H0 : Hist) (na : NA) (nonce : Nat) (ct : Ct) :
    Tr (CInv c R H0) (handleMessage c na nonce ct) (fun _ => CInv c R H0) := by
  intro st h
  unfold handleMessage
  rw [wp_bind]
  refine (sessGetMut_C c R H0 na).wp h (fun r st1 ⟨h1, hr⟩ => ?_)
  cases r with
  | none => simp only []; cr_wpsimp; exact h1.ci.emit_other _ rfl
  | some sess =>
    obtain ⟨stamp, hmem⟩ := hr sess rfl
    have hdd := decrypt_derived sess nonce ct
    simp only []
    generalize decryptMessage sess nonce ct = r at hdd
    obtain ⟨sess', pt⟩ := r
    unfold sessPut
    rw [wp_bind, wp_modS]
    simp only []
    have h2 : CInv c R H0 ({ st1.1 with sessions := putS na sess' st1.1.sessions }, st1.2) :=
      CI.put_derived h1.ci hmem hdd.1 (Nat.le_of_eq hdd.2.symm)
    have hmem2 := mem_put_self hmem sess'
    cases pt with
    | none =>
      simp only []
      rw [wp_bind]
      refine (failSession_C c R H0 na _ _).wp h2 (fun _ st' h' => ?_)
      cr_wpsimp
      exact ⟨fun _ => h'.ci.emit_other _ rfl, fun _ => h'⟩
    | some m =>
      cases m with
      | undecodable => exact h2
      | request rid body => simp only []; cr_wpsimp; exact h2.ci.emit_other _ rfl
      | response rid rb =>
        simp only []
        cr_wpsimp
        refine ⟨fun _ => ?_, fun _ => handleResponse_C c R H0 na rid rb _ h2⟩
        have h3 : CInv c R H0 (withSessions st1.1
            (putS na { sess' with awaitingEnr := none } (putS na sess' st1.1.sessions)), st1.2) :=
          CI.put_derived h2.ci hmem2 (fun k hk => hk) (Nat.le_refl _)
        rw [wp_activeRemoveRequest]
        have fs := failSession_C c R H0 na .invalidRemoteEnr true
        have verfin : ∀ st : St, CInv c R H0 st → wp (do
            let verified ← (do
              match rb with
              | .nodes _ recs =>
                match recs.getLast? with
                | some r =>
                  if verifyEnr r na then
                    emit (.established r na.addr true)
                    return true
                  else
                    emit (.unverifiable r na.addr na.id)
                    return false
                | none => return false
              | _ => return false)
            if !verified then failSession c na .invalidRemoteEnr true) (fun _ => CInv c R H0) st := by
          intro st h
          rw [wp_bind]
          split
          · split
            · cr_wpsimp
              have ha := h.ci.emit_other (.established ‹Rec› na.addr true) rfl
              have hb := h.ci.emit_other (.unverifiable ‹Rec› na.addr na.id) rfl
              exact ⟨fun _ => ⟨fun _ => fs _ ha, fun _ => ha⟩, fun _ => ⟨fun _ => fs _ hb, fun _ => hb⟩⟩
            · cr_wpsimp; exact ⟨fun _ => fs _ h, fun _ => h⟩
          · cr_wpsimp; exact ⟨fun _ => fs _ h, fun _ => h⟩
        refine ⟨fun _ => verfin _ h3, fun call _ => ?_⟩
        simp only []
        rw [wp_bind]; unfold removeExpected; rw [wp_modS]
        exact verfin _ (CI.act_sub h3.ci (fun x hx => List.mem_of_mem_erase hx))

theorem establish_key {c : Cfg} {id : Id} {ch : Challenge} {sig : Sig} {eph : Nat} {record : Option Rec}
    {sess : Session} {r : Rec} (h : establishFromChallenge c id ch sig eph record = some (some (sess, r))) :
    sess.keys.enc.toRcp = false ∧ sess.keys.enc.cd = ch.cd ∧ sess.oldKeys = none := by
  unfold establishFromChallenge at h
  simp only [] at h
  split at h
  · cases h
  · split at h
    · cases h
    · split at h
      · cases h
      · simp only [Option.some.injEq, Prod.mk.injEq] at h
        obtain ⟨rfl, -⟩ := h
        exact ⟨rfl, rfl, rfl⟩

theorem handleAuthMessage_C (c : Cfg) (H0 : Hist) (na : NA) (nonce : Nat) (sig : Sig) (eph : Nat)
    (record : Option Rec) (ct : Ct) :
    Tr (CInv c [] H0) (handleAuthMessage c na nonce sig eph record ct) (fun _ => CInv c [] H0) := by
  intro st h
  unfold handleAuthMessage
  rw [wp_bind, wp_getS]
  split
  · exact h
  · rename_i x ch d q hfind
    rw [wp_bind, wp_setS]
    cases he : establishFromChallenge c na.id ch sig eph record with
    | none => simp only []; cr_wpsimp; exact CI.chs_readd h.ci hfind _ _
    | some r =>
      cases r with
      | none =>
        simp only []
        unfold removeExpected
        rw [wp_bind, wp_modS]
        exact failSession_C c [] H0 na _ _ _ (CI.chs_sublist h.ci List.filter_sublist)
      | some p =>
        obtain ⟨sess, r⟩ := p
        obtain ⟨hk1, hk2, hold⟩ := establish_key he
        have h1 := CI.take_ch h.ci hfind sess.keys.enc hk1 hk2
        simp only []
        unfold removeExpected
        rw [wp_bind, wp_modS]
        have jp : ∀ st : St, CInv c [sess.keys.enc] H0 st →
            wp (newSession c na sess none >>= fun _ => handleMessage c na nonce ct) (fun _ => CInv c [] H0) st := by
          intro st h
          rw [wp_bind]
          exact (newSession_C c H0 na sess none hold).wp h (fun _ st' h' => handleMessage_C c [] H0 na nonce ct _ h')
        cr_wpsimp
        exact ⟨fun _ => jp _ (h1.emit_other _ rfl), fun _ => jp _ (h1.emit_other _ rfl)⟩

theorem handleChallenge_C (c : Cfg) (H0 : Hist) (src : Addr) (nonce cd enrSeq : Nat) :
    Tr (CInv c [] H0) (handleChallenge c src nonce cd enrSeq) (fun _ => CInv c [] H0) := by
  intro st h
  unfold handleChallenge
  rw [wp_bind, wp_activeRemoveByNonce]
  refine ⟨fun _ => h, fun call0 hf0 => ?_⟩
  have hc0 : CallOK (H0 ++ sentSealed st.2) call0.pkt := h.ci.actOk call0 (List.mem_of_find?_eq_some hf0)
  have h0 : CInv c [] H0 ({ st.1 with active := st.1.active.erase call0 }, st.2) :=
    CI.act_sub h.ci (fun x hx => List.mem_of_mem_erase hx)
  simp only []
  rw [wp_ite]
  refine ⟨fun _ => ?_, fun _ => ?_⟩
  · unfold activeInsert; cr_wpsimp; exact CI.act_append h0 _ hc0
  rw [wp_ite]
  refine ⟨fun _ => ?_, fun _ => ?_⟩
  · unfold removeExpected
    rw [wp_bind, wp_modS, wp_bind]
    exact (failRequest_C c [] H0 call0 _ _).wp h0 (fun _ _ h' => h')
  rw [wp_ite]
  refine ⟨fun _ => ?_, fun _ => ?_⟩
  · unfold removeExpected
    rw [wp_bind, wp_modS, wp_bind]
    exact (failRequest_C c [] H0 call0 _ _).wp h0 (fun _ _ h' => h')
  unfold freshEph freshNonce activeInsert send freshRid
  cr_wpsimp
  split
  · cr_wpsimp
    refine newSession_C c H0 _ _ _ rfl _ ?_
    exact CI.emit_other (CI.emit_other (CI.act_append (CI.eph_bump h0 _ (by rfl) (by rfl)) _
      (CallOK_handshake _ _ _ _ _ _ _)) _ rfl) _ rfl
  · cr_wpsimp
    refine (sendRequest_C c _ H0 _ _ _ _).wp ?_ (fun _ st' h' => newSession_C c H0 _ _ _ rfl _ h')
    exact CI.emit_other (CI.act_append (CI.eph_bump h0 _ (by rfl) (by rfl)) _
      (CallOK_handshake _ _ _ _ _ _ _)) _ rfl


theorem foldl_pick_mem {α} (g : Option α → α → Option α)
    (hg : ∀ m x, g m x = some x ∨ (∃ b, m = some b ∧ g m x = some b)) (l : List α) (init : Option α) (r : α)
    (h : l.foldl g init = some r) : r ∈ l ∨ init = some r := by
  induction l generalizing init with
  | nil => exact Or.inr h
  | cons x xs ih =>
    rw [List.foldl_cons] at h
    rcases ih _ h with hr | hr
    · exact Or.inl (List.mem_cons_of_mem _ hr)
    · rcases hg init x with hx | ⟨b, hb, hx⟩
      · rw [hx] at hr; cases hr; exact Or.inl (List.mem_cons_self ..)
      · rw [hx] at hr; cases hr; exact Or.inr hb

theorem nextDue_mem {s : HState} {target d : Nat} {call : Call} (h : nextDue s target = some (d, .inl call)) :
    call ∈ s.active := by
  unfold nextDue at h
  simp only [] at h
  generalize hR : List.foldl _ none (s.active.filter (·.deadline ≤ target)) = minR at h
  generalize hC : List.foldl _ none (s.challenges.filter (·.2.2.1 ≤ target)) = minC at h
  have hmem : ∀ r, minR = some r → r ∈ s.active := by
    intro r hr
    rw [hr] at hR
    rcases foldl_pick_mem _ (by
      intro m x
      cases m with
      | none => exact Or.inl rfl
      | some b =>
        simp only []
        split
        · exact Or.inl rfl
        · exact Or.inr ⟨b, rfl, rfl⟩) _ _ _ hR with h1 | h1
    · exact (List.mem_filter.1 h1).1
    · cases h1
  cases minR with
  | none =>
    cases minC with
    | none => cases h
    | some ch => simp only [Option.some.injEq, Prod.mk.injEq, reduceCtorEq, and_false] at h
  | some r =>
    cases minC with
    | none =>
      simp only [Option.some.injEq, Prod.mk.injEq, Sum.inl.injEq] at h
      rw [← h.2]; exact hmem r rfl
    | some ch =>
      simp only [] at h
      split at h
      · simp only [Option.some.injEq, Prod.mk.injEq, reduceCtorEq, and_false] at h
      · simp only [Option.some.injEq, Prod.mk.injEq, Sum.inl.injEq] at h
        rw [← h.2]; exact hmem r rfl

theorem fireTimers_C (c : Cfg) (H0 : Hist) (target fuel : Nat) :
    Tr (CInv c [] H0) (fireTimers c target fuel) (fun _ => CInv c [] H0) := by
  induction fuel with
  | zero => intro st h; exact h
  | succ n ih =>
    intro st h
    unfold fireTimers
    rw [wp_bind, wp_getS]
    split
    · exact h
    · rename_i d call hnd
      rw [wp_bind, wp_setS, wp_bind]
      have hc : CallOK (H0 ++ sentSealed st.2) call.pkt := h.ci.actOk call (nextDue_mem hnd)
      refine (handleRequestTimeout_C c [] H0 call).wp ⟨?_, hc⟩ (fun _ st' h' => ih st' h')
      exact CI.act_sub h.ci (fun x hx => List.mem_of_mem_erase hx)
    · unfold removeExpected
      rw [wp_bind, wp_setS, wp_bind, wp_modS, wp_bind]
      refine (sendPendingRequests_C c [] H0 _).wp ?_ (fun _ st' h' => ih st' h')
      exact CI.chs_sublist h.ci List.filter_sublist

theorem stepM_C (c : Cfg) (H0 : Hist) (e : Ev) : Tr (CInv c [] H0) (stepM c e) (fun _ => CInv c [] H0) := by
  intro st h
  cases e with
  | appRequest ct rid body =>
    unfold stepM
    rw [wp_bind]
    refine (sendRequest_C c [] H0 _ _ _ _).wp h (fun r st' h' => ?_)
    cases r with
    | none => exact h'
    | some e => simp only []; cr_wpsimp; exact h'.ci.emit_other _ (by rfl)
  | appResponse na rid rb =>
    unfold stepM
    rw [wp_bind]
    refine (sessGetMut_C c [] H0 na).wp h (fun r st' ⟨h', hr⟩ => ?_)
    cases r with
    | none => exact h'
    | some sess =>
      obtain ⟨stamp, hmem⟩ := hr sess rfl
      simp only []
      rw [wp_bind, wp_encryptMessage]
      unfold sessPut send
      cr_wpsimp
      have hlt : ∀ x ∈ H0 ++ sentSealed st'.2, x.1 = sess.keys.enc → x.2.1 < sess.counter + 1 := fun x hx hk =>
        Nat.lt_succ_of_le (h'.ci.bound x hx _ hmem (Or.inl hk))
      have h1 := CI.put_derived h'.ci hmem (sess' := { sess with counter := sess.counter + 1 }) (fun k hk => hk)
        (Nat.le_succ _)
      exact h1.send_new (mem_put_self hmem _) (Or.inl rfl) (Nat.le_refl _) hlt _ _ _ _ _ _
  | appWru na nonce known => exact sendChallenge_C c [] H0 na nonce known st h
  | dgram src p =>
    cases p with
    | whoareyou nonce cd enrSeq => exact handleChallenge_C c H0 src nonce cd enrSeq st h
    | handshake srcId nonce sig eph record ct => exact handleAuthMessage_C c H0 _ nonce sig eph record ct st h
    | message srcId nonce ct => exact handleMessage_C c [] H0 _ nonce ct st h
  | adv dt =>
    unfold stepM
    rw [wp_bind, wp_getS, wp_bind]
    exact (fireTimers_C c H0 _ _).wp h (fun _ st' h' => h')
  | rtAdv dt => exact h

theorem trace_C (c : Cfg) (evs : List Ev) : ∀ (s : HState) (H : Hist),
    CI c [] s.sessions s.challenges s.active s.fresh.eph s.fresh.cd H →
    ∀ a ∈ H ++ sentSealed (trace c s evs).flatten, ∀ b ∈ H ++ sentSealed (trace c s evs).flatten,
      a.1 = b.1 → a.2.1 = b.2.1 → a.2.2 = b.2.2 := by
  induction evs with
  | nil =>
    intro s H h a ha b hb
    have e : H ++ sentSealed (trace c s []).flatten = H := by
      show H ++ [] = H
      exact List.append_nil _
    rw [e] at ha hb
    exact h.self a ha b hb
  | cons e rest ih =>
    intro s H h
    have h0 : CInv c [] H (s, []) := by
      show CI c [] s.sessions s.challenges s.active s.fresh.eph s.fresh.cd (H ++ [])
      rw [List.append_nil]; exact h
    have h1 : CI c [] (step c s e).1.sessions (step c s e).1.challenges (step c s e).1.active
        (step c s e).1.fresh.eph (step c s e).1.fresh.cd (H ++ sentSealed (step c s e).2) :=
      stepM_C c H e (s, []) h0
    have e2 : H ++ sentSealed (trace c s (e :: rest)).flatten =
        (H ++ sentSealed (step c s e).2) ++ sentSealed (trace c (step c s e).1 rest).flatten := by
      show H ++ sentSealed ((step c s e).2 :: trace c (step c s e).1 rest).flatten = _
      rw [List.flatten_cons, sentSealed_append, List.append_assoc]
    rw [e2]
    exact ih _ _ h1


end Discv5.H.Cr

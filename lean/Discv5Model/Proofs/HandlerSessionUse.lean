/-
Helper lemmas for `Props/C15SessionUse.lean` (handler model): what counts as a *use* of a session.

* `failSession … false` and `handleRequestTimeout`: exact effect (`failSession_false_run`,
  `handleRequestTimeout_exhausted_run`, `handleRequestTimeout_retry_run`) — queued and active requests
  of the peer are dropped and reported, the exemption map changes; the session list, the open
  challenges and the clocks are untouched (`handleRequestTimeout_frame`);
* the timer loop: as long as no challenge timer is due, `fireTimers` leaves the session list as it
  is (`fireTimers_no_challenge`, `step_adv_no_challenge`);
* walk L (timer path only): whatever timers fire, an address that has a live session keeps a live
  session (`LiveIn`, `LS`, `step_adv_keeps_live`), and through the parametric invariant of
  `Proofs/HandlerIdentity.lean` no session is created or re-keyed (`ctxS`, `step_adv_no_new_session`);
* the application's response (`sendResponse` = the `appResponse` branch of `stepM`): exact effect with
  and without a live session, and its reading as `LruTimeCache::get_mut` (`sendResponse_refines`);
* `sendRequest` behind an open challenge: exact effect (`sendRequest_challenge_run`).
-/
import Discv5Model.Proofs.HandlerAttribution
import Discv5Model.Proofs.HandlerLru

set_option linter.unusedSimpArgs false
set_option linter.unusedVariables false

namespace Discv5.H.SU
open Cr RQ

abbrev St := HState × List Out

/-! ### a loop whose body has a state-independent output -/

theorem forEach_run {α} (l : List α) (f : α → M Unit) (g : α → HState → HState) (h : α → List Out)
    (hf : ∀ x st, (f x).run st = ((), (g x st.1, st.2 ++ h x))) (st : St) :
    (forEach l f).run st = ((), (l.foldl (fun s x => g x s) st.1, st.2 ++ l.flatMap h)) := by
  induction l generalizing st with
  | nil => rw [forEach_nil, run_pure]; simp
  | cons x xs ih => rw [forEach_cons, run_bind, hf, ih]; simp

/-- The requests queued for `na`. -/
def queuedFor (s : HState) (na : NA) : List PendingReq :=
  match s.pending.find? (·.1 == na) with
  | some ent => ent.2
  | none => []

/-- The failure reports for the external ones among the queued requests `prs`, in order. -/
def pendOuts (e : Err) (prs : List PendingReq) : List Out :=
  prs.flatMap (fun pr => if !pr.internal then [Out.failed pr.rid e] else [])

/-- The failure reports for the external ones among the active requests `calls`, in order. -/
def callOuts (e : Err) (calls : List Call) : List Out :=
  calls.flatMap (fun cl => if !cl.internal then [Out.failed cl.rid e] else [])

theorem mem_pendOuts {e : Err} {prs : List PendingReq} {o : Out} :
    o ∈ pendOuts e prs ↔ ∃ pr ∈ prs, pr.internal = false ∧ o = .failed pr.rid e := by
  unfold pendOuts
  rw [List.mem_flatMap]
  constructor
  · rintro ⟨pr, hpr, ho⟩
    cases hi : pr.internal
    · rw [hi] at ho; exact ⟨pr, hpr, hi, by simpa using ho⟩
    · rw [hi] at ho; simp at ho
  · rintro ⟨pr, hpr, hi, rfl⟩
    exact ⟨pr, hpr, by simp [hi]⟩

theorem mem_callOuts {e : Err} {calls : List Call} {o : Out} :
    o ∈ callOuts e calls ↔ ∃ cl ∈ calls, cl.internal = false ∧ o = .failed cl.rid e := by
  unfold callOuts
  rw [List.mem_flatMap]
  constructor
  · rintro ⟨cl, hcl, ho⟩
    cases hi : cl.internal
    · rw [hi] at ho; exact ⟨cl, hcl, hi, by simpa using ho⟩
    · rw [hi] at ho; simp at ho
  · rintro ⟨cl, hcl, hi, rfl⟩
    exact ⟨cl, hcl, by simp [hi]⟩

theorem filter_ne_of_find_none {α} (l : List (NA × α)) (na : NA) (h : l.find? (·.1 == na) = none) :
    l.filter (·.1 != na) = l := by
  rw [List.filter_eq_self]
  intro x hx
  have := List.find?_eq_none.1 h x hx
  simpa using this

/-- the state change of `removeExpected` -/
def rmExp (a : Addr) (s : HState) : HState :=
  { s with exempt := (s.exempt.map (fun p => if p.1 == a then (p.1, p.2 - 1) else p)).filter (fun p => p.2 != 0) }

theorem removeExpected_eq (a : Addr) : removeExpected a = modS (rmExp a) := rfl

theorem foldl_rmExp {α} (a : Addr) (l : List α) (s : HState) :
    ∃ ex, l.foldl (fun s _ => rmExp a s) s = { s with exempt := ex } := by
  induction l generalizing s with
  | nil => exact ⟨s.exempt, rfl⟩
  | cons x xs ih =>
    obtain ⟨ex, h⟩ := ih (rmExp a s)
    exact ⟨ex, by rw [List.foldl_cons, h]; rfl⟩

/-- The second half of `fail_session`: the active requests to `na` are removed and reported. -/
theorem failCalls_run (na : NA) (e : Err) (st : St) :
    ∃ ex, (do
        let calls ← activeRemoveRequests na
        forEach calls fun call =>
          if (!call.internal) = true then do
            emit (Out.failed call.rid e)
            removeExpected na.addr
          else removeExpected na.addr : M Unit).run st =
      ((), ({ st.1 with active := st.1.active.filter (fun call => callNA call != na), exempt := ex },
        st.2 ++ callOuts e (st.1.active.filter (fun call => callNA call == na)))) := by
  rw [run_bind, activeRemoveRequests_run]
  rw [forEach_run _ _ (fun _ s => rmExp na.addr s)
    (fun cl => if !cl.internal then [Out.failed cl.rid e] else [])]
  · obtain ⟨ex, h⟩ := foldl_rmExp na.addr (st.1.active.filter (fun call => callNA call == na))
      { st.1 with active := st.1.active.filter (fun call => callNA call != na) }
    exact ⟨ex, by simp only [h]; rfl⟩
  · intro cl st'
    cases cl.internal
    · simp only [Bool.not_false, if_true, run_bind, run_emit, removeExpected_eq, run_modS]
    · simp only [Bool.not_true, Bool.false_eq_true, if_false, removeExpected_eq, run_modS, List.append_nil]

/-- Exact effect of `fail_session(na, e, remove_session = false)`: the queue for `na` and the active
requests to `na` are dropped and (the external ones) reported as failed with `e`; the exemption map
changes; nothing else does. -/
theorem failSession_false_run (c : Cfg) (na : NA) (e : Err) (st : St) :
    ∃ ex, (failSession c na e false).run st =
      ((), ({ st.1 with pending := st.1.pending.filter (·.1 != na),
                        active := st.1.active.filter (fun call => callNA call != na),
                        exempt := ex },
        st.2 ++ pendOuts e (queuedFor st.1 na) ++
          callOuts e (st.1.active.filter (fun call => callNA call == na)))) := by
  unfold failSession
  simp only [Bool.false_eq_true, if_false, run_bind, run_getS]
  cases hf : st.1.pending.find? (·.1 == na) with
  | none =>
    simp only []
    obtain ⟨ex, h⟩ := failCalls_run na e st
    refine ⟨ex, ?_⟩
    rw [h, filter_ne_of_find_none _ _ hf]
    simp [queuedFor, hf, pendOuts]
  | some ent =>
    have hq : queuedFor st.1 na = ent.2 := by simp [queuedFor, hf]
    have h1 : ∀ st1 : St, (forEach ent.2 fun pr =>
        if (!pr.internal) = true then emit (Out.failed pr.rid e) else pure ()).run st1 =
          ((), (st1.1, st1.2 ++ pendOuts e ent.2)) := by
      intro st1
      rw [forEach_run _ _ (fun _ s => s) (fun pr => if !pr.internal then [Out.failed pr.rid e] else [])]
      · have hfold : ∀ (l : List PendingReq) (s : HState), l.foldl (fun s _ => s) s = s := by
          intro l; induction l with
          | nil => intro s; rfl
          | cons x xs ih => intro s; exact ih s
        rw [hfold]; rfl
      · intro pr st'
        cases pr.internal
        · simp only [Bool.not_false, if_true, run_emit]
        · simp only [Bool.not_true, Bool.false_eq_true, if_false, run_pure, List.append_nil]
    simp only [run_bind, run_setS, h1]
    obtain ⟨ex, h⟩ := failCalls_run na e
      ({ st.1 with pending := st.1.pending.filter (·.1 != na) }, st.2 ++ pendOuts e ent.2)
    refine ⟨ex, ?_⟩
    rw [hq]
    exact h

/-- What a timed-out request reports itself. -/
def ownOut (call : Call) : List Out := if call.internal then [] else [Out.failed call.rid .timeout]

/-- Exact effect of a request timer firing when the retries are used up. -/
theorem handleRequestTimeout_exhausted_run (c : Cfg) (call : Call) (st : St)
    (h : call.retries ≥ c.requestRetries) :
    ∃ ex, (handleRequestTimeout c call).run st =
      ((), ({ st.1 with pending := st.1.pending.filter (·.1 != callNA call),
                        active := st.1.active.filter (fun x => callNA x != callNA call),
                        exempt := ex },
        st.2 ++ ownOut call ++ pendOuts .timeout (queuedFor st.1 (callNA call)) ++
          callOuts .timeout (st.1.active.filter (fun x => callNA x == callNA call)))) := by
  unfold handleRequestTimeout failRequest
  simp only [h, if_true, run_bind, removeExpected_eq, run_modS]
  cases hi : call.internal
  · simp only [Bool.not_false, if_true, run_emit, run_bind]
    obtain ⟨ex, hx⟩ := failSession_false_run c (callNA call) .timeout
      (rmExp (callNA call).addr st.1, st.2 ++ [Out.failed call.rid .timeout])
    exact ⟨ex, by rw [hx]; simp [ownOut, hi, rmExp, queuedFor]⟩
  · simp only [Bool.not_true, Bool.false_eq_true, if_false, run_pure, run_bind]
    obtain ⟨ex, hx⟩ := failSession_false_run c (callNA call) .timeout
      (rmExp (callNA call).addr st.1, st.2)
    exact ⟨ex, by rw [hx]; simp [ownOut, hi, rmExp, queuedFor]⟩

/-- Exact effect of a request timer firing when retries are left: retransmission, fresh timer. -/
theorem handleRequestTimeout_retry_run (c : Cfg) (call : Call) (st : St)
    (h : ¬ call.retries ≥ c.requestRetries) :
    (handleRequestTimeout c call).run st =
      ((), ({ st.1 with
              active := st.1.active ++ [{ call with retries := call.retries + 1,
                                                    deadline := st.1.now + c.requestTimeout,
                                                    tseq := st.1.tctr }],
              tctr := st.1.tctr + 1 },
        st.2 ++ [Out.send (callNA call) call.pkt])) := by
  unfold handleRequestTimeout activeInsert
  simp only [h, if_false, run_bind, run_send, run_modS]

/-- Whatever the retry count: the request timer touches neither the session list, nor the open
challenges, nor the clocks. -/
theorem handleRequestTimeout_frame (c : Cfg) (call : Call) (st : St) :
    ((handleRequestTimeout c call).run st).2.1.sessions = st.1.sessions ∧
    ((handleRequestTimeout c call).run st).2.1.challenges = st.1.challenges ∧
    ((handleRequestTimeout c call).run st).2.1.rt = st.1.rt ∧
    ((handleRequestTimeout c call).run st).2.1.now = st.1.now ∧
    ((handleRequestTimeout c call).run st).2.1.fresh = st.1.fresh := by
  by_cases h : call.retries ≥ c.requestRetries
  · obtain ⟨ex, hx⟩ := handleRequestTimeout_exhausted_run c call st h
    rw [hx]; exact ⟨rfl, rfl, rfl, rfl, rfl⟩
  · rw [handleRequestTimeout_retry_run c call st h]; exact ⟨rfl, rfl, rfl, rfl, rfl⟩

/-! ### the timer loop -/

/-- No challenge timer is due at or before `target`. -/
def NoChallengeDue (s : HState) (target : Nat) : Prop := ∀ e ∈ s.challenges, target < e.2.2.1

theorem nextDue_no_challenge (s : HState) (target : Nat) (h : NoChallengeDue s target) (d : Nat) (na : NA) :
    nextDue s target ≠ some (d, .inr na) := by
  have hc : s.challenges.filter (·.2.2.1 ≤ target) = [] := by
    rw [List.filter_eq_nil_iff]
    intro e he
    have := h e he
    simp only [decide_eq_true_eq]; omega
  unfold nextDue
  simp only [hc, List.foldl_nil]
  split <;> simp_all

theorem fireTimers_no_challenge (c : Cfg) (target fuel : Nat) (st : St) (h : NoChallengeDue st.1 target) :
    ((fireTimers c target fuel).run st).2.1.sessions = st.1.sessions ∧
    ((fireTimers c target fuel).run st).2.1.challenges = st.1.challenges ∧
    ((fireTimers c target fuel).run st).2.1.rt = st.1.rt := by
  induction fuel generalizing st with
  | zero => exact ⟨rfl, rfl, rfl⟩
  | succ n ih =>
    unfold fireTimers
    simp only [run_bind, run_getS]
    cases hn : nextDue st.1 target with
    | none => exact ⟨rfl, rfl, rfl⟩
    | some p =>
      obtain ⟨d, x⟩ := p
      cases x with
      | inr na => exact absurd hn (nextDue_no_challenge st.1 target h d na)
      | inl call =>
        simp only [run_bind, run_setS]
        obtain ⟨h1, h2, h3, -, -⟩ := handleRequestTimeout_frame c call
          ({ st.1 with active := st.1.active.erase call, now := max st.1.now d }, st.2)
        have h' : NoChallengeDue ((handleRequestTimeout c call).run
            ({ st.1 with active := st.1.active.erase call, now := max st.1.now d }, st.2)).2.1 target := by
          unfold NoChallengeDue; rw [h2]; exact h
        obtain ⟨i1, i2, i3⟩ := ih _ h'
        exact ⟨i1.trans h1, i2.trans h2, i3.trans h3⟩

theorem step_adv_no_challenge (c : Cfg) (s : HState) (dt : Nat) (h : NoChallengeDue s (s.now + dt)) :
    (step c s (.adv dt)).1.sessions = s.sessions ∧ (step c s (.adv dt)).1.challenges = s.challenges ∧
    (step c s (.adv dt)).1.rt = s.rt := by
  obtain ⟨h1, h2, h3⟩ := fireTimers_no_challenge c (s.now + dt) 10000 (s, []) h
  exact ⟨h1, h2, h3⟩

/-! ### walk L: live sessions stay live on the timer path -/

abbrev SS := List (NA × Session × Nat)

/-- `sessGetMut c na` would hand out a session from the list `l` at real-time clock `rt`: the first
entry for `na` has not outlived the session timeout. -/
def LiveIn (c : Cfg) (rt : Nat) (l : SS) (na : NA) : Prop :=
  ∃ sess stamp, l.find? (·.1 == na) = some (na, sess, stamp) ∧ ¬ stamp + c.sessionTtl < rt

theorem find_filter_other (l : SS) {na k : NA} (h : na ≠ k) :
    (l.filter (·.1 != k)).find? (·.1 == na) = l.find? (·.1 == na) := by
  induction l with
  | nil => rfl
  | cons a rest ih =>
    simp only [List.filter_cons]
    by_cases hk : (a.1 != k) = true
    · simp only [hk, if_true, List.find?_cons]; rw [ih]
    · simp only [hk, if_false, List.find?_cons]
      have hak : a.1 = k := by simpa using hk
      have : (a.1 == na) = false := by rw [hak]; simp [Ne.symm h]
      rw [this]; exact ih

theorem LiveIn.filter_other {c : Cfg} {rt : Nat} {l : SS} {na k : NA} (h : LiveIn c rt l na) (hk : na ≠ k) :
    LiveIn c rt (l.filter (·.1 != k)) na := by
  obtain ⟨sess, stamp, hf, hl⟩ := h
  exact ⟨sess, stamp, by rw [find_filter_other l hk]; exact hf, hl⟩

theorem LiveIn.append {c : Cfg} {rt : Nat} {l l' : SS} {na : NA} (h : LiveIn c rt l na) :
    LiveIn c rt (l ++ l') na := by
  obtain ⟨sess, stamp, hf, hl⟩ := h
  exact ⟨sess, stamp, by rw [List.find?_append, hf]; rfl, hl⟩

theorem LiveIn.touched (c : Cfg) (rt : Nat) (l : SS) (na : NA) (sess : Session) :
    LiveIn c rt (l.filter (·.1 != na) ++ [(na, sess, rt)]) na := by
  refine ⟨sess, rt, ?_, by omega⟩
  rw [List.find?_append, find_filter_ne]
  simp

theorem LiveIn.put {c : Cfg} {rt : Nat} {l : SS} {na : NA} (h : LiveIn c rt l na) (k : NA) (sess' : Session) :
    LiveIn c rt (l.map (fun e => if e.1 == k then (k, sess', e.2.2) else e)) na := by
  obtain ⟨sess, stamp, hf, hl⟩ := h
  rw [LiveIn, List.find?_map]
  have hcomp : ((fun x : NA × Session × Nat => x.1 == na) ∘
      (fun e : NA × Session × Nat => if e.1 == k then (k, sess', e.2.2) else e)) = (fun x => x.1 == na) := by
    funext e
    by_cases hk : e.1 = k
    · simp [hk]
    · simp [hk]
  rw [hcomp, hf]
  by_cases hk : na = k
  · subst hk; exact ⟨sess', stamp, by simp, hl⟩
  · exact ⟨sess, stamp, by simp [hk], hl⟩

/-- Relative to the state `s0` the running step started from: the real-time clock has not moved and
every address with a live session in `s0` still has a live session. -/
def LS (c : Cfg) (s0 : HState) (st : St) : Prop :=
  st.1.rt = s0.rt ∧ ∀ na, LiveIn c s0.rt s0.sessions na → LiveIn c s0.rt st.1.sessions na


section walkL
variable {c : Cfg} {s0 : HState}

theorem LS_frame {α} {m : M α}
    (h : ∀ st, (m.run st).2.1.sessions = st.1.sessions ∧ (m.run st).2.1.rt = st.1.rt) :
    Ho (LS c s0) m (fun _ => LS c s0) :=
  ⟨fun st hp => ⟨(h st).2.trans hp.1, fun na hn => by rw [(h st).1]; exact hp.2 na hn⟩⟩

theorem LS_modS (f : HState → HState) (h : ∀ s, (f s).sessions = s.sessions ∧ (f s).rt = s.rt) :
    Ho (LS c s0) (modS f) (fun _ => LS c s0) := LS_frame (fun st => h st.1)

theorem LS_setS_pinned {s1 : HState} (s' : HState) (h1 : s'.sessions = s1.sessions) (h2 : s'.rt = s1.rt) :
    Ho (Pin s1 (LS c s0)) (setS s') (fun _ => LS c s0) :=
  Ho.setS _ (fun st hp => ⟨by show s'.rt = _; rw [h2, ← hp.1]; exact hp.2.1,
    fun na hn => by show LiveIn c s0.rt s'.sessions na; rw [h1, ← hp.1]; exact hp.2.2 na hn⟩)

theorem LS_addExpected (a) : Ho (LS c s0) (addExpected a) (fun _ => LS c s0) :=
  LS_modS _ (fun s => by by_cases h : s.exempt.any (·.1 == a) <;> simp [h])

theorem LS_sessGetMut (k : NA) : Ho (LS c s0) (sessGetMut c k) (fun _ => LS c s0) := by
  refine sessGetMut_elim (fun st hp => ⟨fun _ => hp, fun k' sess stamp hf => ⟨fun hx => ?_, fun hx => ?_⟩⟩)
  · refine ⟨hp.1, fun na hn => ?_⟩
    have hl := hp.2 na hn
    by_cases hk : na = k
    · subst hk
      obtain ⟨sess2, stamp2, hf2, hl2⟩ := hl
      rw [hf] at hf2
      simp only [Option.some.injEq, Prod.mk.injEq] at hf2
      obtain ⟨-, -, rfl⟩ := hf2
      rw [hp.1] at hx
      exact absurd hx hl2
    · exact hl.filter_other hk
  · refine ⟨hp.1, fun na hn => ?_⟩
    have hl := hp.2 na hn
    by_cases hk : na = k
    · subst hk
      show LiveIn c s0.rt (st.1.sessions.filter (·.1 != na) ++ [(na, sess, st.1.rt)]) na
      rw [hp.1]; exact LiveIn.touched c _ _ _ _
    · exact (hl.filter_other hk).append

theorem LS_sessPut (k : NA) (sess : Session) : Ho (LS c s0) (sessPut k sess) (fun _ => LS c s0) :=
  Ho.modS _ (fun st hp => ⟨hp.1, fun na hn => (hp.2 na hn).put k sess⟩)

syntax "l_leaf" : tactic
macro_rules | `(tactic| l_leaf) => `(tactic| first
  | with_reducible exact LS_addExpected _ | with_reducible exact LS_sessGetMut _
  | with_reducible exact LS_sessPut _ _
  | exact LS_frame (fun _ => ⟨rfl, rfl⟩)
  | exact LS_modS _ (fun s => by first | exact ⟨rfl, rfl⟩ | (dsimp only; split <;> exact ⟨rfl, rfl⟩))
  | exact LS_setS_pinned _ rfl rfl)
macro_rules | `(tactic| ho_leaf) => `(tactic| l_leaf)

theorem LS_isAwaitingSession (k : NA) : Ho (LS c s0) (isAwaitingSession c k) (fun _ => LS c s0) := by
  unfold isAwaitingSession; ho_walk
macro_rules | `(tactic| l_leaf) => `(tactic| with_reducible exact LS_isAwaitingSession _)

theorem LS_sendRequest (ct : Contact) (rid i b) :
    Ho (LS c s0) (sendRequest c ct rid i b) (fun _ => LS c s0) := by
  unfold sendRequest; ho_walk
macro_rules | `(tactic| l_leaf) => `(tactic| with_reducible exact LS_sendRequest _ _ _ _)

theorem LS_sendPendingRequests (k : NA) : Ho (LS c s0) (sendPendingRequests c k) (fun _ => LS c s0) := by
  unfold sendPendingRequests; ho_walk


theorem LS_handleRequestTimeout (call : Call) :
    Ho (LS c s0) (handleRequestTimeout c call) (fun _ => LS c s0) :=
  LS_frame (fun st => ⟨(handleRequestTimeout_frame c call st).1, (handleRequestTimeout_frame c call st).2.2.1⟩)
macro_rules | `(tactic| l_leaf) => `(tactic| with_reducible first
  | exact LS_sendPendingRequests _ | exact LS_handleRequestTimeout _)

theorem LS_fireTimers (target fuel : Nat) :
    Ho (LS c s0) (fireTimers c target fuel) (fun _ => LS c s0) := by
  induction fuel with
  | zero => unfold fireTimers; exact Ho.pureI _
  | succ n ih => unfold fireTimers; ho_walk <;> exact ih
macro_rules | `(tactic| l_leaf) => `(tactic| with_reducible exact LS_fireTimers _ _)

end walkL

/-- One timer step (`adv dt`), whatever timers fire in it: the real-time clock stands still and every
address that had a live session still has one. -/
theorem step_adv_keeps_live (c : Cfg) (s : HState) (dt : Nat) :
    (step c s (.adv dt)).1.rt = s.rt ∧
    ∀ na, LiveIn c s.rt s.sessions na → LiveIn c s.rt (step c s (.adv dt)).1.sessions na := by
  have h : Ho (LS c s) (stepM c (.adv dt)) (fun _ => LS c s) := by
    simp only [stepM]; ho_walk
  exact h.out (s, []) ⟨rfl, fun _ hn => hn⟩

/-- Context: every session is, for its address, a session of `s0` up to the message counter and the
"awaiting ENR" mark. -/
def ctxS (s0 : HState) : HI.Ctx where
  GN := fun _ => True
  GS := fun na sess => ∃ e ∈ s0.sessions, e.1 = na ∧ e.2.1.keys = sess.keys ∧ e.2.1.oldKeys = sess.oldKeys
  SL := fun _ => True
  GC := fun _ => True
  GPk := fun _ => True
  GO := fun _ => True
  F := fun _ _ => True
  gs_gn := fun _ _ _ => trivial
  gs_counter := fun _ _ _ h => h
  gs_await := fun _ _ h => h
  gc_gn := fun _ _ => trivial
  go_est_contact := fun _ _ _ _ _ => trivial
  gpk_msg := fun _ _ _ => trivial
  gpk_hs := fun _ _ _ _ _ _ => trivial
  go_failed := fun _ _ => trivial
  go_expired := fun _ => trivial
  go_wru := fun _ _ => trivial
  go_send := fun _ _ _ => trivial
  go_request := fun _ _ _ _ => trivial
  go_response := fun _ _ _ _ => trivial
  go_est := fun _ _ _ _ _ => trivial
  go_unv := fun _ _ _ => trivial
  sl_filter := fun _ _ _ => trivial
  sl_insert := fun _ _ _ => trivial
  sl_suffix := fun _ _ _ => trivial

/-- A timer step neither creates nor re-keys a session. -/
theorem step_adv_no_new_session (c : Cfg) (s : HState) (dt : Nat) :
    ∀ e' ∈ (step c s (.adv dt)).1.sessions,
      ∃ e ∈ s.sessions, e.1 = e'.1 ∧ e.2.1.keys = e'.2.1.keys ∧ e.2.1.oldKeys = e'.2.1.oldKeys := by
  have h0 : HI.Inv (ctxS s) (s, []) :=
    ⟨fun e he => ⟨e, he, rfl, rfl, rfl⟩, trivial, fun _ _ => ⟨trivial, trivial⟩,
      fun _ _ _ _ => trivial, fun _ ho => (by cases ho), trivial⟩
  exact ((HI.spec_stepM_adv (X := ctxS s) c dt (fun _ _ _ _ => trivial)).step h0).sess

/-! ### the application's response -/

/-- `HandlerIn::Response(node_address, response)` → `send_response`: the branch of `stepM`. -/
def sendResponse (c : Cfg) (na : NA) (rid : Nat) (rb : RespBody) : M Unit := do
  match ← sessGetMut c na with
  | some sess =>
    let (sess', p) ← encryptMessage c sess (.response rid rb)
    sessPut na sess'
    send na p
  | none => pure ()

theorem stepM_appResponse (c : Cfg) (na : NA) (rid : Nat) (rb : RespBody) :
    stepM c (.appResponse na rid rb) = sendResponse c na rid rb := rfl

/-- The packet `encryptMessage` makes for plaintext `pt` under session `sess` when the nonce counter
stands at `k`. -/
def sealedPkt (c : Cfg) (sess : Session) (k : Nat) (pt : Msg) : Pkt :=
  .message c.localId (mkName c (k + 1)) (.enc sess.keys.enc (mkName c (k + 1)) (sess.counter + 1) pt true)

theorem map_put_touch (l : List (NA × Session × Nat)) (na : NA) (sess sess' : Session) (rt : Nat) :
    (l.filter (·.1 != na) ++ [(na, sess, rt)]).map (fun e => if e.1 == na then (na, sess', e.2.2) else e) =
      l.filter (·.1 != na) ++ [(na, sess', rt)] := by
  rw [List.map_append]
  congr 1
  · rw [List.map_congr_left (g := id), List.map_id]
    intro e he
    have := (List.mem_filter.1 he).2
    have hne : (e.1 == na) = false := by simpa using this
    simp [hne]
  · simp

theorem sendResponse_live_run (c : Cfg) (na : NA) (rid : Nat) (rb : RespBody) (st : St) (sess : Session)
    (h : ((sessGetMut c na).run st).1 = some sess) :
    (sendResponse c na rid rb).run st =
      ((), ({ st.1 with
              sessions := st.1.sessions.filter (·.1 != na) ++
                [(na, { sess with counter := sess.counter + 1 }, st.1.rt)],
              fresh := { st.1.fresh with nonce := st.1.fresh.nonce + 1 } },
        st.2 ++ [Out.send na (sealedPkt c sess st.1.fresh.nonce (.response rid rb))])) := by
  obtain ⟨stamp, hfind, hlive⟩ := (AT.sessGetMut_some_iff c na st sess).1 h
  have hrun : (sessGetMut c na).run st =
      (some sess, ({ st.1 with sessions := st.1.sessions.filter (·.1 != na) ++ [(na, sess, st.1.rt)] }, st.2)) := by
    unfold sessGetMut
    simp only [run_bind, run_getS, hfind, hlive, if_false, run_setS, run_pure]
  unfold sendResponse
  simp only [run_bind, hrun, encryptMessage_run, sessPut, run_modS, run_send, map_put_touch]
  rfl

theorem sendResponse_none_run (c : Cfg) (na : NA) (rid : Nat) (rb : RespBody) (st : St)
    (h : ((sessGetMut c na).run st).1 = none) :
    (sendResponse c na rid rb).run st = ((), ((sessGetMut c na).run st).2) := by
  unfold sendResponse
  simp only [run_bind, h, run_pure]

theorem sessGetMut_none_run (c : Cfg) (na : NA) (st : St) (h : ((sessGetMut c na).run st).1 = none) :
    (sessGetMut c na).run st = (none, ({ st.1 with sessions := st.1.sessions.filter (·.1 != na) }, st.2)) := by
  revert h
  unfold sessGetMut
  simp only [run_bind, run_getS]
  cases hf : st.1.sessions.find? (·.1 == na) with
  | none =>
    intro _
    simp only [run_pure]
    rw [filter_ne_of_find_none _ _ hf]
  | some e =>
    obtain ⟨k, sess, stamp⟩ := e
    simp only []
    by_cases hx : stamp + c.sessionTtl < st.1.rt
    · simp only [hx, if_true, run_bind, run_setS, run_pure]; intro _; trivial
    · simp only [hx, if_false, run_bind, run_setS, run_pure]; intro h; cases h

theorem sendResponse_none_run' (c : Cfg) (na : NA) (rid : Nat) (rb : RespBody) (st : St)
    (h : ((sessGetMut c na).run st).1 = none) :
    (sendResponse c na rid rb).run st =
      ((), ({ st.1 with sessions := st.1.sessions.filter (·.1 != na) }, st.2)) := by
  rw [sendResponse_none_run c na rid rb st h, sessGetMut_none_run c na st h]

/-! ### a request queued behind an open challenge -/

/-- The pending queue with one more request for `contact.na`. -/
def pushPending (pending : List (NA × List PendingReq)) (contact : Contact) (rid : Nat) (internal : Bool)
    (body : Nat) : List (NA × List PendingReq) :=
  let pr : PendingReq := { contact := contact, rid := rid, internal := internal, body := body }
  if pending.any (·.1 == contact.na) then
    pending.map (fun e => if e.1 == contact.na then (e.1, e.2 ++ [pr]) else e)
  else pending ++ [(contact.na, [pr])]

theorem sendRequest_challenge_run (c : Cfg) (contact : Contact) (rid : Nat) (internal : Bool) (body : Nat)
    (st : St) (hself : c.listen.contains contact.na.addr = false)
    (hch : st.1.challenges.any (·.1 == contact.na) = true) :
    (sendRequest c contact rid internal body).run st =
      (none, ({ st.1 with pending := pushPending st.1.pending contact rid internal body }, st.2)) := by
  rw [sendRequest_eq]
  simp only [hself, Bool.false_eq_true, if_false, run_bind, run_getS, hch, if_true]
  unfold srQueue pushPending
  simp only [run_bind, run_modS, run_pure]
  split <;> rfl

/-! ### the cache view of answering -/
open HL in
/-- `sendResponse` acts on the session cache as `LruTimeCache::get_mut` at the real-time clock whose
reference is used to bump the message counter. -/
theorem sendResponse_refines (c : Cfg) (na : NA) (rid : Nat) (rb : RespBody) (s : HState) (os : List Out) :
    toCache c ((sendResponse c na rid rb).run (s, os)).2.1 =
      (Lru.getMutWith (toCache c s) s.rt na (fun v => { v with counter := v.counter + 1 })).1 := by
  obtain ⟨h1, h2, -, -⟩ := sessGetMut_refines c na s os
  cases hr : ((sessGetMut c na).run (s, os)).1 with
  | none =>
    rw [sendResponse_none_run c na rid rb (s, os) hr, getMutWith_miss_eq _ _ _ _ (h1 ▸ hr), ← h2]
  | some sess =>
    rw [sendResponse_live_run c na rid rb (s, os) sess hr,
      getMutWith_hit_eq_put _ _ _ _ sess (h1 ▸ hr), ← h2]
    obtain ⟨stamp, hfind, hlive⟩ := (AT.sessGetMut_some_iff c na (s, os) sess).1 hr
    have hrun : (sessGetMut c na).run (s, os) =
        (some sess, ({ s with sessions := s.sessions.filter (·.1 != na) ++ [(na, sess, s.rt)] }, os)) := by
      unfold sessGetMut
      simp only [run_bind, run_getS, hfind, hlive, if_false, run_setS, run_pure]
    rw [hrun]
    show ({ map := toMap (s.sessions.filter (·.1 != na) ++ [(na, { sess with counter := sess.counter + 1 }, s.rt)]),
            ttl := c.sessionTtl, capacity := c.sessionCap } : Lru.Cache NA Session) =
         { map := putVal (toMap (s.sessions.filter (·.1 != na) ++ [(na, sess, s.rt)])) na
              { sess with counter := sess.counter + 1 },
           ttl := c.sessionTtl, capacity := c.sessionCap }
    rw [← map_put_touch s.sessions na sess _ s.rt, toMap_put]

/-- The request has been appended to the queue kept for its contact's address. -/
theorem queuedFor_pushPending (s : HState) (contact : Contact) (rid : Nat) (internal : Bool) (body : Nat) :
    queuedFor { s with pending := pushPending s.pending contact rid internal body } contact.na =
      queuedFor s contact.na ++ [{ contact := contact, rid := rid, internal := internal, body := body }] := by
  unfold queuedFor pushPending
  simp only []
  by_cases ha : s.pending.any (·.1 == contact.na) = true
  · rw [if_pos ha, List.find?_map]
    have hcomp : ((fun x : NA × List PendingReq => x.1 == contact.na) ∘
        (fun e : NA × List PendingReq => if e.1 == contact.na then
          (e.1, e.2 ++ [({ contact := contact, rid := rid, internal := internal, body := body } : PendingReq)])
          else e)) = (fun x => x.1 == contact.na) := by
      funext e
      by_cases hk : e.1 = contact.na <;> simp [hk]
    rw [hcomp]
    cases hf : s.pending.find? (·.1 == contact.na) with
    | none =>
      rw [List.any_eq_true] at ha
      obtain ⟨x, hx, hxe⟩ := ha
      exact absurd hxe (by simpa using List.find?_eq_none.1 hf x hx)
    | some e =>
      have := List.find?_some hf
      simp only [Option.map_some, this, if_true]
  · rw [if_neg ha]
    have hnone : s.pending.find? (·.1 == contact.na) = none := by
      rw [List.find?_eq_none]
      intro x hx hxe
      exact ha (List.any_eq_true.2 ⟨x, hx, hxe⟩)
    rw [List.find?_append, hnone]
    simp

/-- "`sessGetMut` would hand out a session" in terms of `sessGetMut` itself. -/
theorem liveIn_iff (c : Cfg) (s : HState) (os : List Out) (na : NA) :
    LiveIn c s.rt s.sessions na ↔ ∃ sess, ((sessGetMut c na).run (s, os)).1 = some sess := by
  constructor
  · rintro ⟨sess, stamp, hf, hl⟩
    exact ⟨sess, (AT.sessGetMut_some_iff c na (s, os) sess).2 ⟨stamp, hf, hl⟩⟩
  · rintro ⟨sess, h⟩
    obtain ⟨stamp, hf, hl⟩ := (AT.sessGetMut_some_iff c na (s, os) sess).1 h
    exact ⟨sess, stamp, hf, hl⟩
end Discv5.H.SU

/-
Who gets banned by a service step (`PERMIT_BAN_LIST.write().ban(node_address, _)` in
`handle_rpc_response`).

`bans outs` are the `(node id, address)` pairs banned by a list of outputs.  One lemma per handler
of `Model/Service.lean`: every handler except the NODES arm of `handleResponse` emits no ban, and the
NODES arm bans at most the sender of the response (`handleResponse_nodes_bans`).
-/
import Discv5Model.Model.Service
import Discv5Model.Proofs.ServiceNodes

namespace Discv5.Svc
open Discv5.KB Discv5.Svc.Svc

/-- The `(node id, address)` pairs banned by a list of outputs. -/
def bans (outs : List Out) : List (Nat × Addr) :=
  outs.filterMap fun
    | .ban p a => some (p, a)
    | _ => none

theorem bans_nil : bans [] = [] := rfl

theorem bans_append (a b : List Out) : bans (a ++ b) = bans a ++ bans b := by
  unfold bans; exact List.filterMap_append

theorem bans_request (id peer : Nat) (addr : Addr) (body : ReqBody) (l : List Out) :
    bans (.request id peer addr body :: l) = bans l := rfl

theorem bans_response (peer : Nat) (addr : Addr) (rid : Bytes) (body : RespBody) (l : List Out) :
    bans (.response peer addr rid body :: l) = bans l := rfl

theorem bans_whoAreYou (peer : Nat) (addr : Addr) (known : Option Rec) (l : List Out) :
    bans (.whoAreYou peer addr known :: l) = bans l := rfl

theorem bans_event (e : Ev) (l : List Out) : bans (.event e :: l) = bans l := rfl

theorem bans_callback (id : Nat) (r : CbRes) (l : List Out) : bans (.callback id r :: l) = bans l := rfl

theorem bans_ban (p : Nat) (a : Addr) (l : List Out) : bans (.ban p a :: l) = (p, a) :: bans l := rfl

theorem mem_bans {p : Nat} {a : Addr} {outs : List Out} : (p, a) ∈ bans outs ↔ Out.ban p a ∈ outs := by
  induction outs with
  | nil => simp [bans_nil]
  | cons x l ih =>
    cases x with
    | ban q b =>
      rw [bans_ban, List.mem_cons, List.mem_cons, ih]
      constructor
      · rintro (h | h)
        · left; injection h with h1 h2; rw [h1, h2]
        · right; exact h
      · rintro (h | h)
        · left; injection h with h1 h2; rw [h1, h2]
        · right; exact h
    | request => rw [bans_request, ih]; simp
    | response => rw [bans_response, ih]; simp
    | whoAreYou => rw [bans_whoAreYou, ih]; simp
    | event => rw [bans_event, ih]; simp
    | callback => rw [bans_callback, ih]; simp

theorem not_mem_of_bans_nil {outs : List Out} (h : bans outs = []) (p : Nat) (a : Addr) :
    Out.ban p a ∉ outs := by
  intro hm
  have := mem_bans.2 hm
  rw [h] at this
  cases this

/-! ### Handlers that never ban -/

theorem sendRpcRequest_bans (s : Svc) (peer : Nat) (addr : Addr) (body : ReqBody) (q : Option Nat)
    (cb : Bool) : bans (s.sendRpcRequest peer addr body q cb).2 = [] := rfl

theorem sendPing_bans (s : Svc) (r : Rec) (cb : Bool) : bans (s.sendPing r cb).2 = [] := by
  unfold sendPing
  split
  · exact sendRpcRequest_bans ..
  · rfl

theorem ite_bans {c : Prop} [Decidable c] (a b : Svc × List Out) (ha : bans a.2 = [])
    (hb : bans b.2 = []) : bans (if c then a else b).2 = [] := by
  split <;> assumption

theorem connectionUpdated_bans (s : Svc) (o : Oracle) (nodeId : Nat) (cs : ConnStatus) :
    bans (s.connectionUpdated o nodeId cs).2 = [] := by
  cases cs with
  | pongReceived => rfl
  | disconnected => rfl
  | connected r incoming =>
    unfold connectionUpdated
    simp only
    split
    · show bans (_ ++ _) = []
      rw [bans_append, ite_bans _ _ (sendPing_bans ..) rfl]; rfl
    · split
      · exact sendPing_bans ..
      · rfl
    · exact ite_bans _ _ (sendPing_bans ..) rfl
    · rfl

theorem injectSessionEstablished_bans (s : Svc) (o : Oracle) (r : Rec) (addr : Addr) (incoming : Bool) :
    bans (s.injectSessionEstablished o r addr incoming).2 = [] := by
  unfold injectSessionEstablished
  simp only
  split
  · rfl
  split
  · rfl
  show bans (_ ++ _) = []
  rw [bans_append, connectionUpdated_bans]; rfl

theorem discoveredOne_bans (s : Svc) (source : Nat) (r : Rec) :
    bans (s.discoveredOne source r).2.2 = [] := by
  unfold discoveredOne
  split
  · rfl
  simp only
  have hev : bans (if s.cfg.reportDiscovered then [Out.event (.discovered r)] else []) = [] := by
    split <;> rfl
  generalize s.entry r.id = x
  obtain ⟨s1, l⟩ := x
  simp only
  cases l <;> simp only <;> repeat' split
  all_goals first
    | exact hev
    | rfl

theorem discoveredLoop_bans (source : Nat) :
    ∀ (recs : List Rec) (s : Svc) (kept : List Rec) (outs : List Out), bans outs = [] →
      bans (discoveredLoop s source recs kept outs).2.2 = [] := by
  intro recs
  induction recs with
  | nil => intro s kept outs h; unfold discoveredLoop; exact h
  | cons r rs ih =>
    intro s kept outs h
    rw [discoveredLoop_cons]
    apply ih
    rw [bans_append, h, discoveredOne_bans]; rfl

theorem discovered_bans (s : Svc) (source : Nat) (recs : List Rec) (q : Option Nat) :
    bans (s.discovered source recs q).2 = [] := by
  unfold discovered
  have h1 := discoveredLoop_bans source recs s [] [] rfl
  generalize discoveredLoop s source recs [] [] = x at h1 ⊢
  obtain ⟨s1, kept, outs⟩ := x
  simp only at h1 ⊢
  repeat' split
  all_goals exact h1

theorem bans_map_response (peer : Nat) (addr : Addr) (rid : Bytes) (total : Nat)
    (ps : List (List Rec)) :
    bans (ps.map fun p => Out.response peer addr rid (.nodes total p)) = [] := by
  induction ps with
  | nil => rfl
  | cons p ps ih => rw [List.map_cons, bans_response, ih]

theorem sendNodesResponse_bans (s : Svc) (peer : Nat) (addr : Addr) (rid : Bytes) (ds : List Nat) :
    bans (s.sendNodesResponse peer addr rid ds).2 = [] := by
  rw [sendNodesResponse_out]
  exact bans_map_response ..

theorem handleRequest_bans (s : Svc) (peer : Nat) (addr : Addr) (rid : Bytes) (body : ReqBody) :
    bans (s.handleRequest peer addr rid body).2 = [] := by
  cases body with
  | findNode ds => unfold handleRequest; exact sendNodesResponse_bans ..
  | talk p q => rfl
  | ping enrSeq =>
    unfold handleRequest
    simp only
    show bans (_ ++ _) = []
    rw [bans_append]
    have h2 : ∀ (b : RespBody), bans (if (addr.port != 0) = true then
        [Out.response peer addr rid b] else []) = [] := by
      intro x; split <;> rfl
    rw [h2, List.append_nil]
    split
    · split
      · exact sendRpcRequest_bans ..
      · rfl
    · rfl

theorem ipVote_bans (s : Svc) (o : Oracle) (peer : Nat) : bans (s.ipVote o peer).2 = [] := by
  unfold ipVote
  split
  · rfl
  split
  · rfl
  simp only
  repeat' split
  all_goals rfl

theorem unverifiable_bans (s : Svc) (id : Nat) : bans (s.unverifiable id).2 = [] := rfl

theorem whoAreYou_bans (s : Svc) (peer : Nat) (addr : Addr) : bans (s.whoAreYou peer addr).2 = [] := rfl

theorem sendRpcQuery_bans (s : Svc) (peer : Nat) : bans (s.sendRpcQuery peer).2 = [] := by
  unfold sendRpcQuery
  split
  · rfl
  generalize s.findEnr peer = x
  obtain ⟨s1, known⟩ := x
  simp only
  split
  · split
    · exact sendRpcRequest_bans ..
    · rfl
  · rfl

theorem rpcFailure_bans (s : Svc) (o : Oracle) (id : Nat) : bans (s.rpcFailure o id).2 = [] := by
  unfold rpcFailure
  generalize s.removeActive id = x
  obtain ⟨s0, oreq⟩ := x
  cases oreq with
  | none => rfl
  | some req =>
    simp only
    split
    · rfl
    show bans (_ ++ _) = []
    rw [bans_append, connectionUpdated_bans, List.append_nil]
    split
    · split
      · split
        · exact discovered_bans ..
        · rfl
      · rfl
    · rfl

/-! ### Responses -/

/-- The request a response is matched against: the first active request with that id. -/
def activeReq (s : Svc) (id : Nat) : Option ActiveReq := s.active.find? (fun a => a.id == id)

theorem activeReq_mem {s : Svc} {id : Nat} {req : ActiveReq} (h : activeReq s id = some req) :
    req ∈ s.active ∧ req.id = id := by
  unfold activeReq at h
  refine ⟨List.mem_of_find?_eq_some h, ?_⟩
  have := List.find?_some h
  simpa using this

theorem removeActive_snd (s : Svc) (id : Nat) : (s.removeActive id).2 = activeReq s id := by
  unfold removeActive activeReq
  cases s.active.find? (fun a => a.id == id) <;> rfl

/-- A PONG or TALK response never bans. -/
theorem handleResponse_other_bans (s : Svc) (o : Oracle) (peer : Nat) (addr : Addr) (id : Nat)
    (body : RespBody) (hb : ∀ total recs, body ≠ .nodes total recs) :
    bans (s.handleResponse o peer addr id body).2 = [] := by
  unfold handleResponse
  generalize s.removeActive id = x
  obtain ⟨s0, oreq⟩ := x
  cases oreq with
  | none => rfl
  | some req =>
    have hd : bans (if req.callback then [Out.callback id .err] else []) = [] := by
      split <;> rfl
    simp only
    split
    · exact hd
    split
    · exact hd
    cases body with
    | nodes total recs => exact absurd rfl (hb total recs)
    | talk resp =>
      simp only
      split <;> rfl
    | pong enrSeq observed =>
      simp only
      split
      · rfl
      have h1 := ipVote_bans s0 o peer
      generalize s0.ipVote o peer = y at h1 ⊢
      obtain ⟨s1, o1⟩ := y
      simp only at h1 ⊢
      generalize s1.findEnr peer = z
      obtain ⟨s2, known⟩ := z
      cases known with
      | none => exact h1
      | some r =>
        simp only
        have h2 : bans (if r.seq < enrSeq then
            s2.sendRpcRequest req.peer req.addr (.findNode [Consts.ENR_REQUEST_DISTANCE]) none false
            else (s2, [])).2 = [] := by
          split
          · exact sendRpcRequest_bans ..
          · rfl
        generalize (if r.seq < enrSeq then
          s2.sendRpcRequest req.peer req.addr (.findNode [Consts.ENR_REQUEST_DISTANCE]) none false
          else (s2, [])) = w at h2 ⊢
        obtain ⟨s3, o2⟩ := w
        simp only at h2 ⊢
        have h3 : bans (if contactable s3.cfg.ipMode r then s3.connectionUpdated o peer .pongReceived
            else (s3, [])).2 = [] := by
          split
          · exact connectionUpdated_bans ..
          · rfl
        generalize (if contactable s3.cfg.ipMode r then s3.connectionUpdated o peer .pongReceived
          else (s3, [])) = u at h3 ⊢
        obtain ⟨s4, o3⟩ := u
        simp only at h3 ⊢
        rw [bans_append, bans_append, h1, h2, h3]; rfl

/-- The decision of the NODES arm: the response answers the active request `id`, it comes from the
node and the address the request was sent to, the request is a FINDNODE without a user-level
callback, and the distance filter says "ban". -/
def banDecision (s : Svc) (peer : Nat) (addr : Addr) (id : Nat) (recs : List Rec) : Bool :=
  match activeReq s id with
  | some req =>
    match req.body with
    | .findNode ds =>
      req.peer == peer && req.addr == addr && !req.callback && (acceptNodes peer ds recs).2
    | _ => false
  | none => false

/-- A NODES response bans nobody or exactly its sender, as `banDecision` says. -/
theorem handleResponse_nodes_bans (s : Svc) (o : Oracle) (peer : Nat) (addr : Addr) (id total : Nat)
    (recs : List Rec) :
    bans (s.handleResponse o peer addr id (.nodes total recs)).2 =
      if banDecision s peer addr id recs then [(peer, addr)] else [] := by
  unfold handleResponse banDecision
  rw [← removeActive_snd]
  generalize s.removeActive id = x
  obtain ⟨s0, oreq⟩ := x
  cases oreq with
  | none => rfl
  | some req =>
    have hd : bans (if req.callback then [Out.callback id .err] else []) = [] := by
      split <;> rfl
    obtain ⟨rid, rpeer, raddr, rbody, rq, rcb⟩ := req
    simp only at hd ⊢
    by_cases h1 : (rpeer != peer || raddr != addr) = true
    · rw [if_pos h1, hd]
      have : (rpeer == peer && raddr == addr) = false := by
        cases hp : rpeer == peer <;> cases ha : raddr == addr <;> simp_all
      cases rbody <;> simp [this]
    rw [if_neg h1]
    have h1' : (rpeer == peer && raddr == addr) = true := by
      cases hp : rpeer == peer <;> cases ha : raddr == addr <;> simp_all
    cases rbody with
    | ping e => simp [RespBody.matchRequest, hd]
    | talk p q => simp [RespBody.matchRequest, hd]
    | findNode ds =>
      rw [if_neg (by simp [RespBody.matchRequest])]
      simp only
      by_cases h3 : rcb = true
      · rw [if_pos h3]
        simp [h3, bans_callback, bans_nil]
      rw [if_neg h3]
      have h3' : rcb = false := by simpa using h3
      simp only [h1', h3', Bool.not_false, Bool.true_and]
      have hb : bans (if (acceptNodes peer ds recs).2 = true then [Out.ban peer addr] else []) =
          if (acceptNodes peer ds recs).2 = true then [(peer, addr)] else [] := by
        cases (acceptNodes peer ds recs).2 <;> rfl
      split
      · exact hb
      · show bans (_ ++ _) = _
        rw [bans_append, hb, discovered_bans, List.append_nil]

/-! ### One step -/

/-- Every input other than a NODES response bans nobody. -/
theorem step_bans_other (s : Svc) (o : Oracle) (i : Svc.Input)
    (hi : ∀ p a id total recs, i ≠ .response p a id (.nodes total recs)) :
    bans (s.step o i).2 = [] := by
  cases i with
  | established r addr incoming => exact injectSessionEstablished_bans ..
  | request peer addr rid body => exact handleRequest_bans ..
  | response peer addr id body =>
    exact handleResponse_other_bans s o peer addr id body
      (fun total recs h => hi peer addr id total recs (by rw [h]))
  | requestFailed id => exact rpcFailure_bans s o id
  | unverifiable id => exact unverifiable_bans ..
  | whoAreYou peer addr => exact whoAreYou_bans ..
  | addEnr r => rfl
  | removeNode id => rfl
  | apiPing r => exact sendPing_bans ..
  | apiFindNode r ds =>
    simp only [step]
    split
    · exact sendRpcRequest_bans ..
    · rfl
  | apiTalk r p q =>
    simp only [step]
    split
    · exact sendRpcRequest_bans ..
    · rfl
  | startQuery target => rfl
  | queryEmit peer => exact sendRpcQuery_bans ..
  | queryFinished => rfl

theorem run_nil (s : Svc) : s.run [] = (s, []) := rfl

theorem run_cons (s : Svc) (o : Oracle) (i : Svc.Input) (rest : List (Oracle × Svc.Input)) :
    s.run ((o, i) :: rest) =
      (((s.step o i).1.run rest).1, (s.step o i).2 ++ ((s.step o i).1.run rest).2) := rfl

theorem run_append (l1 : List (Oracle × Svc.Input)) : ∀ (s : Svc) (l2 : List (Oracle × Svc.Input)),
    s.run (l1 ++ l2) = (((s.run l1).1.run l2).1, (s.run l1).2 ++ ((s.run l1).1.run l2).2) := by
  induction l1 with
  | nil => intro s l2; rfl
  | cons x l1 ih =>
    intro s l2
    obtain ⟨o, i⟩ := x
    rw [List.cons_append, run_cons, ih, run_cons, List.append_assoc]

end Discv5.Svc

/-
Model of `ClosestBucketsIter`, `ClosestIter` (`closest_keys/values/values_predicate`) and
`nodes_by_distances` of `src/kbucket.rs`.
-/
import Discv5Model.Model.KBucket

namespace Discv5.KB

/-! ### `ClosestBucketsIter` as the state machine of the Rust code -/

inductive CState where
  | start (i : Nat) | zoomIn (i : Nat) | zoomOut (i : Nat) | done
  deriving Repr, DecidableEq

/-- `next_in`: the highest index below `i` whose bit is set in the distance. -/
def nextIn (d i : Nat) : Option Nat := (List.range i).reverse.find? (fun j => d.testBit j)

/-- `next_out`: the lowest index above `i` (below `NUM_BUCKETS`) whose bit is clear. -/
def nextOut (d i : Nat) : Option Nat :=
  (List.range' (i + 1) (numBuckets - (i + 1))).find? (fun j => !d.testBit j)

def cInit (d : Nat) : CState := .start (if d = 0 then 0 else d.log2)

/-- `ClosestBucketsIter::next`. -/
def cNext (d : Nat) : CState → Option Nat × CState
  | .start i => (some i, .zoomIn i)
  | .zoomIn i =>
    match nextIn d i with
    | some j => (some j, .zoomIn j)
    | none =>
      if d.testBit 0 || d = 0 then
        match nextOut d 0 with
        | some j => (some j, .zoomOut j)
        | none => (none, .done)
      else (some 0, .zoomOut 0)
  | .zoomOut i =>
    match nextOut d i with
    | some j => (some j, .zoomOut j)
    | none => (none, .done)
  | .done => (none, .done)

/-- Runs the iterator to exhaustion (`fuel` bounds the number of `next` calls). -/
def cRun (d : Nat) : Nat → CState → List Nat
  | 0, _ => []
  | fuel + 1, s =>
    match cNext d s with
    | (some i, s') => i :: cRun d fuel s'
    | (none, _) => []

/-- The sequence of bucket indices visited for distance `d` (at most 257 `next` calls yield). -/
def bucketOrder (d : Nat) : List Nat := cRun d (numBuckets + 2) (cInit d)

/-! ### `ClosestIter` -/

variable {V : Type} [DecidableEq V]

def sortByDist (target : Nat) (ns : List (Node V)) : List (Node V) :=
  ns.mergeSort (fun a b => decide ((a.key ^^^ target) ≤ (b.key ^^^ target)))

/-- `closest_values(target)` run to exhaustion: buckets in `bucketOrder`, each bucket's pending
node applied when the bucket is reached, its nodes sorted by distance to the target. -/
def Table.closest (c : Cfg V) (now : Nat) (t0 : Table V) (target : Nat) : Table V × List (Node V) :=
  (bucketOrder (t0.localKey ^^^ target)).foldl
    (fun (acc : Table V × List (Node V)) i =>
      let t1 := Table.applyAt c now acc.1 i
      (t1, acc.2 ++ sortByDist target (t1.bucket i).nodes))
    (t0.bump, [])

/-- `closest_values_predicate`: same sequence, each element flagged with the predicate. -/
def Table.closestPred (c : Cfg V) (now : Nat) (t0 : Table V) (target : Nat) (pred : V → Bool) :
    Table V × List (Node V × Bool) :=
  let (t, ns) := Table.closest c now t0 target
  (t, ns.map fun n => (n, pred n.value))

/-! ### `nodes_by_distances` -/

def validDistances (ds : List Nat) : List Nat := ds.filter (fun d => d > 0 && d ≤ numBuckets)

/-- The pending-application loop of `nodes_by_distances` (stops early once enough nodes were seen
in buckets whose pending node was applied). -/
def applyForDistances (c : Cfg V) (now : Nat) (maxNodes : Nat) :
    List Nat → Table V → Nat → Table V
  | [], t, _ => t
  | d :: ds, t, count =>
    let i := d - 1
    let (b, a) := (t.bucket i).applyPending c now t.tick
    match a with
    | some a =>
      let t' := { t.setBucket i b with applied := t.applied ++ [a] }
      let count' := count + b.nodes.length
      if count' ≥ maxNodes then t' else applyForDistances c now maxNodes ds t' count'
    | none => applyForDistances c now maxNodes ds (t.setBucket i b) count

/-- The collection loop: push, then stop as soon as `len ≥ max_nodes`. -/
def collectUpTo (maxNodes : Nat) : List (Node V) → List (Node V) → List (Node V)
  | [], acc => acc
  | n :: ns, acc =>
    let acc' := acc ++ [n]
    if acc'.length ≥ maxNodes then acc' else collectUpTo maxNodes ns acc'

/-- `KBucketsTable::nodes_by_distances`. -/
def Table.nodesByDistances (c : Cfg V) (now : Nat) (t0 : Table V) (ds : List Nat) (maxNodes : Nat) :
    Table V × List (Node V) :=
  let dist := validDistances ds
  let t := applyForDistances c now maxNodes dist t0.bump 0
  (t, collectUpTo maxNodes (dist.flatMap fun d => (t.bucket (d - 1)).nodes) [])

end Discv5.KB

/-
Model of `src/socket/filter/rate_limiter.rs`: the GCRA limiter `Limiter<Key>` keyed by an abstract
key, and the three-quota `RateLimiter`.

Transliteration rules: `Nanosecs = u64`; `Duration::as_nanos() as u64` is `% 2^64`; the harness is
built in release mode (no overflow checks), so `+` and `*` on `u64` wrap (`% 2^64`);
`saturating_sub` is `Nat` subtraction; the hash map `tat_per_key` is a finite-support function
`κ → Option Nat` (no iteration order is observable: `retain` is pointwise); `init_time.elapsed()`
is an explicit argument.
-/
import Discv5Model.Gen.Consts

namespace Discv5.Limiter

/-- `2^64` (`Nanosecs = u64`). -/
def U64 : Nat := 18446744073709551616

/-- `Result<(), RateLimitedErr>`; `tooSoon` carries the reported wait in nanoseconds. -/
inductive Verdict where
  | ok
  | tooLarge
  | tooSoon (wait : Nat)
deriving DecidableEq, Repr

def Verdict.isOk : Verdict → Bool
  | .ok => true
  | _ => false

/-- `struct Limiter<Key>`: `tau`, `t` and the TAT table. -/
structure Limiter (κ : Type) where
  tau : Nat
  t : Nat
  tat : κ → Option Nat

variable {κ : Type} [DecidableEq κ]

/-- `Limiter::from_quota(Quota { replenish_all_every, max_tokens })`, the period given in
nanoseconds (`Duration::as_nanos() : u128`). `none` = `Err(_)`. -/
def fromQuota (maxTokens periodNs : Nat) : Option (Limiter κ) :=
  if maxTokens = 0 then none
  else
    let tau := periodNs
    if tau = 0 then none
    else
      let t := tau / maxTokens
      if t ≥ U64 then none          -- `(tau / max_tokens).try_into::<u64>()`
      else if tau ≥ U64 then none   -- `tau.try_into::<u64>()`
      else some { tau := tau, t := t, tat := fun _ => none }

/-- Table update `map[key] = v`. -/
def setTat (f : κ → Option Nat) (key : κ) (v : Nat) : κ → Option Nat :=
  fun k => if k = key then some v else f k

/-- `Limiter::allows(time_since_start, key, tokens)`; `ns` is `time_since_start.as_nanos()`. -/
def Limiter.allows (l : Limiter κ) (ns : Nat) (key : κ) (tokens : Nat) : Limiter κ × Verdict :=
  let now := ns % U64                       -- `as_nanos() as u64`
  let additional := (l.t * tokens) % U64    -- `t * tokens`
  if additional > l.tau then (l, .tooLarge)
  else
    -- `entry(key).or_insert(time_since_start)`: the insertion persists even on refusal
    let tat := (l.tat key).getD now
    let earliest := ((tat + additional) % U64) - l.tau   -- `saturating_sub`
    if now < earliest then
      ({ l with tat := setTat l.tat key tat }, .tooSoon (earliest - now))
    else
      ({ l with tat := setTat l.tat key ((max now tat + additional) % U64) }, .ok)

/-- `Limiter::prune(time_limit)`: `retain(|_, tat| tat >= lim)`. -/
def Limiter.prune (l : Limiter κ) (ns : Nat) : Limiter κ :=
  let lim := ns % U64
  { l with tat := fun k => match l.tat k with
      | some v => if v ≥ lim then some v else none
      | none => none }

/-! ### Histories: a limiter run over arrivals and prune calls -/

/-- One call on a `Limiter`. -/
inductive Ev (κ : Type) where
  | arrive (ns : Nat) (key : κ) (tokens : Nat)
  | prune (ns : Nat)

/-- Runs the events; returns the final limiter and the verdicts of the arrivals, in order. -/
def run (l : Limiter κ) : List (Ev κ) → Limiter κ × List Verdict
  | [] => (l, [])
  | .arrive ns key tokens :: es =>
    let (l1, v) := l.allows ns key tokens
    let (l2, vs) := run l1 es
    (l2, v :: vs)
  | .prune ns :: es => run (l.prune ns) es

/-! ### `RateLimiter`: total / per-node / per-IP quotas -/

/-- `LimitKind`. Node ids and IPs are abstract keys. -/
inductive LimitKind where
  | total
  | nodeId (id : Nat)
  | ip (ip : Nat)

/-- `struct RateLimiter` (without the metrics estimate and with `init_time.elapsed()` explicit). -/
structure RateLimiter where
  total : Limiter Unit
  node : Option (Limiter Nat)
  ip : Option (Limiter Nat)

/-- An optional quota: `Some(q) => Some(Limiter::from_quota(q)?)`, `None => None`. -/
def optFromQuota (q : Option (Nat × Nat)) : Option (Option (Limiter Nat)) :=
  match q with
  | some (n, p) => (fromQuota n p).map some
  | none => some none

/-- `RateLimiterBuilder::build` for quotas `(max_tokens, period in ns)`; `none` = `Err(_)`. -/
def RateLimiter.build (total node ip : Option (Nat × Nat)) : Option RateLimiter :=
  match total with
  | none => none
  | some (n, p) =>
    match (fromQuota n p : Option (Limiter Unit)), optFromQuota node, optFromQuota ip with
    | some totalRl, some nodeRl, some ipRl => some { total := totalRl, node := nodeRl, ip := ipRl }
    | _, _, _ => none

/-- `RateLimiter::allows(request)` at `elapsed = ns` (`let tokens = 1`). -/
def RateLimiter.allows (r : RateLimiter) (ns : Nat) : LimitKind → RateLimiter × Verdict
  | .total =>
    let (l, v) := r.total.allows ns () Consts.TOKENS_PER_REQUEST
    ({ r with total := l }, v)
  | .ip ip =>
    match r.ip with
    | some lim =>
      let (l, v) := lim.allows ns ip Consts.TOKENS_PER_REQUEST
      ({ r with ip := some l }, v)
    | none => (r, .ok)
  | .nodeId id =>
    match r.node with
    | some lim =>
      let (l, v) := lim.allows ns id Consts.TOKENS_PER_REQUEST
      ({ r with node := some l }, v)
    | none => (r, .ok)

/-- `RateLimiter::prune()` at `elapsed = ns`. -/
def RateLimiter.prune (r : RateLimiter) (ns : Nat) : RateLimiter :=
  { total := r.total.prune ns
    ip := r.ip.map (·.prune ns)
    node := r.node.map (·.prune ns) }

end Discv5.Limiter

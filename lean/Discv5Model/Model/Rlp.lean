/-
Model of the parts of the `alloy-rlp` crate (0.3.x) that `src/rpc.rs` relies on:
`Header::{decode, decode_bytes, encode, length_with_payload}`, `static_left_pad`, the `Decodable`
impls for `u64`, `u16`, `Bytes`, `Vec<u64>` and the `Encodable` impls for `[u8]`, `u64`/`u16`,
`Vec<u64>`, `length_of_length`.

Transliteration rules: a buffer `&mut &[u8]` is a `Bytes` value that every decoder returns next
to its result; `Buf::advance` and every slice expression are the checked `sliceFrom`/`slice`
(failure = `.panic`), including the `get_unchecked`/`advance_unchecked` calls of the crate (their
safety is exactly the statement that the guards in front of them suffice, see
`Rlp.Header.decode_never_panics`).  `usize` is 64 bit wide (`usize::try_from(u64)` cannot fail).
`while !payload.is_empty()` loops are structural recursions over a fuel equal to the payload
length; running out of fuel (a loop that would not terminate) is reported as `.panic`.
-/
import Discv5Model.Model.Bytes
import Discv5Model.Gen.Consts

namespace Discv5.Rlp

/-- `alloy_rlp::Error` plus the `Error::Custom(..)` values produced by `src/rpc.rs`. -/
inductive Err where
  | inputTooShort | nonCanonicalSingleByte | nonCanonicalSize | leadingZero | overflow
  | unexpectedList | unexpectedString
  -- `Custom` errors of `Message::decode` / `RequestId::decode`
  | invalidHeader | extraData | invalidIdLength | payloadNotEmpty | badIpLength | zeroPort
  | badDistance | sizeMismatch | invalidEnr | unknownType
  deriving Repr, DecidableEq

def Err.toString : Err → String
  | .inputTooShort => "too-short" | .nonCanonicalSingleByte => "non-canonical-byte"
  | .nonCanonicalSize => "non-canonical-size" | .leadingZero => "leading-zero"
  | .overflow => "overflow" | .unexpectedList => "unexpected-list"
  | .unexpectedString => "unexpected-string" | .invalidHeader => "header"
  | .extraData => "extra-data" | .invalidIdLength => "id-length"
  | .payloadNotEmpty => "not-empty" | .badIpLength => "ip-length" | .zeroPort => "zero-port"
  | .badDistance => "distance" | .sizeMismatch => "size-mismatch" | .invalidEnr => "enr"
  | .unknownType => "unknown-type"

structure Header where
  list : Bool
  len : Nat
  deriving Repr, DecidableEq

/-- `get_next_byte`: the first byte, or `InputTooShort`. -/
def getNextByte (buf : Bytes) : Res Err UInt8 :=
  match buf with
  | [] => .err .inputTooShort
  | b :: _ => .ok b

/-- `Buf::advance` on `&[u8]`: panics when `cnt > len`. -/
def advance (buf : Bytes) (cnt : Nat) : Res Err Bytes := sliceFrom buf cnt

/-- `static_left_pad::<N>(data).map(uN::from_be_bytes)`: the value of the left-padded array. -/
def staticLeftPad (n : Nat) (data : Bytes) : Res Err Nat :=
  if data.length > n then .err .overflow
  else if data.isEmpty then .ok 0
  else do
    let d0 ← index data 0
    if d0 = 0 then .err .leadingZero else .ok (beNat data)

/-- The common tail of `Header::decode`: the payload must fit the remaining buffer. -/
def Header.finish (h : Header) (buf : Bytes) : Res Err (Header × Bytes) :=
  if buf.length < h.len then .err .inputTooShort else .ok (h, buf)

/-- `Header::decode`; returns the header and the buffer behind the header bytes (for a single
byte below `0x80` nothing is consumed and the payload length is 1). -/
def Header.decode (buf : Bytes) : Res Err (Header × Bytes) := do
  let b ← getNextByte buf
  let n := b.toNat
  if n < 0x80 then Header.finish ⟨false, 1⟩ buf
  else if n ≤ 0xB7 then do
    let buf ← advance buf 1
    let pl := n - 0x80
    if pl = 1 then do
      let nb ← getNextByte buf
      if nb.toNat < 0x80 then .err .nonCanonicalSingleByte else Header.finish ⟨false, pl⟩ buf
    else Header.finish ⟨false, pl⟩ buf
  else if n ≤ 0xBF ∨ 0xF8 ≤ n then do
    let buf ← advance buf 1
    let list := decide (0xF8 ≤ n)
    let code := if list then 0xF7 else 0xB7
    let lenOfLen := n - code
    if buf.length < lenOfLen then .err .inputTooShort else do
    let lenB ← slice buf 0 lenOfLen
    let buf ← advance buf lenOfLen
    let pl ← staticLeftPad 8 lenB
    if pl < 56 then .err .nonCanonicalSize else Header.finish ⟨list, pl⟩ buf
  else do
    let buf ← advance buf 1
    Header.finish ⟨true, n - 0xC0⟩ buf

/-- `Header::decode_bytes`: the payload of the next item and the buffer behind it. -/
def decodeBytes (buf : Bytes) (isList : Bool) : Res Err (Bytes × Bytes) := do
  let (h, buf) ← Header.decode buf
  if h.list ≠ isList then .err (if isList then .unexpectedString else .unexpectedList) else do
  let bytes ← slice buf 0 h.len
  let rest ← advance buf h.len
  .ok (bytes, rest)

/-- `<uN as Decodable>::decode` for an `n`-byte unsigned integer. -/
def decodeUint (n : Nat) (buf : Bytes) : Res Err (Nat × Bytes) := do
  let (bytes, rest) ← decodeBytes buf false
  let v ← staticLeftPad n bytes
  .ok (v, rest)

def decodeU64 (buf : Bytes) : Res Err (Nat × Bytes) := decodeUint 8 buf
def decodeU16 (buf : Bytes) : Res Err (Nat × Bytes) := decodeUint 2 buf

/-- The loop of `decode_append::<u64>`. -/
def decodeU64Items : Nat → Bytes → Res Err (List Nat)
  | fuel, payload =>
    if payload.isEmpty then .ok [] else
    match fuel with
    | 0 => .panic
    | fuel + 1 => do
      let (v, rest) ← decodeU64 payload
      let vs ← decodeU64Items fuel rest
      .ok (v :: vs)

/-- `<Vec<u64> as Decodable>::decode`. -/
def decodeU64List (buf : Bytes) : Res Err (List Nat × Bytes) := do
  let (payload, rest) ← decodeBytes buf true
  let vs ← decodeU64Items payload.length payload
  .ok (vs, rest)

/-! ### encoding -/

/-- `Header::encode` (`to_be_bytes_trimmed!` = minimal big-endian bytes). -/
def encodeHeader (list : Bool) (len : Nat) : Bytes :=
  if len < 56 then [UInt8.ofNat ((if list then 0xC0 else 0x80) + len)]
  else
    let be := beMin len
    UInt8.ofNat ((if list then 0xF7 else 0xB7) + be.length) :: be

/-- `length_of_length`. -/
def lengthOfLength (len : Nat) : Nat :=
  if len < 56 then 1 else 1 + (beMin len).length

/-- `Header::length_with_payload`. -/
def Header.lengthWithPayload (h : Header) : Nat := lengthOfLength h.len + h.len

/-- `<[u8] as Encodable>::encode`. -/
def encodeBytes (b : Bytes) : Bytes :=
  match b with
  | [x] => if x.toNat ≥ 0x80 then encodeHeader false 1 ++ b else b
  | _ => encodeHeader false b.length ++ b

/-- `<uN as Encodable>::encode`. -/
def encodeUint (x : Nat) : Bytes :=
  if x = 0 then [0x80]
  else if x < 0x80 then [UInt8.ofNat x]
  else
    let be := beMin x
    UInt8.ofNat (0x80 + be.length) :: be

/-- `<uN as Encodable>::length`. -/
def uintLength (x : Nat) : Nat :=
  if x < 0x80 then 1 else 1 + (beMin x).length

/-- `encode_list::<u64>`: header over the summed `length()`s, then the items. -/
def encodeU64List (xs : List Nat) : Bytes :=
  encodeHeader true (xs.map uintLength).sum ++ (xs.map encodeUint).flatten

end Discv5.Rlp

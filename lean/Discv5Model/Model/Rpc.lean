/-
Model of `src/rpc.rs`: `RequestId::decode`, `Request::encode`, `Response::encode`,
`Message::{encode, decode}`.

* A request id, protocol, payload is a byte string; `u64`/`u16` fields are `Nat`s (the width is a
  hypothesis of the round-trip theorem); an `IpAddr` is `Ip.v4`/`Ip.v6` over the octets.
* A node record (`Enr<CombinedKey>`) is represented by its canonical RLP encoding, an opaque byte
  string.  `Enr::decode` is the abstract parameter `recDec : Bytes → Option Bytes`: given the
  bytes of one RLP item it returns the canonical re-encoding of the record (whose length is
  `Enr::size()`), or `none` for anything that is not a valid signed record.  The theorems hold
  for every `recDec`; the correspondence harness supplies the answers of the real `Enr` decoder.
* Slices and `advance` are checked (`.panic`), `while` loops run on fuel (see `Model/Rlp.lean`).
-/
import Discv5Model.Model.Rlp

namespace Discv5.Rpc
open Discv5.Rlp

inductive Ip where
  | v4 (octets : Bytes)
  | v6 (octets : Bytes)
  deriving Repr, DecidableEq

def Ip.octets : Ip → Bytes
  | .v4 b => b
  | .v6 b => b

/-- `RequestBody` and `ResponseBody` in one type (the variant determines request/response). -/
inductive Body where
  | ping (enrSeq : Nat)
  | pong (enrSeq : Nat) (ip : Ip) (port : Nat)
  | findNode (distances : List Nat)
  | nodes (total : Nat) (records : List Bytes)
  | talkReq (protocol request : Bytes)
  | talkResp (response : Bytes)
  deriving Repr, DecidableEq

structure Message where
  id : Bytes
  body : Body
  deriving Repr, DecidableEq

/-- `Request::msg_type` / `Response::msg_type`. -/
def Body.msgType : Body → UInt8
  | .ping .. => UInt8.ofNat Consts.RPC_TYPE_PING
  | .pong .. => UInt8.ofNat Consts.RPC_TYPE_PONG
  | .findNode .. => UInt8.ofNat Consts.RPC_TYPE_FINDNODE
  | .nodes .. => UInt8.ofNat Consts.RPC_TYPE_NODES
  | .talkReq .. => UInt8.ofNat Consts.RPC_TYPE_TALKREQ
  | .talkResp .. => UInt8.ofNat Consts.RPC_TYPE_TALKRESP

/-- `buf.push(msg_type); header.encode(&mut buf); buf.extend_from_slice(&list)`. -/
def frame (msgType : UInt8) (list : Bytes) : Bytes :=
  msgType :: (encodeHeader true list.length ++ list)

/-- The RLP list payload written by `Request::encode` / `Response::encode`. -/
def Body.fields (id : Bytes) : Body → Bytes
  | .ping enrSeq => encodeBytes id ++ encodeUint enrSeq
  | .pong enrSeq ip port => encodeBytes id ++ encodeUint enrSeq ++ encodeBytes ip.octets ++ encodeUint port
  | .findNode distances => encodeBytes id ++ encodeU64List distances
  | .nodes total records =>
      encodeBytes id ++ encodeUint total ++
        (if !records.isEmpty then
          let out := records.flatten
          encodeHeader true out.length ++ out
        else
          -- `Vec::<Enr>::new().encode()` = `encode_list` of nothing
          encodeHeader true 0)
  | .talkReq protocol request => encodeBytes id ++ encodeBytes protocol ++ encodeBytes request
  | .talkResp response => encodeBytes id ++ encodeBytes response

/-- `Message::encode`. -/
def encode (m : Message) : Bytes := frame m.body.msgType (m.body.fields m.id)

/-- `Ipv6Addr::is_loopback`: the address is `::1`. -/
def isLoopback (b : Bytes) : Bool := b == List.replicate 15 0 ++ [1]

/-- `Ipv6Addr::to_ipv4`: segments `[0,0,0,0,0, 0 | 0xffff, ab, cd]` ↦ `a.b.c.d`
(IPv4-compatible and IPv4-mapped addresses). -/
def toIpv4 (b : Bytes) : Option Bytes :=
  if b.take 10 = List.replicate 10 0 ∧
      ((b.drop 10).take 2 = [0, 0] ∨ (b.drop 10).take 2 = [0xff, 0xff]) then some (b.drop 12)
  else none

/-- The `match ip_bytes.len()` of the PONG arm. -/
def ipOfBytes (b : Bytes) : Res Err Ip :=
  if b.length = Consts.RPC_IP4_LEN then .ok (.v4 b)
  else if b.length = Consts.RPC_IP6_LEN then
    if isLoopback b then .ok (.v6 b)
    else match toIpv4 b with
      | some v4 => .ok (.v4 v4)
      | none => .ok (.v6 b)
  else .err .badIpLength

/-- The `while !payload.is_empty()` loop of the NODES arm; returns the records and the (empty)
payload left. -/
def nodesLoop (recDec : Bytes → Option Bytes) : Nat → Bytes → Res Err (List Bytes × Bytes)
  | fuel, payload =>
    if payload.isEmpty then .ok ([], payload) else
    match fuel with
    | 0 => .panic
    | fuel + 1 => do
      let (nodeHeader, _) ← Header.decode payload
      if !nodeHeader.list then .err .invalidHeader else
      if nodeHeader.lengthWithPayload > payload.length then .err .sizeMismatch else do
      let item ← slice payload 0 nodeHeader.lengthWithPayload
      match recDec item with
      | none => .err .invalidEnr
      | some r => do
        let payload ← advance payload r.length   -- `payload.advance(enr_rlp.size())`
        let (rs, rest) ← nodesLoop recDec fuel payload
        .ok (r :: rs, rest)

/-- The `match msg_type` of `Message::decode`. -/
def decodeBody (recDec : Bytes → Option Bytes) (msgType : UInt8) (id payload : Bytes) :
    Res Err Message :=
  if msgType = 1 then do
    let (enrSeq, payload) ← decodeU64 payload
    if !payload.isEmpty then .err .payloadNotEmpty else
    .ok ⟨id, .ping enrSeq⟩
  else if msgType = 2 then do
    let (enrSeq, payload) ← decodeU64 payload
    let (ipBytes, payload) ← decodeBytes payload false
    let ip ← ipOfBytes ipBytes
    let (rawPort, payload) ← decodeU16 payload
    if rawPort ≠ 0 then
      if !payload.isEmpty then .err .payloadNotEmpty else
      .ok ⟨id, .pong enrSeq ip rawPort⟩
    else .err .zeroPort
  else if msgType = 3 then do
    let (distances, payload) ← decodeU64List payload
    if distances.any (fun d => decide (d > Consts.RPC_MAX_DISTANCE)) then .err .badDistance else
    if !payload.isEmpty then .err .payloadNotEmpty else
    .ok ⟨id, .findNode distances⟩
  else if msgType = 4 then do
    let (total, payload) ← decodeU64 payload
    let (header, payload) ← Header.decode payload
    if !header.list then .err .invalidHeader else do
    let (records, payload) ← nodesLoop recDec payload.length payload
    if !payload.isEmpty then .err .payloadNotEmpty else
    .ok ⟨id, .nodes total records⟩
  else if msgType = 5 then do
    let (protocol, payload) ← decodeBytes payload false
    let (request, payload) ← decodeBytes payload false
    if !payload.isEmpty then .err .payloadNotEmpty else
    .ok ⟨id, .talkReq protocol request⟩
  else if msgType = 6 then do
    let (response, payload) ← decodeBytes payload false
    if !payload.isEmpty then .err .payloadNotEmpty else
    .ok ⟨id, .talkResp response⟩
  else .err .unknownType

/-- `Message::decode`. -/
def decode (recDec : Bytes → Option Bytes) (data : Bytes) : Res Err Message :=
  if data.length < Consts.RPC_MIN_LEN then .err .inputTooShort else do
  let msgType ← index data 0
  let payload ← sliceFrom data 1
  let (header, payload) ← Header.decode payload
  if !header.list then .err .invalidHeader else
  if header.len ≠ payload.length then .err .extraData else do
  let (idBytes, payload) ← decodeBytes payload false
  -- `RequestId::decode`
  if idBytes.length > Consts.RPC_MAX_ID_LEN then .err .invalidIdLength else
  decodeBody recDec msgType idBytes payload

/-! ### predicates used by the property theorems -/

/-- The record decoder returns, for a valid record, a non-empty encoding that is not longer than
the item it was given (`Enr::size()` ≤ consumed length). -/
def OracleSound (recDec : Bytes → Option Bytes) : Prop :=
  ∀ item r, recDec item = some r → 0 < r.length ∧ r.length ≤ item.length

/-- A canonical valid record: an RLP list item that the record decoder maps to itself. -/
def RecordWF (recDec : Bytes → Option Bytes) (r : Bytes) : Prop :=
  recDec r = some r ∧ ∃ content : Bytes, r = encodeHeader true content.length ++ content

/-- IPv4 octets, or IPv6 octets that `decode` does not fold into an IPv4 address. -/
def IpWF : Ip → Prop
  | .v4 b => b.length = 4
  | .v6 b => b.length = 16 ∧ (isLoopback b = true ∨ toIpv4 b = none)

def BodyWF (recDec : Bytes → Option Bytes) : Body → Prop
  | .ping enrSeq => enrSeq < 2 ^ 64
  | .pong enrSeq ip port => enrSeq < 2 ^ 64 ∧ IpWF ip ∧ 1 ≤ port ∧ port ≤ 65535
  | .findNode distances => ∀ d ∈ distances, d ≤ 256
  | .nodes total records => total < 2 ^ 64 ∧ ∀ r ∈ records, RecordWF recDec r
  | .talkReq _ _ => True
  | .talkResp _ => True

/-- Well-formed messages: what the Rust types guarantee (`u64`, `NonZeroU16`, `Ipv4Addr`,
`Ipv6Addr`, valid `Enr`s, in-memory sizes below `2^64`) plus the protocol limits. -/
structure WF (recDec : Bytes → Option Bytes) (m : Message) : Prop where
  id : m.id.length ≤ 8
  body : BodyWF recDec m.body
  size : (encode m).length < 2 ^ 64

end Discv5.Rpc

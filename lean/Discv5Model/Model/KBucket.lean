/-
Model of `src/kbucket/bucket.rs` (`KBucket`) and of the table operations of `src/kbucket.rs`
(`KBucketsTable`) that `service.rs` / `discv5.rs` use.

Transliteration rules
* `ArrayVec::insert(i, x)` = `take i ++ x :: drop i`, `ArrayVec::remove(i)` = `take i ++ drop (i+1)`;
  `is_full` = `length ≥ MAX_NODES_PER_BUCKET`.
* `Instant::now()` is the explicit argument `now`; `PendingNode.replace` is a `Nat`.
* the bucket / table filters are parameters `V → List V → Bool` (`true` = accepted); `none` in the
  Rust code is the constant-true filter.
* `unreachable!()` arms return the distinguished result `.panic`.
* every node carries a *ghost* `stamp`: the logical time (`tick`) at which it last entered its
  group (insert, status report, promotion from the pending slot).  The Rust code has no such field;
  it is only used to state the ordering invariant and never influences behaviour.
-/
import Discv5Model.Gen.Consts

namespace Discv5.KB

structure Status where
  conn : Bool
  incoming : Bool
  deriving Repr, DecidableEq

structure Node (V : Type) where
  key : Nat
  value : V
  st : Status
  stamp : Nat := 0

structure Pending (V : Type) where
  node : Node V
  replace : Nat

structure Bucket (V : Type) where
  nodes : List (Node V) := []
  fcp : Option Nat := none
  pending : Option (Pending V) := none

structure Cfg (V : Type) where
  maxIncoming : Nat
  pendingTimeout : Nat
  bucketFilter : V → List V → Bool
  tableFilter : V → List V → Bool

inductive InsertRes where
  | inserted | pending (disconnected : Nat) | failedFilter | tooManyIncoming | full | nodeExists
  deriving Repr, DecidableEq

inductive Fail where
  | tooManyIncoming | bucketFilter | tableFilter | keyNonExistent | bucketFull | invalidSelfUpdate
  deriving Repr, DecidableEq

inductive UpdateRes where
  | updated | updatedAndPromoted | updatedPending | failed (r : Fail) | notModified | panic
  deriving Repr, DecidableEq

def UpdateRes.isFailed : UpdateRes → Bool
  | .failed _ => true | _ => false

/-- An applied pending entry: inserted key, evicted key. -/
structure Applied where
  inserted : Nat
  evicted : Option Nat
  deriving Repr, DecidableEq

variable {V : Type} [DecidableEq V]

def maxNodes : Nat := Consts.MAX_NODES_PER_BUCKET

def insertAt (l : List α) (i : Nat) (x : α) : List α := l.take i ++ x :: l.drop i
def removeAt (l : List α) (i : Nat) : List α := l.take i ++ l.drop (i + 1)

def checkedSub1 : Nat → Option Nat
  | 0 => none
  | n + 1 => some n

namespace Bucket

def isFull (b : Bucket V) : Bool := b.nodes.length ≥ maxNodes

def position (b : Bucket V) (key : Nat) : Option Nat := b.nodes.findIdx? (fun n => n.key == key)

def values (b : Bucket V) : List V := b.nodes.map (·.value)

def isMaxIncoming (c : Cfg V) (b : Bucket V) : Bool :=
  (b.nodes.filter (fun n => n.st.conn && n.st.incoming)).length ≥ c.maxIncoming

def numConnected (b : Bucket V) : Nat :=
  match b.fcp with
  | none => 0
  | some i => b.nodes.length - i

/-- `KBucket::insert`. -/
def insert (c : Cfg V) (now : Nat) (b : Bucket V) (node : Node V) : Bucket V × InsertRes :=
  if (b.position node.key).isSome then (b, .nodeExists) else
  if !c.bucketFilter node.value b.values then (b, .failedFilter) else
  let insertingPending := match b.pending with
    | some p => p.node.key == node.key
    | none => false
  let (b', r) : Bucket V × InsertRes :=
    if node.st.conn then
      if node.st.incoming && b.isMaxIncoming c then (b, .tooManyIncoming) else
      if b.isFull then
        if b.fcp == some 0 || b.pending.isSome then (b, .full)
        else
          match b.nodes with
          | [] => (b, .full)  -- not reachable: a full bucket is non-empty
          | n0 :: _ =>
            ({ b with pending := some { node := node, replace := now + c.pendingTimeout } },
              .pending n0.key)
      else
        let pos := b.nodes.length
        ({ b with fcp := match b.fcp with | some p => some p | none => some pos,
                  nodes := b.nodes ++ [node] }, .inserted)
    else
      if b.isFull then (b, .full) else
      match b.fcp with
      | some p => ({ b with nodes := insertAt b.nodes p node, fcp := some (p + 1) }, .inserted)
      | none => ({ b with nodes := b.nodes ++ [node] }, .inserted)
  if r == .inserted && insertingPending then ({ b' with pending := none }, r) else (b', r)

/-- `KBucket::update_first_connected_pos_for_removal` (called after the removal). -/
def fcpForRemoval (b : Bucket V) (removedPos : Nat) : Bucket V :=
  { b with fcp := match b.fcp with
      | none => none
      | some f => if removedPos < f then some (f - 1)
                  else if f < b.nodes.length then some f else none }

/-- `KBucket::apply_pending`; `tick` is the ghost stamp given to a promoted node. -/
def applyPending (c : Cfg V) (now tick : Nat) (b : Bucket V) : Bucket V × Option Applied :=
  match b.pending with
  | none => (b, none)
  | some p =>
    let b0 : Bucket V := { b with pending := none }
    let pn : Node V := { p.node with stamp := tick }
    if p.replace ≤ now then
      if b0.isFull then
        match b0.nodes with
        | [] => (b0, none)
        | n0 :: rest =>
          if n0.st.conn then (b0, none) else
          if !c.bucketFilter p.node.value b0.values then (b0, none) else
          if p.node.st.conn && p.node.st.incoming && b0.isMaxIncoming c then (b0, none) else
          if p.node.st.conn then
            let fcp' := match b0.fcp with
              | none => some rest.length
              | some q => checkedSub1 q
            ({ b0 with nodes := rest ++ [pn], fcp := fcp' },
              some { inserted := p.node.key, evicted := some n0.key })
          else
            match b0.fcp with
            | some q =>
              match checkedSub1 q with
              | some ip =>
                ({ b0 with nodes := insertAt rest ip pn },
                  some { inserted := p.node.key, evicted := some n0.key })
              | none => (b0, none)
            | none =>
              ({ b0 with nodes := rest ++ [pn] },
                some { inserted := p.node.key, evicted := some n0.key })
      else
        match insert c now b0 pn with
        | (b1, .inserted) => (b1, some { inserted := p.node.key, evicted := none })
        | (b1, _) => (b1, none)
    else (b, none)

/-- `KBucket::update_status`; `dir = none` keeps the direction. -/
def updateStatus (c : Cfg V) (now tick : Nat) (b : Bucket V) (key : Nat) (conn : Bool)
    (dir : Option Bool) : Bucket V × UpdateRes :=
  match b.position key with
  | some pos =>
    match b.nodes[pos]? with
    | none => (b, .panic)
    | some old =>
      let nodes' := removeAt b.nodes pos
      let st' : Status := { conn := conn, incoming := match dir with | some d => d | none => old.st.incoming }
      let node : Node V := { old with st := st', stamp := tick }
      let notModified := old.st == st'
      let fcp' :=
        if old.st.conn then
          if b.fcp == some pos && pos == nodes'.length then none else b.fcp
        else
          match b.fcp with
          | none => none
          | some p => checkedSub1 p
      let pending' := if pos == 0 && conn then none else b.pending
      let b1 : Bucket V := { nodes := nodes', fcp := fcp', pending := pending' }
      match insert c now b1 node with
      | (b2, .inserted) =>
        if notModified then (b2, .notModified)
        else if !old.st.conn && conn then (b2, .updatedAndPromoted)
        else (b2, .updated)
      | (b2, .tooManyIncoming) => (b2, .failed .tooManyIncoming)
      | (b2, .failedFilter) => (b2, .failed .bucketFilter)
      | (b2, _) => (b2, .panic)
  | none =>
    match b.pending with
    | some p =>
      if p.node.key == key then
        let st' : Status := { conn := conn, incoming := match dir with | some d => d | none => p.node.st.incoming }
        ({ b with pending := some { p with node := { p.node with st := st' } } }, .updatedPending)
      else (b, .failed .keyNonExistent)
    | none => (b, .failed .keyNonExistent)

/-- `KBucket::update_value`. -/
def updateValue (c : Cfg V) (b : Bucket V) (key : Nat) (value : V) : Bucket V × UpdateRes :=
  match b.position key with
  | some pos =>
    match b.nodes[pos]? with
    | none => (b, .panic)
    | some node =>
      if node.value = value then (b, .notModified) else
      let nodes' := removeAt b.nodes pos
      if !c.bucketFilter value (nodes'.map (·.value)) then
        (fcpForRemoval { b with nodes := nodes' } pos, .failed .bucketFilter)
      else
        ({ b with nodes := insertAt nodes' pos { node with value := value } }, .updated)
  | none =>
    match b.pending with
    | some p =>
      if p.node.key == key then
        ({ b with pending := some { p with node := { p.node with value := value } } }, .updatedPending)
      else (b, .failed .keyNonExistent)
    | none => (b, .failed .keyNonExistent)

/-- `KBucket::remove` (applies the pending node afterwards). -/
def remove (c : Cfg V) (now tick : Nat) (b : Bucket V) (key : Nat) : Bucket V × Bool :=
  match b.position key with
  | some pos =>
    let b1 := fcpForRemoval { b with nodes := removeAt b.nodes pos } pos
    ((applyPending c now tick b1).1, true)
  | none => (b, false)

end Bucket

/-! ### Table -/

structure Table (V : Type) where
  localKey : Nat
  buckets : List (Bucket V)
  applied : List Applied := []
  /-- ghost logical clock: incremented by every table operation -/
  tick : Nat := 0

inductive TInsertRes where
  | inserted | pending (disconnected : Nat) | statusUpdated (promoted : Bool) | valueUpdated
  | updated (promoted : Bool) | updatedPending | failed (r : Fail) | panic
  deriving Repr, DecidableEq

def numBuckets : Nat := Consts.NUM_BUCKETS

/-- `BucketIndex::new(local.distance(key))`: `none` for the local key itself. -/
def bucketIndex (localKey key : Nat) : Option Nat :=
  let d := localKey ^^^ key
  if d = 0 then none else some d.log2

namespace Table

def init (localKey : Nat) : Table V :=
  { localKey := localKey, buckets := List.replicate numBuckets {} }

def bucket (t : Table V) (i : Nat) : Bucket V := t.buckets.getD i {}

def setBucket (t : Table V) (i : Nat) (b : Bucket V) : Table V :=
  { t with buckets := t.buckets.set i b }

/-- `table_iter`: all stored values, each bucket followed by its pending value. -/
def tableValues (t : Table V) : List V :=
  t.buckets.flatMap fun b =>
    b.values ++ (match b.pending with | some p => [p.node.value] | none => [])

/-- `bucket.apply_pending()` + push to `applied_pending`, as done at the start of every access. -/
def applyAt (c : Cfg V) (now : Nat) (t : Table V) (i : Nat) : Table V :=
  let (b, a) := (t.bucket i).applyPending c now t.tick
  let t' := t.setBucket i b
  match a with
  | some a => { t' with applied := t'.applied ++ [a] }
  | none => t'

def bump (t : Table V) : Table V := { t with tick := t.tick + 1 }

/-- The duplicate test and table-filter test shared by `update_node` and `insert_or_update`. -/
def passesTableFilter (c : Cfg V) (t : Table V) (key : Nat) (value : V) : Bool :=
  let duplicate := match bucketIndex t.localKey key with
    | some i =>
      match (t.bucket i).nodes.find? (fun n => n.key == key) with
      | some n => decide (n.value = value)
      | none => false
    | none => false
  duplicate || c.tableFilter value t.tableValues

/-- `KBucketsTable::update_node_status`. -/
def updateNodeStatus (c : Cfg V) (now : Nat) (t0 : Table V) (key : Nat) (conn : Bool)
    (dir : Option Bool) : Table V × UpdateRes :=
  let t := t0.bump
  match bucketIndex t.localKey key with
  | some i =>
    let t1 := applyAt c now t i
    let (b, r) := (t1.bucket i).updateStatus c now t.tick key conn dir
    (t1.setBucket i b, r)
  | none => (t, .notModified)

/-- `KBucketsTable::update_node`. -/
def updateNode (c : Cfg V) (now : Nat) (t0 : Table V) (key : Nat) (value : V)
    (state : Option Bool) : Table V × UpdateRes :=
  let t := t0.bump
  let passed := passesTableFilter c t key value
  match bucketIndex t.localKey key with
  | some i =>
    let t1 := applyAt c now t i
    if !passed then
      let (b, _) := (t1.bucket i).remove c now t.tick key
      (t1.setBucket i b, .failed .tableFilter)
    else
      let (b1, ur) := (t1.bucket i).updateValue c key value
      if ur.isFailed then (t1.setBucket i b1, ur) else
      let (b2, sr) := match state with
        | some s => b1.updateStatus c now t.tick key s none
        | none => (b1, .notModified)
      let r : UpdateRes :=
        if sr.isFailed then sr
        else if sr == .panic || ur == .panic then .panic
        else if sr == .updatedAndPromoted then .updatedAndPromoted
        else if ur == .updatedPending then .updatedPending
        else if sr == .updatedPending then .updatedPending
        else if ur == .notModified && sr == .notModified then .notModified
        else .updated
      (t1.setBucket i b2, r)
  | none => (t, .notModified)

/-- `KBucketsTable::insert_or_update`. -/
def insertOrUpdate (c : Cfg V) (now : Nat) (t0 : Table V) (key : Nat) (value : V)
    (st : Status) : Table V × TInsertRes :=
  let t := t0.bump
  let passed := passesTableFilter c t key value
  match bucketIndex t.localKey key with
  | some i =>
    let t1 := applyAt c now t i
    if !passed then
      let (b, _) := (t1.bucket i).remove c now t.tick key
      (t1.setBucket i b, .failed .tableFilter)
    else
      let b0 := t1.bucket i
      if (b0.position key).isNone then
        let (b, r) := b0.insert c now { key := key, value := value, st := st, stamp := t.tick }
        let r' : TInsertRes := match r with
          | .nodeExists => .panic
          | .full => .failed .bucketFull
          | .tooManyIncoming => .failed .tooManyIncoming
          | .failedFilter => .failed .bucketFilter
          | .pending d => .pending d
          | .inserted => .inserted
        (t1.setBucket i b, r')
      else
        let (b1, sr) := b0.updateStatus c now t.tick key st.conn (some st.incoming)
        if sr.isFailed then (t1.setBucket i b1, .failed .tooManyIncoming) else
        let (b2, ur) := b1.updateValue c key value
        let r : TInsertRes :=
          match ur, sr with
          | .updated, .updated => .updated false
          | .updated, .updatedAndPromoted => .updated true
          | .updated, .notModified => .valueUpdated
          | .updated, .updatedPending => .valueUpdated
          | .notModified, .updated => .statusUpdated false
          | .notModified, .updatedAndPromoted => .statusUpdated true
          | .notModified, .notModified => .updated false
          | .updatedPending, _ => .updatedPending
          | _, .updatedPending => .updatedPending
          | .failed r, _ => .failed r
          | _, _ => .panic
        (t1.setBucket i b2, r)
  | none => (t, .failed .invalidSelfUpdate)

/-- `KBucketsTable::remove`. -/
def remove (c : Cfg V) (now : Nat) (t0 : Table V) (key : Nat) : Table V × Bool :=
  let t := t0.bump
  match bucketIndex t.localKey key with
  | some i =>
    let t1 := applyAt c now t i
    let (b, r) := (t1.bucket i).remove c now t.tick key
    (t1.setBucket i b, r)
  | none => (t, false)

/-- `table.entry(key)` followed by `PresentEntry::remove()` (what `service.rs` does); for a
pending or absent entry nothing is removed.  `entry` itself applies the pending node. -/
def entryRemove (c : Cfg V) (now : Nat) (t0 : Table V) (key : Nat) : Table V × Bool :=
  remove c now t0 key

/-- `table.entry(key)` read access: applies the pending node of that bucket. -/
def entryTouch (c : Cfg V) (now : Nat) (t0 : Table V) (key : Nat) : Table V :=
  let t := t0.bump
  match bucketIndex t.localKey key with
  | some i => applyAt c now t i
  | none => t

/-- `KBucketsTable::iter`: applies every bucket's pending node, in bucket order. -/
def applyAll (c : Cfg V) (now : Nat) (t0 : Table V) : Table V :=
  (List.range numBuckets).foldl (fun t i => applyAt c now t i) t0.bump

def allNodes (t : Table V) : List (Node V) := t.buckets.flatMap (·.nodes)

/-- `take_applied_pending`. -/
def takeApplied (t : Table V) : Table V × Option Applied :=
  match t.applied with
  | [] => (t, none)
  | a :: rest => ({ t with applied := rest }, some a)

end Table

end Discv5.KB

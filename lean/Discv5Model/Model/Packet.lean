/-
Model of `src/packet/mod.rs`: `PacketKind::{encode,decode}`, `PacketHeader::encode`,
`Packet::{encode, decode, authenticated_data}`.

Transliteration rules: every Rust slice/index is a checked `slice`/`index` (failure = `.panic`);
AES-128-CTR masking is `xorStream` with an *abstract* keystream `ks key iv pos` (the theorems
hold for every keystream; the correspondence harness supplies the real AES-CTR keystream);
the node-record decoder is the abstract parameter `recDec` returning the canonical encoding of
the record that prefixes its input.
-/
import Discv5Model.Model.Bytes
import Discv5Model.Gen.Consts

namespace Discv5.Packet

inductive Err where
  | tooLarge | tooSmall | headerLengthInvalid | headerDecryptionFailed | invalidVersion
  | invalidAuthDataSize | invalidNodeId | invalidEnr | unknownPacket
  deriving Repr, DecidableEq

def Err.toString : Err → String
  | .tooLarge => "too-large" | .tooSmall => "too-small" | .headerLengthInvalid => "header-len"
  | .headerDecryptionFailed => "header-decrypt" | .invalidVersion => "version"
  | .invalidAuthDataSize => "auth-size" | .invalidNodeId => "node-id" | .invalidEnr => "enr"
  | .unknownPacket => "unknown"

inductive Kind where
  | message (src : Bytes)
  | whoareyou (idNonce : Bytes) (enrSeq : Nat)
  | handshake (src sig eph : Bytes) (record : Option Bytes)
  deriving Repr, DecidableEq

structure Packet where
  iv : Bytes
  nonce : Bytes
  kind : Kind
  message : Bytes
  deriving Repr, DecidableEq

/-- Protocol identity: 6-byte id and 2-byte version. -/
structure Proto where
  pid : Bytes
  ver : Bytes
  deriving Repr, DecidableEq

/-- Keystream family: AES-128-CTR(key = first 16 bytes of the destination id, iv). -/
abbrev KS := Bytes → Bytes → Nat → UInt8

def Kind.flag : Kind → UInt8
  | .message _ => 0 | .whoareyou .. => 1 | .handshake .. => 2

def Kind.isWhoareyou : Kind → Bool
  | .whoareyou .. => true | _ => false

/-- `PacketKind::encode` (the auth-data). -/
def Kind.encode : Kind → Bytes
  | .message src => src
  | .whoareyou idn seq => idn ++ beBytes 8 seq
  | .handshake src sig eph record =>
      src ++ beBytes 1 sig.length ++ beBytes 1 eph.length ++ sig ++ eph ++ record.getD []

/-- `PacketHeader::encode`. -/
def headerBytes (proto : Proto) (p : Packet) : Bytes :=
  let auth := p.kind.encode
  proto.pid ++ proto.ver ++ [p.kind.flag] ++ p.nonce ++ beBytes 2 auth.length ++ auth

/-- `Packet::authenticated_data`. -/
def authenticatedData (proto : Proto) (p : Packet) : Bytes := p.iv ++ headerBytes proto p

/-- `Packet::encode`. -/
def encode (ks : KS) (proto : Proto) (dst : Bytes) (p : Packet) : Bytes :=
  p.iv ++ xorStream (ks (dst.take 16) p.iv) 0 (headerBytes proto p) ++ p.message

/-- `PacketKind::decode`. -/
def Kind.decode (recDec : Bytes → Option Bytes) (flag : UInt8) (auth : Bytes) : Res Err Kind :=
  if flag = 0 then
    if auth.length ≠ 32 then .err .invalidAuthDataSize else .ok (.message auth)
  else if flag = 1 then
    if auth.length ≠ 24 then .err .invalidAuthDataSize else do
      let idn ← slice auth 0 Consts.ID_NONCE_LENGTH
      let seqB ← sliceFrom auth Consts.ID_NONCE_LENGTH
      if seqB.length ≠ 8 then .panic else
      if idn.length ≠ 16 then .panic else
      .ok (.whoareyou idn (beNat seqB))
  else if flag = 2 then
    if auth.length < 34 then .err .invalidAuthDataSize else do
      let src ← slice auth 0 32
      let sigSize ← index auth 32
      let ephSize ← index auth 33
      let total := sigSize.toNat + ephSize.toNat
      if auth.length < 34 + total then .err .invalidAuthDataSize else do
        let rem ← sliceFrom auth 34
        let sig ← slice rem 0 sigSize.toNat
        let eph ← slice rem sigSize.toNat total
        if rem.length > total then do
          let tail ← sliceFrom rem total
          match recDec tail with
          | some r => .ok (.handshake src sig eph (some r))
          | none => .err .invalidEnr
        else .ok (.handshake src sig eph none)
  else .err .unknownPacket

/-- `Packet::decode`; returns the packet and the authenticated data. -/
def decode (ks : KS) (recDec : Bytes → Option Bytes) (proto : Proto) (localId : Bytes)
    (data : Bytes) : Res Err (Packet × Bytes) :=
  if data.length > Consts.MAX_PACKET_SIZE then .err .tooLarge else
  if data.length < Consts.MIN_PACKET_SIZE then .err .tooSmall else do
    let iv ← slice data 0 Consts.IV_LENGTH
    let stream := ks (localId.take 16) iv
    let sh0 ← slice data Consts.IV_LENGTH (Consts.IV_LENGTH + Consts.STATIC_HEADER_LENGTH)
    let sh := xorStream stream 0 sh0
    if sh.length ≠ Consts.STATIC_HEADER_LENGTH then .err .headerLengthInvalid else do
      let pid ← slice sh 0 6
      if pid ≠ proto.pid then .err .headerDecryptionFailed else do
        let ver ← slice sh 6 8
        if ver ≠ proto.ver then .err .invalidVersion else do
          let flag ← index sh 8
          let nonce ← slice sh 9 (9 + Consts.MESSAGE_NONCE_LENGTH)
          let szB ← sliceFrom sh (Consts.STATIC_HEADER_LENGTH - 2)
          if szB.length ≠ 2 then .panic else
          let authSize := beNat szB
          let remaining ← sliceFrom data (Consts.IV_LENGTH + Consts.STATIC_HEADER_LENGTH)
          if authSize > remaining.length then .err .invalidAuthDataSize else do
            let auth0 ← slice data (Consts.IV_LENGTH + Consts.STATIC_HEADER_LENGTH)
                          (Consts.IV_LENGTH + Consts.STATIC_HEADER_LENGTH + authSize)
            let auth := xorStream stream sh0.length auth0
            let kind ← Kind.decode recDec flag auth
            let message ← sliceFrom data (Consts.IV_LENGTH + Consts.STATIC_HEADER_LENGTH + authSize)
            if !message.isEmpty && kind.isWhoareyou then .err .unknownPacket else
            .ok ({ iv := iv, nonce := nonce, kind := kind, message := message }, iv ++ sh ++ auth)

/-- Well-formed packets: what the Rust types and constructors guarantee, plus the size window. -/
structure WF (recDec : Bytes → Option Bytes) (proto : Proto) (p : Packet) : Prop where
  iv : p.iv.length = 16
  nonce : p.nonce.length = 12
  pid : proto.pid.length = 6
  ver : proto.ver.length = 2
  kind : match p.kind with
    | .message src => src.length = 32
    | .whoareyou idn seq => idn.length = 16 ∧ seq < 2 ^ 64 ∧ p.message = []
    | .handshake src sig eph record => src.length = 32 ∧ sig.length ≤ 255 ∧ eph.length ≤ 255 ∧
        (∀ r, record = some r → r ≠ [] ∧ recDec r = some r)
  authFits : p.kind.encode.length < 2 ^ 16
  sizeLo : 63 ≤ 16 + 23 + p.kind.encode.length + p.message.length
  sizeHi : 16 + 23 + p.kind.encode.length + p.message.length ≤ 1280

/-- Auth-data size consistent with the kind (conclusion of the strictness theorem). -/
def Kind.AuthConsistent : Kind → Bytes → Prop
  | .message src, auth => auth.length = 32 ∧ src = auth
  | .whoareyou _ _, auth => auth.length = 24
  | .handshake src sig eph _, auth =>
      34 + sig.length + eph.length ≤ auth.length ∧ src.length = 32 ∧
      sig.length ≤ 255 ∧ eph.length ≤ 255

end Discv5.Packet

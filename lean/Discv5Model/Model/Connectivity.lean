/-
Model of `src/service/connectivity_state.rs` (`ConnectivityState`: should the node go on advertising
the socket its peers voted for?) and of the places where `src/service.rs` consults and drives it:

* `handle_ip_vote_from_pong` asks `should_count_ip_vote(&socket)` first (the `countable` field of the
  service model's `Oracle` - here it is computed instead of being an input);
* a vote that changes the local record calls `enr_socket_update(&new_socket)`;
* `inject_session_established` calls `received_incoming_connection(socket)` for incoming sessions,
  before anything else;
* the `connectivity_state.poll()` arm of `Service::start` removes the socket of the family whose
  timer ran out from the local record (`remove_udp_socket` / `remove_udp6_socket`: sequence number
  + 1, re-signed) and pings every connected node of the routing table (`ping_connected_peers`).

Two clocks: the wait timers are `tokio::time::Sleep`s (`tok`, milliseconds of the tokio clock), the
"next connectivity test" stamps are `std::time::Instant`s (`inst`).  Both are inputs of a step.
`futures::future::select(ipv4_sleep, ipv6_sleep)` polls the IPv4 timer first: when both are due the
IPv4 one fires.
-/
import Discv5Model.Model.Service

namespace Discv5.Conn

open Discv5.KB
open Discv5.Svc
open Discv5.Svc.Svc

/-- `DURATION_UNTIL_NEXT_CONNECTIVITY_ATTEMPT` in milliseconds. -/
def retryMs : Nat := Consts.CONN_RETRY_SECS * 1000

/-- `NUMBER_OF_INCOMING_CONNECTIONS_REQUIRED_TO_BE_VALID` -/
def required : Nat := Consts.CONN_INCOMING_REQUIRED

structure Conn where
  /-- `duration_for_incoming_connections` (ms); `none`: always contactable, nothing is ever revoked -/
  duration : Option Nat
  /-- deadline of `ipv4_incoming_wait_time` on the tokio clock -/
  wait4 : Option Nat := none
  wait6 : Option Nat := none
  /-- `ipv4_next_connectivity_test` on the `Instant` clock -/
  next4 : Nat := 0
  next6 : Nat := 0
  cnt4 : Nat := 0
  cnt6 : Nat := 0
  deriving Repr, DecidableEq

namespace Conn

/-- `ConnectivityState::new` -/
def new (duration : Option Nat) (inst : Nat) : Conn :=
  { duration := duration, next4 := inst, next6 := inst }

def wait (k : Conn) (v6 : Bool) : Option Nat := if v6 then k.wait6 else k.wait4
def next (k : Conn) (v6 : Bool) : Nat := if v6 then k.next6 else k.next4
def cnt (k : Conn) (v6 : Bool) : Nat := if v6 then k.cnt6 else k.cnt4

/-- `should_count_ip_vote` -/
def shouldCount (k : Conn) (inst : Nat) (v6 : Bool) : Bool :=
  if k.duration.isNone then true
  else if v6 then decide (inst ≥ k.next6) else decide (inst ≥ k.next4)

/-- `enr_socket_update`: start (or restart) waiting for incoming sessions of that family. -/
def enrSocketUpdate (k : Conn) (tok : Nat) (v6 : Bool) : Conn :=
  match k.duration with
  | none => k
  | some d =>
    if v6 then { k with cnt6 := 0, wait6 := some (tok + d) }
    else { k with cnt4 := 0, wait4 := some (tok + d) }

/-- `received_incoming_connection` -/
def receivedIncoming (k : Conn) (v6 : Bool) : Conn :=
  if v6 then
    match k.wait6 with
    | none => k
    | some _ =>
      if k.cnt6 + 1 ≥ required then { k with cnt6 := k.cnt6 + 1, wait6 := none }
      else { k with cnt6 := k.cnt6 + 1 }
  else
    match k.wait4 with
    | none => k
    | some _ =>
      if k.cnt4 + 1 ≥ required then { k with cnt4 := k.cnt4 + 1, wait4 := none }
      else { k with cnt4 := k.cnt4 + 1 }

def due (w : Option Nat) (tok : Nat) : Bool :=
  match w with
  | some d => decide (d ≤ tok)
  | none => false

/-- Which timer `poll()` reports at tokio time `tok` (`false` = IPv4, polled first). -/
def firing (k : Conn) (tok : Nat) : Option Bool :=
  if due k.wait4 tok then some false else if due k.wait6 tok then some true else none

/-- The state change of `poll()` when the timer of family `v6` fired. -/
def fire (k : Conn) (inst : Nat) (v6 : Bool) : Conn :=
  if v6 then { k with next6 := inst + retryMs, wait6 := none }
  else { k with next4 := inst + retryMs, wait4 := none }

end Conn

/-! ### The service with its connectivity state -/

structure KSvc where
  svc : Svc
  conn : Conn

/-- `Service::spawn`: `ConnectivityState::new(config.auto_nat_listen_duration)`. -/
def KSvc.init (cfg : Cfg) (localRec : Rec) (autoNat : Option Nat) (inst : Nat) : KSvc :=
  { svc := Svc.init cfg localRec, conn := Conn.new autoNat inst }

/-- `ConfigBuilder::build`: without ENR updates nothing is revoked either. -/
def autoNatOf (enrUpdate : Bool) (configured : Option Nat) : Option Nat :=
  if enrUpdate then configured else none

/-- The family of the socket a PONG reports: the only step in which the service asks
`should_count_ip_vote`. -/
def pongFamily : Input → Option Bool
  | .response _ _ _ (.pong _ observed) => some observed.v6
  | _ => none

/-- The `SocketUpdated` events among the outputs of a service step. -/
def sockEvs (outs : List Out) : List Addr :=
  outs.filterMap fun
    | .event (.socketUpdated a) => some a
    | _ => none

/-- `remove_udp_socket` / `remove_udp6_socket` on the local record: the family's socket is gone, the
sequence number goes up by one, size and signature digest of the re-signed record are inputs. -/
def removeSocket (r : Rec) (v6 : Bool) (newSize newSig : Nat) : Rec :=
  if v6 then { r with udp6 := none, udp6Mapped := false, seq := r.seq + 1, size := newSize, sig := newSig }
  else { r with udp4 := none, seq := r.seq + 1, size := newSize, sig := newSig }

/-- `ping_connected_peers`: `kbuckets.iter()` (which applies due pending nodes), then a PING to every
connected entry in table order. -/
def pingConnected (s : Svc) : Svc × List Out :=
  let t := s.table.applyAll s.cfg.kb s.now
  let peers := (t.allNodes.filter (·.st.conn)).map (·.value)
  peers.foldl (fun (acc : Svc × List Out) r =>
    let (s1, o) := acc.1.sendPing r false
    (s1, acc.2 ++ o)) ({ s with table := t }, [])

inductive KInput where
  /-- a step of the service proper -/
  | svc (o : Oracle) (inp : Input)
  /-- the service loop polls the connectivity timers -/
  | timer (newSize newSig : Nat)

/-- One step at tokio time `tok` / `Instant` reading `inst`. -/
def KSvc.step (k : KSvc) (tok inst : Nat) : KInput → KSvc × List Out
  | .svc o inp =>
    let o' : Oracle := match pongFamily inp with
      | some f => { o with countable := k.conn.shouldCount inst f }
      | none => o
    let c1 := match inp with
      | .established _ addr true => k.conn.receivedIncoming addr.v6
      | _ => k.conn
    let r := k.svc.step o' inp
    let c2 := (sockEvs r.2).foldl (fun c a => c.enrSocketUpdate tok a.v6) c1
    ({ svc := r.1, conn := c2 }, r.2)
  | .timer sz sg =>
    match k.conn.firing tok with
    | none => (k, [])
    | some f =>
      let s1 := { k.svc with localRec := removeSocket k.svc.localRec f sz sg }
      let r := pingConnected s1
      ({ svc := r.1, conn := k.conn.fire inst f }, r.2)

/-- A history: each step with its two clock readings. -/
def KSvc.run (k : KSvc) : List (Nat × Nat × KInput) → KSvc × List Out
  | [] => (k, [])
  | (tok, inst, i) :: rest =>
    let r1 := k.step tok inst i
    let r2 := KSvc.run r1.1 rest
    (r2.1, r1.2 ++ r2.2)

end Discv5.Conn

/-
Model of the event handlers of `src/service.rs` (with `service/query_info.rs`, `ipmode.rs`,
`discv5.rs: add_enr / remove_node`, `permit_ban.rs: ban`, `TalkRequest`) on top of the routing
table model `Discv5.KB.Table` with values = abstract node records `Rec`.

Transliteration rules (see also `KBucket.lean`)
* A node record (`Enr`) is the abstract `Rec`: node id (as a number), sequence number, the UDP
  sockets it advertises (`ip * 65536 + port`), whether the IPv6 address is an IPv4-mapped one,
  the length of its RLP encoding, the result of the configured `table_filter` on it, and `sig`
  (a digest of its content: `Enr` equality compares the signature).
* `Instant::now()` = `now` (constant along a run: the table's pending timeout is 60 s of real time).
* Random request ids are the counter `nextReq` (the harness renames ids by first appearance).
* Queries are NOT modelled: which peers a query contacts and when it finishes are inputs
  (`Input.queryEmit`, `Input.queryFinished`).  The model keeps what the rest of the service
  reads from a query: its target (for the requested distances) and `untrusted_enrs` (`find_enr`).
* The IP-vote step of the PONG arm is an opaque sub-step (`Oracle`): whether the vote is
  countable, `require_more_ip_votes`, and the new local record if the vote changed it.
* `debug_unreachable!` is a no-op (release build).
* The handler channel is open while the service runs: `send` never fails in the service steps.
-/
import Discv5Model.Model.Closest
import Discv5Model.Model.Bytes

namespace Discv5.Svc

open Discv5.KB

/-! ### Records, addresses, contactability (`ipmode.rs`) -/

inductive IpMode where
  | ip4 | ip6 | dual
  deriving DecidableEq, Repr

/-- A socket address: family + `ip * 65536 + port`. -/
structure Addr where
  v6 : Bool
  sock : Nat
  deriving DecidableEq, Repr

def Addr.ip (a : Addr) : Nat := a.sock / 65536
def Addr.port (a : Addr) : Nat := a.sock % 65536

structure Rec where
  id : Nat
  seq : Nat
  udp4 : Option Nat
  udp6 : Option Nat
  udp6Mapped : Bool
  size : Nat
  passesFilter : Bool
  sig : Nat := 0
  deriving DecidableEq, Repr

/-- `canonical_ipv6_enr_addr`. -/
def canonical6 (r : Rec) : Option Nat :=
  r.udp6.bind fun s => if r.udp6Mapped then none else some s

/-- `IpMode::get_contactable_addr`. -/
def contactableAddr (m : IpMode) (r : Rec) : Option Addr :=
  match m with
  | .ip4 => r.udp4.map fun s => { v6 := false, sock := s }
  | .ip6 => (canonical6 r).map fun s => { v6 := true, sock := s }
  | .dual =>
    match (canonical6 r).map (fun s => ({ v6 := true, sock := s } : Addr)) with
    | some a => some a
    | none => r.udp4.map fun s => { v6 := false, sock := s }

def contactable (m : IpMode) (r : Rec) : Bool := (contactableAddr m r).isSome

/-! ### Distances (`kbucket/key.rs`, `query_info.rs`) -/

/-- `Key::log2_distance`: `256 - leading_zeros(a xor b)`, `None` for equal keys. -/
def log2Distance (a b : Nat) : Option Nat :=
  let d := a ^^^ b
  if d = 0 then none else some (d.log2 + 1)

/-- The `while` loop of `findnode_log2distance`. -/
def distLoop (distance size : Nat) : Nat → Nat → List Nat → List Nat
  | 0, _, acc => acc
  | fuel + 1, difference, acc =>
    if acc.length < size then
      let acc1 := if distance + difference ≤ Consts.NUM_BUCKETS then acc ++ [distance + difference] else acc
      let acc2 :=
        if acc1.length < size then
          (if difference ≤ distance then acc1 ++ [distance - difference] else acc1)
        else acc1
      distLoop distance size fuel (difference + 1) acc2
    else acc

/-- `findnode_log2distance(target, peer, size)` (`size ≤ 127`, otherwise the Rust code panics). -/
def findnodeLog2Distance (target peer size : Nat) : Option (List Nat) :=
  match log2Distance peer target with
  | none => none
  | some d => some ((distLoop d size 600 1 [d]).take size)

/-- `QueryInfo::rpc_request`: the distances of a query's FINDNODE to `peer`. -/
def requestDistances (target peer n : Nat) : List Nat :=
  (findnodeLog2Distance target peer n).getD [0]

/-! ### RLP lengths (what C14 `fits_datagram` needs of `Response::encode`) -/

/-- number of bytes of the minimal big-endian representation (`0` for `0`) -/
def beLen (n : Nat) : Nat := if n = 0 then 0 else n.log2 / 8 + 1

/-- `length_of_length`: bytes of an RLP string/list header for a payload of `len` bytes. -/
def rlpHeaderLen (len : Nat) : Nat := if len < 56 then 1 else 1 + beLen len

/-- length of `<[u8]>::encode` for a byte string of length `n` whose single byte (if `n = 1`) is
`< 0x80` iff `small`. -/
def rlpBytesLen (n : Nat) (small : Bool) : Nat :=
  if n = 1 && small then 1 else rlpHeaderLen n + n

def rlpBytesLenOf (b : Bytes) : Nat :=
  match b with
  | [x] => rlpBytesLen 1 (x.toNat < 0x80)
  | _ => rlpBytesLen b.length false

/-- `<u64>::length`. -/
def rlpUintLen (x : Nat) : Nat := if x < 0x80 then 1 else 1 + beLen x

/-- Length of `Response::encode` for `NODES { total, nodes }` with request id `rid` and records of
the given encoded sizes: message type byte, outer list header, id, total, inner list. -/
def nodesRespLen (rid : Bytes) (total : Nat) (sizes : List Nat) : Nat :=
  let inner := sizes.sum
  let payload := rlpBytesLenOf rid + rlpUintLen total + (rlpHeaderLen inner + inner)
  1 + rlpHeaderLen payload + payload

/-- Size on the wire of a message packet carrying `msgLen` bytes of plaintext:
masking IV + static header + message auth-data (source id) + ciphertext + AES-GCM tag. -/
def datagramLen (msgLen : Nat) : Nat :=
  Consts.IV_LENGTH + Consts.STATIC_HEADER_LENGTH + 32 + msgLen + 16

/-! ### Messages -/

inductive ReqBody where
  | ping (enrSeq : Nat)
  | findNode (distances : List Nat)
  | talk (protocol request : Bytes)
  deriving DecidableEq, Repr

inductive RespBody where
  | pong (enrSeq : Nat) (observed : Addr)
  | nodes (total : Nat) (recs : List Rec)
  | talk (response : Bytes)
  deriving DecidableEq, Repr

/-- `Response::match_request`. -/
def RespBody.matchRequest : RespBody → ReqBody → Bool
  | .pong .., .ping _ => true
  | .nodes .., .findNode _ => true
  | .talk _, .talk .. => true
  | _, _ => false

inductive Ev where
  | nodeInserted (id : Nat) (replaced : Option Nat)
  | discovered (r : Rec)
  | sessionEstablished (r : Rec) (addr : Addr)
  | talkRequest (rid : Bytes) (peer : Nat) (addr : Addr) (protocol body : Bytes)
  | socketUpdated (a : Addr)
  | unverifiableEnr (id : Nat)
  deriving DecidableEq, Repr

inductive CbRes where
  | nodes (recs : List Rec)
  | pong (enrSeq : Nat) (observed : Addr)
  | talk (response : Bytes)
  | err
  deriving DecidableEq, Repr

/-- Everything a service step emits. -/
inductive Out where
  /-- `HandlerIn::Request(contact, request)`; `id` is the request id (counter) -/
  | request (id peer : Nat) (addr : Addr) (body : ReqBody)
  /-- `HandlerIn::Response(node_address, response)` -/
  | response (peer : Nat) (addr : Addr) (rid : Bytes) (body : RespBody)
  /-- `HandlerIn::WhoAreYou(ref, known_enr)` -/
  | whoAreYou (peer : Nat) (addr : Addr) (known : Option Rec)
  | event (e : Ev)
  /-- `PERMIT_BAN_LIST.write().ban(node_address, _)` -/
  | ban (peer : Nat) (addr : Addr)
  /-- result delivered to a user-level callback of request `id` -/
  | callback (id : Nat) (r : CbRes)
  deriving DecidableEq, Repr

/-! ### NODES validation (`handle_rpc_response`, the two arms) -/

/-- The two arms of the distance filter in `handle_rpc_response`.  `peer` is the responder,
`requested` the distances of the active request.  Returns the records kept and whether the
responder is banned. -/
def acceptNodes (peer : Nat) (requested : List Nat) (recs : List Rec) : List Rec × Bool :=
  if requested.length == 1 && requested.head? == some 0 then
    -- we requested an ENR update
    let kept := recs.filter fun r => (log2Distance peer r.id).isNone
    (kept, decide (recs.length > 1) || decide (kept.length < recs.length))
  else
    let kept := recs.filter fun r =>
      match log2Distance peer r.id with
      | some d => requested.contains d
      | none => requested.contains 0
    (kept, decide (kept.length < recs.length))

/-- `NodesResponse` -/
structure NodesResp where
  count : Nat := 1
  received : List Rec := []
  deriving Repr

/-- Outcome of the packet accounting for one (already filtered) NODES packet. -/
inductive Acct where
  /-- more packets are awaited: the new accounting entry (the active request is re-inserted) -/
  | wait (nr : NodesResp)
  /-- the request is complete: all records collected -/
  | done (recs : List Rec)
  deriving Repr

/-- The `if total > 1 { … }` block of `handle_rpc_response`.  `cur` is
`active_nodes_responses.remove(&id)`. -/
def nodesAccount (maxNodesResponse : Nat) (total : Nat) (cur : Option NodesResp) (kept : List Rec) :
    Acct :=
  if total > 1 then
    let c := cur.getD {}
    if c.received.length < maxNodesResponse && c.count < total && c.count < Consts.MAX_NODES_RESPONSES then
      .wait { count := c.count + 1, received := c.received ++ kept }
    else .done (c.received ++ kept)
  else .done kept

/-! ### State -/

structure Cfg where
  ipMode : IpMode
  maxNodesResponse : Nat
  reportDiscovered : Bool := true
  /-- `config.enr_update` (`ip_votes.is_some()`) -/
  enrUpdate : Bool := false
  kb : KB.Cfg Rec

structure ActiveReq where
  id : Nat
  peer : Nat
  addr : Addr
  body : ReqBody
  /-- `query_id` -/
  query : Option Nat := none
  /-- a user-level callback is attached -/
  callback : Bool := false
  deriving Repr

/-- What the service reads of a running query. -/
structure Query where
  qid : Nat
  target : Nat
  untrusted : List Rec

structure Svc where
  cfg : Cfg
  localRec : Rec
  table : Table Rec
  active : List ActiveReq := []
  nodesResp : List (Nat × NodesResp) := []
  nextReq : Nat := 1
  query : Option Query := none
  nextQuery : Nat := 1
  now : Nat := 0

/-- Inputs of the opaque IP-vote sub-step (and of `require_more_ip_votes`). -/
structure Oracle where
  /-- `connectivity_state.should_count_ip_vote` -/
  countable : Bool := true
  /-- `require_more_ip_votes(..)` -/
  requireMore : Bool := false
  /-- the local record after `set_udp_socket` and the new socket, if the vote produced a new
  majority that differs from the advertised socket -/
  newLocal : Option (Rec × Addr) := none

def kbCfg (maxIncoming pendingTimeout : Nat) : KB.Cfg Rec :=
  { maxIncoming := maxIncoming, pendingTimeout := pendingTimeout,
    bucketFilter := fun _ _ => true, tableFilter := fun _ _ => true }

def Svc.init (cfg : Cfg) (localRec : Rec) : Svc :=
  { cfg := cfg, localRec := localRec, table := Table.init localRec.id }

/-! ### Table lookups -/

inductive Lookup where
  | present (v : Rec) (st : Status)
  | pending (v : Rec) (st : Status)
  | absent
  | self

/-- `Entry::new` on the bucket of `key` (no pending application). -/
def lookup (t : Table Rec) (key : Nat) : Lookup :=
  match bucketIndex t.localKey key with
  | none => .self
  | some i =>
    let b := t.bucket i
    match b.nodes.find? (fun n => n.key == key) with
    | some n => .present n.value n.st
    | none =>
      match b.pending with
      | some p => if p.node.key == key then .pending p.node.value p.node.st else .absent
      | none => .absent

namespace Svc

/-- `table.entry(key)`: applies the bucket's pending node, then classifies. -/
def entry (s : Svc) (key : Nat) : Svc × Lookup :=
  let t := s.table.entryTouch s.cfg.kb s.now key
  ({ s with table := t }, lookup t key)

/-- `PresentEntry::remove` / `PendingEntry::remove` on an entry obtained by `entry`:
`bucket.remove(key)` (which only finds stored nodes). -/
def entryRemove (s : Svc) (key : Nat) : Svc :=
  match bucketIndex s.table.localKey key with
  | none => s
  | some i =>
    let (b, _) := (s.table.bucket i).remove s.cfg.kb s.now s.table.tick key
    { s with table := s.table.setBucket i b }

/-- `Service::find_enr`: routing table first, then the untrusted records of running queries. -/
def findEnr (s : Svc) (id : Nat) : Svc × Option Rec :=
  let (s1, l) := s.entry id
  match l with
  | .present v _ => (s1, some v)
  | _ =>
    match s1.query with
    | some q => (s1, q.untrusted.find? (fun r => r.id == id))
    | none => (s1, none)

/-! ### Sending requests -/

/-- `send_rpc_request`. -/
def sendRpcRequest (s : Svc) (peer : Nat) (addr : Addr) (body : ReqBody) (query : Option Nat)
    (callback : Bool) : Svc × List Out :=
  let id := s.nextReq
  ({ s with nextReq := id + 1,
            active := s.active ++ [{ id := id, peer := peer, addr := addr, body := body,
                                     query := query, callback := callback }] },
   [.request id peer addr body])

/-- `send_ping` (`NodeContact::try_from_enr` fails for a non-contactable record). -/
def sendPing (s : Svc) (r : Rec) (callback : Bool) : Svc × List Out :=
  match contactableAddr s.cfg.ipMode r with
  | some a => s.sendRpcRequest r.id a (.ping s.localRec.seq) none callback
  | none => (s, [])

/-! ### `connection_updated` -/

inductive ConnStatus where
  | connected (r : Rec) (incoming : Bool)
  | pongReceived
  | disconnected

def connectionUpdated (s : Svc) (o : Oracle) (nodeId : Nat) : ConnStatus → Svc × List Out
  | .connected r incoming =>
    let (t, res) := s.table.insertOrUpdate s.cfg.kb s.now nodeId r { conn := true, incoming := incoming }
    let s1 := { s with table := t }
    match res with
    | .inserted =>
      let (s2, o1) := if !incoming then s1.sendPing r false else (s1, [])
      (s2, o1 ++ [.event (.nodeInserted nodeId none)])
    | .pending d =>
      -- ping the node that would be evicted
      let (s2, l) := s1.entry d
      match l with
      | .present v _ => s2.sendPing v false
      | _ => (s2, [])
    | .failed _ =>
      if !incoming && o.requireMore then s1.sendPing r false else (s1, [])
    | _ => (s1, [])
  | .pongReceived =>
    let (t, _) := s.table.updateNodeStatus s.cfg.kb s.now nodeId true none
    ({ s with table := t }, [])
  | .disconnected =>
    let (t, _) := s.table.updateNodeStatus s.cfg.kb s.now nodeId false none
    ({ s with table := t }, [])

/-- `inject_session_established` followed by `Event::SessionEstablished`. -/
def injectSessionEstablished (s : Svc) (o : Oracle) (r : Rec) (addr : Addr) (incoming : Bool) :
    Svc × List Out :=
  let ev := [Out.event (.sessionEstablished r addr)]
  if !contactable s.cfg.ipMode r then (s, ev) else
  if !r.passesFilter then (s, ev) else
  -- the direction of an existing stored node is kept (`get_bucket(..).get(..)`, no pending application)
  let dir := match bucketIndex s.table.localKey r.id with
    | some i =>
      match (s.table.bucket i).nodes.find? (fun n => n.key == r.id) with
      | some n => n.st.incoming
      | none => incoming
    | none => incoming
  let (s1, outs) := s.connectionUpdated o r.id (.connected r dir)
  (s1, outs ++ ev)

/-! ### `discovered` -/

/-- The body of the `retain` closure of `discovered` for one record: new state, whether the
record is retained, events. -/
def discoveredOne (s : Svc) (source : Nat) (r : Rec) : Svc × Bool × List Out :=
  if r.id == s.localRec.id then (s, false, []) else
  let evs := if s.cfg.reportDiscovered then [Out.event (.discovered r)] else []
  if r.passesFilter && contactable s.cfg.ipMode r then
    let (s1, l) := s.entry r.id
    let mustUpdate := match l with
      | .present v _ => decide (v.seq < r.seq)
      | .pending v _ => decide (v.seq < r.seq)
      | _ => false
    if mustUpdate then
      let (t, res) := s1.table.updateNode s1.cfg.kb s1.now r.id r none
      let s2 := { s1 with table := t }
      if res.isFailed then (s2, false, evs) else (s2, source != r.id, evs)
    else (s1, source != r.id, evs)
  else
    -- not contactable or refused by the table filter: remove an older stored version
    let (s1, l) := s.entry r.id
    let s2 := match l with
      | .present v _ => if v.seq < r.seq then s1.entryRemove r.id else s1
      | .pending v _ => if v.seq < r.seq then s1.entryRemove r.id else s1
      | _ => s1
    (s2, false, evs)

def discoveredLoop : Svc → Nat → List Rec → List Rec → List Out → Svc × List Rec × List Out
  | s, _, [], kept, outs => (s, kept, outs)
  | s, source, r :: rs, kept, outs =>
    let (s1, keep, o) := s.discoveredOne source r
    discoveredLoop s1 source rs (if keep then kept ++ [r] else kept) (outs ++ o)

/-- `discovered`: the retained records are added to the untrusted records of the query the request
belonged to (if it is still running). -/
def discovered (s : Svc) (source : Nat) (recs : List Rec) (query : Option Nat) : Svc × List Out :=
  let (s1, kept, outs) := discoveredLoop s source recs [] []
  match query, s1.query with
  | some qid, some q =>
    if q.qid == qid then
      let untrusted := kept.foldl
        (fun (u : List Rec) r => if u.any (fun e => e.id == r.id) then u else u ++ [r]) q.untrusted
      ({ s1 with query := some { q with untrusted := untrusted } }, outs)
    else (s1, outs)
  | _, _ => (s1, outs)

/-! ### Serving requests (`handle_rpc_request`, `send_nodes_response`) -/

def insertSorted (x : Nat) : List Nat → List Nat
  | [] => [x]
  | y :: ys => if x ≤ y then x :: y :: ys else y :: insertSorted x ys

/-- `sort_unstable` -/
def sortNat (l : List Nat) : List Nat := l.foldr insertSorted []

/-- `dedup` (adjacent duplicates) -/
def dedupAdj : List Nat → List Nat
  | [] => []
  | [x] => [x]
  | x :: y :: rest => if x == y then dedupAdj (y :: rest) else x :: dedupAdj (y :: rest)

def splitLimit : Nat := Consts.MAX_PACKET_SIZE - Consts.NODES_SPLIT_MARGIN

/-- State of the packing loop: the finished packets, the packet being filled
(`to_send_nodes[rpc_index]`) and `total_size`. -/
structure SplitSt where
  done : List (List Rec) := []
  cur : List Rec := []
  size : Nat := 0

/-- One iteration of the packing loop. -/
def splitStep (st : SplitSt) (r : Rec) : SplitSt :=
  if r.size + st.size < splitLimit then { st with cur := st.cur ++ [r], size := st.size + r.size }
  else { done := st.done ++ [st.cur], cur := [r], size := r.size }

/-- `to_send_nodes`: starts with one empty packet. -/
def splitPackets (recs : List Rec) : List (List Rec) :=
  let st := recs.foldl splitStep {}
  st.done ++ [st.cur]

/-- The records `send_nodes_response` collects: own record iff the smallest requested distance
is 0, then `nodes_by_distances` without the requester. -/
def nodesToSend (s : Svc) (requester : Nat) (distances : List Nat) : Svc × List Rec :=
  let ds := dedupAdj (sortNat distances)
  let (own, ds1) := match ds with
    | 0 :: rest => ([s.localRec], rest)
    | _ => ([], ds)
  if ds1.isEmpty then (s, own) else
  let (t, ns) := s.table.nodesByDistances s.cfg.kb s.now ds1 s.cfg.maxNodesResponse
  ({ s with table := t }, own ++ (ns.filter (fun n => n.key != requester)).map (·.value))

/-- `send_nodes_response`: the packets (lists of records) and `total`. -/
def nodesPackets (recs : List Rec) : List (List Rec) × Nat :=
  if recs.isEmpty then ([[]], 1)
  else
    let ps := splitPackets recs
    (ps, ps.length)

def sendNodesResponse (s : Svc) (peer : Nat) (addr : Addr) (rid : Bytes) (distances : List Nat) :
    Svc × List Out :=
  let (s1, recs) := s.nodesToSend peer distances
  let (ps, total) := nodesPackets recs
  (s1, ps.map fun p => Out.response peer addr rid (.nodes total p))

/-- `handle_rpc_request`. -/
def handleRequest (s : Svc) (peer : Nat) (addr : Addr) (rid : Bytes) : ReqBody → Svc × List Out
  | .findNode ds => s.sendNodesResponse peer addr rid ds
  | .ping enrSeq =>
    let (s1, l) := s.entry peer
    let toRequest := match l with
      | .present v _ => if v.seq < enrSeq then some v else none
      | .pending v _ => if v.seq < enrSeq then some v else none
      | _ => none
    let (s2, o1) := match toRequest with
      | some v =>
        match contactableAddr s1.cfg.ipMode v with
        | some a => s1.sendRpcRequest v.id a (.findNode [Consts.ENR_REQUEST_DISTANCE]) none false
        | none => (s1, [])
      | none => (s1, [])
    let o2 := if addr.port != 0 then [Out.response peer addr rid (.pong s2.localRec.seq addr)] else []
    (s2, o1 ++ o2)
  | .talk protocol request => (s, [.event (.talkRequest rid peer addr protocol request)])

/-! ### Responses (`handle_rpc_response`) -/

def removeActive (s : Svc) (id : Nat) : Svc × Option ActiveReq :=
  match s.active.find? (fun a => a.id == id) with
  | some a => ({ s with active := s.active.filter (fun b => b.id != id) }, some a)
  | none => (s, none)

def takeNodesResp (s : Svc) (id : Nat) : Svc × Option NodesResp :=
  match s.nodesResp.find? (fun p => p.1 == id) with
  | some p => ({ s with nodesResp := s.nodesResp.filter (fun q => q.1 != id) }, some p.2)
  | none => (s, none)

/-- `handle_ip_vote_from_pong` with the vote itself opaque. -/
def ipVote (s : Svc) (o : Oracle) (peer : Nat) : Svc × List Out :=
  if !o.countable then (s, []) else
  if !s.cfg.enrUpdate then (s, []) else
  let (s1, l) := s.entry peer
  let connOut := match l with
    | .present _ st => st.conn && !st.incoming
    | _ => false
  if !(connOut || o.requireMore) then (s1, []) else
  match o.newLocal with
  | some (r, a) => ({ s1 with localRec := r }, [.event (.socketUpdated a)])
  | none => (s1, [])

def handleResponse (s : Svc) (o : Oracle) (peer : Nat) (addr : Addr) (id : Nat) (body : RespBody) :
    Svc × List Out :=
  match s.removeActive id with
  | (_, none) => (s, [])
  | (s0, some req) =>
    -- Both early returns below drop the removed request, and with it a user-level callback: the
    -- waiting API future then resolves to an error (`oneshot` sender dropped).
    let dropped : List Out := if req.callback then [.callback id .err] else []
    -- response from an address other than the one the request was sent to
    if req.peer != peer || req.addr != addr then (s0, dropped) else
    if !body.matchRequest req.body then (s0, dropped) else
    match body with
    | .nodes total recs =>
      let requested := match req.body with | .findNode ds => ds | _ => []
      if req.callback then (s0, [.callback id (.nodes recs)]) else
      let (kept, ban) := acceptNodes peer requested recs
      let banOut := if ban then [Out.ban peer addr] else []
      let (s1, cur) := if total > 1 then s0.takeNodesResp id else (s0, none)
      match nodesAccount s0.cfg.maxNodesResponse total cur kept with
      | .wait nr =>
        ({ s1 with nodesResp := s1.nodesResp ++ [(id, nr)], active := s1.active ++ [req] }, banOut)
      | .done all =>
        let (s2, _) := s1.takeNodesResp id
        let (s3, outs) := s2.discovered peer all req.query
        (s3, banOut ++ outs)
    | .pong enrSeq observed =>
      if req.callback then (s0, [.callback id (.pong enrSeq observed)]) else
      let (s1, o1) := s0.ipVote o peer
      let (s2, known) := s1.findEnr peer
      match known with
      | some r =>
        let (s3, o2) :=
          if r.seq < enrSeq then s2.sendRpcRequest req.peer req.addr (.findNode [Consts.ENR_REQUEST_DISTANCE]) none false
          else (s2, [])
        let (s4, o3) :=
          if contactable s3.cfg.ipMode r then s3.connectionUpdated o peer .pongReceived else (s3, [])
        (s4, o1 ++ o2 ++ o3)
      | none => (s2, o1)
    | .talk response =>
      if req.callback then (s0, [.callback id (.talk response)]) else (s0, [])

/-! ### Failures, unverifiable records, WHOAREYOU -/

/-- `rpc_failure`. -/
def rpcFailure (s : Svc) (o : Oracle) (id : Nat) : Svc × List Out :=
  match s.removeActive id with
  | (_, none) => (s, [])
  | (s0, some req) =>
    if req.callback then (s0, [.callback id .err]) else
    let (s1, o1) := match req.body with
      | .findNode _ =>
        match s0.takeNodesResp id with
        | (s1, some nr) =>
          if !nr.received.isEmpty then s1.discovered req.peer nr.received req.query else (s1, [])
        | (s1, none) => (s1, [])
      | _ => (s0, [])
    let (s2, o2) := s1.connectionUpdated o req.peer .disconnected
    (s2, o1 ++ o2)

/-- `HandlerOut::UnverifiableEnr`. -/
def unverifiable (s : Svc) (id : Nat) : Svc × List Out :=
  let (t, _) := s.table.remove s.cfg.kb s.now id
  ({ s with table := t }, [.event (.unverifiableEnr id)])

/-- `HandlerOut::WhoAreYou`. -/
def whoAreYou (s : Svc) (peer : Nat) (addr : Addr) : Svc × List Out :=
  let (s1, known) := s.findEnr peer
  (s1, [.whoAreYou peer addr known])

/-! ### `Discv5` API -/

inductive AddRes where
  | ok | err
  deriving DecidableEq, Repr

/-- `Discv5::add_enr`. -/
def addEnr (s : Svc) (r : Rec) : Svc × AddRes :=
  if !contactable s.cfg.ipMode r then (s, .err) else
  if !r.passesFilter then (s, .err) else
  let (t, res) := s.table.insertOrUpdate s.cfg.kb s.now r.id r { conn := false, incoming := true }
  ({ s with table := t }, match res with | .failed _ => .err | .panic => .err | _ => .ok)

/-- `Discv5::remove_node`. -/
def removeNode (s : Svc) (id : Nat) : Svc × Bool :=
  let (t, r) := s.table.remove s.cfg.kb s.now id
  ({ s with table := t }, r)

/-- `start_findnode_query`: `closest_values` of the whole table become the untrusted records; no
query is started on an empty table. -/
def startQuery (s : Svc) (target : Nat) : Svc :=
  let (t, ns) := s.table.closest s.cfg.kb s.now target
  let s1 := { s with table := t }
  if ns.isEmpty then s1
  else { s1 with query := some { qid := s1.nextQuery, target := target, untrusted := ns.map (·.value) },
                 nextQuery := s1.nextQuery + 1 }

/-- `send_rpc_query` for a peer the query pool selected (given). -/
def sendRpcQuery (s : Svc) (peer : Nat) : Svc × List Out :=
  match s.query with
  | none => (s, [])
  | some q =>
    let (s1, known) := s.findEnr peer
    match known with
    | some r =>
      match contactableAddr s1.cfg.ipMode r with
      | some a =>
        s1.sendRpcRequest r.id a
          (.findNode (requestDistances q.target peer Consts.DISTANCES_TO_REQUEST_PER_PEER)) (some q.qid) false
      | none => (s1, [])
    | none => (s1, [])

/-! ### One step -/

inductive Input where
  | established (r : Rec) (addr : Addr) (incoming : Bool)
  | request (peer : Nat) (addr : Addr) (rid : Bytes) (body : ReqBody)
  | response (peer : Nat) (addr : Addr) (id : Nat) (body : RespBody)
  | requestFailed (id : Nat)
  | unverifiable (id : Nat)
  | whoAreYou (peer : Nat) (addr : Addr)
  | addEnr (r : Rec)
  | removeNode (id : Nat)
  | apiPing (r : Rec)
  | apiFindNode (r : Rec) (distances : List Nat)
  | apiTalk (r : Rec) (protocol request : Bytes)
  | startQuery (target : Nat)
  /-- the query pool asks to contact `peer` (given) -/
  | queryEmit (peer : Nat)
  /-- the query pool reports the query finished / timed out (given) -/
  | queryFinished

def step (s : Svc) (o : Oracle) : Input → Svc × List Out
  | .established r addr incoming => s.injectSessionEstablished o r addr incoming
  | .request peer addr rid body => s.handleRequest peer addr rid body
  | .response peer addr id body => s.handleResponse o peer addr id body
  | .requestFailed id => s.rpcFailure o id
  | .unverifiable id => s.unverifiable id
  | .whoAreYou peer addr => s.whoAreYou peer addr
  | .addEnr r => ((s.addEnr r).1, [])
  | .removeNode id => ((s.removeNode id).1, [])
  | .apiPing r => s.sendPing r true
  | .apiFindNode r ds =>
    match contactableAddr s.cfg.ipMode r with
    | some a => s.sendRpcRequest r.id a (.findNode ds) none true
    | none => (s, [])
  | .apiTalk r p q =>
    match contactableAddr s.cfg.ipMode r with
    | some a => s.sendRpcRequest r.id a (.talk p q) none true
    | none => (s, [])
  | .startQuery target => (s.startQuery target, [])
  | .queryEmit peer => s.sendRpcQuery peer
  | .queryFinished => ({ s with query := none }, [])

def run (s : Svc) : List (Oracle × Input) → Svc × List Out
  | [] => (s, [])
  | (o, i) :: rest =>
    let (s1, o1) := s.step o i
    let (s2, o2) := run s1 rest
    (s2, o1 ++ o2)

end Svc

/-! ### TALK requests (`TalkRequest`) -/

/-- A `TalkRequest` handed to the application: `sender` = `self.sender.is_some()`. -/
structure TalkReq where
  rid : Bytes
  peer : Nat
  addr : Addr
  sender : Bool := true
  deriving DecidableEq, Repr

inductive TalkResult where
  | ok
  | channelClosed
  /-- `self.sender.take().unwrap()` on `None` (not reachable: `respond` consumes the object) -/
  | panic
  deriving DecidableEq, Repr

/-- `TalkRequest::respond`: takes the sender; `chanOpen` = the handler side of the channel is alive. -/
def TalkReq.respond (t : TalkReq) (payload : Bytes) (chanOpen : Bool) :
    TalkReq × TalkResult × List Out :=
  if !t.sender then (t, .panic, []) else
  let t' := { t with sender := false }
  if chanOpen then (t', .ok, [.response t.peer t.addr t.rid (.talk payload)])
  else (t', .channelClosed, [])

/-- `Drop for TalkRequest`. -/
def TalkReq.drop (t : TalkReq) (chanOpen : Bool) : List Out :=
  if !t.sender then [] else
  if chanOpen then [.response t.peer t.addr t.rid (.talk [])] else []

/-- What the application does with a request object.  Rust's ownership discipline allows exactly
`respond` (which consumes the object and is followed by its `Drop`) or a plain drop. -/
inductive TalkUse where
  | respond (payload : Bytes)
  | dropOnly
  deriving DecidableEq, Repr

/-- The whole life of a request object: result of `respond` (if called) and everything sent. -/
def TalkReq.life (t : TalkReq) (chanOpen : Bool) : TalkUse → Option TalkResult × List Out
  | .respond p =>
    let (t1, r, o1) := t.respond p chanOpen
    (some r, o1 ++ t1.drop chanOpen)
  | .dropOnly => (none, t.drop chanOpen)

end Discv5.Svc

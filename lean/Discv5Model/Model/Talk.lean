/-
The application side of TALK requests: a world of request objects (`TalkRequest`, see the TALK
section of `Model/Service.lean`) that the application holds concurrently and responds to, drops or
keeps in any order, with the service shutting down at any point.

`src/service.rs`: `handle_rpc_request` (`RequestBody::Talk` → `TalkRequest { id, node_address,
sender: Some(handler_send.clone()) }` handed out as `Event::TalkRequest`), `TalkRequest::respond`,
`impl Drop for TalkRequest`.
-/
import Discv5Model.Model.Service

namespace Discv5.Talk
open Discv5.Svc

/-- Request objects handed to the application so far (`none` once consumed: Rust's ownership lets an
object be used once) and whether the service (the handler end of the channel) is still alive. -/
structure World where
  reqs : List (Option TalkReq) := []
  running : Bool := true
  deriving Repr

inductive Op where
  /-- a TALKREQ arrives from the handler: the service turns it into an object for the application -/
  | deliver (rid : Bytes) (peer : Nat) (addr : Addr)
  /-- the application consumes object number `i` (0-based, in delivery order) -/
  | use (i : Nat) (u : TalkUse)
  | shutdown
  deriving Repr

/-- One step.  Every output is tagged with the number of the object that caused it. -/
def World.step (w : World) : Op → World × Option TalkResult × List (Nat × Out)
  | .deliver rid peer addr =>
    -- a stopped service does not hand out anything any more
    if w.running then
      ({ w with reqs := w.reqs ++ [some { rid := rid, peer := peer, addr := addr }] }, none, [])
    else (w, none, [])
  | .use i u =>
    match w.reqs[i]? with
    | some (some t) =>
      let r := t.life w.running u
      ({ w with reqs := w.reqs.set i none }, r.1, r.2.map (fun o => (i, o)))
    | _ => (w, none, [])
  | .shutdown => ({ w with running := false }, none, [])

/-- A whole history: final world, every result returned by `respond`, every tagged output. -/
def World.run (w : World) : List Op → World × List TalkResult × List (Nat × Out)
  | [] => (w, [], [])
  | op :: rest =>
    let s := w.step op
    let r := World.run s.1 rest
    (r.1, s.2.1.toList ++ r.2.1, s.2.2 ++ r.2.2)

/-- The payload the application asked for: its own if it responds, empty if it only drops. -/
def payloadOf : TalkUse → Bytes
  | .respond p => p
  | .dropOnly => []

/-- Outputs caused by object `i`. -/
def outputsOf (i : Nat) (outs : List (Nat × Out)) : List Out :=
  (outs.filter (fun p => p.1 == i)).map (·.2)

end Discv5.Talk

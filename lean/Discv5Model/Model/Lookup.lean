/-
The service's lookups: `Model/Service.lean` (the service proper, which so far was *told* which
peer a lookup wants to contact and when it ends) composed with `Model/Query.lean` (the lookup state
machines `FindNodeQuery` / `PredicateQuery`).  This is the glue of `src/service.rs`:

* `start_findnode_query` / `start_predicate_query`: the routing table's entries by closeness to the
  target become the lookup's candidates and its untrusted records; nothing is started on an empty
  table (the caller gets an empty result at once);
* the `query_event_poll` arm of `Service::start`: `Waiting(peer)` → `send_rpc_query` (a record that is
  unknown or not contactable counts as a failed request), `Finished` → the result ids are turned
  into records (untrusted records first, `swap_remove`d, then the routing table) and handed over;
* `handle_rpc_response` → `discovered(.., query_id)` → `on_success(source, retained records)`;
* `rpc_failure` → `on_failure(peer)`, or `discovered` on the packets collected so far.

One lookup at a time (the correspondence harness starts the next one when the previous ended).  The
`Instant`s the lookup reads are inputs (`now`); the pool-level query timeout (`QueryPool::poll`) is
not in this composition - it is modelled and proved in `Model/Query.lean` (`Pool`).
-/
import Discv5Model.Model.Service
import Discv5Model.Model.Query

namespace Discv5.Lookup

open Discv5.KB
open Discv5.Svc
open Discv5.Svc.Svc

abbrev Q := Discv5.Query.Q

structure LSvc where
  svc : Svc
  /-- the running lookup's state machine (`self.queries`), `none` when no lookup runs -/
  q : Option Q := none

/-- Static parameters: `query_parallelism`, `query_peer_timeout`, and the predicate of a predicate
lookup evaluated on a record. -/
structure LCfg where
  parallelism : Nat := 3
  peerTimeout : Nat := 2000
  pred : Rec → Bool := fun _ => true

/-- What a service step tells the running lookup. -/
inductive QEffect where
  | success (source : Nat) (kept : List Rec)
  | failure (peer : Nat)

/-- Is `query_id` the running lookup?  (`self.queries.get_mut(query_id)`) -/
def isRunning (s : Svc) (query : Option Nat) : Bool :=
  match query, s.query with
  | some qid, some q => q.qid == qid
  | _, _ => false

/-- `handle_rpc_response`: a NODES answer that completes a request of the running lookup reports
the records `discovered` retained. -/
def respEffect (s : Svc) (peer : Nat) (addr : Addr) (id : Nat) (body : RespBody) : Option QEffect :=
  match s.removeActive id with
  | (_, none) => none
  | (s0, some req) =>
    if req.peer != peer || req.addr != addr then none else
    if !body.matchRequest req.body then none else
    match body with
    | .nodes total recs =>
      let requested := match req.body with | .findNode ds => ds | _ => []
      if req.callback then none else
      let (kept, _) := acceptNodes peer requested recs
      let (s1, cur) := if total > 1 then s0.takeNodesResp id else (s0, none)
      match nodesAccount s0.cfg.maxNodesResponse total cur kept with
      | .wait _ => none
      | .done all =>
        let (s2, _) := s1.takeNodesResp id
        let (_, keptD, _) := discoveredLoop s2 peer all [] []
        if isRunning s req.query then some (.success peer keptD) else none
    | _ => none

/-- `rpc_failure`: a failed request of the running lookup is a failure of that peer, unless
packets of its answer were collected already - those are processed as a (partial) success. -/
def failEffect (s : Svc) (id : Nat) : Option QEffect :=
  match s.removeActive id with
  | (_, none) => none
  | (s0, some req) =>
    if req.callback then none else
    match req.body with
    | .findNode _ =>
      match s0.takeNodesResp id with
      | (s1, some nr) =>
        if !nr.received.isEmpty then
          let (_, keptD, _) := discoveredLoop s1 req.peer nr.received [] []
          if isRunning s req.query then some (.success req.peer keptD) else none
        else none
      | (_, none) => if isRunning s req.query then some (.failure req.peer) else none
    | _ => if isRunning s req.query then some (.failure req.peer) else none

def effectOf (s : Svc) : Input → Option QEffect
  | .response peer addr id body => respEffect s peer addr id body
  | .requestFailed id => failEffect s id
  | _ => none

def applyEffect (c : LCfg) (q : Q) : QEffect → Q
  | .success src kept => Query.onSuccess q src (kept.map fun r => (r.id, c.pred r))
  | .failure p => Query.onFailure q p

/-! ### The `query_event_poll` arm -/

/-- `Vec::swap_remove`. -/
def swapRemove (l : List Rec) (i : Nat) : List Rec :=
  match l.getLast? with
  | none => l
  | some last => (l.set i last).dropLast

/-- The loop over `result.closest_peers` in the `Finished | TimedOut` arm: an untrusted record of
that id is taken (and `swap_remove`d), else the routing table is asked. -/
def collect : Svc → List Rec → List Nat → List Rec → Svc × List Rec
  | s, _, [], found => (s, found)
  | s, untrusted, id :: ids, found =>
    match untrusted.findIdx? (fun r => r.id == id) with
    | some i =>
      match untrusted[i]? with
      | some r => collect s (swapRemove untrusted i) ids (found ++ [r])
      | none => collect s untrusted ids found
    | none =>
      let (s1, known) := s.findEnr id
      match known with
      | some r => collect s1 untrusted ids (found ++ [r])
      | none => collect s1 untrusted ids found

/-- The lookup finished: it leaves the pool, its result is turned into records. -/
def finishLookup (s : Svc) (q : Q) : Svc × List Rec :=
  let untrusted := match s.query with | some qq => qq.untrusted | none => []
  let s1 := (s.step {} .queryFinished).1
  collect s1 untrusted (Query.intoResult q) []

/-- The service loop serves the lookup until it has nothing more to say: requests for the peers it
selects (a request that cannot be sent is a failure of that peer), then either it waits or it is
finished.  `fuel` bounds the number of peers handled in one go (each is a candidate that was not
contacted before). -/
def pumpLoop (now : Nat) : Nat → Svc → Q → List Out → Svc × Option Q × List Out × Option (List Rec)
  | 0, s, q, outs => (s, some q, outs, none)
  | fuel + 1, s, q, outs =>
    match Query.next q now with
    | (q1, .waiting (some p)) =>
      let (s1, o) := s.sendRpcQuery p
      if o.isEmpty then pumpLoop now fuel s1 (Query.onFailure q1 p) outs
      else pumpLoop now fuel s1 q1 (outs ++ o)
    | (q1, .finished) =>
      let (s1, found) := finishLookup s q1
      (s1, none, outs, some found)
    | (q1, _) => (s, some q1, outs, none)

def pump (now : Nat) (k : LSvc) : LSvc × List Out × Option (List Rec) :=
  match k.q with
  | none => (k, [], none)
  | some q =>
    let r := pumpLoop now (q.peers.length + 1) k.svc q []
    ({ svc := r.1, q := r.2.1 }, r.2.2.1, r.2.2.2)

/-! ### Steps -/

inductive LInput where
  /-- a step of the service proper -/
  | svc (o : Oracle) (inp : Input)
  /-- `Discv5::find_node(target)` (`numResults = none`) / `find_node_predicate(target, pred, n)` -/
  | lookup (target : Nat) (numResults : Option Nat)

/-- One step: outputs of the service, and the result of a lookup that ended in this step. -/
def LSvc.step (c : LCfg) (now : Nat) (k : LSvc) : LInput → LSvc × List Out × Option (List Rec)
  | .svc o inp =>
    let eff := effectOf k.svc inp
    let r := k.svc.step o inp
    let q1 := match k.q, eff with
      | some q, some e => some (applyEffect c q e)
      | q, _ => q
    let p := pump now { svc := r.1, q := q1 }
    (p.1, r.2 ++ p.2.1, p.2.2)
  | .lookup target numResults =>
    -- (one lookup at a time: a second one while the first runs is outside this composition)
    if k.q.isSome then (k, [], none) else
    let s1 := k.svc.startQuery target
    match s1.query with
    | none => ({ svc := s1, q := none }, [], some [])
    | some qq =>
      let known := qq.untrusted.map fun r => (r.id, c.pred r)
      let q : Q := match numResults with
        | none => Query.withConfig .closest
            { parallelism := c.parallelism, numResults := Consts.MAX_NODES_PER_BUCKET, peerTimeout := c.peerTimeout }
            target known
        | some n => Query.withConfig .predicate
            { parallelism := c.parallelism, numResults := n, peerTimeout := c.peerTimeout } target known
      pump now { svc := s1, q := some q }

def LSvc.run (c : LCfg) (k : LSvc) : List (Nat × LInput) → LSvc × List Out × List (List Rec)
  | [] => (k, [], [])
  | (now, i) :: rest =>
    let r1 := k.step c now i
    let r2 := LSvc.run c r1.1 rest
    (r2.1, r1.2.1 ++ r2.2.1, (match r1.2.2 with | some x => [x] | none => []) ++ r2.2.2)

end Discv5.Lookup

/-
Symbolic model of `src/handler/mod.rs` (+ `session.rs`, `active_requests.rs`, `request_call.rs`,
decision logic of `crypto/mod.rs`).

Cryptography is symbolic (Dolev–Yao): signatures, DH-derived session keys, AEAD ciphertexts and
node records are *terms*; `verify` / `decrypt` succeed exactly on matching terms.  Random values
(nonces, id-nonces, ephemeral keys, internal request ids) are fresh names drawn from per-category
counters of the node (`fresh`).  Timers (`HashMapDelay`) are deadlines in the state, fired by the
`adv` event in deadline order.  `sessions` is the `LruTimeCache` (front = least recently used),
stamped with the real-time clock `rt` (the cache reads `std::time::Instant`, the request / challenge
timers read the tokio clock `now`).

Every function is a transliteration of the Rust function of the same name.
-/
namespace Discv5.H

abbrev Id := Nat
structure Addr where
  v6 : Bool
  n : Nat
  deriving Repr, DecidableEq, Inhabited

structure NA where
  id : Id
  addr : Addr
  deriving Repr, DecidableEq, Inhabited

/-- A node record: only the holder of key `id` can create it (records are self-signed). -/
structure Rec where
  id : Id
  seq : Nat
  udp4 : Option Nat
  udp6 : Option Nat
  deriving Repr, DecidableEq, Inhabited

/-- Symbolic session key: HKDF(ECDH(ephemeral `eph`, static key of `rcp`), challenge data `cd`,
ids `ini`‖`rcp`); `toRcp = true` is the initiator→recipient key. -/
structure Key where
  eph : Nat
  cd : Nat
  ini : Id
  rcp : Id
  toRcp : Bool
  deriving Repr, DecidableEq, Inhabited

/-- Id-nonce signature: made with the static secret key of `signer` over (challenge data,
ephemeral public key, destination id). -/
structure Sig where
  signer : Id
  cd : Nat
  eph : Nat
  dst : Id
  deriving Repr, DecidableEq, Inhabited

inductive RespBody where
  | nodes (total : Nat) (recs : List Rec)
  | other (code : Nat)
  deriving Repr, DecidableEq, Inhabited

inductive Msg where
  | request (rid : Nat) (body : Nat)
  | response (rid : Nat) (rb : RespBody)
  | undecodable
  deriving Repr, DecidableEq, Inhabited

/-- AEAD ciphertext term. `adOk` says whether it is presented with the associated data it was
sealed with (the packet's own IV ‖ header). -/
inductive Ct where
  /-- `ctr` is the 4-byte big-endian prefix of the 12-byte nonce (the session's message counter
  for packets made by `encrypt_message`); `nonce` names the whole 12 bytes. -/
  | enc (key : Key) (nonce : Nat) (ctr : Nat) (pt : Msg) (adOk : Bool)
  | garbage
  deriving Repr, DecidableEq, Inhabited

inductive Pkt where
  | message (src : Id) (nonce : Nat) (ct : Ct)
  | whoareyou (nonce : Nat) (cd : Nat) (enrSeq : Nat)
  | handshake (src : Id) (nonce : Nat) (sig : Sig) (eph : Nat) (record : Option Rec) (ct : Ct)
  deriving Repr, DecidableEq, Inhabited

def Pkt.nonce : Pkt → Nat
  | .message _ n _ => n | .whoareyou n _ _ => n | .handshake _ n _ _ _ _ => n

/-- `NodeContact`: an address plus either the full record or just the public key. -/
structure Contact where
  na : NA
  record : Option Rec
  /-- the contact's public key supports the key agreement (`false`: an Ed25519 identity key, for
  which `Session::encrypt_with_header` fails with `KeyTypeNotSupported`) -/
  keyOk : Bool := true
  deriving Repr, DecidableEq, Inhabited

inductive Err where
  | timeout | invalidRemotePacket | invalidRemoteEnr | selfRequest
  deriving Repr, DecidableEq, Inhabited

inductive Out where
  | established (r : Rec) (addr : Addr) (outgoing : Bool)
  | request (na : NA) (rid : Nat) (body : Nat)
  | response (na : NA) (rid : Nat) (rb : RespBody)
  | wru (na : NA) (nonce : Nat)
  | failed (rid : Nat) (e : Err)
  | unverifiable (r : Rec) (addr : Addr) (id : Id)
  | expired (nas : List NA)
  | send (na : NA) (p : Pkt)
  deriving Repr, DecidableEq, Inhabited

structure Keys where
  enc : Key
  dec : Key
  deriving Repr, DecidableEq, Inhabited

structure Session where
  keys : Keys
  oldKeys : Option Keys := none
  awaitingEnr : Option Nat := none
  counter : Nat := 0
  deriving Repr, DecidableEq, Inhabited

structure Challenge where
  cd : Nat
  remoteRec : Option Rec
  deriving Repr, DecidableEq, Inhabited

/-- `RequestCall` (+ its timer in `active_requests_nonce_mapping`). -/
structure Call where
  contact : Contact
  pkt : Pkt
  rid : Nat
  internal : Bool
  body : Nat
  hsSent : Bool := false
  retries : Nat := 1
  remaining : Option Nat := none
  initiating : Bool
  deadline : Nat := 0
  /-- order in which the timer was armed (the delay queue serves equal deadlines in that order) -/
  tseq : Nat := 0
  deriving Repr, DecidableEq, Inhabited

structure PendingReq where
  contact : Contact
  rid : Nat
  internal : Bool
  body : Nat
  deriving Repr, DecidableEq, Inhabited

structure Cfg where
  localId : Id
  localSeq : Nat
  localRec : Rec
  requestRetries : Nat
  requestTimeout : Nat
  sessionTtl : Nat
  sessionCap : Nat
  listen : List Addr
  /-- request-body code of `FINDNODE [0]` -/
  findnode0 : Nat
  deriving Repr, Inhabited

/-- Per-category counters of fresh names drawn so far. -/
structure Fresh where
  nonce : Nat := 0
  cd : Nat := 0
  eph : Nat := 0
  rid : Nat := 0
  deriving Repr, DecidableEq, Inhabited

structure HState where
  sessions : List (NA × Session × Nat) := []
  /-- `active_challenges`: (address, challenge, deadline, arming order) -/
  challenges : List (NA × Challenge × Nat × Nat) := []
  active : List Call := []
  /-- arming counter of the two delay queues -/
  tctr : Nat := 0
  pending : List (NA × List PendingReq) := []
  exempt : List (Addr × Nat) := []
  fresh : Fresh := {}
  now : Nat := 0
  rt : Nat := 0
  deriving Repr, Inhabited

inductive Ev where
  | appRequest (c : Contact) (rid : Nat) (body : Nat)
  | appResponse (na : NA) (rid : Nat) (rb : RespBody)
  | appWru (na : NA) (nonce : Nat) (known : Option Rec)
  | dgram (src : Addr) (p : Pkt)
  | adv (dt : Nat)
  | rtAdv (dt : Nat)
  deriving Repr, Inhabited

/-- The model is a state monad with an output log. -/
abbrev M := StateM (HState × List Out)

def emit (o : Out) : M Unit := modify fun (s, os) => (s, os ++ [o])
def getS : M HState := do return (← get).1
def setS (s : HState) : M Unit := modify fun (_, os) => (s, os)
def modS (f : HState → HState) : M Unit := modify fun (s, os) => (f s, os)

/-- Globally unique fresh names: `owner * 10^6 + k`. -/
def mkName (c : Cfg) (k : Nat) : Nat := c.localId * 1000000 + k

def freshNonce (c : Cfg) : M Nat := do
  let s ← getS
  setS { s with fresh := { s.fresh with nonce := s.fresh.nonce + 1 } }
  return mkName c (s.fresh.nonce + 1)
def freshCd (c : Cfg) : M Nat := do
  let s ← getS
  setS { s with fresh := { s.fresh with cd := s.fresh.cd + 1 } }
  return mkName c (s.fresh.cd + 1)
def freshEph (c : Cfg) : M Nat := do
  let s ← getS
  setS { s with fresh := { s.fresh with eph := s.fresh.eph + 1 } }
  return mkName c (s.fresh.eph + 1)
def freshRid (c : Cfg) : M Nat := do
  let s ← getS
  setS { s with fresh := { s.fresh with rid := s.fresh.rid + 1 } }
  return mkName c (s.fresh.rid + 1)

/-- `for x in l do f x` as a structural recursion (easier to reason about than `forIn`). -/
def forEach {α : Type} : List α → (α → M Unit) → M Unit
  | [], _ => pure ()
  | x :: xs, f => do f x; forEach xs f

/-! ### exemption map -/

def addExpected (a : Addr) : M Unit := modS fun s =>
  if s.exempt.any (·.1 == a) then
    { s with exempt := s.exempt.map (fun p => if p.1 == a then (p.1, p.2 + 1) else p) }
  else { s with exempt := s.exempt ++ [(a, 1)] }

def removeExpected (a : Addr) : M Unit := modS fun s =>
  let dec := s.exempt.map (fun p => if p.1 == a then (p.1, p.2 - 1) else p)
  { s with exempt := dec.filter (fun p => p.2 != 0) }

/-! ### `LruTimeCache<NodeAddress, Session>` -/

/-- `get_mut`: an entry older than the ttl is removed and reported absent; otherwise refreshed and
moved to the back. -/
def sessGetMut (c : Cfg) (na : NA) : M (Option Session) := do
  let s ← getS
  match s.sessions.find? (·.1 == na) with
  | none => return none
  | some (_, sess, stamp) =>
    let rest := s.sessions.filter (·.1 != na)
    if stamp + c.sessionTtl < s.rt then
      setS { s with sessions := rest }
      return none
    else
      setS { s with sessions := rest ++ [(na, sess, s.rt)] }
      return some sess

/-- Writes back a session obtained through `sessGetMut` (the `&mut Session`). -/
def sessPut (na : NA) (sess : Session) : M Unit := modS fun s =>
  { s with sessions := s.sessions.map (fun e => if e.1 == na then (na, sess, e.2.2) else e) }

/-- `insert` (only reached for an absent key). -/
def sessInsert (c : Cfg) (na : NA) (sess : Session) : M Unit := modS fun s =>
  let l := s.sessions.filter (·.1 != na) ++ [(na, sess, s.rt)]
  { s with sessions := if l.length > c.sessionCap then l.drop 1 else l }

def sessRemove (na : NA) : M Unit := modS fun s => { s with sessions := s.sessions.filter (·.1 != na) }

/-- `remove_expired_values`: pops expired entries from the front. -/
def popExpired (ttl rt : Nat) : List (NA × Session × Nat) → List NA × List (NA × Session × Nat)
  | [] => ([], [])
  | (na, sess, stamp) :: rest =>
    if stamp + ttl ≥ rt then ([], (na, sess, stamp) :: rest)
    else
      let (e, r) := popExpired ttl rt rest
      (na :: e, r)

def removeExpiredSessions (c : Cfg) : M Unit := do
  let s ← getS
  let (e, r) := popExpired c.sessionTtl s.rt s.sessions
  setS { s with sessions := r }
  if !e.isEmpty then emit (.expired e)

/-! ### `ActiveRequests` -/

def callNA (call : Call) : NA := call.contact.na

/-- `ActiveRequests::insert` (a fresh timer). -/
def activeInsert (c : Cfg) (call : Call) : M Unit := modS fun s =>
  { s with active := s.active ++ [{ call with deadline := s.now + c.requestTimeout, tseq := s.tctr }],
           tctr := s.tctr + 1 }

/-- `remove_by_nonce`. -/
def activeRemoveByNonce (nonce : Nat) : M (Option Call) := do
  let s ← getS
  match s.active.find? (·.pkt.nonce == nonce) with
  | none => return none
  | some call =>
    setS { s with active := s.active.erase call }
    return some call

/-- `remove_request(node_address, id)`. -/
def activeRemoveRequest (na : NA) (rid : Nat) : M (Option Call) := do
  let s ← getS
  match s.active.find? (fun call => callNA call == na && call.rid == rid) with
  | none => return none
  | some call =>
    setS { s with active := s.active.erase call }
    return some call

/-- `remove_requests(node_address)`. -/
def activeRemoveRequests (na : NA) : M (List Call) := do
  let s ← getS
  setS { s with active := s.active.filter (fun call => callNA call != na) }
  return s.active.filter (fun call => callNA call == na)

/-! ### sending -/

def send (na : NA) (p : Pkt) : M Unit := emit (.send na p)

/-- `Session::encrypt_message`: counter‖random nonce, sealed under the session's encryption key. -/
def encryptMessage (c : Cfg) (sess : Session) (pt : Msg) : M (Session × Pkt) := do
  let n ← freshNonce c
  let sess' := { sess with counter := sess.counter + 1 }
  return (sess', .message c.localId n (.enc sess.keys.enc n sess'.counter pt true))

/-- `Session::decrypt_message` (tries the current keys, then the old keys and rotates). -/
def decryptMessage (sess : Session) (nonce : Nat) (ct : Ct) : Session × Option Msg :=
  let tryKey (k : Key) : Option Msg :=
    match ct with
    | .enc key n _ pt adOk => if key == k && n == nonce && adOk then some pt else none
    | .garbage => none
  match tryKey sess.keys.dec with
  | some m => (sess, some m)
  | none =>
    match sess.oldKeys with
    | some old =>
      match tryKey old.dec with
      | some m => ({ sess with keys := old, oldKeys := some sess.keys }, some m)
      | none => ({ sess with oldKeys := none }, none)
    | none => (sess, none)

def isAwaitingSession (c : Cfg) (na : NA) : M Bool := do
  match ← sessGetMut c na with
  | some _ => return false
  | none =>
    let s ← getS
    return (s.active.filter (fun call => callNA call == na)).any (·.initiating)

/-- `send_request`. -/
def sendRequest (c : Cfg) (contact : Contact) (rid : Nat) (internal : Bool) (body : Nat) :
    M (Option Err) := do
  let na := contact.na
  if c.listen.contains na.addr then return some .selfRequest
  let s ← getS
  let hasChallenge := s.challenges.any (·.1 == na)
  let awaiting ← if hasChallenge then pure true else isAwaitingSession c na
  if awaiting then
    modS fun s =>
      let pr : PendingReq := { contact := contact, rid := rid, internal := internal, body := body }
      if s.pending.any (·.1 == na) then
        { s with pending := s.pending.map (fun e => if e.1 == na then (e.1, e.2 ++ [pr]) else e) }
      else { s with pending := s.pending ++ [(na, [pr])] }
    return none
  let (pkt, initiating) ← do
    match ← sessGetMut c na with
    | some sess =>
      let (sess', p) ← encryptMessage c sess (.request rid body)
      sessPut na sess'
      pure (p, false)
    | none =>
      let n ← freshNonce c
      pure (Pkt.message c.localId n .garbage, true)
  addExpected na.addr
  send na pkt
  activeInsert c { contact := contact, pkt := pkt, rid := rid, internal := internal, body := body,
                   initiating := initiating }
  return none

/-- `send_pending_requests`. -/
def sendPendingRequests (c : Cfg) (na : NA) : M Unit := do
  let s ← getS
  let prs := match s.pending.find? (·.1 == na) with
    | some e => e.2
    | none => []
  setS { s with pending := s.pending.filter (·.1 != na) }
  forEach prs fun pr => do
    match ← sendRequest c pr.contact pr.rid pr.internal pr.body with
    | some e => if !pr.internal then emit (.failed pr.rid e)
    | none => pure ()

/-- `fail_session`. -/
def failSession (c : Cfg) (na : NA) (e : Err) (removeSession : Bool) : M Unit := do
  if removeSession then
    removeExpiredSessions c
    sessRemove na
  let s ← getS
  match s.pending.find? (·.1 == na) with
  | some ent =>
    setS { s with pending := s.pending.filter (·.1 != na) }
    forEach ent.2 fun pr => do
      if !pr.internal then emit (.failed pr.rid e)
  | none => pure ()
  let calls ← activeRemoveRequests na
  forEach calls fun call => do
    if !call.internal then emit (.failed call.rid e)
    removeExpected na.addr

/-- `fail_request`. -/
def failRequest (c : Cfg) (call : Call) (e : Err) (removeSession : Bool) : M Unit := do
  if !call.internal then emit (.failed call.rid e)
  failSession c (callNA call) e removeSession

/-- `handle_request_timeout`. -/
def handleRequestTimeout (c : Cfg) (call : Call) : M Unit := do
  if call.retries ≥ c.requestRetries then
    removeExpected (callNA call).addr
    failRequest c call .timeout false
  else
    send (callNA call) call.pkt
    activeInsert c { call with retries := call.retries + 1 }

/-- The re-encryption loop of `replay_active_requests`. -/
def reencryptAll (c : Cfg) : List Call → Session → List (Nat × Pkt) → M (Session × List (Nat × Pkt))
  | [], sess, acc => pure (sess, acc)
  | call :: rest, sess, acc => do
    let (sess', p) ← encryptMessage c sess (.request call.rid call.body)
    reencryptAll c rest sess' (acc ++ [(call.pkt.nonce, p)])

/-- `replay_active_requests`. -/
def replayActiveRequests (c : Cfg) (na : NA) (skipNonce : Option Nat) : M Unit := do
  match ← sessGetMut c na with
  | none => pure ()
  | some sess0 =>
    let s ← getS
    let calls := (s.active.filter (fun call => callNA call == na)).filter
      (fun call => match skipNonce with | some n => call.pkt.nonce != n | none => true)
    let (sess, packets) ← reencryptAll c calls sess0 []
    sessPut na sess
    forEach packets fun (oldNonce, p) => do
      -- `update_packet`: the nonce mapping is re-inserted (fresh timer), the call keeps its place
      modS fun s =>
        let upd : Call → Call := fun call =>
          if call.pkt.nonce == oldNonce then
            { call with pkt := p, deadline := s.now + c.requestTimeout, tseq := s.tctr }
          else call
        { s with active := s.active.map upd, tctr := s.tctr + 1 }
      send na p

/-- `new_session`. -/
def newSession (c : Cfg) (na : NA) (sess : Session) (skipNonce : Option Nat) : M Unit := do
  removeExpiredSessions c
  match ← sessGetMut c na with
  | some cur =>
    sessPut na { cur with keys := sess.keys, oldKeys := some cur.keys, awaitingEnr := sess.awaitingEnr }
    replayActiveRequests c na skipNonce
    sendPendingRequests c na
  | none =>
    sessInsert c na sess
    sendPendingRequests c na

/-- `verify_enr`. -/
def verifyEnr (r : Rec) (na : NA) : Bool :=
  r.id == na.id &&
    (if na.addr.v6 then (match r.udp6 with | none => true | some a => a == na.addr.n)
     else (match r.udp4 with | none => true | some a => a == na.addr.n))

/-- `send_challenge`. -/
def sendChallenge (c : Cfg) (na : NA) (nonce : Nat) (known : Option Rec) : M Unit := do
  let s ← getS
  if s.challenges.any (·.1 == na) then return ()
  let enrSeq := match known with | some r => r.seq | none => 0
  let cd ← freshCd c
  addExpected na.addr
  send na (.whoareyou nonce cd enrSeq)
  modS fun s => { s with challenges := s.challenges ++
    [(na, { cd := cd, remoteRec := known }, s.now + c.requestTimeout, s.tctr)], tctr := s.tctr + 1 }

/-- `handle_challenge` (a WHOAREYOU arrived). -/
def handleChallenge (c : Cfg) (src : Addr) (nonce cd enrSeq : Nat) : M Unit := do
  match ← activeRemoveByNonce nonce with
  | none => return ()
  | some call0 =>
    if (callNA call0).addr != src then
      activeInsert c call0
      return ()
    if call0.hsSent then
      removeExpected src
      failRequest c call0 .invalidRemotePacket true
      return ()
    if !call0.contact.keyOk then
      -- `Session::encrypt_with_header` fails: "Could not generate a session"
      removeExpected src
      failRequest c call0 .invalidRemotePacket true
      return ()
    let updatedRec := if enrSeq < c.localSeq then some c.localRec else none
    -- `Session::encrypt_with_header`
    let eph ← freshEph c
    let hsNonce ← freshNonce c
    let na := callNA call0
    let keys : Keys := {
      enc := { eph := eph, cd := cd, ini := c.localId, rcp := na.id, toRcp := true },
      dec := { eph := eph, cd := cd, ini := c.localId, rcp := na.id, toRcp := false } }
    let sig : Sig := { signer := c.localId, cd := cd, eph := eph, dst := na.id }
    let authPkt : Pkt := .handshake c.localId hsNonce sig eph updatedRec
      (.enc keys.enc hsNonce 0 (.request call0.rid call0.body) true)
    let mut sess : Session := { keys := keys }
    match call0.contact.record with
    | some r =>
      let outgoing := call0.initiating
      activeInsert c { call0 with pkt := authPkt, hsSent := true, initiating := false }
      send na authPkt
      emit (.established r na.addr outgoing)
    | none =>
      activeInsert c { call0 with pkt := authPkt, hsSent := true }
      send na authPkt
      let rid ← freshRid c
      sess := { sess with awaitingEnr := some rid }
      let _ ← sendRequest c call0.contact rid true c.findnode0
    newSession c na sess (some hsNonce)

/-- `handle_response`. -/
def handleResponse (c : Cfg) (na : NA) (rid : Nat) (rb : RespBody) : M Unit := do
  match ← activeRemoveRequest na rid with
  | none => return ()
  | some call =>
    match rb with
    | .nodes total _ =>
      if total > 1 then
        match call.remaining with
        | some rem =>
          if rem - 1 != 0 then
            activeInsert c { call with remaining := some (rem - 1) }
            emit (.response na rid rb)
            return ()
        | none =>
          activeInsert c { call with remaining := some (total - 1) }
          emit (.response na rid rb)
          return ()
    | _ => pure ()
    removeExpected na.addr
    emit (.response na rid rb)

/-- `handle_message`. -/
def handleMessage (c : Cfg) (na : NA) (nonce : Nat) (ct : Ct) : M Unit := do
  match ← sessGetMut c na with
  | none => emit (.wru na nonce)
  | some sess =>
    let (sess', pt) := decryptMessage sess nonce ct
    sessPut na sess'
    match pt with
    | none =>
      failSession c na .invalidRemotePacket true
      let s ← getS
      if !s.challenges.any (·.1 == na) then emit (.wru na nonce)
    | some .undecodable => pure ()
    | some (.request rid body) => emit (.request na rid body)
    | some (.response rid rb) =>
      if sess'.awaitingEnr == some rid then
        sessPut na { sess' with awaitingEnr := none }
        match ← activeRemoveRequest na rid with
        | some _ => removeExpected na.addr
        | none => pure ()
        let verified ← (do
          match rb with
          | .nodes _ recs =>
            match recs.getLast? with
            | some r =>
              if verifyEnr r na then
                emit (.established r na.addr true)
                return true
              else
                emit (.unverifiable r na.addr na.id)
                return false
            | none => return false
          | _ => return false)
        if !verified then failSession c na .invalidRemoteEnr true
      else handleResponse c na rid rb

/-- `Session::establish_from_challenge`: `none` = `InvalidChallengeSignature` (challenge kept),
`some none` = any other error, `some (some …)` = success. -/
def establishFromChallenge (c : Cfg) (remoteId : Id) (ch : Challenge) (sig : Sig) (eph : Nat)
    (record : Option Rec) : Option (Option (Session × Rec)) :=
  let chosen : Option Rec := match record, ch.remoteRec with
    | some n, some k => if n.seq > k.seq then some n else some k
    | some n, none => some n
    | none, some k => some k
    | none, none => none
  match chosen with
  | none => some none
  | some r =>
    if r.id != remoteId then some none else
    -- verify_authentication_nonce under the public key of the chosen record
    if !(sig.signer == r.id && sig.cd == ch.cd && sig.eph == eph && sig.dst == c.localId) then none
    else
      let keys : Keys := {
        enc := { eph := eph, cd := ch.cd, ini := remoteId, rcp := c.localId, toRcp := false },
        dec := { eph := eph, cd := ch.cd, ini := remoteId, rcp := c.localId, toRcp := true } }
      some (some ({ keys := keys }, r))

/-- `handle_auth_message`. -/
def handleAuthMessage (c : Cfg) (na : NA) (nonce : Nat) (sig : Sig) (eph : Nat)
    (record : Option Rec) (ct : Ct) : M Unit := do
  let s ← getS
  match s.challenges.find? (·.1 == na) with
  | none => return ()
  | some (_, ch, _, _) =>
    setS { s with challenges := s.challenges.filter (·.1 != na) }
    match establishFromChallenge c na.id ch sig eph record with
    | some (some (sess, r)) =>
      removeExpected na.addr
      if verifyEnr r na then emit (.established r na.addr false)
      else emit (.unverifiable r na.addr na.id)
      newSession c na sess none
      handleMessage c na nonce ct
    | none =>
      -- invalid signature: the challenge is inserted back (with a fresh timer)
      modS fun s => { s with challenges := s.challenges ++ [(na, ch, s.now + c.requestTimeout, s.tctr)],
                             tctr := s.tctr + 1 }
    | some none =>
      removeExpected na.addr
      failSession c na .invalidRemotePacket true

/-- The next timer due at or before `target`, if any: the earliest deadline among active requests
and challenges; equal deadlines are served in arming order (the request queue before the
challenge queue — the two never tie when every event happens at its own millisecond). -/
def nextDue (s : HState) (target : Nat) : Option (Nat × Sum Call NA) :=
  let better (d1 q1 d2 q2 : Nat) : Bool := d1 < d2 || (d1 == d2 && q1 < q2)
  let reqs := s.active.filter (·.deadline ≤ target)
  let chs := s.challenges.filter (·.2.2.1 ≤ target)
  let minR := reqs.foldl (fun (m : Option Call) call => match m with
    | none => some call
    | some b => if better call.deadline call.tseq b.deadline b.tseq then some call else some b) none
  let minC := chs.foldl (fun (m : Option (NA × Challenge × Nat × Nat)) e => match m with
    | none => some e
    | some b => if better e.2.2.1 e.2.2.2 b.2.2.1 b.2.2.2 then some e else some b) none
  match minR, minC with
  | some r, some ch => if ch.2.2.1 < r.deadline then some (ch.2.2.1, .inr ch.1) else some (r.deadline, .inl r)
  | some r, none => some (r.deadline, .inl r)
  | none, some ch => some (ch.2.2.1, .inr ch.1)
  | none, none => none

/-- Lets time pass until `target`, firing every timer at its own deadline, in order (fuel bounds
the loop; each firing removes or re-arms one timer). -/
def fireTimers (c : Cfg) (target : Nat) : Nat → M Unit
  | 0 => pure ()
  | fuel + 1 => do
    let s ← getS
    match nextDue s target with
    | none => pure ()
    | some (d, .inl call) =>
      setS { s with active := s.active.erase call, now := max s.now d }
      handleRequestTimeout c call
      fireTimers c target fuel
    | some (d, .inr na) =>
      setS { s with challenges := s.challenges.filter (·.1 != na), now := max s.now d }
      removeExpected na.addr
      sendPendingRequests c na
      fireTimers c target fuel

def stepM (c : Cfg) : Ev → M Unit
  | .appRequest contact rid body => do
    match ← sendRequest c contact rid false body with
    | some e => emit (.failed rid e)
    | none => pure ()
  | .appResponse na rid rb => do
    match ← sessGetMut c na with
    | some sess =>
      let (sess', p) ← encryptMessage c sess (.response rid rb)
      sessPut na sess'
      send na p
    | none => pure ()
  | .appWru na nonce known => sendChallenge c na nonce known
  | .dgram src p =>
    match p with
    | .whoareyou nonce cd enrSeq => handleChallenge c src nonce cd enrSeq
    | .handshake srcId nonce sig eph record ct =>
      handleAuthMessage c { id := srcId, addr := src } nonce sig eph record ct
    | .message srcId nonce ct => handleMessage c { id := srcId, addr := src } nonce ct
  | .adv dt => do
    let s ← getS
    let target := s.now + dt
    fireTimers c target 10000
    modS fun s => { s with now := target }
  | .rtAdv dt => modS fun s => { s with rt := s.rt + dt }

/-- One step of the handler: new state and the outputs of this step. -/
def step (c : Cfg) (s : HState) (e : Ev) : HState × List Out :=
  let ((), (s', os)) := (stepM c e).run (s, [])
  (s', os)

end Discv5.H

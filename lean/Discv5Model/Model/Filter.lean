/-
Model of `src/socket/filter/mod.rs` (`Filter::{new, initial_pass, final_pass, prune_limiter}`),
of the global `PERMIT_BAN_LIST` (`src/permit_ban.rs`), of the ban-expiry sweep
`Handler::unban_nodes_check` and of the exemption short-cut in `RecvHandler::handle_inbound`
(`src/socket/recv.rs`).

IP addresses and node ids are abstract keys (`Nat`).  All clock readings (`Instant::now()`,
`init_time.elapsed()`) are one explicit `now` in nanoseconds.  `ReceivedPacketCache` only feeds
metrics (the result of `cache_insert` is ignored) and is not modelled.  `hashlink::LruCache` is an
association list, least recently used first.
-/
import Discv5Model.Model.Limiter

namespace Discv5.Filter
open Discv5.Limiter

abbrev Ip := Nat
abbrev NodeId := Nat

/-- `PermitBanList`: two sets and two maps `key ↦ Option<Instant>` (`none` = permanent ban). -/
structure PermitBan where
  permitIps : Ip → Bool
  banIps : Ip → Option (Option Nat)
  permitNodes : NodeId → Bool
  banNodes : NodeId → Option (Option Nat)

/-- `PermitBanList::default()`. -/
def PermitBan.empty : PermitBan :=
  { permitIps := fun _ => false, banIps := fun _ => none,
    permitNodes := fun _ => false, banNodes := fun _ => none }

/-- `HashMap::insert`. -/
def banInsert (m : Nat → Option (Option Nat)) (key : Nat) (expiry : Option Nat) :
    Nat → Option (Option Nat) :=
  fun k => if k = key then some expiry else m k

/-- `retain(|_, time| time.is_none() || Some(now) < *time)` on one ban map. -/
def sweepMap (m : Nat → Option (Option Nat)) (now : Nat) : Nat → Option (Option Nat) :=
  fun k => match m k with
    | none => none
    | some none => some none
    | some (some e) => if now < e then some (some e) else none

/-- `Handler::unban_nodes_check` at time `now`. -/
def PermitBan.sweep (pb : PermitBan) (now : Nat) : PermitBan :=
  { pb with banIps := sweepMap pb.banIps now, banNodes := sweepMap pb.banNodes now }

/-! ### `hashlink::LruCache` -/

/-- Least recently used first; `cap` = `max_size`. -/
structure Lru (V : Type) where
  cap : Nat
  items : List (Nat × V)

def Lru.new {V : Type} (cap : Nat) : Lru V := { cap := cap, items := [] }

def Lru.find? {V : Type} (c : Lru V) (k : Nat) : Option V :=
  (c.items.find? (fun e => e.1 == k)).map (·.2)

/-- `get_mut(k)` followed by an in-place update `f` of the value: the entry moves to the back.
Only called when the key is present. -/
def Lru.touch {V : Type} (c : Lru V) (k : Nat) (v : V) : Lru V :=
  { c with items := c.items.filter (fun e => e.1 != k) ++ [(k, v)] }

/-- `insert(k, v)` for an absent key: appended; the least recently used entry is evicted when the
length exceeds the capacity. -/
def Lru.insert {V : Type} (c : Lru V) (k : Nat) (v : V) : Lru V :=
  let items := c.items.filter (fun e => e.1 != k) ++ [(k, v)]
  { c with items := if items.length > c.cap then items.drop 1 else items }

def Lru.remove {V : Type} (c : Lru V) (k : Nat) : Lru V :=
  { c with items := c.items.filter (fun e => e.1 != k) }

/-! ### `Filter` -/

structure Filter where
  enabled : Bool
  rateLimiter : Option RateLimiter
  banDuration : Option Nat
  knownAddrs : Lru (List NodeId)
  bannedNodes : Lru Nat
  maxNodesPerIp : Option Nat
  maxBansPerIp : Option Nat

/-- `Filter::new(config, ban_duration)`. -/
def Filter.new (enabled : Bool) (rl : Option RateLimiter) (maxNodesPerIp maxBansPerIp : Option Nat)
    (banDuration : Option Nat) : Filter :=
  { enabled := enabled, rateLimiter := rl, banDuration := banDuration,
    knownAddrs := Lru.new Consts.KNOWN_ADDRS_SIZE,
    bannedNodes := Lru.new Consts.BANNED_NODES_SIZE,
    maxNodesPerIp := maxNodesPerIp, maxBansPerIp := maxBansPerIp }

/-- `self.ban_duration.map(|v| Instant::now() + v)`. -/
def Filter.banTimeout (f : Filter) (now : Nat) : Option Nat :=
  f.banDuration.map (fun d => now + d)

/-- `Filter::initial_pass(src)` at time `now`; only the IP of `src` is used. -/
def Filter.initialPass (f : Filter) (pb : PermitBan) (now : Nat) (ip : Ip) :
    Filter × PermitBan × Bool :=
  if pb.permitIps ip then (f, pb, true)
  else if (pb.banIps ip).isSome then (f, pb, false)
  else if !f.enabled then (f, pb, true)
  else
    match f.rateLimiter with
    | none => (f, pb, true)
    | some rl =>
      let (rl1, v1) := rl.allows now (.ip ip)
      if !v1.isOk then
        ({ f with rateLimiter := some rl1 },
         { pb with banIps := banInsert pb.banIps ip (f.banTimeout now) }, false)
      else
        let (rl2, v2) := rl1.allows now .total
        ({ f with rateLimiter := some rl2 }, pb, v2.isOk)

/-- The per-IP ban counter update in `final_pass` (`max_bans_per_ip = Some(maxBans)`). -/
def Filter.countBan (f : Filter) (pb : PermitBan) (now : Nat) (ip : Ip) (maxBans : Nat) :
    Filter × PermitBan :=
  match f.bannedNodes.find? ip with
  | some count =>
    let count1 := count + 1
    let f1 := { f with bannedNodes := f.bannedNodes.touch ip count1 }
    if count1 ≥ maxBans then
      (f1, { pb with banIps := banInsert pb.banIps ip (f.banTimeout now) })
    else (f1, pb)
  | none =>
    ({ f with bannedNodes := f.bannedNodes.insert ip Consts.BANNED_NODES_FIRST_COUNT }, pb)

/-- The nodes-per-IP part of `final_pass` (`max_nodes_per_ip = Some(maxNodes)`). -/
def Filter.nodesPerIp (f : Filter) (pb : PermitBan) (now : Nat) (ip : Ip) (node : NodeId)
    (maxNodes : Nat) : Filter × PermitBan × Bool :=
  let (f1, known) : Filter × Nat :=
    match f.knownAddrs.find? ip with
    | some ids =>
      let ids1 := if ids.contains node then ids else ids ++ [node]
      ({ f with knownAddrs := f.knownAddrs.touch ip ids1 }, ids1.length)
    | none => ({ f with knownAddrs := f.knownAddrs.insert ip [node] }, 1)
  if known ≥ maxNodes then
    ({ f1 with knownAddrs := f1.knownAddrs.remove ip },
     { pb with banIps := banInsert pb.banIps ip (f.banTimeout now) }, false)
  else (f1, pb, true)

/-- The branch of `final_pass` taken when the per-node limiter refuses: the node is banned and the
per-IP ban counter is advanced. -/
def Filter.nodeExcess (f : Filter) (pb : PermitBan) (now : Nat) (ip : Ip) (node : NodeId) :
    Filter × PermitBan × Bool :=
  let pb1 := { pb with banNodes := banInsert pb.banNodes node (f.banTimeout now) }
  match f.maxBansPerIp with
  | some maxBans =>
    let (f2, pb2) := f.countBan pb1 now ip maxBans
    (f2, pb2, false)
  | none => (f, pb1, false)

/-- The rest of `final_pass` after the rate limiter let the packet through. -/
def Filter.finalTail (f : Filter) (pb : PermitBan) (now : Nat) (ip : Ip) (node : NodeId) :
    Filter × PermitBan × Bool :=
  match f.maxNodesPerIp with
  | some maxNodes => f.nodesPerIp pb now ip node maxNodes
  | none => (f, pb, true)

/-- `Filter::final_pass(node_address, packet)` at time `now` (the packet is unused). -/
def Filter.finalPass (f : Filter) (pb : PermitBan) (now : Nat) (ip : Ip) (node : NodeId) :
    Filter × PermitBan × Bool :=
  if pb.permitNodes node then (f, pb, true)
  else if (pb.banNodes node).isSome then (f, pb, false)
  else if !f.enabled then (f, pb, true)
  else
    match f.rateLimiter with
    | none => f.finalTail pb now ip node
    | some rl =>
      let (rl1, v) := rl.allows now (.nodeId node)
      let f1 := { f with rateLimiter := some rl1 }
      if !v.isOk then f1.nodeExcess pb now ip node
      else f1.finalTail pb now ip node

/-- `Filter::prune_limiter()` at time `now`. -/
def Filter.pruneLimiter (f : Filter) (now : Nat) : Filter :=
  { f with rateLimiter := f.rateLimiter.map (·.prune now) }

/-! ### `RecvHandler::handle_inbound` -/

/-- What `Packet::decode` made of the datagram: undecodable, a packet without source id
(WHOAREYOU), or a packet from `node` (message / handshake). -/
inductive Decoded where
  | garbage
  | noSrc
  | src (node : NodeId)

inductive Outcome where
  | dropped
  | unrecognized
  | inbound
deriving DecidableEq, Repr

/-- `handle_inbound`: `permitted` = the source socket address is in `expected_responses`. -/
def handleInbound (f : Filter) (pb : PermitBan) (now : Nat) (permitted : Bool) (ip : Ip)
    (d : Decoded) : Filter × PermitBan × Outcome :=
  let (f1, pb1, ok1) := if permitted then (f, pb, true) else f.initialPass pb now ip
  if !ok1 then (f1, pb1, .dropped)
  else
    match d with
    | .garbage => (f1, pb1, .unrecognized)
    | .noSrc => (f1, pb1, .inbound)
    | .src node =>
      let (f2, pb2, ok2) := if permitted then (f1, pb1, true) else f1.finalPass pb1 now ip node
      if ok2 then (f2, pb2, .inbound) else (f2, pb2, .dropped)

/-! ### The receive handler's view: exemptions are kept per socket address -/

/-- `RecvHandler`: the filter, the global permit/ban list and `expected_responses`
(socket address = (ip, port) → number of awaited datagrams; the handler maintains the counts, the
receive path only asks whether the exact source address is present). -/
structure Recv where
  filter : Filter
  pb : PermitBan
  expected : List (Ip × Nat) := []

/-- The handler registers / releases an address (`lrx` / `lry` of the driver). -/
def expectAddr (l : List (Ip × Nat)) (ip : Ip) (port : Nat) : List (Ip × Nat) :=
  (ip, port) :: l.filter (· != (ip, port))
def releaseAddr (l : List (Ip × Nat)) (ip : Ip) (port : Nat) : List (Ip × Nat) :=
  l.filter (· != (ip, port))
def Recv.expect (r : Recv) (ip : Ip) (port : Nat) : Recv :=
  { r with expected := expectAddr r.expected ip port }
def Recv.release (r : Recv) (ip : Ip) (port : Nat) : Recv :=
  { r with expected := releaseAddr r.expected ip port }

/-- `expected_responses.get(&src_address).is_some()`. -/
def Recv.permitted (r : Recv) (ip : Ip) (port : Nat) : Bool := r.expected.contains (ip, port)

/-- `handle_inbound` for a datagram from `(ip, port)`. -/
def Recv.inbound (r : Recv) (now : Nat) (ip : Ip) (port : Nat) (d : Decoded) : Recv × Outcome :=
  let res := handleInbound r.filter r.pb now (r.permitted ip port) ip d
  ({ r with filter := res.1, pb := res.2.1 }, res.2.2)

end Discv5.Filter

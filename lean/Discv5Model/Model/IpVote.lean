/-
Model of `/repo/src/service/ip_vote.rs` (`IpVote::{new, insert, clear_old_votes,
has_minimum_threshold, filter_stale_find_most_frequent, majority}`) and of the service-side use
in `/repo/src/service.rs` (`handle_ip_vote_from_pong`, `require_more_ip_votes`, the local record
update `set_udp_socket` + `Event::SocketUpdated`).

Conventions (ENGINE_GUIDE): `&mut self` → function returning the new state; `Instant::now()` →
explicit `now : Nat` (every call site has its own reading); the `HashMap` iteration order of
`filter_stale_find_most_frequent` is a parameter (`sh : List (Entry α) → List (Entry α)`, any
permutation), theorems hold for every order; the `f64` threshold expression
`((max_count as f64) * (1.0 - CLEAR_MAJORITY_PERCENTAGE)).round() as usize` is mirrored bit-exactly
in integer arithmetic (`thrF64`), and every function that uses it takes the threshold function as
a parameter `thr` so that the theorems can say which property of it they need.

Core Lean only (the driver links this file natively).
-/
import Discv5Model.Gen.Consts

namespace Discv5.IpVote

/-! ## IEEE binary64 mirror of the threshold expression -/

/-- `x / d` rounded to the nearest integer, ties to even (`d > 0`). -/
def rne (x d : Nat) : Nat :=
  let q := x / d
  let r := x % d
  if 2 * r < d then q else if d < 2 * r then q + 1 else if q % 2 = 0 then q else q + 1

/-- Rounds the integer `N` to 53 significant bits, ties to even.  Rounding to a binary64
significand is invariant under scaling by powers of two, so a positive dyadic value `N / 2^k`
in the normal range rounds to `rnd53 N / 2^k`. -/
def rnd53 (N : Nat) : Nat :=
  if N < 2 ^ 53 then N
  else
    let s := Nat.log2 N - 52
    rne N (2 ^ s) * 2 ^ s

/-- The binary64 value nearest to the decimal literal `p / q` (`0 ≤ p < q`; Rust parses float
literals correctly rounded), as a pair `(m, k)` meaning `m / 2^k`. -/
def ratToF64 (p q : Nat) : Nat × Nat :=
  if p = 0 then (0, 0)
  else
    let k0 := 52 + Nat.log2 q - Nat.log2 p
    let k := if 2 ^ 52 ≤ p * 2 ^ k0 / q then k0 else k0 + 1
    (rne (p * 2 ^ k) q, k)

/-- `one.0 - x` in binary64 for `x = m / 2^k ≤ one` (`one` is the integer minuend, `1`). -/
def minuendMinus (one : Nat) (x : Nat × Nat) : Nat × Nat := (rnd53 (one * 2 ^ x.2 - x.1), x.2)

/-- The binary64 value of `1.0 - CLEAR_MAJORITY_PERCENTAGE` as `(m, k)` = `m / 2^k`.  The literal
`0.d` is regenerated from the source as `CLEAR_MAJORITY_TENTHS / 10`, the minuend `1.0` as
`THR_MINUEND` (the extractor admits exactly the shape `0.d` and the expression as written). -/
def marginC : Nat × Nat :=
  minuendMinus Consts.THR_MINUEND (ratToF64 Consts.CLEAR_MAJORITY_TENTHS 10)

/-- `((n as f64) * c).round() as usize` for `c = c.1 / 2^c.2`: `n as f64` rounds `n` to 53 bits,
the product is rounded to 53 bits, `round` is half away from zero. -/
def thrWith (c : Nat × Nat) (n : Nat) : Nat :=
  (2 * rnd53 (rnd53 n * c.1) + 2 ^ c.2) / 2 ^ (c.2 + 1)

/-- Mirror of `((max_count as f64) * (1.0 - CLEAR_MAJORITY_PERCENTAGE)).round() as usize`. -/
def thrF64 (n : Nat) : Nat := thrWith marginC n

/-! ## The vote maps -/

/-- One entry of `HashMap<NodeId, (K, Instant)>`: key, vote, expiry instant. -/
structure Entry (α : Type) where
  voter : Nat
  vote : α
  expiry : Nat
  deriving Repr

/-- `HashMap::insert`: the entry of the key is replaced (position in the table unspecified – every
reader below goes through an arbitrary permutation). -/
def mapInsert {α : Type} (m : List (Entry α)) (k : Nat) (a : α) (exp : Nat) : List (Entry α) :=
  m.filter (fun e => e.voter != k) ++ [⟨k, a, exp⟩]

/-- `FnvHashMap<K, usize>` counter, `counter.entry(vote).or_default()` read. -/
def counterGet {α : Type} [DecidableEq α] (c : List (α × Nat)) (a : α) : Nat :=
  match c with
  | [] => 0
  | (b, n) :: rest => if b = a then n else counterGet rest a

/-- Write of the counter entry. -/
def counterSet {α : Type} [DecidableEq α] (c : List (α × Nat)) (a : α) (n : Nat) : List (α × Nat) :=
  match c with
  | [] => [(a, n)]
  | (b, m) :: rest => if b = a then (b, n) :: rest else (b, m) :: counterSet rest a n

/-- The mutable locals of `filter_stale_find_most_frequent`. -/
structure Scan (α : Type) where
  updated : List (Entry α) := []
  counter : List (α × Nat) := []
  maxCount : Nat := 0
  secondMax : Nat := 0
  maxVote : Option α := none

/-- Body of the `for (node_id, (vote, instant)) in votes` loop. -/
def scanStep {α : Type} [DecidableEq α] (now : Nat) (s : Scan α) (e : Entry α) : Scan α :=
  -- Discard stale votes
  if e.expiry ≤ now then s
  else
    let count := counterGet s.counter e.vote + 1
    let s1 : Scan α := { s with updated := s.updated ++ [e], counter := counterSet s.counter e.vote count }
    if s1.maxCount < count then
      { s1 with
        secondMax := if s1.maxVote.isSome ∧ s1.maxVote ≠ some e.vote then s1.maxCount else s1.secondMax
        maxCount := count
        maxVote := some e.vote }
    else if s1.secondMax < count ∧ some e.vote ≠ s1.maxVote then
      { s1 with secondMax := count }
    else s1

/-- The decision after the loop. -/
def scanResult {α : Type} (thr : Nat → Nat) (minimum : Nat) (s : Scan α) : Option α :=
  if minimum ≤ s.maxCount then
    let threshold := thr s.maxCount
    if threshold ≤ s.secondMax then none else s.maxVote
  else none

/-- `filter_stale_find_most_frequent(votes, minimum_threshold)`; `votes` is the map in the order
the hash-map iterator yields it. -/
def mostFrequent {α : Type} [DecidableEq α] (thr : Nat → Nat) (minimum now : Nat)
    (votes : List (Entry α)) : List (Entry α) × Option α :=
  let s := votes.foldl (scanStep now) {}
  (s.updated, scanResult thr minimum s)

/-- `struct IpVote`. -/
structure IpVote (α : Type) where
  v4 : List (Entry α) := []
  v6 : List (Entry α) := []
  minimum : Nat
  duration : Nat

/-- A socket address: its family and the (family-specific) address value. -/
inductive Sock (α : Type) where
  | v4 (a : α)
  | v6 (a : α)
  deriving DecidableEq, Repr

def Sock.isV6 {α : Type} : Sock α → Bool
  | .v4 _ => false
  | .v6 _ => true

/-- `IpVote::new` (panics below 2: `none`). -/
def IpVote.new? {α : Type} (minimum duration : Nat) : Option (IpVote α) :=
  if minimum < 2 then none else some { minimum := minimum, duration := duration }

/-- `IpVote::insert`. -/
def IpVote.insert {α : Type} (s : IpVote α) (now : Nat) (key : Nat) (sock : Sock α) : IpVote α :=
  match sock with
  | .v4 a => { s with v4 := mapInsert s.v4 key a (now + s.duration) }
  | .v6 a => { s with v6 := mapInsert s.v6 key a (now + s.duration) }

/-- `IpVote::clear_old_votes`. -/
def IpVote.clearOld {α : Type} (s : IpVote α) (now : Nat) : IpVote α :=
  { s with v4 := s.v4.filter (fun e => now < e.expiry), v6 := s.v6.filter (fun e => now < e.expiry) }

/-- `IpVote::has_minimum_threshold`. -/
def IpVote.hasMinimumThreshold {α : Type} (s : IpVote α) (now : Nat) : IpVote α × (Bool × Bool) :=
  let s := s.clearOld now
  (s, (decide (s.minimum ≤ s.v4.length), decide (s.minimum ≤ s.v6.length)))

/-- `IpVote::majority`; `sh4` / `sh6` are the orders in which the two hash maps are iterated
(the theorems assume they are permutations and hold for every such order). -/
def IpVote.majority {α : Type} [DecidableEq α] (thr : Nat → Nat) (s : IpVote α) (now : Nat)
    (sh4 sh6 : List (Entry α) → List (Entry α)) : IpVote α × (Option α × Option α) :=
  let r4 := mostFrequent thr s.minimum now (sh4 s.v4)
  let r6 := mostFrequent thr s.minimum now (sh6 s.v6)
  ({ s with v4 := r4.1, v6 := r6.1 }, (r4.2, r6.2))

/-! ## Service side: one PONG -/

/-- The part of the local node record C17 talks about. -/
structure Rec (α : Type) where
  ip4 : Option α
  ip6 : Option α
  seq : Nat
  deriving Repr

/-- The part of `Service` the PONG path reads and writes. -/
structure Svc (α : Type) where
  /-- `ip_votes: Option<IpVote>` (`None` when `config.enr_update` is off). -/
  votes : Option (IpVote α)
  enr : Rec α
  /-- `matches!(self.ip_mode, IpMode::DualStack)`. -/
  dual : Bool

/-- One PONG reaching `handle_ip_vote_from_pong`, with everything the function reads from the
rest of the service as explicit inputs. -/
structure Pong (α : Type) where
  voter : Nat
  sock : Sock α
  /-- `connectivity_state.should_count_ip_vote(&socket)` -/
  countable : Bool
  /-- the voter's table entry is `Present`, connected and not incoming -/
  connOut : Bool
  /-- `set_udp_socket` returns `Ok` (record size / sequence overflow are the `enr` crate's) -/
  setOk : Bool
  /-- `Instant::now()` read by `has_minimum_threshold`, `insert`, `majority` -/
  tClear : Nat
  tIns : Nat
  tMaj : Nat
  sh4 : List (Entry α) → List (Entry α)
  sh6 : List (Entry α) → List (Entry α)

inductive Ev (α : Type) where
  | socketUpdated (s : Sock α)
  deriving DecidableEq, Repr

/-- The `match` of `require_more_ip_votes` on `(has_minimum_threshold(), is_ipv6)`. -/
def needMore (have4 have6 isV6 : Bool) : Bool :=
  match (have4, have6), isV6 with
  | (false, true), false => true
  | (true, false), true => true
  | (false, false), _ => true
  | (_, _), _ => false

/-- `Service::require_more_ip_votes` (it prunes expired votes as a side effect). -/
def requireMore {α : Type} (s : Svc α) (now : Nat) (isV6 : Bool) : Svc α × Bool :=
  if !s.dual then (s, false)
  else
    match s.votes with
    | none => (s, false)
    | some v =>
      let r := v.hasMinimumThreshold now
      ({ s with votes := some r.1 }, needMore r.2.1 r.2.2 isV6)

/-- The tail of `handle_ip_vote_from_pong`: compare the majority of the vote's family with the
local record, `set_udp_socket` (sequence number + 1, re-signed by the `enr` crate) and
`Event::SocketUpdated` when it differs. -/
def updateRecord {α : Type} [DecidableEq α] (s : Svc α) (sock : Sock α) (m4 m6 : Option α)
    (setOk : Bool) : Svc α × List (Ev α) :=
  match sock with
  | .v4 _ =>
    let new4 := m4.bind (fun m => if some m ≠ s.enr.ip4 then some m else none)
    match new4 with
    | some a =>
      if setOk then
        ({ s with enr := { s.enr with ip4 := some a, seq := s.enr.seq + 1 } }, [Ev.socketUpdated (.v4 a)])
      else (s, [])
    | none => (s, [])
  | .v6 _ =>
    let new6 := m6.bind (fun m => if some m ≠ s.enr.ip6 then some m else none)
    match new6 with
    | some a =>
      if setOk then
        ({ s with enr := { s.enr with ip6 := some a, seq := s.enr.seq + 1 } }, [Ev.socketUpdated (.v6 a)])
      else (s, [])
    | none => (s, [])

/-- The accepted-vote part of `handle_ip_vote_from_pong`: `ip_votes.insert`, `ip_votes.majority()`
(which also replaces both maps by their unexpired entries), then the record update. -/
def countVote {α : Type} [DecidableEq α] (thr : Nat → Nat) (s : Svc α) (v : IpVote α) (p : Pong α) :
    Svc α × List (Ev α) :=
  let v1 := v.insert p.tIns p.voter p.sock
  let r := v1.majority thr p.tMaj p.sh4 p.sh6
  updateRecord { s with votes := some r.1 } p.sock r.2.1 r.2.2 p.setOk

/-- `Service::handle_ip_vote_from_pong`. -/
def pongStep {α : Type} [DecidableEq α] (thr : Nat → Nat) (s : Svc α) (p : Pong α) :
    Svc α × List (Ev α) :=
  if !p.countable then (s, [])
  else if s.votes.isNone then (s, [])
  else
    -- `is_connected_and_outgoing | self.require_more_ip_votes(..)`: `|` does not short-circuit
    let r := requireMore s p.tClear p.sock.isV6
    if !(p.connOut || r.2) then (r.1, [])
    else
      match r.1.votes with
      | none => (r.1, [])
      | some v => countVote thr r.1 v p

/-- A history of PONGs. -/
def runPongs {α : Type} [DecidableEq α] (thr : Nat → Nat) (s : Svc α) :
    List (Pong α) → Svc α × List (Ev α)
  | [] => (s, [])
  | p :: ps =>
    let (s1, e1) := pongStep thr s p
    let (s2, e2) := runPongs thr s1 ps
    (s2, e1 ++ e2)

/-! ## Specification vocabulary (used by the property theorems and by the driver's self-check) -/

/-- Number of unexpired entries of a vote map that vote for `a` (with one entry per voter this
is the number of distinct peers whose latest vote is `a` and has not expired). -/
def countOf {α : Type} [DecidableEq α] (now : Nat) (l : List (Entry α)) (a : α) : Nat :=
  (l.filter (fun e => decide (now < e.expiry) && decide (e.vote = a))).length

/-- `a` is a clear majority under the tally `f`, exactly as the code decides it: at least
`minimum` votes, and every rival's tally is strictly below `thr (f a)` (the middle conjunct is the
same condition for the rivals nobody voted for: the second-best count starts at `0`). -/
def ClearMajority {α : Type} (thr : Nat → Nat) (minimum : Nat) (f : α → Nat) (a : α) : Prop :=
  minimum ≤ f a ∧ 0 < thr (f a) ∧ ∀ b, b ≠ a → f b < thr (f a)

/-- A hash-map iteration order: any permutation of the entries. -/
def IsShuffle {β : Type} (sh : List β → List β) : Prop := ∀ l, (sh l).Perm l

/-- The two iteration orders of a PONG step are permutations. -/
def Pong.Valid {α : Type} (p : Pong α) : Prop := IsShuffle p.sh4 ∧ IsShuffle p.sh6

/-- One entry per voter (what a `HashMap<NodeId, _>` guarantees). -/
def KeysNodup {α : Type} (l : List (Entry α)) : Prop := (l.map (fun e => e.voter)).Nodup

/-- A freshly started service: no votes yet, configured minimum `minimum`. -/
def Svc.Fresh {α : Type} (s : Svc α) (minimum : Nat) : Prop :=
  ∀ v, s.votes = some v → v.v4 = [] ∧ v.v6 = [] ∧ v.minimum = minimum

end Discv5.IpVote

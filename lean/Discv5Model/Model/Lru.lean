/-
Model of `src/lru_time_cache.rs` (`LruTimeCache<K, V>`), the session cache of the handler.

Representation.  `hashlink::LinkedHashMap<K, (V, Instant)>` is a hash map whose entries are
threaded on a doubly linked list; the list order is the only order the cache ever observes
(`front`, `pop_front`, `to_back`).  The model keeps exactly that list, *front first*:

  * `LinkedHashMap::insert k v`   occupied → `to_back` + `replace_value` (the entry moves to the
                                  back and the whole `(value, stamp)` pair is replaced);
                                  vacant → new node attached at the back        (`lhmInsert`)
  * `raw_entry_mut().from_key k`  lookup by key                                    (`lhmGet`)
  * `OccupiedEntry::to_back`      detach + attach before the guard node = move to the back
  * `OccupiedEntry::remove` / `LinkedHashMap::remove`  unlink the entry            (`lhmErase`)
  * `front` / `pop_front`         head of the list / drop the head                 (`lhmPopFront`)

A hash map holds at most one entry per key; on the list this is the invariant "keys pairwise
distinct" (`Proofs/LruLemmas.lean` proves that every operation preserves it), under which
`lhmErase` (a `filter`) removes exactly the one entry of the key.

Time: every method reads `Instant::now()`; here it is the explicit argument `now : Nat`
(any unit; the correspondence run uses scripted milliseconds).  `Instant + Duration` overflow
(a panic in Rust) is outside the model.  `capacity: usize` is a `Nat`; `None` becomes
`usize::MAX` as in `new`.

Generic in key and value type (`DecidableEq K`) so that the handler model can use
`Cache NodeAddress Session` as its `sessions` field.
-/
namespace Discv5.Lru

/-- One node of the linked hash map: `key ↦ (val, stamp)`. -/
structure Entry (K V : Type) where
  key : K
  val : V
  stamp : Nat
  deriving Repr

/-- `struct LruTimeCache { map, ttl, capacity }`; `map` front (least recently used) first. -/
structure Cache (K V : Type) where
  map : List (Entry K V)
  ttl : Nat
  capacity : Nat
  deriving Repr

/-- `usize::MAX` on the 64-bit targets the crate is built for. -/
def usizeMax : Nat := 2 ^ 64 - 1

variable {K V : Type} [DecidableEq K]

/-! ### `LinkedHashMap` primitives -/

/-- `map.get(key)` / `raw_entry_mut().from_key(key)`. -/
def lhmGet (m : List (Entry K V)) (k : K) : Option (Entry K V) :=
  m.find? (fun e => e.key = k)

/-- `map.remove(key)` / `occupied.remove()`: unlink the entry of `k`. -/
def lhmErase (m : List (Entry K V)) (k : K) : List (Entry K V) :=
  m.filter (fun e => e.key ≠ k)

/-- `map.insert(key, (value, stamp))`: an existing entry is moved to the back and its payload
replaced, a new one is attached at the back. -/
def lhmInsert (m : List (Entry K V)) (e : Entry K V) : List (Entry K V) :=
  lhmErase m e.key ++ [e]

/-- `map.pop_front()`. -/
def lhmPopFront (m : List (Entry K V)) : List (Entry K V) := m.tail

/-- The expiry test shared by `get_mut` (`stamp + ttl < now` → expired), `peek`
(`stamp + ttl >= now` → alive) and `remove_expired_values` (`stamp + ttl >= now` → stop):
an entry is expired iff strictly more than `ttl` has passed since its stamp. -/
def expired (ttl now : Nat) (e : Entry K V) : Bool := decide (e.stamp + ttl < now)

/-! ### `LruTimeCache` methods -/

/-- `LruTimeCache::new(ttl, capacity)`. -/
def new (ttl : Nat) (capacity : Option Nat) : Cache K V :=
  { map := [], ttl := ttl,
    capacity := match capacity with
      | some cap => cap
      | none => usizeMax }

/-- `insert`: `map.insert(key, (value, now))`, then **one** `pop_front` if `len > capacity`.
Expired entries are not looked at: they count towards `len` and are evicted in list order. -/
def insert (c : Cache K V) (now : Nat) (k : K) (v : V) : Cache K V :=
  let m := lhmInsert c.map ⟨k, v, now⟩
  if m.length > c.capacity then { c with map := lhmPopFront m } else { c with map := m }

/-- `get_mut`, with the caller's use of the returned `&mut V` as the function `f` (the value
the caller sees is the one before `f`).  Occupied and expired → the entry is removed and `None`
is returned; occupied and alive → stamp := now, `to_back`, `Some`; vacant → `None`. -/
def getMutWith (c : Cache K V) (now : Nat) (k : K) (f : V → V) : Cache K V × Option V :=
  match lhmGet c.map k with
  | some e =>
    if e.stamp + c.ttl < now then
      ({ c with map := lhmErase c.map k }, none)
    else
      ({ c with map := lhmErase c.map k ++ [{ e with val := f e.val, stamp := now }] },
        some e.val)
  | none => (c, none)

/-- `get_mut` whose reference is only read. -/
def getMut (c : Cache K V) (now : Nat) (k : K) : Cache K V × Option V := getMutWith c now k id

/-- `get` = `self.get_mut(key).map(|value| &*value)`. -/
def get (c : Cache K V) (now : Nat) (k : K) : Cache K V × Option V := getMut c now k

/-- `peek` (`&self`): the value if present and `stamp + ttl >= now`; nothing is changed. -/
def peek (c : Cache K V) (now : Nat) (k : K) : Option V :=
  match lhmGet c.map k with
  | some e => if e.stamp + c.ttl ≥ now then some e.val else none
  | none => none

/-- `len` = `self.map.len()` — counts entries that are expired but not yet removed. -/
def len (c : Cache K V) : Nat := c.map.length

/-- `remove` = `self.map.remove(key).map(|v| v.0)` — no expiry test. -/
def remove (c : Cache K V) (k : K) : Cache K V × Option V :=
  ({ c with map := lhmErase c.map k }, (lhmGet c.map k).map (·.val))

/-- `remove_expired_values`: `while let Some(front) = map.front() { if front.stamp + ttl >= now
{ break }; keys.push(map.pop_front().key) }` — pops the maximal expired *prefix* of the list
and returns its keys in list order. -/
def removeExpired (c : Cache K V) (now : Nat) : Cache K V × List K :=
  ({ c with map := c.map.dropWhile (expired c.ttl now) },
    (c.map.takeWhile (expired c.ttl now)).map (·.key))

/-! ### Operation sequences -/

/-- The operations of the cache (`getMut k w`: `get_mut` followed by `*v = w` on a hit). -/
inductive Op (K V : Type) where
  | insert (k : K) (v : V)
  | get (k : K)
  | getMut (k : K) (w : V)
  | peek (k : K)
  | len
  | remove (k : K)
  | sweep
  deriving Repr

/-- What the caller sees. -/
inductive Reply (K V : Type) where
  | unit
  | val (o : Option V)
  | num (n : Nat)
  | keys (ks : List K)
  deriving Repr

/-- One operation at time `now`. -/
def step (c : Cache K V) (now : Nat) : Op K V → Cache K V × Reply K V
  | .insert k v => (insert c now k v, .unit)
  | .get k => let r := get c now k; (r.1, .val r.2)
  | .getMut k w => let r := getMutWith c now k (fun _ => w); (r.1, .val r.2)
  | .peek k => (c, .val (peek c now k))
  | .len => (c, .num (len c))
  | .remove k => let r := remove c k; (r.1, .val r.2)
  | .sweep => let r := removeExpired c now; (r.1, .keys r.2)

/-- State after a timed operation sequence. -/
def run (c : Cache K V) : List (Nat × Op K V) → Cache K V
  | [] => c
  | (t, op) :: rest => run (step c t op).1 rest

/-- The replies of a timed operation sequence: `(time, op, reply)` per operation. -/
def trace (c : Cache K V) : List (Nat × Op K V) → List (Nat × Op K V × Reply K V)
  | [] => []
  | (t, op) :: rest => (t, op, (step c t op).2) :: trace (step c t op).1 rest

/-- Times never go backwards, starting from `t0`. -/
def NonDecreasing (t0 : Nat) : List (Nat × Op K V) → Prop
  | [] => True
  | (t, _) :: rest => t0 ≤ t ∧ NonDecreasing t rest

/-- The keys held, front (least recently used) first. -/
def keys (c : Cache K V) : List K := c.map.map (·.key)

end Discv5.Lru

/-
Model of `src/kbucket/filter.rs`: the /24 IP filters for buckets and for the table.
A routing-table value (ENR) is abstracted to its content identity and the /24 of its IPv4 address.
-/
import Discv5Model.Model.KBucket

namespace Discv5.KB

/-- Abstract ENR: `id` identifies the record content (two records are `==` iff same id),
`subnet` is the /24 prefix of its `ip4` field, if any. -/
structure Val where
  id : Nat
  subnet : Option Nat
  deriving Repr, DecidableEq

/-- The counting loop of `ip_filter` for a value with IPv4 subnet `s` (early exit included). -/
def ipCountLoop (limit : Nat) (v : Val) (s : Nat) : List Val → Nat → Bool
  | [], _ => true
  | o :: rest, count =>
    if o = v then ipCountLoop limit v s rest count else
    let count' := if o.subnet = some s then count + 1 else count
    if count' ≥ limit then false else ipCountLoop limit v s rest count'

/-- `ip_filter(value_to_be_inserted, other_vals, limit)`. -/
def ipFilter (limit : Nat) (v : Val) (others : List Val) : Bool :=
  match v.subnet with
  | some s => ipCountLoop limit v s others 0
  | none => true

def ipBucketFilter : Val → List Val → Bool := ipFilter Consts.MAX_NODES_PER_SUBNET_BUCKET
def ipTableFilter : Val → List Val → Bool := ipFilter Consts.MAX_NODES_PER_SUBNET_TABLE

/-- Number of values in `vs` whose IPv4 address lies in subnet `s`. -/
def subnetCount (s : Nat) (vs : List Val) : Nat := (vs.filter (fun v => v.subnet = some s)).length

end Discv5.KB

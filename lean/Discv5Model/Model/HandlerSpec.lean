/-
Specification vocabulary for the handler properties (C01–C04, C13, C15, C19): runs, traces and the
predicates the property theorems are stated with.  Nothing here influences the executable model.
-/
import Discv5Model.Model.Handler

namespace Discv5.H

/-- State after an event history (from the initial state). -/
def run (c : Cfg) (evs : List Ev) : HState := evs.foldl (fun s e => (step c s e).1) {}

/-- The per-step outputs along a history. -/
def trace (c : Cfg) : HState → List Ev → List (List Out)
  | _, [] => []
  | s, e :: rest => (step c s e).2 :: trace c (step c s e).1 rest

/-- All outputs of a history, in order. -/
def outputs (c : Cfg) (evs : List Ev) : List Out := (trace c {} evs).flatten

/-! ### C13 -/

def exemptCount (s : HState) (a : Addr) : Nat :=
  match s.exempt.find? (·.1 == a) with
  | some e => e.2
  | none => 0

/-- Outstanding items towards address `a`: active requests plus active challenges. -/
def outstanding (s : HState) (a : Addr) : Nat :=
  (s.active.filter (fun call => call.contact.na.addr == a)).length +
    (s.challenges.filter (fun e => e.1.addr == a)).length

structure ExemptAcc (s : HState) : Prop where
  count : ∀ a, exemptCount s a = outstanding s a
  noZero : ∀ e ∈ s.exempt, e.2 ≠ 0
  keysNodup : (s.exempt.map (·.1)).Nodup

/-! ### C04 -/

/-- Request ids of external requests currently tracked (active or queued). -/
def trackedExt (s : HState) : List Nat :=
  (s.active.filter (fun call => !call.internal)).map (·.rid) ++
    s.pending.flatMap (fun e => (e.2.filter (fun pr => !pr.internal)).map (·.rid))

def appRids : List Ev → List Nat
  | [] => []
  | .appRequest _ rid _ :: rest => rid :: appRids rest
  | _ :: rest => appRids rest

/-- Application discipline: request ids are never reused and are below every internal id
(internal ids are `localId * 10^6 + k`; the real ones are 64-bit random values). -/
def AppDiscipline (c : Cfg) (evs : List Ev) : Prop :=
  (appRids evs).Nodup ∧ (∀ r ∈ appRids evs, r < 1000000) ∧ 1 ≤ c.localId

def aboutRid (rid : Nat) : Out → Bool
  | .failed r _ => r == rid
  | .response _ r _ => r == rid
  | _ => false

def isFailure (rid : Nat) : Out → Bool
  | .failed r _ => r == rid
  | _ => false

/-- A queued request always has a live timer that will release or fail it. -/
def PendingHasReleaser (s : HState) : Prop :=
  ∀ e ∈ s.pending, e.2 ≠ [] →
    s.challenges.any (·.1 == e.1) = true ∨
    (s.sessions.all (·.1 != e.1) = true ∧
      s.active.any (fun call => call.contact.na == e.1 && call.initiating) = true)

/-! ### C01 / C03 -/

/-- Signatures carried by the handshake datagrams of a history, with the claimed node address. -/
def handshakeSigs : List Ev → List (NA × Sig)
  | [] => []
  | .dgram src (.handshake srcId _ sig _ _ _) :: rest => ({ id := srcId, addr := src }, sig) :: handshakeSigs rest
  | _ :: rest => handshakeSigs rest

/-- Node ids this node dialled itself. -/
def dialled : List Ev → List Id
  | [] => []
  | .appRequest ct _ _ :: rest => ct.na.id :: dialled rest
  | _ :: rest => dialled rest

/-- Contacts handed in by the application are consistent: the record, if any, is the record of
the node id of the contact (what `NodeContact::try_from_enr` / `From<Enr>` produce). -/
def ContactsWF : List Ev → Prop
  | [] => True
  | .appRequest ct _ _ :: rest => (∀ r, ct.record = some r → r.id = ct.na.id) ∧ ContactsWF rest
  | _ :: rest => ContactsWF rest

/-- An output that treats the remote party as node `x`. -/
def attributesTo (x : Id) : Out → Bool
  | .established r _ _ => r.id == x
  | .request na _ _ => na.id == x
  | .response na _ _ => na.id == x
  | .unverifiable _ _ id => id == x
  | _ => false

/-- Challenge-data names of the WHOAREYOU packets sent in a list of outputs. -/
def sentCds : List Out → List Nat
  | [] => []
  | .send _ (.whoareyou _ cd _) :: rest => cd :: sentCds rest
  | _ :: rest => sentCds rest

/-! ### C19 -/

/-- (key, counter prefix, packet) of every sealed *message* packet sent. -/
def sentSealed : List Out → List (Key × Nat × Pkt)
  | [] => []
  | .send _ (.message src n (.enc k n' ctr pt ok)) :: rest =>
      (k, ctr, .message src n (.enc k n' ctr pt ok)) :: sentSealed rest
  | _ :: rest => sentSealed rest

end Discv5.H

/-
Specification predicates for the routing table (used by the property theorems C07, C08, C16).
These are *statements* about the model in `KBucket.lean` / `Closest.lean`, not part of the
executable behaviour.
-/
import Discv5Model.Model.Closest
import Discv5Model.Model.IpFilter

namespace Discv5.KB

variable {V : Type} [DecidableEq V]

/-- Bucket invariant (C07 (i)–(v)); `tick` is the table's logical clock. -/
structure BInv (c : Cfg V) (tick : Nat) (b : Bucket V) : Prop where
  /-- (i) at most 16 nodes -/
  len : b.nodes.length ≤ 16
  /-- (iii) all disconnected nodes precede all connected ones and (ii) `first_connected_pos`
  is exactly the length of the disconnected prefix (`none` iff nothing is connected) -/
  split : ∃ dis con, b.nodes = dis ++ con ∧ (∀ n ∈ dis, n.st.conn = false) ∧
      (∀ n ∈ con, n.st.conn = true) ∧ b.fcp = (if con = [] then none else some dis.length) ∧
      dis.Pairwise (fun a b => a.stamp ≤ b.stamp) ∧ con.Pairwise (fun a b => a.stamp ≤ b.stamp)
  /-- (iv) no key twice, the pending slot included -/
  keysNodup : (b.nodes.map (·.key)).Nodup
  pendingFresh : ∀ p, b.pending = some p → p.node.key ∉ b.nodes.map (·.key)
  /-- (v) connected incoming nodes never exceed the per-bucket limit -/
  incoming : (b.nodes.filter (fun n => n.st.conn && n.st.incoming)).length ≤ c.maxIncoming
  /-- ghost: stamps never exceed the logical clock -/
  stampsLe : ∀ n ∈ b.nodes, n.stamp ≤ tick

/-- Table invariant: 256 buckets, each satisfying `BInv`, and (vi) every stored or pending node
sits in the bucket of its log2 distance (hence is not the local id, and no id occurs twice
in the whole table). -/
structure TInv (c : Cfg V) (t : Table V) : Prop where
  nBuckets : t.buckets.length = 256
  buckets : ∀ i, i < 256 → BInv c t.tick (t.bucket i)
  placed : ∀ i, i < 256 → ∀ n ∈ (t.bucket i).nodes, bucketIndex t.localKey n.key = some i
  placedPending : ∀ i, i < 256 → ∀ p, (t.bucket i).pending = some p →
      bucketIndex t.localKey p.node.key = some i

/-- Operations of the routing table as the service / `Discv5` use them. -/
inductive Op (V : Type) where
  | insertOrUpdate (now key : Nat) (value : V) (st : Status)
  | updateNode (now key : Nat) (value : V) (state : Option Bool)
  | updateNodeStatus (now key : Nat) (conn : Bool) (dir : Option Bool)
  | remove (now key : Nat)
  | entry (now key : Nat)
  | iter (now : Nat)
  | closest (now target : Nat)
  | nodesByDistances (now : Nat) (ds : List Nat) (maxNodes : Nat)
  | takeApplied

def Table.step (c : Cfg V) (t : Table V) : Op V → Table V
  | .insertOrUpdate now key v st => (t.insertOrUpdate c now key v st).1
  | .updateNode now key v s => (t.updateNode c now key v s).1
  | .updateNodeStatus now key conn dir => (t.updateNodeStatus c now key conn dir).1
  | .remove now key => (t.remove c now key).1
  | .entry now key => t.entryTouch c now key
  | .iter now => t.applyAll c now
  | .closest now target => (t.closest c now target).1
  | .nodesByDistances now ds m => (t.nodesByDistances c now ds m).1
  | .takeApplied => t.takeApplied.1

/-- Keys of all stored nodes and all pending nodes of the table. -/
def Table.allKeys (t : Table V) : List Nat :=
  t.buckets.flatMap fun b => b.nodes.map (·.key) ++ (match b.pending with | some p => [p.node.key] | none => [])

/-! ### C16 -/

/-- IP-diversity invariant: per bucket at most 2, per table (stored **and pending**) at most 10
nodes of one /24. -/
structure IpInv (t : Table Val) : Prop where
  perBucket : ∀ i s, subnetCount s (t.bucket i).values ≤ 2
  perTable : ∀ s, subnetCount s t.tableValues ≤ 10

/-- The service always files a record under the node id it contains: distinct keys carry distinct
values.  (`keyOf` is the record → node-id map.) -/
def ValuesMatchKeys (keyOf : Val → Nat) (t : Table Val) : Prop :=
  ∀ b ∈ t.buckets, (∀ n ∈ b.nodes, n.key = keyOf n.value) ∧
    (∀ p, b.pending = some p → p.node.key = keyOf p.node.value)

def ipCfg (maxIncoming pendingTimeout : Nat) : Cfg Val :=
  { maxIncoming := maxIncoming, pendingTimeout := pendingTimeout,
    bucketFilter := ipBucketFilter, tableFilter := ipTableFilter }

/-- Ops whose (key, value) arguments respect `keyOf`. -/
def Op.Respects (keyOf : Val → Nat) : Op Val → Prop
  | .insertOrUpdate _ key v _ => key = keyOf v
  | .updateNode _ key v _ => key = keyOf v
  | _ => True

end Discv5.KB

/-
Executable model of the iterative-query state machines (C09, C10).

Transliterated from
* `/repo/src/query_pool/peers/closest.rs`   (`FindNodeQuery`)
* `/repo/src/query_pool/peers/predicate.rs` (`PredicateQuery`)
* `/repo/src/query_pool.rs`                 (`QueryPool`, `Query`)

Conventions
* node ids / keys are `Nat` (256-bit in the code), `Key::distance` is `Nat.xor`;
* the candidate map `BTreeMap<Distance, QueryPeer>` is a `List Peer` kept strictly sorted by
  `Peer.dist` (`lookup`, `modifyAt`, `insertOr`, `insertRepl` are the map operations the code uses:
  `entry(d)` + `get_mut`, `entry(d).or_insert(..)`, `collect()`);
* `Instant` is an explicit `now : Nat`; `Duration`s are `Nat`s in the same unit;
* the two variants share one model: `Variant.closest` ignores the `pmatch` flag
  (`FindNodeQuery` has no such field), `Variant.predicate` is `PredicateQuery`, whose
  `predicate` closure is abstracted to the flag that arrives with every reported peer;
* `QueryPool::poll` iterates a hash map: the visiting order is the parameter `order`.
Core Lean only (the driver links natively).
-/
namespace Discv5.Query

/-- `QueryPeerState`. -/
inductive PState where
  | notContacted
  | waiting (deadline : Nat)
  | unresponsive
  | failed
  | succeeded
  deriving Repr, DecidableEq, Inhabited

def PState.isWaiting : PState → Bool
  | .waiting _ => true
  | _ => false

def PState.isNotContacted : PState → Bool
  | .notContacted => true
  | _ => false

def PState.isSucceeded : PState → Bool
  | .succeeded => true
  | _ => false

/-- Rank used by the termination argument: NotContacted 3 > Waiting 2 > Unresponsive 1 >
Failed / Succeeded 0. -/
def PState.rank : PState → Nat
  | .notContacted => 3
  | .waiting _ => 2
  | .unresponsive => 1
  | .failed => 0
  | .succeeded => 0

/-- `QueryPeer` together with its map key (`dist`). -/
structure Peer where
  key : Nat
  dist : Nat
  pmatch : Bool
  returned : Nat
  state : PState
  deriving Repr, DecidableEq, Inhabited

/-- `QueryProgress`. -/
inductive Progress where
  | iterating (noProgress : Nat)
  | stalled
  | finished
  deriving Repr, DecidableEq, Inhabited

def Progress.isFinished : Progress → Bool
  | .finished => true
  | _ => false

inductive Variant where
  | closest
  | predicate
  deriving Repr, DecidableEq, Inhabited

/-- `FindNodeQueryConfig` / `PredicateQueryConfig`. -/
structure Config where
  parallelism : Nat
  numResults : Nat
  peerTimeout : Nat
  deriving Repr, DecidableEq, Inhabited

/-- `FindNodeQuery` / `PredicateQuery`. -/
structure Q where
  variant : Variant
  target : Nat
  progress : Progress
  peers : List Peer
  numWaiting : Nat
  cfg : Config
  deriving Repr, DecidableEq, Inhabited

/-- `QueryState`. -/
inductive QState where
  | waiting (peer : Option Nat)
  | waitingAtCapacity
  | finished
  deriving Repr, DecidableEq, Inhabited

/-- Does the peer count for the termination conditions / the result?  (`peer.predicate_match`
in `predicate.rs`; no such test in `closest.rs`.) -/
def counts (v : Variant) (p : Peer) : Bool :=
  match v with
  | .closest => true
  | .predicate => p.pmatch

/-! ### Map operations -/

/-- `closest_peers.get(&d)` -/
def lookup (d : Nat) : List Peer → Option Peer
  | [] => none
  | e :: es => if e.dist = d then some e else lookup d es

/-- `*closest_peers.get_mut(&d) = f(..)` -/
def modifyAt (d : Nat) (f : Peer → Peer) : List Peer → List Peer
  | [] => []
  | e :: es => if e.dist = d then f e :: es else e :: modifyAt d f es

/-- `closest_peers.entry(p.dist).or_insert(p)` -/
def insertOr (p : Peer) : List Peer → List Peer
  | [] => [p]
  | e :: es =>
    if p.dist < e.dist then p :: e :: es
    else if p.dist = e.dist then e :: es
    else e :: insertOr p es

/-- `closest_peers.insert(p.dist, p)` (what `collect()` into a `BTreeMap` does: the last of
several equal keys wins). -/
def insertRepl (p : Peer) : List Peer → List Peer
  | [] => [p]
  | e :: es =>
    if p.dist < e.dist then p :: e :: es
    else if p.dist = e.dist then p :: es
    else e :: insertRepl p es

def mkPeer (target key : Nat) (m : Bool) : Peer :=
  { key := key, dist := key ^^^ target, pmatch := m, returned := 0, state := .notContacted }

/-! ### `with_config` -/

/-- `FindNodeQuery::with_config` / `PredicateQuery::with_config`: the first `num_results`
items of the iterator are collected into the map. -/
def withConfig (v : Variant) (cfg : Config) (target : Nat) (known : List (Nat × Bool)) : Q :=
  { variant := v
    target := target
    progress := .iterating 0
    peers := (known.take cfg.numResults).foldl (fun ps km => insertRepl (mkPeer target km.1 km.2) ps) []
    numWaiting := 0
    cfg := cfg }

/-! ### `on_success` -/

/-- The `for peer in closer_peers` loop: `or_insert` and the `progress` flag (overwritten on
every iteration, as in the code). -/
def incorporate (target numResults numClosest : Nat) :
    List (Nat × Bool) → List Peer × Bool → List Peer × Bool
  | [], acc => acc
  | km :: rest, acc =>
    let ps' := insertOr (mkPeer target km.1 km.2) acc.1
    let first := (ps'.head?.map (·.dist)) == some (km.1 ^^^ target)
    incorporate target numResults numClosest rest (ps', first || decide (numClosest < numResults))

/-- The `self.progress = match self.progress { … }` at the end of `on_success`. -/
def updateProgress (cfg : Config) (prog : Progress) (progress : Bool) : Progress :=
  match prog with
  | .iterating n =>
    let n' := if progress then 0 else n + 1
    if n' ≥ cfg.parallelism then .stalled else .iterating n'
  | .stalled => if progress then .iterating 0 else .stalled
  | .finished => .finished

def markSucceeded (n : Nat) (e : Peer) : Peer :=
  { e with returned := e.returned + n, state := .succeeded }

def markFailed (e : Peer) : Peer := { e with state := .failed }

/-- Second half of `on_success` (after the peer has been found `Waiting` / `Unresponsive`). -/
def finishSuccess (q : Q) (d : Nat) (closer : List (Nat × Bool)) : Q :=
  let ps := modifyAt d (markSucceeded closer.length) q.peers
  let r := incorporate q.target q.cfg.numResults ps.length closer (ps, false)
  { q with peers := r.1, progress := updateProgress q.cfg q.progress r.2 }

/-- `on_success(node_id, closer_peers)`; every closer peer comes with the value of the
predicate on its record (ignored by the closest variant). -/
def onSuccess (q : Q) (p : Nat) (closer : List (Nat × Bool)) : Q :=
  if q.progress.isFinished then q
  else
    match lookup (p ^^^ q.target) q.peers with
    | none => q
    | some e =>
      match e.state with
      | .waiting _ => finishSuccess { q with numWaiting := q.numWaiting - 1 } (p ^^^ q.target) closer
      | .unresponsive => finishSuccess q (p ^^^ q.target) closer
      | _ => q

/-! ### `on_failure` -/

/-- `on_failure(peer)`.  `closest.rs` also fails an `Unresponsive` peer; `predicate.rs` only a
`Waiting` one. -/
def onFailure (q : Q) (p : Nat) : Q :=
  if q.progress.isFinished then q
  else
    match lookup (p ^^^ q.target) q.peers with
    | none => q
    | some e =>
      match e.state with
      | .waiting _ =>
        { q with numWaiting := q.numWaiting - 1, peers := modifyAt (p ^^^ q.target) markFailed q.peers }
      | .unresponsive =>
        match q.variant with
        | .closest => { q with peers := modifyAt (p ^^^ q.target) markFailed q.peers }
        | .predicate => q
      | _ => q

/-! ### `next` -/

/-- `at_capacity()` -/
def atCapacity (q : Q) : Bool :=
  match q.progress with
  | .stalled => decide (q.numWaiting ≥ q.cfg.numResults)
  | .iterating _ => decide (q.numWaiting ≥ q.cfg.parallelism)
  | .finished => true

/-- How the `for peer in closest_peers.values_mut()` loop of `next` ended. -/
inductive LoopOut where
  | emit (key : Nat)   -- `return QueryState::Waiting(Some(peer))`
  | atCap              -- `return QueryState::WaitingAtCapacity`
  | fin                -- `self.progress = Finished; return QueryState::Finished` inside the loop
  | done               -- the loop ran to the end
  deriving Repr, DecidableEq, Inhabited

structure LoopRes where
  peers : List Peer
  nw : Nat
  out : LoopOut
  deriving Repr, DecidableEq, Inhabited

/-- The loop of `next`: `rc` is `result_counter`, `nw` is `self.num_waiting`, `cap` is the
value `at_capacity()` had *before* the loop. -/
def nextLoop (v : Variant) (cfg : Config) (now : Nat) (cap : Bool) :
    List Peer → Option Nat → Nat → LoopRes
  | [], _, nw => ⟨[], nw, .done⟩
  | p :: ps, rc, nw =>
    match p.state with
    | .notContacted =>
      if !cap then
        ⟨{ p with state := .waiting (now + cfg.peerTimeout) } :: ps, nw + 1, .emit p.key⟩
      else ⟨p :: ps, nw, .atCap⟩
    | .waiting t =>
      if now ≥ t then
        let r := nextLoop v cfg now cap ps rc (nw - 1)
        ⟨{ p with state := .unresponsive } :: r.peers, r.nw, r.out⟩
      else if cap then ⟨p :: ps, nw, .atCap⟩
      else
        let r := nextLoop v cfg now cap ps (if counts v p then none else rc) nw
        ⟨p :: r.peers, r.nw, r.out⟩
    | .succeeded =>
      match rc with
      | some c =>
        if counts v p then
          if c + 1 ≥ cfg.numResults then ⟨p :: ps, nw, .fin⟩
          else
            let r := nextLoop v cfg now cap ps (some (c + 1)) nw
            ⟨p :: r.peers, r.nw, r.out⟩
        else
          let r := nextLoop v cfg now cap ps rc nw
          ⟨p :: r.peers, r.nw, r.out⟩
      | none =>
        let r := nextLoop v cfg now cap ps rc nw
        ⟨p :: r.peers, r.nw, r.out⟩
    | .failed =>
      let r := nextLoop v cfg now cap ps rc nw
      ⟨p :: r.peers, r.nw, r.out⟩
    | .unresponsive =>
      let r := nextLoop v cfg now cap ps rc nw
      ⟨p :: r.peers, r.nw, r.out⟩

/-- What `next` does with the outcome of the loop. -/
def finishNext (q : Q) (r : LoopRes) : Q × QState :=
  match r.out with
  | .emit k => ({ q with peers := r.peers, numWaiting := r.nw }, .waiting (some k))
  | .atCap => ({ q with peers := r.peers, numWaiting := r.nw }, .waitingAtCapacity)
  | .fin => ({ q with peers := r.peers, numWaiting := r.nw, progress := .finished }, .finished)
  | .done =>
    if r.nw > 0 then ({ q with peers := r.peers, numWaiting := r.nw }, .waiting none)
    else ({ q with peers := r.peers, numWaiting := r.nw, progress := .finished }, .finished)

/-- `next(now)` -/
def next (q : Q) (now : Nat) : Q × QState :=
  if q.progress.isFinished then (q, .finished)
  else finishNext q (nextLoop q.variant q.cfg now (atCapacity q) q.peers (some 0) q.numWaiting)

/-! ### `into_result` -/

def resultKey (v : Variant) (p : Peer) : Option Nat :=
  if p.state.isSucceeded && counts v p then some p.key else none

/-- `into_result()` -/
def intoResult (q : Q) : List Nat :=
  (q.peers.filterMap (resultKey q.variant)).take q.cfg.numResults

/-! ### Event histories of one query -/

inductive Ev where
  | next (now : Nat)
  | success (peer : Nat) (closer : List (Nat × Bool))
  | failure (peer : Nat)
  deriving Repr, DecidableEq, Inhabited

/-- One event: new state and, for `next`, the returned `QueryState`. -/
def stepQ (q : Q) : Ev → Q × Option QState
  | .next now => let r := next q now; (r.1, some r.2)
  | .success p closer => (onSuccess q p closer, none)
  | .failure p => (onFailure q p, none)

/-- The peer a step asked the caller to contact, if any. -/
def emittedOf : Option QState → Option Nat
  | some (.waiting (some k)) => some k
  | _ => none

/-- Ledger kept next to a query along a history (what an outside observer of the calls and
their return values can record): the requests handed out by `next`, the peers for which
`on_success` was called after they had been handed out, every `(peer, flag)` the query was
told about, and whether `next` has ever reported `Finished`. -/
structure Led where
  q : Q
  emitted : List Nat
  answered : List Nat
  reported : List (Nat × Bool)
  deriving Repr, Inhabited

def Led.init (v : Variant) (cfg : Config) (target : Nat) (known : List (Nat × Bool)) : Led :=
  { q := withConfig v cfg target known, emitted := [], answered := [],
    reported := known.take cfg.numResults }

def stepL (s : Led) (ev : Ev) : Led :=
  let r := stepQ s.q ev
  { q := r.1
    emitted := match emittedOf r.2 with
      | some k => k :: s.emitted
      | none => s.emitted
    answered := match ev with
      | .success p _ => if p ∈ s.emitted then p :: s.answered else s.answered
      | _ => s.answered
    reported := match ev with
      | .success _ closer => closer ++ s.reported
      | _ => s.reported }

def runL (s : Led) : List Ev → Led
  | [] => s
  | ev :: evs => runL (stepL s ev) evs

/-! ### `QueryPool` -/

/-- `Query` (the target payload is not modelled). -/
structure PQ where
  id : Nat
  q : Q
  started : Option Nat
  deriving Repr, DecidableEq, Inhabited

structure Pool where
  nextId : Nat
  timeout : Nat
  queries : List PQ
  deriving Repr, Inhabited

/-- `QueryPoolState` (owned form). -/
inductive PoolOut where
  | idle
  | waitingNone
  | waitingSome (id : Nat) (peer : Nat)
  | finished (id : Nat) (q : Q)
  | timeout (id : Nat) (q : Q)
  deriving Repr, Inhabited

def Pool.new (timeout : Nat) : Pool := { nextId := 0, timeout := timeout, queries := [] }

def Pool.get (p : Pool) (id : Nat) : Option PQ := p.queries.find? (fun x => x.id == id)

/-- `usize` -/
def idModulus : Nat := 2 ^ 64

/-- `add`: `queries.insert(id, query)` replaces a query with the same id (only possible after
the id counter wrapped). -/
def Pool.add (p : Pool) (q : Q) : Pool × Nat :=
  ({ p with nextId := (p.nextId + 1) % idModulus,
            queries := ⟨p.nextId, q, none⟩ :: p.queries.filter (fun x => x.id != p.nextId) },
   p.nextId)

def Pool.addFindnode (p : Pool) (cfg : Config) (target : Nat) (known : List (Nat × Bool)) : Pool × Nat :=
  p.add (withConfig .closest cfg target known)

def Pool.addPredicate (p : Pool) (cfg : Config) (target : Nat) (known : List (Nat × Bool)) : Pool × Nat :=
  p.add (withConfig .predicate cfg target known)

def replaceQ (x : PQ) (qs : List PQ) : List PQ := qs.map (fun y => if y.id = x.id then x else y)

/-- `get_mut(id).map(|q| q.on_success(..))` -/
def Pool.onSuccess (p : Pool) (id peer : Nat) (closer : List (Nat × Bool)) : Pool :=
  match p.get id with
  | none => p
  | some x => { p with queries := replaceQ { x with q := Query.onSuccess x.q peer closer } p.queries }

def Pool.onFailure (p : Pool) (id peer : Nat) : Pool :=
  match p.get id with
  | none => p
  | some x => { p with queries := replaceQ { x with q := Query.onFailure x.q peer } p.queries }

inductive Brk where
  | none
  | fin (id : Nat)
  | wait (id : Nat) (peer : Nat)
  | tmo (id : Nat)
  deriving Repr, DecidableEq, Inhabited

/-- The `for (&query_id, query) in self.queries.iter_mut()` loop of `poll`, visiting the ids of
`order` in that order (ids that are not in the pool are skipped). -/
def pollLoop (timeout now : Nat) : List Nat → List PQ → List PQ × Brk
  | [], qs => (qs, .none)
  | i :: rest, qs =>
    match qs.find? (fun x => x.id == i) with
    | none => pollLoop timeout now rest qs
    | some x =>
      let started := x.started.getD now
      let r := next x.q now
      let qs' := replaceQ { x with q := r.1, started := some started } qs
      match r.2 with
      | .finished => (qs', .fin i)
      | .waiting (some k) => (qs', .wait i k)
      | _ => if now - started ≥ timeout then (qs', .tmo i) else pollLoop timeout now rest qs'

def removeQ (id : Nat) (qs : List PQ) : List PQ := qs.filter (fun x => x.id != id)

/-- `poll()` at time `now`, visiting the queries in `order`. -/
def Pool.poll (p : Pool) (now : Nat) (order : List Nat) : Pool × PoolOut :=
  let r := pollLoop p.timeout now order p.queries
  match r.2 with
  | .wait i k => ({ p with queries := r.1 }, .waitingSome i k)
  | .fin i =>
    match r.1.find? (fun x => x.id == i) with
    | some x => ({ p with queries := removeQ i r.1 }, .finished i x.q)
    | none => ({ p with queries := r.1 }, .idle)   -- `expect("s.a.")`: unreachable
  | .tmo i =>
    match r.1.find? (fun x => x.id == i) with
    | some x => ({ p with queries := removeQ i r.1 }, .timeout i x.q)
    | none => ({ p with queries := r.1 }, .idle)   -- unreachable
  | .none => ({ p with queries := r.1 }, if r.1.isEmpty then .idle else .waitingNone)

/-- Pool-level events. -/
inductive PEv where
  | add (v : Variant) (cfg : Config) (target : Nat) (known : List (Nat × Bool))
  | poll (now : Nat) (order : List Nat)
  | success (id peer : Nat) (closer : List (Nat × Bool))
  | failure (id peer : Nat)
  deriving Repr, Inhabited

/-- One pool event; `poll` is the only one with an observable return value. -/
def stepP (p : Pool) : PEv → Pool × Option PoolOut
  | .add v cfg t known => ((p.add (withConfig v cfg t known)).1, none)
  | .poll now order => let r := p.poll now order; (r.1, some r.2)
  | .success id peer closer => (p.onSuccess id peer closer, none)
  | .failure id peer => (p.onFailure id peer, none)

def runP (p : Pool) : List PEv → Pool
  | [] => p
  | ev :: evs => runP (stepP p ev).1 evs

/-- The `poll` return values along a history. -/
def outsP (p : Pool) : List PEv → List PoolOut
  | [] => []
  | ev :: evs =>
    let r := stepP p ev
    match r.2 with
    | some o => o :: outsP r.1 evs
    | none => outsP r.1 evs

end Discv5.Query

/-
Byte-string utilities shared by the codec models (core Lean only).

* `Bytes`         – `List UInt8`
* `Res`           – result of a transliterated Rust function: a value, an error value, or a
                    *panic* (an out-of-range slice / index in the Rust source).  Every Rust
                    slice expression is modelled by the checked `slice`, so "never panics" is a
                    theorem about the guards in the code, not an assumption.
* big-endian integer encodings, keystream xor, hex I/O for the driver.
-/
namespace Discv5

abbrev Bytes := List UInt8

/-- Result of a transliterated Rust function. -/
inductive Res (ε α : Type) where
  | ok (a : α)
  | err (e : ε)
  | panic
  deriving Repr, DecidableEq

namespace Res
@[inline] def bind {ε α β} (x : Res ε α) (f : α → Res ε β) : Res ε β :=
  match x with
  | .ok a => f a
  | .err e => .err e
  | .panic => .panic

instance {ε} : Monad (Res ε) where
  pure := .ok
  bind := Res.bind

@[simp] theorem ok_bind {ε α β} (a : α) (f : α → Res ε β) : (Res.ok a >>= f) = f a := rfl
@[simp] theorem err_bind {ε α β} (e : ε) (f : α → Res ε β) : ((Res.err e : Res ε α) >>= f) = .err e := rfl
@[simp] theorem panic_bind {ε α β} (f : α → Res ε β) : ((Res.panic : Res ε α) >>= f) = .panic := rfl
@[simp] theorem pure_eq {ε α} (a : α) : (pure a : Res ε α) = .ok a := rfl
end Res

/-- Rust `&l[a..b]`: panics unless `a ≤ b ≤ len`. -/
def slice {ε} (l : List α) (a b : Nat) : Res ε (List α) :=
  if a ≤ b ∧ b ≤ l.length then .ok ((l.drop a).take (b - a)) else .panic

/-- Rust `&l[a..]`: panics unless `a ≤ len`. -/
def sliceFrom {ε} (l : List α) (a : Nat) : Res ε (List α) :=
  if a ≤ l.length then .ok (l.drop a) else .panic

/-- Rust `l[i]`: panics unless `i < len`. -/
def index {ε} (l : List α) (i : Nat) : Res ε α :=
  match l[i]? with
  | some x => .ok x
  | none => .panic

/-- `k`-byte big-endian encoding of `n` (truncating, like `as uN` + `to_be_bytes`). -/
def beBytes : Nat → Nat → Bytes
  | 0, _ => []
  | k + 1, n => beBytes k (n / 256) ++ [UInt8.ofNat (n % 256)]

/-- Big-endian value of a byte string. -/
def beNat (bs : Bytes) : Nat := bs.foldl (fun acc b => acc * 256 + b.toNat) 0

/-- Minimal big-endian encoding (no leading zero byte); `0 ↦ []`. -/
def beMin (n : Nat) : Bytes :=
  if h : n = 0 then [] else beMin (n / 256) ++ [UInt8.ofNat (n % 256)]
decreasing_by omega

/-- xor with a keystream starting at stream position `off`. -/
def xorStream (ks : Nat → UInt8) : Nat → Bytes → Bytes
  | _, [] => []
  | off, b :: bs => (b ^^^ ks off) :: xorStream ks (off + 1) bs

/-! ### hex I/O (driver only) -/

def hexDigit (n : Nat) : Char :=
  if n < 10 then Char.ofNat (48 + n) else Char.ofNat (87 + n)

def toHex (bs : Bytes) : String :=
  String.ofList (bs.flatMap fun b => [hexDigit (b.toNat / 16), hexDigit (b.toNat % 16)])

def hexVal (c : Char) : Option Nat :=
  if '0' ≤ c ∧ c ≤ '9' then some (c.toNat - 48)
  else if 'a' ≤ c ∧ c ≤ 'f' then some (c.toNat - 87)
  else if 'A' ≤ c ∧ c ≤ 'F' then some (c.toNat - 55)
  else none

def ofHexChars : List Char → Option Bytes
  | [] => some []
  | [_] => none
  | a :: b :: rest => do
    let x ← hexVal a
    let y ← hexVal b
    let r ← ofHexChars rest
    pure (UInt8.ofNat (x * 16 + y) :: r)

/-- Parses a hex string; `-` denotes the empty string. -/
def ofHex (s : String) : Option Bytes :=
  if s == "-" then some [] else ofHexChars s.toList

def hexOrDash (bs : Bytes) : String := if bs.isEmpty then "-" else toHex bs

end Discv5

/- Driver for the query engine (ops whose name starts with `q`). -/
import Driver.Common
namespace Discv5.Driver

structure QuerySt where
  dummy : Unit := ()

/-- One op of the query engine: full token list (op name first) → new state and reply line. -/
def queryStep (st : QuerySt) (toks : List String) : QuerySt × String :=
  match toks with
  | _ => (st, "bad-op")

end Discv5.Driver

/- Driver for the query engine (ops whose name starts with `q`).

Single query (driven with explicit time):
  qnew V PAR NR PTO TARGET INIT      V = f (FindNodeQuery) | p (PredicateQuery); INIT = `id:flag,…` | `-`
  qnext NOW                           → wait:<id> | wait:- | cap | fin
  qok REF CLOSER / qfail REF          REF = @k (k-th outstanding request) | %k (k-th request ever
                                      emitted) | <64 hex>;  CLOSER = `id:flag,…` | `-`
  qpeek                               into_result of a clone (closest variant only)
  qdrive NOW CAP                      answer everything until `next` says Finished
  qres                                into_result (consumes the query)
Pool (real time on the implementation side; NOW is model time only):
  qpnew TIMEOUT / qpadd V PAR NR PTO TARGET INIT / qpok ID REF CLOSER / qpfail ID REF /
  qppoll NOW CAP                      poll until Idle / Waiting(None); events grouped by query id
-/
import Driver.Common
import Discv5Model.Model.Query
namespace Discv5.Driver
open Discv5.Query

/-- Ledger of one query kept by the driver: requests in emission order. -/
structure QLed where
  outstanding : List Nat := []
  emitted : List Nat := []
  deriving Inhabited

structure QuerySt where
  q : Option Q := none
  led : QLed := {}
  lastNow : Nat := 0
  pool : Option Pool := none
  pleds : List (Nat × QLed) := []

def idHex (n : Nat) : String := toHex (beBytes 32 n)

def parseId (s : String) : Option Nat :=
  if s.length != 64 then none else (ofHex s).map beNat

def parseFlag (s : String) : Option Bool :=
  if s == "1" then some true else if s == "0" then some false else none

def parsePairs (s : String) : Option (List (Nat × Bool)) :=
  if s == "-" then some []
  else (s.splitOn ",").mapM fun item =>
    match fields item with
    | [i, f] => do
      let i ← parseId i
      let f ← parseFlag f
      pure (i, f)
    | _ => none

def parseVariant (s : String) : Option Variant :=
  if s == "f" then some .closest else if s == "p" then some .predicate else none

def num? (s : String) : Option Nat := if s.isEmpty then none else s.toNat?

def showIds (l : List Nat) : String :=
  if l.isEmpty then "-" else ",".intercalate (l.map idHex)

def showPState : PState → String
  | .notContacted => "N"
  | .waiting _ => "W"
  | .unresponsive => "U"
  | .failed => "F"
  | .succeeded => "S"

def showProgress : Progress → String
  | .iterating n => s!"I{n}"
  | .stalled => "S"
  | .finished => "F"

/-- Internal state, shown only for the closest variant (the implementation exposes it through
`Debug`; `PredicateQuery` has no such window). -/
def suffix (q : Q) : String :=
  match q.variant with
  | .predicate => "-"
  | .closest =>
    let st := if q.peers.isEmpty then "-"
      else ",".intercalate (q.peers.map fun p => s!"{showPState p.state}{p.returned}")
    s!"nw={q.numWaiting} prog={showProgress q.progress} st={st}"

def showQState : QState → String
  | .waiting (some k) => s!"wait:{idHex k}"
  | .waiting none => "wait:-"
  | .waitingAtCapacity => "cap"
  | .finished => "fin"

inductive Ref where
  | peer (k : Nat)
  | none
  | bad

def resolveRef (led : QLed) (s : String) : Ref :=
  if s.startsWith "@" then
    match num? (s.drop 1).toString with
    | some k => if led.outstanding.isEmpty then .none else .peer (led.outstanding.getD (k % led.outstanding.length) 0)
    | none => .bad
  else if s.startsWith "%" then
    match num? (s.drop 1).toString with
    | some k => if led.emitted.isEmpty then .none else .peer (led.emitted.getD (k % led.emitted.length) 0)
    | none => .bad
  else
    match parseId s with
    | some k => .peer k
    | none => .bad

def QLed.emit (l : QLed) (k : Nat) : QLed :=
  { outstanding := l.outstanding ++ [k], emitted := l.emitted ++ [k] }

def QLed.terminal (l : QLed) (k : Nat) : QLed :=
  { l with outstanding := l.outstanding.filter (· != k) }

/-- `qdrive`: answer every request at once (alternating success without peers / failure); when
`next` hands out nothing, fail everything still outstanding and let the peer timeout pass. -/
def drive : Nat → Q → QLed → Nat → Nat → Q × QLed × Nat × Nat × Bool
  | 0, q, led, now, n => (q, led, now, n, false)
  | fuel + 1, q, led, now, n =>
    let r := next q now
    match r.2 with
    | .finished => (r.1, led, now, n, true)
    | .waiting (some k) =>
      let led := (led.emit k).terminal k
      let q' := if n % 2 == 0 then onSuccess r.1 k [] else onFailure r.1 k
      drive fuel q' led now (n + 1)
    | _ =>
      let q' := led.outstanding.foldl (fun q o => onFailure q o) r.1
      drive fuel q' { led with outstanding := [] } (now + q.cfg.peerTimeout + 1) n

def getLed (pl : List (Nat × QLed)) (id : Nat) : Option QLed := (pl.find? (·.1 == id)).map (·.2)

def setLed (pl : List (Nat × QLed)) (id : Nat) (l : QLed) : List (Nat × QLed) :=
  (id, l) :: pl.filter (·.1 != id)

/-- Event log of a drain: (id, emitted peers, final result: F/T + ids). -/
structure PLog where
  id : Nat
  emits : List Nat := []
  fin : Option (String × List Nat) := none

def logEmit (lg : List PLog) (id k : Nat) : List PLog :=
  if lg.any (·.id == id) then lg.map fun e => if e.id == id then { e with emits := e.emits ++ [k] } else e
  else lg ++ [{ id := id, emits := [k] }]

def logFin (lg : List PLog) (id : Nat) (tag : String) (res : List Nat) : List PLog :=
  if lg.any (·.id == id) then lg.map fun e => if e.id == id then { e with fin := some (tag, res) } else e
  else lg ++ [{ id := id, fin := some (tag, res) }]

def insertSorted (x : Nat) : List Nat → List Nat
  | [] => [x]
  | y :: ys => if x ≤ y then x :: y :: ys else y :: insertSorted x ys

def sortNat (l : List Nat) : List Nat := l.foldl (fun acc x => insertSorted x acc) []

def drain : Nat → Pool → List (Nat × QLed) → Nat → List PLog → Pool × List (Nat × QLed) × List PLog × String
  | 0, p, pl, _, lg => (p, pl, lg, "cap")
  | fuel + 1, p, pl, now, lg =>
    let r := p.poll now (sortNat (p.queries.map (·.id)))
    match r.2 with
    | .idle => (r.1, pl, lg, "idle")
    | .waitingNone => (r.1, pl, lg, "wait")
    | .waitingSome i k =>
      let l := (getLed pl i).getD {}
      drain fuel r.1 (setLed pl i (l.emit k)) now (logEmit lg i k)
    | .finished i q => drain fuel r.1 pl now (logFin lg i "F" (intoResult q))
    | .timeout i q => drain fuel r.1 pl now (logFin lg i "T" (intoResult q))

def showLog (lg : List PLog) : String :=
  let ids := sortNat (lg.map (·.id))
  let parts := ids.filterMap fun i =>
    (lg.find? (·.id == i)).map fun e =>
      let a := if e.emits.isEmpty then "" else s!"/e:{showIds e.emits}"
      let b := match e.fin with
        | some (t, r) => s!"/{t}:{showIds r}"
        | none => ""
      s!"{i}{a}{b}"
  " ".intercalate parts

/-- One op of the query engine: full token list (op name first) → new state and reply line. -/
def queryStep (st : QuerySt) (toks : List String) : QuerySt × String :=
  match toks with
  | ["qnew", v, par, nr, pto, target, init] =>
    match parseVariant v, num? par, num? nr, num? pto, parseId target, parsePairs init with
    | some v, some par, some nr, some pto, some t, some init =>
      let q := withConfig v ⟨par, nr, pto⟩ t init
      ({ st with q := some q, led := {}, lastNow := 0 }, s!"ok {suffix q}")
    | _, _, _, _, _, _ => (st, "bad-op")
  | ["qnext", now] =>
    match st.q, num? now with
    | some q, some now =>
      if now < st.lastNow then (st, "bad-op")
      else
        let r := next q now
        let led := match r.2 with
          | .waiting (some k) => st.led.emit k
          | _ => st.led
        ({ st with q := some r.1, led := led, lastNow := now }, s!"{showQState r.2} {suffix r.1}")
    | none, some _ => (st, "none")
    | _, _ => (st, "bad-op")
  | ["qok", ref, closer] =>
    match st.q, parsePairs closer with
    | some q, some closer =>
      match resolveRef st.led ref with
      | .bad => (st, "bad-op")
      | .none => (st, "none")
      | .peer k =>
        let q' := onSuccess q k closer
        ({ st with q := some q', led := st.led.terminal k }, s!"ok {idHex k} {suffix q'}")
    | none, some _ => (st, "none")
    | _, _ => (st, "bad-op")
  | ["qfail", ref] =>
    match st.q with
    | some q =>
      match resolveRef st.led ref with
      | .bad => (st, "bad-op")
      | .none => (st, "none")
      | .peer k =>
        let q' := onFailure q k
        ({ st with q := some q', led := st.led.terminal k }, s!"ok {idHex k} {suffix q'}")
    | none => (st, "none")
  | ["qpeek"] =>
    match st.q with
    | some q =>
      match q.variant with
      | .closest => (st, s!"res {showIds (intoResult q)}")
      | .predicate => (st, "na")
    | none => (st, "none")
  | ["qdrive", now, cap] =>
    match st.q, num? now, num? cap with
    | some q, some now, some cap =>
      if now < st.lastNow then (st, "bad-op")
      else
        let (q', led, now', n, fin) := drive cap q st.led now 0
        ({ st with q := some q', led := led, lastNow := now' },
         s!"drv {n} {if fin then "fin" else "stuck"} {suffix q'}")
    | none, some _, some _ => (st, "none")
    | _, _, _ => (st, "bad-op")
  | ["qres"] =>
    match st.q with
    | some q => ({ st with q := none }, s!"res {showIds (intoResult q)}")
    | none => (st, "none")
  | ["qpnew", tmo] =>
    match num? tmo with
    | some tmo => ({ st with pool := some (Pool.new tmo), pleds := [] }, "ok")
    | none => (st, "bad-op")
  | ["qpadd", v, par, nr, pto, target, init] =>
    match st.pool, parseVariant v, num? par, num? nr, num? pto, parseId target, parsePairs init with
    | some p, some v, some par, some nr, some pto, some t, some init =>
      let r := p.add (withConfig v ⟨par, nr, pto⟩ t init)
      ({ st with pool := some r.1, pleds := setLed st.pleds r.2 {} }, s!"id {r.2}")
    | none, some _, some _, some _, some _, some _, some _ => (st, "none")
    | _, _, _, _, _, _, _ => (st, "bad-op")
  | ["qpok", id, ref, closer] =>
    match st.pool, num? id, parsePairs closer with
    | some p, some id, some closer =>
      match getLed st.pleds id with
      | none => (st, "gone")
      | some l =>
        match resolveRef l ref with
        | .bad => (st, "bad-op")
        | .none => (st, "none")
        | .peer k =>
          let reached := (p.get id).isSome
          ({ st with pool := some (p.onSuccess id k closer), pleds := setLed st.pleds id (l.terminal k) },
           s!"{if reached then "ok" else "gone"} {idHex k}")
    | none, some _, some _ => (st, "none")
    | _, _, _ => (st, "bad-op")
  | ["qpfail", id, ref] =>
    match st.pool, num? id with
    | some p, some id =>
      match getLed st.pleds id with
      | none => (st, "gone")
      | some l =>
        match resolveRef l ref with
        | .bad => (st, "bad-op")
        | .none => (st, "none")
        | .peer k =>
          let reached := (p.get id).isSome
          ({ st with pool := some (p.onFailure id k), pleds := setLed st.pleds id (l.terminal k) },
           s!"{if reached then "ok" else "gone"} {idHex k}")
    | none, some _ => (st, "none")
    | _, _ => (st, "bad-op")
  | ["qpsleep", _] => (st, "ok")   -- real time passes on the implementation side only
  | ["qppoll", now, cap] =>
    match st.pool, num? now, num? cap with
    | some p, some now, some cap =>
      let (p', pl, lg, fin) := drain cap p st.pleds now []
      let body := showLog lg
      ({ st with pool := some p', pleds := pl }, if body.isEmpty then s!"poll {fin}" else s!"poll {body} {fin}")
    | none, some _, some _ => (st, "none")
    | _, _, _ => (st, "bad-op")
  | _ => (st, "bad-op")

end Discv5.Driver

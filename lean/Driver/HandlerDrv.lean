/- Driver for the handler engine (ops whose name starts with `h`). -/
import Driver.Common
namespace Discv5.Driver

structure HandlerSt where
  dummy : Unit := ()

/-- One op of the handler engine: full token list (op name first) → new state and reply line. -/
def handlerStep (st : HandlerSt) (toks : List String) : HandlerSt × String :=
  match toks with
  | _ => (st, "bad-op")

end Discv5.Driver

/- Driver for the handler engine (ops whose name starts with `h`).

Term syntax (no spaces inside a term):
  addr  `4:n` | `6:n`            na    `id@addr`
  rec   `R:id:seq:u4:u6` (`-` = absent) | `none`
  key   `K:eph:cd:ini:rcp:t|f`   sig   `S:signer:cd:eph:dst`
  rb    `nodes/total/rec;rec…` (`-` = no records) | `other/code`
  msg   `req/rid/body` | `resp/rid/RB` | `undec`
  ct    `E[key|nonce|ctr|msg|ok|bad]` | `G`   (ctr = 4-byte prefix of the nonce; 0 in handshakes)
  pkt   `M~src~nonce~ct` | `W~nonce~cd~seq` | `H~src~nonce~sig~eph~rec~ct`
-/
import Driver.Common
import Discv5Model.Model.Handler
namespace Discv5.Driver
open Discv5.H

/-- Per-node driver state.  `ridMap` (model name, wire name): internal request ids are random in the
implementation, so the harness can only name them in the order in which they first appear on the
wire; the model draws them when they are generated (possibly never sent).  The driver therefore
renames them in its output by first appearance, and maps them back on input. -/
structure NodeSt where
  cfg : Cfg
  st : HState := {}
  ridMap : List (Nat × Nat) := []
  deriving Inhabited

structure HandlerSt where
  nodes : List (Nat × NodeSt) := []

def isInternalRid (cfg : Cfg) (r : Nat) : Bool := r ≥ 1000000 && r / 1000000 == cfg.localId

def ridOut (n : NodeSt) (r : Nat) : NodeSt × Nat :=
  if !isInternalRid n.cfg r then (n, r) else
  match n.ridMap.find? (·.1 == r) with
  | some e => (n, e.2)
  | none =>
    let w := n.cfg.localId * 1000000 + n.ridMap.length + 1
    ({ n with ridMap := n.ridMap ++ [(r, w)] }, w)

def ridIn (n : NodeSt) (r : Nat) : Nat :=
  match n.ridMap.find? (·.2 == r) with
  | some e => e.1
  | none => r

def msgOut (n : NodeSt) : Msg → NodeSt × Msg
  | .request rid b => let (n', r) := ridOut n rid; (n', .request r b)
  | .response rid rb => let (n', r) := ridOut n rid; (n', .response r rb)
  | .undecodable => (n, .undecodable)

def ctOut (n : NodeSt) : Ct → NodeSt × Ct
  | .enc k nn ctr m ok => let (n', m') := msgOut n m; (n', .enc k nn ctr m' ok)
  | .garbage => (n, .garbage)

def outRename (n : NodeSt) : Out → NodeSt × Out
  | .send na (.message src nn ct) => let (n', c) := ctOut n ct; (n', .send na (.message src nn c))
  | .send na (.handshake src nn sig eph r ct) =>
    let (n', c) := ctOut n ct; (n', .send na (.handshake src nn sig eph r c))
  | .response na rid rb => let (n', r) := ridOut n rid; (n', .response na r rb)
  | o => (n, o)

def evRename (n : NodeSt) : Ev → Ev
  | .dgram src (.message s nn (.enc k n2 ctr (.response rid rb) ok)) =>
    .dgram src (.message s nn (.enc k n2 ctr (.response (ridIn n rid) rb) ok))
  | .dgram src (.handshake s nn sig eph r (.enc k n2 ctr (.response rid rb) ok)) =>
    .dgram src (.handshake s nn sig eph r (.enc k n2 ctr (.response (ridIn n rid) rb) ok))
  | e => e

def pAddr (s : String) : Addr :=
  match s.splitOn ":" with
  | [v, n] => { v6 := v == "6", n := nat! n }
  | _ => default

def sAddr (a : Addr) : String := s!"{if a.v6 then "6" else "4"}:{a.n}"

def pNA (s : String) : NA :=
  match s.splitOn "@" with
  | [i, a] => { id := nat! i, addr := pAddr a }
  | _ => default

def sNA (na : NA) : String := s!"{na.id}@{sAddr na.addr}"

def pOptNat (s : String) : Option Nat := if s == "-" then none else some (nat! s)
def sOptNat : Option Nat → String
  | none => "-" | some n => toString n

def pRec (s : String) : Option Rec :=
  match s.splitOn ":" with
  | ["R", i, q, a, b] => some { id := nat! i, seq := nat! q, udp4 := pOptNat a, udp6 := pOptNat b }
  | _ => none

def sRec (r : Rec) : String := s!"R:{r.id}:{r.seq}:{sOptNat r.udp4}:{sOptNat r.udp6}"
def sOptRec : Option Rec → String
  | none => "none" | some r => sRec r

def pKey (s : String) : Key :=
  match s.splitOn ":" with
  | ["K", e, c, i, r, t] => { eph := nat! e, cd := nat! c, ini := nat! i, rcp := nat! r, toRcp := t == "t" }
  | _ => default

def sKey (k : Key) : String := s!"K:{k.eph}:{k.cd}:{k.ini}:{k.rcp}:{if k.toRcp then "t" else "f"}"

def pSig (s : String) : Sig :=
  match s.splitOn ":" with
  | ["S", a, c, e, d] => { signer := nat! a, cd := nat! c, eph := nat! e, dst := nat! d }
  | _ => default

def sSig (g : Sig) : String := s!"S:{g.signer}:{g.cd}:{g.eph}:{g.dst}"

def pRB (parts : List String) : RespBody :=
  match parts with
  | ["nodes", total, recs] =>
    .nodes (nat! total) (if recs == "-" then [] else (recs.splitOn ";").filterMap pRec)
  | ["other", code] => .other (nat! code)
  | _ => .other 0

def sRB : RespBody → String
  | .nodes total recs =>
    s!"nodes/{total}/{if recs.isEmpty then "-" else ";".intercalate (recs.map sRec)}"
  | .other code => s!"other/{code}"

def pMsg (s : String) : Msg :=
  match s.splitOn "/" with
  | ["req", rid, body] => .request (nat! rid) (nat! body)
  | "resp" :: rid :: rb => .response (nat! rid) (pRB rb)
  | _ => .undecodable

def sMsg : Msg → String
  | .request rid body => s!"req/{rid}/{body}"
  | .response rid rb => s!"resp/{rid}/{sRB rb}"
  | .undecodable => "undec"

def pCt (s : String) : Ct :=
  if s == "G" then .garbage else
  let inner := ((s.drop 2).toString.dropEnd 1).toString
  match inner.splitOn "|" with
  | [k, n, ctr, m, ok] => .enc (pKey k) (nat! n) (nat! ctr) (pMsg m) (ok == "ok")
  | _ => .garbage

def sCt : Ct → String
  | .garbage => "G"
  | .enc k n ctr m ok => s!"E[{sKey k}|{n}|{ctr}|{sMsg m}|{if ok then "ok" else "bad"}]"

def pPkt (s : String) : Option Pkt :=
  match s.splitOn "~" with
  | ["M", src, n, ct] => some (.message (nat! src) (nat! n) (pCt ct))
  | ["W", n, cd, q] => some (.whoareyou (nat! n) (nat! cd) (nat! q))
  | ["H", src, n, sig, eph, r, ct] =>
    some (.handshake (nat! src) (nat! n) (pSig sig) (nat! eph) (pRec r) (pCt ct))
  | _ => none

def sPkt : Pkt → String
  | .message src n ct => s!"M~{src}~{n}~{sCt ct}"
  | .whoareyou n cd q => s!"W~{n}~{cd}~{q}"
  | .handshake src n sig eph r ct => s!"H~{src}~{n}~{sSig sig}~{eph}~{sOptRec r}~{sCt ct}"

def sErr : Err → String
  | .timeout => "timeout" | .invalidRemotePacket => "invalid-packet"
  | .invalidRemoteEnr => "invalid-enr" | .selfRequest => "self"

def sOut : Out → String
  | .established r a o => s!"est>{sRec r}>{sAddr a}>{if o then "o" else "i"}"
  | .request na rid body => s!"req>{sNA na}>{rid}>{body}"
  | .response na rid rb => s!"rsp>{sNA na}>{rid}>{sRB rb}"
  | .wru na n => s!"wru>{sNA na}>{n}"
  | .failed rid e => s!"fail>{rid}>{sErr e}"
  | .unverifiable r a i => s!"unv>{sRec r}>{sAddr a}>{i}"
  | .expired nas => s!"exp>{",".intercalate (nas.map sNA)}"
  | .send na p => s!"snd>{sNA na}>{sPkt p}"

def sExempt (l : List (Addr × Nat)) : String :=
  let items := l.map fun (a, n) => s!"{sAddr a}={n}"
  let sorted := items.toArray.qsort (· < ·) |>.toList
  if sorted.isEmpty then "-" else ",".intercalate sorted

def pEv (toks : List String) : Option Ev :=
  match toks with
  | ["appreq", na, r, rid, body] =>
    some (.appRequest { na := pNA na, record := pRec r } (nat! rid) (nat! body))
  -- a contact whose identity key cannot do the key agreement (Ed25519)
  | ["appreq", na, r, rid, body, "nokey"] =>
    some (.appRequest { na := pNA na, record := pRec r, keyOk := false } (nat! rid) (nat! body))
  | ["appresp", na, rid, rb] => some (.appResponse (pNA na) (nat! rid) (pRB (rb.splitOn "/")))
  | ["appwru", na, n, r] => some (.appWru (pNA na) (nat! n) (pRec r))
  | ["dgram", a, p] => (pPkt p).map (.dgram (pAddr a))
  | ["adv", dt] => some (.adv (nat! dt))
  | ["rtadv", dt] => some (.rtAdv (nat! dt))
  | _ => none

/-! ### Simultaneously due request timers

Two request timers armed in the same millisecond (queued requests released together, requests
replayed together after a re-key) are due at the same instant.  Which of them the delay queue
hands out first is decided inside tokio's timer wheel (every slot is a LIFO stack and every cascade to
a lower level reverses it, so the order depends on how the deadline bits relate to the wheel's
elapsed time when the entry was inserted).  Both orders are behaviours of the code; the model fixes
the arming order.  The driver therefore lets time pass deadline by deadline and, whenever several
calls share the earliest deadline, may serve that group in any order - guided by the
reply the implementation gave for this step (passed behind `??`).  Whatever it picks is compared
with the implementation as usual. -/

def insertsAt (x : Nat) : List Nat → List (List Nat)
  | [] => [[x]]
  | y :: ys => (x :: y :: ys) :: (insertsAt x ys).map (y :: ·)

/-- All orders of a list (the first one is the list itself). -/
def orders : List Nat → List (List Nat)
  | [] => [[]]
  | x :: xs => (orders xs).flatMap (insertsAt x)

/-- Re-assigns the arming numbers within the calls whose deadline is `d`: the `k`-th order of their
arming numbers (`k = 0`: unchanged). -/
def permuteTies (s : HState) (d : Nat) (k : Nat) : HState :=
  let grp := s.active.filter (·.deadline == d)
  let seqs := (grp.map (·.tseq)).toArray.qsort (· < ·) |>.toList
  -- all orders for groups of up to four calls; arming order or its reverse for larger ones
  let perm? : Option (List Nat) :=
    if seqs.length ≤ 4 then (orders seqs)[k]?
    else if k == 1 then some seqs.reverse else if k == 0 then some seqs else none
  match perm? with
  | none => s
  | some perm =>
    let pairs := seqs.zip perm
    { s with active := s.active.map fun cl =>
        if cl.deadline == d then
          match pairs.find? (·.1 == cl.tseq) with
          | some (_, q) => { cl with tseq := q }
          | none => cl
        else cl }

/-- Lets time pass until `target` one deadline at a time; `choices` says for each group of
simultaneously due calls met on the way in which order it is served.  Returns the sizes of the
groups met. -/
def advSplit (cfg : Cfg) (target : Nat) :
    Nat → HState → List Nat → List Out → List Nat → HState × List Out × List Nat
  | 0, s, _, acc, ns => (s, acc, ns)
  | fuel + 1, s, choices, acc, ns =>
    match nextDue s target with
    | none =>
      let (s', o) := step cfg s (.adv (target - s.now))
      (s', acc ++ o, ns)
    | some (d, _) =>
      let grp := s.active.filter (·.deadline == d)
      let tied := grp.length ≥ 2
      let (k, choices') := if tied then (choices.headD 0, choices.drop 1) else (0, choices)
      let s0 := if k != 0 then permuteTies s d k else s
      let (s', o) := step cfg s0 (.adv (d - s0.now))
      advSplit cfg target fuel s' choices' (acc ++ o) (if tied then ns ++ [grp.length] else ns)

def factorial : Nat → Nat
  | 0 => 1
  | n + 1 => (n + 1) * factorial n

/-- Choice vectors for groups of the given sizes (mixed radix), at most `limit` of them. -/
def choiceVectors (sizes : List Nat) (limit : Nat) : List (List Nat) :=
  let radices := sizes.map fun n => if n ≤ 4 then factorial n else 2
  let total := min limit (radices.foldl (· * ·) 1)
  (List.range total).map fun i =>
    (radices.foldl (fun (p : Nat × List Nat) r => (p.1 / r, p.2 ++ [p.1 % r])) (i, [])).2

/-- Renders the outcome of one `hev` step (renaming, events before sends, exemption map). -/
def renderStep (nd : NodeSt) (s' : HState) (outs0 : List Out) : NodeSt × String :=
  let (nd1, outs) := outs0.foldl (fun (p : NodeSt × List Out) o =>
    let (n', o') := outRename p.1 o; (n', p.2 ++ [o'])) ({ nd with st := s' }, [])
  -- events and datagrams leave through two channels: events first, then sends
  let isSend : Out → Bool := fun o => match o with | .send .. => true | _ => false
  let outs := outs.filter (fun o => !isSend o) ++ outs.filter isSend
  let o := if outs.isEmpty then "-" else " ".intercalate (outs.map sOut)
  (nd1, s!"{o} ## {sExempt s'.exempt}")

def hOne (st : HandlerSt) (toks : List String) (hint : Option String := none) : HandlerSt × String :=
  match toks with
  | ["hnew", node, localSeq, retries, timeout, ttl, cap, fn0, listen, u4, u6] =>
    let id := nat! node
    let cfg : Cfg := {
      localId := id, localSeq := nat! localSeq,
      localRec := { id := id, seq := nat! localSeq, udp4 := pOptNat u4, udp6 := pOptNat u6 },
      requestRetries := nat! retries, requestTimeout := nat! timeout, sessionTtl := nat! ttl,
      sessionCap := nat! cap, listen := if listen == "-" then [] else (listen.splitOn ",").map pAddr,
      findnode0 := nat! fn0 }
    ({ nodes := st.nodes.filter (·.1 != id) ++ [(id, { cfg := cfg })] }, "ok")
  | "hev" :: node :: rest =>
    let id := nat! node
    match st.nodes.find? (·.1 == id), pEv rest with
    | some (_, nd), some ev0 =>
      let cfg := nd.cfg
      let put := fun (nd1 : NodeSt) (r : String) =>
        (({ nodes := st.nodes.map fun e => if e.1 == id then (id, nd1) else e } : HandlerSt), r)
      match evRename nd ev0 with
      | .adv dt =>
        let target := nd.st.now + dt
        -- arming order first; other orders only if simultaneously due calls were met
        let (s0, o0, sizes) := advSplit cfg target 10000 nd.st [] [] []
        let (nd0, r0) := renderStep nd s0 o0
        if sizes.isEmpty || hint == some r0 || hint == none then put nd0 r0 else
        let cands := (choiceVectors sizes 3000).drop 1
        let found := cands.findSome? fun ch =>
          let (s1, o1, _) := advSplit cfg target 10000 nd.st ch [] []
          let (nd1, r1) := renderStep nd s1 o1
          if hint == some r1 then some (nd1, r1) else none
        match found with
        | some (nd1, r1) => put nd1 r1
        | none => put nd0 r0
      | ev =>
        let (s', outs0) := step cfg nd.st ev
        let (nd1, r) := renderStep nd s' outs0
        put nd1 r
    | _, _ => (st, "bad-op")
  | _ => (st, "bad-op")

/-- Splits a token list at `;;` separators. -/
def splitMulti (toks : List String) : List (List String) :=
  let (cur, acc) := toks.foldl (fun (p : List String × List (List String)) t =>
    if t == ";;" then ([], p.2 ++ [p.1]) else (p.1 ++ [t], p.2)) ([], [])
  acc ++ [cur]

/-- Ops may carry the implementation's reply behind `??` (only consulted for the order of
simultaneously due timers, see above). -/
def splitHint (toks : List String) : List String × Option (List String) :=
  match toks.idxOf? "??" with
  | some i => (toks.take i, some (toks.drop (i + 1)))
  | none => (toks, none)

def handlerStep (st : HandlerSt) (toks0 : List String) : HandlerSt × String :=
  let (toks, hintToks) := splitHint toks0
  match toks with
  | "hmulti" :: rest =>
    let segs := (splitMulti rest).filter (!·.isEmpty)
    let hints : List (Option String) := match hintToks with
      | some h => (splitMulti h).map fun ts => some (" ".intercalate ts)
      | none => []
    let (st', outs, _) := segs.foldl (fun (p : HandlerSt × List String × Nat) ts =>
      let (s, o) := hOne p.1 ts ((hints[p.2.2]?).join)
      (s, p.2.1 ++ [o], p.2.2 + 1)) (st, [], 0)
    (st', if outs.isEmpty then "-" else " ;; ".intercalate outs)
  | "hnop" :: _ => (st, "-")
  | _ => hOne st toks (hintToks.map fun h => " ".intercalate h)

end Discv5.Driver

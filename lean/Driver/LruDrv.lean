/- Driver for the lru engine (ops whose name starts with `c`).

  cnew TTL CAP        (CAP = number | none)      → ok
  cins T K V                                      → ok
  cget T K | cpeek T K | crm T K                  → some V | none
  cgm T K W           (get_mut, then *v = W)      → some V | none     (V = value before the write)
  clen T                                          → N
  csweep T            (remove_expired_values)     → keys K1,K2,… | keys -

`T` is the scripted time in milliseconds since the start of the case (the harness sleeps in
real time; the model only ever sees the scripted value). -/
import Driver.Common
import Discv5Model.Model.Lru
namespace Discv5.Driver
open Discv5.Lru

structure LruSt where
  cache : Option (Cache Nat Nat) := none

def showOpt : Option Nat → String
  | some v => s!"some {v}"
  | none => "none"

def showKeys (ks : List Nat) : String :=
  if ks.isEmpty then "keys -" else "keys " ++ ",".intercalate (ks.map toString)

def showReply : Reply Nat Nat → String
  | .unit => "ok"
  | .val o => showOpt o
  | .num n => toString n
  | .keys ks => showKeys ks

def parseLruOp : List String → Option (Nat × Op Nat Nat)
  | ["cins", t, k, v] => some (nat! t, .insert (nat! k) (nat! v))
  | ["cget", t, k] => some (nat! t, .get (nat! k))
  | ["cgm", t, k, w] => some (nat! t, .getMut (nat! k) (nat! w))
  | ["cpeek", t, k] => some (nat! t, .peek (nat! k))
  | ["clen", t] => some (nat! t, .len)
  | ["crm", t, k] => some (nat! t, .remove (nat! k))
  | ["csweep", t] => some (nat! t, .sweep)
  | _ => none

/-- One op of the lru engine: full token list (op name first) → new state and reply line. -/
def lruStep (st : LruSt) (toks : List String) : LruSt × String :=
  match toks with
  | ["cnew", ttl, cap] =>
    ({ cache := some (Lru.new (nat! ttl) (if cap == "none" then none else some (nat! cap))) }, "ok")
  | _ =>
    match st.cache, parseLruOp toks with
    | some c, some (t, op) =>
      let r := Lru.step c t op
      ({ cache := some r.1 }, showReply r.2)
    | _, _ => (st, "bad-op")

end Discv5.Driver

/- Driver for the lru engine (ops whose name starts with `c`). -/
import Driver.Common
namespace Discv5.Driver

structure LruSt where
  dummy : Unit := ()

/-- One op of the lru engine: full token list (op name first) → new state and reply line. -/
def lruStep (st : LruSt) (toks : List String) : LruSt × String :=
  match toks with
  | _ => (st, "bad-op")

end Discv5.Driver

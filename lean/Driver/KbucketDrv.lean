/- Driver for the kbucket engine (ops whose name starts with `k`). -/
import Driver.Common
namespace Discv5.Driver

structure KbucketSt where
  dummy : Unit := ()

/-- One op of the kbucket engine: full token list (op name first) → new state and reply line. -/
def kbucketStep (st : KbucketSt) (toks : List String) : KbucketSt × String :=
  match toks with
  | _ => (st, "bad-op")

end Discv5.Driver

/- Driver for the kbucket engine (ops whose name starts with `k`). -/
import Driver.Common
import Discv5Model.Model.Closest
import Discv5Model.Model.IpFilter
namespace Discv5.Driver
open Discv5.KB

structure KbucketSt where
  cfg : Cfg Val := { maxIncoming := 16, pendingTimeout := 0, bucketFilter := fun _ _ => true,
                     tableFilter := fun _ _ => true }
  table : Table Val := Table.init 0
  now : Nat := 0

def keyOf (s : String) : Nat := beNat (hex! s)

def showKey (k : Nat) : String := toHex (beBytes 32 k)

/-- `v<id>:<subnet|->` -/
def parseVal (s : String) : Val :=
  match fields s with
  | [id, sub] => { id := nat! (id.drop 1).toString, subnet := if sub == "-" then none else some (nat! sub) }
  | _ => { id := 0, subnet := none }

def showFail : Fail → String
  | .tooManyIncoming => "too-many-incoming" | .bucketFilter => "bucket-filter"
  | .tableFilter => "table-filter" | .keyNonExistent => "no-key" | .bucketFull => "bucket-full"
  | .invalidSelfUpdate => "self"

def showUpd : UpdateRes → String
  | .updated => "updated" | .updatedAndPromoted => "promoted" | .updatedPending => "updated-pending"
  | .failed r => s!"failed:{showFail r}" | .notModified => "not-modified" | .panic => "panic"

def showIns : TInsertRes → String
  | .inserted => "inserted" | .pending d => s!"pending:{showKey d}"
  | .statusUpdated p => s!"status-updated:{p}" | .valueUpdated => "value-updated"
  | .updated p => s!"updated:{p}" | .updatedPending => "updated-pending"
  | .failed r => s!"failed:{showFail r}" | .panic => "panic"

def showNode (n : Node Val) : String :=
  s!"{showKey n.key}/{if n.st.conn then "c" else "d"}/{if n.st.incoming then "i" else "o"}/v{n.value.id}"

def dump (t : Table Val) : String :=
  let parts := (List.range numBuckets).filterMap fun i =>
    let b := t.bucket i
    if b.nodes.isEmpty && b.pending.isNone then none else
    let p := match b.pending with
      | some p => s!"{showKey p.node.key}/{if p.node.st.conn then "c" else "d"}/{if p.node.st.incoming then "i" else "o"}/v{p.node.value.id}"
      | none => "-"
    some s!"{i}:[{",".intercalate (b.nodes.map showNode)}]nc={b.numConnected}/p={p}"
  if parts.isEmpty then "empty" else " ".intercalate parts

def parseBoolOpt (s : String) : Option Bool :=
  if s == "c" || s == "i" then some true else if s == "d" || s == "o" then some false else none

def kbucketStep (st : KbucketSt) (toks : List String) : KbucketSt × String :=
  match toks with
  | ["knew", loc, pendingMs, maxIn, tf, bf] =>
    let cfg : Cfg Val := {
      maxIncoming := nat! maxIn, pendingTimeout := nat! pendingMs,
      bucketFilter := if bf == "ip" then ipBucketFilter else fun _ _ => true,
      tableFilter := if tf == "ip" then ipTableFilter else fun _ _ => true }
    ({ cfg := cfg, table := Table.init (keyOf loc), now := 0 }, "ok")
  | ["ksleep", ms] => ({ st with now := st.now + nat! ms }, "ok")
  | ["kins", key, val, conn, dir] =>
    let (t, r) := st.table.insertOrUpdate st.cfg st.now (keyOf key) (parseVal val)
      { conn := conn == "c", incoming := dir == "i" }
    ({ st with table := t }, showIns r)
  | ["kupd", key, val, state] =>
    let (t, r) := st.table.updateNode st.cfg st.now (keyOf key) (parseVal val) (parseBoolOpt state)
    ({ st with table := t }, showUpd r)
  | ["kstatus", key, state, dir] =>
    let (t, r) := st.table.updateNodeStatus st.cfg st.now (keyOf key) (state == "c") (parseBoolOpt dir)
    ({ st with table := t }, showUpd r)
  | ["krm", key] =>
    let (t, r) := st.table.remove st.cfg st.now (keyOf key)
    ({ st with table := t }, s!"{r}")
  | ["kentry", key] =>
    let t := st.table.entryTouch st.cfg st.now (keyOf key)
    let k := keyOf key
    let r := match bucketIndex t.localKey k with
      | none => "self"
      | some i =>
        let b := t.bucket i
        match b.nodes.find? (fun n => n.key == k) with
        | some n => s!"present:{showNode n}"
        | none => match b.pending with
          | some p => if p.node.key == k then s!"pending:v{p.node.value.id}" else "absent"
          | none => "absent"
    ({ st with table := t }, r)
  | ["kiter"] =>
    let t := st.table.applyAll st.cfg st.now
    ({ st with table := t }, ",".intercalate (t.allNodes.map fun n => showKey n.key) |> fun s => if s.isEmpty then "-" else s)
  | ["kclosest", target] =>
    let (t, ns) := st.table.closest st.cfg st.now (keyOf target)
    let s := ",".intercalate (ns.map fun n => showKey n.key)
    ({ st with table := t }, if s.isEmpty then "-" else s)
  | ["kclosestp", target, m] =>
    let (t, ns) := st.table.closestPred st.cfg st.now (keyOf target) (fun v => v.id % (nat! m) == 0)
    let s := ",".intercalate (ns.map fun (n, f) => s!"{showKey n.key}/{f}")
    ({ st with table := t }, if s.isEmpty then "-" else s)
  | ["kbydist", ds, maxN] =>
    let dl := if ds == "-" then [] else (ds.splitOn ",").map nat!
    let (t, ns) := st.table.nodesByDistances st.cfg st.now dl (nat! maxN)
    let s := ",".intercalate (ns.map fun n => showKey n.key)
    ({ st with table := t }, if s.isEmpty then "-" else s)
  | ["ktake"] =>
    let (t, a) := st.table.takeApplied
    let r := match a with
      | none => "none"
      | some a => s!"{showKey a.inserted}/{match a.evicted with | some e => showKey e | none => "-"}"
    ({ st with table := t }, r)
  | ["kdiscv5", _, _] => (st, "ok")  -- configuration-level monitor on the implementation only
  | ["kdump"] => (st, dump st.table)
  | _ => (st, "bad-op")

end Discv5.Driver

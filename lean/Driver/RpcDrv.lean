/- Driver for the rpc engine (ops `renc`, `rdec`). -/
import Driver.Common
import Discv5Model.Model.Rpc
namespace Discv5.Driver
open Discv5.Rpc Discv5.Rlp

structure RpcSt where
  dummy : Unit := ()

/-- `a,b,c` (or `-` for the empty list). -/
def commaList (s : String) : List String := if s == "-" then [] else s.splitOn ","

/-- Message syntax (shared with the harness):
`ping:ID:SEQ`, `pong:ID:SEQ:4|6:IP:PORT`, `findnode:ID:D,D,…`, `nodes:ID:TOTAL:REC,REC,…`,
`talkreq:ID:PROTO:REQ`, `talkresp:ID:RESP`. -/
def parseMsg (s : String) : Option Message :=
  match fields s with
  | ["ping", id, seq] => some ⟨hex! id, .ping (nat! seq)⟩
  | ["pong", id, seq, fam, ip, port] =>
      some ⟨hex! id, .pong (nat! seq) (if fam == "4" then .v4 (hex! ip) else .v6 (hex! ip)) (nat! port)⟩
  | ["findnode", id, ds] => some ⟨hex! id, .findNode ((commaList ds).map nat!)⟩
  | ["nodes", id, total, recs] => some ⟨hex! id, .nodes (nat! total) ((commaList recs).map hex!)⟩
  | ["talkreq", id, p, r] => some ⟨hex! id, .talkReq (hex! p) (hex! r)⟩
  | ["talkresp", id, r] => some ⟨hex! id, .talkResp (hex! r)⟩
  | _ => none

def showList (xs : List String) : String := if xs.isEmpty then "-" else ",".intercalate xs

def showMsg (m : Message) : String :=
  let id := hexOrDash m.id
  match m.body with
  | .ping seq => s!"ping:{id}:{seq}"
  | .pong seq ip port =>
      let (fam, b) := match ip with | .v4 b => ("4", b) | .v6 b => ("6", b)
      s!"pong:{id}:{seq}:{fam}:{hexOrDash b}:{port}"
  | .findNode ds => s!"findnode:{id}:{showList (ds.map toString)}"
  | .nodes total recs => s!"nodes:{id}:{total}:{showList (recs.map hexOrDash)}"
  | .talkReq p r => s!"talkreq:{id}:{hexOrDash p}:{hexOrDash r}"
  | .talkResp r => s!"talkresp:{id}:{hexOrDash r}"

/-- Sentinel returned for an item the harness gave no oracle answer for. -/
def oracleMiss : Bytes := [0xde, 0xad]

/-- `ITEM=RESULT,ITEM=RESULT,…` (or `-`): the answers of the real record decoder; RESULT is the
canonical re-encoding or `bad`. -/
def parseOracle (s : String) : List (Bytes × Option Bytes) :=
  (commaList s).filterMap fun e =>
    match e.splitOn "=" with
    | [item, res] => some (hex! item, if res == "bad" then none else some (hex! res))
    | _ => none

def oracleFn (tbl : List (Bytes × Option Bytes)) : Bytes → Option Bytes := fun item =>
  match tbl.find? (fun e => e.1 == item) with
  | some e => e.2
  | none => some oracleMiss

/-- `renc MSG` → encoded bytes. -/
def renc : List String → String
  | [msg] =>
    match parseMsg msg with
    | some m => toHex (encode m)
    | none => "bad-op"
  | _ => "bad-op"

/-- `rdec DATA ORACLE` → `ok MSG` / `err:kind` / `panic`. -/
def rdec : List String → String
  | [data, oracle] =>
    match decode (oracleFn (parseOracle oracle)) (hex! data) with
    | .ok m =>
      let missed := match m.body with
        | .nodes _ recs => recs.any (· == oracleMiss)
        | _ => false
      if missed then "oracle-miss" else s!"ok {showMsg m}"
    | .err e => s!"err:{e.toString}"
    | .panic => "panic"
  | _ => "bad-op"

/-- One op of the rpc engine: full token list (op name first) → new state and reply line. -/
def rpcStep (st : RpcSt) (toks : List String) : RpcSt × String :=
  match toks with
  | "renc" :: args => (st, renc args)
  | "rdec" :: args => (st, rdec args)
  | _ => (st, "bad-op")

end Discv5.Driver

/- Driver for the rpc engine (ops whose name starts with `r`). -/
import Driver.Common
namespace Discv5.Driver

structure RpcSt where
  dummy : Unit := ()

/-- One op of the rpc engine: full token list (op name first) → new state and reply line. -/
def rpcStep (st : RpcSt) (toks : List String) : RpcSt × String :=
  match toks with
  | _ => (st, "bad-op")

end Discv5.Driver
